/-
Node-level and tree-level facts for the cluster-level commit-safety proof (Sys/Commit.lean, Props/C02Sys.lean).

Part 1 — the tree of created entries (`LogRel.CEntry`, ledger `created` of Sys/Replication.lean): root paths,
`Holds` (a list of entries holds an (index, term) pair), the ancestor relation `Anc` between (index, term)
keys, and its stability when the ledger grows.
Part 2 — two-state relations over `Node.step`, for the operations of the `_partial` model (fixed, stable
configuration; no snapshots): what happens to the flushed part of the log, to the commit index, to the
leader's match-index table and to the durable (term, vote) pair — also at every crash point of the step.
-/
import RaftVerif.Props.C04Sys
import RaftVerif.Props.C06
import RaftVerif.Props.C02
import RaftVerif.Props.C03

namespace Raft
namespace CommitRel
open Node LogRel Replication

/-! ## Part 1: paths and ancestors in the tree of created entries -/

/-- a root path of the tree: entries with the indexes 1, 2, …, each recorded with the term of its predecessor -/
def Path (T : List CEntry) (es : List Entry) : Prop := Chain T none es ∧ Contig es

/-- the list (a log, a root path) holds an entry with term `τ` at index `k ≥ 1` -/
def Holds (es : List Entry) (k τ : Nat) : Prop := 1 ≤ k ∧ k ≤ es.length ∧ termAt es k = τ

/-- (index, term) of a created entry -/
def key (c : CEntry) : Nat × Nat := (c.e.index, c.e.term)

/-- `a` is an ancestor of (or equal to) `c`: some root path holds both, `a` not after `c`.
(With at most one record per (index, term) — `Replication.Uniq` — every root path that holds `c` holds `a`.) -/
def Anc (T : List CEntry) (a c : Nat × Nat) : Prop :=
  a.1 ≤ c.1 ∧ ∃ es, Path T es ∧ Holds es c.1 c.2 ∧ Holds es a.1 a.2

theorem Path.mono {T T' : List CEntry} (h : ∀ c ∈ T, c ∈ T') {es : List Entry} (p : Path T es) : Path T' es :=
  ⟨p.1.mono h, p.2⟩

theorem Path.prefix {T : List CEntry} {l es : List Entry} (p : Path T es) (hp : l <+: es) : Path T l :=
  ⟨p.1.prefix hp, contig_prefix p.2 hp⟩

theorem Anc.mono {T T' : List CEntry} (h : ∀ c ∈ T, c ∈ T') {a c : Nat × Nat} (ha : Anc T a c) : Anc T' a c := by
  obtain ⟨h1, es, p, h2, h3⟩ := ha
  exact ⟨h1, es, p.mono h, h2, h3⟩

theorem holds_get {es : List Entry} {k τ : Nat} (h : Holds es k τ) :
    ∃ e, es[k - 1]? = some e ∧ e.term = τ := by
  obtain ⟨h1, h2, h3⟩ := h
  have hk : k - 1 < es.length := by omega
  refine ⟨es[k - 1], List.getElem?_eq_getElem hk, ?_⟩
  unfold termAt at h3
  rw [if_neg (by omega), List.getElem?_eq_getElem hk] at h3
  exact h3

theorem holds_of_get {es : List Entry} {k : Nat} {e : Entry} (hk : 1 ≤ k) (h : es[k - 1]? = some e) :
    Holds es k e.term := by
  obtain ⟨hl, _⟩ := List.getElem?_eq_some_iff.mp h
  refine ⟨hk, by omega, ?_⟩
  unfold termAt
  rw [if_neg (by omega), h]; rfl

theorem holds_prefix {l es : List Entry} {k τ : Nat} (hp : l <+: es) (h : Holds l k τ) : Holds es k τ := by
  obtain ⟨r, hr⟩ := hp
  obtain ⟨h1, h2, h3⟩ := h
  subst hr
  exact ⟨h1, by rw [List.length_append]; omega, by rw [termAt_append_left _ _ _ h2]; exact h3⟩

theorem holds_of_prefix {l es : List Entry} {k τ : Nat} (hp : l <+: es) (h : Holds es k τ) (hk : k ≤ l.length) :
    Holds l k τ := by
  obtain ⟨r, hr⟩ := hp
  obtain ⟨h1, _, h3⟩ := h
  subst hr
  exact ⟨h1, hk, by rw [← termAt_append_left _ r _ hk]; exact h3⟩

theorem holds_unique {es : List Entry} {k τ τ' : Nat} (h : Holds es k τ) (h' : Holds es k τ') : τ = τ' := by
  rw [← h.2.2, ← h'.2.2]

theorem path_seg {T : List CEntry} {es : List Entry} (p : Path T es) : C04Sys.Seg T 0 none es :=
  ⟨p.1, fun k h => by rw [p.2 k h]; omega⟩

theorem segGet_zero (es : List Entry) (k : Nat) (hk : 1 ≤ k) : C04Sys.segGet 0 es k = es[k - 1]? := by
  unfold C04Sys.segGet
  rw [if_pos (by omega), Nat.sub_zero]

/-- two root paths that hold the same (index, term) hold the same entries up to that index -/
theorem path_agree {T : List CEntry} (hU : Uniq T) {es es' : List Entry} (p : Path T es) (p' : Path T es')
    {k τ : Nat} (h : Holds es k τ) (h' : Holds es' k τ) (j : Nat) (hj1 : 1 ≤ j) (hjk : j ≤ k) :
    es[j - 1]? = es'[j - 1]? := by
  obtain ⟨e, he, het⟩ := holds_get h
  obtain ⟨e', he', het'⟩ := holds_get h'
  have hjl : j - 1 < es.length := by have := h.2.1; omega
  have hjl' : j - 1 < es'.length := by have := h'.2.1; omega
  have := C04Sys.seg_match hU (path_seg p) (path_seg p') (k - j) k j (by omega) e e'
    (by rw [segGet_zero _ _ h.1]; exact he) (by rw [segGet_zero _ _ h'.1]; exact he') (by rw [het, het'])
    es[j - 1] es'[j - 1] (by rw [segGet_zero _ _ hj1]; exact List.getElem?_eq_getElem hjl)
    (by rw [segGet_zero _ _ hj1]; exact List.getElem?_eq_getElem hjl')
  rw [List.getElem?_eq_getElem hjl, List.getElem?_eq_getElem hjl', this]

/-- what one root path holds below a key, every root path through that key holds -/
theorem holds_transfer {T : List CEntry} (hU : Uniq T) {es es' : List Entry} (p : Path T es) (p' : Path T es')
    {k τ : Nat} (h : Holds es k τ) (h' : Holds es' k τ) {j σ : Nat} (hj : Holds es j σ) (hjk : j ≤ k) :
    Holds es' j σ := by
  have e := path_agree hU p p' h h' j hj.1 hjk
  obtain ⟨x, hx, hxt⟩ := holds_get hj
  rw [e] at hx
  have := holds_of_get hj.1 hx
  rw [hxt] at this
  exact this

/-- **ancestors are on every path**: a root path that holds `c` holds every ancestor of `c` -/
theorem Anc.on_path {T : List CEntry} (hU : Uniq T) {a c : Nat × Nat} (h : Anc T a c) {es : List Entry}
    (p : Path T es) (hc : Holds es c.1 c.2) : Holds es a.1 a.2 := by
  obtain ⟨h1, es0, p0, c0, a0⟩ := h
  exact holds_transfer hU p0 p c0 hc a0 h1

theorem anc_of_path {T : List CEntry} {es : List Entry} (p : Path T es) {a c : Nat × Nat}
    (ha : Holds es a.1 a.2) (hc : Holds es c.1 c.2) (h : a.1 ≤ c.1) : Anc T a c :=
  ⟨h, es, p, hc, ha⟩

theorem Anc.refl_of_holds {T : List CEntry} {es : List Entry} (p : Path T es) {a : Nat × Nat}
    (ha : Holds es a.1 a.2) : Anc T a a := anc_of_path p ha ha (Nat.le_refl _)

theorem Anc.trans {T : List CEntry} (hU : Uniq T) {a b c : Nat × Nat} (h1 : Anc T a b) (h2 : Anc T b c) :
    Anc T a c := by
  obtain ⟨l2, es, p, hc, hb⟩ := h2
  exact ⟨Nat.le_trans h1.1 l2, es, p, hc, h1.on_path hU p hb⟩

/-- two ancestors of one key are comparable -/
theorem Anc.comparable {T : List CEntry} (hU : Uniq T) {a b c : Nat × Nat} (h1 : Anc T a c) (h2 : Anc T b c)
    (h : a.1 ≤ b.1) : Anc T a b := by
  obtain ⟨_, es, p, hc, hb⟩ := h2
  exact ⟨h, es, p, hb, h1.on_path hU p hc⟩

/-- an ancestor with the same index is the key itself -/
theorem Anc.eq_of_index {T : List CEntry} {a c : Nat × Nat} (h : Anc T a c) (hi : a.1 = c.1) : a = c := by
  obtain ⟨_, es, _, hc, ha⟩ := h
  rw [hi] at ha
  exact Prod.ext hi (holds_unique ha hc)

theorem Anc.index_pos {T : List CEntry} {a c : Nat × Nat} (h : Anc T a c) : 1 ≤ a.1 ∧ 1 ≤ c.1 := by
  obtain ⟨_, es, _, hc, ha⟩ := h
  exact ⟨ha.1, hc.1⟩

/-- every record of the ledger lies on a root path of the ledger (the ledger is closed under predecessors) -/
def PathClosed (T : List CEntry) : Prop :=
  ∀ c ∈ T, ∃ es, Path T es ∧ Holds es c.e.index c.e.term

/-- **non-ancestry is stable** when the ledger grows (keeping at most one record per (index, term)), for a key
that already had a root path -/
theorem not_anc_mono {T T' : List CEntry} (hsub : ∀ c ∈ T, c ∈ T') (hU' : Uniq T') {a c : Nat × Nat}
    (hc : ∃ es, Path T es ∧ Holds es c.1 c.2) (h : ¬ Anc T a c) : ¬ Anc T' a c := by
  intro h'
  obtain ⟨es, p, hes⟩ := hc
  exact h ⟨h'.1, es, p, hes, h'.on_path hU' (p.mono hsub) hes⟩

/-- the terms along a root path do not decrease when every record's predecessor term is at most its own term -/
theorem path_terms_mono {T : List CEntry} (hm : ∀ c ∈ T, c.pt ≤ c.e.term) {es : List Entry} (p : Path T es) :
    ∀ (d j : Nat), 1 ≤ j → j + d ≤ es.length → termAt es j ≤ termAt es (j + d) := by
  intro d
  induction d with
  | zero => intro j _ _; exact Nat.le_refl _
  | succ d ih =>
    intro j hj1 hk
    refine Nat.le_trans (ih j hj1 (by omega)) ?_
    -- one step: index j+d to j+d+1
    have hlt : j + d < es.length := by omega
    obtain ⟨c, hcT, hce, hc1, _⟩ := C04Sys.chain_get p.1 (j + d) es[j + d] (List.getElem?_eq_getElem hlt)
    have hpt := hc1 (es[j + d - 1]'(by omega)) (by omega) (List.getElem?_eq_getElem (by omega))
    have h1 : termAt es (j + d) = (es[j + d - 1]'(by omega)).term := by
      unfold termAt
      rw [if_neg (by omega), List.getElem?_eq_getElem (by omega)]; rfl
    have h2 : termAt es (j + d + 1) = es[j + d].term := by
      unfold termAt
      rw [if_neg (by omega)]
      have : j + d + 1 - 1 = j + d := by omega
      rw [this, List.getElem?_eq_getElem hlt]; rfl
    show termAt es (j + d) ≤ termAt es (j + d + 1)
    rw [h1, h2, ← hpt, ← hce]
    exact hm c hcT

theorem holds_terms_mono {T : List CEntry} (hm : ∀ c ∈ T, c.pt ≤ c.e.term) {es : List Entry} (p : Path T es)
    {j k σ τ : Nat} (hj : Holds es j σ) (hk : Holds es k τ) (hjk : j ≤ k) : σ ≤ τ := by
  have := path_terms_mono hm p (k - j) j hj.1 (by have := hk.2.1; omega)
  rw [hj.2.2] at this
  have e : j + (k - j) = k := by omega
  rw [e, hk.2.2] at this
  exact this

/-- ancestors have smaller or equal terms -/
theorem Anc.term_le {T : List CEntry} (hm : ∀ c ∈ T, c.pt ≤ c.e.term) {a c : Nat × Nat} (h : Anc T a c) :
    a.2 ≤ c.2 := by
  obtain ⟨h1, es, p, hc, ha⟩ := h
  exact holds_terms_mono hm p ha hc h1

/-- a log entry gives `Holds` for its own coordinates -/
theorem holds_of_lt {es : List Entry} (k : Nat) (h : k < es.length) :
    Holds es (k + 1) es[k].term := by
  have := holds_of_get (es := es) (k := k + 1) (e := es[k]) (by omega)
    (by rw [Nat.add_sub_cancel]; exact List.getElem?_eq_getElem h)
  exact this

/-- the record of a path entry -/
theorem path_record {T : List CEntry} {es : List Entry} (p : Path T es) {k τ : Nat} (h : Holds es k τ) :
    ∃ c ∈ T, c.e.index = k ∧ c.e.term = τ ∧ es[k - 1]? = some c.e := by
  obtain ⟨h1, h2, h3⟩ := h
  have hk : k - 1 < es.length := by omega
  obtain ⟨e, he, het⟩ := holds_get ⟨h1, h2, h3⟩
  obtain ⟨c, hcT, hce, _⟩ := C04Sys.chain_get p.1 (k - 1) e he
  have hee : e = es[k - 1] := by
    rw [List.getElem?_eq_getElem hk] at he
    injection he with he; exact he.symm
  refine ⟨c, hcT, ?_, ?_, ?_⟩
  · rw [hce, hee, p.2 _ hk]; omega
  · rw [hce, het]
  · rw [hce]; exact he


/-! ## Part 2a: handlers that touch neither the log, the commit index, the state machine nor the leader table -/

/-- a (term, vote) pair that may appear — in memory or on disk — during a step that started in `b`: the term
does not go back, and the vote is 0, or the pair is `b`'s, or the pair is allowed by `A` -/
def PairOK (b : Node) (A : Nat → Nat → Prop) (t v : Nat) : Prop :=
  b.term ≤ t ∧ (v = 0 ∨ (t = b.term ∧ v = b.votedFor) ∨ A t v)

theorem PairOK.mono {b : Node} {A A' : Nat → Nat → Prop} (h : ∀ t v, A t v → A' t v) {t v : Nat}
    (hp : PairOK b A t v) : PairOK b A' t v :=
  ⟨hp.1, hp.2.imp id (fun x => x.imp id (h t v))⟩

/-- Relative to `b`: log (with its flushed mark and segments), cached last coordinates, snapshot data, commit
index, state machine, leader table, configurations and identity are those of `b`; memory and disk agree on
(term, vote), which is an allowed pair; every crash point recorded since holds the durable part of `b`'s log
and an allowed pair. -/
structure SX (b : Node) (A : Nat → Nat → Prop) (K : Prop) (s : Node) : Prop where
  core : LCore s = LCore b
  ci : s.commitIndex = b.commitIndex
  fsm : s.fsm = b.fsm
  ldr : K → s.ldr = b.ldr
  cfg : s.configs = b.configs
  nid : s.nid = b.nid
  wf : C05.VoteWF s
  pair : PairOK b A s.term s.votedFor
  tr : ∀ p ∈ s.trace, p ∈ b.trace ∨
    (p.2.log = b.log.durable ∧ p.2.snaps = b.snapsDisk ∧ PairOK b A p.2.term p.2.vote)

/-- the fields `SX` looks at -/
def xobs (s : Node) : (NLog × Nat × Nat × Nat × List SnapFile) × Nat × Fsm × Leader × Configs × Nat ×
    (Nat × Nat × Nat × Nat) × List (String × Durable) :=
  (LCore s, s.commitIndex, s.fsm, s.ldr, s.configs, s.nid, (s.term, s.votedFor, s.durTerm, s.durVote), s.trace)

theorem sx_refl (b : Node) (A : Nat → Nat → Prop) (K : Prop) (h : C05.VoteWF b) : SX b A K b :=
  ⟨rfl, rfl, rfl, fun _ => rfl, rfl, rfl, h, ⟨Nat.le_refl _, Or.inr (Or.inl ⟨rfl, rfl⟩)⟩, fun _ hp => Or.inl hp⟩

theorem sx_congr {b s s' : Node} {A : Nat → Nat → Prop} {K : Prop} (h : SX b A K s) (e : xobs s' = xobs s) : SX b A K s' := by
  unfold xobs at e
  simp only [Prod.mk.injEq] at e
  obtain ⟨e1, e2, e3, e4, e5, e6, ⟨e7, e8, e9, e10⟩, e11⟩ := e
  obtain ⟨a1, a2, a3, a4, a5, a6, a7, a8, a9⟩ := h
  refine ⟨e1.trans a1, e2.trans a2, e3.trans a3, fun k => e4.trans (a4 k), e5.trans a5, e6.trans a6, ?_, ?_, ?_⟩
  · unfold C05.VoteWF at *; rw [e7, e8, e9, e10]; exact a7
  · rw [e7, e8]; exact a8
  · rw [e11]; exact a9

theorem SX.mono {b s : Node} {A A' : Nat → Nat → Prop} {K : Prop} (hA : ∀ t v, A t v → A' t v) (h : SX b A K s) : SX b A' K s :=
  ⟨h.core, h.ci, h.fsm, h.ldr, h.cfg, h.nid, h.wf, h.pair.mono hA,
    fun p hp => (h.tr p hp).imp id (fun ⟨a, c, d⟩ => ⟨a, c, d.mono hA⟩)⟩

theorem sx_point {b s : Node} {A : Nat → Nat → Prop} {K : Prop} (n : String) (h : SX b A K s) : SX b A K (s.point n) := by
  refine ⟨h.core, h.ci, h.fsm, h.ldr, h.cfg, h.nid, h.wf, h.pair, fun p hp => ?_⟩
  simp only [Node.point, List.mem_append, List.mem_singleton] at hp
  have e := h.core
  unfold LCore at e
  simp only [Prod.mk.injEq] at e
  rcases hp with hp | hp
  · exact h.tr p hp
  · subst hp
    right
    refine ⟨?_, ?_, ?_⟩
    · show s.log.durable = _; rw [e.1]
    · show s.snapsDisk = _; rw [e.2.2.2.2]
    · show PairOK b A s.durTerm s.durVote
      rw [h.wf.1, h.wf.2]; exact h.pair

theorem sx_panic {b s : Node} {A : Nat → Nat → Prop} {K : Prop} (site : String) (h : SX b A K s) : SX b A K (s.panic site) := by
  refine sx_congr h ?_
  unfold Node.panic; split <;> rfl

theorem sx_reply {b s : Node} {A : Nat → Nat → Prop} {K : Prop} (t : Nat) (r : String) (h : SX b A K s) :
    SX b A K (s.reply t r) := by
  refine sx_congr h ?_
  unfold Node.reply; split <;> rfl

theorem sx_assert {b s : Node} {A : Nat → Nat → Prop} {K : Prop} (c : Bool) (site : String) (h : SX b A K s) :
    SX b A K (s.assert c site) := by
  unfold Node.assert; split
  · exact h
  · exact sx_panic _ h

theorem sx_setRole {b s : Node} {A : Nat → Nat → Prop} {K : Prop} (r : Role) (h : SX b A K s) : SX b A K (s.setRole r) :=
  sx_congr h rfl
theorem sx_setLeader {b s : Node} {A : Nat → Nat → Prop} {K : Prop} (l : Nat) (h : SX b A K s) : SX b A K (s.setLeader l) :=
  sx_congr h rfl
theorem sx_ret {b s : Node} {A : Nat → Nat → Prop} {K : Prop} (r : Nat) (h : SX b A K s) : SX b A K (s.ret r) := sx_congr h rfl
theorem sx_rpcReply {b s : Node} {A : Nat → Nat → Prop} {K : Prop} (r : Option RpcReply) (h : SX b A K s) :
    SX b A K (s.withRpcReply r) := sx_congr h rfl
theorem sx_votesNeeded {b s : Node} {A : Nat → Nat → Prop} {K : Prop} (v : Int) (h : SX b A K s) :
    SX b A K (s.withVotesNeeded v) := sx_congr h rfl
theorem sx_candTransfer {b s : Node} {A : Nat → Nat → Prop} {K : Prop} (v : Bool) (h : SX b A K s) :
    SX b A K (s.withCandTransfer v) := sx_congr h rfl
theorem sx_snapPending {b s : Node} {A : Nat → Nat → Prop} {K : Prop} (v : Option SnapReq) (h : SX b A K s) :
    SX b A K (s.withSnapPending v) := sx_congr h rfl

/-- storing an allowed pair -/
theorem sx_storeTermVote {b s : Node} {A : Nat → Nat → Prop} {K : Prop} (t c : Nat) (h : SX b A K s) (hok : PairOK b A t c) :
    SX b A K (s.storeTermVote t c) := by
  unfold Node.storeTermVote
  split
  · rename_i heq
    refine ⟨h.core, h.ci, h.fsm, h.ldr, h.cfg, h.nid, ⟨heq.1.symm, heq.2.symm⟩, hok, h.tr⟩
  · refine ⟨h.core, h.ci, h.fsm, h.ldr, h.cfg, h.nid, ⟨rfl, rfl⟩, hok, fun p hp => ?_⟩
    simp only [Node.point, List.mem_append, List.mem_singleton] at hp
    have e := h.core
    unfold LCore at e
    simp only [Prod.mk.injEq] at e
    rcases hp with hp | hp
    · exact h.tr p hp
    · subst hp
      right
      refine ⟨?_, ?_, hok⟩
      · show s.log.durable = _; rw [e.1]
      · show s.snapsDisk = _; rw [e.2.2.2.2]

theorem sx_setTerm {b s : Node} {A : Nat → Nat → Prop} {K : Prop} (t : Nat) (h : SX b A K s) : SX b A K (s.setTerm t) := by
  unfold Node.setTerm
  split
  · split
    · rename_i hgt
      exact sx_storeTermVote _ _ h ⟨by have := h.pair.1; omega, Or.inl rfl⟩
    · exact sx_panic _ h
  · exact h

theorem sx_setVotedFor {b s : Node} {A : Nat → Nat → Prop} {K : Prop} (t c : Nat) (h : SX b A K s) (hok : PairOK b A t c) :
    SX b A K (s.setVotedFor t c) := by
  unfold Node.setVotedFor
  split
  · split
    · exact sx_storeTermVote _ _ h hok
    · exact sx_panic _ h
  · exact h

theorem SX.weaken {b s : Node} {A : Nat → Nat → Prop} {K : Prop} (h : SX b A K s) : SX b A False s :=
  ⟨h.core, h.ci, h.fsm, fun k => k.elim, h.cfg, h.nid, h.wf, h.pair, h.tr⟩

/-- the weak form (leader record not tracked) survives any update of the leader record -/
theorem sx_withLdr {b s : Node} {A : Nat → Nat → Prop} (l : Leader) (h : SX b A False s) :
    SX b A False (s.withLdr l) :=
  ⟨h.core, h.ci, h.fsm, fun k => k.elim, h.cfg, h.nid, h.wf, h.pair, h.tr⟩

theorem sx_popOrder {b s : Node} {A : Nat → Nat → Prop} {K : Prop} (h : SX b A K s) : SX b A K s.popOrder :=
  sx_congr h rfl

/-- One backward step for goals `SX b A K (…)`. -/
syntax "sx_step" : tactic
macro_rules
  | `(tactic| sx_step) => `(tactic| first
      | assumption
      | with_reducible apply sx_ret
      | with_reducible apply sx_panic
      | with_reducible apply sx_reply
      | with_reducible apply sx_assert
      | with_reducible apply sx_setRole
      | with_reducible apply sx_setLeader
      | with_reducible apply sx_rpcReply
      | with_reducible apply sx_votesNeeded
      | with_reducible apply sx_candTransfer
      | with_reducible apply sx_snapPending
      | with_reducible apply sx_popOrder
      | with_reducible apply sx_popOrder
      | with_reducible apply sx_setTerm
      | with_reducible apply sx_point
      | split)

syntax "sx_auto" : tactic
macro_rules
  | `(tactic| sx_auto) => `(tactic| repeat' sx_step)

/-- the candidate's log is at least as up to date as the voter's (`onVoteRequest`) -/
def UpToDate (b : Node) (q : VoteReq) : Prop :=
  ¬ (b.lastLogTerm > q.lastLogTerm ∨ (b.lastLogTerm = q.lastLogTerm ∧ b.lastLogIndex > q.lastLogIndex))

/-- the only new non-zero vote a vote request can make durable: for the requested (term, candidate), and only
after the up-to-date check against the voter's log -/
def AVote (b : Node) (q : VoteReq) (t c : Nat) : Prop :=
  t = q.term ∧ c = q.src ∧ b.term ≤ q.term ∧ UpToDate b q

/-- the only new non-zero vote any other operation can make durable: the self vote of `startElection` -/
def ASelf (b : Node) (t c : Nat) : Prop := c = b.nid ∧ b.term < t

theorem sx_lastLog {b s : Node} {A : Nat → Nat → Prop} {K : Prop} (h : SX b A K s) :
    s.lastLogIndex = b.lastLogIndex ∧ s.lastLogTerm = b.lastLogTerm := by
  have e := h.core
  unfold LCore at e
  simp only [Prod.mk.injEq] at e
  exact ⟨e.2.1, e.2.2.1⟩

theorem sx_onVoteRequest {b s : Node} {K : Prop} (q : VoteReq) (h : SX b (AVote b q) K s) (hpair : s.term = b.term ∧ s.votedFor = b.votedFor) :
    SX b (AVote b q) K (s.onVoteRequest q) := by
  obtain ⟨l1, l2⟩ := sx_lastLog h
  unfold Node.onVoteRequest
  split
  · exact sx_ret _ h
  · split
    · exact sx_ret _ h
    · rename_i hlt
      have hge : q.term ≥ s.term := Nat.le_of_not_lt hlt
      extract_lets vf tm s1
      have h1 : SX b (AVote b q) K s1 := by unfold s1; split; exact sx_setRole _ h; exact h
      have ht1 : s1.term = s.term := by unfold s1; split <;> rfl
      have hv1 : s1.votedFor = s.votedFor := by unfold s1; split <;> rfl
      have hl1 : s1.lastLogTerm = s.lastLogTerm ∧ s1.lastLogIndex = s.lastLogIndex := by
        unfold s1; split <;> exact ⟨rfl, rfl⟩
      -- the pair (tm, vf) is (q.term, 0) or the current pair
      have hsame : PairOK b (AVote b q) tm vf := by
        by_cases hgt : q.term > s.term
        · have e1 : vf = 0 := by unfold vf; simp [hgt]
          have e2 : tm = q.term := by unfold tm; simp [hgt]
          rw [e1, e2]; exact ⟨by rw [← hpair.1]; omega, Or.inl rfl⟩
        · have e1 : vf = s.votedFor := by unfold vf; simp [hgt]
          have e2 : tm = s.term := by unfold tm; simp [hgt]
          rw [e1, e2, hpair.1, hpair.2]; exact ⟨Nat.le_refl _, Or.inr (Or.inl ⟨rfl, rfl⟩)⟩
      have htm : tm = q.term ∨ tm = s.term := by
        unfold tm; split
        · exact Or.inl rfl
        · exact Or.inr rfl
      split
      · exact sx_ret _ (sx_setVotedFor _ _ h1 hsame)
      · split
        · exact sx_ret _ (sx_setVotedFor _ _ h1 hsame)
        · rename_i hnv hup
          refine sx_ret _ (sx_setVotedFor _ _ h1 ?_)
          have htq : tm = q.term := by
            rcases htm with e | e
            · exact e
            · -- no higher term: q.term = s.term
              unfold tm; split
              · rfl
              · omega
          rw [htq]
          refine ⟨by rw [← hpair.1]; exact hge, Or.inr (Or.inr ⟨rfl, rfl, by rw [← hpair.1]; exact hge, ?_⟩)⟩
          unfold UpToDate
          rw [← l1, ← l2, ← hl1.1, ← hl1.2]
          exact hup

theorem sx_rpcDone {b s : Node} {A : Nat → Nat → Prop} {K : Prop} (x y : Bool) (h : SX b A K s) : SX b A K (s.rpcDone x y) := by
  unfold Node.rpcDone
  sx_auto

theorem sx_onTimeoutNow {b s : Node} {A : Nat → Nat → Prop} {K : Prop} (h : SX b A K s) : SX b A K s.onTimeoutNow := by
  unfold Node.onTimeoutNow
  sx_auto

theorem sx_followerTimeout {b s : Node} {A : Nat → Nat → Prop} {K : Prop} (h : SX b A K s) : SX b A K s.followerTimeout := by
  unfold Node.followerTimeout
  dsimp only
  sx_auto

theorem sx_checkQuorum {b s : Node} {A : Nat → Nat → Prop} {K : Prop} (h : SX b A K s) : SX b A K s.checkQuorum := by
  unfold Node.checkQuorum
  dsimp only
  sx_auto

theorem sx_onTakeSnapshot {b s : Node} {A : Nat → Nat → Prop} {K : Prop} (t th : Nat) (h : SX b A K s) :
    SX b A K (s.onTakeSnapshot t th) := by
  unfold Node.onTakeSnapshot
  sx_auto

theorem sx_onVoteResult {b s : Node} {A : Nat → Nat → Prop} {K : Prop} (e : Bool) (t r : Nat) (h : SX b A K s) :
    SX b A K (s.onVoteResult e t r) := by
  unfold Node.onVoteResult
  dsimp only
  sx_auto

theorem sx_rejectEntries {b s : Node} {A : Nat → Nat → Prop} {K : Prop} (batch : List QItem) (h : SX b A K s) :
    SX b A K (s.rejectEntries batch) := by
  induction batch generalizing s with
  | nil => exact h
  | cons q qs ih =>
    unfold Node.rejectEntries
    dsimp only
    apply ih
    sx_auto

/-- `candidate.startElection`: the self vote for the next term is the only pair stored -/
theorem sx_startElection {b s : Node} {A : Nat → Nat → Prop} {K : Prop} (hA : ∀ t c, ASelf b t c → A t c)
    (h : SX b A K s) : SX b A K s.startElection := by
  have ht : b.term ≤ s.term := h.pair.1
  unfold Node.startElection
  extract_lets s1 s2 s3 s4
  have h2 : SX b A K s2 := sx_votesNeeded _ (sx_assert _ _ h)
  have ht2 : s2.term = s.term := (SameKey.assert s _ _).term
  have hn2 : s2.nid = s.nid := (SameKey.assert s _ _).nid
  have h3 : SX b A K s3 := by
    refine sx_setVotedFor _ _ h2 ⟨by rw [ht2]; omega, Or.inr (Or.inr (hA _ _ ⟨?_, by rw [ht2]; omega⟩))⟩
    rw [hn2]; exact h.nid
  have h4 : SX b A K s4 := sx_votesNeeded _ h3
  split
  · exact sx_setLeader _ (sx_setRole _ h4)
  · exact h4


/-! ## Part 2b: the leader block under a fixed, stable configuration -/

theorem stable_action (C : Config) (h : C.isStable = true) (id : Nat) : (C.get id).action = actNone := by
  unfold Config.get Config.find?
  cases hf : C.nodes.find? (·.id == id) with
  | none => rfl
  | some n =>
    have hm := List.mem_of_find?_eq_some hf
    unfold Config.isStable at h
    have := List.all_eq_true.mp h n hm
    simpa using this

theorem stable_nextAction (C : Config) (h : C.isStable = true) (id : Nat) : (C.get id).nextAction = actNone := by
  have ha := stable_action C h id
  unfold CNode.nextAction
  rw [ha]
  simp [actNone, actForceRemove, actDemote, actRemove, actPromote]

/-- What a leader handler may do to the leader record: cached node, voter count and start index stay; a match
index is 0, or the match index an old replication with that id had, or backed by `Bk`. -/
def LdrSub (Bk : Nat → Nat → Prop) (old new : Leader) : Prop :=
  new.node = old.node ∧ new.numVoters = old.numVoters ∧ new.startIndex = old.startIndex ∧
  ∀ r ∈ new.repls, r.matchIndex = 0 ∨ (∃ r' ∈ old.repls, r'.id = r.id ∧ r'.matchIndex = r.matchIndex) ∨
    Bk r.id r.matchIndex

theorem ldrSub_same {Bk : Nat → Nat → Prop} {old new : Leader} (h1 : new.node = old.node)
    (h2 : new.numVoters = old.numVoters) (h3 : new.startIndex = old.startIndex) (h4 : new.repls = old.repls) :
    LdrSub Bk old new :=
  ⟨h1, h2, h3, fun r hr => Or.inr (Or.inl ⟨r, by rw [← h4]; exact hr, rfl, rfl⟩)⟩

theorem mem_insertRepl {r x : Repl} {rs : List Repl} (h : x ∈ insertRepl r rs) : x = r ∨ x ∈ rs := by
  induction rs with
  | nil => simp [insertRepl] at h; exact Or.inl h
  | cons m ms ih =>
    unfold insertRepl at h
    split at h
    · rcases List.mem_cons.mp h with h | h
      · exact Or.inl h
      · exact Or.inr h
    · split at h
      · rcases List.mem_cons.mp h with h | h
        · exact Or.inl h
        · exact Or.inr (List.mem_cons_of_mem _ h)
      · rcases List.mem_cons.mp h with h | h
        · exact Or.inr (by rw [h]; exact List.mem_cons_self ..)
        · rcases ih h with h | h
          · exact Or.inl h
          · exact Or.inr (List.mem_cons_of_mem _ h)

theorem findRepl_mem {s : Node} {id : Nat} {r : Repl} (h : s.findRepl? id = some r) :
    r ∈ s.ldr.repls ∧ r.id = id := by
  unfold Node.findRepl? at h
  exact ⟨List.mem_of_find?_eq_some h, by simpa using List.find?_some h⟩

/-- Guarded closure for the leader block when the latest configuration is the fixed, stable `C` (so that no
configuration change is ever started): the leader record changes only within `LdrSub`, entries are appended
at `lastLogIndex + 1` with the current term, and the commit index is moved only by the majority rule
(`leader.setCommitIndex` = flush, then `Raft.setCommitIndex`). -/
structure MClosed (C : Config) (Bk : Nat → Nat → Prop) (Inv : Node → Prop) : Prop where
  cfg : ∀ s, Inv s → s.configs.latest = C
  panic : ∀ s site, Inv s → Inv (s.panic site)
  reply : ∀ s t r, Inv s → Inv (s.reply t r)
  point : ∀ s n, Inv s → Inv (s.point n)
  fsm : ∀ (s : Node) f, Inv s → Inv (s.withFsm f)
  popOrder : ∀ (s : Node), Inv s → Inv s.popOrder
  ldr : ∀ (s : Node) l, Inv s → LdrSub Bk s.ldr l → Inv (s.withLdr l)
  append : ∀ (s : Node) e roll, Inv s → e.index = s.lastLogIndex + 1 → e.term = s.term →
    Inv { s with log := s.log.append e roll, lastLogIndex := e.index, lastLogTerm := e.term }
  commit : ∀ (s : Node) i, Inv s → i > s.commitIndex → i ≥ s.ldr.startIndex → i = s.majorityMatchIndex.1 →
    Inv ((s.commitLog i).setCommitIndexR i).1

/-- no configuration entry in a client batch -/
def NoCfg (b : List QItem) : Prop := ∀ q ∈ b, q.typ ≠ etConfig

namespace MClosed

variable {C : Config} {Bk : Nat → Nat → Prop} {Inv : Node → Prop} (h : MClosed C Bk Inv)
include h

theorem assert_m (s : Node) (b : Bool) (site : String) (hs : Inv s) : Inv (s.assert b site) := by
  unfold Node.assert; split
  · exact hs
  · exact h.panic _ _ hs

theorem appendEntry_m (s : Node) (e : Entry) (hs : Inv s) (hi : e.index = s.lastLogIndex + 1)
    (ht : e.term = s.term) : Inv (s.appendEntry e) := by
  unfold Node.appendEntry
  refine h.append _ _ _ (h.assert_m _ _ _ hs) ?_ ?_
  · rw [(assert_fields s _ _).2.1]; exact hi
  · rw [assert_term]; exact ht

theorem ldrSame_m (s : Node) (l : Leader) (hs : Inv s) (h1 : l.node = s.ldr.node)
    (h2 : l.numVoters = s.ldr.numVoters) (h3 : l.startIndex = s.ldr.startIndex) (h4 : l.repls = s.ldr.repls) :
    Inv (s.withLdr l) := h.ldr _ _ hs (ldrSub_same h1 h2 h3 h4)

/-- `setRepl` of a replication whose match index is 0, the one of the replication it replaces, or backed -/
theorem setRepl_m (s : Node) (r : Repl) (hs : Inv s)
    (hr : r.matchIndex = 0 ∨ (∃ r' ∈ s.ldr.repls, r'.id = r.id ∧ r'.matchIndex = r.matchIndex) ∨ Bk r.id r.matchIndex) :
    Inv (s.setRepl r) := by
  unfold Node.setRepl
  refine h.ldr _ _ hs ⟨rfl, rfl, rfl, fun x hx => ?_⟩
  rcases mem_insertRepl hx with e | e
  · rw [e]; exact hr
  · exact Or.inr (Or.inl ⟨x, e, rfl, rfl⟩)

theorem addReplication_m (s : Node) (n : CNode) (hs : Inv s) : Inv (s.addReplication n) := by
  unfold Node.addReplication
  extract_lets s1 s2
  have h2 : Inv s2 := by
    unfold s2
    split
    · exact h.assert_m _ _ _ hs
    · exact h.panic _ _ (h.assert_m _ _ _ hs)
  exact h.setRepl_m _ _ h2 (Or.inl rfl)

theorem notifyFlr_m (s : Node) (hs : Inv s) : Inv s.notifyFlr := by
  unfold Node.notifyFlr; split
  · exact hs
  · split
    · exact hs
    · exact h.panic _ _ hs

theorem beginFinishedRounds_m (s : Node) (hs : Inv s) : Inv s.beginFinishedRounds := by
  unfold Node.beginFinishedRounds
  refine h.ldr _ _ hs ⟨rfl, rfl, rfl, fun x hx => ?_⟩
  obtain ⟨r, hr, hx⟩ := List.mem_map.mp hx
  refine Or.inr (Or.inl ⟨r, hr, ?_⟩)
  rw [← hx]
  split
  · split <;> exact ⟨rfl, rfl⟩
  · exact ⟨rfl, rfl⟩

theorem fsmApplyLogTo_m (s : Node) (n : Nat) (hs : Inv s) : Inv (s.fsmApplyLogTo n) := by
  unfold Node.fsmApplyLogTo
  split
  · exact hs
  · split
    · exact h.panic _ _ hs
    · extract_lets es ups lastTerm cfg s1
      have h1 : Inv s1 := by unfold s1; split; exact h.panic _ _ hs; exact hs
      split
      · exact h.panic _ _ hs
      · exact h.fsm _ _ h1

theorem fsmApplyItems_m (s : Node) (qs : List QItem) (hs : Inv s) : Inv (s.fsmApplyItems qs) := by
  induction qs generalizing s with
  | nil => exact hs
  | cons q qs ih =>
    unfold Node.fsmApplyItems
    dsimp only
    apply ih
    apply h.reply
    have h1 : Inv (s.assert (q.index == s.fsm.index + 1) "fsm.assertNext") := h.assert_m s _ _ hs
    repeat' split
    all_goals first
      | exact h.fsm _ _ (h.fsm _ _ (h.fsm _ _ h1))
      | exact h.fsm _ _ (h.fsm _ _ h1)
      | exact h.fsm _ _ h1
      | exact h1

theorem fsmApply_m (s : Node) (qs : List QItem) (hs : Inv s) : Inv (s.fsmApply qs) := by
  unfold Node.fsmApply
  split
  · exact h.panic _ _ hs
  · split
    · exact h.panic _ _ hs
    · dsimp only
      exact h.assert_m _ _ _ (h.fsmApplyItems_m _ _ (h.fsmApplyLogTo_m _ _ hs))

theorem applyCommittedL_m (s : Node) (hs : Inv s) : Inv s.applyCommittedL := by
  unfold Node.applyCommittedL
  exact h.fsmApply_m _ _ (h.ldrSame_m _ _ hs rfl rfl rfl rfl)

/-- The leader block preserves every `MClosed` invariant when the configuration is stable and no client batch
carries a configuration entry: no configuration change is started, so `changeConfigL`/`doChangeConfig` are
never reached. -/
theorem block (hC : C.isStable = true) : ∀ fuel : Nat,
    (∀ s b, Inv s → NoCfg b → Inv (storeEntry fuel s b)) ∧
    (∀ s b, Inv s → NoCfg b → Inv (storeItems fuel s b)) ∧
    (∀ s t, Inv s → Inv (checkConfigActions fuel s t C)) ∧
    (∀ s t id, Inv s → Inv (checkConfigAction fuel s t C id)) ∧
    (∀ s i, Inv s → i > s.commitIndex → i ≥ s.ldr.startIndex → i = s.majorityMatchIndex.1 →
      Inv (setCommitIndexL fuel s i)) ∧
    (∀ s, Inv s → Inv (onMajorityCommit fuel s)) := by
  intro fuel
  induction fuel with
  | zero =>
    refine ⟨?_, ?_, ?_, ?_, ?_, ?_⟩
    · intro s b hs _; unfold storeEntry; exact h.panic _ _ hs
    · intro s b hs _
      cases b with
      | nil => unfold storeItems; exact hs
      | cons q qs => unfold storeItems; exact h.panic _ _ hs
    · intro s t hs; unfold checkConfigActions; exact h.panic _ _ hs
    · intro s t id hs; unfold checkConfigAction; exact h.panic _ _ hs
    · intro s i hs _ _ _; unfold setCommitIndexL; exact h.panic _ _ hs
    · intro s hs; unfold onMajorityCommit; exact h.panic _ _ hs
  | succ n ih =>
    obtain ⟨ihSE, ihSI, ihCAs, ihCA, ihSC, ihMC⟩ := ih
    refine ⟨?_, ?_, ?_, ?_, ?_, ?_⟩
    · -- storeEntry
      intro s b hs hb
      unfold storeEntry; dsimp only
      have h1 : Inv (storeItems n s b) := ihSI _ _ hs hb
      have h2 := h.applyCommittedL_m _ h1
      repeat' split
      all_goals first
        | exact ihMC _ (h.notifyFlr_m _ (h.beginFinishedRounds_m _ h2))
        | exact ihMC _ (h.notifyFlr_m _ (h.beginFinishedRounds_m _ h1))
        | exact h.notifyFlr_m _ (h.beginFinishedRounds_m _ h2)
        | exact h.notifyFlr_m _ (h.beginFinishedRounds_m _ h1)
        | exact h2
        | exact h1
    · -- storeItems
      intro s b hs hb
      cases b with
      | nil => unfold storeItems; exact hs
      | cons q qs =>
        have hq : q.typ ≠ etConfig := hb q (List.mem_cons_self ..)
        have hqs : NoCfg qs := fun x hx => hb x (List.mem_cons_of_mem _ hx)
        unfold storeItems; dsimp only
        refine ihSI _ _ ?_ hqs
        split
        · exact h.reply _ _ _ hs
        · split
          · split
            · exact h.reply _ _ _ hs
            · exact h.reply _ _ _ hs
          · have h1 := h.ldrSame_m s { s.ldr with queue := s.ldr.queue ++ [{ q with index := s.lastLogIndex + 1, term := s.term, cfg := q.cfg.map Config.payload }] } hs rfl rfl rfl rfl
            have ha := h.appendEntry_m _
              (QItem.toEntry { q with index := s.lastLogIndex + 1, term := s.term, cfg := q.cfg.map Config.payload })
              h1 rfl rfl
            repeat' split
            all_goals first | exact ha | exact h1 | (rename_i hc; exact absurd hc hq)
    · -- checkConfigActions
      intro s t hs
      unfold checkConfigActions; dsimp only
      have hn : (C.get s.nid).action = actNone := stable_action C hC _
      rw [if_neg (fun hc => hc.2 hn)]
      dsimp only
      apply Closed.foldl_inv
      · intro s x hs
        split
        · exact ihCA _ _ _ hs
        · exact hs
      · exact h.popOrder _ hs
    · -- checkConfigAction
      intro s t id hs
      unfold checkConfigAction; dsimp only
      split
      · exact hs
      · rw [if_pos (stable_nextAction C hC id)]
        exact hs
    · -- setCommitIndexL
      intro s i hs hi hst hm
      unfold setCommitIndexL
      extract_lets s1 ready r s2 s3
      have h2 : Inv s2 := h.commit _ i hs hi hst hm
      have e2 : s2.configs.latest = C := h.cfg _ h2
      have h3 : Inv s3 := by
        unfold s3; split
        · rw [e2]; exact ihCAs _ _ h2
        · exact h2
      have e3 : s3.configs.latest = C := h.cfg _ h3
      split
      · split
        · refine h.ldrSame_m _ _ (Closed.foldl_inv _ (fun s t hs => h.reply _ _ _ hs) _ _ h3) ?_ ?_ ?_ ?_ <;> rfl
        · rw [e3]; exact ihCAs _ _ h3
      · exact h3
    · -- onMajorityCommit
      intro s hs
      unfold onMajorityCommit; dsimp only
      have h1 := h.panic s "nil.majorityMatchIndex" hs
      have hp : ∀ site, (s.panic site).commitIndex = s.commitIndex ∧ (s.panic site).ldr = s.ldr ∧
          (s.panic site).majorityMatchIndex = s.majorityMatchIndex := by
        intro site; unfold Node.panic; split <;> exact ⟨rfl, rfl, rfl⟩
      split
      · split
        · rename_i hgt
          exact h.notifyFlr_m _ (h.applyCommittedL_m _ (ihSC _ _ hs hgt.1 hgt.2 rfl))
        · exact hs
      · split
        · rename_i hgt
          obtain ⟨p1, p2, p3⟩ := hp "nil.majorityMatchIndex"
          rw [p1, p2] at hgt
          exact h.notifyFlr_m _ (h.applyCommittedL_m _ (ihSC _ _ h1 (by rw [p1]; exact hgt.1)
            (by rw [p2]; exact hgt.2) (by rw [p3])))
        · exact h1

theorem storeEntry_m (hC : C.isStable = true) (f : Nat) (s : Node) (b) (hs : Inv s) (hb : NoCfg b) :
    Inv (storeEntry f s b) := ((h.block hC) f).1 s b hs hb
theorem checkConfigActions_m (hC : C.isStable = true) (f : Nat) (s : Node) (t) (hs : Inv s) :
    Inv (checkConfigActions f s t C) := ((h.block hC) f).2.2.1 s t hs
theorem checkConfigAction_m (hC : C.isStable = true) (f : Nat) (s : Node) (t id) (hs : Inv s) :
    Inv (checkConfigAction f s t C id) := ((h.block hC) f).2.2.2.1 s t id hs
theorem onMajorityCommit_m (hC : C.isStable = true) (f : Nat) (s : Node) (hs : Inv s) :
    Inv (onMajorityCommit f s) := ((h.block hC) f).2.2.2.2.2 s hs

end MClosed


/-! ## Part 2c: the instance — what a leader handler does, relative to the state `b` it starts from -/

theorem logwf_append (l : NLog) (e : Entry) (roll : Bool) (h : C06.LogWF l) :
    C06.LogWF (l.append e roll) ∧ l.flushed ≤ (l.append e roll).flushed := by
  obtain ⟨h1, h2⟩ := h
  unfold NLog.append
  split
  · refine ⟨⟨?_, ?_⟩, h2⟩
    · show (NLog.lastSegPrev _) ≤ l.last
      unfold NLog.lastSegPrev
      simp
    · show l.last ≤ NLog.last _
      unfold NLog.last
      simp
  · refine ⟨⟨h1, ?_⟩, Nat.le_refl _⟩
    show l.flushed ≤ NLog.last _
    unfold NLog.last at *
    simp only [List.length_append, List.length_singleton]
    omega

theorem logwf_commitN (l : NLog) (n : Nat) (h : C06.LogWF l) :
    C06.LogWF (l.commitN n) ∧ l.flushed ≤ (l.commitN n).flushed ∧ min n l.last ≤ (l.commitN n).flushed := by
  obtain ⟨h1, h2⟩ := h
  unfold NLog.commitN
  split
  · exact ⟨⟨Nat.le_trans h1 h2, Nat.le_refl _⟩, h2, Nat.min_le_right _ _⟩
  · exact ⟨⟨h1, h2⟩, Nat.le_refl _, by omega⟩

theorem take_prefix_take {α : Type} {l1 l2 : List α} (h : l1 <+: l2) {n m : Nat} (hnm : n ≤ m) :
    l1.take n <+: l2.take m := by
  rw [List.prefix_take_iff]
  refine ⟨List.IsPrefix.trans (List.take_prefix _ _) h, ?_⟩
  rw [List.length_take]; omega

/-- what the leader handlers need to know about the state `b` they start from -/
structure LBase (b : Node) (B : Nat → Nat → Prop) : Prop where
  nwf : NWF b
  lwf : C06.LogWF b.log
  wf : C05.VoteWF b
  role : b.role = .leader
  stable : b.configs.latest.isStable = true
  voter : b.configs.latest.isVoter b.nid = true
  nodup : b.configs.latest.voters.Nodup
  numVoters : b.ldr.numVoters = b.configs.latest.numVoters
  start : 1 ≤ b.ldr.startIndex
  own : ∀ k, b.ldr.startIndex ≤ k → k ≤ b.log.entries.length → termAt b.log.entries k = b.term
  hB : ∀ j m, B j m → m ≤ b.log.entries.length

/-- on disk, the last segment starts within the entries that are there -/
def DW (d : Durable) : Prop := d.log.lastSegPrev ≤ d.log.entries.length

theorem durable_dw_log (l : NLog) (hp : l.prev = 0) (hw : C06.LogWF l) :
    l.durable.lastSegPrev ≤ l.durable.entries.length := by
  obtain ⟨h1, h2⟩ := hw
  show NLog.lastSegPrev l.durable ≤ (l.entries.take (l.flushed - l.prev)).length
  have e : NLog.lastSegPrev l.durable = l.lastSegPrev := rfl
  rw [e, hp, Nat.sub_zero, List.length_take]
  unfold NLog.last at h2
  omega

theorem durable_dw (s : Node) (hp : s.log.prev = 0) (hw : C06.LogWF s.log) : DW s.durable :=
  durable_dw_log s.log hp hw

/-- a disk content recorded at a crash point of a leader handler: no snapshot, a prefix of the current log
that contains everything that was durable in `b`, and `b`'s durable (term, vote) -/
def PtL (b s : Node) (d : Durable) : Prop :=
  d.snaps = [] ∧ d.log.prev = 0 ∧ d.log.entries <+: s.log.entries ∧
  b.log.entries.take b.log.flushed <+: d.log.entries ∧ d.term = b.durTerm ∧ d.vote = b.durVote ∧ DW d

/-- commit evidence: the commit index moved, to an index at or beyond `startIndex`, inside the flushed part of
the log, and a majority `Q` of the voters of the (fixed) latest configuration reached it — the leader itself,
the others by a backed match index -/
def Ev (b : Node) (B : Nat → Nat → Prop) (s : Node) : Prop :=
  b.commitIndex < s.commitIndex ∧ b.ldr.startIndex ≤ s.commitIndex ∧ s.commitIndex ≤ s.log.entries.length ∧
  s.commitIndex ≤ s.log.flushed ∧
  ∃ Q : List Nat, Q.Nodup ∧ (∀ j ∈ Q, j ∈ b.configs.latest.voters) ∧
    2 * Q.length > b.configs.latest.voters.length ∧
    ∀ j ∈ Q, j = b.nid ∨ ∃ m, s.commitIndex ≤ m ∧ B j m

/-- Relative to `b` (a leader; the state a leader handler starts from) and the backing predicate `B` for
match indexes. -/
structure LI (b : Node) (B : Nat → Nat → Prop) (s : Node) : Prop where
  nwf : NWF s
  lwf : C06.LogWF s.log
  role : s.role = .leader
  nid : s.nid = b.nid
  term : s.term = b.term
  vote : s.votedFor = b.votedFor ∧ s.durTerm = b.durTerm ∧ s.durVote = b.durVote
  cfg : s.configs.latest = b.configs.latest
  cache : s.ldr.numVoters = b.ldr.numVoters ∧ s.ldr.node = b.ldr.node ∧ s.ldr.startIndex = b.ldr.startIndex
  ext : ∃ es, s.log.entries = b.log.entries ++ es ∧ ∀ e ∈ es, e.term = b.term
  flush : b.log.flushed ≤ s.log.flushed
  tr : ∀ p ∈ s.trace, p ∈ b.trace ∨ PtL b s p.2
  mi : ∀ r ∈ s.ldr.repls, r.matchIndex = 0 ∨ B r.id r.matchIndex
  ci : s.commitIndex = b.commitIndex ∨ Ev b B s

/-- the fields `LI` looks at -/
def lobs (s : Node) : (NLog × Nat × Nat × Nat × List SnapFile × Nat × Nat × List (String × Durable)) ×
    Role × Nat × Nat × Nat × Config × Leader × Nat :=
  (Core s, s.role, s.nid, s.votedFor, s.durVote, s.configs.latest, s.ldr, s.commitIndex)

theorem ev_congr {b s s' : Node} {B : Nat → Nat → Prop} (h : Ev b B s) (e1 : s'.commitIndex = s.commitIndex)
    (e2 : s.log.entries.length ≤ s'.log.entries.length) (e3 : s.log.flushed ≤ s'.log.flushed) : Ev b B s' := by
  obtain ⟨a1, a2, a3, a4, a5⟩ := h
  refine ⟨by rw [e1]; exact a1, by rw [e1]; exact a2, by rw [e1]; omega, by rw [e1]; omega, ?_⟩
  rw [e1]; exact a5

theorem li_congr {b s s' : Node} {B : Nat → Nat → Prop} (h : LI b B s) (e : lobs s' = lobs s) : LI b B s' := by
  unfold lobs Core at e
  simp only [Prod.mk.injEq] at e
  obtain ⟨⟨e1, e2, e3, e4, e5, e6, e7, e8⟩, f1, f2, f3, f4, f5, f6, f7⟩ := e
  obtain ⟨a1, a2, a3, a4, a5, a6, a7, a8, a9, a10, a11, a12, a13⟩ := h
  refine ⟨nwf_congr a1 e1 e2 e3 e4 e5, by rw [e1]; exact a2, f1.trans a3, f2.trans a4, e6.trans a5,
    ⟨f3.trans a6.1, e7.trans a6.2.1, f4.trans a6.2.2⟩, f5.trans a7, by rw [f6]; exact a8,
    by rw [e1]; exact a9, by rw [e1]; exact a10, ?_, by rw [f6]; exact a12, ?_⟩
  · rw [e8]
    intro p hp
    refine (a11 p hp).imp id ?_
    unfold PtL; rw [e1]; exact id
  · rcases a13 with c | c
    · exact Or.inl (f7.trans c)
    · exact Or.inr (ev_congr c f7 (by rw [e1]; exact Nat.le_refl _) (by rw [e1]; exact Nat.le_refl _))

theorem li_refl {b : Node} {B : Nat → Nat → Prop} (hb : LBase b B)
    (hmi : ∀ r ∈ b.ldr.repls, r.matchIndex = 0 ∨ B r.id r.matchIndex) : LI b B b :=
  ⟨hb.nwf, hb.lwf, hb.role, rfl, rfl, ⟨rfl, rfl, rfl⟩, rfl, ⟨rfl, rfl, rfl⟩,
    ⟨[], by simp, fun e he => by cases he⟩, Nat.le_refl _, fun p hp => Or.inl hp, hmi, Or.inl rfl⟩

theorem li_wf {b s : Node} {B : Nat → Nat → Prop} (hb : LBase b B) (h : LI b B s) : C05.VoteWF s := by
  unfold C05.VoteWF
  rw [h.vote.2.1, h.vote.2.2, h.term, h.vote.1]
  exact hb.wf

theorem li_point {b s : Node} {B : Nat → Nat → Prop} (n : String) (h : LI b B s) :
    LI b B (s.point n) := by
  obtain ⟨a1, a2, a3, a4, a5, a6, a7, a8, a9, a10, a11, a12, a13⟩ := h
  refine ⟨nwf_congr a1 rfl rfl rfl rfl rfl, a2, a3, a4, a5, a6, a7, a8, a9, a10, ?_, a12, ?_⟩
  · intro p hp
    simp only [Node.point, List.mem_append, List.mem_singleton] at hp
    rcases hp with hp | hp
    · exact a11 p hp
    · subst hp
      right
      obtain ⟨es, he, _⟩ := a9
      refine ⟨a1.snaps, a1.prev, ?_, ?_, a6.2.1, a6.2.2, durable_dw s a1.prev a2⟩
      · show (s.log.entries.take _) <+: _
        exact List.take_prefix _ _
      · show _ <+: (s.log.entries.take (s.log.flushed - s.log.prev))
        rw [a1.prev, Nat.sub_zero]
        exact take_prefix_take (by rw [he]; exact List.prefix_append _ _) a10
  · rcases a13 with c | c
    · exact Or.inl c
    · exact Or.inr (ev_congr c rfl (Nat.le_refl _) (Nat.le_refl _))

theorem setCommitIndexR_voter (s : Node) (i : Nat) (hv : s.configs.latest.isVoter s.nid = true) :
    (s.setCommitIndexR i).1.commitIndex = i ∧ Core (s.setCommitIndexR i).1 = Core s ∧
    (s.setCommitIndexR i).1.role = s.role ∧ (s.setCommitIndexR i).1.nid = s.nid ∧
    (s.setCommitIndexR i).1.votedFor = s.votedFor ∧ (s.setCommitIndexR i).1.durVote = s.durVote ∧
    (s.setCommitIndexR i).1.configs.latest = s.configs.latest ∧ (s.setCommitIndexR i).1.ldr = s.ldr ∧
    (s.setCommitIndexR i).1.fsm = s.fsm := by
  refine ⟨C19.setCommitIndexR_commitIndex s i, core_setCommitIndexR s i, ?_⟩
  unfold Node.setCommitIndexR Node.afterConfigCommit Node.closeIfRemoved Node.stepDownIfNotVoter
    Node.commitConfig Node.doClose Node.withCommitIndex Node.setLeader Node.setRole
  dsimp only
  repeat' split
  all_goals simp_all


theorem voters_length (c : Config) : c.voters.length = c.numVoters := by
  unfold Config.voters Config.numVoters; rw [List.length_map]

/-- **the majority behind the index `majorityMatchIndex` selects**, as a list of voter ids: the leader itself
(then the index is within its log) or voters whose replication carries a backed match index at or above it -/
theorem majority_Q (s : Node) (B : Nat → Nat → Prop)
    (hmi : ∀ r ∈ s.ldr.repls, r.matchIndex = 0 ∨ B r.id r.matchIndex)
    (hnv : s.ldr.numVoters = s.configs.latest.numVoters)
    (hvoter : s.configs.latest.isVoter s.nid = true) (hnodup : s.configs.latest.voters.Nodup)
    (hi : 1 ≤ s.majorityMatchIndex.1) :
    ∃ Q : List Nat, Q.Nodup ∧ (∀ j ∈ Q, j ∈ s.configs.latest.voters) ∧
      2 * Q.length > s.configs.latest.voters.length ∧
      ∀ j ∈ Q, (j = s.nid ∧ s.majorityMatchIndex.1 ≤ s.lastLogIndex) ∨
        ∃ m, s.majorityMatchIndex.1 ≤ m ∧ B j m := by
  have hself : s.nid ∈ s.configs.latest.voters := C01Sys.isVoter_mem_voters _ _ hvoter
  by_cases hfast : s.ldr.numVoters = 1 ∧ s.ldr.node.voter = true
  · have hm : s.majorityMatchIndex.1 = s.lastLogIndex := by
      unfold Node.majorityMatchIndex; rw [if_pos hfast]
    refine ⟨[s.nid], List.nodup_cons.mpr ⟨List.not_mem_nil, List.nodup_nil⟩, ?_, ?_, ?_⟩
    · intro j hj; rw [List.mem_singleton.mp hj]; exact hself
    · rw [voters_length, ← hnv, hfast.1, List.length_singleton]; omega
    · intro j hj
      exact Or.inl ⟨List.mem_singleton.mp hj, by rw [hm]; exact Nat.le_refl _⟩
  · have hv : s.configs.latest.numVoters ≠ 0 := by
      rw [← voters_length]
      intro h0
      rw [List.length_eq_zero_iff.mp h0] at hself
      cases hself
    have hmaj := C06.commit_index_has_majority s hfast hv
    generalize s.majorityMatchIndex.1 = N at hi hmaj ⊢
    let f : CNode → Nat := fun n =>
      if n.id = s.nid then s.lastLogIndex else ((s.findRepl? n.id).map (·.matchIndex)).getD 0
    let g : CNode → Bool := fun n => decide (f n ≥ N)
    have hvm : s.voterMatches = (s.configs.latest.nodes.filter (·.voter)).map f := rfl
    have hcount : s.voterMatches.countP (fun m => decide (m ≥ N)) =
        ((s.configs.latest.nodes.filter (·.voter)).filter g).length := by
      rw [hvm, List.countP_map, List.countP_eq_length_filter]
      rfl
    refine ⟨((s.configs.latest.nodes.filter (·.voter)).filter g).map (·.id), ?_, ?_, ?_, ?_⟩
    · exact hnodup.sublist ((List.filter_sublist).map _)
    · intro j hj
      obtain ⟨n, hn, rfl⟩ := List.mem_map.mp hj
      exact List.mem_map.mpr ⟨n, (List.mem_filter.mp hn).1, rfl⟩
    · rw [List.length_map, ← hcount, voters_length]; exact hmaj
    · intro j hj
      obtain ⟨n, hn, rfl⟩ := List.mem_map.mp hj
      have hgn : f n ≥ N := by
        have := (List.mem_filter.mp hn).2
        simpa [g] using this
      by_cases hid : n.id = s.nid
      · left
        refine ⟨hid, ?_⟩
        have : f n = s.lastLogIndex := by show (if n.id = s.nid then _ else _) = _; rw [if_pos hid]
        omega
      · right
        have hf : f n = ((s.findRepl? n.id).map (·.matchIndex)).getD 0 := by
          show (if n.id = s.nid then _ else _) = _; rw [if_neg hid]
        cases hr : s.findRepl? n.id with
        | none => rw [hf, hr] at hgn; simp at hgn; omega
        | some r =>
          rw [hf, hr] at hgn
          simp only [Option.map_some, Option.getD_some] at hgn
          obtain ⟨hmem, hrid⟩ := findRepl_mem hr
          rcases hmi r hmem with h0 | hB
          · omega
          · exact ⟨r.matchIndex, hgn, by rw [← hrid]; exact hB⟩

/-- the fields `LI` looks at, the commit index excepted -/
def lobs0 (s : Node) : (NLog × Nat × Nat × Nat × List SnapFile × Nat × Nat × List (String × Durable)) ×
    Role × Nat × Nat × Nat × Config × Leader :=
  (Core s, s.role, s.nid, s.votedFor, s.durVote, s.configs.latest, s.ldr)

theorem li_congr0 {b s s' : Node} {B : Nat → Nat → Prop} (h : LI b B s) (e : lobs0 s' = lobs0 s)
    (hci : s'.commitIndex = b.commitIndex ∨ Ev b B s') : LI b B s' := by
  unfold lobs0 Core at e
  simp only [Prod.mk.injEq] at e
  obtain ⟨⟨e1, e2, e3, e4, e5, e6, e7, e8⟩, f1, f2, f3, f4, f5, f6⟩ := e
  obtain ⟨a1, a2, a3, a4, a5, a6, a7, a8, a9, a10, a11, a12, _⟩ := h
  refine ⟨nwf_congr a1 e1 e2 e3 e4 e5, by rw [e1]; exact a2, f1.trans a3, f2.trans a4, e6.trans a5,
    ⟨f3.trans a6.1, e7.trans a6.2.1, f4.trans a6.2.2⟩, f5.trans a7, by rw [f6]; exact a8,
    by rw [e1]; exact a9, by rw [e1]; exact a10, ?_, by rw [f6]; exact a12, hci⟩
  rw [e8]
  intro p hp
  refine (a11 p hp).imp id ?_
  unfold PtL; rw [e1]; exact id

theorem li_ldr {b s : Node} {B : Nat → Nat → Prop} (l : Leader) (h : LI b B s) (hl : LdrSub B s.ldr l) :
    LI b B (s.withLdr l) := by
  obtain ⟨a1, a2, a3, a4, a5, a6, a7, a8, a9, a10, a11, a12, a13⟩ := h
  obtain ⟨l1, l2, l3, l4⟩ := hl
  refine ⟨nwf_congr a1 rfl rfl rfl rfl rfl, a2, a3, a4, a5, a6, a7, ?_, a9, a10, a11, ?_, ?_⟩
  · exact ⟨l2.trans a8.1, l1.trans a8.2.1, l3.trans a8.2.2⟩
  · intro r hr
    rcases l4 r hr with h0 | ⟨r', hr', e1, e2⟩ | hB
    · exact Or.inl h0
    · rcases a12 r' hr' with h0 | hB
      · exact Or.inl (by rw [← e2]; exact h0)
      · exact Or.inr (by rw [← e1, ← e2]; exact hB)
    · exact Or.inr hB
  · rcases a13 with c | c
    · exact Or.inl c
    · exact Or.inr (ev_congr c rfl (Nat.le_refl _) (Nat.le_refl _))

theorem li_append {b s : Node} {B : Nat → Nat → Prop} (e : Entry) (roll : Bool) (h : LI b B s)
    (hi : e.index = s.lastLogIndex + 1) (ht : e.term = s.term) :
    LI b B { s with log := s.log.append e roll, lastLogIndex := e.index, lastLogTerm := e.term } := by
  obtain ⟨a1, a2, a3, a4, a5, a6, a7, a8, ⟨es, d1, d2⟩, a10, a11, a12, a13⟩ := h
  obtain ⟨p1, p2⟩ := append_parts s.log e roll
  obtain ⟨w1, w2⟩ := logwf_append s.log e roll a2
  have hi' : e.index = s.log.entries.length + 1 := by rw [hi, a1.last]
  refine ⟨⟨a1.snapIndex, a1.snaps, ?_, ?_, ?_, ?_⟩, w1, a3, a4, a5, a6, a7, a8, ⟨es ++ [e], ?_, ?_⟩,
    Nat.le_trans a10 w2, ?_, a12, ?_⟩
  · show (s.log.append e roll).prev = 0
    rw [p1]; exact a1.prev
  · show ∀ k (hk : k < (s.log.append e roll).entries.length), (s.log.append e roll).entries[k].index = k + 1
    rw [p2]; exact contig_append a1.contig e hi'
  · show e.index = (s.log.append e roll).entries.length
    rw [p2, List.length_append, hi']; rfl
  · show e.term = lastTerm (s.log.append e roll).entries
    rw [p2, lastTerm_append_singleton]
  · show (s.log.append e roll).entries = _
    rw [p2, d1, List.append_assoc]
  · intro x hx
    rcases List.mem_append.mp hx with hx | hx
    · exact d2 x hx
    · rw [List.mem_singleton.mp hx, ht, a5]
  · intro p hp
    refine (a11 p hp).imp id ?_
    rintro ⟨q1, q2, q3, q4⟩
    refine ⟨q1, q2, ?_, q4⟩
    show _ <+: (s.log.append e roll).entries
    rw [p2]
    exact List.IsPrefix.trans q3 (List.prefix_append _ _)
  · rcases a13 with c | c
    · exact Or.inl c
    · refine Or.inr (ev_congr c rfl ?_ w2)
      show _ ≤ (s.log.append e roll).entries.length
      rw [p2, List.length_append]; omega

theorem li_commit {b s : Node} {B : Nat → Nat → Prop} (hb : LBase b B) (i : Nat) (h : LI b B s)
    (hi : i > s.commitIndex) (hst : i ≥ s.ldr.startIndex) (hm : i = s.majorityMatchIndex.1) :
    LI b B ((s.commitLog i).setCommitIndexR i).1 := by
  -- the majority, read off the state before the flush
  have hQ := majority_Q s B h.mi (by rw [h.cache.1, h.cfg]; exact hb.numVoters)
    (by rw [h.cfg, h.nid]; exact hb.voter)
    (by rw [h.cfg]; exact hb.nodup) (by rw [← hm]; omega)
  rw [← hm, h.cfg, h.nid] at hQ
  obtain ⟨Q, q1, q2, q3, q4⟩ := hQ
  obtain ⟨es, he, _⟩ := h.ext
  have hlen : i ≤ s.log.entries.length := by
    have hne : Q ≠ [] := by intro e; rw [e] at q3; simp at q3
    obtain ⟨j, hj⟩ := List.exists_mem_of_ne_nil Q hne
    rcases q4 j hj with ⟨_, hle⟩ | ⟨m, hle, hB⟩
    · rw [← h.nwf.last]; exact hle
    · have := hb.hB j m hB
      rw [he, List.length_append]; omega
  -- flush
  obtain ⟨w1, w2, w3⟩ := logwf_commitN s.log i h.lwf
  obtain ⟨c1, c2⟩ := commitN_parts s.log i
  have h0 : LI b B { s with log := s.log.commitN i } := by
    obtain ⟨a1, a2, a3, a4, a5, a6, a7, a8, a9, a10, a11, a12, a13⟩ := h
    refine ⟨⟨a1.snapIndex, a1.snaps, ?_, ?_, ?_, ?_⟩, w1, a3, a4, a5, a6, a7, a8, ?_, Nat.le_trans a10 w2, ?_, a12, ?_⟩
    · show (s.log.commitN i).prev = 0
      rw [c1]; exact a1.prev
    · show ∀ k (hk : k < (s.log.commitN i).entries.length), (s.log.commitN i).entries[k].index = k + 1
      rw [c2]; exact a1.contig
    · show s.lastLogIndex = (s.log.commitN i).entries.length
      rw [c2]; exact a1.last
    · show s.lastLogTerm = lastTerm (s.log.commitN i).entries
      rw [c2]; exact a1.lastT
    · show ∃ es, (s.log.commitN i).entries = _ ∧ _
      rw [c2]; exact a9
    · intro p hp
      refine (a11 p hp).imp id ?_
      rintro ⟨r1, r2, r3, r4⟩
      exact ⟨r1, r2, by show _ <+: (s.log.commitN i).entries; rw [c2]; exact r3, r4⟩
    · rcases a13 with c | c
      · exact Or.inl c
      · refine Or.inr (ev_congr c rfl ?_ w2)
        show _ ≤ (s.log.commitN i).entries.length
        rw [c2]; exact Nat.le_refl _
  have h1 : LI b B (s.commitLog i) := li_point "commitLog" h0
  have hv : (s.commitLog i).configs.latest.isVoter (s.commitLog i).nid = true := by
    rw [h1.cfg, h1.nid]; exact hb.voter
  obtain ⟨v1, v2, v3, v4, v5, v6, v7, v8, _⟩ := setCommitIndexR_voter (s.commitLog i) i hv
  refine li_congr0 h1 ?_ (Or.inr ?_)
  · unfold lobs0; rw [v2, v3, v4, v5, v6, v7, v8]
  · have hcore := v2
    unfold Core at hcore
    simp only [Prod.mk.injEq] at hcore
    have hlog : ((s.commitLog i).setCommitIndexR i).1.log = s.log.commitN i := hcore.1
    have hbci : b.commitIndex ≤ s.commitIndex := by
      rcases h.ci with c | c
      · omega
      · exact Nat.le_of_lt c.1
    refine ⟨by rw [v1]; omega, by rw [v1, ← h.cache.2.2]; exact hst, ?_, ?_, Q, q1, q2, q3, ?_⟩
    · rw [v1, hlog, c2]; exact hlen
    · rw [v1, hlog]
      have hl : s.log.last = s.log.entries.length := by unfold NLog.last; rw [h.nwf.prev]; omega
      rw [hl] at w3
      omega
    · intro j hj
      rw [v1]
      rcases q4 j hj with ⟨e, _⟩ | hx
      · exact Or.inl e
      · exact Or.inr hx

/-- **the instance** -/
theorem li_closed (b : Node) (B : Nat → Nat → Prop) (hb : LBase b B) :
    MClosed b.configs.latest B (LI b B) where
  cfg := fun s h => h.cfg
  panic := fun s site h => li_congr h (by unfold lobs; rw [core_panic]; unfold Node.panic; split <;> rfl)
  reply := fun s t r h => li_congr h (by unfold lobs; rw [core_reply]; unfold Node.reply; split <;> rfl)
  point := fun s n h => li_point n h
  fsm := fun s f h => li_congr h rfl
  popOrder := fun s h => li_congr h rfl
  ldr := fun s l h hl => li_ldr l h hl
  append := fun s e roll h hi ht => li_append e roll h hi ht
  commit := fun s i h hi hst hm => li_commit hb i h hi hst hm


/-! ## Part 2d: the leader handlers outside the block -/

/-- no new non-zero vote -/
def AF : Nat → Nat → Prop := fun _ _ => False

/-- the result of a leader handler: the invariant, or the node stepped down from a state satisfying it,
touching only role, leader id and term (never the log, the commit index or the state machine) -/
def PostF (Inv : Node → Prop) (s : Node) : Prop :=
  Inv s ∨ (s.role = .follower ∧ ∃ x, Inv x ∧ SX x AF False s)

namespace MClosed

variable {C : Config} {Bk : Nat → Nat → Prop} {Inv : Node → Prop} (h : MClosed C Bk Inv)
include h

theorem transferReply_m (s : Node) (r : String) (hs : Inv s) : Inv (s.transferReply r) := by
  unfold Node.transferReply
  exact h.ldrSame_m _ _ (h.reply _ _ _ hs) rfl rfl rfl rfl

theorem tryTransfer_m (s : Node) (hs : Inv s) : Inv s.tryTransfer := by
  unfold Node.tryTransfer; dsimp only
  have hp := h.popOrder s hs
  have L : ∀ x : Node, Inv x → Inv (x.withLdr { x.ldr with transfer := { x.ldr.transfer with respPending := true } }) :=
    fun x hx => h.ldrSame_m _ _ hx rfl rfl rfl rfl
  repeat' split
  all_goals first
    | exact hs
    | exact hp
    | exact h.panic _ _ hs
    | exact h.panic _ _ hp
    | exact L _ hs
    | exact L _ hp
    | exact L _ (h.panic _ _ hs)
    | exact L _ (h.panic _ _ hp)

theorem onTransfer_m (s : Node) (t g : Nat) (hs : Inv s) : Inv (s.onTransfer t g) := by
  unfold Node.onTransfer; dsimp only
  split
  · exact h.reply _ _ _ hs
  · exact h.tryTransfer_m _ (h.ldrSame_m _ _ hs rfl rfl rfl rfl)

theorem replyTransfer_m (hC : C.isStable = true) (s : Node) (r : String) (hs : Inv s) :
    Inv (s.replyTransfer r) := by
  unfold Node.replyTransfer
  have h1 := h.transferReply_m s r hs
  dsimp only
  rw [h.cfg _ h1]
  exact h.checkConfigActions_m hC _ _ _ h1

theorem onTimeoutNowResult_m (hC : C.isStable = true) (s : Node) (src : Nat) (e : Bool) (r : Nat) (hs : Inv s) :
    Inv (s.onTimeoutNowResult src e r) := by
  unfold Node.onTimeoutNowResult
  extract_lets l0 t0 s1 s2 l1 t1
  have h0 : Inv s1 := h.ldrSame_m _ _ hs rfl rfl rfl rfl
  have h2 : Inv s2 := by
    unfold s2
    split
    · rename_i rr hrr
      split
      · obtain ⟨hm, _⟩ := findRepl_mem hrr
        exact h.setRepl_m _ _ h0 (Or.inr (Or.inl ⟨rr, hm, rfl, rfl⟩))
      · exact h0
    · exact h.panic _ _ h0
  split
  · split
    · exact h.tryTransfer_m _ h2
    · exact h2
  · split
    · split
      · exact h.replyTransfer_m hC _ _ h0
      · exact h.tryTransfer_m _ h0
    · exact h.ldrSame_m _ _ h0 rfl rfl rfl rfl

theorem onWaitForStable_m (s : Node) (t : Nat) (hs : Inv s) : Inv (s.onWaitForStable t) := by
  unfold Node.onWaitForStable
  split
  · exact h.reply _ _ _ hs
  · exact h.ldrSame_m _ _ hs rfl rfl rfl rfl

theorem checkQuorum_p (hwf : ∀ s, Inv s → C05.VoteWF s) (s : Node) (hs : Inv s) :
    PostF Inv s.checkQuorum := by
  unfold Node.checkQuorum
  dsimp only
  have hp := h.panic s "nil.checkQuorum" hs
  have D : ∀ x : Node, Inv x → PostF Inv ((x.setRole .follower).setLeader 0) := fun x hx =>
    Or.inr ⟨rfl, x, hx, sx_setLeader _ (sx_setRole _ (sx_refl x AF False (hwf x hx)))⟩
  repeat' split
  all_goals first
    | exact Or.inl hs
    | exact Or.inl hp
    | exact D _ hs
    | exact D _ hp

theorem replUpdLoop_m (hC : C.isStable = true) (hwf : ∀ s, Inv s → C05.VoteWF s) (us : List ReplUpdate)
    (hus : NoCompact us) (hupd : ∀ u ∈ us, ∀ v, u.upd = .matchIndex v → v = 0 ∨ Bk u.id v) :
    ∀ (s : Node) (f : UpdFlags), Inv s → f.removeLTEU = false →
    (replUpdLoop s f us).2.removeLTEU = false ∧
    (((replUpdLoop s f us).2.stop = f.stop ∧ Inv (replUpdLoop s f us).1) ∨
     ((replUpdLoop s f us).2.stop = true ∧ (replUpdLoop s f us).1.role = .follower ∧
       ∃ x, Inv x ∧ SX x AF False (replUpdLoop s f us).1)) := by
  induction us with
  | nil => intro s f hs hf; exact ⟨hf, Or.inl ⟨rfl, hs⟩⟩
  | cons u us ih =>
    intro s f hs hf
    have hus' : NoCompact us := fun x hx => hus x (List.mem_cons_of_mem _ hx)
    have hupd' : ∀ u ∈ us, ∀ v, u.upd = .matchIndex v → v = 0 ∨ Bk u.id v :=
      fun x hx => hupd x (List.mem_cons_of_mem _ hx)
    have hu := hus u (List.mem_cons_self ..)
    have hu2 := hupd u (List.mem_cons_self ..)
    unfold replUpdLoop
    split
    · exact ih hus' hupd' s f hs hf
    · split
      · exact ih hus' hupd' s f hs hf
      · rename_i st hst
        obtain ⟨hmem, hid⟩ := findRepl_mem hst
        split
        · rename_i v hv
          dsimp only
          have hbk : v = 0 ∨ Bk st.id v := by rw [hid]; exact hu2 v hv
          have h1 : Inv (s.setRepl { st with matchIndex := v }) :=
            h.setRepl_m _ _ hs (hbk.imp id (fun x => Or.inr x))
          have hcfg : (s.setRepl { st with matchIndex := v }).configs.latest = C := h.cfg _ h1
          have := ih hus' hupd' (if ¬ st.node.voter = true ∧ st.node.action ≠ actNone
              then checkConfigAction (fuelFor 0) (s.setRepl { st with matchIndex := v }) 0
                (s.setRepl { st with matchIndex := v }).configs.latest st.id
              else s.setRepl { st with matchIndex := v }) { f with matchU := true }
            (by
              split
              · rw [hcfg]; exact h.checkConfigAction_m hC _ _ _ _ h1
              · exact h1) hf
          simpa using this
        · rename_i v hv
          exact absurd hv (hu v)
        · rename_i v hv
          exact ih hus' hupd' _ { f with noContactU := true }
            (h.setRepl_m _ _ hs (Or.inr (Or.inl ⟨st, hmem, rfl, rfl⟩))) hf
        · rename_i v hv
          refine ⟨hf, Or.inr ⟨rfl, ?_, s, hs, ?_⟩⟩
          · rw [(setTerm_key _ v).2.1]; rfl
          · exact sx_setTerm _ (sx_setLeader _ (sx_setRole _ (sx_refl s AF False (hwf s hs))))

theorem checkReplUpdates_p (hC : C.isStable = true) (hwf : ∀ s, Inv s → C05.VoteWF s)
    (us : List ReplUpdate)
    (hus : NoCompact us) (hupd : ∀ u ∈ us, ∀ v, u.upd = .matchIndex v → v = 0 ∨ Bk u.id v)
    (s : Node) (hs : Inv s) : PostF Inv (s.checkReplUpdates us) := by
  unfold Node.checkReplUpdates
  extract_lets r s1 f s2 s3 s4
  obtain ⟨k1, k2⟩ := h.replUpdLoop_m hC hwf us hus hupd s {} hs rfl
  split
  · rcases k2 with ⟨_, k⟩ | ⟨_, kr, k⟩
    · exact Or.inl k
    · exact Or.inr ⟨kr, k⟩
  · rename_i hstop
    rcases k2 with ⟨_, k⟩ | ⟨k0, _⟩
    · have h2 : Inv s2 := by unfold s2; split; exact h.onMajorityCommit_m hC _ _ k; exact k
      have h3 : PostF Inv s3 := by
        unfold s3; split
        · exact h.checkQuorum_p hwf _ h2
        · exact Or.inl h2
      have e4 : s4 = s3 := by
        unfold s4
        rw [if_neg]
        intro hc
        have : f.removeLTEU = true := hc.1
        have k1' : f.removeLTEU = false := k1
        rw [k1'] at this; cases this
      rw [e4]
      rcases h3 with h3 | ⟨hr, x, hx, hsx⟩
      · split
        · exact Or.inl (h.tryTransfer_m _ h3)
        · exact Or.inl h3
      · split
        · refine Or.inr ⟨?_, x, hx, ?_⟩
          · -- tryTransfer does not touch the role
            have : s3.tryTransfer.role = s3.role := by
              unfold Node.tryTransfer Node.popOrder Node.panic Node.withLdr
              dsimp only
              repeat' split
              all_goals rfl
            rw [this]; exact hr
          · unfold Node.tryTransfer; dsimp only
            have hp := sx_popOrder hsx
            repeat' split
            all_goals first
              | exact hsx
              | exact hp
              | exact sx_panic _ hsx
              | exact sx_panic _ hp
              | exact sx_withLdr _ hsx
              | exact sx_withLdr _ hp
              | exact sx_withLdr _ (sx_panic _ hsx)
              | exact sx_withLdr _ (sx_panic _ hp)
        · exact Or.inr ⟨hr, x, hx, hsx⟩
    · exact absurd k0 hstop

end MClosed


/-! ## Part 2e: releasing a role, `leader.init` -/

theorem sx_foldl {β : Type} {b : Node} {A : Nat → Nat → Prop} {K : Prop} (f : Node → β → Node)
    (hf : ∀ s x, SX b A K s → SX b A K (f s x)) (xs : List β) (s : Node) (hs : SX b A K s) :
    SX b A K (xs.foldl f s) := by
  induction xs generalizing s with
  | nil => exact hs
  | cons x xs ih => exact ih _ (hf _ _ hs)

theorem sx_releaseRole {b s : Node} {A : Nat → Nat → Prop} {K : Prop} (r : Role) (h : SX b A K s) :
    SX b A False (s.releaseRole r) := by
  have hw := h.weaken
  unfold Node.releaseRole
  split
  · exact hw
  · exact sx_candTransfer _ hw
  · unfold Node.leaderRelease Node.leaderReleaseRest
    dsimp only
    apply sx_withLdr
    apply sx_foldl _ (fun s t hs => sx_reply _ _ hs)
    apply sx_foldl _ (fun s t hs => sx_reply _ _ hs)
    have ht : ∀ x : Node, ∀ r', SX b A False x → SX b A False (x.transferReply r') := fun x r' hx => by
      unfold Node.transferReply; exact sx_withLdr _ (sx_reply _ _ hx)
    repeat' split
    all_goals first
      | exact hw
      | exact sx_setLeader _ hw
      | exact ht _ _ hw
      | exact sx_setLeader _ (ht _ _ hw)

/-- a candidate keeps its leader record when released (only `candTransfer` is cleared) -/
theorem sx_releaseCand {b s : Node} {A : Nat → Nat → Prop} {K : Prop} (h : SX b A K s) :
    SX b A K (s.releaseRole .candidate) := by
  unfold Node.releaseRole
  exact sx_candTransfer _ h

theorem checkConfigAction_stable (C : Config) (hC : C.isStable = true) (fuel : Nat) (s : Node) (t id : Nat) :
    checkConfigAction fuel s t C id = s ∨ checkConfigAction fuel s t C id = s.panic "fuel" := by
  cases fuel with
  | zero => unfold checkConfigAction; exact Or.inr rfl
  | succ n =>
    unfold checkConfigAction; dsimp only
    split
    · exact Or.inl rfl
    · rw [if_pos (stable_nextAction C hC id)]; exact Or.inl rfl

/-- under a stable configuration `checkConfigActions` leaves the leader record alone -/
theorem checkConfigActions_stable_ldr (C : Config) (hC : C.isStable = true) (fuel : Nat) (s : Node) (t : Nat) :
    (checkConfigActions fuel s t C).ldr = s.ldr := by
  have hp : ∀ (x : Node) site, (x.panic site).ldr = x.ldr := fun x site => (panic_fields x site).2.2.2.2.2.2.1
  cases fuel with
  | zero => unfold checkConfigActions; exact hp _ _
  | succ n =>
    unfold checkConfigActions; dsimp only
    have hn : (C.get s.nid).action = actNone := stable_action C hC _
    rw [if_neg (fun hc => hc.2 hn)]
    dsimp only
    have key : ∀ (xs : List Nat) (x : Node), x.ldr = s.ldr →
        (xs.foldl (fun s id => match s.findRepl? id with
          | some _ => checkConfigAction n s t C id
          | none => s) x).ldr = s.ldr := by
      intro xs
      induction xs with
      | nil => intro x hx; exact hx
      | cons a as ih =>
        intro x hx
        apply ih
        dsimp only
        split
        · rcases checkConfigAction_stable C hC n x t a with e | e
          · rw [e]; exact hx
          · rw [e, hp]; exact hx
        · exact hx
    exact key _ _ rfl

theorem addReplication_ldr (s : Node) (n : CNode) :
    (s.addReplication n).ldr.transfer = s.ldr.transfer ∧ (s.addReplication n).nid = s.nid := by
  unfold Node.addReplication Node.setRepl Node.withLdr Node.assert Node.panic
  dsimp only
  repeat' split
  all_goals exact ⟨rfl, rfl⟩

theorem isVoter_get (c : Config) (id : Nat) (h : c.isVoter id = true) : (c.get id).voter = true := by
  unfold Config.isVoter at h
  unfold Config.get
  split at h
  · rename_i n hn; rw [hn]; exact h
  · cases h

/-- the fresh leader record of `leader.init` -/
def initBase (x : Node) : Node :=
  let s := x.assert (x.leader == x.nid) "assert.leaderInit"
  s.withLdr
    { node := s.configs.latest.get s.nid, numVoters := s.configs.latest.numVoters,
      startIndex := s.lastLogIndex + 1, removeLTE := s.log.prev,
      queue := [], repls := [], transfer := {}, waitStable := [] }

/-- what `leader.init` needs to know about the node that just became leader -/
structure InitHyp (x : Node) : Prop where
  nwf : NWF x
  lwf : C06.LogWF x.log
  wf : C05.VoteWF x
  role : x.role = .leader
  stable : x.configs.latest.isStable = true
  voter : x.configs.latest.isVoter x.nid = true
  nodup : x.configs.latest.voters.Nodup

theorem initBase_lobs (x : Node) :
    Core (initBase x) = Core x ∧ (initBase x).role = x.role ∧ (initBase x).nid = x.nid ∧
    (initBase x).votedFor = x.votedFor ∧ (initBase x).durVote = x.durVote ∧ (initBase x).configs = x.configs ∧
    (initBase x).commitIndex = x.commitIndex ∧ (initBase x).fsm = x.fsm := by
  unfold initBase Node.withLdr Node.assert Node.panic
  dsimp only
  repeat' split
  all_goals exact ⟨rfl, rfl, rfl, rfl, rfl, rfl, rfl, rfl⟩

/-- the record `leader.init` starts with -/
def freshLdr (x : Node) : Leader :=
  { node := x.configs.latest.get x.nid, numVoters := x.configs.latest.numVoters,
    startIndex := x.lastLogIndex + 1, removeLTE := x.log.prev,
    queue := [], repls := [], transfer := {}, waitStable := [] }

theorem initBase_ldr (x : Node) : (initBase x).ldr = freshLdr x := by
  have h1 : (x.assert (x.leader == x.nid) "assert.leaderInit").configs = x.configs := (assert_fields _ _ _).2.2.2.2.2.2.2
  have h2 : (x.assert (x.leader == x.nid) "assert.leaderInit").nid = x.nid := (SameKey.assert _ _ _).nid
  have h3 : (x.assert (x.leader == x.nid) "assert.leaderInit").lastLogIndex = x.lastLogIndex := (assert_fields _ _ _).2.1
  have h4 : (x.assert (x.leader == x.nid) "assert.leaderInit").log = x.log := (assert_fields _ _ _).1
  show freshLdr (x.assert (x.leader == x.nid) "assert.leaderInit") = _
  unfold freshLdr
  rw [h1, h2, h3, h4]

theorem initBase_base {x : Node} (hx : InitHyp x) : LBase (initBase x) AF := by
  obtain ⟨c1, c2, c3, c4, c5, c6, c7, _⟩ := initBase_lobs x
  unfold Core at c1
  simp only [Prod.mk.injEq] at c1
  obtain ⟨e1, e2, e3, e4, e5, e6, e7, _⟩ := c1
  have g1 : C06.LogWF (initBase x).log := by rw [e1]; exact hx.lwf
  have g2 : (initBase x).configs.latest.isStable = true := by rw [c6]; exact hx.stable
  have g3 : (initBase x).configs.latest.isVoter (initBase x).nid = true := by rw [c6, c3]; exact hx.voter
  have g4 : (initBase x).configs.latest.voters.Nodup := by rw [c6]; exact hx.nodup
  have g5 : (initBase x).ldr.numVoters = (initBase x).configs.latest.numVoters := by rw [c6, initBase_ldr]; rfl
  refine ⟨nwf_congr hx.nwf e1 e2 e3 e4 e5, g1, ?_, c2.trans hx.role, g2, g3, g4, g5, ?_, ?_, fun j m hB => hB.elim⟩
  · unfold C05.VoteWF; rw [e7, e6, c5, c4]; exact hx.wf
  · rw [initBase_ldr]
    show 1 ≤ x.lastLogIndex + 1
    exact Nat.le_add_left _ _
  · intro k hk hk2
    rw [initBase_ldr] at hk
    have hk' : x.lastLogIndex + 1 ≤ k := hk
    rw [e1] at hk2
    have := hx.nwf.last
    omega

theorem extends_after_items (n : Nat) (s : Node) (b : List QItem) :
    C04.Extends (storeItems n s b) (storeEntry (n + 1) s b) := by
  have hc := C04.leader_closed (storeItems n s b)
  unfold storeEntry; dsimp only
  have h1 : C04.Extends (storeItems n s b) (storeItems n s b) := ⟨rfl, List.prefix_refl _⟩
  have h2 := hc.applyCommittedL_inv _ h1
  repeat' split
  all_goals first
    | exact hc.onMajorityCommit_inv' _ _ (hc.notifyFlr_inv _ (hc.beginFinishedRounds_inv _ h2))
    | exact hc.onMajorityCommit_inv' _ _ (hc.notifyFlr_inv _ (hc.beginFinishedRounds_inv _ h1))
    | exact hc.notifyFlr_inv _ (hc.beginFinishedRounds_inv _ h2)
    | exact hc.notifyFlr_inv _ (hc.beginFinishedRounds_inv _ h1)
    | exact h2
    | exact h1

/-- **`leader.init`** of a voter under a stable configuration: relative to the fresh leader record the
invariant holds, and at least one entry (the no-op of the new term) was appended. -/
theorem leaderInit_li {x : Node} (hx : InitHyp x) :
    LI (initBase x) AF x.leaderInit ∧ x.log.entries.length < x.leaderInit.log.entries.length := by
  have hb := initBase_base hx
  have L := li_closed (initBase x) AF hb
  have hC : (initBase x).configs.latest.isStable = true := hb.stable
  have h0 : LI (initBase x) AF (initBase x) := li_refl hb (fun r hr => by rw [initBase_ldr] at hr; cases hr)
  have t0 : (initBase x).ldr.transfer.active = false := by rw [initBase_ldr]; rfl
  obtain ⟨c1, _, c3, _, _, c6, _, _⟩ := initBase_lobs x
  -- the replications
  have key : ∀ (ns : List CNode) (s : Node), LI (initBase x) AF s → s.ldr.transfer.active = false →
      LI (initBase x) AF (ns.foldl (fun s n => if n.id = s.nid then s else s.addReplication n) s) ∧
      (ns.foldl (fun s n => if n.id = s.nid then s else s.addReplication n) s).ldr.transfer.active = false := by
    intro ns
    induction ns with
    | nil => intro s hs ht; exact ⟨hs, ht⟩
    | cons a as ih =>
      intro s hs ht
      apply ih
      · dsimp only
        split
        · exact hs
        · exact L.addReplication_m _ _ hs
      · dsimp only
        split
        · exact ht
        · rw [(addReplication_ldr s a).1]; exact ht
  obtain ⟨h2, t2⟩ := key x.configs.latest.nodes (initBase x) h0 t0
  have e : x.leaderInit = storeEntry (fuelFor 1)
      (checkConfigActions (fuelFor 0)
        ((initBase x).configs.latest.nodes.foldl (fun s n => if n.id = s.nid then s else s.addReplication n) (initBase x)) 0
        ((initBase x).configs.latest.nodes.foldl (fun s n => if n.id = s.nid then s else s.addReplication n) (initBase x)).configs.latest)
      [{ typ := etNop }] := rfl
  rw [← c6] at h2 t2
  generalize hs2 : (initBase x).configs.latest.nodes.foldl (fun s n => if n.id = s.nid then s else s.addReplication n)
    (initBase x) = s2 at h2 t2 e
  have hcfg2 : s2.configs.latest = (initBase x).configs.latest := h2.cfg
  have h3 : LI (initBase x) AF (checkConfigActions (fuelFor 0) s2 0 s2.configs.latest) := by
    rw [hcfg2]; exact L.checkConfigActions_m hC _ _ _ h2
  have t3 : (checkConfigActions (fuelFor 0) s2 0 s2.configs.latest).ldr = s2.ldr := by
    rw [hcfg2]; exact checkConfigActions_stable_ldr _ hC _ _ _
  generalize checkConfigActions (fuelFor 0) s2 0 s2.configs.latest = s3 at h3 t3 e
  have hnc : NoCfg [({ typ := etNop } : QItem)] := by
    intro q hq; rw [List.mem_singleton.mp hq]; decide
  have h4 : LI (initBase x) AF x.leaderInit := by rw [e]; exact L.storeEntry_m hC _ _ _ h3 hnc
  refine ⟨h4, ?_⟩
  -- the no-op is appended
  have hv3 : s3.ldr.node.voter = true := by
    rw [h3.cache.2.1, initBase_ldr]
    exact isVoter_get _ _ hx.voter
  have ht3 : s3.ldr.transfer.active = false := by rw [t3]; exact t2
  obtain ⟨_, q2, _⟩ := C03.leader_queue_matches_log 67 s3 [{ typ := etNop }] (by decide) ht3 hv3 hnc
  have hext := extends_after_items 67 s3 [{ typ := etNop }]
  have hlen := hext.2.length_le
  rw [q2] at hlen
  obtain ⟨es3, he3, _⟩ := h3.ext
  have hx0 : (initBase x).log.entries = x.log.entries := by
    unfold Core at c1; simp only [Prod.mk.injEq] at c1; rw [c1.1]
  rw [e]
  show x.log.entries.length < (storeEntry (67 + 1) s3 [{ typ := etNop }]).log.entries.length
  rw [he3, hx0] at hlen
  simp only [List.length_append] at hlen
  have : ((C03.assign s3.lastLogIndex s3.term [({ typ := etNop } : QItem)]).filter
      (fun q => isLogEntryTyp q.typ)).length = 1 := by
    simp [C03.assign, isLogEntryTyp, etNop, etRead, etDirtyRead, etBarrier]
  rw [List.length_map, this] at hlen
  omega


/-! ## Part 2f: one step that is not an append request — summary -/

/-- what the record of a leader satisfies between steps: the cached voter count is current, entries from
`startIndex` on carry the leader's term (and there is at least one: the last entry), and every non-zero match
index is backed by `B` -/
structure LeadOK (B : Nat → Nat → Prop) (s : Node) : Prop where
  numVoters : s.ldr.numVoters = s.configs.latest.numVoters
  start : 1 ≤ s.ldr.startIndex
  own : ∀ k, s.ldr.startIndex ≤ k → k ≤ s.log.entries.length → termAt s.log.entries k = s.term
  mi : ∀ r ∈ s.ldr.repls, r.matchIndex = 0 ∨ B r.id r.matchIndex
  startLe : s.ldr.startIndex ≤ s.log.entries.length
  lastT : s.lastLogTerm = s.term

theorem LeadOK.mono {B B' : Nat → Nat → Prop} {s : Node} (hB : ∀ j m, B j m → B' j m) (h : LeadOK B s) :
    LeadOK B' s :=
  ⟨h.numVoters, h.start, h.own, fun r hr => (h.mi r hr).imp id (hB _ _), h.startLe, h.lastT⟩

theorem termAt_append_right (es r : List Entry) (t : Nat) (hr : ∀ e ∈ r, e.term = t) (k : Nat)
    (h1 : es.length < k) (h2 : k ≤ (es ++ r).length) : termAt (es ++ r) k = t := by
  unfold termAt
  rw [if_neg (by omega)]
  rw [List.length_append] at h2
  have hk : k - 1 - es.length < r.length := by omega
  rw [List.getElem?_append_right (by omega), List.getElem?_eq_getElem hk]
  exact hr _ (List.getElem_mem hk)

/-- entries at or beyond `startIndex` carry the leader's term, also after the handler -/
theorem li_own {b s : Node} {B : Nat → Nat → Prop} (hb : LBase b B) (h : LI b B s) :
    ∀ k, b.ldr.startIndex ≤ k → k ≤ s.log.entries.length → termAt s.log.entries k = b.term := by
  intro k hk hk2
  obtain ⟨es, he, hes⟩ := h.ext
  rw [he] at hk2 ⊢
  by_cases hkb : k ≤ b.log.entries.length
  · rw [termAt_append_left _ _ _ hkb]; exact hb.own k hk hkb
  · exact termAt_append_right _ _ _ hes k (by omega) hk2

theorem li_leadOK {b s : Node} {B : Nat → Nat → Prop} (hb : LBase b B) (h : LI b B s)
    (hl : b.ldr.startIndex ≤ s.log.entries.length) : LeadOK B s := by
  have hown : ∀ k, s.ldr.startIndex ≤ k → k ≤ s.log.entries.length → termAt s.log.entries k = s.term := by
    intro k hk hk2
    rw [h.term]
    exact li_own hb h k (by rw [← h.cache.2.2]; exact hk) hk2
  have hs := hb.start
  refine ⟨by rw [h.cache.1, h.cfg]; exact hb.numVoters, by rw [h.cache.2.2]; exact hb.start, hown, h.mi,
    by rw [h.cache.2.2]; exact hl, ?_⟩
  rw [h.nwf.lastT, ← termAt_length]
  exact hown _ (by rw [h.cache.2.2]; exact hl) (Nat.le_refl _)

/-- commit evidence at the level of a whole step: the commit index moved to an index holding an entry of the
term `T` in which the node was leader during the step, inside the flushed part of the log, and a majority of
the voters reached it -/
structure CEv (pre : Node) (B : Nat → Nat → Prop) (post : Node) (T : Nat) : Prop where
  adv : pre.commitIndex < post.commitIndex
  holds : Holds post.log.entries post.commitIndex T
  flushed : post.commitIndex ≤ post.log.flushed
  src : (pre.role = .leader ∧ T = pre.term ∧ T ≤ post.term ∧ (post.term = pre.term ∨ post.votedFor = 0)) ∨
    (post.role = .leader ∧ T = post.term)
  maj : ∃ Q : List Nat, Q.Nodup ∧ (∀ j ∈ Q, j ∈ pre.configs.latest.voters) ∧
    2 * Q.length > pre.configs.latest.voters.length ∧
    ∀ j ∈ Q, j = pre.nid ∨ (pre.role = .leader ∧ T = pre.term ∧ ∃ m, post.commitIndex ≤ m ∧ B j m)

/-- **summary of a step that is not an append request**, relative to the state `pre` it starts from -/
structure NStep (pre : Node) (A : Nat → Nat → Prop) (B : Nat → Nat → Prop) (post : Node) : Prop where
  lwf : C06.LogWF post.log
  flush : pre.log.flushed ≤ post.log.flushed
  pair : PairOK pre A post.term post.votedFor
  tr : ∀ p ∈ post.trace, pre.log.entries.take pre.log.flushed <+: p.2.log.entries ∧
    PairOK pre A p.2.term p.2.vote ∧ DW p.2
  cfg : post.configs.latest = pre.configs.latest
  ci : post.commitIndex = pre.commitIndex ∨ ∃ T, CEv pre B post T
  ldr : post.role = .leader →
    (pre.role = .leader ∧ post.term = pre.term ∧ LeadOK B post) ∨ LeadOK AF post
  grow : pre.log.entries.length < post.log.entries.length →
    (pre.role = .leader ∧ lastTerm post.log.entries = pre.term) ∨ post.role = .leader
  trgrow : ∀ p ∈ post.trace, pre.log.entries.length < p.2.log.entries.length →
    (p.2.term = post.term ∧ p.2.vote = post.votedFor) ∨
    (pre.role = .leader ∧ lastTerm p.2.log.entries = pre.term)

/-- a list that extends `b` within `b ++ es` ends with an entry of `es` -/
theorem lastTerm_ext {b es d : List Entry} {t : Nat} (hes : ∀ e ∈ es, e.term = t) (hp : d <+: b ++ es)
    (hl : b.length < d.length) : lastTerm d = t := by
  rcases C04Sys.prefix_append_cases hp with h | ⟨es', e1, e2, e3⟩
  · have := h.length_le; omega
  · rw [e3]
    unfold lastTerm
    rw [List.getLast?_append, List.getLast?_eq_some_getLast e1]
    exact hes _ (e2.subset (List.getLast_mem e1))

theorem pairOK_trans {b m : Node} {A : Nat → Nat → Prop} {t v : Nat} (hm : PairOK b A m.term m.votedFor)
    (h : PairOK m AF t v) : PairOK b A t v := by
  obtain ⟨h1, h2⟩ := h
  refine ⟨Nat.le_trans hm.1 h1, ?_⟩
  rcases h2 with h2 | ⟨e1, e2⟩ | h2
  · exact Or.inl h2
  · rw [e1, e2]; exact hm.2
  · exact h2.elim


theorem sx_log {b s : Node} {A : Nat → Nat → Prop} {K : Prop} (h : SX b A K s) : s.log = b.log := by
  have e := h.core
  unfold LCore at e
  simp only [Prod.mk.injEq] at e
  exact e.1

theorem durable_entries {s : Node} (hn : NWF s) : s.log.durable.entries = s.log.entries.take s.log.flushed := by
  show s.log.entries.take (s.log.flushed - s.log.prev) = _
  rw [hn.prev, Nat.sub_zero]

/-- summary of a step whose result is related to its start by `SX` alone -/
theorem nstep_sx {b post : Node} {A : Nat → Nat → Prop} {B : Nat → Nat → Prop} {K : Prop}
    (hbtr : b.trace = []) (hbn : NWF b) (hbl : C06.LogWF b.log) (h : SX b A K post)
    (hld : post.role = .leader → (b.role = .leader ∧ post.term = b.term ∧ LeadOK B post) ∨ LeadOK AF post) :
    NStep b A B post := by
  have hlog := sx_log h
  refine ⟨by rw [hlog]; exact hbl, by rw [hlog]; exact Nat.le_refl _, h.pair, ?_, by rw [h.cfg], Or.inl h.ci, hld,
    fun hg => by rw [hlog] at hg; omega, fun p hp hg => ?_⟩
  · intro p hp
    rcases h.tr p hp with hp' | ⟨q1, _, q3⟩
    · rw [hbtr] at hp'; cases hp'
    · refine ⟨?_, q3, ?_⟩
      · rw [q1, durable_entries hbn]
        exact List.prefix_refl _
      · show NLog.lastSegPrev p.2.log ≤ p.2.log.entries.length
        rw [q1]; exact durable_dw_log _ hbn.prev hbl
  · exfalso
    rcases h.tr p hp with hp' | ⟨q1, _, _⟩
    · rw [hbtr] at hp'; cases hp'
    · rw [q1, durable_entries hbn, List.length_take] at hg
      omega

/-- summary of a step that went through a leader handler (or `leader.init`): `b0` is the state the handler
started from (related to the start `b` of the step by `SX`), `m` its result, and the step ended in `m` or
stepped down from it -/
theorem nstep_li {b b0 m post : Node} {A : Nat → Nat → Prop} {B B0 : Nat → Nat → Prop} {K0 : Prop}
    (hbtr : b.trace = []) (hbn : NWF b) (hbl : C06.LogWF b.log) (h0 : SX b A K0 b0) (hb0 : LBase b0 B0)
    (hm : LI b0 B0 m)
    (hpost : post = m ∨ (post.role = .follower ∧ SX m AF False post))
    (hB0 : ∀ j k, B0 j k → b.role = .leader ∧ b0.term = b.term ∧ B j k)
    (hsrc : (b.role = .leader ∧ b0.term = b.term) ∨ post = m)
    (hlast : b0.ldr.startIndex ≤ m.log.entries.length)
    (hld : post = m → LeadOK B0 m → (b.role = .leader ∧ post.term = b.term ∧ LeadOK B post) ∨ LeadOK AF post) :
    NStep b A B post := by
  have hlog0 := sx_log h0
  have hwfm := li_wf hb0 hm
  -- the end of the step has the log, commit index and configuration of `m`
  have hpm : SX m AF False post := by
    rcases hpost with e | ⟨_, e⟩
    · rw [e]; exact sx_refl m AF False hwfm
    · exact e
  have hlogp := sx_log hpm
  obtain ⟨es, he, hes⟩ := hm.ext
  have hmpair : PairOK b A m.term m.votedFor := by
    rw [hm.term, hm.vote.1]; exact h0.pair
  have hdur : b.log.entries.take b.log.flushed <+: m.log.entries.take m.log.flushed := by
    rw [← hlog0]
    exact take_prefix_take (by rw [he]; exact List.prefix_append _ _) hm.flush
  have hgrow : b.log.entries.length < post.log.entries.length →
      (b.role = .leader ∧ lastTerm post.log.entries = b.term) ∨ post.role = .leader := by
    intro hg
    rcases hsrc with a | a
    · left
      refine ⟨a.1, ?_⟩
      -- the appended entries carry the leader's term
      rw [hlogp, he] at hg ⊢
      rw [← hlog0, List.length_append] at hg
      have hnil : es ≠ [] := by intro e; rw [e] at hg; simp at hg
      unfold lastTerm
      rw [List.getLast?_append, List.getLast?_eq_some_getLast hnil]
      show (es.getLast hnil).term = b.term
      rw [hes _ (List.getLast_mem hnil)]; exact a.2
    · right; rw [a]; exact hm.role
  have htg : ∀ p ∈ post.trace, b.log.entries.length < p.2.log.entries.length →
      (p.2.term = post.term ∧ p.2.vote = post.votedFor) ∨
      (b.role = .leader ∧ lastTerm p.2.log.entries = b.term) := by
    intro p hp hg
    have hes' : ∀ e ∈ es, e.term = b0.term := hes
    -- a crash point of the leader handler
    have fromL : p ∈ m.trace → (p.2.term = m.term ∧ p.2.vote = m.votedFor) ∨
        (b.role = .leader ∧ lastTerm p.2.log.entries = b.term) := by
      intro hpm'
      rcases hm.tr p hpm' with hp'' | ⟨_, _, r3, _, r5, r6, _⟩
      · exfalso
        rcases h0.tr p hp'' with hp3 | ⟨q1, _, _⟩
        · rw [hbtr] at hp3; cases hp3
        · rw [q1, durable_entries hbn, List.length_take] at hg
          omega
      · rcases hsrc with ⟨a, a'⟩ | a
        · right
          refine ⟨a, ?_⟩
          rw [he] at r3
          rw [← a']
          exact lastTerm_ext hes' r3 (by rw [hlog0]; exact hg)
        · left
          rw [r5, r6, hm.term, hm.vote.1]
          exact ⟨hb0.wf.1, hb0.wf.2⟩
    rcases hpost with e | ⟨hf, hsx⟩
    · subst e; exact fromL hp
    · rcases hsx.tr p hp with hp' | ⟨q1, _, _⟩
      · rcases fromL hp' with r | r
        · rcases hsrc with ⟨a, a'⟩ | a
          · -- the crash point of a leader handler of `b`: its new entries carry `b`'s term
            right
            refine ⟨a, ?_⟩
            rcases hm.tr p hp' with hp'' | ⟨_, _, r3, _, _, _, _⟩
            · exfalso
              rcases h0.tr p hp'' with hp3 | ⟨q1, _, _⟩
              · rw [hbtr] at hp3; cases hp3
              · rw [q1, durable_entries hbn, List.length_take] at hg
                omega
            · rw [he] at r3
              rw [← a']
              exact lastTerm_ext hes' r3 (by rw [hlog0]; exact hg)
          · rw [a] at hf; rw [hm.role] at hf; cases hf
        · exact Or.inr r
      · rcases hsrc with ⟨a, a'⟩ | a
        · right
          refine ⟨a, ?_⟩
          rw [q1, durable_entries hm.nwf] at hg ⊢
          rw [← a']
          exact lastTerm_ext hes' (by rw [← he]; exact List.take_prefix _ _) (by rw [hlog0]; exact hg)
        · rw [a] at hf; rw [hm.role] at hf; cases hf
  refine ⟨by rw [hlogp]; exact hm.lwf, by rw [hlogp, ← hlog0]; exact hm.flush, pairOK_trans hmpair hpm.pair,
    ?_, by rw [hpm.cfg, hm.cfg, h0.cfg], ?_, ?_, hgrow, htg⟩
  · -- crash points
    intro p hp
    rcases hpm.tr p hp with hp' | ⟨q1, _, q3⟩
    · rcases hm.tr p hp' with hp'' | ⟨r1, r2, r3, r4, r5, r6, r7⟩
      · rcases h0.tr p hp'' with hp3 | ⟨q1, _, q3⟩
        · rw [hbtr] at hp3; cases hp3
        · refine ⟨?_, q3, ?_⟩
          · rw [q1, durable_entries hbn]; exact List.prefix_refl _
          · show NLog.lastSegPrev p.2.log ≤ p.2.log.entries.length
            rw [q1]; exact durable_dw_log _ hbn.prev hbl
      · refine ⟨by rw [← hlog0]; exact r4, ?_, r7⟩
        rw [r5, r6, hb0.wf.1, hb0.wf.2]; exact h0.pair
    · refine ⟨?_, pairOK_trans hmpair q3, ?_⟩
      · rw [q1, durable_entries hm.nwf]; exact hdur
      · show NLog.lastSegPrev p.2.log ≤ p.2.log.entries.length
        rw [q1]; exact durable_dw_log _ hm.nwf.prev hm.lwf
  · -- commit index
    have hci : post.commitIndex = m.commitIndex := hpm.ci
    rcases hm.ci with c | c
    · exact Or.inl (hci.trans (c.trans h0.ci))
    · right
      obtain ⟨c1, c2, c3, c4, Q, q1, q2, q3, q4⟩ := c
      refine ⟨b0.term, ?_, ?_, by rw [hlogp, hci]; exact c4, ?_, Q, q1, ?_, ?_, ?_⟩
      · rw [← h0.ci, hci]; exact c1
      · rw [hlogp, hci]
        have h1 := hb0.start
        exact ⟨by omega, c3, li_own hb0 hm _ c2 c3⟩
      · rcases hsrc with ⟨a, a'⟩ | a
        · refine Or.inl ⟨a, a', by rw [← hm.term]; exact hpm.pair.1, ?_⟩
          rcases hpm.pair.2 with p0 | ⟨p1, _⟩ | p2
          · exact Or.inr p0
          · exact Or.inl (by rw [p1, hm.term]; exact a')
          · exact p2.elim
        · exact Or.inr ⟨by rw [a]; exact hm.role, by rw [a]; exact hm.term.symm⟩
      · intro j hj; rw [← h0.cfg]; exact q2 j hj
      · rw [← h0.cfg]; exact q3
      · intro j hj
        rw [hci]
        rcases q4 j hj with e | ⟨k, hk, hB⟩
        · exact Or.inl (e.trans h0.nid)
        · obtain ⟨a1, a2, a3⟩ := hB0 j k hB
          exact Or.inr ⟨a1, a2, k, hk, a3⟩
  · intro hl
    rcases hpost with e | ⟨hf, _⟩
    · exact hld e (li_leadOK hb0 hm hlast)
    · rw [hf] at hl; cases hl


/-- The operations of the `_partial` model other than append requests: no snapshot / compaction operation
(`LogRel.OpOK`), no configuration change request, no configuration entry in a client batch. -/
def OpOK2 (op : Op) : Prop :=
  OpOK op ∧ (∀ b, op = .newEntries b → NoCfg b) ∧ (∀ t c, op ≠ .changeConfig t c)

/-- the new non-zero votes a step handling `op` can make durable: the vote a vote request asks for (after the
up-to-date check), or the self vote of an election started in the step -/
def AOp (b : Node) (op : Op) (t c : Nat) : Prop :=
  (∃ q, op = .vote q ∧ AVote b q t c) ∨ ASelf b t c

theorem aop_self (b : Node) (op : Op) : ∀ t c, ASelf b t c → AOp b op t c := fun _ _ h => Or.inr h

/-- **every case of `handle`** (append requests excepted): either nothing but role / leader id / (term, vote) /
replies moved (`SX`), or the node is a leader and ran a leader handler (`PostF (LI b B)`). -/
theorem handle_cls (b : Node) (op : Op) (B : Nat → Nat → Prop) (hwf : C05.VoteWF b) (hok : OpOK2 op)
    (happ : ∀ q, op ≠ .append q)
    (hld : b.role = .leader → LBase b B ∧ ∀ r ∈ b.ldr.repls, r.matchIndex = 0 ∨ B r.id r.matchIndex)
    (hupd : ∀ us, op = .replUpdates us → ∀ u ∈ us, ∀ v, u.upd = .matchIndex v → v = 0 ∨ B u.id v) :
    SX b (AOp b op) True (b.handle op) ∨ (b.role = .leader ∧ PostF (LI b B) (b.handle op)) := by
  have S0 : SX b (AOp b op) True b := sx_refl b _ _ hwf
  obtain ⟨hok1, hok2, hok3⟩ := hok
  -- the leader cases
  have LD : b.role = .leader → (∀ x, LI b B x → C05.VoteWF x) ∧ MClosed b.configs.latest B (LI b B) ∧
      b.configs.latest.isStable = true ∧ LI b B b := fun hr =>
    ⟨fun x hx => li_wf (hld hr).1 hx, li_closed b B (hld hr).1, (hld hr).1.stable, li_refl (hld hr).1 (hld hr).2⟩
  cases op <;> unfold Node.handle <;> dsimp only
  case vote q =>
    left
    exact sx_rpcDone _ _ ((sx_onVoteRequest q (sx_refl b _ _ hwf) ⟨rfl, rfl⟩).mono
      (fun t c h => Or.inl ⟨q, rfl, h⟩))
  case append q => exact absurd rfl (happ q)
  case install q => exact absurd hok1 (by simp [OpOK])
  case timeoutNow => exact Or.inl (sx_rpcDone _ _ (sx_onTimeoutNow S0))
  case identity a c d => exact Or.inl (sx_rpcReply _ S0)
  case disconnected n =>
    left
    split
    · exact sx_setLeader _ S0
    · exact S0
  case timeout =>
    left
    split
    · exact sx_followerTimeout S0
    · exact sx_startElection (aop_self b _) S0
    · exact sx_checkQuorum S0
  case newEntries batch =>
    split
    · rename_i hr
      obtain ⟨_, L, hC, H0⟩ := LD hr
      exact Or.inr ⟨hr, Or.inl (L.storeEntry_m hC _ _ _ H0 (hok2 batch rfl))⟩
    · exact Or.inl (sx_rejectEntries _ S0)
  case changeConfig t c => exact absurd rfl (hok3 t c)
  case takeSnapshot t th => exact Or.inl (sx_onTakeSnapshot _ _ S0)
  case snapRun => exact absurd hok1 (by simp [OpOK])
  case snapTaken => exact absurd hok1 (by simp [OpOK])
  case waitStable t =>
    split
    · rename_i hr
      obtain ⟨_, L, hC, H0⟩ := LD hr
      exact Or.inr ⟨hr, Or.inl (L.onWaitForStable_m _ _ H0)⟩
    · exact Or.inl (sx_reply _ _ S0)
  case transfer t g =>
    split
    · rename_i hr
      obtain ⟨_, L, hC, H0⟩ := LD hr
      exact Or.inr ⟨hr, Or.inl (L.onTransfer_m _ _ _ H0)⟩
    · exact Or.inl (sx_reply _ _ S0)
  case voteResult e t r =>
    left
    split
    · exact sx_onVoteResult _ _ _ S0
    · exact S0
  case replUpdates us =>
    split
    · rename_i hr
      obtain ⟨W, L, hC, H0⟩ := LD hr
      exact Or.inr ⟨hr, L.checkReplUpdates_p hC W us hok1 (hupd us rfl) _ H0⟩
    · exact Or.inl S0
  case transferTimeout =>
    split
    · rename_i hr
      obtain ⟨_, L, hC, H0⟩ := LD hr.1
      exact Or.inr ⟨hr.1, Or.inl (L.replyTransfer_m hC _ _ H0)⟩
    · exact Or.inl S0
  case timeoutNowResult a c d =>
    split
    · rename_i hr
      obtain ⟨_, L, hC, H0⟩ := LD hr.1
      exact Or.inr ⟨hr.1, Or.inl (L.onTimeoutNowResult_m hC _ _ _ _ H0)⟩
    · exact Or.inl S0
  case newTermTimeout =>
    split
    · rename_i hr
      obtain ⟨_, L, hC, H0⟩ := LD hr.1
      exact Or.inr ⟨hr.1, Or.inl (L.tryTransfer_m _ (L.ldrSame_m _ _ H0 rfl rfl rfl rfl))⟩
    · exact Or.inl S0
  case shutdown => exact absurd hok1 (by simp [OpOK])


theorem leadOK_of_sx {b s : Node} {A : Nat → Nat → Prop} {B : Nat → Nat → Prop} (h : SX b A True s)
    (ht : s.term = b.term) (hb : LeadOK B b) : LeadOK B s := by
  have hl := h.ldr trivial
  have hlog := sx_log h
  obtain ⟨l1, l2⟩ := sx_lastLog h
  exact ⟨by rw [hl, h.cfg]; exact hb.numVoters, by rw [hl]; exact hb.start,
    by rw [hl, hlog, ht]; exact hb.own, by rw [hl]; exact hb.mi, by rw [hl, hlog]; exact hb.startLe,
    by rw [l2, ht]; exact hb.lastT⟩

theorem initHyp_of_sx {b x : Node} {A : Nat → Nat → Prop} {K : Prop} (hbn : NWF b) (hbl : C06.LogWF b.log)
    (h : SX b A K x) (hr : x.role = .leader) (hstable : b.configs.latest.isStable = true)
    (hv : b.configs.latest.isVoter b.nid = true) (hnodup : b.configs.latest.voters.Nodup) : InitHyp x := by
  have e := h.core
  unfold LCore at e
  simp only [Prod.mk.injEq] at e
  obtain ⟨e1, e2, e3, e4, e5⟩ := e
  exact ⟨nwf_congr hbn e1 e2 e3 e4 e5, by rw [e1]; exact hbl, h.wf, hr, by rw [h.cfg]; exact hstable,
    by rw [h.cfg, h.nid]; exact hv, by rw [h.cfg]; exact hnodup⟩

theorem sx_initBase {b x : Node} {A : Nat → Nat → Prop} {K : Prop} (h : SX b A K x) : SX b A False (initBase x) := by
  unfold initBase
  exact sx_withLdr _ (sx_assert _ _ h.weaken)

/-- the step ends with `leader.init` of `x` (and possibly the release that follows a step down inside it,
which cannot happen here) -/
theorem nstep_init {b x post : Node} {A : Nat → Nat → Prop} {B : Nat → Nat → Prop} {K : Prop}
    (hbtr : b.trace = []) (hbn : NWF b) (hbl : C06.LogWF b.log) (h : SX b A K x) (hr : x.role = .leader)
    (hstable : b.configs.latest.isStable = true) (hv : b.configs.latest.isVoter b.nid = true)
    (hnodup : b.configs.latest.voters.Nodup)
    (hpost : (x.leaderInit.role = .leader ∧ post = x.leaderInit) ∨
       (x.leaderInit.role = .follower ∧ post = x.leaderInit.releaseRole .leader)) :
    NStep b A B post := by
  have hx := initHyp_of_sx hbn hbl h hr hstable hv hnodup
  obtain ⟨hli, hlen⟩ := leaderInit_li hx
  have hb0 := initBase_base hx
  have hpe : post = x.leaderInit := by
    rcases hpost with ⟨_, e⟩ | ⟨r, _⟩
    · exact e
    · rw [hli.role] at r; cases r
  have hlen0 : (initBase x).log.entries.length = x.log.entries.length := by
    have := (initBase_lobs x).1
    unfold Core at this
    simp only [Prod.mk.injEq] at this
    rw [this.1]
  exact nstep_li hbtr hbn hbl (sx_initBase h) hb0 hli (Or.inl hpe) (fun j k hB => hB.elim) (Or.inr hpe)
    (by rw [initBase_ldr]; show x.lastLogIndex + 1 ≤ _; rw [hx.nwf.last]; exact hlen)
    (fun _ hl => Or.inr (by rw [hpe]; exact hl))

/-- **One step of a node that is not an append request** (and none of the operations excluded by `OpOK2`),
from a well-formed state with a stable latest configuration: see `NStep`. `B` backs the match indexes of the
leader's table before the step and the match-index reports delivered in the step. -/
theorem nstep (pre : Node) (op : Op) (ra : List Nat) (ord : List (List Nat)) (B : Nat → Nat → Prop)
    (hn : NWF pre) (hl : C06.LogWF pre.log) (hwf : C05.VoteWF pre)
    (hstable : pre.configs.latest.isStable = true) (hnodup : pre.configs.latest.voters.Nodup)
    (hok : OpOK2 op) (happ : ∀ q, op ≠ .append q) (hc : pre.role = .candidate → pre.term ≠ 0)
    (hrv : pre.role ≠ .follower → pre.configs.latest.isVoter pre.nid = true)
    (hld : pre.role = .leader → LeadOK B pre ∧ ∀ j m, B j m → m ≤ pre.log.entries.length)
    (hupd : ∀ us, op = .replUpdates us → ∀ u ∈ us, ∀ v, u.upd = .matchIndex v → v = 0 ∨ B u.id v) :
    NStep pre (AOp pre op) B (pre.step op ra ord) := by
  have hbn : NWF (pre.begin ra ord) := nwf_congr hn rfl rfl rfl rfl rfl
  have hbwf : C05.VoteWF (pre.begin ra ord) := hwf
  have hpost : pre.step op ra ord = settle 6 ((pre.begin ra ord).handle op) (pre.begin ra ord).role := by
    unfold Node.step
    cases op <;> first | rfl | exact hok.1.elim
  have hbase : (pre.begin ra ord).role = .leader → LBase (pre.begin ra ord) B ∧
      ∀ r ∈ (pre.begin ra ord).ldr.repls, r.matchIndex = 0 ∨ B r.id r.matchIndex := by
    intro hr
    obtain ⟨lo, hB⟩ := hld hr
    exact ⟨⟨hbn, hl, hbwf, hr, hstable, hrv (by rw [show pre.role = .leader from hr]; decide), hnodup, lo.numVoters,
      lo.start, lo.own, hB⟩, lo.mi⟩
  obtain ⟨hnid, hrel⟩ := handle_rel (pre.begin ra ord) op hc
  have cls := handle_cls (pre.begin ra ord) op B hbwf hok happ hbase hupd
  suffices hs : NStep (pre.begin ra ord) (AOp (pre.begin ra ord) op) B (pre.step op ra ord) by
    refine ⟨hs.lwf, hs.flush, hs.pair, hs.tr, hs.cfg, ?_, hs.ldr, hs.grow, hs.trgrow⟩
    rcases hs.ci with c | ⟨T, c⟩
    · exact Or.inl c
    · exact Or.inr ⟨T, c.adv, c.holds, c.flushed, c.src, c.maj⟩
  rw [hpost]
  have hbtr : (pre.begin ra ord).trace = [] := rfl
  have hbl : C06.LogWF (pre.begin ra ord).log := hl
  have hst : (pre.begin ra ord).configs.latest.isStable = true := hstable
  have hnd : (pre.begin ra ord).configs.latest.voters.Nodup := hnodup
  have hrv' : (pre.begin ra ord).role ≠ .follower →
      (pre.begin ra ord).configs.latest.isVoter (pre.begin ra ord).nid = true := hrv
  have hldb : (pre.begin ra ord).role = .leader → LeadOK B (pre.begin ra ord) := fun hr =>
    ⟨(hld hr).1.numVoters, (hld hr).1.start, (hld hr).1.own, (hld hr).1.mi, (hld hr).1.startLe, (hld hr).1.lastT⟩
  generalize pre.begin ra ord = b at *
  generalize b.handle op = h at *
  by_cases hrole : h.role = b.role
  · have e : settle 6 h b.role = h := by unfold settle; rw [if_pos hrole]
    rw [e]
    rcases cls with hsx | ⟨hr, hp⟩
    · refine nstep_sx hbtr hbn hbl hsx (fun hlead => Or.inl ?_)
      have hbr : b.role = .leader := by rw [← hrole]; exact hlead
      have ht : h.term = b.term := by
        cases hrel with
        | same _ _ t _ => exact t
        | follower a => rw [a] at hlead; cases hlead
        | pending _ a => rw [a] at hlead; cases hlead
        | counted c _ _ _ => rw [c.1] at hbr; cases hbr
        | reelect c _ => rw [c] at hbr; cases hbr
      exact ⟨hbr, ht, leadOK_of_sx hsx ht (hldb hbr)⟩
    · rcases hp with hi | ⟨hf, _⟩
      · obtain ⟨hb0, _⟩ := hbase hr
        exact nstep_li hbtr hbn hbl (sx_refl b _ True hbwf) hb0 hi (Or.inl rfl)
          (fun j k hB => ⟨hr, rfl, hB⟩) (Or.inl ⟨hr, rfl⟩)
          (by obtain ⟨es, he, _⟩ := hi.ext; rw [he, List.length_append]; have := (hldb hr).startLe; omega)
          (fun _ hlo => Or.inl ⟨hr, hi.term, hlo⟩)
      · rw [hrole, hr] at hf; cases hf
  · have shape := settle_shape 3 h b.role hrole
    rcases cls with hsx | ⟨hr, hp⟩
    · cases shape with
      | follower hf e =>
        rw [e]
        refine nstep_sx hbtr hbn hbl (sx_releaseRole _ hsx) (fun hlead => ?_)
        rw [(SameKey.releaseRole _ _).role, hf] at hlead; cases hlead
      | cand hcd e hpc =>
        rw [e] at hpc ⊢
        refine nstep_sx hbtr hbn hbl (sx_startElection (aop_self b op) (sx_releaseRole _ hsx)) (fun hlead => ?_)
        rw [hpc] at hlead; cases hlead
      | leader x r ex hpo =>
        -- the handler made the node leader: it was candidate before
        have hbc : b.role = .candidate := by
          cases hrel with
          | same _ a _ _ => exact absurd a hrole
          | follower a => rw [a] at r; cases r
          | pending _ a => rw [a] at r; cases r
          | counted c _ _ _ => exact c.1
          | reelect c _ => exact c
        have hxs : SX b (AOp b op) False x := by rw [ex]; exact sx_releaseRole _ hsx
        have hxr : x.role = .leader := by rw [ex, (SameKey.releaseRole _ _).role]; exact r
        exact nstep_init hbtr hbn hbl hxs hxr hst (hrv' (by rw [hbc]; decide)) hnd hpo
      | candLeader x r rl ex hpo =>
        have hv : b.configs.latest.isVoter b.nid = true := by
          cases hrel with
          | same _ a _ _ => exact absurd a hrole
          | follower a => rw [a] at r; cases r
          | pending nb a _ _ vt =>
            rw [hsx.cfg, hsx.nid] at vt; exact vt
          | counted c _ _ _ => exact hrv' (by rw [c.1]; decide)
          | reelect c _ => exact hrv' (by rw [c]; decide)
        have hxs : SX b (AOp b op) False x := by
          rw [ex]; exact sx_releaseRole _ (sx_startElection (aop_self b op) (sx_releaseRole _ hsx))
        have hxr : x.role = .leader := by rw [ex, (SameKey.releaseRole _ _).role]; exact rl
        exact nstep_init hbtr hbn hbl hxs hxr hst hv hnd hpo
    · -- a leader handler: the only role change is a step down
      obtain ⟨hb0, _⟩ := hbase hr
      rcases hp with hi | ⟨hf, x, hx, hsx⟩
      · exact absurd (hi.role.trans hr.symm) hrole
      · cases shape with
        | follower _ e =>
          rw [e]
          exact nstep_li hbtr hbn hbl (sx_refl b _ True hbwf) hb0 hx
            (Or.inr ⟨by rw [(SameKey.releaseRole _ _).role]; exact hf, sx_releaseRole _ hsx⟩)
            (fun j k hB => ⟨hr, rfl, hB⟩) (Or.inl ⟨hr, rfl⟩)
            (by obtain ⟨es, he, _⟩ := hx.ext; rw [he, List.length_append]; have := (hldb hr).startLe; omega)
            (fun e' _ => by
              have := hx.role
              rw [← e', (SameKey.releaseRole _ _).role, hf] at this
              cases this)
        | leader x' r _ _ => rw [hf] at r; cases r
        | cand r _ _ => rw [hf] at r; cases r
        | candLeader x' r _ _ _ => rw [hf] at r; cases r


/-! ## Part 2g: an append request -/

theorem logwf_removeGTE (l : NLog) (i : Nat) (hp : l.prev = 0) (h1 : 1 ≤ i) (h2 : i ≤ l.entries.length) :
    C06.LogWF (l.removeGTE i) ∧ (l.removeGTE i).flushed = i - 1 ∧ (l.removeGTE i).prev = 0 ∧
    (l.removeGTE i).entries = l.entries.take (i - 1) := by
  unfold NLog.removeGTE
  dsimp only
  refine ⟨⟨?_, ?_⟩, rfl, hp, by rw [hp, Nat.sub_zero]⟩
  · unfold NLog.lastSegPrev
    dsimp only
    split
    · simp
    · rename_i hne
      cases hl : (l.segs.filter (· < i - 1)).getLast? with
      | none =>
        have := List.getLast?_eq_none_iff.mp hl
        rw [this] at hne; simp at hne
      | some x =>
        have hm := List.mem_of_getLast? hl
        have := (List.mem_filter.mp hm).2
        simp only [Option.getD_some]
        have : x < i - 1 := by simpa using this
        omega
  · unfold NLog.last
    dsimp only
    rw [hp, List.length_take]
    omega

/-- the request does not conflict with the log `b` held at any index up to `k` -/
def NoConf (b : Node) (q : AppendReq) (k : Nat) : Prop :=
  ∀ e ∈ q.entries, e.index ≤ k → termAt b.log.entries e.index = e.term

/-- a disk content recorded at a crash point while an append request is handled -/
structure PtF (b : Node) (q : AppendReq) (d : Durable) : Prop where
  snaps : d.snaps = []
  prev : d.log.prev = 0
  keep : ∀ k, k ≤ b.log.flushed → k ≤ b.log.entries.length → NoConf b q k →
    d.log.entries.take k = b.log.entries.take k ∧ k ≤ d.log.entries.length
  src : ∀ e ∈ d.log.entries, e ∈ b.log.entries ∨ e ∈ q.entries
  pair : PairOK b AF d.term d.vote
  term : b.term ≤ q.term → d.term = q.term
  segs : DW d

/-- Relative to `b` (the state the handler of the append request `q` starts from). -/
structure FX (b : Node) (q : AppendReq) (s : Node) : Prop where
  nwf : NWF s
  lwf : C06.LogWF s.log
  keep : ∀ k, k ≤ b.log.entries.length → NoConf b q k →
    s.log.entries.take k = b.log.entries.take k ∧ (k ≤ b.log.flushed → k ≤ s.log.flushed)
  src : ∀ e ∈ s.log.entries, e ∈ b.log.entries ∨ e ∈ q.entries
  wf : C05.VoteWF s
  pair : PairOK b AF s.term s.votedFor
  tr : ∀ p ∈ s.trace, p ∈ b.trace ∨ PtF b q p.2

/-- the fields `FX` looks at -/
def fobs (s : Node) : (NLog × Nat × Nat × Nat × List SnapFile × Nat × Nat × List (String × Durable)) × Nat × Nat :=
  (Core s, s.votedFor, s.durVote)

theorem fx_congr {b s s' : Node} {q : AppendReq} (h : FX b q s) (e : fobs s' = fobs s) : FX b q s' := by
  unfold fobs Core at e
  simp only [Prod.mk.injEq] at e
  obtain ⟨⟨e1, e2, e3, e4, e5, e6, e7, e8⟩, f1, f2⟩ := e
  obtain ⟨a1, a2, a3, a4, a5, a6, a7⟩ := h
  refine ⟨nwf_congr a1 e1 e2 e3 e4 e5, by rw [e1]; exact a2, by rw [e1]; exact a3, by rw [e1]; exact a4, ?_, ?_, ?_⟩
  · unfold C05.VoteWF at *; rw [e7, e6, f2, f1]; exact a5
  · rw [e6, f1]; exact a6
  · rw [e8]; exact a7

theorem fx_core {b s s' : Node} {q : AppendReq} (h : FX b q s) (e : Core s' = Core s)
    (e1 : s'.votedFor = s.votedFor) (e2 : s'.durVote = s.durVote) : FX b q s' :=
  fx_congr h (by unfold fobs; rw [e, e1, e2])

theorem fx_refl (b : Node) (q : AppendReq) (hn : NWF b) (hl : C06.LogWF b.log) (hwf : C05.VoteWF b) : FX b q b :=
  ⟨hn, hl, fun _ _ _ => ⟨rfl, fun h => h⟩, fun _ he => Or.inl he, hwf, ⟨Nat.le_refl _, Or.inr (Or.inl ⟨rfl, rfl⟩)⟩,
    fun _ hp => Or.inl hp⟩

/-- the durable part of a state satisfying `FX` -/
theorem fx_durable {b s : Node} {q : AppendReq} (h : FX b q s) (hterm : b.term ≤ q.term → s.term = q.term) :
    PtF b q s.durable := by
  have hd : s.durable.log.entries = s.log.entries.take s.log.flushed := durable_entries h.nwf
  refine ⟨h.nwf.snaps, h.nwf.prev, fun k hk hkl hnc => ?_, fun e he => ?_, ?_, ?_, durable_dw s h.nwf.prev h.lwf⟩
  · obtain ⟨k1, k2'⟩ := h.keep k hkl hnc
    have k2 := k2' hk
    have hlw := h.lwf.2
    have hlast : s.log.last = s.log.entries.length := by unfold NLog.last; rw [h.nwf.prev]; omega
    rw [hd]
    refine ⟨?_, ?_⟩
    · rw [List.take_take, Nat.min_eq_left k2]; exact k1
    · rw [List.length_take]; omega
  · rw [hd] at he
    exact h.src e (List.mem_of_mem_take he)
  · show PairOK b AF s.durTerm s.durVote
    rw [h.wf.1, h.wf.2]; exact h.pair
  · intro hq
    show s.durTerm = q.term
    rw [h.wf.1]; exact hterm hq

theorem fx_point {b s : Node} {q : AppendReq} (n : String) (h : FX b q s)
    (hterm : b.term ≤ q.term → s.term = q.term) : FX b q (s.point n) := by
  have hd := fx_durable h hterm
  obtain ⟨a1, a2, a3, a4, a5, a6, a7⟩ := h
  refine ⟨nwf_congr a1 rfl rfl rfl rfl rfl, a2, a3, a4, a5, a6, fun p hp => ?_⟩
  simp only [Node.point, List.mem_append, List.mem_singleton] at hp
  rcases hp with hp | hp
  · exact a7 p hp
  · subst hp; exact Or.inr hd

theorem fx_panic {b s : Node} {q : AppendReq} (site : String) (h : FX b q s) : FX b q (s.panic site) := by
  refine fx_congr h ?_
  unfold fobs; rw [core_panic]; unfold Node.panic; split <;> rfl

theorem fx_assert {b s : Node} {q : AppendReq} (c : Bool) (site : String) (h : FX b q s) :
    FX b q (s.assert c site) := by
  unfold Node.assert; split
  · exact h
  · exact fx_panic _ h

/-- `setTerm` to the request's term -/
theorem fx_setTerm {b s : Node} {q : AppendReq} (h : FX b q s) (hs : s.term = b.term) (hgt : q.term > s.term) :
    FX b q (s.setTerm q.term) ∧ (s.setTerm q.term).term = q.term := by
  unfold Node.setTerm
  rw [if_pos (by omega), if_pos hgt]
  unfold Node.storeTermVote
  have hne : ¬ (q.term = s.durTerm ∧ 0 = s.durVote) := by
    intro hc; rw [h.wf.1] at hc; omega
  rw [if_neg hne]
  refine ⟨?_, rfl⟩
  have hok : PairOK b AF q.term 0 := ⟨by omega, Or.inl rfl⟩
  obtain ⟨a1, a2, a3, a4, a5, a6, a7⟩ := h
  have hmid : FX b q { s with durTerm := q.term, durVote := 0, term := q.term, votedFor := 0 } :=
    ⟨nwf_congr a1 rfl rfl rfl rfl rfl, a2, a3, a4, ⟨rfl, rfl⟩, hok, a7⟩
  have hpt := fx_durable hmid (fun _ => rfl)
  refine ⟨nwf_congr a1 rfl rfl rfl rfl rfl, a2, a3, a4, ⟨rfl, rfl⟩, hok, fun p hp => ?_⟩
  simp only [Node.point, List.mem_append, List.mem_singleton] at hp
  rcases hp with hp | hp
  · exact a7 p hp
  · subst hp
    right
    exact ⟨hpt.snaps, hpt.prev, hpt.keep, hpt.src, hpt.pair, hpt.term, hpt.segs⟩


theorem termAt_of_take_eq {a b : List Entry} {k i : Nat} (h : a.take k = b.take k) (hi : i ≤ k) :
    termAt a i = termAt b i := by
  rw [← termAt_take a k i hi, ← termAt_take b k i hi, h]

/-- what `resolveConflict` leaves when the entry `ne` (index `n + 1`, `n` anchored in the log) is not present
with the same term: the first `n` entries, flushed at least as far as before within them, and — if it had to
truncate — one more crash point -/
structure Cut (b : Node) (q : AppendReq) (s : Node) (n : Nat) (x : Node) : Prop where
  prev : x.log.prev = 0
  entries : x.log.entries = s.log.entries.take n
  lwf : C06.LogWF x.log
  keep : ∀ k, k ≤ b.log.entries.length → NoConf b q k → k ≤ n ∧ (k ≤ b.log.flushed → k ≤ x.log.flushed)
  last : x.lastLogIndex = n
  snapIndex : x.snapIndex = 0
  snaps : x.snapsDisk = []
  tv : x.term = s.term ∧ x.votedFor = s.votedFor ∧ x.durTerm = s.durTerm ∧ x.durVote = s.durVote
  tr : ∀ p ∈ x.trace, p ∈ b.trace ∨ PtF b q p.2

theorem resolveConflict_cut {b s : Node} {q : AppendReq} (ne : Entry) (pt n : Nat) (h : FX b q s)
    (hterm : b.term ≤ q.term → s.term = q.term) (hidx : ne.index = n + 1) (hn : n ≤ s.log.entries.length)
    (hmem : ne ∈ q.entries)
    (hnp : ¬ (ne.index ≤ s.lastLogIndex ∧ s.entryTerm? ne.index = some ne.term)) :
    Cut b q s n (s.resolveConflict ne pt) := by
  have hw := h.nwf
  -- no index that the request agrees on lies at or beyond the new entry
  have hkn : ∀ k, k ≤ b.log.entries.length → NoConf b q k → ne.index ≤ s.lastLogIndex → k ≤ n := by
    intro k hk hnc hle
    apply Nat.le_of_not_lt
    intro hlt
    apply hnp
    refine ⟨hle, ?_⟩
    rw [hw.last] at hle
    rw [hw.entryTerm ne.index (by omega) hle]
    have e1 := (h.keep k hk hnc).1
    rw [termAt_of_take_eq e1 (by omega), hnc ne hmem (by omega)]
  unfold Node.resolveConflict
  split
  · rename_i hle
    have hle' := hle
    rw [hw.last] at hle'
    rw [hw.entryTerm ne.index (by omega) hle']
    dsimp only
    obtain ⟨w1, w2, w3, w4⟩ := logwf_removeGTE s.log ne.index hw.prev (by omega) hle'
    have hn1 : ne.index - 1 = n := by omega
    rw [hn1] at w2 w4
    have key : Cut b q s n (s.removeGTE ne.index pt) := by
      unfold Node.removeGTE
      refine ⟨w3, w4, w1, fun k hk hnc => ⟨hkn k hk hnc hle, fun _ => ?_⟩, hn1, hw.snapIndex, hw.snaps,
        ⟨rfl, rfl, rfl, rfl⟩, fun p hp => ?_⟩
      · show k ≤ (s.log.removeGTE ne.index).flushed
        rw [w2]; exact hkn k hk hnc hle
      · simp only [Node.point, List.mem_append, List.mem_singleton] at hp
        rcases hp with hp | hp
        · exact h.tr p hp
        · subst hp
          right
          have hde : (s.log.removeGTE ne.index).durable.entries = s.log.entries.take n := by
            show (s.log.removeGTE ne.index).entries.take ((s.log.removeGTE ne.index).flushed - (s.log.removeGTE ne.index).prev) = _
            rw [w2, w3, w4, Nat.sub_zero, List.take_take, Nat.min_self]
          have hseg := durable_dw_log _ w3 w1
          refine ⟨hw.snaps, w3, fun k _ hkl hnc => ?_, fun e he => ?_, ?_, fun hq => ?_, hseg⟩
          · have hkn' := hkn k hkl hnc hle
            show ((s.log.removeGTE ne.index).durable.entries).take k = _ ∧ k ≤ ((s.log.removeGTE ne.index).durable.entries).length
            rw [hde, List.take_take, Nat.min_eq_left hkn', List.length_take]
            exact ⟨(h.keep k hkl hnc).1, by omega⟩
          · have he' : e ∈ (s.log.removeGTE ne.index).durable.entries := he
            rw [hde] at he'
            exact h.src e (List.mem_of_mem_take he')
          · show PairOK b AF s.durTerm s.durVote
            rw [h.wf.1, h.wf.2]; exact h.pair
          · show s.durTerm = q.term
            rw [h.wf.1]; exact hterm hq
    split
    · exact ⟨key.prev, key.entries, key.lwf, key.keep, key.last, key.snapIndex, key.snaps, key.tv, key.tr⟩
    · exact key
  · rename_i hle
    rw [hw.last] at hle
    have hnl : n = s.log.entries.length := by omega
    refine ⟨hw.prev, by rw [hnl, List.take_length], h.lwf, fun k hk hnc => ?_, by rw [hw.last, hnl], hw.snapIndex,
      hw.snaps, ⟨rfl, rfl, rfl, rfl⟩, h.tr⟩
    obtain ⟨k1, k2⟩ := h.keep k hk hnc
    have hl := congrArg List.length k1
    simp only [List.length_take] at hl
    exact ⟨by omega, k2⟩

/-- **conflict resolution + append of one request entry** -/
theorem fx_conflict_append {b s : Node} {q : AppendReq} (ne : Entry) (pt n : Nat) (h : FX b q s)
    (hterm : b.term ≤ q.term → s.term = q.term) (hidx : ne.index = n + 1) (hanch : Anchor s n pt)
    (hmem : ne ∈ q.entries)
    (hnp : ¬ (ne.index ≤ s.lastLogIndex ∧ s.entryTerm? ne.index = some ne.term)) :
    FX b q ((s.resolveConflict ne pt).appendEntry ne) ∧
    ((s.resolveConflict ne pt).appendEntry ne).log.entries = s.log.entries.take n ++ [ne] ∧
    ((s.resolveConflict ne pt).appendEntry ne).term = s.term ∧
    ((s.resolveConflict ne pt).appendEntry ne).log.flushed ≤ n := by
  have cut := resolveConflict_cut ne pt n h hterm hidx hanch.1 hmem hnp
  generalize s.resolveConflict ne pt = x at cut
  unfold Node.appendEntry
  extract_lets a roll
  have ea : Core a = Core x := core_assert _ _ _
  have ev : a.votedFor = x.votedFor ∧ a.durVote = x.durVote := by
    unfold a Node.assert Node.panic; repeat' split
    all_goals exact ⟨rfl, rfl⟩
  unfold Core at ea
  simp only [Prod.mk.injEq] at ea
  obtain ⟨a1, a2, _, a4, a5, a6, a7, a8⟩ := ea
  obtain ⟨p1, p2⟩ := append_parts a.log ne roll
  have hlwa : C06.LogWF a.log := by rw [a1]; exact cut.lwf
  obtain ⟨w1, w2⟩ := logwf_append a.log ne roll hlwa
  have hlen : (s.log.entries.take n).length = n := by rw [List.length_take]; have := hanch.1; omega
  have hent : (a.log.append ne roll).entries = s.log.entries.take n ++ [ne] := by
    rw [p2, a1, cut.entries]
  have hfl : (a.log.append ne roll).flushed ≤ n := by
    have h2 := w1.2
    have hla : a.log.last = n := by unfold NLog.last; rw [a1, cut.prev, cut.entries, hlen]; omega
    have : a.log.flushed ≤ n := by rw [← hla]; exact hlwa.2
    unfold NLog.append
    split
    · show a.log.last ≤ n; omega
    · exact this
  refine ⟨⟨⟨?_, ?_, ?_, ?_, ?_, ?_⟩, w1, ?_, ?_, ?_, ?_, ?_⟩, hent, ?_, hfl⟩
  · show a.snapIndex = 0
    rw [a4]; exact cut.snapIndex
  · show a.snapsDisk = []
    rw [a5]; exact cut.snaps
  · show (a.log.append ne roll).prev = 0
    rw [p1, a1]; exact cut.prev
  · show ∀ k (hk : k < (a.log.append ne roll).entries.length), (a.log.append ne roll).entries[k].index = k + 1
    rw [hent]
    exact contig_append (contig_take h.nwf.contig n) ne (by rw [hlen]; exact hidx)
  · show ne.index = (a.log.append ne roll).entries.length
    rw [hent, List.length_append, hlen, hidx]; rfl
  · show ne.term = lastTerm (a.log.append ne roll).entries
    rw [hent, lastTerm_append_singleton]
  · intro k hk hnc
    obtain ⟨c1, c2⟩ := cut.keep k hk hnc
    show (a.log.append ne roll).entries.take k = _ ∧ (_ → k ≤ (a.log.append ne roll).flushed)
    rw [hent, List.take_append_of_le_length (by omega), List.take_take, Nat.min_eq_left c1]
    refine ⟨(h.keep k hk hnc).1, fun hf => ?_⟩
    have c2' := c2 hf
    rw [← a1] at c2'
    omega
  · intro e he
    have he' : e ∈ (a.log.append ne roll).entries := he
    rw [hent] at he'
    rcases List.mem_append.mp he' with he' | he'
    · exact h.src e (List.mem_of_mem_take he')
    · rw [List.mem_singleton.mp he']; exact Or.inr hmem
  · show a.durTerm = a.term ∧ a.durVote = a.votedFor
    rw [a7, a6, ev.1, ev.2, cut.tv.1, cut.tv.2.1, cut.tv.2.2.1, cut.tv.2.2.2]
    exact h.wf
  · show PairOK b AF a.term a.votedFor
    rw [a6, ev.1, cut.tv.1, cut.tv.2.1]; exact h.pair
  · show ∀ p ∈ a.trace, _
    rw [a8]; exact cut.tr
  · show a.term = s.term
    rw [a6]; exact cut.tv.1


theorem holds_of_take_eq {a b : List Entry} {k i τ : Nat} (h : a.take k = b.take k) (hb : Holds b i τ)
    (hi : i ≤ k) : Holds a i τ := by
  obtain ⟨h1, h2, h3⟩ := hb
  have hl : i ≤ a.length := by
    have := congrArg List.length h
    simp only [List.length_take] at this
    omega
  exact ⟨h1, hl, by rw [termAt_of_take_eq h hi]; exact h3⟩

theorem fobs_changeConfigR (s : Node) (c : Config) : fobs (s.changeConfigR c) = fobs s := by
  unfold fobs
  rw [core_changeConfigR]
  unfold Node.changeConfigR; dsimp only; split <;> rfl

theorem anchor_holds {s : Node} {i t : Nat} (h : Anchor s i t) (hi : 1 ≤ i) : Holds s.log.entries i t :=
  ⟨hi, h.1, h.2 hi⟩

/-- **the entry loop of `onAppendEntriesRequest`**, for entries of the request that continue the log at the
anchored coordinates `(st.index, st.term)` -/
theorem appendLoop_fx {b : Node} {q : AppendReq} (es : List Entry) : ∀ (st : AppLoop),
    FX b q st.s → (b.term ≤ q.term → st.s.term = q.term) → Anchor st.s st.index st.term → st.err = false →
    (∀ e ∈ es, e ∈ q.entries) → (∀ k (h : k < es.length), es[k].index = st.index + k + 1) →
    (st.syncLog = false → st.s.log = b.log) →
    FX b q (appendLoop st es).s ∧ (appendLoop st es).s.term = st.s.term ∧
    (appendLoop st es).s.log.entries.take st.index = st.s.log.entries.take st.index ∧
    Anchor (appendLoop st es).s (appendLoop st es).index (appendLoop st es).term ∧
    st.index ≤ (appendLoop st es).index ∧
    ((appendLoop st es).err = false → ∀ e ∈ es, Holds (appendLoop st es).s.log.entries e.index e.term) ∧
    ((appendLoop st es).syncLog = false → (appendLoop st es).s.log = b.log) := by
  induction es with
  | nil =>
    intro st hfx _ hanch _ _ _ hsync
    exact ⟨hfx, rfl, rfl, hanch, Nat.le_refl _, fun _ e he => absurd he List.not_mem_nil, hsync⟩
  | cons ne rest ih =>
    intro st hfx hterm hanch herr hmem hidx hsync
    have hne : ne.index = st.index + 1 := hidx 0 (by simp)
    have hidx' : ∀ k (h : k < rest.length), rest[k].index = ne.index + k + 1 := by
      intro k hk
      have := hidx (k + 1) (by simp; omega)
      simp only [List.getElem_cons_succ] at this
      rw [this, hne]; omega
    have hmem' : ∀ e ∈ rest, e ∈ q.entries := fun e he => hmem e (List.mem_cons_of_mem _ he)
    have hw := hfx.nwf
    -- what is needed from the state after the head entry to conclude
    have fin : ∀ (st' : AppLoop), st'.index = ne.index → st'.term = ne.term → st'.err = false →
        FX b q st'.s → st'.s.term = st.s.term →
        st'.s.log.entries.take st.index = st.s.log.entries.take st.index →
        Anchor st'.s ne.index ne.term → (st'.syncLog = false → st'.s.log = b.log) →
        FX b q (appendLoop st' rest).s ∧ (appendLoop st' rest).s.term = st.s.term ∧
        (appendLoop st' rest).s.log.entries.take st.index = st.s.log.entries.take st.index ∧
        Anchor (appendLoop st' rest).s (appendLoop st' rest).index (appendLoop st' rest).term ∧
        st.index ≤ (appendLoop st' rest).index ∧
        ((appendLoop st' rest).err = false →
          ∀ e ∈ ne :: rest, Holds (appendLoop st' rest).s.log.entries e.index e.term) ∧
        ((appendLoop st' rest).syncLog = false → (appendLoop st' rest).s.log = b.log) := by
      intro st' i1 i2 i3 f1 f2 f3 f4 f5
      have hidx'' : ∀ k (h : k < rest.length), rest[k].index = st'.index + k + 1 := by rw [i1]; exact hidx'
      obtain ⟨r1, r2, r3, r4, r5, r6, r7⟩ := ih st' f1 (by rw [f2]; exact hterm) (by rw [i1, i2]; exact f4) i3
        hmem' hidx'' f5
      rw [i1] at r3 r5
      have r3' : (appendLoop st' rest).s.log.entries.take st.index = st'.s.log.entries.take st.index := by
        have := congrArg (List.take st.index) r3
        rw [List.take_take, List.take_take, Nat.min_eq_left (by omega)] at this
        exact this
      refine ⟨r1, r2.trans f2, r3'.trans f3, r4, by omega, fun he e hem => ?_, r7⟩
      rcases List.mem_cons.mp hem with hem | hem
      · rw [hem]
        exact holds_of_take_eq r3 (anchor_holds f4 (by omega)) (Nat.le_refl _)
      · exact r6 he e hem
    unfold appendLoop
    rw [if_neg (by rw [herr]; decide)]
    dsimp only
    split
    · rename_i hsn
      rw [hw.snapIndex] at hsn; omega
    · split
      · rename_i hpres
        simp only [Bool.and_eq_true, decide_eq_true_eq, beq_iff_eq] at hpres
        obtain ⟨hle, hterm'⟩ := hpres
        rw [hw.last] at hle
        rw [hw.entryTerm ne.index (by omega) hle] at hterm'
        injection hterm' with hterm'
        exact fin ⟨st.s, ne.index, ne.term, st.syncLog, st.err⟩ rfl rfl herr hfx rfl rfl ⟨hle, fun _ => hterm'⟩ hsync
      · rename_i hnp
        have hnp' : ¬ (ne.index ≤ st.s.lastLogIndex ∧ st.s.entryTerm? ne.index = some ne.term) := by
          intro hc; apply hnp
          simp only [Bool.and_eq_true, decide_eq_true_eq, beq_iff_eq]
          exact hc
        obtain ⟨hfx', hent, hterm2, _⟩ := fx_conflict_append ne st.term st.index hfx hterm hne hanch
          (hmem ne (List.mem_cons_self ..)) hnp'
        have hlen : (st.s.log.entries.take st.index ++ [ne]).length = ne.index := by
          rw [List.length_append, List.length_take, hne]
          have := hanch.1
          simp; omega
        have hanch' : Anchor ((st.s.resolveConflict ne st.term).appendEntry ne) ne.index ne.term := by
          unfold Anchor
          rw [hent]
          refine ⟨by rw [hlen]; exact Nat.le_refl _, fun _ => ?_⟩
          rw [← hlen, termAt_length, lastTerm_append_singleton]
        have htake : ((st.s.resolveConflict ne st.term).appendEntry ne).log.entries.take st.index =
            st.s.log.entries.take st.index := by
          rw [hent, List.take_append_of_le_length (by rw [List.length_take]; have := hanch.1; omega),
            List.take_take, Nat.min_self]
        split
        · split
          · rename_i cfg _
            refine fin ⟨((st.s.resolveConflict ne st.term).appendEntry ne).changeConfigR cfg, ne.index, ne.term,
              true, st.err⟩ rfl rfl herr (fx_congr hfx' (fobs_changeConfigR _ _)) ?_ ?_ ?_ (fun hc => by cases hc)
            · rw [core_term (core_changeConfigR _ _)]; exact hterm2
            · rw [(changeConfigR_fields _ _).1]; exact htake
            · exact anchor_congr hanch' (changeConfigR_fields _ _).1
          · -- the configuration does not decode: the loop stops
            refine ⟨hfx', hterm2, htake, hanch', by show st.index ≤ ne.index; omega, fun he => ?_, fun hc => by cases hc⟩
            cases he
        · exact fin ⟨(st.s.resolveConflict ne st.term).appendEntry ne, ne.index, ne.term, true, st.err⟩ rfl rfl herr
            hfx' hterm2 htake hanch' (fun hc => by cases hc)


theorem fsmFrame_fobs : FsmFrame fobs where
  panic := fun s site => by unfold fobs; rw [core_panic]; unfold Node.panic; split <;> rfl
  reply := fun s t r => by unfold fobs; rw [core_reply]; unfold Node.reply; split <;> rfl
  fsm := fun _ _ => rfl

theorem fobs_setCommitIndexR (s : Node) (i : Nat) : fobs (s.setCommitIndexR i).1 = fobs s := by
  unfold fobs
  rw [core_setCommitIndexR]
  unfold Node.setCommitIndexR Node.afterConfigCommit Node.closeIfRemoved Node.stepDownIfNotVoter
    Node.commitConfig Node.doClose Node.withCommitIndex Node.setLeader Node.setRole
  dsimp only
  repeat' split
  all_goals rfl

theorem fobs_commitApply (s : Node) (i : Nat) : fobs (s.setCommitIndexR i).1.applyCommitted = fobs s := by
  rw [fsmFrame_fobs.applyCommitted_eq, fobs_setCommitIndexR]

theorem fobs_log {s s' : Node} (e : fobs s' = fobs s) : s'.log = s.log ∧ s'.term = s.term ∧ s'.trace = s.trace := by
  unfold fobs Core at e
  simp only [Prod.mk.injEq] at e
  exact ⟨e.1.1, e.1.2.2.2.2.2.1, e.1.2.2.2.2.2.2.2⟩

/-- the consistency check: log, (term, vote) and crash points untouched; the result is 0 (continue),
"previous entry not found" or "previous term mismatch" -/
theorem appendCheck_fobs (s : Node) (q : AppendReq) :
    fobs (s.appendCheck q) = fobs s ∧
    ((s.appendCheck q).result = 0 ∨ (s.appendCheck q).result = rPrevEntryNotFound ∨
      (s.appendCheck q).result = rPrevTermMismatch) := by
  unfold Node.appendCheck
  split
  · split
    · exact ⟨rfl, Or.inr (Or.inl rfl)⟩
    · extract_lets s1 plt
      have e1 : fobs s1 = fobs s := by
        unfold s1
        split
        · rfl
        · split
          · rfl
          · unfold fobs; rw [core_panic]; unfold Node.panic; split <;> rfl
      split
      · exact ⟨e1, Or.inr (Or.inr rfl)⟩
      · split
        · exact ⟨(fobs_commitApply s1 q.prevLogIndex).trans e1, Or.inl rfl⟩
        · exact ⟨e1, Or.inl rfl⟩
  · exact ⟨rfl, Or.inl rfl⟩

theorem fx_commitLog {b s : Node} {q : AppendReq} (n : Nat) (h : FX b q s)
    (hterm : b.term ≤ q.term → s.term = q.term) : FX b q (s.commitLog n) := by
  unfold Node.commitLog
  refine fx_point "commitLog" ?_ hterm
  obtain ⟨p1, p2⟩ := commitN_parts s.log n
  obtain ⟨w1, w2, _⟩ := logwf_commitN s.log n h.lwf
  obtain ⟨a1, a2, a3, a4, a5, a6, a7⟩ := h
  refine ⟨⟨a1.snapIndex, a1.snaps, ?_, ?_, ?_, ?_⟩, w1, ?_, ?_, a5, a6, a7⟩
  · show (s.log.commitN n).prev = 0
    rw [p1]; exact a1.prev
  · show ∀ k (hk : k < (s.log.commitN n).entries.length), (s.log.commitN n).entries[k].index = k + 1
    rw [p2]; exact a1.contig
  · show s.lastLogIndex = (s.log.commitN n).entries.length
    rw [p2]; exact a1.last
  · show s.lastLogTerm = lastTerm (s.log.commitN n).entries
    rw [p2]; exact a1.lastT
  · intro k hk hnc
    obtain ⟨k1, k2⟩ := a3 k hk hnc
    show (s.log.commitN n).entries.take k = _ ∧ (_ → k ≤ (s.log.commitN n).flushed)
    rw [p2]; exact ⟨k1, fun hf => by have := k2 hf; omega⟩
  · show ∀ e ∈ (s.log.commitN n).entries, _
    rw [p2]; exact a4

/-- what handling the append request `q` in state `b` gives (handler level) -/
structure FRes (b : Node) (q : AppendReq) (r : Node) : Prop where
  fx : FX b q r
  term : ¬ q.term < b.term → r.term = q.term
  dirty : r.log = b.log ∨ r.log.flushed = r.log.entries.length
  ack : r.result = rSuccess → ¬ q.term < b.term ∧ (∀ e ∈ q.entries, Holds r.log.entries e.index e.term) ∧
    (1 ≤ q.prevLogIndex → Holds r.log.entries q.prevLogIndex q.prevLogTerm) ∧
    q.prevLogIndex + q.entries.length ≤ r.log.entries.length
  ci : r.commitIndex = b.commitIndex ∨
    (b.commitIndex < r.commitIndex ∧ r.commitIndex ≤ q.ldrCommitIndex ∧ ¬ q.term < b.term ∧
      Holds r.log.entries r.commitIndex q.term ∧
      ((r.commitIndex = q.prevLogIndex ∧ q.prevLogTerm = q.term) ∨
        ∃ e ∈ q.entries, e.index = r.commitIndex ∧ e.term = q.term))


theorem fx_last {b s : Node} {q : AppendReq} (h : FX b q s) : s.log.last = s.log.entries.length := by
  unfold NLog.last; rw [h.nwf.prev]; omega

/-- **`onAppendEntriesRequest`**, for a request whose entries carry the indexes `prevLogIndex + 1, …` -/
theorem onAppendEntries_fres (b : Node) (q : AppendReq) (hn : NWF b) (hl : C06.LogWF b.log)
    (hwf : C05.VoteWF b)
    (hidx : ∀ k (h : k < q.entries.length), q.entries[k].index = q.prevLogIndex + k + 1) :
    FRes b q (b.onAppendEntries q) := by
  have F0 := fx_refl b q hn hl hwf
  by_cases hst : q.term < b.term
  · rw [C04.stale_append_refused b q hst]
    exact ⟨fx_congr F0 rfl, fun h => absurd hst h, Or.inl rfl,
      fun h => absurd h (by show rStaleTerm ≠ rSuccess; decide), Or.inl rfl⟩
  · have hge : b.term ≤ q.term := Nat.le_of_not_lt hst
    unfold Node.onAppendEntries
    rw [if_neg hst]
    extract_lets s1 s2 s3 st s4 s6 s5
    have H1 : FX b q s1 ∧ s1.term = q.term ∧ s1.commitIndex = b.commitIndex ∧ s1.log = b.log := by
      unfold s1
      split
      · rename_i hgt
        obtain ⟨f, t⟩ := fx_setTerm F0 rfl hgt
        exact ⟨fx_congr f rfl, t, (setTerm_fields b q.term).2.2.2.1, (setTerm_fields b q.term).1⟩
      · exact ⟨F0, by omega, rfl, rfl⟩
    obtain ⟨H1, t1, c1, g1⟩ := H1
    have H2 : FX b q s2 := fx_congr H1 rfl
    have t2 : s2.term = q.term := t1
    have c2 : s2.commitIndex = b.commitIndex := c1
    have g2 : s2.log = b.log := g1
    obtain ⟨f3, hres3⟩ := appendCheck_fobs s2 q
    have H3 : FX b q s3 := fx_congr H2 f3
    obtain ⟨g3, t3', _⟩ := fobs_log f3
    have t3 : s3.term = q.term := t3'.trans t2
    have g3' : s3.log = b.log := g3.trans g2
    have canch := (appendCheck_spec s2 q H2.nwf).2
    have cc3 := C02.follower_commit_rule_check s2 q
    -- the commit the consistency check may have made
    have ci3 : s3.commitIndex = b.commitIndex ∨
        (b.commitIndex < s3.commitIndex ∧ s3.commitIndex ≤ q.ldrCommitIndex ∧ s3.commitIndex = q.prevLogIndex ∧
          q.prevLogTerm = q.term ∧ Holds s3.log.entries q.prevLogIndex q.prevLogTerm) := by
      rcases cc3 with c | ⟨hcc, hci, hsn, hle, hpt⟩
      · exact Or.inl (c.trans c2)
      · obtain ⟨k1, k2, k3⟩ := C19.follower_commit_guard _ _ _ _ hcc
        right
        have hw := H2.nwf
        have hple : q.prevLogIndex ≤ s2.log.entries.length := by rw [← hw.last]; exact hle
        have hp1 : 1 ≤ q.prevLogIndex := by rw [hw.snapIndex] at hsn; omega
        have hterm : termAt s2.log.entries q.prevLogIndex = q.prevLogTerm := by
          rw [hpt]
          split
          · rename_i heq
            rw [heq, hw.last, hw.lastT, termAt_length]
          · rw [hw.entryTerm q.prevLogIndex hp1 hple]; rfl
        refine ⟨by show b.commitIndex < (s2.appendCheck q).commitIndex; rw [hci, ← c2]; exact k3,
          by show (s2.appendCheck q).commitIndex ≤ _; rw [hci]; exact k1, hci, k2, ?_⟩
        rw [g3]
        exact ⟨hp1, hple, hterm⟩
    split
    · -- refused
      rename_i hres
      refine ⟨H3, fun _ => t3, Or.inl g3', fun h => ?_, ?_⟩
      · rcases hres3 with r | r | r
        · exact absurd r hres
        · rw [r] at h; exact absurd h (by decide)
        · rw [r] at h; exact absurd h (by decide)
      · rcases ci3 with c | ⟨a1, a2, a3, a4, a5⟩
        · exact Or.inl c
        · exact Or.inr ⟨a1, a2, hst, by rw [a3, ← a4]; exact a5, Or.inl ⟨a3, a4⟩⟩
    · rename_i hres
      have hres0 : s3.result = 0 := Classical.byContradiction (fun hne => hres hne)
      have anch : Anchor s3 q.prevLogIndex q.prevLogTerm := anchor_congr (canch hres0) g3
      obtain ⟨l1, l2, l3, l4, l5, l6, l7⟩ := appendLoop_fx (b := b) (q := q) q.entries
        { s := s3, index := q.prevLogIndex, term := q.prevLogTerm } H3 (fun _ => t3) anch rfl (fun e he => he) hidx
        (fun _ => g3')
      have l1' : FX b q s4 := l1
      have t4 : s4.term = q.term := l2.trans t3
      have c4 : s4.commitIndex = s3.commitIndex := (C02.appendLoop_commitIndex _ _).1
      have l3' : s4.log.entries.take q.prevLogIndex = s3.log.entries.take q.prevLogIndex := l3
      have l4' : Anchor s4 st.index st.term := l4
      have l5' : q.prevLogIndex ≤ st.index := l5
      have l6' : st.err = false → ∀ e ∈ q.entries, Holds s4.log.entries e.index e.term := l6
      have l7' : st.syncLog = false → s4.log = b.log := l7
      have coords := C02.appendLoop_coords { s := s3, index := q.prevLogIndex, term := q.prevLogTerm } q.entries
      have coords' : (st.index = q.prevLogIndex ∧ st.term = q.prevLogTerm) ∨
          ∃ e ∈ q.entries, st.index = e.index ∧ st.term = e.term := coords
      -- the deferred flush and commit
      have K5 : FX b q s5 ∧ s5.term = q.term ∧ s5.log.entries = s4.log.entries ∧
          (s5.log = b.log ∨ s5.log.flushed = s5.log.entries.length) ∧
          (s5.commitIndex = s4.commitIndex ∨
            (s4.commitIndex < s5.commitIndex ∧ s5.commitIndex ≤ q.ldrCommitIndex ∧ s5.commitIndex = st.index ∧
              st.term = q.term)) := by
        unfold s5
        split
        · have H6 : FX b q s6 := fx_commitLog _ l1' (fun _ => t4)
          have e6 : s6.log.entries = s4.log.entries := (commitN_parts s4.log s4.lastLogIndex).2
          have hfl : s6.log.flushed = s6.log.entries.length := by
            have := C06.follower_flush_before_ack s4 l1'.lwf (by rw [l1'.nwf.last, fx_last l1'])
            rw [fx_last H6] at this
            exact this
          have c6 : s6.commitIndex = s4.commitIndex := rfl
          split
          · rename_i hcc
            obtain ⟨k1, k2, k3⟩ := C19.follower_commit_guard _ _ _ _ hcc
            have ef := fobs_commitApply s6 st.index
            obtain ⟨gl, gt, _⟩ := fobs_log ef
            refine ⟨fx_congr H6 ef, gt.trans t4, by rw [gl]; exact e6, Or.inr (by rw [gl]; exact hfl), Or.inr ?_⟩
            have hci : ((s6.setCommitIndexR st.index).1.applyCommitted).commitIndex = st.index := by
              rw [fsmFrame_commitIndex.applyCommitted_eq, C19.setCommitIndexR_commitIndex]
            rw [hci]
            exact ⟨by rw [← c6]; exact k3, k1, rfl, k2⟩
          · exact ⟨H6, t4, e6, Or.inr hfl, Or.inl c6⟩
        · rename_i hcond
          refine ⟨l1', t4, rfl, Or.inl (l7' ?_), Or.inl rfl⟩
          cases hsl : st.syncLog with
          | false => rfl
          | true =>
            exfalso
            apply hcond
            refine ⟨?_, hsl⟩
            cases hq : q.entries with
            | nil =>
              have : st.syncLog = false := by unfold st; rw [hq]; rfl
              rw [this] at hsl; cases hsl
            | cons x xs => rfl
      obtain ⟨k1, kt, k2, k3, k4⟩ := K5
      have hprev : 1 ≤ q.prevLogIndex → Holds s5.log.entries q.prevLogIndex q.prevLogTerm := by
        intro h1
        rw [k2]
        exact holds_of_take_eq l3' (anchor_holds anch h1) (Nat.le_refl _)
      refine ⟨fx_congr k1 rfl, fun _ => kt, k3, fun hsucc => ?_, ?_⟩
      · have herr : st.err = false := by
          cases he : st.err with
          | false => rfl
          | true =>
            have hr : (s5.ret (if st.err = true then rUnexpectedErr else rSuccess)).result = rUnexpectedErr := by
              rw [he]; rfl
            rw [hr] at hsucc
            exact absurd hsucc (by decide)
        refine ⟨hst, fun e he => by show Holds s5.log.entries _ _; rw [k2]; exact l6' herr e he, hprev, ?_⟩
        show q.prevLogIndex + q.entries.length ≤ s5.log.entries.length
        rw [k2]
        cases hq : q.entries with
        | nil =>
          have := l3'
          have h3 := anch.1
          have := congrArg List.length l3'
          simp only [List.length_take] at this
          simp; omega
        | cons x xs =>
          have hlast : q.entries.length - 1 < q.entries.length := by rw [hq]; simp
          have hh := l6' herr _ (List.getElem_mem hlast)
          rw [hidx _ hlast] at hh
          have := hh.2.1
          rw [← hq]
          omega
      · show s5.commitIndex = b.commitIndex ∨
          (b.commitIndex < s5.commitIndex ∧ s5.commitIndex ≤ q.ldrCommitIndex ∧ ¬ q.term < b.term ∧
            Holds s5.log.entries s5.commitIndex q.term ∧
            ((s5.commitIndex = q.prevLogIndex ∧ q.prevLogTerm = q.term) ∨
              ∃ e ∈ q.entries, e.index = s5.commitIndex ∧ e.term = q.term))
        rcases k4 with c | ⟨a1, a2, a3, a4⟩
        · rw [c, c4]
          rcases ci3 with c' | ⟨b1, b2, b3, b4, b5⟩
          · exact Or.inl c'
          · right
            have hp1 : 1 ≤ q.prevLogIndex := b5.1
            refine ⟨b1, b2, hst, ?_, Or.inl ⟨b3, b4⟩⟩
            rw [b3, ← b4]; exact hprev hp1
        · right
          have hmono : b.commitIndex ≤ s3.commitIndex := by
            rcases ci3 with c' | ⟨b1, _⟩ <;> omega
          have hpos : 1 ≤ st.index := by rw [← a3]; omega
          refine ⟨by omega, a2, hst, ?_, ?_⟩
          · rw [a3, ← a4, k2]; exact anchor_holds l4' hpos
          · rw [a3]
            rcases coords' with ⟨x1, x2⟩ | ⟨e, he, x1, x2⟩
            · exact Or.inl ⟨x1, by rw [← x2]; exact a4⟩
            · exact Or.inr ⟨e, he, x1.symm, by rw [← x2]; exact a4⟩


/-- a projection untouched by the three primitives `leader.release` is built from -/
structure RelFrame {α : Type} (proj : Node → α) : Prop where
  reply : ∀ s t r, proj (s.reply t r) = proj s
  ldr : ∀ (s : Node) l, proj (s.withLdr l) = proj s
  leader : ∀ (s : Node) c, proj (s.setLeader c) = proj s
  candTransfer : ∀ (s : Node) v, proj (s.withCandTransfer v) = proj s

theorem RelFrame.foldl {α β : Type} {proj : Node → α} (f : Node → β → Node) (hf : ∀ s x, proj (f s x) = proj s)
    (xs : List β) (s : Node) : proj (xs.foldl f s) = proj s := by
  induction xs generalizing s with
  | nil => rfl
  | cons x xs ih => exact (ih _).trans (hf s x)

theorem RelFrame.releaseRole {α : Type} {proj : Node → α} (h : RelFrame proj) (s : Node) (r : Role) :
    proj (s.releaseRole r) = proj s := by
  unfold Node.releaseRole
  split
  · rfl
  · exact h.candTransfer _ _
  · unfold Node.leaderRelease Node.leaderReleaseRest
    dsimp only
    rw [h.ldr, RelFrame.foldl (proj := proj) _ (fun s t => h.reply s _ _),
      RelFrame.foldl (proj := proj) _ (fun s t => h.reply s _ _)]
    have ht : ∀ x : Node, ∀ r', proj (x.transferReply r') = proj x := fun x r' => by
      unfold Node.transferReply; rw [h.ldr, h.reply]
    repeat' split
    all_goals simp only [h.leader, ht]

/-- the fields the append-request summary looks at -/
def gobs (s : Node) : ((NLog × Nat × Nat × Nat × List SnapFile × Nat × Nat × List (String × Durable)) × Nat × Nat) ×
    Nat × Option RpcReply :=
  (fobs s, s.commitIndex, s.rpcReply)

theorem relFrame_gobs : RelFrame gobs where
  reply := fun s t r => by
    unfold gobs fobs; rw [core_reply]; unfold Node.reply; split <;> rfl
  ldr := fun _ _ => rfl
  leader := fun _ _ => rfl
  candTransfer := fun _ _ => rfl

theorem settle_follower_cases (h : Node) (cur : Role) (hf : h.role = .follower) :
    settle 6 h cur = h ∨ settle 6 h cur = h.releaseRole cur := by
  by_cases hrole : h.role = cur
  · left; unfold settle; rw [if_pos hrole]
  · right
    cases settle_shape 3 h cur hrole with
    | follower _ e => exact e
    | leader x r _ _ => rw [hf] at r; cases r
    | cand r _ _ => rw [hf] at r; cases r
    | candLeader x r _ _ _ => rw [hf] at r; cases r

theorem gobs_settle_follower (h : Node) (cur : Role) (hf : h.role = .follower) :
    gobs (settle 6 h cur) = gobs h := by
  rcases settle_follower_cases h cur hf with e | e
  · rw [e]
  · rw [e, relFrame_gobs.releaseRole]

/-- **summary of a step handling the append request `q`**, relative to the state `pre` it starts from:
* `keep`: every index `k` of the old log up to which the request does not conflict with the old log still
  holds the same entries, and is still flushed if it was — also on disk at every crash point (`PtF`);
* `dirty`: the log is untouched, or everything in it is flushed;
* `ack`: a `success` reply means the term is the request's and the log holds the request's previous entry
  coordinates and all its entries;
* `ci`: the commit index moves only to an index `≤ ldrCommitIndex` whose entry — one of the request's, or the
  previous entry it verified — has the request's term. -/
structure FStep (pre : Node) (q : AppendReq) (post : Node) : Prop where
  lwf : C06.LogWF post.log
  keep : ∀ k, k ≤ pre.log.entries.length → NoConf pre q k →
    post.log.entries.take k = pre.log.entries.take k ∧ (k ≤ pre.log.flushed → k ≤ post.log.flushed)
  src : ∀ e ∈ post.log.entries, e ∈ pre.log.entries ∨ e ∈ q.entries
  pair : PairOK pre AF post.term post.votedFor
  tr : ∀ p ∈ post.trace, PtF pre q p.2
  term : ¬ q.term < pre.term → post.term = q.term
  dirty : post.log = pre.log ∨ post.log.flushed = post.log.entries.length
  ack : (post.rpcReply.map (·.result)) = some rSuccess →
    ¬ q.term < pre.term ∧ (∀ e ∈ q.entries, Holds post.log.entries e.index e.term) ∧
    (1 ≤ q.prevLogIndex → Holds post.log.entries q.prevLogIndex q.prevLogTerm) ∧
    q.prevLogIndex + q.entries.length ≤ post.log.entries.length
  ci : post.commitIndex = pre.commitIndex ∨
    (pre.commitIndex < post.commitIndex ∧ post.commitIndex ≤ q.ldrCommitIndex ∧ ¬ q.term < pre.term ∧
      Holds post.log.entries post.commitIndex q.term ∧
      ((post.commitIndex = q.prevLogIndex ∧ q.prevLogTerm = q.term) ∨
        ∃ e ∈ q.entries, e.index = post.commitIndex ∧ e.term = q.term))
  stale : q.term < pre.term → post.log = pre.log ∧ post.term = pre.term ∧ post.votedFor = pre.votedFor ∧
    post.commitIndex = pre.commitIndex ∧ post.trace = []

theorem fstep (pre : Node) (q : AppendReq) (ra : List Nat) (ord : List (List Nat)) (hn : NWF pre)
    (hl : C06.LogWF pre.log) (hwf : C05.VoteWF pre)
    (hidx : ∀ k (h : k < q.entries.length), q.entries[k].index = q.prevLogIndex + k + 1) :
    FStep pre q (pre.step (.append q) ra ord) := by
  have hbn : NWF (pre.begin ra ord) := nwf_congr hn rfl rfl rfl rfl rfl
  have R := onAppendEntries_fres (pre.begin ra ord) q hbn hl hwf hidx
  have hpost : pre.step (.append q) ra ord =
      settle 6 (((pre.begin ra ord).onAppendEntries q).rpcDone false true) (pre.begin ra ord).role := rfl
  -- the reply step and the role transition do not touch what the summary looks at
  have hg : gobs (pre.step (.append q) ra ord) =
      (fobs ((pre.begin ra ord).onAppendEntries q), ((pre.begin ra ord).onAppendEntries q).commitIndex,
        some (((pre.begin ra ord).onAppendEntries q).mkReply false true)) := by
    have hdone : gobs (((pre.begin ra ord).onAppendEntries q).rpcDone false true) =
        (fobs ((pre.begin ra ord).onAppendEntries q), ((pre.begin ra ord).onAppendEntries q).commitIndex,
          some (((pre.begin ra ord).onAppendEntries q).mkReply false true)) := by
      unfold gobs
      rw [Node.rpcDone_reply]
      unfold Node.rpcDone
      split
      · have : ∀ x : Node, ∀ site, fobs (x.panic site) = fobs x ∧ (x.panic site).commitIndex = x.commitIndex := by
          intro x site
          constructor
          · unfold fobs; rw [core_panic]; unfold Node.panic; split <;> rfl
          · exact (panic_fields x site).2.2.2.1
        rw [(this _ _).1, (this _ _).2]; rfl
      · rfl
    rw [hpost]
    by_cases hst : q.term < pre.term
    · have hh : (pre.begin ra ord).onAppendEntries q = (pre.begin ra ord).ret rStaleTerm :=
        C04.stale_append_refused _ q hst
      have hr : (((pre.begin ra ord).onAppendEntries q).rpcDone false true).role = (pre.begin ra ord).role := by
        rw [hh, (SameKey.rpcDone _ _ _).role]; rfl
      have e : settle 6 (((pre.begin ra ord).onAppendEntries q).rpcDone false true) (pre.begin ra ord).role =
          ((pre.begin ra ord).onAppendEntries q).rpcDone false true := by unfold settle; rw [if_pos hr]
      rw [e]; exact hdone
    · have hf : (((pre.begin ra ord).onAppendEntries q).rpcDone false true).role = .follower := by
        rw [(SameKey.rpcDone _ _ _).role]
        exact onAppendEntries_role _ q hst
      rw [gobs_settle_follower _ _ hf]; exact hdone
  unfold gobs at hg
  simp only [Prod.mk.injEq] at hg
  obtain ⟨g1, g2, g3⟩ := hg
  obtain ⟨gl, gt, gtr⟩ := fobs_log g1
  have hfx : FX (pre.begin ra ord) q (pre.step (.append q) ra ord) := fx_congr R.fx g1
  refine ⟨hfx.lwf, hfx.keep, hfx.src, hfx.pair, fun p hp => ?_, fun h => by rw [gt]; exact R.term h,
    by rw [gl]; exact R.dirty, fun hs => ?_, by rw [g2]; rw [gl]; exact R.ci, fun hst => ?_⟩
  · rcases hfx.tr p hp with hp' | hp'
    · cases hp'
    · exact ⟨hp'.snaps, hp'.prev, hp'.keep, hp'.src, hp'.pair, hp'.term, hp'.segs⟩
  · rw [g3] at hs
    have hs' : ((pre.begin ra ord).onAppendEntries q).result = rSuccess := by
      simp only [Option.map_some, Option.some.injEq] at hs
      exact hs
    rw [gl]
    exact R.ack hs'
  · have hh : (pre.begin ra ord).onAppendEntries q = (pre.begin ra ord).ret rStaleTerm :=
      C04.stale_append_refused _ q hst
    rw [hh] at g1 g2
    unfold fobs Core at g1
    simp only [Prod.mk.injEq] at g1
    obtain ⟨⟨e1, _, _, _, _, e6, _, e8⟩, f1, _⟩ := g1
    exact ⟨e1, e6, f1, g2, e8⟩

/-- a stale append request changes nothing but the reply -/
theorem append_stale (pre : Node) (q : AppendReq) (ra : List Nat) (ord : List (List Nat))
    (hst : q.term < pre.term) :
    (pre.step (.append q) ra ord).log = pre.log ∧ (pre.step (.append q) ra ord).term = pre.term ∧
    (pre.step (.append q) ra ord).votedFor = pre.votedFor ∧
    (pre.step (.append q) ra ord).commitIndex = pre.commitIndex ∧ (pre.step (.append q) ra ord).trace = [] ∧
    (pre.step (.append q) ra ord).role = pre.role ∧ (pre.step (.append q) ra ord).configs = pre.configs ∧
    (pre.step (.append q) ra ord).ldr = pre.ldr ∧ (pre.step (.append q) ra ord).lastLogTerm = pre.lastLogTerm ∧
    (pre.step (.append q) ra ord).lastLogIndex = pre.lastLogIndex ∧ (pre.step (.append q) ra ord).fsm = pre.fsm ∧
    (pre.step (.append q) ra ord).rpcReply.map (·.result) = some rStaleTerm := by
  have hpost : pre.step (.append q) ra ord =
      settle 6 (((pre.begin ra ord).onAppendEntries q).rpcDone false true) (pre.begin ra ord).role := rfl
  have hh : (pre.begin ra ord).onAppendEntries q = (pre.begin ra ord).ret rStaleTerm :=
    C04.stale_append_refused _ q hst
  have hd : ((pre.begin ra ord).ret rStaleTerm).rpcDone false true =
      ((pre.begin ra ord).ret rStaleTerm).withRpcReply (some (((pre.begin ra ord).ret rStaleTerm).mkReply false true)) := by
    unfold Node.rpcDone
    rw [if_neg (by show rStaleTerm ≠ rUnexpectedErr; decide)]
  have e : pre.step (.append q) ra ord =
      ((pre.begin ra ord).ret rStaleTerm).withRpcReply (some (((pre.begin ra ord).ret rStaleTerm).mkReply false true)) := by
    rw [hpost, hh, hd]
    unfold settle
    rw [if_pos (show (((pre.begin ra ord).ret rStaleTerm).withRpcReply _).role = (pre.begin ra ord).role from rfl)]
  rw [e]
  exact ⟨rfl, rfl, rfl, rfl, rfl, rfl, rfl, rfl, rfl, rfl, rfl, rfl⟩

/-- a granted vote: after the step the node's (term, vote) is the requested one -/
theorem vote_step_pair (s : Node) (q : VoteReq) (ra : List Nat) (ord : List (List Nat)) (hwf : C05.VoteWF s)
    (h : ((s.step (.vote q) ra ord).rpcReply.map (·.result)) = some rSuccess) :
    (s.step (.vote q) ra ord).term = q.term ∧ (s.step (.vote q) ra ord).votedFor = q.src := by
  have hs := C05.vote_step_shape s q ra ord h
  have hb : C05.VoteWF (s.begin ra ord) := hwf
  obtain ⟨e1, e2, _, _⟩ := C05.grant_is_durable (s.begin ra ord) q hb hs
  have hpost : s.step (.vote q) ra ord =
      settle 6 (((s.begin ra ord).onVoteRequest q).rpcDone true) (s.begin ra ord).role := rfl
  have G := down_closed (s.begin ra ord)
  have hd : Down (s.begin ra ord) (((s.begin ra ord).onVoteRequest q).rpcDone true) :=
    G.rpcDone_g _ _ _ (G.onVoteRequest_g _ _ (Down.refl _))
  have k := SameKey.rpcDone ((s.begin ra ord).onVoteRequest q) true false
  rw [hpost]
  generalize ((s.begin ra ord).onVoteRequest q).rpcDone true = h' at hd k
  rcases hd.2.2 with ⟨a, _, _⟩ | a
  · have e : settle 6 h' (s.begin ra ord).role = h' := by unfold settle; rw [if_pos a]
    rw [e, k.term, k.votedFor]; exact ⟨e1, e2⟩
  · rcases settle_follower_cases h' (s.begin ra ord).role a with e | e
    · rw [e, k.term, k.votedFor]; exact ⟨e1, e2⟩
    · rw [e, (SameKey.releaseRole _ _).term, (SameKey.releaseRole _ _).votedFor, k.term, k.votedFor]
      exact ⟨e1, e2⟩

/-! ## Part 2h: restart -/

/-- **restart without snapshots**: everything read back from disk counts as flushed, nothing is committed or
applied yet -/
theorem restart_facts (d : Durable) (retain : Nat) (sor : Bool) (n : Node)
    (h : Node.restart d retain sor = some n) (hs : d.snaps = []) (hp : d.log.prev = 0) (hdw : DW d) :
    n.commitIndex = 0 ∧ n.fsm = {} ∧ n.log.flushed = n.log.entries.length ∧ C06.LogWF n.log ∧
    n.log.entries = d.log.entries := by
  have key : (restartNode d retain sor).log = { d.log with flushed := d.log.last } ∧
      (restartNode d retain sor).commitIndex = 0 ∧ (restartNode d retain sor).fsm = {} ∧
      (restartNode d retain sor).snapIndex = 0 := by
    unfold Node.restartNode
    extract_lets snap log lastIdx lastT sc latest committed
    have e0 : snap = {} := by unfold snap; rw [hs]; rfl
    have e1 : log = d.log := by
      have hst : staleLog d = false := by
        unfold staleLog
        rw [hs]
        show (decide (d.log.last < 0) || (decide (d.log.prev < 0) && _)) = false
        simp
      unfold log; rw [hst]; rfl
    refine ⟨?_, rfl, rfl, by show snap.index = 0; rw [e0]⟩
    show ({ log with flushed := log.last } : NLog) = _
    rw [e1]
  unfold Node.restart at h
  split at h
  · cases h
  · split at h
    · cases h
    · injection h with h
      rw [if_neg (by rw [key.2.2.2]; omega)] at h
      subst h
      obtain ⟨k1, k2, k3, _⟩ := key
      rw [k1]
      have hlast : d.log.last = d.log.entries.length := by unfold NLog.last; rw [hp]; omega
      refine ⟨k2, k3, hlast, ⟨?_, ?_⟩, rfl⟩
      · show NLog.lastSegPrev { d.log with flushed := d.log.last } ≤ d.log.last
        have e : NLog.lastSegPrev { d.log with flushed := d.log.last } = d.log.lastSegPrev := rfl
        rw [e, hlast]; exact hdw
      · show d.log.last ≤ NLog.last { d.log with flushed := d.log.last }
        exact Nat.le_refl _

end CommitRel
end Raft

#print axioms Raft.CommitRel.nstep
#print axioms Raft.CommitRel.fstep
#print axioms Raft.CommitRel.restart_facts
#print axioms Raft.CommitRel.Anc.on_path
