/-
Simp sets used by Lemmas/SnapRel.lean (commutation of the handlers with the erasure of snapshot data).
-/
import Lean

/-- rewrite rules that push the snapshot erasure `E` outward through the primitive state updates -/
register_simp_attr esimp

/-- definitional (`rfl`) rules: fields and observations of an erased state (used with `dsimp +instances`) -/
register_simp_attr eproj

/-- the same two sets for the un-compaction `U` -/
register_simp_attr usimp

/-- the same two sets for the un-compaction `U` -/
register_simp_attr uproj

/-- the same two sets for the recording of a failure `P` -/
register_simp_attr psimp

/-- the same two sets for the recording of a failure `P` -/
register_simp_attr pproj
