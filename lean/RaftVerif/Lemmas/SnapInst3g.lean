/-
The invariant of the cluster system with installation of snapshots (Sys/Snap3.lean), part g: the snapshot files after a
restart (`vterm_restart`); a stale install request; a crash in the install handler that leaves the OLD log and the OLD
snapshot files on disk (`olddisk_inv`).
-/
import RaftVerif.Lemmas.SnapInst3f

namespace Raft
namespace SnapInst3
open Node Election LogRel Replication CommitRel Commit C02Sys C03Sys SnapRel SnapRelU SnapSim Snap Snap2 SnapInv SnapInv2
open SnapInst SnapInstU Snap3 SnapFrame

section
variable {V : List Nat}

/-- **the snapshot files after a restart agree with the restarted virtual log**: each file on disk carried the term of
the OLD virtual log at its index, which the old commit index covered; the restarted node's commit index covers it again,
and what a commit index covers is the same on every log (commit safety) -/
theorem vterm_restart {x y : Snap3.Sys} (hI : Inv3 V x) (hIy : SInv V (view3 y))
    (hT : ∀ c ∈ (view3 x).cs.T, c ∈ (view3 y).cs.T) (hC : ∀ c ∈ (view3 x).cs.committed, c ∈ (view3 y).cs.committed)
    {i : Nat} {n : Node} {d : Durable} (hni : y.node i = n)
    (hfo : FilesOK (x.vlog i) (x.node i).commitIndex d.snaps)
    (hft : ∀ g ∈ d.snaps, termAt (x.vlog i) g.index = g.term) (hsd : n.snapsDisk = d.snaps)
    (hst : n.snapTerm = (headSnap d).term) (hci : n.commitIndex = (headSnap d).index) : VTerm y i := by
  refine ⟨fun g hg => ?_, ?_⟩
  · rw [hni, hsd] at hg
    obtain ⟨g1, g2, _⟩ := hfo.files g hg
    have hgh : g.index ≤ (headSnap d).index := hfo.le_head g hg
    obtain ⟨hlen, m, hm, m1, m2⟩ := hI.sinv.cinv.cmt.cc i g.index g1 g2
    have hpath : Path (eview (view3 y).cs).T (x.vlog i) := (log_path hI.sinv.cinv i).mono hT
    have hc : Cmt (eview (view3 y).cs) (g.index, termAt (x.vlog i) g.index) (x.node i).term :=
      ⟨m, hC m hm, m1, m2.mono hT⟩
    have hj : g.index ≤ ((eview (view3 y).cs).node i).commitIndex := by
      show g.index ≤ (y.node i).commitIndex
      rw [hni, hci]; exact hgh
    have := termAt_of_committed hIy.cinv hpath g1 hlen hc i hj
    have e : ((eview (view3 y).cs).node i).log.entries = y.vlog i := rfl
    rw [e] at this
    rw [this]
    exact hft g hg
  · rw [hni, hst, hsd]; rfl

/-! ### a stale install request -/

theorem uncLog_newBase (x : Snap3.Sys) (i : Nat) :
    uncLog (newBase x.s2 i (x.node i).log.prev) (x.node i).log = uncLog (x.s2.base i) (x.node i).log := by
  have hβ : newBase x.s2 i (x.node i).log.prev = pad (x.s2.base i) (x.node i).log.prev :=
    take_vlog (x.s2.base i) (x.node i).log
  rw [hβ, uncLog_pad]

/-- the node `post` differs from `s` in nothing the invariants read -/
structure Same (s post : Node) : Prop where
  nid : post.nid = s.nid
  term : post.term = s.term
  votedFor : post.votedFor = s.votedFor
  durTerm : post.durTerm = s.durTerm
  durVote : post.durVote = s.durVote
  log : post.log = s.log
  lastI : post.lastLogIndex = s.lastLogIndex
  lastT : post.lastLogTerm = s.lastLogTerm
  role : post.role = s.role
  votesNeeded : post.votesNeeded = s.votesNeeded
  snapI : post.snapIndex = s.snapIndex
  snapT : post.snapTerm = s.snapTerm
  files : post.snapsDisk = s.snapsDisk
  commit : post.commitIndex = s.commitIndex
  fsm : post.fsm = s.fsm
  configs : post.configs = s.configs
  ldr : post.ldr = s.ldr
  retain : post.retain = s.retain
  res : post.snapResult = s.snapResult

theorem same_of_stale_step (s : Node) (q : InstallReq) (ra : List Nat) (ord : List (List Nat)) (hst : q.term < s.term) :
    Same s (s.step (.install q) ra ord) := by
  rw [install_step_stale s q ra ord hst]
  exact ⟨rfl, rfl, rfl, rfl, rfl, rfl, rfl, rfl, rfl, rfl, rfl, rfl, rfl, rfl, rfl, rfl, rfl, rfl, rfl⟩

/-- **a node that differs in nothing the invariants read may replace the old one** (a stale install request) -/
theorem same_inv {x : Snap3.Sys} (hI : Inv3 V x) {i : Nat} {post : Node} (h : Same (x.node i) post) :
    SInv V (view3 (replS x i post (newBase x.s2 i (x.node i).log.prev))) ∧ PrevOK post ∧
    VTerm (replS x i post (newBase x.s2 i (x.node i).log.prev)) i := by
  have hI1 := hI.sinv
  have so : SnapOK (x.vnode i) := hI1.snap i
  have hlogu := uncLog_newBase x i
  have hlog : (U (newBase x.s2 i (x.node i).log.prev) post).log = (x.vnode i).log := by
    show uncLog _ post.log = _
    rw [h.log]; exact hlogu
  generalize newBase x.s2 i (x.node i).log.prev = β at hlog ⊢
  have ss : SnapStep (x.vnode i) (U β post) := by
    refine ⟨?_, ?_, ?_, ?_, ?_⟩
    · refine ⟨h.nid, h.term, h.votedFor, h.durTerm, h.durVote, ?_, ?_, ?_, ?_, h.lastI, h.lastT, h.role, h.votesNeeded,
        rfl, rfl⟩
      · show (U β post).log.entries = _; rw [hlog]; rfl
      · show (U β post).log.prev = _; rw [hlog]; rfl
      · show (x.vnode i).log.flushed ≤ (U β post).log.flushed; rw [hlog]; exact Nat.le_refl _
      · intro hw; show C06.LogWF (U β post).log; rw [hlog]; exact hw
    · show SnapSim.lobs (U β post) = SnapSim.lobs (U (x.s2.base i) (x.node i))
      rw [lobs_U, lobs_U, h.commit, h.fsm, h.configs, h.ldr]
    · refine ⟨by show 1 ≤ post.retain; rw [h.retain]; exact so.retain, ?_, ?_, ?_⟩
      · show FilesOK (U β post).log.entries post.commitIndex post.snapsDisk
        rw [hlog, h.commit, h.files]; exact so.files
      · show post.snapIndex = (headOf post.snapsDisk).index
        rw [h.snapI, h.files]; exact so.head
      · show post.snapIndex ≤ post.fsm.index
        rw [h.snapI, h.fsm]; exact so.le
    · show (x.node i).snapIndex ≤ post.snapIndex
      rw [h.snapI]; exact Nat.le_refl _
    · intro g hg
      have hg' : g ∈ post.snapsDisk := hg
      rw [h.files] at hg'
      exact Or.inl hg'
  refine ⟨by rw [view_replS]; exact sinv_regroup hI1 ss, ⟨?_, ?_⟩, ⟨?_, ?_⟩⟩
  · rw [h.log, h.snapI]; exact (hI.prev i).le
  · intro rs hrs
    rw [h.res] at hrs
    rw [h.snapI]; exact (hI.prev i).res rs hrs
  · show ∀ f ∈ ((replS x i post β).node i).snapsDisk, termAt ((replS x i post β).vnode i).log.entries f.index = f.term
    rw [replS_node_i, replS_vnode_i, hlog, h.files]
    exact (hI.vterm i).files
  · show ((replS x i post β).node i).snapTerm = (headOf ((replS x i post β).node i).snapsDisk).term
    rw [replS_node_i, h.snapT, h.files]
    exact (hI.vterm i).head

/-! ### a crash that leaves the old log and the old snapshot files -/

theorem crashC_quiet (z : Commit.Sys) (i : Nat) (op : Op) (N : Node)
    (hnc : newCreated i (z.node i).log.entries N.log.entries op = []) (hcamp : campOf i (z.node i) N = []) :
    crashC z i op N = repl z i N := by
  unfold crashC crashRp repl withNodes
  rw [hnc, hcamp]
  rfl

theorem repl_repl (z : Commit.Sys) (i : Nat) (A N : Node) : repl (repl z i A) i N = repl z i N := by
  unfold repl withNodes
  have : setNode (setNode z.rp.el.node i A) i N = setNode z.rp.el.node i N := by
    funext j; unfold setNode; split <;> rfl
  simp only [this]

theorem restart_role (d : Durable) (r : Nat) (sor : Bool) (n : Node) (hn : Node.restart d r sor = some n) :
    n.role = .follower ∧ n.nid = d.nid := by
  obtain ⟨_, _, _, hne⟩ := C10.restart_some d r sor n hn
  rw [hne]
  split
  · constructor
    · show (restartNode d r sor).fsmRestore.role = _
      rw [fsmRestore_eq]; rfl
    · show (restartNode d r sor).fsmRestore.nid = _
      rw [fsmRestore_eq]; rfl
  · exact ⟨rfl, rfl⟩

theorem durable_ext (d : Durable) (s : Node) (h1 : d.cid = s.cid) (h2 : d.nid = s.nid) (h3 : d.log = s.durable.log)
    (h4 : d.snaps = s.snapsDisk) : { d with term := s.durTerm, vote := s.durVote } = s.durable := by
  cases d
  simp only at h1 h2 h3 h4
  subst h1; subst h2; subst h3; subst h4
  rfl

/-- **a crash in the install handler that leaves the old log and the old snapshot files on disk** (at most the request's
newer term reached the disk), and the restart: the restart from the old disk (a crash of stage 2) followed by the
adoption of the term -/
theorem olddisk_inv (hV : V.Nodup) {x : Snap3.Sys} (hI : Inv3 V x) (hS : Side3 V x) {i : Nat} (hi : i ≠ 0)
    {d : Durable} {t retain : Nat} {sor : Bool} {n : Node}
    (h1 : d.cid = (x.node i).cid) (h2 : d.nid = (x.node i).nid) (h3 : d.log = (x.node i).durable.log)
    (h4 : d.snaps = (x.node i).snapsDisk)
    (htv : (d.term = (x.node i).durTerm ∧ d.vote = (x.node i).durVote) ∨ ((x.node i).term < t ∧ d.term = t ∧ d.vote = 0))
    (hst : staleLog d = false) (hret : 1 ≤ retain) (hn : Node.restart d retain sor = some n)
    (hS' : SideS V (view3 (replS x i n (newBase x.s2 i (x.node i).log.prev)))) :
    SInv V (view3 (replS x i n (newBase x.s2 i (x.node i).log.prev))) ∧ PrevOK n ∧
    VTerm (replS x i n (newBase x.s2 i (x.node i).log.prev)) i := by
  have hI1 := hI.sinv
  have hvw : C05.VoteWF (x.node i) := (hI1.cinv.rp.el.ids i).2
  -- the node restarted from the old disk
  have hd0 := durable_ext d (x.node i) h1 h2 h3 h4
  have hn0 := restart_congr_tv d (x.node i).durTerm (x.node i).durVote retain sor n hn
  rw [hd0] at hn0
  obtain ⟨n0, hn0def⟩ : ∃ n0 : Node, n0 = { n with term := (x.node i).durTerm, votedFor := (x.node i).durVote, durTerm := (x.node i).durTerm, durVote := (x.node i).durVote } :=
    ⟨_, rfl⟩
  rw [← hn0def] at hn0
  have e_log : n0.log = n.log := by rw [hn0def]
  have e_sd : n0.snapsDisk = n.snapsDisk := by rw [hn0def]
  have e_cfg : n0.configs = n.configs := by rw [hn0def]
  have e_term : n0.term = (x.node i).durTerm := by rw [hn0def]
  obtain ⟨v1, v2, v3, v4⟩ := C10.restart_term_vote d retain sor n hn
  obtain ⟨_, s2, s3, s4⟩ := restart_shape d retain sor n hn
  rw [hst] at s4
  have hprev : n.log.prev = (x.node i).log.prev := by
    have : n.log.prev = d.log.prev := s4
    rw [this, h3]; rfl
  have hst0 : staleLog (x.node i).durable = false := by
    rw [← hd0]; exact hst
  -- stage A: the crash of stage 2 (a trivial operation, nothing stored yet)
  have hpd : ((x.node i).step (.disconnected 0) [] []).panicked = none := by rw [step_disconnected0]; rfl
  have hSA : SideS V (view (crashS x.s2 i (.disconnected 0) n0)) := by
    have hnb : newBase x.s2 i n0.log.prev = newBase x.s2 i (x.node i).log.prev := by rw [e_log, hprev]
    have hvn : ∀ j, (crashS x.s2 i (.disconnected 0) n0).vnode j =
        if j = i then U (newBase x.s2 i (x.node i).log.prev) n0 else x.vnode j := by
      intro j; rw [view_crashS_node, hnb]
    have hvy : ∀ j, (replS x i n (newBase x.s2 i (x.node i).log.prev)).vnode j =
        if j = i then U (newBase x.s2 i (x.node i).log.prev) n else x.vnode j := by
      intro j
      by_cases hj : j = i
      · subst hj; rw [replS_vnode_i, if_pos rfl]
      · rw [replS_vnode_j _ _ _ _ hj, if_neg hj]
    refine ⟨⟨fun j => ?_, fun j => ?_⟩, fun _ => rfl, fun j => ?_⟩
    · have := hS'.sideV.1 j
      have this' : ((replS x i n (newBase x.s2 i (x.node i).log.prev)).vnode j).configs.isBootstrapped = true ∧
          ((replS x i n (newBase x.s2 i (x.node i).log.prev)).vnode j).configs.latest.voters = V := this
      show ((crashS x.s2 i (.disconnected 0) n0).vnode j).configs.isBootstrapped = true ∧
        ((crashS x.s2 i (.disconnected 0) n0).vnode j).configs.latest.voters = V
      rw [hvy] at this'
      rw [hvn]
      split
      · rw [if_pos (by assumption)] at this'
        show n0.configs.isBootstrapped = true ∧ n0.configs.latest.voters = V
        rw [e_cfg]; exact this'
      · rw [if_neg (by assumption)] at this'; exact this'
    · have := hS'.sideV.2 j
      have this' : ((replS x i n (newBase x.s2 i (x.node i).log.prev)).vnode j).configs.latest.isStable = true := this
      show ((crashS x.s2 i (.disconnected 0) n0).vnode j).configs.latest.isStable = true
      rw [hvy] at this'
      rw [hvn]
      split
      · rw [if_pos (by assumption)] at this'
        show n0.configs.latest.isStable = true
        rw [e_cfg]; exact this'
      · rw [if_neg (by assumption)] at this'; exact this'
    · have := hS'.dec j
      have this' : ∀ e ∈ ((replS x i n (newBase x.s2 i (x.node i).log.prev)).vnode j).log.entries,
          e.typ = etConfig → e.cfg.isSome = true := this
      show ∀ e ∈ ((crashS x.s2 i (.disconnected 0) n0).vnode j).log.entries, e.typ = etConfig → e.cfg.isSome = true
      rw [hvy] at this'
      rw [hvn]
      split
      · rw [if_pos (by assumption)] at this'
        show ∀ e ∈ (uncLog _ n0.log).entries, _
        rw [e_log]; exact this'
      · rw [if_neg (by assumption)] at this'; exact this'
  obtain ⟨a1, a2, a3, a4, _⟩ := crash3_nc hV hI hS (i := i) (op := .disconnected 0) (ra := []) (ord := []) (src := 0)
    (k := 0) (retain := retain) (sor := sor) (n := n0) (enabled_disc0 _ hi 0) hret hpd (fun h => nomatch h) trivial
    trivial hst0 hn0 hSA
  -- the intermediate state
  have hx1 : Inv3 V { x with s2 := crashS x.s2 i (.disconnected 0) n0 } := by
    obtain ⟨w1, w2, w3, _⟩ := restart_snapTerm (x.node i).durable retain sor n0 hn0
    refine ⟨a1, fun j => ?_, fun j => ?_, fun m hm => (hI.msgs m hm).mono (crashS_T _ _ _ _).1 (crashS_T _ _ _ _).2⟩
    · by_cases hj : j = i
      · subst hj
        show PrevOK ((crashS x.s2 j (.disconnected 0) n0).node j)
        rw [crashS_node_i]; exact a2
      · show PrevOK ((crashS x.s2 i (.disconnected 0) n0).node j)
        rw [crashS_node_j _ _ _ _ hj]; exact hI.prev j
    · by_cases hj : j = i
      · subst hj
        exact vterm_restart hI (y := { x with s2 := crashS x.s2 j (.disconnected 0) n0 }) a1
          (crashS_T _ _ _ _).1 (crashS_T _ _ _ _).2 (crashS_node_i _ _ _ _) a4 (hI.vterm j).files w2 w1 w3
      · have hv := hI.vterm j
        refine ⟨?_, ?_⟩
        · show ∀ f ∈ ((crashS x.s2 i (.disconnected 0) n0).node j).snapsDisk,
            termAt ((crashS x.s2 i (.disconnected 0) n0).vnode j).log.entries f.index = f.term
          rw [crashS_node_j _ _ _ _ hj, view_crashS_node, if_neg hj]; exact hv.files
        · show ((crashS x.s2 i (.disconnected 0) n0).node j).snapTerm =
            (headOf ((crashS x.s2 i (.disconnected 0) n0).node j).snapsDisk).term
          rw [crashS_node_j _ _ _ _ hj]; exact hv.head
  -- stage B: the term is adopted
  obtain ⟨r1, r2⟩ := restart_role d retain sor n hn
  have hb : Bumped (({ x with s2 := crashS x.s2 i (.disconnected 0) n0 } : Snap3.Sys).node i) n := by
    show Bumped ((crashS x.s2 i (.disconnected 0) n0).node i) n
    rw [crashS_node_i, hn0def]
    refine ⟨rfl, rfl, rfl, rfl, rfl, rfl, rfl, rfl, r1, rfl, ?_, ⟨v3, v4⟩, rfl, rfl⟩
    show (n.term = (x.node i).durTerm ∧ n.votedFor = (x.node i).durVote) ∨ ((x.node i).durTerm < n.term ∧ n.votedFor = 0)
    rw [v1, v2]
    rcases htv with ⟨e1, e2⟩ | ⟨e0, e1, e2⟩
    · exact Or.inl ⟨e1, e2⟩
    · right; rw [e1, e2, hvw.1]; exact ⟨e0, rfl⟩
  obtain ⟨b1, b2, b3⟩ := bumped_inv hx1 (i := i) hb
  -- the final state is the state reached
  have hn1 : ({ x with s2 := crashS x.s2 i (.disconnected 0) n0 } : Snap3.Sys).node i = n0 := crashS_node_i _ _ _ _
  have hβ1 : newBase (crashS x.s2 i (.disconnected 0) n0) i
      (({ x with s2 := crashS x.s2 i (.disconnected 0) n0 } : Snap3.Sys).node i).log.prev =
      pad (x.s2.base i) (x.node i).log.prev := by
    rw [hn1]
    unfold newBase Snap2.Sys.vlog
    have hul : (U (x.s2.base i) n0).log = uncLog (x.s2.base i) n.log := by
      show uncLog _ n0.log = _; rw [e_log]
    rw [a3, e_log, ← hprev, hul]
    exact take_vlog (x.s2.base i) n.log
  have hβ : newBase x.s2 i (x.node i).log.prev = pad (x.s2.base i) (x.node i).log.prev :=
    take_vlog (x.s2.base i) (x.node i).log
  rw [hβ1] at b1 b3
  rw [hβ]
  generalize pad (x.s2.base i) (x.node i).log.prev = β at b1 b3 ⊢
  have hview : view3 (replS x i n β) =
      view3 (replS { x with s2 := crashS x.s2 i (.disconnected 0) n0 } i n β) := by
    rw [view_replS, view_replS]
    have hPn : U (newBase x.s2 i n0.log.prev) n0 = U (x.s2.base i) n0 := by
      rw [← a3, view_crashS_node, if_pos rfl]
    have hcs : (view (crashS x.s2 i (.disconnected 0) n0)).cs = repl (view x.s2).cs i (U (x.s2.base i) n0) := by
      rw [view_crashS x.s2 i (.disconnected 0) n0 _ hPn]
      refine crashC_quiet _ _ _ _ ?_ ?_
      · show chainOf i _ (List.drop _ _) = []
        have hle : (U (x.s2.base i) n0).log.entries.length ≤ ((view x.s2).cs.node i).log.entries.length := by
          show (pad (x.s2.base i) n0.log.prev ++ n0.log.entries).length ≤
            (pad (x.s2.base i) (x.node i).log.prev ++ (x.node i).log.entries).length
          rw [List.length_append, List.length_append, pad_length, pad_length, e_log, hprev]
          have hne := C10.restart_fsm d retain sor n hn
          have hl : n.log = (restartNode d retain sor).log := hne.2.2.2.1
          have hl2 := (C10.restartNode_fields d retain sor).2.2.1
          have hlo : C10.logOf d = d.log := by
            rcases C10.logOf_cases d with ⟨hs', _⟩ | ⟨_, e⟩
            · rw [hst] at hs'; cases hs'
            · exact e
          have : n.log.entries = d.log.entries := by rw [hl, hl2, hlo]
          rw [this, h3]
          show _ + ((x.node i).log.entries.take _).length ≤ _
          rw [List.length_take]; omega
        rw [List.drop_eq_nil_of_le hle]; rfl
      · unfold campOf
        rw [if_neg]
        intro hc
        have : (U (x.s2.base i) n0).term = n0.term := rfl
        have h5 : ((view x.s2).cs.node i).term = (x.node i).term := rfl
        rw [this, h5, e_term, hvw.1] at hc
        omega
    have e1 : (view { x with s2 := crashS x.s2 i (.disconnected 0) n0 }.s2).cs = (view (crashS x.s2 i (.disconnected 0) n0)).cs := rfl
    rw [e1, hcs, repl_repl]
    have e2 : ({ x with s2 := crashS x.s2 i (.disconnected 0) n0 } : Snap3.Sys).vnode i = U (x.s2.base i) n0 := a3
    have e3 : (view { x with s2 := crashS x.s2 i (.disconnected 0) n0 }.s2).snaps =
        newSnaps i (x.node i).snapsDisk n0.snapsDisk ++ x.s2.snaps := rfl
    rw [e2, e3]
    refine sys_ext rfl ?_
    show newSnaps i (x.node i).snapsDisk n.snapsDisk ++ x.s2.snaps =
      newSnaps i n0.snapsDisk n.snapsDisk ++ (newSnaps i (x.node i).snapsDisk n0.snapsDisk ++ x.s2.snaps)
    rw [e_sd, newSnaps_same, List.nil_append]
  refine ⟨by rw [hview]; exact b1, b2, ?_⟩
  refine ⟨?_, ?_⟩
  · have := b3.files
    have this' : ∀ f ∈ ((replS { x with s2 := crashS x.s2 i (.disconnected 0) n0 } i n β).node i).snapsDisk,
        termAt ((replS { x with s2 := crashS x.s2 i (.disconnected 0) n0 } i n β).vnode i).log.entries f.index = f.term := this
    rw [replS_node_i, replS_vnode_i] at this'
    show ∀ f ∈ ((replS x i n β).node i).snapsDisk, termAt ((replS x i n β).vnode i).log.entries f.index = f.term
    rw [replS_node_i, replS_vnode_i]
    exact this'
  · have := b3.head
    have this' : ((replS { x with s2 := crashS x.s2 i (.disconnected 0) n0 } i n β).node i).snapTerm =
        (headOf ((replS { x with s2 := crashS x.s2 i (.disconnected 0) n0 } i n β).node i).snapsDisk).term := this
    rw [replS_node_i] at this'
    show ((replS x i n β).node i).snapTerm = (headOf ((replS x i n β).node i).snapsDisk).term
    rw [replS_node_i]
    exact this'

end

end SnapInst3
end Raft
