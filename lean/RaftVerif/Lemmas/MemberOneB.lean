/-
S36 — membership changes THROUGH single-voter configurations: the leader block.

`block`: by induction on the recursion budget, for every handler of the mutually recursive leader block: the state
invariant `V` (caches, `latest.index ≤ lastLogIndex`, an anchor, and `LogChain`: every configuration entry appended since
the step began is `Link`ed to its predecessor) is kept, and the OUTCOME of a call is one of
* the step has failed (`Failed`: a recorded panic — the model runs on, nothing is claimed);
* nothing was stored (`k0` untouched) — then, if changes are possible at all (`Can`), every replication visited is `Settled`;
* ONE configuration was stored by the call's own loop (everything else was stored by nested calls, for the null task), and
  afterwards the latest configuration is not committed (`Blocked`), or every replication is `Settled` and the configuration
  the loop works on agrees with the latest one on every node that still has a replication: the loop does not act again.
-/
import RaftVerif.Lemmas.MemberOneA

namespace Raft
namespace One
open Node CfgRel

/-! ### what an action does to the entry of its node -/

theorem nextAction_demote_voter {n : CNode} (h : n.nextAction = actDemote) : n.voter = true := by
  unfold CNode.nextAction at h
  cases hv : n.voter with
  | true => rfl
  | false =>
    rw [hv] at h
    simp only [Bool.false_eq_true, if_false] at h
    repeat' split at h
    all_goals (simp only [actNone, actPromote, actDemote, actRemove, actForceRemove] at *; omega)

/-- the configuration `checkConfigAction` proposes for the node `Y`: every other entry is untouched; the entry of `Y`
is gone, or it is a voter's entry, or `Y` was a voter (a demotion) -/
theorem actionConfig_at {I : Nat} {cfg : Config} {Y : Nat} {st : Repl} {c : Config}
    (ha : (cfg.get Y).nextAction ≠ actNone)
    (h : actionConfig I cfg (cfg.get Y) (cfg.get Y).nextAction st = some c) :
    (∀ x, x ≠ Y → c.find? x = cfg.find? x) ∧
    (c.find? Y = none ∨ (∃ m, c.find? Y = some m ∧ m.voter = true) ∨ (cfg.get Y).voter = true) := by
  have hact := nextAction_ne ha
  have hid := get_id hact
  unfold actionConfig at h
  split at h
  · injection h with h; subst h
    refine ⟨fun x hx => find?_set_ne _ _ x (by rw [hid]; exact hx),
      Or.inr (Or.inl ⟨{ cfg.get Y with voter := true, action := actNone }, ?_, rfl⟩)⟩
    have := find?_set_self cfg { cfg.get Y with voter := true, action := actNone }
    rw [show ({ cfg.get Y with voter := true, action := actNone } : CNode).id = Y from hid] at this
    exact this
  · split at h
    · split at h
      · injection h with h; subst h
        rw [hid]
        exact ⟨fun x hx => find?_erase_ne _ _ x hx, Or.inl (find?_erase_self _ _)⟩
      · cases h
    · split at h
      · injection h with h; subst h
        rw [hid]
        exact ⟨fun x hx => find?_erase_ne _ _ x hx, Or.inl (find?_erase_self _ _)⟩
      · split at h
        · rename_i hd
          injection h with h; subst h
          exact ⟨fun x hx => find?_set_ne _ _ x (by rw [hid]; exact hx), Or.inr (Or.inr (nextAction_demote_voter hd))⟩
        · cases h

theorem find?_some_of_mem {c : Config} {n : CNode} (h : n ∈ c.nodes) : ∃ m, c.find? n.id = some m := by
  unfold Config.find?
  cases hf : c.nodes.find? (·.id == n.id) with
  | some m => exact ⟨m, rfl⟩
  | none =>
    have := List.find?_eq_none.mp hf n h
    simp at this

/-- in a `Cache` state every replication's node is a member of the latest configuration, and is not the leader -/
theorem cache_repl {x : Node} (h : LC.Cache x) {st : Repl} (hst : st ∈ x.ldr.repls) :
    st.id ≠ x.nid ∧ ∃ m, x.configs.latest.find? st.id = some m := by
  obtain ⟨_, _, _, hm, _⟩ := (LC.cache_iff x).mp h
  obtain ⟨a, b, c⟩ := hm st hst
  refine ⟨a, ?_⟩
  rw [← c]
  exact find?_some_of_mem b

/-- in a `Cache` state on the fast path the leader is the only voter of the latest configuration -/
theorem fp_single {x : Node} (h : LC.Cache x) (hf : FP x) {id : Nat} (hne : id ≠ x.nid) :
    x.configs.latest.isVoter id = false := by
  obtain ⟨h1, h2, _⟩ := (LC.cache_iff x).mp h
  refine single_voter (nid := x.nid) (by rw [← h1]; exact hf.1) ?_ hne
  rw [← get_voter_eq_isVoter, ← h2]
  exact hf.2

/-- **back to the caller's configuration.** If the caller worked on the latest configuration `cfg` of a state on the
fast path, an action on node `Y` led to `c`, and afterwards the latest configuration agrees with `c` wherever there is
a replication — still on the fast path — then it agrees with `cfg` there as well: the action was a removal (and `Y` has
no replication any more); a promotion or demotion would have left two voters. -/
theorem agr_back {x y : Node} {cfg c : Config} {Y I : Nat} {st : Repl} (hx : LC.Cache x) (hfx : FP x)
    (hcfg : cfg = x.configs.latest) (hy : LC.Cache y) (hfy : FP y) (hnid : y.nid = x.nid)
    (ha : (cfg.get Y).nextAction ≠ actNone)
    (hc : actionConfig I cfg (cfg.get Y) (cfg.get Y).nextAction st = some c) (hagr : Agr c y) : Agr cfg y := by
  obtain ⟨h1, h2⟩ := actionConfig_at ha hc
  intro st' hst'
  obtain ⟨hne, m, hm⟩ := cache_repl hy hst'
  by_cases hY : st'.id = Y
  · exfalso
    have e := hagr st' hst'
    rw [hY] at e hm hne
    rcases h2 with h2 | ⟨m', h2, hv⟩ | h2
    · rw [h2] at e; rw [e] at hm; cases hm
    · have : y.configs.latest.isVoter Y = true := by
        unfold Config.isVoter; rw [e, h2]; exact hv
      rw [fp_single hy hfy hne] at this
      cases this
    · rw [get_voter_eq_isVoter, hcfg, fp_single hx hfx (by rw [← hnid]; exact hne)] at h2
      cases h2
  · rw [hagr st' hst', h1 _ hY]

/-! ### the iteration order over the replications -/

theorem nodup_eraseDups : ∀ (n : Nat) (l : List Nat), l.length ≤ n → l.eraseDups.Nodup := by
  intro n
  induction n with
  | zero =>
    intro l hl
    have : l = [] := List.eq_nil_of_length_eq_zero (Nat.le_zero.mp hl)
    subst this
    simp
  | succ n ih =>
    intro l hl
    cases l with
    | nil => simp
    | cons a as =>
      rw [List.eraseDups_cons]
      refine List.nodup_cons.mpr ⟨?_, ih _ ?_⟩
      · intro hm
        have := (List.mem_filter.mp (List.mem_eraseDups.mp hm)).2
        simp at this
      · have := List.length_filter_le (fun b => !b == a) as
        simp only [List.length_cons] at hl
        omega

theorem sorted_ids_nodup {l : List Repl} (h : LC.Sorted l) : (l.map (·.id)).Nodup := by
  unfold LC.Sorted at h
  rw [List.Nodup, List.pairwise_map]
  exact h.imp (fun hab => Nat.ne_of_lt hab)

theorem replOrder_nodup (x : Node) (h : LC.Sorted x.ldr.repls) : x.replOrder.Nodup := by
  unfold Node.replOrder
  extract_lets ids order
  refine List.nodup_append.mpr ⟨nodup_eraseDups _ _ (Nat.le_refl _), (sorted_ids_nodup h).filter _, ?_⟩
  intro a ha b hb e
  subst e
  have h1 := (List.mem_filter.mp (List.mem_eraseDups.mp ha)).1
  have h2 := (List.mem_filter.mp hb).2
  have : order.contains a = true := List.contains_iff_mem.mpr h1
  rw [this] at h2
  cases h2

theorem mem_replOrder (x : Node) {st : Repl} (h : st ∈ x.ldr.repls) : st.id ∈ x.replOrder := by
  unfold Node.replOrder
  extract_lets ids order
  have hid : st.id ∈ ids := List.mem_map_of_mem h
  by_cases ho : st.id ∈ order
  · exact List.mem_append_left _ (List.mem_eraseDups.mpr (List.mem_filter.mpr ⟨ho, List.contains_iff_mem.mpr hid⟩))
  · refine List.mem_append_right _ (List.mem_filter.mpr ⟨hid, ?_⟩)
    have : order.contains st.id = false := by
      cases hc : order.contains st.id with
      | false => rfl
      | true => exact absurd (List.contains_iff_mem.mp hc) ho
    rw [this]; rfl

/-! ### the specifications of the block -/

/-- a configuration change can be stored right now: `canChangeConfig`, and the leader's own entry is a voter -/
def Can (x : Node) : Prop := x.canChangeConfig = true ∧ x.ldr.node.voter = true

/-- a leader that may change the configuration is a voter by its cached own entry (so `doChangeConfig` is not answered
"demotion in progress") -/
def Hs (x : Node) : Prop := x.canChangeConfig = true → x.ldr.node.voter = true

/-- the configuration a handler works on has the voters of the latest one — while a change can be stored -/
def J (x : Node) (cfg : Config) : Prop :=
  Can x → SameVoters cfg x.configs.latest ∧ (Srt x.configs.latest → Srt cfg)

theorem Can.k0 {x y : Node} (h : Can x) (e : k0 y = k0 x) : Can y := by
  unfold Can; rw [canChange_k0 e, (k0_eq e).2.2.2.2.2.2.1]; exact h

theorem Hs.k0 {x y : Node} (h : Hs x) (e : k0 y = k0 x) : Hs y := by
  unfold Hs; rw [canChange_k0 e, (k0_eq e).2.2.2.2.2.2.1]; exact h

theorem J.k0 {x y : Node} {cfg : Config} (h : J x cfg) (e : k0 y = k0 x) : J y cfg := by
  intro hc
  rw [(k0_eq e).1]
  exact h (hc.k0 (x := y) (y := x) e.symm)

theorem J.refl (x : Node) : J x x.configs.latest := fun _ => ⟨SameVoters.refl _, id⟩

theorem inert_of_not_can {x : Node} (h : ¬ Can x) : Inert x := by
  unfold Inert
  cases hc : x.canChangeConfig with
  | false => exact Or.inl rfl
  | true =>
    cases hv : x.ldr.node.voter with
    | false => exact Or.inr rfl
    | true => exact absurd ⟨hc, hv⟩ h

/-- `c` is what `checkConfigAction` proposes for the node `Y` of `cfg` -/
def ActCfg (cfg : Config) (Y : Nat) (c : Config) : Prop :=
  (cfg.get Y).nextAction ≠ actNone ∧ ∃ I st, actionConfig I cfg (cfg.get Y) (cfg.get Y).nextAction st = some c

/-- the outcome of `checkConfigAction` for the node `id` with replication `st` -/
def CAOut (t : Nat) (x : Node) (task : Nat) (cfg : Config) (id : Nat) (st : Repl) (x' : Node) : Prop :=
  Failed x' ∨
  (∃ r, RSame r st ∧ k1 x' = k1 (x.setRepl r) ∧ (Can x → Settled x.configs.latest.index (cfg.get id) r) ∧
    (Hs x → TL.FK x x')) ∨
  (Can x ∧ x.lastLogIndex < x'.lastLogIndex ∧ TL.Rel t (TL.ind task t) x x' ∧ ∃ c, ActCfg cfg id c ∧ Post c x')

/-- the outcome of `checkConfigActions` -/
def CAsOut (t : Nat) (x : Node) (task : Nat) (cfg : Config) (x' : Node) : Prop :=
  Failed x' ∨
  (k0 x' = k0 x ∧ (Can x → ∀ st ∈ x'.ldr.repls, Settled x'.configs.latest.index (cfg.get st.id) st) ∧
    (Hs x → TL.FK x x')) ∨
  (Can x ∧ x.lastLogIndex < x'.lastLogIndex ∧ TL.Rel t (TL.ind task t) x x' ∧
    (Blocked x' ∨ (Q x' ∧ FP x' ∧ (FP x → cfg = x.configs.latest → Agr cfg x'))))

/-- what every call leaves: the caches; and unless the step has failed, the invariant, and the log did not shrink -/
def G (s₀ x x' : Node) : Prop := LC.Cache x' ∧ (Failed x' ∨ (V s₀ x' ∧ x.lastLogIndex ≤ x'.lastLogIndex))

theorem G.mk {s₀ x x' : Node} (h : V s₀ x') (hl : x.lastLogIndex ≤ x'.lastLogIndex) : G s₀ x x' :=
  ⟨h.cache, Or.inr ⟨h, hl⟩⟩

theorem G.failed {s₀ x x' : Node} (hc : LC.Cache x') (h : Failed x') : G s₀ x x' := ⟨hc, Or.inl h⟩

/-- the outcome of a call that stores the configuration `c` -/
def StoreOut (x : Node) (c : Config) (x' : Node) : Prop :=
  Failed x' ∨ (x.lastLogIndex < x'.lastLogIndex ∧ Post c x')

def DCspec (s₀ : Node) (n : Nat) : Prop := ∀ x task b c, V s₀ x → Can x → Deriv b c →
  SameVoters b x.configs.latest → (Srt x.configs.latest → Srt c) → HasAnchor c →
  G s₀ x (doChangeConfig n x task c) ∧ StoreOut x c (doChangeConfig n x task c)

def SEspec (s₀ : Node) (n : Nat) : Prop :=
  (∀ x b, V s₀ x → (∀ q ∈ b, q.typ ≠ etConfig) →
    G s₀ x (storeEntry n x b)) ∧
  (∀ x q b c, V s₀ x → Can x → q.typ = etConfig → q.cfg = some c → Deriv b c → SameVoters b x.configs.latest →
    (Srt x.configs.latest → Srt c) → HasAnchor c →
    G s₀ x (storeEntry n x [q]) ∧ StoreOut x c (storeEntry n x [q]))

/-- the conditions under which a commit attempt right after a configuration was stored is analysed -/
structure Pend (x : Node) : Prop where
  blocked : Blocked x
  fp : FP x
  act : x.ldr.transfer.active = false

def MCspec (s₀ : Node) (n : Nat) : Prop :=
  (∀ x, V s₀ x → G s₀ x (onMajorityCommit n x)) ∧
  (∀ x, V s₀ x → Pend x → Post x.configs.latest (onMajorityCommit n x))

def SCspec (s₀ : Node) (n : Nat) : Prop :=
  (∀ x i, V s₀ x → G s₀ x (setCommitIndexL n x i)) ∧
  (∀ x i, V s₀ x → Pend x → x.ldr.startIndex ≤ i → Post x.configs.latest (setCommitIndexL n x i))

def CAsspec (s₀ : Node) (t : Nat) (n : Nat) : Prop := ∀ x task cfg, V s₀ x → AnchC cfg → J x cfg →
  G s₀ x (checkConfigActions n x task cfg) ∧ CAsOut t x task cfg (checkConfigActions n x task cfg)

def CAspec (s₀ : Node) (t : Nat) (n : Nat) : Prop := ∀ x task cfg id st, V s₀ x → AnchC cfg → J x cfg →
  x.findRepl? id = some st →
  G s₀ x (checkConfigAction n x task cfg id) ∧ CAOut t x task cfg id st (checkConfigAction n x task cfg id)

theorem failed_block (n : Nat) :
    (∀ s b, Failed s → Failed (storeEntry n s b)) ∧ (∀ s b, Failed s → Failed (storeItems n s b)) ∧
    (∀ s c, Failed s → Failed (changeConfigL n s c)) ∧ (∀ s t c, Failed s → Failed (doChangeConfig n s t c)) ∧
    (∀ s t c, Failed s → Failed (checkConfigActions n s t c)) ∧
    (∀ s t c id, Failed s → Failed (checkConfigAction n s t c id)) ∧
    (∀ s i, Failed s → Failed (setCommitIndexL n s i)) ∧ (∀ s, Failed s → Failed (onMajorityCommit n s)) := by
  obtain ⟨a, b, c, d, e, f, g, h⟩ := TL.block 1 (by omega) n
  exact ⟨fun s bt => (a s bt).mono, fun s bt => (b s bt).mono, fun s cf => (c s cf).mono, fun s t cf => (d s t cf).mono,
    fun s t cf => (e s t cf).elim (fun _ hm => hm.1.mono), fun s t cf id => (f s t cf id).elim (fun _ hm => hm.1.mono),
    fun s i => (g s i).mono, fun s => (h s).mono⟩

theorem k1_setRepl_self {x : Node} {id : Nat} {st : Repl} (hc : LC.Cache x) (hf : x.findRepl? id = some st) :
    k1 (x.setRepl st) = k1 x := by
  unfold k1
  rw [k0_setRepl]
  show (k0 x, insertRepl st x.ldr.repls) = _
  rw [insertRepl_self st _ hc.sortedRepls (LC.find_mem hf).1]

theorem CA_succ {s₀ : Node} {t : Nat} (ht : t ≠ 0) {n : Nat} (hDC : DCspec s₀ n) : CAspec s₀ t (n + 1) := by
  intro x task cfg id st hV hA hJ hf
  rcases ca_cases n x task cfg id st hf with ⟨h1, h2⟩ | ⟨r, h1, h2, h3⟩ | ⟨r, c, h1, h2, h3, h4, h5⟩
  · rw [h1]
    exact ⟨G.mk hV (Nat.le_refl _), Or.inr (Or.inl ⟨st, RSame.refl st, (k1_setRepl_self hV.cache hf).symm, fun _ => h2,
      fun _ => TL.FK.refl x⟩)⟩
  · rw [h2]
    refine ⟨G.mk (hV.setRepl hf h1) (Nat.le_refl _), Or.inr (Or.inl ⟨r, h1, rfl, fun hc => ?_, fun _ => TL.fk_setRepl x r⟩)⟩
    rcases h3 with h3 | h3
    · exact h3
    · rw [hc.1] at h3; cases h3
  · rw [h5]
    have hV1 : V s₀ (x.setRepl r) := hV.setRepl hf h1
    cases hv : x.ldr.node.voter with
    | false =>
      have hd := dc_dormant n (x.setRepl r) task c (Or.inr hv)
      refine ⟨G.mk (hV1.k1 hd (pan_of_failed ((failed_block n).2.2.2.1 _ task c)))
        (Nat.le_of_eq (k0_eq (k0_of_k1 hd)).2.2.2.2.1.symm), Or.inr (Or.inl ⟨r, h1, hd, fun hc => ?_, fun hs => ?_⟩)⟩
      · rw [hc.2] at hv; cases hv
      · rw [hs h2] at hv; cases hv
    | true =>
      have hcan : Can (x.setRepl r) := ⟨h2, hv⟩
      have hone : OneNode cfg c := actionConfig_oneNode _ cfg id r c h3 h4
      have hanch : HasAnchor cfg := hA.of_get (nextAction_ne h3)
      obtain ⟨a1, a3⟩ := hDC (x.setRepl r) task cfg c hV1 hcan (Or.inr hone) (hJ ⟨h2, hv⟩).1
        (fun hs => srt_actionConfig ((hJ ⟨h2, hv⟩).2 hs) h4) (hone.anchor hanch)
      refine ⟨a1, ?_⟩
      rcases a3 with a3 | ⟨a3, a4⟩
      · exact Or.inl a3
      · exact Or.inr (Or.inr ⟨⟨h2, hv⟩, a3, (TL.fk_setRepl x r).then ((TL.block t ht n).2.2.2.1 _ task c),
          c, ⟨h3, _, r, h4⟩, a4⟩)

/-! ### the loop of `checkConfigActions` -/

/-- the body of the loop over the replications -/
def body (n : Nat) (task : Nat) (cfg : Config) (s : Node) (id : Nat) : Node :=
  match s.findRepl? id with
  | some _ => checkConfigAction n s task cfg id
  | none => s

theorem cache_body (n task : Nat) (cfg : Config) (s : Node) (id : Nat) (h : LC.Cache s) : LC.Cache (body n task cfg s id) := by
  unfold body; split
  · exact LC.ccheckConfigAction n task cfg id h
  · exact h

theorem failed_body (n task : Nat) (cfg : Config) (s : Node) (id : Nat) (h : Failed s) : Failed (body n task cfg s id) := by
  unfold body; split
  · exact (failed_block n).2.2.2.2.2.1 s task cfg id h
  · exact h

theorem cache_loop (n task : Nat) (cfg : Config) (ids : List Nat) (s : Node) (h : LC.Cache s) :
    LC.Cache (ids.foldl (body n task cfg) s) := by
  induction ids generalizing s with
  | nil => exact h
  | cons a as ih => exact ih _ (cache_body n task cfg s a h)

theorem failed_loop (n task : Nat) (cfg : Config) (ids : List Nat) (s : Node) (h : Failed s) :
    Failed (ids.foldl (body n task cfg) s) := by
  induction ids generalizing s with
  | nil => exact h
  | cons a as ih => exact ih _ (failed_body n task cfg s a h)

theorem findRepl_none {x : Node} {id : Nat} (h : x.findRepl? id = none) : ∀ st ∈ x.ldr.repls, st.id ≠ id := by
  intro st hst e
  unfold Node.findRepl? at h
  have := List.find?_eq_none.mp h st hst
  simp [e] at this

/-- the state after the loop acted once (`c` was stored, nested calls have run): how the loop goes on -/
def ModeB (c : Config) (y : Node) : Prop := Blocked y ∨ (Q y ∧ FP y ∧ Agr c y)

theorem modeB_of_post {c : Config} {y : Node} (h : Post c y) : Failed y ∨ ModeB c y := by
  rcases h with h | h | ⟨h1, h2, h3⟩
  · exact Or.inl h
  · exact Or.inr (Or.inl h)
  · exact Or.inr (Or.inr ⟨h1, h3, h2⟩)

/-- one iteration after the loop has acted: nothing but round bookkeeping -/
theorem bodyB {s₀ : Node} {t n : Nat} (hCA : CAspec s₀ t n) (task : Nat) (cfg c : Config) (hA : AnchC cfg) (y : Node)
    (id : Nat) (hag : c.find? id = cfg.find? id) (hV : V s₀ y) (hm : ModeB c y) :
    LC.Cache (body n task cfg y id) ∧ (Failed (body n task cfg y id) ∨
      (V s₀ (body n task cfg y id) ∧ (body n task cfg y id).lastLogIndex = y.lastLogIndex ∧
        TL.FK y (body n task cfg y id) ∧ ModeB c (body n task cfg y id))) := by
  refine ⟨cache_body n task cfg y id hV.cache, ?_⟩
  unfold body
  cases hf : y.findRepl? id with
  | none => exact Or.inr ⟨hV, rfl, TL.FK.refl y, hm⟩
  | some st =>
    dsimp only
    rcases hm with hb | ⟨hq, hfp, hagr⟩
    · -- blocked: the call cannot store anything
      have hnc : ¬ Can y := fun hc => by
        have := hc.1
        rw [hb.cannot] at this
        cases this
      obtain ⟨⟨_, g⟩, o⟩ := hCA y task cfg id st hV hA (fun hc => absurd hc hnc) hf
      rcases o with o | ⟨r, _, _, _, o⟩ | ⟨o, _⟩
      · exact Or.inl o
      · rcases g with g | ⟨g1, _⟩
        · exact Or.inl g
        · have hk := ca_inert n y task cfg id (Or.inl hb.cannot)
          exact Or.inr ⟨g1, (k0_eq hk).2.2.2.2.1, o (fun hc => by rw [hb.cannot] at hc; cases hc), Or.inl (hb.k0 hk)⟩
      · exact absurd o hnc
    · -- settled: round bookkeeping only
      obtain ⟨hst, hid⟩ := LC.find_mem hf
      subst hid
      have e0 : cfg.get st.id = y.configs.latest.get st.id :=
        get_congr_find (hag.symm.trans (hagr st hst).symm)
      have hset : Settled y.configs.latest.index (cfg.get st.id) st := by
        rw [e0]
        exact hq st hst
      cases n with
      | zero =>
        left
        unfold checkConfigAction
        exact failed_panic y _
      | succ n =>
        rcases ca_settled n y task cfg st.id st hf hset with e | ⟨r, hr, e, hs⟩
        · rw [e]; exact Or.inr ⟨hV, rfl, TL.FK.refl y, Or.inr ⟨hq, hfp, hagr⟩⟩
        · rw [e]
          have hmem : ∀ st' ∈ (y.setRepl r).ldr.repls, st' = r ∨ (st' ∈ y.ldr.repls ∧ st'.id ≠ r.id) :=
            fun st' h' => LC.mem_insertRepl r st' _ hV.cache.sortedRepls h'
          refine Or.inr ⟨hV.setRepl hf hr, rfl, TL.fk_setRepl y r, Or.inr ⟨?_, hfp.k0 (k0_setRepl y r), ?_⟩⟩
          · intro st' h'
            rcases hmem st' h' with e' | ⟨h1, _⟩
            · subst e'
              show Settled y.configs.latest.index (y.configs.latest.get st'.id) st'
              rw [hr.1, ← e0]; exact hs
            · exact hq st' h1
          · intro st' h'
            rcases hmem st' h' with e' | ⟨h1, _⟩
            · subst e'
              show y.configs.latest.find? st'.id = c.find? st'.id
              rw [hr.1]; exact hagr st hst
            · exact hagr st' h1

/-- … and the rest of the loop -/
theorem loopB {s₀ : Node} {t n : Nat} (hCA : CAspec s₀ t n) (task : Nat) (cfg c : Config) (hA : AnchC cfg) :
    ∀ (ids : List Nat) (y : Node), (∀ id ∈ ids, c.find? id = cfg.find? id) → LC.Cache y →
      (Failed y ∨ (V s₀ y ∧ ModeB c y)) →
      LC.Cache (ids.foldl (body n task cfg) y) ∧ (Failed (ids.foldl (body n task cfg) y) ∨
        (V s₀ (ids.foldl (body n task cfg) y) ∧ (ids.foldl (body n task cfg) y).lastLogIndex = y.lastLogIndex ∧
          TL.FK y (ids.foldl (body n task cfg) y) ∧ ModeB c (ids.foldl (body n task cfg) y))) := by
  intro ids
  induction ids with
  | nil =>
    intro y _ hc hm
    refine ⟨hc, ?_⟩
    rcases hm with hm | ⟨h1, h2⟩
    · exact Or.inl hm
    · exact Or.inr ⟨h1, rfl, TL.FK.refl y, h2⟩
  | cons a as ih =>
    intro y hag hc hm
    rw [List.foldl_cons]
    rcases hm with hm | ⟨h1, h2⟩
    · exact ⟨cache_loop n task cfg as _ (cache_body n task cfg y a hc),
        Or.inl (failed_loop n task cfg as _ (failed_body n task cfg y a hm))⟩
    · obtain ⟨b1, b2⟩ := bodyB hCA task cfg c hA y a (hag a List.mem_cons_self) h1 h2
      rcases b2 with b2 | ⟨b2, b3, b4, b5⟩
      · exact ⟨cache_loop n task cfg as _ b1, Or.inl (failed_loop n task cfg as _ b2)⟩
      · obtain ⟨c1, c2⟩ := ih _ (fun id hid => hag id (List.mem_cons_of_mem _ hid)) b1 (Or.inr ⟨b2, b5⟩)
        refine ⟨c1, ?_⟩
        rcases c2 with c2 | ⟨c2, c3, c4, c5⟩
        · exact Or.inl c2
        · exact Or.inr ⟨c2, c3.trans b3, b4.trans c4, c5⟩

/-- the loop has not acted so far (`x₁`: the state it started from; `done`: the nodes visited): nothing but the
replications changed, in their round bookkeeping only, and — if a change can be stored at all — every replication visited
is settled with respect to the configuration `cfg` the loop works on -/
structure ModeA (s₀ : Node) (x₁ : Node) (cfg : Config) (done : List Nat) (y : Node) : Prop where
  v : V s₀ y
  k : k0 y = k0 x₁
  keys : y.ldr.repls.map LC.key = x₁.ldr.repls.map LC.key
  set : Can x₁ → ∀ st ∈ y.ldr.repls, st.id ∈ done → Settled x₁.configs.latest.index (cfg.get st.id) st
  fk : Hs x₁ → TL.FK x₁ y

/-- the loop has acted: the configuration `c`, proposed for the node `Y`, was stored -/
def ActedOut (s₀ : Node) (t : Nat) (x₁ : Node) (task : Nat) (cfg : Config) (y : Node) : Prop :=
  V s₀ y ∧ Can x₁ ∧ x₁.lastLogIndex < y.lastLogIndex ∧ TL.Rel t (TL.ind task t) x₁ y ∧
    ∃ Y c, ActCfg cfg Y c ∧ ModeB c y

theorem hs_of_can {x : Node} (h : Can x) : Hs x := fun _ => h.2

theorem loopA {s₀ : Node} {t n : Nat} (hCA : CAspec s₀ t n) (task : Nat) (cfg : Config) (hA : AnchC cfg) (x₁ : Node)
    (hJ : J x₁ cfg) :
    ∀ (ids done : List Nat) (y : Node), ids.Nodup → ModeA s₀ x₁ cfg done y →
      LC.Cache (ids.foldl (body n task cfg) y) ∧ (Failed (ids.foldl (body n task cfg) y) ∨
        ModeA s₀ x₁ cfg (ids.reverse ++ done) (ids.foldl (body n task cfg) y) ∨
        ActedOut s₀ t x₁ task cfg (ids.foldl (body n task cfg) y)) := by
  intro ids
  induction ids with
  | nil => intro done y _ hm; exact ⟨hm.v.cache, Or.inr (Or.inl hm)⟩
  | cons a as ih =>
    intro done y hnd hm
    rw [List.foldl_cons]
    have hnd' := (List.nodup_cons.mp hnd).2
    have hna := (List.nodup_cons.mp hnd).1
    have hdone : as.reverse ++ (a :: done) = (a :: as).reverse ++ done := by
      rw [List.reverse_cons, List.append_assoc]; rfl
    cases hf : y.findRepl? a with
    | none =>
      have e : body n task cfg y a = y := by unfold body; rw [hf]
      rw [e, ← hdone]
      refine ih (a :: done) y hnd' ⟨hm.v, hm.k, hm.keys, fun hc st hst hmem => ?_, hm.fk⟩
      rcases List.mem_cons.mp hmem with e' | h'
      · exact absurd e' (findRepl_none hf st hst)
      · exact hm.set hc st hst h'
    | some st =>
      have e : body n task cfg y a = checkConfigAction n y task cfg a := by unfold body; rw [hf]
      rw [e]
      obtain ⟨⟨gc, g⟩, o⟩ := hCA y task cfg a st hm.v hA (hJ.k0 hm.k) hf
      rcases o with o | ⟨r, hr, hk, hs, hfk⟩ | ⟨hcan, hlt, hrel, c, hac, hpost⟩
      · exact ⟨cache_loop n task cfg as _ gc, Or.inl (failed_loop n task cfg as _ o)⟩
      · rcases g with g | ⟨g1, _⟩
        · exact ⟨cache_loop n task cfg as _ gc, Or.inl (failed_loop n task cfg as _ g)⟩
        · rw [← hdone]
          have hk0 : k0 (checkConfigAction n y task cfg a) = k0 y := (k0_of_k1 hk).trans (k0_setRepl y r)
          have hrepls : (checkConfigAction n y task cfg a).ldr.repls = insertRepl r y.ldr.repls := (k1_eq hk).2
          obtain ⟨hst, hid⟩ := LC.find_mem hf
          refine ih (a :: done) _ hnd' ⟨g1, hk0.trans hm.k, ?_, fun hc st' hst' hmem => ?_, fun hh => ?_⟩
          · rw [hrepls, LC.map_key_insertRepl r st _ hm.v.cache.sortedRepls hst (by unfold LC.key; rw [hr.1, hr.2.2])]
            exact hm.keys
          · rw [hrepls] at hst'
            rcases LC.mem_insertRepl r st' _ hm.v.cache.sortedRepls hst' with e' | ⟨h1, h2⟩
            · subst e'
              have := hs (hc.k0 hm.k)
              rw [(k0_eq hm.k).1] at this
              rw [hr.1, hid]; exact this
            · rcases List.mem_cons.mp hmem with e'' | h'
              · exact absurd (e''.trans hid.symm) (by rw [hr.1] at h2; exact h2)
              · exact hm.set hc st' h1 h'
          · exact (hm.fk hh).trans (hfk (hh.k0 hm.k))
      · -- the loop acts here
        rcases g with g | ⟨g1, _⟩
        · exact ⟨cache_loop n task cfg as _ gc, Or.inl (failed_loop n task cfg as _ g)⟩
        · have hcan1 : Can x₁ := hcan.k0 hm.k.symm
          obtain ⟨h1, _⟩ := actionConfig_at hac.1 hac.2.choose_spec.choose_spec
          have hag : ∀ id ∈ as, c.find? id = cfg.find? id := fun id hid => h1 id (fun e' => hna (e' ▸ hid))
          obtain ⟨c1, c2⟩ := loopB hCA task cfg c hA as _ hag gc
            ((modeB_of_post hpost).imp id (fun h => ⟨g1, h⟩))
          refine ⟨c1, ?_⟩
          rcases c2 with c2 | ⟨c2, c3, c4, c5⟩
          · exact Or.inl c2
          · refine Or.inr (Or.inr ⟨c2, hcan1, ?_, ?_, a, c, hac, c5⟩)
            · rw [c3, ← (k0_eq hm.k).2.2.2.2.1]; exact hlt
            · exact ((hm.fk (hs_of_can hcan1)).then hrel).fk c4

theorem ids_of_keys {l l' : List Repl} (h : l.map LC.key = l'.map LC.key) {st : Repl} (hst : st ∈ l) :
    ∃ st' ∈ l', st'.id = st.id := by
  have : LC.key st ∈ l'.map LC.key := by rw [← h]; exact List.mem_map_of_mem hst
  obtain ⟨st', h1, h2⟩ := List.mem_map.mp this
  exact ⟨st', h1, congrArg Prod.fst h2⟩

/-- the loop of `checkConfigActions` started from a state `y₀` in which nothing was stored so far -/
theorem pathA {s₀ : Node} {t n : Nat} (hCA : CAspec s₀ t n) (task : Nat) (cfg cfg' : Config) (x y₀ : Node)
    (hVx : V s₀ x) (hk : k1 y₀ = k1 x) (hV : V s₀ y₀) (hA : AnchC cfg') (hJ : J y₀ cfg')
    (hfk : Hs x → TL.FK x y₀) (hcfg : Can x → cfg' = cfg) :
    G s₀ x (y₀.replOrder.foldl (body n task cfg') y₀.popOrder) ∧
    CAsOut t x task cfg (y₀.replOrder.foldl (body n task cfg') y₀.popOrder) := by
  have hk0 : k0 y₀.popOrder = k0 x := (k0_of_k1 (k1_popOrder y₀)).trans (k0_of_k1 hk)
  have hm0 : ModeA s₀ y₀.popOrder cfg' [] y₀.popOrder :=
    ⟨hV.popOrder, rfl, rfl, fun _ _ _ h => absurd h List.not_mem_nil, fun _ => TL.FK.refl _⟩
  obtain ⟨hc, ho⟩ := loopA hCA task cfg' hA y₀.popOrder (hJ.k0 (k0_of_k1 (k1_popOrder y₀))) y₀.replOrder [] y₀.popOrder
    (replOrder_nodup y₀ hV.cache.sortedRepls) hm0
  rcases ho with ho | ho | ⟨h1, h2, h3, h4, Y, c, h5, h6⟩
  · exact ⟨G.failed hc ho, Or.inl ho⟩
  · have hkz := ho.k.trans hk0
    refine ⟨G.mk ho.v (Nat.le_of_eq (k0_eq hkz).2.2.2.2.1.symm), Or.inr (Or.inl ⟨hkz, fun hcan st hst => ?_, fun hs => ?_⟩)⟩
    · obtain ⟨st', hst', hid⟩ := ids_of_keys ho.keys hst
      have hmem : st.id ∈ y₀.replOrder.reverse ++ [] := by
        rw [List.append_nil, List.mem_reverse, ← hid]
        exact mem_replOrder y₀ hst'
      have := ho.set (hcan.k0 hk0) st hst hmem
      rw [hcfg hcan] at this
      rw [(k0_eq ho.k).1]
      exact this
    · exact ((hfk hs).trans (TL.fk_popOrder y₀)).trans (ho.fk (hs.k0 hk0))
  · have hcanx : Can x := h2.k0 hk0.symm
    refine ⟨G.mk h1 (by rw [← (k0_eq hk0).2.2.2.2.1]; exact Nat.le_of_lt h3), Or.inr (Or.inr ⟨hcanx, ?_, ?_, ?_⟩)⟩
    · rw [← (k0_eq hk0).2.2.2.2.1]; exact h3
    · exact ((hfk (hs_of_can hcanx)).trans (TL.fk_popOrder y₀)).then h4
    · rcases h6 with h6 | ⟨q1, q2, q3⟩
      · exact Or.inl h6
      · refine Or.inr ⟨q1, q2, fun hfx hc' => ?_⟩
        rw [hcfg hcanx] at h5
        obtain ⟨ha, I, st, hac⟩ := h5
        exact agr_back hVx.cache hfx hc' h1.cache q2 (h1.nid.trans hVx.nid.symm) ha hac q3

/-- the loop of `checkConfigActions` after the leader's action on ITSELF was stored (`c`) -/
theorem pathB {s₀ : Node} {t n : Nat} (ht : t ≠ 0) (hCA : CAspec s₀ t n) (hDC : DCspec s₀ n) (task : Nat) (cfg c : Config)
    (x : Node) (hVx : V s₀ x) (hcan : Can x) (hd : Deriv cfg c) (hJ : J x cfg) (ha : HasAnchor c)
    (hsc : Srt cfg → Srt c) (hne : ∀ id, id ≠ x.nid → c.find? id = cfg.find? id) :
    G s₀ x ((doChangeConfig n x task c).replOrder.foldl (body n task c) (doChangeConfig n x task c).popOrder) ∧
    CAsOut t x task cfg ((doChangeConfig n x task c).replOrder.foldl (body n task c) (doChangeConfig n x task c).popOrder) := by
  obtain ⟨⟨gc, g⟩, o⟩ := hDC x task cfg c hVx hcan hd (hJ hcan).1 (fun hs => hsc ((hJ hcan).2 hs)) ha
  have hrel := (TL.block t ht n).2.2.2.1 x task c
  generalize doChangeConfig n x task c = y₀ at *
  have hfail : Failed y₀ → G s₀ x (y₀.replOrder.foldl (body n task c) y₀.popOrder) ∧
      CAsOut t x task cfg (y₀.replOrder.foldl (body n task c) y₀.popOrder) := fun hf =>
    ⟨G.failed (cache_loop n task c _ _ (LC.cpop gc)) (failed_loop n task c _ _ hf),
      Or.inl (failed_loop n task c _ _ hf)⟩
  rcases o with o | ⟨hlt, o⟩
  · exact hfail o
  rcases g with g | ⟨g1, _⟩
  · exact hfail g
  rcases modeB_of_post o with o | o
  · exact hfail o
  have hmode : ModeB c y₀.popOrder := by
    rcases o with o | ⟨q1, q2, q3⟩
    · exact Or.inl (o.k0 (k0_of_k1 (k1_popOrder y₀)))
    · exact Or.inr ⟨q1.k1 (k1_popOrder y₀), q2.k0 (k0_of_k1 (k1_popOrder y₀)), q3.k1 (k1_popOrder y₀)⟩
  obtain ⟨c1, c2⟩ := loopB hCA task c c (Or.inr ha) y₀.replOrder y₀.popOrder (fun _ _ => rfl) (LC.cpop gc)
    (Or.inr ⟨g1.popOrder, hmode⟩)
  rcases c2 with c2 | ⟨c2, c3, c4, c5⟩
  · exact ⟨G.failed c1 c2, Or.inl c2⟩
  · have hl : x.lastLogIndex < (y₀.replOrder.foldl (body n task c) y₀.popOrder).lastLogIndex := by
      rw [c3]; exact hlt
    refine ⟨G.mk c2 (Nat.le_of_lt hl), Or.inr (Or.inr ⟨hcan, hl, (hrel.fk (TL.fk_popOrder y₀)).fk c4, ?_⟩)⟩
    rcases c5 with c5 | ⟨q1, q2, q3⟩
    · exact Or.inl c5
    · refine Or.inr ⟨q1, q2, fun _ _ st hst => ?_⟩
      rw [q3 st hst]
      exact hne _ (by rw [hVx.nid, ← c2.nid]; exact (cache_repl c2.cache hst).1)

theorem cas_unfold (n : Nat) (x : Node) (task : Nat) (cfg : Config) :
    checkConfigActions (n + 1) x task cfg =
      (let nd := cfg.get x.nid
       let r : Node × Config :=
        if x.canChangeConfig ∧ nd.action ≠ actNone then
          if nd.action = actDemote then
            (doChangeConfig n x task (cfg.set { nd with voter := false, action := actNone }),
              cfg.set { nd with voter := false, action := actNone })
          else if nd.action = actRemove ∨ nd.action = actForceRemove then
            (doChangeConfig n x task (cfg.erase x.nid), cfg.erase x.nid)
          else (x.panic "unreachable", cfg)
        else (x, cfg)
       r.1.replOrder.foldl (body n task r.2) r.1.popOrder) := by
  conv => lhs; unfold checkConfigActions
  rfl

theorem CAs_succ {s₀ : Node} {t : Nat} (ht : t ≠ 0) {n : Nat} (hDC : DCspec s₀ n) (hCA : CAspec s₀ t n) :
    CAsspec s₀ t (n + 1) := by
  intro x task cfg hV hA hJ
  rw [cas_unfold]
  extract_lets nd r
  by_cases hc : x.canChangeConfig = true ∧ nd.action ≠ actNone
  · have hact : (cfg.get x.nid).action ≠ actNone := hc.2
    have hid : (cfg.get x.nid).id = x.nid := get_id hact
    have hanch : HasAnchor cfg := hA.of_get hact
    cases hv : x.ldr.node.voter with
    | false =>
      -- the leader's own entry has no vote: answers only
      have hnc : ¬ Can x := fun h => by rw [h.2] at hv; cases hv
      have hnh : ¬ Hs x := fun h => by rw [h hc.1] at hv; cases hv
      have key : ∀ (y : Node) (c' : Config), r = (y, c') → k1 y = k1 x → (Failed x → Failed y) → AnchC c' →
          G s₀ x (r.1.replOrder.foldl (body n task r.2) r.1.popOrder) ∧
          CAsOut t x task cfg (r.1.replOrder.foldl (body n task r.2) r.1.popOrder) := by
        intro y c' hr hk hp hA'
        rw [hr]
        have hncy : ¬ Can y := fun h => hnc (h.k0 (k0_of_k1 hk).symm)
        exact pathA hCA task cfg c' x y hV hk (hV.k1 hk (pan_of_failed hp)) hA' (fun h => absurd h hncy)
          (fun h => absurd h hnh) (fun h => absurd h hnc)
      by_cases h1 : nd.action = actDemote
      · have hone : OneNode cfg (cfg.set { nd with voter := false, action := actNone }) := oneNode_set _ x.nid _ hid hact
        exact key _ _ (by unfold r; rw [if_pos hc, if_pos h1]) (dc_dormant n x task _ (Or.inr hv))
          ((failed_block n).2.2.2.1 x task _) (Or.inr (hone.anchor hanch))
      · by_cases h2 : nd.action = actRemove ∨ nd.action = actForceRemove
        · have hone : OneNode cfg (cfg.erase x.nid) := oneNode_erase _ x.nid hact
          exact key _ _ (by unfold r; rw [if_pos hc, if_neg h1, if_pos h2]) (dc_dormant n x task _ (Or.inr hv))
            ((failed_block n).2.2.2.1 x task _) (Or.inr (hone.anchor hanch))
        · exact key _ _ (by unfold r; rw [if_pos hc, if_neg h1, if_neg h2]) (k1_panic x _) (q_panic x _).pan hA
    | true =>
      have hcan : Can x := ⟨hc.1, hv⟩
      by_cases h1 : nd.action = actDemote
      · have hr : r = (doChangeConfig n x task (cfg.set { nd with voter := false, action := actNone }),
            cfg.set { nd with voter := false, action := actNone }) := by unfold r; rw [if_pos hc, if_pos h1]
        rw [hr]
        have hone : OneNode cfg (cfg.set { nd with voter := false, action := actNone }) := oneNode_set _ x.nid _ hid hact
        exact pathB ht hCA hDC task cfg _ x hV hcan (Or.inr hone) hJ (hone.anchor hanch) (fun h => h.set _)
          (fun id hne => find?_set_ne cfg _ id (by rw [show ({ nd with voter := false, action := actNone } : CNode).id = x.nid from hid]; exact hne))
      · by_cases h2 : nd.action = actRemove ∨ nd.action = actForceRemove
        · have hr : r = (doChangeConfig n x task (cfg.erase x.nid), cfg.erase x.nid) := by
            unfold r; rw [if_pos hc, if_neg h1, if_pos h2]
          rw [hr]
          have hone : OneNode cfg (cfg.erase x.nid) := oneNode_erase _ x.nid hact
          exact pathB ht hCA hDC task cfg _ x hV hcan (Or.inr hone) hJ (hone.anchor hanch) (fun h => h.erase _)
            (fun id hne => find?_erase_ne cfg _ id hne)
        · have hr : r = (x.panic "unreachable", cfg) := by unfold r; rw [if_pos hc, if_neg h1, if_neg h2]
          rw [hr]
          have hf : Failed ((x.panic "unreachable").replOrder.foldl (body n task cfg) (x.panic "unreachable").popOrder) :=
            failed_loop n task cfg _ _ (failed_panic x _)
          exact ⟨G.failed (cache_loop n task cfg _ _ (LC.cpop (LC.cpanic _ hV.cache))) hf, Or.inl hf⟩
  · have hr : r = (x, cfg) := if_neg hc
    rw [hr]
    exact pathA hCA task cfg cfg x x hV rfl hV hA hJ (fun _ => TL.FK.refl x) (fun _ => rfl)

theorem G.of_le {s₀ x y z : Node} (h : G s₀ y z) (hl : x.lastLogIndex ≤ y.lastLogIndex) : G s₀ x z := by
  refine ⟨h.1, ?_⟩
  rcases h.2 with h2 | ⟨h2, h3⟩
  · exact Or.inl h2
  · exact Or.inr ⟨h2, Nat.le_trans hl h3⟩

theorem Agr.congr {c c' : Config} {x : Node} (h : Agr c x) (e : c'.nodes = c.nodes) : Agr c' x := by
  intro st hst
  rw [h st hst, find?_congr e]

theorem Post.congr {c c' : Config} {x : Node} (h : Post c x) (e : c'.nodes = c.nodes) : Post c' x := by
  rcases h with h | h | ⟨h1, h2, h3⟩
  · exact Or.inl h
  · exact Or.inr (Or.inl h)
  · exact Or.inr (Or.inr ⟨h1, h2.congr e, h3⟩)

theorem DC_succ {s₀ : Node} {n : Nat} (hSE : SEspec s₀ n) : DCspec s₀ (n + 1) := by
  intro x task b c hV hcan hd hsv hs ha
  unfold doChangeConfig
  exact hSE.2 x _ b c hV hcan rfl rfl hd hsv hs ha

theorem SE_succ {s₀ : Node} {n : Nat} (hMC : MCspec s₀ n) : SEspec s₀ (n + 1) := by
  constructor
  · intro x b hV hb
    unfold storeEntry
    extract_lets lastIndex s1 s2 s3 s4
    obtain ⟨a1, a2, a3, a4⟩ := storeItems_plain s₀ n b x hV hb
    have hk2 : k1 s2 = k1 s1 := by
      unfold s2; split
      · split
        · exact k1_applyCommittedL s1
        · rfl
      · rfl
    have hV2 : V s₀ s2 := by
      unfold s2; split
      · split
        · exact a1.applyCommittedL
        · exact a1
      · exact a1
    have hl2 : x.lastLogIndex ≤ s2.lastLogIndex := by rw [(k0_eq (k0_of_k1 hk2)).2.2.2.2.1]; exact a3
    split
    · have hV4 : V s₀ s4 := hV2.beginFinishedRounds.notifyFlr
      have hl4 : s4.lastLogIndex = s2.lastLogIndex :=
        (k0_eq ((k0_of_k1 (k1_notifyFlr s3)).trans (k0_beginFinishedRounds s2))).2.2.2.2.1
      split
      · exact (hMC.1 s4 hV4).of_le (by rw [hl4]; exact hl2)
      · exact G.mk hV4 (by rw [hl4]; exact hl2)
    · exact G.mk hV2 hl2
  · intro x q b c hV hcan hq hc hd hsv hs ha
    obtain ⟨hcm, hact, hst⟩ := canChange_facts hcan.1
    unfold storeEntry
    extract_lets lastIndex s1 s2 s3 s4
    cases n with
    | zero =>
      have e : s1 = x.panic "fuel" := by unfold s1; unfold storeItems; rfl
      have hf1 : Failed s1 := by rw [e]; exact failed_panic x _
      have hc1 : LC.Cache s1 := by rw [e]; exact LC.cpanic _ hV.cache
      have hf2 : Failed s2 := by
        unfold s2; split
        · split
          · exact failed_mono_applyCommittedL s1 hf1
          · exact hf1
        · exact hf1
      have hc2 : LC.Cache s2 := by
        unfold s2; split
        · split
          · exact LC.capplyL hc1
          · exact hc1
        · exact hc1
      have hf4 : Failed s4 := failed_mono_notifyFlr _ hf2
      have hc4 : LC.Cache s4 := LC.cnotify (LC.cbegin hc2)
      split
      · split
        · have := (failed_block 0).2.2.2.2.2.2.2 s4 hf4
          exact ⟨G.failed ((LC.block 0).2.2.2.2.2.2.2 s4 hc4) this, Or.inl this⟩
        · exact ⟨G.failed hc4 hf4, Or.inl hf4⟩
      · exact ⟨G.failed hc2 hf2, Or.inl hf2⟩
    | succ m =>
      have e : s1 = storeItem m x q := by unfold s1; rw [storeItems_cons, storeItems_nil]
      obtain ⟨hV1, ho⟩ := store_cfg s₀ m x q b c hV hcan.1 hcan.2 hq hc hd hsv hs ha
      rw [← e] at hV1 ho
      have hk2 : k1 s2 = k1 s1 := by
        unfold s2; split
        · split
          · exact k1_applyCommittedL s1
          · rfl
        · rfl
      have hp2 : Failed s1 → Failed s2 := by
        intro h; unfold s2; split
        · split
          · exact failed_mono_applyCommittedL s1 h
          · exact h
        · exact h
      have hV2 : V s₀ s2 := hV1.k1 hk2 (pan_of_failed hp2)
      have hV4 : V s₀ s4 := hV2.beginFinishedRounds.notifyFlr
      have hk4 : k0 s4 = k0 s1 :=
        ((k0_of_k1 (k1_notifyFlr s3)).trans (k0_beginFinishedRounds s2)).trans (k0_of_k1 hk2)
      have hp4 : Failed s1 → Failed s4 := fun h => failed_mono_notifyFlr _ (hp2 h)
      rcases ho with ho | ho
      · -- the budget ran out inside `leader.changeConfig`
        split
        · split
          · have := (failed_block (m + 1)).2.2.2.2.2.2.2 s4 (hp4 ho)
            exact ⟨G.failed ((LC.block (m + 1)).2.2.2.2.2.2.2 s4 hV4.cache) this, Or.inl this⟩
          · exact ⟨G.failed hV4.cache (hp4 ho), Or.inl (hp4 ho)⟩
        · exact ⟨G.failed hV2.cache (hp2 ho), Or.inl (hp2 ho)⟩
      · have hl1 : s1.lastLogIndex = x.lastLogIndex + 1 := ho.lli
        have hl2 : s2.lastLogIndex = x.lastLogIndex + 1 := by rw [(k0_eq (k0_of_k1 hk2)).2.2.2.2.1]; exact hl1
        have hl4 : s4.lastLogIndex = x.lastLogIndex + 1 := by rw [(k0_eq hk4).2.2.2.2.1]; exact hl1
        have hb1 : Blocked s1 := ho.blocked hV.li
        have hb4 : Blocked s4 := hb1.k0 hk4
        have hlat : s4.configs.latest.nodes = c.nodes := by rw [(k0_eq hk4).1]; exact ho.nodes
        rw [if_pos (show s2.lastLogIndex > lastIndex by rw [hl2]; exact Nat.lt_succ_self _)]
        split
        · rename_i hfp
          have hpend : Pend s4 := ⟨hb4, hfp, by rw [(k0_eq hk4).2.1, ho.act]; exact hact⟩
          have g0 := hMC.1 s4 hV4
          refine ⟨g0.of_le (x := x) (by rw [hl4]; exact Nat.le_succ _), ?_⟩
          rcases g0.2 with g2 | ⟨_, g3⟩
          · exact Or.inl g2
          · exact Or.inr ⟨by rw [hl4] at g3; exact g3, ((hMC.2 s4 hV4 hpend).congr hlat.symm)⟩
        · exact ⟨G.mk hV4 (by rw [hl4]; exact Nat.le_succ _), Or.inr ⟨by rw [hl4]; exact Nat.lt_succ_self _,
            Or.inr (Or.inl hb4)⟩⟩

/-! ### `Raft.setCommitIndex` -/

/-- what `Raft.setCommitIndex` does to the fields read here -/
theorem setCommitIndexR_facts (x : Node) (i : Nat) :
    (x.setCommitIndexR i).1.configs.latest = x.configs.latest ∧ (x.setCommitIndexR i).1.ldr = x.ldr ∧
    (x.setCommitIndexR i).1.lastLogIndex = x.lastLogIndex ∧ (x.setCommitIndexR i).1.log = x.log ∧
    (x.setCommitIndexR i).1.nid = x.nid ∧ (x.setCommitIndexR i).1.panicked = x.panicked ∧
    (x.setCommitIndexR i).1.commitIndex = i ∧
    ((x.setCommitIndexR i).2 = true → (x.setCommitIndexR i).1.configs = ⟨x.configs.latest, x.configs.latest⟩) ∧
    ((x.setCommitIndexR i).2 = false → (x.setCommitIndexR i).1.configs = x.configs) := by
  unfold Node.setCommitIndexR
  split
  · obtain ⟨a1, a2, _, a4, a5, a6, a7, _, a9⟩ := commitPath_fields x i
    dsimp only at a1 a2 a4 a5 a6 a7 a9 ⊢
    exact ⟨by rw [a1], a6, a5, a9, a2, a7, a4, fun _ => a1, fun h => Bool.noConfusion h⟩
  · exact ⟨rfl, rfl, rfl, rfl, rfl, rfl, rfl, fun h => Bool.noConfusion h, fun _ => rfl⟩

theorem V.setCommitIndexR {s₀ x : Node} (h : V s₀ x) (i : Nat) : V s₀ (x.setCommitIndexR i).1 := by
  obtain ⟨a1, _, a3, a4, a5, a6, _⟩ := setCommitIndexR_facts x i
  refine ⟨LC.ccommitR i h.cache, by rw [a1, a3]; exact h.li, by rw [a1]; exact h.anch, by rw [a5]; exact h.nid, fun hp => ?_⟩
  rw [a6] at hp
  obtain ⟨k, ext, e0, e1, e2⟩ := h.chain hp
  exact ⟨k, ext, e0, by rw [a4]; exact e1, by rw [a1]; exact e2⟩

theorem settled_of_stable {c : Config} (h : c.isStable = true) (I : Nat) (id : Nat) (st : Repl) :
    Settled I (c.get id) st :=
  Or.inl (TL.nextAction_of_none _ (TL.get_action_of_stable c id h))

theorem k1_foldl_reply {β : Type} (f : β → Nat) (g : Node → β → String) (xs : List β) (x : Node) :
    k1 (xs.foldl (fun s b => s.reply (f b) (g s b)) x) = k1 x ∧
    (xs.foldl (fun s b => s.reply (f b) (g s b)) x).panicked = x.panicked := by
  induction xs generalizing x with
  | nil => exact ⟨rfl, rfl⟩
  | cons b bs ih =>
    rw [List.foldl_cons]
    obtain ⟨a, b'⟩ := ih (x.reply (f b) (g x b))
    exact ⟨a.trans (k1_reply _ _ _), b'.trans (reply_fields _ _ _).2.2.2.2.2.1⟩

theorem Pend.k0 {x y : Node} (h : Pend x) (e : k0 y = k0 x) : Pend y :=
  ⟨h.blocked.k0 e, h.fp.k0 e, by rw [(k0_eq e).2.1]; exact h.act⟩

theorem MC_succ {s₀ : Node} {n : Nat} (hSC : SCspec s₀ n) : MCspec s₀ (n + 1) := by
  constructor
  · intro x hV
    unfold onMajorityCommit
    extract_lets m s1 s2 s3
    have hk1 : k1 s1 = k1 x := by unfold s1; split; rfl; exact k1_panic x _
    have hV1 : V s₀ s1 := by unfold s1; split; exact hV; exact hV.panic _
    have hl1 : s1.lastLogIndex = x.lastLogIndex := (k0_eq (k0_of_k1 hk1)).2.2.2.2.1
    split
    · obtain ⟨gc, g⟩ := hSC.1 s1 m.1 hV1
      have hk : k1 s3.notifyFlr = k1 s2 := (k1_notifyFlr s3).trans (k1_applyCommittedL s2)
      refine ⟨LC.cnotify (LC.capplyL gc), ?_⟩
      rcases g with g | ⟨g1, g2⟩
      · exact Or.inl (failed_mono_notifyFlr _ (failed_mono_applyCommittedL _ g))
      · exact Or.inr ⟨g1.applyCommittedL.notifyFlr, by rw [(k0_eq (k0_of_k1 hk)).2.2.2.2.1, ← hl1]; exact g2⟩
    · exact G.mk hV1 (Nat.le_of_eq hl1.symm)
  · intro x hV hP
    unfold onMajorityCommit
    extract_lets m s1 s2 s3
    have hk1 : k1 s1 = k1 x := by unfold s1; split; rfl; exact k1_panic x _
    have hV1 : V s₀ s1 := by unfold s1; split; exact hV; exact hV.panic _
    have hP1 : Pend s1 := hP.k0 (k0_of_k1 hk1)
    have hlat : s1.configs.latest = x.configs.latest := by rw [(k0_eq (k0_of_k1 hk1)).1]
    split
    · rename_i hcond
      have hk : k1 s3.notifyFlr = k1 s2 := (k1_notifyFlr s3).trans (k1_applyCommittedL s2)
      have := hSC.2 s1 m.1 hV1 hP1 hcond.2
      rw [hlat] at this
      exact this.k1 hk (fun h => failed_mono_notifyFlr _ (failed_mono_applyCommittedL _ h))
    · exact Or.inr (Or.inl hP1.blocked)

theorem SC_succ {s₀ : Node} {t : Nat} {n : Nat} (hCAs : CAsspec s₀ t n) : SCspec s₀ (n + 1) := by
  constructor
  · intro x i hV
    unfold setCommitIndexL
    extract_lets s1 ready r s2 s3 s5 l5
    have hV2 : V s₀ s2 := (hV.commitLog i).setCommitIndexR i
    have hl2 : s2.lastLogIndex = x.lastLogIndex :=
      (setCommitIndexR_facts s1 i).2.2.1.trans (k0_eq (k0_of_k1 (k1_commitLog x i))).2.2.2.2.1
    have hG3 : G s₀ x s3 := by
      unfold s3
      split
      · exact (hCAs s2 0 _ hV2 hV2.anch (J.refl _)).1.of_le (Nat.le_of_eq hl2.symm)
      · exact G.mk hV2 (Nat.le_of_eq hl2.symm)
    obtain ⟨gc, g⟩ := hG3
    split
    · split
      · obtain ⟨a, b⟩ := k1_foldl_reply (fun t => t) (fun s _ => s!"config:{s.configs.latest.index}") s3.ldr.waitStable s3
        have hk : k1 (s5.withLdr { l5 with waitStable := [] }) = k1 s3 := a
        have hp : (s5.withLdr { l5 with waitStable := [] }).panicked = s3.panicked := b
        refine ⟨LC.cldr _ (LC.cfoldl _ (fun y tk hy => LC.creply _ _ hy) _ _ gc) rfl rfl rfl, ?_⟩
        rcases g with g | ⟨g1, g2⟩
        · left
          unfold Failed
          rw [hp]; exact g
        · exact Or.inr ⟨g1.k1 hk (fun h => by rw [← hp]; exact h),
            Nat.le_trans g2 (Nat.le_of_eq (k0_eq (k0_of_k1 hk)).2.2.2.2.1.symm)⟩
      · rcases g with g | ⟨g1, g2⟩
        · exact G.failed (LC.ccheckConfigActions n 0 _ gc) ((failed_block n).2.2.2.2.1 s3 0 _ g)
        · exact (hCAs s3 0 _ g1 g1.anch (J.refl _)).1.of_le g2
    · exact ⟨gc, g⟩
  · intro x i hV hP hst
    unfold setCommitIndexL
    extract_lets s1 ready r s2 s3 s5 l5
    have hV1 : V s₀ s1 := hV.commitLog i
    have hk1 : k0 s1 = k0 x := k0_of_k1 (k1_commitLog x i)
    have hP1 : Pend s1 := hP.k0 hk1
    obtain ⟨f1, f2, f3, f4, f5, f6, f7, f8, f9⟩ := setCommitIndexR_facts s1 i
    have hV2 : V s₀ s2 := hV1.setCommitIndexR i
    have hlat1 : s1.configs.latest = x.configs.latest := by rw [(k0_eq hk1).1]
    cases hr : r.2 with
    | false =>
      -- the configuration stays uncommitted
      have hc2 : s2.configs = s1.configs := f9 hr
      have hb2 : Blocked s2 := by unfold Blocked; rw [hc2]; exact hP1.blocked
      have hb3 : Blocked s3 := by
        unfold s3
        split
        · exact hb2.k0 (cas_inert n s2 0 _ (Or.inl hb2.cannot))
        · exact hb2
      simp only [Bool.false_eq_true, if_false]
      exact Or.inr (Or.inl hb3)
    | true =>
      have hc2 : s2.configs = ⟨s1.configs.latest, s1.configs.latest⟩ := f8 hr
      have e3 : s3 = s2 := by
        unfold s3
        rw [if_neg (by rw [hr]; simp)]
      simp only [if_true]
      have hfp2 : FP s2 := by unfold FP; rw [f2]; exact hP1.fp
      have hcan2 : Can s2 := by
        refine ⟨?_, by rw [f2]; exact hP1.fp.2⟩
        unfold Node.canChangeConfig
        rw [hc2, f2, f7, hP1.act]
        simp only [Configs.isCommitted, beq_self_eq_true, Bool.not_false, Bool.and_self, Bool.true_and, decide_eq_true_eq]
        rw [(k0_eq hk1).2.2.2.1]
        exact hst
      have hlat2 : s2.configs.latest = x.configs.latest := f1.trans hlat1
      split
      · rename_i hstab
        obtain ⟨a, _⟩ := k1_foldl_reply (fun t => t) (fun s _ => s!"config:{s.configs.latest.index}") s3.ldr.waitStable s3
        have hk : k1 (s5.withLdr { l5 with waitStable := [] }) = k1 s3 := a
        have hs : s3.configs.latest.isStable = true := by
          unfold Configs.isStable at hstab
          simp only [Bool.and_eq_true] at hstab
          exact hstab.2
        have hq : Q s3 := fun st _ => settled_of_stable hs _ _ _
        have hagr : Agr x.configs.latest s3 := fun st _ => by rw [e3, hlat2]
        exact Or.inr (Or.inr ⟨hq.k1 hk, hagr.k1 hk, (by rw [e3]; exact hfp2 : FP s3).k0 (k0_of_k1 hk)⟩)
      · rw [e3]
        obtain ⟨⟨_, g⟩, o⟩ := hCAs s2 0 _ hV2 hV2.anch (J.refl _)
        rcases o with o | ⟨o1, o2, _⟩ | ⟨_, _, _, o⟩
        · exact Or.inl o
        · refine Or.inr (Or.inr ⟨fun st hst' => ?_, fun st hst' => ?_, hfp2.k0 o1⟩)
          · rw [(k0_eq o1).1]
            have := o2 hcan2 st hst'
            rw [(k0_eq o1).1] at this
            exact this
          · rw [(k0_eq o1).1, hlat2]
        · rcases o with o | ⟨q1, q2, q3⟩
          · exact Or.inr (Or.inl o)
          · have : Agr x.configs.latest (checkConfigActions n s2 0 s2.configs.latest) := by
              rw [← hlat2]; exact q3 hfp2 rfl
            exact Or.inr (Or.inr ⟨q1, this, q2⟩)

/-- **the leader block through single-voter configurations**: every handler of the mutually recursive block, for every
recursion budget -/
theorem block (s₀ : Node) (t : Nat) (ht : t ≠ 0) : ∀ n : Nat,
    SEspec s₀ n ∧ DCspec s₀ n ∧ CAsspec s₀ t n ∧ CAspec s₀ t n ∧ SCspec s₀ n ∧ MCspec s₀ n := by
  intro n
  induction n with
  | zero =>
    refine ⟨⟨?_, ?_⟩, ?_, ?_, ?_, ⟨?_, ?_⟩, ⟨?_, ?_⟩⟩
    · intro x b hV _
      unfold storeEntry
      exact G.failed (LC.cpanic _ hV.cache) (failed_panic x _)
    · intro x q b c hV _ _ _ _ _ _ _
      unfold storeEntry
      exact ⟨G.failed (LC.cpanic _ hV.cache) (failed_panic x _), Or.inl (failed_panic x _)⟩
    · intro x task b c hV _ _ _ _ _
      unfold doChangeConfig
      exact ⟨G.failed (LC.cpanic _ hV.cache) (failed_panic x _), Or.inl (failed_panic x _)⟩
    · intro x task cfg hV _ _
      unfold checkConfigActions
      exact ⟨G.failed (LC.cpanic _ hV.cache) (failed_panic x _), Or.inl (failed_panic x _)⟩
    · intro x task cfg id st hV _ _ _
      unfold checkConfigAction
      exact ⟨G.failed (LC.cpanic _ hV.cache) (failed_panic x _), Or.inl (failed_panic x _)⟩
    · intro x i hV
      unfold setCommitIndexL
      exact G.failed (LC.cpanic _ hV.cache) (failed_panic x _)
    · intro x i hV _ _
      unfold setCommitIndexL
      exact Or.inl (failed_panic x _)
    · intro x hV
      unfold onMajorityCommit
      exact G.failed (LC.cpanic _ hV.cache) (failed_panic x _)
    · intro x hV _
      unfold onMajorityCommit
      exact Or.inl (failed_panic x _)
  | succ n ih =>
    obtain ⟨hSE, hDC, hCAs, hCA, hSC, hMC⟩ := ih
    exact ⟨SE_succ hMC, DC_succ hSE, CAs_succ ht hDC hCA, CA_succ ht hDC, SC_succ hCAs, MC_succ hSC⟩

end One
end Raft
