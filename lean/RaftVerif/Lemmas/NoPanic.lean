/-
Lemmas for C15 "no self-inflicted failure on every path" (Props/C15NoPanic.lean): `Node.step` never panics from a
good state.

Parameters used throughout: `F : Prop` — whether the MODEL's recursion budget may fail (`PF F`: nothing has failed,
or — if `F` — only the budget); `T : Bool` — whether configurations have two anchors (voters without pending
action) instead of one. The general theorems take `F := True`; with `T = true` the budget provably suffices and
`F := False` is used.

* part Defs: `PF`, configurations (`Anchored`, `Anchored2`, `AnchoredT`, `SelfAct`, `CfgOk`, `CfgP`), the global
  part `Glob` and the leader part `LdrR` of the state invariant, the leader-queue chain `QChain`, and the
  invariant `I F T lr lc R s₀ s` carried through a step that started in `s₀` (it contains `Order.Inv s₀ true s`, so
  the lemmas of Lemmas/Order.lean supply the orderings); the FSM goroutine: `fsmApply` completes on a chain of
  queue items (`fsmApply_chain`);
* parts Prim, Prim2: every primitive state update preserves `I` (`i_…`), failure sites are unreachable (`i_unreach`);
* part Block: the mutually recursive leader block (`block`, by induction on the recursion budget, with the
  budgets that suffice when `T`);
* parts Leader, Leader2, Follower, Follower2, Step: the handlers outside the block;
* part Main: `Good`, `ReqOk'`, every case of `handle` (`handle_post`), the role transitions (`settle_post`), one
  step (`step_goodF`).
-/
import RaftVerif.Props.C06Cache
import RaftVerif.Props.C19Order
import RaftVerif.Props.C15
import RaftVerif.Lemmas.RoleRel

namespace Raft
namespace NoPanic
open Node

variable {F : Prop} {T : Bool} {lr lc : Bool} {R : Role → Prop} {s₀ s : Node}

/-! # part Defs -/
/-! ## definitions -/

/-- nothing has failed so far, except — when `F` is granted — possibly the recursion budget of the MODEL
(`panic "fuel"`: the Go code has no such budget). `F := True`: the general theorems; `F := False`: the
theorems for configurations with two anchors, where the budget provably suffices. -/
def PF (F : Prop) (s : Node) : Prop := s.panicked = none ∨ (F ∧ s.panicked = some "fuel")

/-- a configuration has an "anchor": a voter without pending action whose id no other member carries
(a Go map has distinct keys; `Config.validate` demands a voter without action) -/
def Anchored (c : Config) : Prop :=
  ∃ a ∈ c.nodes, a.voter = true ∧ a.action = actNone ∧ ∀ m ∈ c.nodes, m.id = a.id → m = a

/-- two anchors with different ids: then there are always at least two voters, the leader never commits alone
(no single-voter fast path) and membership changes do not nest within one step -/
def Anchored2 (c : Config) : Prop :=
  ∃ a ∈ c.nodes, ∃ b ∈ c.nodes, a.id ≠ b.id ∧
    (a.voter = true ∧ a.action = actNone ∧ ∀ m ∈ c.nodes, m.id = a.id → m = a) ∧
    (b.voter = true ∧ b.action = actNone ∧ ∀ m ∈ c.nodes, m.id = b.id → m = b)

/-- an anchor; two of them when `T` -/
def AnchoredT (T : Bool) (c : Config) : Prop := Anchored c ∧ (T = true → Anchored2 c)

/-- the entry of node `nid` in `c` carries one of the five defined actions, and not `Promote` if it is a voter -/
def SelfAct (c : Config) (nid : Nat) : Prop :=
  (c.get nid).action ≤ 4 ∧ ((c.get nid).voter = true → (c.get nid).action ≠ actPromote)

/-- what a node needs of a configuration it holds -/
def CfgOk (T : Bool) (nid : Nat) (c : Config) : Prop := SelfAct c nid ∧ (c.nodes ≠ [] → AnchoredT T c)

/-- what the leader `nid` needs of a configuration it is going to work on / store -/
def CfgP (T : Bool) (nid : Nat) (c : Config) : Prop :=
  AnchoredT T c ∧ (c.get nid).action ≤ 4 ∧ (c.get nid).action ≠ actPromote

instance (c : Config) : Decidable (Anchored c) := by unfold Anchored; infer_instance
instance (c : Config) : Decidable (Anchored2 c) := by unfold Anchored2; infer_instance
instance (T : Bool) (c : Config) : Decidable (AnchoredT T c) := by unfold AnchoredT; infer_instance
instance (c : Config) (nid : Nat) : Decidable (SelfAct c nid) := by unfold SelfAct; infer_instance
instance (T : Bool) (c : Config) (nid : Nat) : Decidable (CfgOk T nid c) := by unfold CfgOk; infer_instance
instance (T : Bool) (c : Config) (nid : Nat) : Decidable (CfgP T nid c) := by unfold CfgP; infer_instance

/-- every configuration entry decodes -/
def LogDec (es : List Entry) : Prop := ∀ e ∈ es, e.typ = etConfig → e.cfg.isSome = true

instance (es : List Entry) : Decidable (LogDec es) := by unfold LogDec; infer_instance

/-- **global part of the invariant** (every role) -/
structure Glob (T : Bool) (s : Node) : Prop where
  /-- every configuration entry of the log decodes -/
  logDec : LogDec s.log.entries
  /-- at least one snapshot is retained -/
  retain : 1 ≤ s.retain
  /-- no snapshot file is newer than `snaps.index` -/
  snaps : ∀ g ∈ s.snapsDisk, g.index ≤ s.snapIndex
  /-- a candidate is a voter of its latest configuration -/
  cand : s.role = .candidate → s.configs.latest.isVoter s.nid = true
  cfgL : CfgOk T s.nid s.configs.latest
  cfgC : CfgOk T s.nid s.configs.committed

/-- The leader queue `neHead..neTail`, starting at position `n` and ending at `e`: a log entry sits at
its position and advances it, a read/barrier sits at the position of the NEXT log entry. -/
def QChain : Nat → List QItem → Nat → Prop
  | n, [], e => n = e
  | n, q :: qs, e => q.index = n ∧ QChain (if isLogEntryTyp q.typ then n + 1 else n) qs e

/-- **leader part of the invariant** (except the caches, `LC.Cache`), relative to the state `s₀` the
step started from. Unconditional inside the leader handlers; for a state: when open and leader. -/
structure LdrR (s₀ s : Node) : Prop where
  /-- the view `ViewAt(removeLTE, lastLogIndex)` can be built (F6) -/
  prevLe : s.log.prev ≤ s.ldr.removeLTE
  /-- the queue holds exactly the entries above some index beyond the applied one, up to the log end -/
  queue : ∃ n, s.fsm.index < n ∧ QChain n s.ldr.queue (s.lastLogIndex + 1)
  /-- no replication is ahead of the leader's log -/
  matchLe : ∀ r ∈ s.ldr.repls, r.matchIndex ≤ s.lastLogIndex
  /-- the transfer target is never the leader itself -/
  target : s.ldr.transfer.target ≠ 0 → s.ldr.transfer.target ≠ s.nid
  notCand : s.role ≠ .candidate
  /-- the leader's own entry never asks for promotion -/
  selfNP : (s.configs.latest.get s.nid).action ≠ actPromote
  /-- a leader whose latest configuration is committed is a voter of it -/
  lv : s.role = .leader → s.configs.isCommitted = true → s.configs.latest.isVoter s.nid = true
  nonempty : s.configs.latest.nodes ≠ []
  lastMono : s₀.lastLogIndex ≤ s.lastLogIndex

/-- **the invariant carried through a step** that started in `s₀`. `lr`/`lc`: the leader part / the caches
are part of it; `R`: what is known about the role. Everything but `pf`, `role`, `res` is claimed while
nothing has failed. -/
structure I (F : Prop) (T : Bool) (lr lc : Bool) (R : Role → Prop) (s₀ s : Node) : Prop where
  pf : PF F s
  role : R s.role
  /-- the rpc result is not `unexpectedErr` (replyRPC would panic); the node id is the one of `s₀` -/
  res : s.result ≠ rUnexpectedErr ∧ s.nid = s₀.nid
  ord : Order.Inv s₀ true s
  glob : s.panicked = none → Glob T s
  ldr : lr = true → s.panicked = none → LdrR s₀ s
  cache : lc = true → s.panicked = none → LC.Cache s

/-- any role -/
abbrev RT : Role → Prop := fun _ => True
/-- follower -/
abbrev RF : Role → Prop := fun r => r = .follower
/-- not leader -/
abbrev RN : Role → Prop := fun r => r ≠ .leader

/-! ## configurations -/

theorem get_congr {c c' : Config} (h : c'.nodes = c.nodes) (id : Nat) : c'.get id = c.get id := by
  unfold Config.get Config.find?; rw [h]

theorem isVoter_congr {c c' : Config} (h : c'.nodes = c.nodes) (id : Nat) : c'.isVoter id = c.isVoter id := by
  unfold Config.isVoter Config.find?; rw [h]

theorem Anchored.congr {c c' : Config} (h : Anchored c) (e : c'.nodes = c.nodes) : Anchored c' := by
  unfold Anchored at *; rw [e]; exact h

theorem Anchored2.congr {c c' : Config} (h : Anchored2 c) (e : c'.nodes = c.nodes) : Anchored2 c' := by
  unfold Anchored2 at *; rw [e]; exact h

theorem AnchoredT.congr {T : Bool} {c c' : Config} (h : AnchoredT T c) (e : c'.nodes = c.nodes) : AnchoredT T c' :=
  ⟨h.1.congr e, fun ht => (h.2 ht).congr e⟩

theorem CfgOk.congr {T : Bool} {nid : Nat} {c c' : Config} (h : CfgOk T nid c) (e : c'.nodes = c.nodes) : CfgOk T nid c' := by
  unfold CfgOk SelfAct at *
  rw [get_congr e, e]
  exact ⟨h.1, fun hne => (h.2 hne).congr e⟩

theorem CfgP.congr {T : Bool} {nid : Nat} {c c' : Config} (h : CfgP T nid c) (e : c'.nodes = c.nodes) : CfgP T nid c' := by
  unfold CfgP at *
  rw [get_congr e]
  exact ⟨h.1.congr e, h.2⟩

theorem Anchored.nonempty {c : Config} (h : Anchored c) : c.nodes ≠ [] := by
  obtain ⟨a, ha, _⟩ := h
  intro e; rw [e] at ha; cases ha

theorem AnchoredT.nonempty {T : Bool} {c : Config} (h : AnchoredT T c) : c.nodes ≠ [] := h.1.nonempty

theorem CfgP.cfgOk {T : Bool} {nid : Nat} {c : Config} (h : CfgP T nid c) : CfgOk T nid c :=
  ⟨⟨h.2.1, fun _ => h.2.2⟩, fun _ => h.1⟩

theorem cfgOk_empty (T : Bool) (nid : Nat) : CfgOk T nid {} :=
  ⟨⟨Nat.zero_le 4, fun h => absurd (show false = true from h) (by decide)⟩, fun h => absurd rfl h⟩

/-- `find?` by id: the first node with that id -/
theorem find_spec {c : Config} {id : Nat} {n : CNode} (h : c.find? id = some n) : n ∈ c.nodes ∧ n.id = id := by
  unfold Config.find? at h
  refine ⟨List.mem_of_find?_eq_some h, ?_⟩
  have := List.find?_some h
  simpa using this

/-- the anchor is what `get` returns for its id -/
theorem anchor_get {c : Config} {a : CNode} (ha : a ∈ c.nodes) (hu : ∀ m ∈ c.nodes, m.id = a.id → m = a) :
    c.get a.id = a := by
  unfold Config.get
  cases hf : c.find? a.id with
  | none =>
    unfold Config.find? at hf
    have := List.find?_eq_none.mp hf a ha
    simp at this
  | some n =>
    obtain ⟨h1, h2⟩ := find_spec hf
    rw [hu n h1 h2]; rfl

theorem nextAction_anchor {a : CNode} (hv : a.voter = true) (ha : a.action = actNone) : a.nextAction = actNone := by
  unfold CNode.nextAction
  rw [ha, hv]
  decide

theorem mem_insertSorted {n x : CNode} {l : List CNode} (h : x ∈ Config.insertSorted n l) : x = n ∨ x ∈ l := by
  induction l with
  | nil => simp [Config.insertSorted] at h; exact Or.inl h
  | cons m ms ih =>
    unfold Config.insertSorted at h
    split at h
    · rcases List.mem_cons.mp h with e | e
      · exact Or.inl e
      · exact Or.inr e
    · split at h
      · rcases List.mem_cons.mp h with e | e
        · exact Or.inl e
        · exact Or.inr (List.mem_cons_of_mem _ e)
      · rcases List.mem_cons.mp h with e | e
        · exact Or.inr (e ▸ List.mem_cons_self)
        · rcases ih e with e' | e'
          · exact Or.inl e'
          · exact Or.inr (List.mem_cons_of_mem _ e')

theorem mem_insertSorted_of_ne {n x : CNode} {l : List CNode} (h : x ∈ l) (hne : x.id ≠ n.id) :
    x ∈ Config.insertSorted n l := by
  induction l with
  | nil => cases h
  | cons m ms ih =>
    unfold Config.insertSorted
    split
    · exact List.mem_cons_of_mem _ h
    · split
      · rename_i h1 h2
        rcases List.mem_cons.mp h with e | e
        · rw [e] at hne; exact absurd h2.symm hne
        · exact List.mem_cons_of_mem _ e
      · rcases List.mem_cons.mp h with e | e
        · rw [e]; exact List.mem_cons_self
        · exact List.mem_cons_of_mem _ (ih e)

/-- `find?` for another id is not affected by `insertSorted` -/
theorem find_insertSorted_ne (n : CNode) (l : List CNode) (id : Nat) (hne : n.id ≠ id) :
    (Config.insertSorted n l).find? (·.id == id) = l.find? (·.id == id) := by
  induction l with
  | nil => simp [Config.insertSorted, hne]
  | cons m ms ih =>
    unfold Config.insertSorted
    split
    · rw [List.find?_cons_of_neg (by simpa using hne)]
    · split
      · rename_i h1 h2
        rw [List.find?_cons_of_neg (by simpa using hne), List.find?_cons_of_neg (by rw [← h2]; simpa using hne)]
      · by_cases hm : m.id = id
        · rw [List.find?_cons_of_pos (by simpa using hm), List.find?_cons_of_pos (by simpa using hm)]
        · rw [List.find?_cons_of_neg (by simpa using hm), List.find?_cons_of_neg (by simpa using hm), ih]

/-- `find?` for the inserted id returns the inserted node -/
theorem find_insertSorted_self (n : CNode) (l : List CNode) :
    (Config.insertSorted n l).find? (·.id == n.id) = some n := by
  induction l with
  | nil => simp [Config.insertSorted]
  | cons m ms ih =>
    unfold Config.insertSorted
    split
    · simp
    · split
      · simp
      · rename_i h1 h2
        rw [List.find?_cons_of_neg (by simpa using fun e => h2 e.symm), ih]

theorem get_set_ne (c : Config) (n : CNode) (id : Nat) (hne : n.id ≠ id) : (c.set n).get id = c.get id := by
  unfold Config.get Config.find? Config.set
  dsimp only
  rw [find_insertSorted_ne n c.nodes id hne]

theorem get_set_self (c : Config) (n : CNode) : (c.set n).get n.id = n := by
  unfold Config.get Config.find? Config.set
  dsimp only
  rw [find_insertSorted_self]; rfl

theorem get_erase_ne (c : Config) (x id : Nat) (hne : x ≠ id) : (c.erase x).get id = c.get id := by
  unfold Config.get Config.find? Config.erase
  dsimp only
  congr 1
  induction c.nodes with
  | nil => rfl
  | cons m ms ih =>
    by_cases hm : m.id = x
    · rw [List.filter_cons_of_neg (by simpa using hm), ih,
        List.find?_cons_of_neg (by rw [hm]; simpa using hne)]
    · rw [List.filter_cons_of_pos (by simpa using hm)]
      by_cases hi : m.id = id
      · rw [List.find?_cons_of_pos (by simpa using hi), List.find?_cons_of_pos (by simpa using hi)]
      · rw [List.find?_cons_of_neg (by simpa using hi), List.find?_cons_of_neg (by simpa using hi), ih]

theorem get_erase_self (c : Config) (x : Nat) : (c.erase x).get x = {} := by
  unfold Config.get Config.find? Config.erase
  dsimp only
  have : (c.nodes.filter (fun n => n.id != x)).find? (fun n => n.id == x) = none := by
    rw [List.find?_eq_none]
    intro n hn
    have := (List.mem_filter.mp hn).2
    simpa using this
  rw [this]; rfl

/-- `a` is an anchor of `c` -/
def IsAnchor (c : Config) (a : CNode) : Prop :=
  a ∈ c.nodes ∧ a.voter = true ∧ a.action = actNone ∧ ∀ m ∈ c.nodes, m.id = a.id → m = a

theorem IsAnchor.ne {c : Config} {a : CNode} (h : IsAnchor c a) {x : Nat}
    (hn : (c.get x).nextAction ≠ actNone ∨ (c.get x).action ≠ actNone) : a.id ≠ x := by
  obtain ⟨ha, hv, hact, hu⟩ := h
  intro e
  rw [← e, anchor_get ha hu] at hn
  rcases hn with hn | hn
  · exact hn (nextAction_anchor hv hact)
  · exact hn hact

/-- replacing the entry of a node that is not an anchor keeps the anchors -/
theorem IsAnchor.set {c : Config} {a : CNode} (h : IsAnchor c a) (n' : CNode)
    (hn : (c.get n'.id).nextAction ≠ actNone ∨ (c.get n'.id).action ≠ actNone) : IsAnchor (c.set n') a := by
  have hne := h.ne hn
  obtain ⟨ha, hv, hact, hu⟩ := h
  refine ⟨mem_insertSorted_of_ne ha hne, hv, hact, ?_⟩
  intro m hm e
  rcases mem_insertSorted hm with e' | e'
  · rw [e'] at e; exact absurd e.symm hne
  · exact hu m e' e

theorem IsAnchor.erase {c : Config} {a : CNode} (h : IsAnchor c a) (x : Nat)
    (hn : (c.get x).nextAction ≠ actNone ∨ (c.get x).action ≠ actNone) : IsAnchor (c.erase x) a := by
  have hne := h.ne hn
  obtain ⟨ha, hv, hact, hu⟩ := h
  refine ⟨?_, hv, hact, ?_⟩
  · unfold Config.erase
    exact List.mem_filter.mpr ⟨ha, by simpa using hne⟩
  · intro m hm e
    unfold Config.erase at hm
    exact hu m (List.mem_filter.mp hm).1 e

theorem anchored_iff (c : Config) : Anchored c ↔ ∃ a, IsAnchor c a :=
  ⟨fun ⟨a, h1, h2, h3, h4⟩ => ⟨a, h1, h2, h3, h4⟩, fun ⟨a, h1, h2, h3, h4⟩ => ⟨a, h1, h2, h3, h4⟩⟩

theorem anchored2_iff (c : Config) : Anchored2 c ↔ ∃ a b, a.id ≠ b.id ∧ IsAnchor c a ∧ IsAnchor c b :=
  ⟨fun ⟨a, h1, b, h2, hne, ⟨x1, x2, x3⟩, ⟨y1, y2, y3⟩⟩ => ⟨a, b, hne, ⟨h1, x1, x2, x3⟩, ⟨h2, y1, y2, y3⟩⟩,
   fun ⟨a, b, hne, ⟨h1, x1, x2, x3⟩, ⟨h2, y1, y2, y3⟩⟩ => ⟨a, h1, b, h2, hne, ⟨x1, x2, x3⟩, ⟨y1, y2, y3⟩⟩⟩

theorem AnchoredT.set {T : Bool} {c : Config} (h : AnchoredT T c) (n' : CNode)
    (hn : (c.get n'.id).nextAction ≠ actNone ∨ (c.get n'.id).action ≠ actNone) : AnchoredT T (c.set n') := by
  refine ⟨?_, fun ht => ?_⟩
  · obtain ⟨a, ha⟩ := (anchored_iff c).mp h.1
    exact (anchored_iff _).mpr ⟨a, ha.set n' hn⟩
  · obtain ⟨a, b, hne, ha, hb⟩ := (anchored2_iff c).mp (h.2 ht)
    exact (anchored2_iff _).mpr ⟨a, b, hne, ha.set n' hn, hb.set n' hn⟩

theorem AnchoredT.erase {T : Bool} {c : Config} (h : AnchoredT T c) (x : Nat)
    (hn : (c.get x).nextAction ≠ actNone ∨ (c.get x).action ≠ actNone) : AnchoredT T (c.erase x) := by
  refine ⟨?_, fun ht => ?_⟩
  · obtain ⟨a, ha⟩ := (anchored_iff c).mp h.1
    exact (anchored_iff _).mpr ⟨a, ha.erase x hn⟩
  · obtain ⟨a, b, hne, ha, hb⟩ := (anchored2_iff c).mp (h.2 ht)
    exact (anchored2_iff _).mpr ⟨a, b, hne, ha.erase x hn, hb.erase x hn⟩

/-- two anchors are two voters -/
theorem numVoters_of_anchored2 {c : Config} (h : Anchored2 c) : 2 ≤ c.numVoters := by
  obtain ⟨a, b, hne, ha, hb⟩ := (anchored2_iff c).mp h
  unfold Config.numVoters
  have ma : a ∈ c.nodes.filter (·.voter) := List.mem_filter.mpr ⟨ha.1, ha.2.1⟩
  have mb : b ∈ c.nodes.filter (·.voter) := List.mem_filter.mpr ⟨hb.1, hb.2.1⟩
  generalize c.nodes.filter (·.voter) = l at ma mb
  match l, ma, mb with
  | [], ma, _ => cases ma
  | [x], ma, mb =>
    rw [List.mem_singleton] at ma mb
    exact absurd (by rw [ma, mb]) hne
  | _ :: _ :: _, _, _ => simp

/-! ## the leader queue -/

theorem QChain.snoc : ∀ (qs : List QItem) (n e : Nat) (q : QItem), QChain n qs e → q.index = e →
    QChain n (qs ++ [q]) (if isLogEntryTyp q.typ then e + 1 else e)
  | [], n, e, q, h, hq => by
    have : n = e := h
    subst this
    exact ⟨hq, rfl⟩
  | x :: xs, n, e, q, h, hq => ⟨h.1, QChain.snoc xs _ e q h.2 hq⟩

theorem splitQueue_chain : ∀ (qs : List QItem) (n e ci : Nat), QChain n qs e → n ≤ ci + 1 → ci + 1 ≤ e →
    QChain n (splitQueue ci qs).1 (ci + 1) ∧ QChain (ci + 1) (splitQueue ci qs).2 e
  | [], n, e, ci, h, h1, h2 => by
    have : n = e := h
    subst this
    have : n = ci + 1 := by omega
    subst this
    exact ⟨rfl, rfl⟩
  | q :: qs, n, e, ci, h, h1, h2 => by
    obtain ⟨hq, hc⟩ := h
    unfold splitQueue
    split
    · rename_i hcond
      have hn' : (if isLogEntryTyp q.typ then n + 1 else n) ≤ ci + 1 := by
        rcases hcond with hc1 | ⟨hc1, hc2⟩
        · split <;> omega
        · have : isLogEntryTyp q.typ = false := by simpa using hc2
          rw [this]; simp; omega
      obtain ⟨a, b⟩ := splitQueue_chain qs _ e ci hc hn' h2
      exact ⟨⟨hq, a⟩, b⟩
    · rename_i hcond
      have hn : n = ci + 1 := by
        by_cases h3 : n ≤ ci
        · exact absurd (Or.inl (by omega)) hcond
        · omega
      subst hn
      exact ⟨rfl, hq, hc⟩

theorem splitQueue_none (qs : List QItem) (n e ci : Nat) (h : QChain n qs e) (hn : ci + 1 < n) :
    splitQueue ci qs = ([], qs) := by
  cases qs with
  | nil => rfl
  | cons q qs =>
    unfold splitQueue
    rw [if_neg]
    have := h.1
    omega

/-! ## the FSM goroutine -/

/-- everything `fsmApply` leaves alone -/
def obsM (s : Node) :=
  (s.log, s.lastLogIndex, s.configs, s.ldr, s.role, s.nid, s.retain, s.snapsDisk, s.snapIndex, s.result,
   s.commitIndex, s.snapResult, s.term, s.leader, s.closed)

theorem fsmFrame_obsM : FsmFrame obsM :=
  ⟨fun s site => by unfold Node.panic; split <;> rfl, fun s t r => by unfold Node.reply; split <;> rfl,
   fun _ _ => rfl⟩

theorem fsmApplyLogTo_ok (s : Node) (upto : Nat) (hp : s.log.prev ≤ s.fsm.index) (hu : upto ≤ s.log.last)
    (hd : LogDec s.log.entries) :
    (s.fsmApplyLogTo upto).panicked = s.panicked ∧ (s.fsmApplyLogTo upto).fsm.index = max s.fsm.index upto := by
  unfold Node.fsmApplyLogTo
  split
  · exact ⟨rfl, by omega⟩
  · rename_i hlt
    rw [if_neg (by omega)]
    have hlen : ((s.log.entries.drop (s.fsm.index - s.log.prev)).take (upto - s.fsm.index)).length = upto - s.fsm.index := by
      rw [List.length_take, List.length_drop]
      unfold NLog.last at hu
      omega
    rw [if_neg (by rw [hlen]; exact fun h => h rfl)]
    have hany : ((s.log.entries.drop (s.fsm.index - s.log.prev)).take (upto - s.fsm.index)).any
        (fun e => e.typ == etConfig && e.config?.isNone) = false := by
      rw [List.any_eq_false]
      intro e he
      have hmem : e ∈ s.log.entries := List.mem_of_mem_drop (List.mem_of_mem_take he)
      by_cases ht : e.typ = etConfig
      · have := hd e hmem ht
        unfold Entry.config?
        rw [if_pos ht]
        cases hc : e.cfg with
        | none => rw [hc] at this; cases this
        | some c => simp
      · simp [ht]
    dsimp only
    rw [hany]
    exact ⟨rfl, by show upto = _; omega⟩

theorem fsmApplyItems_ok : ∀ (items : List QItem) (s : Node) (n m : Nat), QChain n items m → s.fsm.index + 1 = n →
    (s.fsmApplyItems items).panicked = s.panicked ∧ (s.fsmApplyItems items).fsm.index + 1 = m
  | [], s, n, m, h, hn => by
    have : n = m := h
    subst this
    exact ⟨rfl, hn⟩
  | q :: qs, s, n, m, h, hn => by
    obtain ⟨hq, hc⟩ := h
    unfold Node.fsmApplyItems
    extract_lets s1 a2 s2 resp a3 s3 a4 s4
    have e1 : s1 = s := by
      unfold s1
      have : (q.index == s.fsm.index + 1) = true := by simp; omega
      rw [this]; rfl
    have e2 : s2.panicked = s.panicked ∧ s2.fsm.index = s.fsm.index := by
      unfold s2 a2; rw [e1]; split <;> exact ⟨rfl, rfl⟩
    have e3 : s3.panicked = s.panicked ∧ s3.fsm.index = s.fsm.index := by
      unfold s3 a3; split
      · exact e2
      · exact e2
    have e4 : s4.panicked = s.panicked ∧ s4.fsm.index + 1 = (if isLogEntryTyp q.typ then n + 1 else n) := by
      unfold s4 a4; split
      · exact ⟨e3.1, by show q.index + 1 = _; omega⟩
      · exact ⟨e3.1, by rw [e3.2]; exact hn⟩
    have e5 : (s4.reply q.task resp).panicked = s.panicked ∧
        (s4.reply q.task resp).fsm.index + 1 = (if isLogEntryTyp q.typ then n + 1 else n) := by
      obtain ⟨_, _, _, _, f5, f6, _⟩ := reply_fields s4 q.task resp
      rw [f6, f5]; exact e4
    obtain ⟨a, b⟩ := fsmApplyItems_ok qs _ _ m hc e5.2
    exact ⟨a.trans e5.1, b⟩

/-- the first index handed to the FSM with the queue items -/
def front (ci : Nat) : List QItem → Nat
  | [] => ci + 1
  | q :: _ => q.index

/-- **`fsmApply` completes** (no `ViewAt` failure, nil view, `Get` below the log start, undecodable
configuration, out-of-order item) and leaves `fsm.index = commitIndex`: when the items form the part of
the queue from some index `n` beyond the applied one up to the commit index. -/
theorem fsmApply_chain (s : Node) (items : List QItem) (n : Nat) (hc : QChain n items (s.commitIndex + 1))
    (hn : s.fsm.index < n) (hp : s.log.prev ≤ s.fsm.index) (hl : s.commitIndex ≤ s.log.last)
    (hd : LogDec s.log.entries) :
    (s.fsmApply items).panicked = s.panicked ∧ (s.fsmApply items).fsm.index = s.commitIndex ∧
    obsM (s.fsmApply items) = obsM s := by
  refine ⟨?_, ?_, fsmFrame_obsM.fsmApply_eq s items⟩
  all_goals
    have hfront : front s.commitIndex items = n := by
      cases items with
      | nil => exact (show n = s.commitIndex + 1 from hc).symm
      | cons q qs => exact hc.1
    have hnle : n ≤ s.commitIndex + 1 := by
      clear hfront
      induction items generalizing n with
      | nil => exact Nat.le_of_eq hc
      | cons q qs ih =>
        have := ih _ hc.2 (by split <;> omega)
        split at this <;> omega
    have hfi : s.fsm.index ≤ s.commitIndex := by omega
    rw [Order.fsmApply_unfold, if_neg (by omega), if_neg (by omega)]
    have hmid : Order.fsmMid s items = (s.fsmApplyLogTo (n - 1)).fsmApplyItems items := by
      rw [← hfront]; cases items <;> rfl
    rw [hmid]
    obtain ⟨a1, a2⟩ := fsmApplyLogTo_ok s (n - 1) hp (by omega) hd
    obtain ⟨b1, b2⟩ := fsmApplyItems_ok items (s.fsmApplyLogTo (n - 1)) n (s.commitIndex + 1) hc (by rw [a2]; omega)
    have hci : ((s.fsmApplyLogTo (n - 1)).fsmApplyItems items).commitIndex = s.commitIndex := by
      rw [fsmFrame_commitIndex.fsmApplyItems_eq, fsmFrame_commitIndex.fsmApplyLogTo_eq]
    have hb : (((s.fsmApplyLogTo (n - 1)).fsmApplyItems items).fsm.index ==
        ((s.fsmApplyLogTo (n - 1)).fsmApplyItems items).commitIndex) = true := by
      rw [hci]; simp; omega
    rw [hb]
  · show ((s.fsmApplyLogTo (n - 1)).fsmApplyItems items).panicked = _
    rw [b1, a1]
  · show ((s.fsmApplyLogTo (n - 1)).fsmApplyItems items).fsm.index = _
    omega

/-! # part Prim -/
/-! ## congruences -/

theorem Glob.congr {s s' : Node} (g : Glob T s) (e1 : s'.log.entries = s.log.entries) (e2 : s'.retain = s.retain)
    (e3 : s'.snapsDisk = s.snapsDisk) (e4 : s'.snapIndex = s.snapIndex) (e5 : s'.role = s.role)
    (e6 : s'.nid = s.nid) (e7 : s'.configs = s.configs) : Glob T s' :=
  ⟨by rw [e1]; exact g.logDec, by rw [e2]; exact g.retain, by rw [e3, e4]; exact g.snaps,
   by rw [e5, e6, e7]; exact g.cand, by rw [e6, e7]; exact g.cfgL, by rw [e6, e7]; exact g.cfgC⟩

theorem LdrR.congr {s₀ s s' : Node} (l : LdrR s₀ s) (e1 : s'.log.prev = s.log.prev) (e2 : s'.ldr = s.ldr)
    (e3 : s'.fsm.index = s.fsm.index) (e4 : s'.lastLogIndex = s.lastLogIndex) (e5 : s'.nid = s.nid)
    (e6 : s'.role = s.role) (e7 : s'.configs = s.configs) : LdrR s₀ s' :=
  ⟨by rw [e1, e2]; exact l.prevLe, by rw [e2, e3, e4]; exact l.queue, by rw [e2, e4]; exact l.matchLe,
   by rw [e2, e5]; exact l.target, by rw [e6]; exact l.notCand, by rw [e5, e7]; exact l.selfNP,
   by rw [e5, e6, e7]; exact l.lv, by rw [e7]; exact l.nonempty, by rw [e4]; exact l.lastMono⟩

theorem LdrR.rebase {s₀ s : Node} (l : LdrR s₀ s) : LdrR s s :=
  ⟨l.prevLe, l.queue, l.matchLe, l.target, l.notCand, l.selfNP, l.lv, l.nonempty, Nat.le_refl _⟩

theorem cache_congr {s s' : Node} (c : LC.Cache s) (e1 : s'.nid = s.nid) (e2 : s'.configs = s.configs)
    (e3 : s'.ldr = s.ldr) : LC.Cache s' := by
  apply c.congr
  unfold LC.view
  rw [e1, e2, e3]

/-- the fields the invariant reads -/
def obsN (s : Node) :=
  (s.log, s.lastLogIndex, s.fsm.index, s.configs, s.ldr, s.role, s.nid, s.retain, s.snapsDisk, s.snapIndex,
   s.result, s.panicked, s.commitIndex, s.snapResult)

theorem obsN_eq {s s' : Node} (h : obsN s' = obsN s) :
    s'.log = s.log ∧ s'.lastLogIndex = s.lastLogIndex ∧ s'.fsm.index = s.fsm.index ∧ s'.configs = s.configs ∧
    s'.ldr = s.ldr ∧ s'.role = s.role ∧ s'.nid = s.nid ∧ s'.retain = s.retain ∧ s'.snapsDisk = s.snapsDisk ∧
    s'.snapIndex = s.snapIndex ∧ s'.result = s.result ∧ s'.panicked = s.panicked ∧
    s'.commitIndex = s.commitIndex ∧ s'.snapResult = s.snapResult := by
  simp only [obsN, Prod.mk.injEq] at h
  exact h

/-- a primitive that touches nothing the invariant reads -/
theorem I.of_same {s s' : Node} (h : I F T lr lc R s₀ s) (e : obsN s' = obsN s) : I F T lr lc R s₀ s' := by
  obtain ⟨e1, e2, e3, e4, e5, e6, e7, e8, e9, e10, e11, e12, e13, e14⟩ := obsN_eq e
  have hirr : Order.Irr s s' :=
    ⟨by unfold Order.obs; rw [e1, e2, e3, e4, e5, e10, e13, e14], fun hp => by rw [← e12]; exact hp⟩
  refine ⟨?_, by rw [e6]; exact h.role, by rw [e11, e7]; exact h.res, hirr.inv h.ord, ?_, ?_, ?_⟩
  · unfold PF; rw [e12]; exact h.pf
  · intro hp
    exact (h.glob (by rw [← e12]; exact hp)).congr (by rw [e1]) e8 e9 e10 e6 e7 e4
  · intro hl hp
    exact (h.ldr hl (by rw [← e12]; exact hp)).congr (by rw [e1]) e5 e3 e2 e7 e6 e4
  · intro hl hp
    exact cache_congr (h.cache hl (by rw [← e12]; exact hp)) e7 e4 e5

theorem I.mono {R' : Role → Prop} (h : I F T lr lc R s₀ s) (hR : ∀ r, R r → R' r) : I F T lr lc R' s₀ s :=
  ⟨h.pf, hR _ h.role, h.res, h.ord, h.glob, h.ldr, h.cache⟩

/-- forget the leader part / the caches -/
theorem I.weaken {lr' lc' : Bool} (h : I F T lr lc R s₀ s) (h1 : lr' = true → lr = true) (h2 : lc' = true → lc = true) :
    I F T lr' lc' R s₀ s :=
  ⟨h.pf, h.role, h.res, h.ord, h.glob, fun a => h.ldr (h1 a), fun a => h.cache (h2 a)⟩

theorem I.nidEq (h : I F T lr lc R s₀ s) : s.nid = s₀.nid := h.res.2

theorem I.drop (h : I F T lr lc R s₀ s) : I F T false false R s₀ s :=
  h.weaken (fun e => Bool.noConfusion e) (fun e => Bool.noConfusion e)

theorem I.dropC (h : I F T lr lc R s₀ s) : I F T lr false R s₀ s :=
  h.weaken id (fun e => Bool.noConfusion e)

/-- the orderings, while nothing failed -/
theorem I.core (h : I F T lr lc R s₀ s) (hp : s.panicked = none) : Order.CoreW s ∧ s.commitIndex ≤ s.lastLogIndex := by
  obtain ⟨c, hcl, _, _⟩ := h.ord hp
  exact ⟨c, hcl rfl⟩

/-! ## failures -/

theorem panic_of_some (site : String) (h : s.panicked ≠ none) : s.panic site = s := by
  unfold Node.panic
  rw [if_neg (by simpa [Option.isNone_iff_eq_none] using h)]

theorem panic_of_none (site : String) (h : s.panicked = none) : (s.panic site).panicked = some site := by
  unfold Node.panic
  rw [if_pos (by simp [h])]

theorem panic_result (site : String) : (s.panic site).result = s.result := by
  unfold Node.panic; split <;> rfl

/-- a failure site that cannot be reached while nothing has failed -/
theorem i_unreach (site : String) (h : I F T lr lc R s₀ s) (hg : s.panicked = none → False) :
    I F T lr lc R s₀ (s.panic site) := by
  rw [panic_of_some site (fun e => hg e)]; exact h

/-- the model's recursion budget ran out -/
theorem i_fuel (hF : F) (h : I F T lr lc R s₀ s) : I F T lr lc R s₀ (s.panic "fuel") := by
  by_cases hp : s.panicked = none
  · have hne := panic_panicked_ne s "fuel"
    exact ⟨Or.inr ⟨hF, panic_of_none _ hp⟩, by rw [LC.role_panic]; exact h.role, by rw [panic_result, (LC.panic_frame s _).1]; exact h.res,
      Order.inv_panic _ _, fun e => absurd e hne, fun _ e => absurd e hne, fun _ e => absurd e hne⟩
  · rw [panic_of_some _ hp]; exact h

theorem assert_eq_self {b : Bool} (site : String) (hg : s.panicked = none → b = true) : s.assert b site = s := by
  unfold Node.assert
  split
  · rfl
  · by_cases hp : s.panicked = none
    · rename_i hb; exact absurd (hg hp) hb
    · exact panic_of_some _ hp

theorem i_assert {b : Bool} (site : String) (h : I F T lr lc R s₀ s) (hg : s.panicked = none → b = true) :
    I F T lr lc R s₀ (s.assert b site) := by
  rw [assert_eq_self site hg]; exact h

/-! ## primitives that touch nothing -/

theorem i_reply (t : Nat) (r : String) (h : I F T lr lc R s₀ s) : I F T lr lc R s₀ (s.reply t r) :=
  h.of_same (by unfold Node.reply; split <;> rfl)
theorem i_point (n : String) (h : I F T lr lc R s₀ s) : I F T lr lc R s₀ (s.point n) := h.of_same rfl
theorem i_popOrder (h : I F T lr lc R s₀ s) : I F T lr lc R s₀ s.popOrder := h.of_same rfl
theorem i_rpcReply (r) (h : I F T lr lc R s₀ s) : I F T lr lc R s₀ (s.withRpcReply r) := h.of_same rfl
theorem i_setLeader (l : Nat) (h : I F T lr lc R s₀ s) : I F T lr lc R s₀ (s.setLeader l) := h.of_same rfl
theorem i_votesNeeded (v : Int) (h : I F T lr lc R s₀ s) : I F T lr lc R s₀ (s.withVotesNeeded v) := h.of_same rfl
theorem i_candTransfer (v : Bool) (h : I F T lr lc R s₀ s) : I F T lr lc R s₀ (s.withCandTransfer v) := h.of_same rfl
theorem i_snapPending (v) (h : I F T lr lc R s₀ s) : I F T lr lc R s₀ (s.withSnapPending v) := h.of_same rfl
theorem i_doClose (r : String) (h : I F T lr lc R s₀ s) : I F T lr lc R s₀ (s.doClose r) :=
  h.of_same (by unfold Node.doClose; split <;> rfl)
theorem i_storeTermVote (t c : Nat) (h : I F T lr lc R s₀ s) : I F T lr lc R s₀ (s.storeTermVote t c) :=
  h.of_same (by unfold Node.storeTermVote Node.point; dsimp only; split <;> rfl)

theorem i_foldl {β : Type} (f : Node → β → Node) (hf : ∀ s x, I F T lr lc R s₀ s → I F T lr lc R s₀ (f s x))
    (xs : List β) (s : Node) (hs : I F T lr lc R s₀ s) : I F T lr lc R s₀ (xs.foldl f s) := by
  induction xs generalizing s with
  | nil => exact hs
  | cons x xs ih => exact ih _ (hf _ _ hs)

/-- `storage.setTerm`: the assertion `term ≥ current term` -/
theorem i_setTerm (t : Nat) (h : I F T lr lc R s₀ s) (hg : s.panicked = none → s.term ≤ t) : I F T lr lc R s₀ (s.setTerm t) := by
  unfold Node.setTerm
  split
  · split
    · exact i_storeTermVote _ _ h
    · exact i_unreach _ h (fun hp => by have := hg hp; omega)
  · exact h

/-- `storage.setVotedFor`: the assertion `term ≥ current term` -/
theorem i_setVotedFor (t c : Nat) (h : I F T lr lc R s₀ s) (hg : s.panicked = none → s.term ≤ t) :
    I F T lr lc R s₀ (s.setVotedFor t c) := by
  unfold Node.setVotedFor
  split
  · split
    · exact i_storeTermVote _ _ h
    · exact i_unreach _ h (fun hp => by have := hg hp; omega)
  · exact h

theorem i_ret (r : Nat) (h : I F T lr lc R s₀ s) (hr : r ≠ rUnexpectedErr) : I F T lr lc R s₀ (s.ret r) :=
  ⟨h.pf, h.role, ⟨hr, h.res.2⟩, Order.inv_ret _ h.ord, fun hp => (h.glob hp).congr rfl rfl rfl rfl rfl rfl rfl,
   fun hl hp => (h.ldr hl hp).congr rfl rfl rfl rfl rfl rfl rfl,
   fun hl hp => cache_congr (h.cache hl hp) rfl rfl rfl⟩

/-! ## the role -/

/-- step down -/
theorem i_toFollower (h : I F T lr lc R s₀ s) : I F T lr lc RF s₀ (s.setRole .follower) :=
  ⟨h.pf, rfl, h.res, Order.inv_setRole _ h.ord,
   fun hp => let g := h.glob hp
     ⟨g.logDec, g.retain, g.snaps, (fun e => by cases e), g.cfgL, g.cfgC⟩,
   fun hl hp => let l := h.ldr hl hp
     ⟨l.prevLe, l.queue, l.matchLe, l.target, (fun e => by cases e), l.selfNP, (fun e => by cases e), l.nonempty, l.lastMono⟩,
   fun hl hp => h.cache hl hp⟩

/-- a node that has checked that it is a voter asks for an election -/
theorem i_toCandidate (h : I F T lr lc R s₀ s) (hv : s.panicked = none → s.configs.latest.isVoter s.nid = true) :
    I F T false false (fun r => r = .candidate) s₀ (s.setRole .candidate) :=
  ⟨h.pf, rfl, h.res, Order.inv_setRole _ h.ord,
   fun hp => let g := h.glob hp
     ⟨g.logDec, g.retain, g.snaps, fun _ => hv hp, g.cfgL, g.cfgC⟩,
   fun hl _ => Bool.noConfusion hl, fun hl _ => Bool.noConfusion hl⟩

/-- a candidate has won -/
theorem i_toLeader (h : I F T lr lc R s₀ s) :
    I F T false false (fun r => r = .leader) s₀ ((s.setRole .leader).setLeader s.nid) :=
  ⟨h.pf, rfl, h.res, Order.inv_setLeader _ (Order.inv_setRole _ h.ord),
   fun hp => let g := h.glob hp
     ⟨g.logDec, g.retain, g.snaps, (fun e => by cases e), g.cfgL, g.cfgC⟩,
   fun hl _ => Bool.noConfusion hl, fun hl _ => Bool.noConfusion hl⟩

/-! ## the leader record -/

/-- replacing the leader record: the orderings and the global part survive when the compaction bound stays at
or below the snapshot index; the leader part and the caches must be supplied -/
theorem i_withLdr {lr' lc' : Bool} (l : Leader) (h : I F T lr lc R s₀ s)
    (hrm : s.panicked = none → l.removeLTE ≤ s.snapIndex)
    (hL : lr' = true → s.panicked = none → LdrR s₀ (s.withLdr l))
    (hC : lc' = true → s.panicked = none → LC.Cache (s.withLdr l)) : I F T lr' lc' R s₀ (s.withLdr l) :=
  ⟨h.pf, h.role, h.res, Order.inv_ldr h.ord hrm, fun hp => (h.glob hp).congr rfl rfl rfl rfl rfl rfl rfl, hL, hC⟩

/-- a leader record that differs in `queue`/`transfer`/`waitStable`/`startIndex` only, the queue still a chain and
the transfer target still not self -/
theorem i_ldrMisc (l : Leader) (h : I F T lr lc R s₀ s) (e1 : l.node = s.ldr.node) (e2 : l.numVoters = s.ldr.numVoters)
    (e3 : l.repls = s.ldr.repls) (e4 : l.removeLTE = s.ldr.removeLTE)
    (hq : lr = true → s.panicked = none → ∃ n, s.fsm.index < n ∧ QChain n l.queue (s.lastLogIndex + 1))
    (ht : lr = true → s.panicked = none → l.transfer.target ≠ 0 → l.transfer.target ≠ s.nid) :
    I F T lr lc R s₀ (s.withLdr l) := by
  refine i_withLdr l h (fun hp => by rw [e4]; exact (h.core hp).1.removeLTE_le) (fun hl hp => ?_) (fun hl hp => ?_)
  · have L := h.ldr hl hp
    exact ⟨by show s.log.prev ≤ l.removeLTE; rw [e4]; exact L.prevLe, hq hl hp,
      by show ∀ r ∈ l.repls, _; rw [e3]; exact L.matchLe, ht hl hp, L.notCand, L.selfNP, L.lv, L.nonempty, L.lastMono⟩
  · exact LC.cldr l (h.cache hl hp) e1 e2 (by rw [e3])

theorem mem_insertRepl_sub {r x : Repl} {l : List Repl} (h : x ∈ insertRepl r l) : x = r ∨ x ∈ l := by
  induction l with
  | nil => simp [insertRepl] at h; exact Or.inl h
  | cons m ms ih =>
    unfold insertRepl at h
    split at h
    · rcases List.mem_cons.mp h with e | e
      · exact Or.inl e
      · exact Or.inr e
    · split at h
      · rcases List.mem_cons.mp h with e | e
        · exact Or.inl e
        · exact Or.inr (List.mem_cons_of_mem _ e)
      · rcases List.mem_cons.mp h with e | e
        · exact Or.inr (e ▸ List.mem_cons_self)
        · rcases ih e with e' | e'
          · exact Or.inl e'
          · exact Or.inr (List.mem_cons_of_mem _ e')

/-- updating a replication that exists, keeping id and cached node, its match index within the log -/
theorem i_setRepl (r st : Repl) (id : Nat) (h : I F T lr lc R s₀ s) (hf : s.findRepl? id = some st)
    (hk : LC.key r = LC.key st) (hm : lr = true → s.panicked = none → r.matchIndex ≤ s.lastLogIndex) :
    I F T lr lc R s₀ (s.setRepl r) := by
  unfold Node.setRepl
  refine i_withLdr _ h (fun hp => (h.core hp).1.removeLTE_le) (fun hl hp => ?_) (fun hl hp => ?_)
  · have L := h.ldr hl hp
    refine ⟨L.prevLe, L.queue, ?_, L.target, L.notCand, L.selfNP, L.lv, L.nonempty, L.lastMono⟩
    intro x hx
    rcases mem_insertRepl_sub hx with e | e
    · rw [e]; exact hm hl hp
    · exact L.matchLe x e
  · exact LC.csetRepl r st id (h.cache hl hp) hf hk

/-- … keeping the match index -/
theorem i_setRepl_same (r st : Repl) (id : Nat) (h : I F T lr lc R s₀ s) (hf : s.findRepl? id = some st)
    (hk : LC.key r = LC.key st) (hm : r.matchIndex = st.matchIndex) : I F T lr lc R s₀ (s.setRepl r) :=
  i_setRepl r st id h hf hk (fun hl hp => by
    rw [hm]; exact (h.ldr hl hp).matchLe st (LC.find_mem (by unfold Node.findRepl? at hf; exact hf)).1)

/-- the view `ViewAt(removeLTE, lastLogIndex)` exists -/
theorem viewOk_of (h : I F T lr lc R s₀ s) (hp : s.panicked = none) (hv : s.log.prev ≤ s.ldr.removeLTE) :
    s.log.viewOk s.ldr.removeLTE s.lastLogIndex = true := by
  obtain ⟨c, hcl⟩ := h.core hp
  have := c.removeLTE_le; have := c.snap_le_applied; have := c.applied_le_commit
  unfold NLog.viewOk
  simp only [Bool.not_eq_true', Bool.or_eq_false_iff, decide_eq_false_iff_not]
  omega

/-- `leader.notifyFlr` -/
theorem i_notifyFlr (h : I F T lr lc R s₀ s)
    (hv : s.panicked = none → s.ldr.repls.isEmpty = true ∨ s.log.prev ≤ s.ldr.removeLTE) :
    I F T lr lc R s₀ s.notifyFlr := by
  unfold Node.notifyFlr
  split
  · exact h
  · split
    · exact h
    · rename_i hne hvw
      refine i_unreach _ h (fun hp => ?_)
      rcases hv hp with e | e
      · exact hne e
      · exact hvw (viewOk_of h hp e)

theorem i_notifyFlrL (h : I F T true lc R s₀ s) : I F T true lc R s₀ s.notifyFlr :=
  i_notifyFlr h (fun hp => Or.inr (h.ldr rfl hp).prevLe)

/-- `leader.addReplication` for another node -/
theorem i_addReplication (n : CNode) (h : I F T true lc R s₀ s) (hn : n.id ≠ s.nid) :
    I F T true false R s₀ (s.addReplication n) := by
  unfold Node.addReplication
  extract_lets s1 s2
  have e1 : s1 = s := assert_eq_self _ (fun _ => by simpa using hn)
  have h2 : I F T true false R s₀ s2 := by
    unfold s2
    rw [e1]
    split
    · exact h.dropC
    · rename_i hvw
      exact i_unreach _ h.dropC (fun hp => hvw (viewOk_of h hp (h.ldr rfl hp).prevLe))
  unfold Node.setRepl
  refine i_withLdr _ h2 (fun hp => (h2.core hp).1.removeLTE_le) (fun _ hp => ?_) (fun hl _ => Bool.noConfusion hl)
  have L := h2.ldr rfl hp
  refine ⟨L.prevLe, L.queue, ?_, L.target, L.notCand, L.selfNP, L.lv, L.nonempty, L.lastMono⟩
  intro x hx
  rcases mem_insertRepl_sub hx with e | e
  · rw [e]; exact Nat.zero_le _
  · exact L.matchLe x e

/-- `leader.beginFinishedRounds` -/
theorem i_beginFinishedRounds (h : I F T lr lc R s₀ s) : I F T lr lc R s₀ s.beginFinishedRounds := by
  unfold Node.beginFinishedRounds
  refine i_withLdr _ h (fun hp => (h.core hp).1.removeLTE_le) (fun hl hp => ?_) (fun hl hp => ?_)
  · have L := h.ldr hl hp
    refine ⟨L.prevLe, L.queue, ?_, L.target, L.notCand, L.selfNP, L.lv, L.nonempty, L.lastMono⟩
    intro x hx
    obtain ⟨r, hr, rfl⟩ := List.mem_map.mp hx
    have := L.matchLe r hr
    dsimp only
    repeat' split
    all_goals exact this
  · exact LC.cbegin (h.cache hl hp)

/-! ## the log -/

theorem entries_append (l : NLog) (e : Entry) (roll : Bool) : (l.append e roll).entries = l.entries ++ [e] := by
  unfold NLog.append; split <;> rfl

theorem logDec_append {es : List Entry} {e : Entry} (h : LogDec es) (he : e.typ = etConfig → e.cfg.isSome = true) :
    LogDec (es ++ [e]) := by
  intro x hx ht
  rcases List.mem_append.mp hx with h1 | h1
  · exact h x h1 ht
  · rw [List.mem_singleton.mp h1] at ht ⊢; exact he ht

/-- `storage.appendEntry`: the entry is the next one and decodes; for a leader the queue already holds it -/
theorem i_appendEntry (e : Entry) (h : I F T lr lc R s₀ s) (hidx : s.panicked = none → e.index = s.lastLogIndex + 1)
    (hdec : e.typ = etConfig → e.cfg.isSome = true)
    (hq : lr = true → s.panicked = none → ∃ n, s.fsm.index < n ∧ QChain n s.ldr.queue (e.index + 1)) :
    I F T lr lc R s₀ (s.appendEntry e) := by
  have hord := Order.inv_appendEntry e h.ord
  have hcache : ∀ hl : lc = true, (s.appendEntry e).panicked = none → LC.Cache (s.appendEntry e) := by
    intro hl hp
    have hp' : s.panicked = none := (Order.appendEntry_ok hp).2
    exact LC.cappend e (h.cache hl hp')
  unfold Node.appendEntry at hord hcache ⊢
  dsimp only at hord hcache ⊢
  rw [assert_eq_self _ (fun hp => by simpa using hidx hp)] at hord hcache ⊢
  refine ⟨h.pf, h.role, h.res, hord, fun hp => ?_, fun hl hp => ?_, hcache⟩
  · have g := h.glob hp
    refine ⟨?_, g.retain, g.snaps, g.cand, g.cfgL, g.cfgC⟩
    show LogDec (s.log.append e _).entries
    rw [entries_append]; exact logDec_append g.logDec hdec
  · have L := h.ldr hl hp
    have hi := hidx hp
    refine ⟨?_, hq hl hp, ?_, L.target, L.notCand, L.selfNP, L.lv, L.nonempty, ?_⟩
    · show (s.log.append e _).prev ≤ _
      rw [Order.prev_append]; exact L.prevLe
    · intro r hr
      have := L.matchLe r hr
      show r.matchIndex ≤ e.index
      omega
    · have := L.lastMono
      show s₀.lastLogIndex ≤ e.index
      omega

/-- `storage.commitLog` -/
theorem i_commitLog (n : Nat) (h : I F T lr lc R s₀ s) : I F T lr lc R s₀ (s.commitLog n) := by
  obtain ⟨e1, e2, _⟩ := Order.commitN_same s.log n
  exact ⟨h.pf, h.role, h.res, Order.inv_commitLog n h.ord,
    fun hp => (h.glob hp).congr e2 rfl rfl rfl rfl rfl rfl,
    fun hl hp => (h.ldr hl hp).congr e1 rfl rfl rfl rfl rfl rfl,
    fun hl hp => cache_congr (h.cache hl hp) rfl rfl rfl⟩

/-! # part Prim2 -/
/-! ## `Raft.setCommitIndex` -/

theorem afterConfigCommit_spec (x : Node) :
    x.afterConfigCommit.log = x.log ∧ x.afterConfigCommit.lastLogIndex = x.lastLogIndex ∧
    x.afterConfigCommit.fsm = x.fsm ∧ x.afterConfigCommit.ldr = x.ldr ∧ x.afterConfigCommit.nid = x.nid ∧
    x.afterConfigCommit.retain = x.retain ∧ x.afterConfigCommit.snapsDisk = x.snapsDisk ∧
    x.afterConfigCommit.snapIndex = x.snapIndex ∧ x.afterConfigCommit.result = x.result ∧
    x.afterConfigCommit.panicked = x.panicked ∧ x.afterConfigCommit.configs = x.configs ∧
    (x.afterConfigCommit.role = x.role ∨ x.afterConfigCommit.role = .follower) ∧
    (x.afterConfigCommit.role = .leader → x.configs.latest.isVoter x.nid = true) := by
  have hd : ∀ (y : Node) (r : String), (y.doClose r).log = y.log ∧ (y.doClose r).lastLogIndex = y.lastLogIndex ∧
      (y.doClose r).fsm = y.fsm ∧ (y.doClose r).ldr = y.ldr ∧ (y.doClose r).nid = y.nid ∧
      (y.doClose r).retain = y.retain ∧ (y.doClose r).snapsDisk = y.snapsDisk ∧
      (y.doClose r).snapIndex = y.snapIndex ∧ (y.doClose r).result = y.result ∧
      (y.doClose r).panicked = y.panicked ∧ (y.doClose r).configs = y.configs ∧ (y.doClose r).role = y.role := by
    intro y r; unfold Node.doClose; split <;> exact ⟨rfl, rfl, rfl, rfl, rfl, rfl, rfl, rfl, rfl, rfl, rfl, rfl⟩
  have hc : ∀ y : Node, y.closeIfRemoved.log = y.log ∧ y.closeIfRemoved.lastLogIndex = y.lastLogIndex ∧
      y.closeIfRemoved.fsm = y.fsm ∧ y.closeIfRemoved.ldr = y.ldr ∧ y.closeIfRemoved.nid = y.nid ∧
      y.closeIfRemoved.retain = y.retain ∧ y.closeIfRemoved.snapsDisk = y.snapsDisk ∧
      y.closeIfRemoved.snapIndex = y.snapIndex ∧ y.closeIfRemoved.result = y.result ∧
      y.closeIfRemoved.panicked = y.panicked ∧ y.closeIfRemoved.configs = y.configs ∧ y.closeIfRemoved.role = y.role := by
    intro y; unfold Node.closeIfRemoved; split
    · exact hd _ _
    · exact ⟨rfl, rfl, rfl, rfl, rfl, rfl, rfl, rfl, rfl, rfl, rfl, rfl⟩
  unfold Node.afterConfigCommit
  obtain ⟨c1, c2, c3, c4, c5, c6, c7, c8, c9, c10, c11, c12⟩ := hc x.stepDownIfNotVoter
  rw [c1, c2, c3, c4, c5, c6, c7, c8, c9, c10, c11, c12]
  unfold Node.stepDownIfNotVoter
  split
  · exact ⟨rfl, rfl, rfl, rfl, rfl, rfl, rfl, rfl, rfl, rfl, rfl, Or.inr rfl, fun e => by cases e⟩
  · rename_i hcond
    refine ⟨rfl, rfl, rfl, rfl, rfl, rfl, rfl, rfl, rfl, rfl, rfl, Or.inl rfl, fun hl => ?_⟩
    cases hv : x.configs.latest.isVoter x.nid with
    | true => rfl
    | false => exact absurd ⟨hl, by rw [hv]; rfl⟩ hcond

theorem setCommitIndexR_spec (s : Node) (i : Nat) :
    (s.setCommitIndexR i).1.log = s.log ∧ (s.setCommitIndexR i).1.lastLogIndex = s.lastLogIndex ∧
    (s.setCommitIndexR i).1.fsm = s.fsm ∧ (s.setCommitIndexR i).1.ldr = s.ldr ∧
    (s.setCommitIndexR i).1.nid = s.nid ∧ (s.setCommitIndexR i).1.retain = s.retain ∧
    (s.setCommitIndexR i).1.snapsDisk = s.snapsDisk ∧ (s.setCommitIndexR i).1.snapIndex = s.snapIndex ∧
    (s.setCommitIndexR i).1.result = s.result ∧ (s.setCommitIndexR i).1.panicked = s.panicked ∧
    (s.setCommitIndexR i).1.configs.latest = s.configs.latest ∧
    ((s.setCommitIndexR i).1.configs.committed = s.configs.committed ∨
      (s.setCommitIndexR i).1.configs.committed = s.configs.latest) ∧
    ((s.setCommitIndexR i).1.role = s.role ∨ (s.setCommitIndexR i).1.role = .follower) ∧
    (((s.setCommitIndexR i).1.configs = s.configs ∧ (s.setCommitIndexR i).1.role = s.role) ∨
      ((s.setCommitIndexR i).1.role = .leader → s.configs.latest.isVoter s.nid = true)) := by
  unfold Node.setCommitIndexR
  split
  · show ((s.withCommitIndex i).commitConfig.afterConfigCommit).log = _ ∧ _
    obtain ⟨a1, a2, a3, a4, a5, a6, a7, a8, a9, a10, a11, a12, a13⟩ :=
      afterConfigCommit_spec (s.withCommitIndex i).commitConfig
    rw [a1, a2, a3, a4, a5, a6, a7, a8, a9, a10, a11]
    rw [commitConfig_eq] at a12 a13 ⊢
    exact ⟨rfl, rfl, rfl, rfl, rfl, rfl, rfl, rfl, rfl, rfl, rfl, Or.inr rfl, a12, Or.inr a13⟩
  · exact ⟨rfl, rfl, rfl, rfl, rfl, rfl, rfl, rfl, rfl, rfl, rfl, Or.inl rfl, Or.inl rfl, Or.inl ⟨rfl, rfl⟩⟩

/-- `Raft.setCommitIndex` to an index between the applied one and the end of the log -/
theorem i_setCommitIndexR (i : Nat) (h : I F T lr lc R s₀ s) (hRf : R .follower)
    (hg : s.panicked = none → s.fsm.index ≤ i ∧ i ≤ s.lastLogIndex) : I F T lr lc R s₀ (s.setCommitIndexR i).1 := by
  obtain ⟨e1, e2, e3, e4, e5, e6, e7, e8, e9, e10, e11, e12, e13, e14⟩ := setCommitIndexR_spec s i
  refine ⟨by unfold PF; rw [e10]; exact h.pf, ?_, by rw [e9, e5]; exact h.res,
    Order.inv_setCommitIndexR (b' := true) i h.ord (fun hp => ⟨(hg hp).1, fun _ => (hg hp).2⟩),
    fun hp => ?_, fun hl hp => ?_, fun hl hp => ?_⟩
  · rcases e13 with e | e <;> rw [e]
    · exact h.role
    · exact hRf
  · have g := h.glob (by rw [← e10]; exact hp)
    refine ⟨by rw [e1]; exact g.logDec, by rw [e6]; exact g.retain, by rw [e7, e8]; exact g.snaps, ?_,
      by rw [e5, e11]; exact g.cfgL, ?_⟩
    · intro hc
      rw [e5, e11]
      apply g.cand
      rcases e13 with e | e
      · rw [← e]; exact hc
      · rw [e] at hc; cases hc
    · rw [e5]
      rcases e12 with e | e <;> rw [e]
      · exact g.cfgC
      · exact g.cfgL
  · have L := h.ldr hl (by rw [← e10]; exact hp)
    refine ⟨by rw [e1, e4]; exact L.prevLe, by rw [e3, e4, e2]; exact L.queue, by rw [e4, e2]; exact L.matchLe,
      by rw [e4, e5]; exact L.target, ?_, by rw [e11, e5]; exact L.selfNP, ?_, by rw [e11]; exact L.nonempty,
      by rw [e2]; exact L.lastMono⟩
    · rcases e13 with e | e <;> rw [e]
      · exact L.notCand
      · exact fun x => by cases x
    · intro hrl hcm
      rw [e11, e5]
      rcases e14 with ⟨a, b⟩ | a
      · rw [a] at hcm; rw [b] at hrl; exact L.lv hrl hcm
      · exact a hrl
  · exact LC.ccommitR i (h.cache hl (by rw [← e10]; exact hp))

/-! ## the FSM goroutine -/

theorem obsM_eq {s s' : Node} (h : obsM s' = obsM s) :
    s'.log = s.log ∧ s'.lastLogIndex = s.lastLogIndex ∧ s'.configs = s.configs ∧ s'.ldr = s.ldr ∧
    s'.role = s.role ∧ s'.nid = s.nid ∧ s'.retain = s.retain ∧ s'.snapsDisk = s.snapsDisk ∧
    s'.snapIndex = s.snapIndex ∧ s'.result = s.result ∧ s'.commitIndex = s.commitIndex ∧
    s'.snapResult = s.snapResult ∧ s'.term = s.term ∧ s'.leader = s.leader ∧ s'.closed = s.closed := by
  simp only [obsM, Prod.mk.injEq] at h
  exact h

/-- what `fsmApply` needs of the state, from the invariant -/
theorem fsm_pre (h : I F T lr lc R s₀ s) (hp : s.panicked = none) :
    s.log.prev ≤ s.fsm.index ∧ s.fsm.index ≤ s.commitIndex ∧ s.commitIndex ≤ s.log.last ∧ LogDec s.log.entries := by
  obtain ⟨c, hcl⟩ := h.core hp
  have := c.prev_le_snap; have := c.snap_le_applied; have := c.applied_le_commit; have := c.last_eq
  exact ⟨by omega, by omega, by omega, (h.glob hp).logDec⟩

/-- once the model's budget has failed, that stays the recorded failure -/
theorem fuelClosed : Closed (fun x : Node => x.panicked = some "fuel") where
  panic := fun x site hx => by rw [panic_of_some site (by rw [hx]; exact fun e => by cases e)]; exact hx
  reply := fun x t r hx => by rw [(reply_fields x t r).2.2.2.2.2.1]; exact hx
  point := fun _ _ hx => hx
  ldr := fun _ _ hx => hx
  append := fun _ _ _ hx => hx
  commitN := fun _ _ hx => hx
  fsm := fun _ _ hx => hx
  changeConfigR := fun x c hx => by rw [(changeConfigR_fields x c).2.2.2.2.2.1]; exact hx
  setCommitIndexR := fun x i hx _ => by
    show (x.setCommitIndexR i).1.panicked = _
    rw [Order.setCommitIndexR_panicked]; exact hx
  popOrder := fun _ hx => hx

/-- after a failure everything but `pf`, `role`, `res` is vacuous -/
theorem I.of_failed {lr' lc' : Bool} {R' : Role → Prop} {t : Node} (h : I F T lr lc R s₀ s) (hp : s.panicked ≠ none)
    (ht : s.panicked = some "fuel" → t.panicked = some "fuel") (hrole : R' t.role) (hres : t.result ≠ rUnexpectedErr ∧ t.nid = s₀.nid) :
    I F T lr' lc' R' s₀ t := by
  have hf : F ∧ t.panicked = some "fuel" := by
    rcases h.pf with e | e
    · exact absurd e hp
    · exact ⟨e.1, ht e.2⟩
  have hne : t.panicked ≠ none := by rw [hf.2]; exact fun e => by cases e
  exact ⟨Or.inr hf, hrole, hres, fun e => absurd e hne, fun e => absurd e hne, fun _ e => absurd e hne,
    fun _ e => absurd e hne⟩

/-- `Raft.applyCommitted` (follower side) -/
theorem i_applyCommitted (h : I F T false lc R s₀ s) : I F T false lc R s₀ s.applyCommitted := by
  obtain ⟨e1, e2, e3, e4, e5, e6, e7, e8, e9, e10, e11, e12, _⟩ := obsM_eq (fsmFrame_obsM.fsmApply_eq s [])
  have hrole : R s.applyCommitted.role := by show R (s.fsmApply []).role; rw [e5]; exact h.role
  have hres : s.applyCommitted.result ≠ rUnexpectedErr ∧ s.applyCommitted.nid = s₀.nid := by
    show (s.fsmApply []).result ≠ _ ∧ (s.fsmApply []).nid = _; rw [e10, e6]; exact h.res
  by_cases hp : s.panicked = none
  · obtain ⟨p1, p2, p3, p4⟩ := fsm_pre h hp
    obtain ⟨a, b, c⟩ := fsmApply_chain s [] (s.commitIndex + 1) rfl (by omega) p1 p3 p4
    have a' : s.applyCommitted.panicked = s.panicked := a
    exact ⟨by unfold PF; rw [a']; exact h.pf, hrole, hres, Order.inv_applyCommitted h.ord,
      fun _ => (h.glob hp).congr (by show (s.fsmApply []).log.entries = _; rw [e1]) e7 e8 e9 e5 e6 e3,
      fun hl _ => Bool.noConfusion hl, fun hl _ => cache_congr (h.cache hl hp) e6 e3 e4⟩
  · exact h.of_failed hp (fun e => fuelClosed.fsmApply_inv s [] e) hrole hres

/-- `leader.applyCommitted`: the committed part of the queue goes to the FSM, the rest is again a chain beyond
the (new) applied index -/
theorem i_applyCommittedL (h : I F T true lc R s₀ s) : I F T true lc R s₀ s.applyCommittedL := by
  unfold Node.applyCommittedL
  extract_lets sp a1 s1
  obtain ⟨e1, e2, e3, e4, e5, e6, e7, e8, e9, e10, e11, e12, _⟩ := obsM_eq (fsmFrame_obsM.fsmApply_eq s1 sp.1)
  have hrole : R (s1.fsmApply sp.1).role := by rw [e5]; exact h.role
  have hres : (s1.fsmApply sp.1).result ≠ rUnexpectedErr ∧ (s1.fsmApply sp.1).nid = s₀.nid := by rw [e10, e6]; exact h.res
  by_cases hp : s.panicked = none
  · obtain ⟨p1, p2, p3, p4⟩ := fsm_pre h hp
    have L := h.ldr rfl hp
    obtain ⟨c, hcl⟩ := h.core hp
    obtain ⟨n, hn, hq⟩ := L.queue
    -- the items handed over form a chain up to the commit index; the rest a chain beyond it
    have key : ∃ m, s.fsm.index < m ∧ QChain m sp.1 (s.commitIndex + 1) ∧
        ∃ n', s.commitIndex < n' ∧ QChain n' sp.2 (s.lastLogIndex + 1) := by
      by_cases hle : n ≤ s.commitIndex + 1
      · obtain ⟨a, b⟩ := splitQueue_chain s.ldr.queue n (s.lastLogIndex + 1) s.commitIndex hq hle (by omega)
        exact ⟨n, hn, a, s.commitIndex + 1, Nat.lt_succ_self _, b⟩
      · have e := splitQueue_none s.ldr.queue n (s.lastLogIndex + 1) s.commitIndex hq (by omega)
        refine ⟨s.commitIndex + 1, by omega, ?_, n, by omega, ?_⟩
        · show QChain _ (splitQueue s.commitIndex s.ldr.queue).1 _
          rw [e]; rfl
        · show QChain _ (splitQueue s.commitIndex s.ldr.queue).2 _
          rw [e]; exact hq
    obtain ⟨m, hm, hc1, n', hn', hc2⟩ := key
    obtain ⟨a, b, _⟩ := fsmApply_chain s1 sp.1 m hc1 hm p1 p3 p4
    have a' : (s1.fsmApply sp.1).panicked = s.panicked := a
    have b' : (s1.fsmApply sp.1).fsm.index = s.commitIndex := b
    have hl1 : s1.ldr = { s.ldr with queue := sp.2 } := rfl
    refine ⟨by unfold PF; rw [a']; exact h.pf, hrole, hres, Order.inv_applyCommittedL h.ord,
      fun _ => (h.glob hp).congr (by rw [e1]; rfl) e7 e8 e9 e5 e6 e3, fun _ _ => ?_, fun hl _ => ?_⟩
    · refine ⟨by rw [e1, e4, hl1]; exact L.prevLe, ⟨n', by rw [b']; exact hn', by rw [e4, e2, hl1]; exact hc2⟩,
        by rw [e4, e2, hl1]; exact L.matchLe, by rw [e4, e6, hl1]; exact L.target, by rw [e5]; exact L.notCand,
        by rw [e3, e6]; exact L.selfNP, by rw [e5, e3, e6]; exact L.lv, by rw [e3]; exact L.nonempty,
        by rw [e2]; exact L.lastMono⟩
    · have := LC.capplyL (h.cache hl hp)
      unfold Node.applyCommittedL at this
      exact this
  · exact h.of_failed hp (fun e => fuelClosed.fsmApply_inv s1 sp.1 e) hrole hres

/-! ## the leader queue -/

/-- a read / barrier is queued at the position of the next log entry -/
theorem i_enqueueRead (q : QItem) (h : I F T true lc R s₀ s) (hi : q.index = s.lastLogIndex + 1)
    (hl : isLogEntryTyp q.typ = false) : I F T true lc R s₀ (s.withLdr { s.ldr with queue := s.ldr.queue ++ [q] }) := by
  refine i_ldrMisc _ h rfl rfl rfl rfl (fun _ hp => ?_) (fun _ hp => (h.ldr rfl hp).target)
  obtain ⟨n, hn, hq⟩ := (h.ldr rfl hp).queue
  refine ⟨n, hn, ?_⟩
  have := QChain.snoc _ _ _ q hq hi
  rw [hl] at this
  exact this

theorem appendEntry_eq (e : Entry) (hidx : s.panicked = none → e.index = s.lastLogIndex + 1) :
    ∃ roll, s.appendEntry e = { s with log := s.log.append e roll, lastLogIndex := e.index, lastLogTerm := e.term } := by
  unfold Node.appendEntry
  dsimp only
  rw [assert_eq_self _ (fun hp => by simpa using hidx hp)]
  exact ⟨_, rfl⟩

/-- a log entry is queued and appended -/
theorem i_enqueueLog (q : QItem) (h : I F T true lc R s₀ s) (hi : q.index = s.lastLogIndex + 1)
    (hl : isLogEntryTyp q.typ = true) (hdec : q.typ = etConfig → q.cfg.isSome = true) :
    I F T true lc R s₀ ((s.withLdr { s.ldr with queue := s.ldr.queue ++ [q] }).appendEntry q.toEntry) := by
  have hord := Order.inv_appendEntry q.toEntry (Order.inv_ldr_same (l := { s.ldr with queue := s.ldr.queue ++ [q] }) h.ord rfl)
  obtain ⟨roll, er⟩ := appendEntry_eq (s := s.withLdr { s.ldr with queue := s.ldr.queue ++ [q] }) q.toEntry (fun _ => hi)
  have hcache : ∀ hl : lc = true, s.panicked = none →
      LC.Cache ((s.withLdr { s.ldr with queue := s.ldr.queue ++ [q] }).appendEntry q.toEntry) :=
    fun hl hp => LC.cappend _ (LC.cldr _ (h.cache hl hp) rfl rfl rfl)
  rw [er] at hord hcache ⊢
  refine ⟨h.pf, h.role, h.res, hord, fun hp => ?_, fun _ hp => ?_, fun hl hp => hcache hl hp⟩
  · have g := h.glob hp
    refine ⟨?_, g.retain, g.snaps, g.cand, g.cfgL, g.cfgC⟩
    show LogDec (s.log.append q.toEntry roll).entries
    rw [entries_append]; exact logDec_append g.logDec hdec
  · have L := h.ldr rfl hp
    obtain ⟨n, hn, hq⟩ := L.queue
    have hsn := QChain.snoc _ _ _ q hq hi
    rw [hl] at hsn
    refine ⟨?_, ⟨n, hn, ?_⟩, ?_, L.target, L.notCand, L.selfNP, L.lv, L.nonempty, ?_⟩
    · show (s.log.append q.toEntry roll).prev ≤ _
      rw [Order.prev_append]; exact L.prevLe
    · show QChain n (s.ldr.queue ++ [q]) (q.index + 1)
      rw [hi]; exact hsn
    · intro r hr
      have := L.matchLe r hr
      show r.matchIndex ≤ q.index
      omega
    · have := L.lastMono
      show s₀.lastLogIndex ≤ q.index
      omega

/-! ## configurations -/

theorem changePre_fields (s : Node) (c : Config) :
    (LC.changePre s c).log = s.log ∧ (LC.changePre s c).lastLogIndex = s.lastLogIndex ∧
    (LC.changePre s c).fsm = s.fsm ∧ (LC.changePre s c).role = s.role ∧ (LC.changePre s c).nid = s.nid ∧
    (LC.changePre s c).retain = s.retain ∧ (LC.changePre s c).snapsDisk = s.snapsDisk ∧
    (LC.changePre s c).snapIndex = s.snapIndex ∧ (LC.changePre s c).result = s.result ∧
    (LC.changePre s c).panicked = s.panicked ∧
    (LC.changePre s c).configs = { committed := s.configs.latest, latest := c } ∧
    (LC.changePre s c).ldr = { s.ldr with node := c.get s.nid, numVoters := c.numVoters,
                                           repls := s.ldr.repls.filter (fun r => c.has r.id) } := by
  unfold LC.changePre
  dsimp only
  rw [changeConfigR_eq]
  exact ⟨rfl, rfl, rfl, rfl, rfl, rfl, rfl, rfl, rfl, rfl, rfl, rfl⟩

/-- the part of `leader.changeConfig` before its "add / refresh replications" loop: the new configuration is the
entry just appended -/
theorem i_changePre (c : Config) (h : I F T true lc R s₀ s) (hc : CfgP T s.nid c)
    (hidx : s.panicked = none → s.configs.latest.index < c.index ∧ c.index ≤ s.lastLogIndex) :
    I F T true false R s₀ (LC.changePre s c) := by
  obtain ⟨e1, e2, e3, e4, e5, e6, e7, e8, e9, e10, e11, e12⟩ := changePre_fields s c
  have hord : Order.Inv s₀ true (LC.changePre s c) :=
    Order.inv_ldr_same (Order.inv_changeConfigR c (Order.inv_ldr_same h.ord rfl)
      (fun hp => ⟨Nat.le_of_lt (hidx hp).1, (hidx hp).2⟩)) rfl
  refine ⟨by unfold PF; rw [e10]; exact h.pf, by rw [e4]; exact h.role, by rw [e9, e5]; exact h.res, hord,
    fun hp => ?_, fun _ hp => ?_, fun hl _ => Bool.noConfusion hl⟩
  · have hp' : s.panicked = none := by rw [← e10]; exact hp
    have g := h.glob hp'
    have L := h.ldr rfl hp'
    exact ⟨by rw [e1]; exact g.logDec, by rw [e6]; exact g.retain, by rw [e7, e8]; exact g.snaps,
      fun hcand => absurd (by rw [← e4]; exact hcand) L.notCand, by rw [e5, e11]; exact hc.cfgOk,
      by rw [e5, e11]; exact g.cfgL⟩
  · have hp' : s.panicked = none := by rw [← e10]; exact hp
    have L := h.ldr rfl hp'
    refine ⟨by rw [e1, e12]; exact L.prevLe, by rw [e3, e12, e2]; exact L.queue, ?_, by rw [e12, e5]; exact L.target,
      by rw [e4]; exact L.notCand, by rw [e11, e5]; exact hc.2.2, ?_, by rw [e11]; exact hc.1.nonempty,
      by rw [e2]; exact L.lastMono⟩
    · rw [e12, e2]
      intro r hr
      exact L.matchLe r (List.mem_filter.mp hr).1
    · intro _ hcm
      rw [e11] at hcm
      have := (hidx hp').1
      unfold Configs.isCommitted at hcm
      simp only [beq_iff_eq] at hcm
      omega

/-- one iteration of the "add / refresh replications" loop of `leader.changeConfig` -/
theorem i_changeBody (n : CNode) (h : I F T true false R s₀ s) : I F T true false R s₀ (LC.changeBody s n) := by
  unfold LC.changeBody
  split
  · exact h
  · rename_i hne
    split
    · exact i_addReplication n h hne
    · rename_i r hr
      unfold Node.setRepl
      refine i_withLdr _ h (fun hp => (h.core hp).1.removeLTE_le) (fun _ hp => ?_) (fun hl _ => Bool.noConfusion hl)
      have L := h.ldr rfl hp
      refine ⟨L.prevLe, L.queue, ?_, L.target, L.notCand, L.selfNP, L.lv, L.nonempty, L.lastMono⟩
      intro x hx
      rcases mem_insertRepl_sub hx with e | e
      · rw [e]
        exact L.matchLe r (LC.find_mem (by unfold Node.findRepl? at hr; exact hr)).1
      · exact L.matchLe x e

theorem sticky_changeSync (s : Node) (c : Config) :
    (c.nodes.foldl LC.changeBody (LC.changePre s c)).panicked = none → s.panicked = none := by
  have H := Order.sticky_closed s
  apply Closed.foldl_inv (Inv := fun x => x.panicked = none → s.panicked = none)
  · intro x n hx
    unfold LC.changeBody
    split
    · exact hx
    · split
      · exact H.addReplication_inv _ _ hx
      · exact H.setRepl_inv _ _ hx
  · unfold LC.changePre
    exact H.ldr _ _ (H.changeConfigR _ _ (H.ldr _ _ (fun h => h)))

/-- `leader.changeConfig` up to its final `checkConfigActions`: the caches describe the new configuration -/
theorem i_changeSync (c : Config) (h : I F T true true R s₀ s) (hc : CfgP T s.nid c)
    (hidx : s.panicked = none → s.configs.latest.index < c.index ∧ c.index ≤ s.lastLogIndex) :
    I F T true true R s₀ (c.nodes.foldl LC.changeBody (LC.changePre s c)) := by
  have h1 := i_foldl LC.changeBody (fun x n hx => i_changeBody n hx) c.nodes _ (i_changePre c h hc hidx)
  refine ⟨h1.pf, h1.role, h1.res, h1.ord, h1.glob, h1.ldr, fun _ hp => ?_⟩
  have hp' := sticky_changeSync s c hp
  have hC := h.cache rfl hp'
  have hm := ((LC.cache_iff s).mp hC).2.2.2.1
  exact LC.cache_changeSync s c hC.sortedRepls (fun r hr => (hm r hr).1)

/-- `Raft.changeConfig` on a node that is not leader -/
theorem i_changeConfigR (c : Config) (h : I F T false false R s₀ s) (hc : s.panicked = none → CfgOk T s.nid c)
    (hidx : s.panicked = none → s.configs.latest.index ≤ c.index ∧ c.index ≤ s.lastLogIndex)
    (hr : s.role = .candidate → c.isVoter s.nid = true) : I F T false false R s₀ (s.changeConfigR c) := by
  have hord := Order.inv_changeConfigR c h.ord hidx
  rw [changeConfigR_eq] at hord ⊢
  refine ⟨h.pf, h.role, h.res, hord, fun hp => ?_, fun hl _ => Bool.noConfusion hl, fun hl _ => Bool.noConfusion hl⟩
  have g := h.glob hp
  exact ⟨g.logDec, g.retain, g.snaps, hr, hc hp, g.cfgL⟩

/-- `Raft.revertConfig` on a follower -/
theorem i_revertConfig (h : I F T false false RF s₀ s) (hg : s.panicked = none → s.configs.committed.index ≤ s.lastLogIndex) :
    I F T false false RF s₀ s.revertConfig :=
  ⟨h.pf, h.role, h.res, Order.inv_revertConfig h.ord hg,
   fun hp => let g := h.glob hp
     ⟨g.logDec, g.retain, g.snaps, (fun e => by rw [show s.revertConfig.role = s.role from rfl, h.role] at e; cases e),
      g.cfgC, g.cfgC⟩,
   fun hl _ => Bool.noConfusion hl, fun hl _ => Bool.noConfusion hl⟩

/-! ## snapshots and compaction -/

theorem i_snapResult (v : Option SnapRes) (h : I F T lr lc R s₀ s)
    (hg : s.panicked = none → ∀ rs, v = some rs → rs.index ≤ s.snapIndex) : I F T lr lc R s₀ (s.withSnapResult v) :=
  ⟨h.pf, h.role, h.res, Order.inv_snapResult v h.ord hg, fun hp => (h.glob hp).congr rfl rfl rfl rfl rfl rfl rfl,
   fun hl hp => (h.ldr hl hp).congr rfl rfl rfl rfl rfl rfl rfl, fun hl hp => cache_congr (h.cache hl hp) rfl rfl rfl⟩

/-- `snapshotSink.done`: the new snapshot is not older than the current one (and, for the orderings, not beyond
the applied index) -/
theorem i_publishSnapshot (f : SnapFile) (h : I F T lr lc R s₀ s)
    (hg : s.panicked = none → s.snapIndex ≤ f.index ∧ f.index ≤ s.fsm.index) : I F T lr lc R s₀ (s.publishSnapshot f) := by
  refine ⟨h.pf, h.role, h.res, Order.inv_publishSnapshot f h.ord hg, fun hp => ?_,
    fun hl hp => (h.ldr hl hp).congr rfl rfl rfl rfl rfl rfl rfl, fun hl hp => cache_congr (h.cache hl hp) rfl rfl rfl⟩
  have g := h.glob hp
  refine ⟨g.logDec, g.retain, ?_, g.cand, g.cfgL, g.cfgC⟩
  intro x hx
  show x.index ≤ f.index
  have hx' : x ∈ (insertSnap f s.snapsDisk).take s.retain := hx
  rcases mem_of_mem_insertSnap f x _ (List.mem_of_mem_take hx') with e | e
  · rw [e]; exact Nat.le_refl _
  · have := g.snaps x e; have := (hg hp).1; omega

/-- `Raft.compactLog` at or below the snapshot index and (for a leader) the compaction bound -/
theorem i_compactLog (i : Nat) (h : I F T lr lc R s₀ s) (hg : s.panicked = none → i ≤ s.snapIndex)
    (hL : lr = true → s.panicked = none → i ≤ s.ldr.removeLTE) : I F T lr lc R s₀ (s.compactLog i) := by
  refine ⟨h.pf, h.role, h.res, Order.inv_compactLog i h.ord hg, fun hp => ?_, fun hl hp => ?_,
    fun hl hp => cache_congr (h.cache hl hp) rfl rfl rfl⟩
  · have g := h.glob hp
    refine ⟨?_, g.retain, g.snaps, g.cand, g.cfgL, g.cfgC⟩
    intro e he
    have he' : e ∈ s.log.entries.drop _ := he
    exact g.logDec e (List.mem_of_mem_drop he')
  · have L := h.ldr hl hp
    obtain ⟨c, _⟩ := h.core hp
    obtain ⟨_, _, _, hor, _, _, _⟩ := C09.removeLTE_whole_segments s.log i c.segs
    refine ⟨?_, L.queue, L.matchLe, L.target, L.notCand, L.selfNP, L.lv, L.nonempty, L.lastMono⟩
    show (s.log.removeLTE i).prev ≤ s.ldr.removeLTE
    have := L.prevLe; have := hL hl hp
    rcases hor with e | e <;> omega

/-! # part Block -/
/-! ## what the leader needs of configurations -/

/-- the payload of a configuration item, if any, is a configuration the leader `nid` can store -/
def cfgPOpt (T : Bool) (nid : Nat) : Option Config → Prop
  | none => False
  | some c => CfgP T nid c

instance (T : Bool) (nid : Nat) (o : Option Config) : Decidable (cfgPOpt T nid o) := by
  cases o <;> unfold cfgPOpt <;> infer_instance

/-- the configuration entries of a batch carry a configuration the leader `nid` can store -/
def BatchOk (T : Bool) (nid : Nat) (b : List QItem) : Prop := ∀ q ∈ b, q.typ = etConfig → cfgPOpt T nid q.cfg

instance (T : Bool) (nid : Nat) (b : List QItem) : Decidable (BatchOk T nid b) := by unfold BatchOk; infer_instance

theorem BatchOk.get {T : Bool} {nid : Nat} {b : List QItem} (h : BatchOk T nid b) {q : QItem} (hq : q ∈ b) (ht : q.typ = etConfig) :
    ∃ c, q.cfg = some c ∧ CfgP T nid c := by
  have := h q hq ht
  cases hc : q.cfg with
  | none => rw [hc] at this; exact absurd this id
  | some c => rw [hc] at this; exact ⟨c, rfl, this⟩

theorem appendEntry_configs (s : Node) (e : Entry) : (s.appendEntry e).configs = s.configs :=
  (assert_fields s (e.index == s.lastLogIndex + 1) "assert.appendEntry").2.2.2.2.2.2.2

/-- the latest configuration of a leader is one it can work on -/
theorem cfgP_latest (h : I F T true lc R s₀ s) (hp : s.panicked = none) : CfgP T s₀.nid s.configs.latest := by
  have g := h.glob hp
  have L := h.ldr rfl hp
  rw [← h.nidEq]
  exact ⟨g.cfgL.2 L.nonempty, g.cfgL.1.1, L.selfNP⟩

/-- the leader demotes itself -/
theorem cfgP_demoteSelf {nid : Nat} {c : Config} (h : CfgP T nid c) (hid : (c.get nid).id = nid)
    (ha : (c.get nid).action ≠ actNone) :
    CfgP T nid (c.set { c.get nid with voter := false, action := actNone }) := by
  have e : ({ c.get nid with voter := false, action := actNone } : CNode).id = nid := hid
  refine ⟨h.1.set _ (Or.inr (by rw [e]; exact ha)), ?_, ?_⟩
  · have := get_set_self c { c.get nid with voter := false, action := actNone }
    rw [e] at this; rw [this]; exact Nat.zero_le _
  · have := get_set_self c { c.get nid with voter := false, action := actNone }
    rw [e] at this; rw [this]; exact (by decide : (0 : Nat) ≠ 1)

/-- the leader removes itself -/
theorem cfgP_removeSelf {nid : Nat} {c : Config} (h : CfgP T nid c) (ha : (c.get nid).action ≠ actNone) :
    CfgP T nid (c.erase nid) := by
  refine ⟨h.1.erase nid (Or.inr ha), ?_, ?_⟩ <;> rw [get_erase_self] <;> decide

/-- `get` returns a node of that id, or the zero node -/
theorem get_id (c : Config) (id : Nat) : (c.get id).id = id ∨ c.get id = {} := by
  unfold Config.get
  cases hf : c.find? id with
  | none => exact Or.inr rfl
  | some n => exact Or.inl (find_spec hf).2

theorem nextAction_default : ({} : CNode).nextAction = actNone := by decide

/-- the configuration `checkConfigAction` proposes for another node -/
theorem cfgP_actionConfig {nid id : Nat} {c c' : Config} {li : Nat} {st : Repl} (h : CfgP T nid c) (hne : id ≠ nid)
    (hn : (c.get id).nextAction ≠ actNone)
    (ha : actionConfig li c (c.get id) (c.get id).nextAction st = some c') : CfgP T nid c' := by
  have hid : (c.get id).id = id := by
    rcases get_id c id with e | e
    · exact e
    · rw [e] at hn; exact absurd nextAction_default hn
  unfold actionConfig at ha
  rw [hid] at ha
  have hset : ∀ n' : CNode, n'.id = id → CfgP T nid (c.set n') := by
    intro n' e
    refine ⟨h.1.set n' (Or.inl (by rw [e]; exact hn)), ?_, ?_⟩ <;> rw [get_set_ne c n' nid (by rw [e]; exact hne)]
    · exact h.2.1
    · exact h.2.2
  have herase : CfgP T nid (c.erase id) := by
    refine ⟨h.1.erase id (Or.inl hn), ?_, ?_⟩ <;> rw [get_erase_ne c id nid hne]
    · exact h.2.1
    · exact h.2.2
  split at ha
  · injection ha with ha; rw [← ha]; exact hset _ rfl
  · split at ha
    · split at ha
      · injection ha with ha; rw [← ha]; exact herase
      · cases ha
    · split at ha
      · injection ha with ha; rw [← ha]; exact herase
      · split at ha
        · injection ha with ha; rw [← ha]; exact hset _ rfl
        · cases ha

/-! ## the commit rule -/

theorem voterMatches_le (h : I F T true lc R s₀ s) (hp : s.panicked = none) : ∀ m ∈ s.voterMatches, m ≤ s.lastLogIndex := by
  have L := h.ldr rfl hp
  intro m hm
  unfold Node.voterMatches at hm
  obtain ⟨n, _, rfl⟩ := List.mem_map.mp hm
  split
  · exact Nat.le_refl _
  · cases hf : s.findRepl? n.id with
    | none => exact Nat.zero_le _
    | some r =>
      unfold Node.findRepl? at hf
      exact L.matchLe r (LC.find_mem hf).1

/-- the index the commit rule selects lies within the log, and computing it dereferences nothing that is nil -/
theorem majority_ok (h : I F T true true R s₀ s) (hp : s.panicked = none) :
    s.majorityMatchIndex.1 ≤ s.lastLogIndex ∧ s.majorityMatchIndex.2 = true := by
  have L := h.ldr rfl hp
  refine ⟨?_, C06Cache.majority_no_nil s ((C06Cache.cacheOK_iff s).mpr (h.cache rfl hp)) L.nonempty⟩
  unfold Node.majorityMatchIndex
  split
  · exact Nat.le_refl _
  · dsimp only
    cases hg : (s.voterMatches.mergeSort geB)[s.voterMatches.length / 2 + 1 - 1]? with
    | none => exact Nat.zero_le _
    | some v => exact voterMatches_le h hp v (List.mem_mergeSort.mp (List.mem_of_getElem? hg))

/-! ## the block -/

theorem roundStep_matchIndex (l a : Nat) (st : Repl) : (roundStep l a st).1.matchIndex = st.matchIndex := by
  unfold roundStep startRound finishRound
  dsimp only
  repeat' split
  all_goals rfl

theorem batchOk_tail {nid : Nat} {q : QItem} {qs : List QItem} (h : BatchOk T nid (q :: qs)) : BatchOk T nid qs :=
  fun x hx => h x (List.mem_cons_of_mem _ hx)

/-- result and node id are not touched by the leader block -/
theorem resNid_frame : Frame (fun y : Node => (y.result, y.nid)) where
  panic := fun s site => by unfold Node.panic; split <;> rfl
  reply := fun s t r => by unfold Node.reply; split <;> rfl
  point := fun _ _ => rfl
  ldr := fun _ _ => rfl
  log := fun _ _ _ _ => rfl
  logOnly := fun _ _ => rfl
  fsm := fun _ _ => rfl
  configs := fun _ _ => rfl
  commitIndex := fun _ _ => rfl
  leader := fun _ _ => rfl
  role := fun _ _ => rfl
  closed := fun _ _ => rfl
  popOrder := fun _ => rfl

theorem resNid_of {x y : Node} (h : I F T lr lc R s₀ x) (e : (fun z : Node => (z.result, z.nid)) y = (fun z : Node => (z.result, z.nid)) x) :
    y.result ≠ rUnexpectedErr ∧ y.nid = s₀.nid := by
  simp only [Prod.mk.injEq] at e
  rw [e.1, e.2]; exact h.res

/-- after a failure `checkConfigActions` changes nothing the invariant still talks about -/
theorem i_failed_CAs {x : Node} (n t : Nat) (c : Config) (hx : I F T lr lc R s₀ x) (hp : x.panicked ≠ none) :
    I F T true true RT s₀ (checkConfigActions n x t c) :=
  hx.of_failed hp (fun e => fuelClosed.checkConfigActions_inv' n x t c e) trivial
    (resNid_of hx ((resNid_frame.block n).2.2.2.2.1 x t c))

theorem i_failed_DC {x : Node} (n t : Nat) (c : Config) (hx : I F T lr lc R s₀ x) (hp : x.panicked ≠ none) :
    I F T true true RT s₀ (doChangeConfig n x t c) :=
  hx.of_failed hp (fun e => fuelClosed.doChangeConfig_inv' n x t c e) trivial
    (resNid_of hx ((resNid_frame.block n).2.2.2.1 x t c))

/-! ## the recursion budget -/

/-- the budget hypothesis: the model's budget may fail (`F`), or configurations have two anchors (`T`: no
single-voter fast path, membership changes do not nest) and at least `b` units are left -/
def Fuel (F : Prop) (T : Bool) (b fuel : Nat) : Prop := F ∨ (T = true ∧ b ≤ fuel)

/-- … `lo` units if the configuration cannot be changed right now, else `hi` -/
def FuelC (F : Prop) (T : Bool) (s : Node) (lo hi fuel : Nat) : Prop :=
  F ∨ (T = true ∧ ((s.canChangeConfig = false ∧ lo ≤ fuel) ∨ hi ≤ fuel))

theorem Fuel.mono {b b' fuel fuel' : Nat} (h : Fuel F T b fuel) (hle : b ≤ fuel → b' ≤ fuel') : Fuel F T b' fuel' :=
  h.imp id (fun ⟨t, hb⟩ => ⟨t, hle hb⟩)

theorem Fuel.toC {b hi fuel fuel' : Nat} (x : Node) (lo : Nat) (h : Fuel F T b fuel) (hle : b ≤ fuel → hi ≤ fuel') :
    FuelC F T x lo hi fuel' :=
  h.imp id (fun ⟨t, hb⟩ => ⟨t, Or.inr (hle hb)⟩)

/-- while nothing failed and the budget must not fail, nothing has failed -/
theorem I.noPanic (h : I F T lr lc R s₀ s) (hF : ¬ F) : s.panicked = none := by
  rcases h.pf with e | e
  · exact e
  · exact absurd e.1 hF

/-- with two anchors the leader is never on the single-voter fast path -/
theorem not_fast (h : I F T true true R s₀ s) (hT : T = true) (hp : s.panicked = none) :
    ¬ (s.ldr.numVoters = 1 ∧ s.ldr.node.voter = true) := by
  have g := h.glob hp
  have L := h.ldr rfl hp
  have hC := (LC.cache_iff s).mp (h.cache rfl hp)
  have := numVoters_of_anchored2 ((g.cfgL.2 L.nonempty).2 hT)
  intro hf
  rw [hC.1] at hf
  omega

theorem canCC_setRepl (s : Node) (r : Repl) : (s.setRepl r).canChangeConfig = s.canChangeConfig := rfl

/-- a node that cannot change the configuration still cannot after `checkConfigAction` -/
theorem canCC_checkConfigAction (f : Nat) (s : Node) (t : Nat) (c : Config) (id : Nat)
    (h : s.canChangeConfig = false) : (checkConfigAction f s t c id).canChangeConfig = false := by
  cases f with
  | zero =>
    unfold checkConfigAction
    unfold Node.panic; split <;> exact h
  | succ n =>
    unfold checkConfigAction
    dsimp only
    split
    · exact h
    · split
      · exact h
      · split
        · rw [canCC_setRepl]; exact h
        · rw [if_pos (by rw [canCC_setRepl, h]; rfl)]
          rw [canCC_setRepl]; exact h

/-- after the replications were synchronised with a newer configuration, it is not committed -/
theorem canCC_changeSync (s : Node) (c : Config) (hidx : s.configs.latest.index < c.index) :
    (c.nodes.foldl LC.changeBody (LC.changePre s c)).canChangeConfig = false := by
  have hfold : ∀ (l : List CNode) (x : Node), (l.foldl LC.changeBody x).configs = x.configs := by
    intro l
    induction l with
    | nil => intro x; rfl
    | cons n ns ih => intro x; rw [List.foldl_cons, ih, (LC.changeBody_sync.frame x n).2.1]
  unfold Node.canChangeConfig Configs.isCommitted
  rw [hfold, (changePre_fields s c).2.2.2.2.2.2.2.2.2.2.1]
  have : (c.index == s.configs.latest.index) = false := by
    simp only [beq_eq_false_iff_ne, ne_eq]
    omega
  show ((c.index == s.configs.latest.index) && _ && _) = false
  rw [this]; rfl

/-- **The leader block never fails** (except — if `F` is granted — by running out of the model's budget) and
preserves the invariant, by induction on the recursion budget. With two anchors (`T`) the stated budgets
suffice. -/
theorem block (s₀ : Node) : ∀ fuel : Nat,
    (∀ s bt, I F T true true RT s₀ s → BatchOk T s₀.nid bt → Fuel F T (bt.length + 4) fuel →
      I F T true true RT s₀ (storeEntry fuel s bt)) ∧
    (∀ s bt, I F T true true RT s₀ s → BatchOk T s₀.nid bt → (F ∨ (T = true ∧ (bt = [] ∨ bt.length + 3 ≤ fuel))) →
      I F T true true RT s₀ (storeItems fuel s bt)) ∧
    (∀ s c, I F T true true RT s₀ s → CfgP T s₀.nid c →
      (s.panicked = none → s.configs.latest.index < c.index ∧ c.index ≤ s.lastLogIndex) → Fuel F T 3 fuel →
      I F T true true RT s₀ (changeConfigL fuel s c)) ∧
    (∀ s t c, I F T true true RT s₀ s → CfgP T s₀.nid c → Fuel F T 6 fuel →
      I F T true true RT s₀ (doChangeConfig fuel s t c)) ∧
    (∀ s t c, I F T true true RT s₀ s → CfgP T s₀.nid c → FuelC F T s 2 8 fuel →
      I F T true true RT s₀ (checkConfigActions fuel s t c)) ∧
    (∀ s t c id, I F T true true RT s₀ s → CfgP T s₀.nid c → FuelC F T s 1 7 fuel →
      I F T true true RT s₀ (checkConfigAction fuel s t c id)) ∧
    (∀ s i, I F T true true RT s₀ s → (s.panicked = none → s.commitIndex < i ∧ i ≤ s.lastLogIndex) → Fuel F T 9 fuel →
      I F T true true RT s₀ (setCommitIndexL fuel s i)) ∧
    (∀ s, I F T true true RT s₀ s → Fuel F T 10 fuel → I F T true true RT s₀ (onMajorityCommit fuel s)) := by
  intro fuel
  induction fuel with
  | zero =>
    have hz : ∀ {b : Nat}, Fuel F T (b + 1) 0 → F := fun h => h.elim id (fun ⟨_, hb⟩ => absurd hb (by omega))
    refine ⟨?_, ?_, ?_, ?_, ?_, ?_, ?_, ?_⟩
    · intro s bt hs _ hb; unfold storeEntry; exact i_fuel (hz hb) hs
    · intro s bt hs _ hb
      cases bt with
      | nil => unfold storeItems; exact hs
      | cons q qs =>
        unfold storeItems
        refine i_fuel (hb.elim id (fun ⟨_, h⟩ => ?_)) hs
        rcases h with h | h
        · cases h
        · simp at h
    · intro s c hs _ _ hb; unfold changeConfigL; exact i_fuel (hz hb) hs
    · intro s t c hs _ hb; unfold doChangeConfig; exact i_fuel (hz hb) hs
    · intro s t c hs _ hb; unfold checkConfigActions
      exact i_fuel (hb.elim (fun h => h) (fun ⟨_, h⟩ => by rcases h with ⟨_, h⟩ | h <;> omega)) hs
    · intro s t c id hs _ hb; unfold checkConfigAction
      exact i_fuel (hb.elim (fun h => h) (fun ⟨_, h⟩ => by rcases h with ⟨_, h⟩ | h <;> omega)) hs
    · intro s i hs _ hb; unfold setCommitIndexL; exact i_fuel (hz hb) hs
    · intro s hs hb; unfold onMajorityCommit; exact i_fuel (hz hb) hs
  | succ n ih =>
    obtain ⟨ihSE, ihSI, ihCL, ihDC, ihCAs, ihCA, ihSC, ihMC⟩ := ih
    refine ⟨?_, ?_, ?_, ?_, ?_, ?_, ?_, ?_⟩
    · -- storeEntry
      intro s bt hs hb hf
      unfold storeEntry; dsimp only
      have h1 : I F T true true RT s₀ (storeItems n s bt) :=
        ihSI _ _ hs hb (hf.imp id (fun ⟨t, h⟩ => ⟨t, Or.inr (by omega)⟩))
      have h2 : I F T true true RT s₀ (storeItems n s bt).applyCommittedL := i_applyCommittedL h1
      -- with two anchors the fast path is never taken: `onMajorityCommit` needs no budget here
      have hMC : ∀ x : Node, I F T true true RT s₀ x → x.ldr.numVoters = 1 ∧ x.ldr.node.voter = true →
          I F T true true RT s₀ (onMajorityCommit n x) := by
        intro x hx hfast
        refine ihMC _ hx ?_
        by_cases hF : F
        · exact Or.inl hF
        · rcases hf with hF' | ⟨hT, _⟩
          · exact absurd hF' hF
          · exact absurd hfast (not_fast hx hT (hx.noPanic hF))
      repeat' split
      all_goals first
        | exact hMC _ (i_notifyFlrL (i_beginFinishedRounds h2)) (by assumption)
        | exact hMC _ (i_notifyFlrL (i_beginFinishedRounds h1)) (by assumption)
        | exact i_notifyFlrL (i_beginFinishedRounds h2)
        | exact i_notifyFlrL (i_beginFinishedRounds h1)
        | exact h2
        | exact h1
    · -- storeItems
      intro s bt hs hb hf
      cases bt with
      | nil => unfold storeItems; exact hs
      | cons q qs =>
        have hfn : F ∨ (T = true ∧ qs.length + 4 ≤ n + 1) := hf.imp id (fun ⟨t, h⟩ => ⟨t, by
          rcases h with h | h
          · cases h
          · simp only [List.length_cons] at h; omega⟩)
        unfold storeItems; dsimp only
        refine ihSI _ _ ?_ (batchOk_tail hb) (hfn.imp id (fun ⟨t, h⟩ => ⟨t, Or.inr (by omega)⟩))
        split
        · exact i_reply _ _ hs
        · split
          · split
            · exact i_reply _ _ hs
            · exact i_reply _ _ hs
          · split
            · rename_i hlog
              have hdec : ({ q with index := s.lastLogIndex + 1, term := s.term, cfg := q.cfg.map Config.payload } : QItem).typ = etConfig →
                  ({ q with index := s.lastLogIndex + 1, term := s.term, cfg := q.cfg.map Config.payload } : QItem).cfg.isSome = true := by
                intro ht
                obtain ⟨c, hc, _⟩ := hb.get List.mem_cons_self ht
                show (q.cfg.map Config.payload).isSome = true
                rw [hc]; rfl
              have h1 := i_enqueueLog { q with index := s.lastLogIndex + 1, term := s.term, cfg := q.cfg.map Config.payload }
                hs rfl hlog hdec
              split
              · rename_i htyp
                split
                · rename_i cfg hcfg
                  obtain ⟨c, hc, hcp⟩ := hb.get List.mem_cons_self htyp
                  have hnodes : cfg.nodes = c.nodes := by
                    unfold Entry.config? QItem.toEntry at hcfg
                    dsimp only at hcfg
                    rw [if_pos htyp, hc] at hcfg
                    injection hcfg with hcfg
                    rw [← hcfg]; rfl
                  refine ihCL _ _ h1 (hcp.congr hnodes) (fun hp => ?_) (hfn.imp id (fun ⟨t, h⟩ => ⟨t, by omega⟩))
                  have hidx := Order.config?_index hcfg
                  obtain ⟨_, hp0⟩ := Order.appendEntry_ok hp
                  have hp0' : s.panicked = none := hp0
                  have hll := (hs.core hp0').1.latest_le_last
                  rw [hidx, appendEntry_configs]
                  exact ⟨Nat.lt_succ_of_le hll, Nat.le_refl _⟩
                · rename_i hcfg
                  exfalso
                  obtain ⟨c, hc, _⟩ := hb.get List.mem_cons_self htyp
                  unfold Entry.config? QItem.toEntry at hcfg
                  dsimp only at hcfg
                  rw [if_pos htyp, hc] at hcfg
                  cases hcfg
              · exact h1
            · rename_i hlog
              exact i_enqueueRead _ hs rfl (by simpa using hlog)
    · -- changeConfigL
      intro s c hs hc hidx hf
      unfold changeConfigL; dsimp only
      have h1 : I F T true true RT s₀ (c.nodes.foldl LC.changeBody (LC.changePre s c)) :=
        i_changeSync c hs (by rw [hs.nidEq]; exact hc) hidx
      by_cases hp : (c.nodes.foldl LC.changeBody (LC.changePre s c)).panicked = none
      · refine ihCAs _ _ _ h1 (cfgP_latest h1 hp) (hf.imp id (fun ⟨t, h⟩ => ⟨t, Or.inl ⟨?_, by omega⟩⟩))
        exact canCC_changeSync s c (hidx (sticky_changeSync s c hp)).1
      · exact i_failed_CAs _ _ _ h1 hp
    · -- doChangeConfig
      intro s t c hs hc hf
      unfold doChangeConfig
      refine ihSE _ _ hs ?_ (hf.mono (by simp only [List.length_singleton]; omega))
      intro q hq ht
      rw [List.mem_singleton.mp hq]
      exact hc
    · -- checkConfigActions
      intro s t c hs hc hf
      unfold checkConfigActions; dsimp only
      -- the budget left for what follows the self part
      have hf7 : s.canChangeConfig = true → Fuel F T 7 n := by
        intro hcc
        refine hf.imp id (fun ⟨t, h⟩ => ⟨t, ?_⟩)
        rcases h with ⟨h, _⟩ | h
        · rw [hcc] at h; cases h
        · omega
      -- the self part
      have hself : I F T true true RT s₀ (if s.canChangeConfig = true ∧ (c.get s.nid).action ≠ actNone then
            if (c.get s.nid).action = actDemote then
              (doChangeConfig n s t (c.set { c.get s.nid with voter := false, action := actNone }),
               c.set { c.get s.nid with voter := false, action := actNone })
            else if (c.get s.nid).action = actRemove ∨ (c.get s.nid).action = actForceRemove then
              (doChangeConfig n s t (c.erase s.nid), c.erase s.nid)
            else (s.panic "unreachable", c)
          else (s, c)).1 ∧
          CfgP T s₀.nid (if s.canChangeConfig = true ∧ (c.get s.nid).action ≠ actNone then
            if (c.get s.nid).action = actDemote then
              (doChangeConfig n s t (c.set { c.get s.nid with voter := false, action := actNone }),
               c.set { c.get s.nid with voter := false, action := actNone })
            else if (c.get s.nid).action = actRemove ∨ (c.get s.nid).action = actForceRemove then
              (doChangeConfig n s t (c.erase s.nid), c.erase s.nid)
            else (s.panic "unreachable", c)
          else (s, c)).2 ∧
          (s.canChangeConfig = false → (if s.canChangeConfig = true ∧ (c.get s.nid).action ≠ actNone then
            if (c.get s.nid).action = actDemote then
              (doChangeConfig n s t (c.set { c.get s.nid with voter := false, action := actNone }),
               c.set { c.get s.nid with voter := false, action := actNone })
            else if (c.get s.nid).action = actRemove ∨ (c.get s.nid).action = actForceRemove then
              (doChangeConfig n s t (c.erase s.nid), c.erase s.nid)
            else (s.panic "unreachable", c)
          else (s, c)).1 = s) := by
        rw [hs.nidEq]
        split
        · rename_i hcond
          have hf6 : Fuel F T 6 n := (hf7 hcond.1).mono (by omega)
          have hid : (c.get s₀.nid).id = s₀.nid := by
            rcases get_id c s₀.nid with e | e
            · exact e
            · rw [e] at hcond; exact absurd rfl hcond.2
          have hno : s.canChangeConfig = false → False := fun h => by rw [hcond.1] at h; cases h
          split
          · have hc' := cfgP_demoteSelf hc hid hcond.2
            exact ⟨ihDC _ _ _ hs hc' hf6, hc', fun h => (hno h).elim⟩
          · split
            · have hc' := cfgP_removeSelf hc hcond.2
              exact ⟨ihDC _ _ _ hs hc' hf6, hc', fun h => (hno h).elim⟩
            · rename_i h1 h2
              refine ⟨i_unreach _ hs (fun _ => ?_), hc, fun h => (hno h).elim⟩
              have := hc.2.1; have := hc.2.2; have := hcond.2
              simp only [not_or] at h2
              have a1 : (c.get s₀.nid).action ≠ 2 := h1
              have a2 : (c.get s₀.nid).action ≠ 3 := h2.1
              have a3 : (c.get s₀.nid).action ≠ 4 := h2.2
              have a4 : (c.get s₀.nid).action ≠ 0 := hcond.2
              have a5 : (c.get s₀.nid).action ≠ 1 := hc.2.2
              omega
        · exact ⟨hs, hc, fun _ => rfl⟩
      obtain ⟨h1, hc1, hsame⟩ := hself
      -- the loop over the replications: either the budget covers a change, or no change is possible
      by_cases hcc : s.canChangeConfig = true
      · have hf7' := hf7 hcc
        apply i_foldl
        · intro x id hx
          split
          · exact ihCA _ _ _ _ hx hc1 (hf7'.toC x 1 (fun h => h))
          · exact hx
        · exact i_popOrder h1
      · have hcc' : s.canChangeConfig = false := by
          cases h : s.canChangeConfig with
          | true => exact absurd h hcc
          | false => rfl
        have hlo : F ∨ (T = true ∧ 1 ≤ n) := hf.imp id (fun ⟨t, h⟩ => ⟨t, by rcases h with ⟨_, h⟩ | h <;> omega⟩)
        rw [hsame hcc'] at h1 ⊢
        have key := Closed.foldl_inv (Inv := fun x : Node => I F T true true RT s₀ x ∧ x.canChangeConfig = false)
          (fun (x : Node) (id : Nat) =>
            match x.findRepl? id with
            | some _ => checkConfigAction n x t (if s.canChangeConfig = true ∧ (c.get s.nid).action ≠ actNone then
                if (c.get s.nid).action = actDemote then
                  (doChangeConfig n s t (c.set { c.get s.nid with voter := false, action := actNone }),
                   c.set { c.get s.nid with voter := false, action := actNone })
                else if (c.get s.nid).action = actRemove ∨ (c.get s.nid).action = actForceRemove then
                  (doChangeConfig n s t (c.erase s.nid), c.erase s.nid)
                else (s.panic "unreachable", c)
              else (s, c)).2 id
            | none => x)
          (by
            intro x id hx
            split
            · exact ⟨ihCA _ _ _ _ hx.1 hc1 (hlo.imp (fun h => h) (fun ⟨t, h⟩ => ⟨t, Or.inl ⟨hx.2, h⟩⟩)),
                canCC_checkConfigAction _ _ _ _ _ hx.2⟩
            · exact hx)
          s.replOrder s.popOrder ⟨i_popOrder h1, hcc'⟩
        exact key.1
    · -- checkConfigAction
      intro s t c id hs hc hf
      unfold checkConfigAction; dsimp only
      split
      · exact hs
      · rename_i st hst
        have hk := LC.roundStep_key s.lastLogIndex (c.get id).nextAction st
        have h1 : I F T true true RT s₀ (s.setRepl (roundStep s.lastLogIndex (c.get id).nextAction st).1) :=
          i_setRepl_same _ st id hs hst hk (roundStep_matchIndex _ _ _)
        split
        · exact hs
        · rename_i hact
          split
          · exact h1
          · split
            · exact h1
            · rename_i hcan
              have hcc : s.canChangeConfig = true := by
                rw [canCC_setRepl] at hcan
                cases h : s.canChangeConfig with
                | true => rfl
                | false => rw [h] at hcan; exact absurd rfl hcan
              have hf6 : Fuel F T 6 n := hf.imp (fun h => h) (fun ⟨t, h⟩ => ⟨t, by
                rcases h with ⟨h, _⟩ | h
                · rw [hcc] at h; cases h
                · omega⟩)
              split
              · rename_i c' hc'
                by_cases hp : s.panicked = none
                · refine ihDC _ _ _ h1 ?_ hf6
                  have hC := hs.cache rfl hp
                  have hmem := ((LC.cache_iff s).mp hC).2.2.2.1 st (LC.find_mem (by unfold Node.findRepl? at hst; exact hst)).1
                  have hid : st.id = id := (LC.find_mem (by unfold Node.findRepl? at hst; exact hst)).2
                  have hne : id ≠ s₀.nid := by rw [← hs.nidEq, ← hid]; exact hmem.1
                  exact cfgP_actionConfig hc hne hact hc'
                · exact i_failed_DC _ _ _ h1 hp
              · exact h1
    · -- setCommitIndexL
      intro s i hs hi hf
      unfold setCommitIndexL
      extract_lets s1 ready r s2 s3
      have h1 : I F T true true RT s₀ s1 := i_commitLog i hs
      have h2 : I F T true true RT s₀ s2 := i_setCommitIndexR i h1 trivial (fun hp => by
        have hp' : s.panicked = none := hp
        have := (hs.core hp').1.applied_le_commit
        have := hi hp'
        exact ⟨by show s.fsm.index ≤ i; omega, by show i ≤ s.lastLogIndex; omega⟩)
      have hCA : ∀ x : Node, I F T true true RT s₀ x → I F T true true RT s₀ (checkConfigActions n x 0 x.configs.latest) := by
        intro x hx
        by_cases hp : x.panicked = none
        · exact ihCAs _ _ _ hx (cfgP_latest hx hp) (hf.toC x 2 (by omega))
        · exact i_failed_CAs _ _ _ hx hp
      have h3 : I F T true true RT s₀ s3 := by
        unfold s3; split
        · exact hCA _ h2
        · exact h2
      split
      · split
        · refine i_ldrMisc _ (i_foldl _ (fun x t hx => i_reply _ _ hx) _ _ h3) rfl rfl rfl rfl ?_ ?_
          · intro _ hp; exact ((i_foldl _ (fun x t hx => i_reply _ _ hx) _ _ h3).ldr rfl hp).queue
          · intro _ hp; exact ((i_foldl _ (fun x t hx => i_reply _ _ hx) _ _ h3).ldr rfl hp).target
        · exact hCA _ h3
      · exact h3
    · -- onMajorityCommit
      intro s hs hf
      have hf9 : Fuel F T 9 n := hf.mono (by omega)
      unfold onMajorityCommit; dsimp only
      split
      · split
        · rename_i hgt
          refine i_notifyFlrL (i_applyCommittedL (ihSC _ _ hs (fun hp => ⟨hgt.1, (majority_ok hs hp).1⟩) hf9))
        · exact hs
      · rename_i hm
        have hu : I F T true true RT s₀ (s.panic "nil.majorityMatchIndex") :=
          i_unreach _ hs (fun hp => hm (majority_ok hs hp).2)
        split
        · rename_i hgt
          have hne : s.panicked ≠ none := fun hp => hm (majority_ok hs hp).2
          rw [panic_of_some _ hne] at hgt ⊢
          exact i_notifyFlrL (i_applyCommittedL (ihSC _ _ hs (fun hp => absurd hp hne) hf9))
        · exact hu

/-- the budget `fuelFor k` of the handlers covers everything the block needs -/
theorem fuelFor_ok (hFT : F ∨ T = true) (k b : Nat) (hb : b ≤ 64 + 4 * k) : Fuel F T b (fuelFor k) :=
  hFT.imp id (fun t => ⟨t, hb⟩)

theorem i_storeEntry (hFT : F ∨ T = true) (bt : List QItem) (hs : I F T true true RT s₀ s) (hb : BatchOk T s₀.nid bt) :
    I F T true true RT s₀ (storeEntry (fuelFor bt.length) s bt) :=
  (block s₀ _).1 s bt hs hb (fuelFor_ok hFT _ _ (by omega))
theorem i_doChangeConfig (hFT : F ∨ T = true) (k t : Nat) (c : Config) (hs : I F T true true RT s₀ s) (hc : CfgP T s₀.nid c) :
    I F T true true RT s₀ (doChangeConfig (fuelFor k) s t c) :=
  (block s₀ _).2.2.2.1 s t c hs hc (fuelFor_ok hFT _ _ (by omega))
theorem i_checkConfigActions (hFT : F ∨ T = true) (k t : Nat) (c : Config) (hs : I F T true true RT s₀ s) (hc : CfgP T s₀.nid c) :
    I F T true true RT s₀ (checkConfigActions (fuelFor k) s t c) :=
  (block s₀ _).2.2.2.2.1 s t c hs hc ((fuelFor_ok hFT k 8 (by omega)).toC s 2 (fun h => h))
theorem i_checkConfigAction (hFT : F ∨ T = true) (k t : Nat) (c : Config) (id : Nat) (hs : I F T true true RT s₀ s)
    (hc : CfgP T s₀.nid c) : I F T true true RT s₀ (checkConfigAction (fuelFor k) s t c id) :=
  (block s₀ _).2.2.2.2.2.1 s t c id hs hc ((fuelFor_ok hFT k 7 (by omega)).toC s 1 (fun h => h))
theorem i_onMajorityCommit (hFT : F ∨ T = true) (k : Nat) (hs : I F T true true RT s₀ s) :
    I F T true true RT s₀ (onMajorityCommit (fuelFor k) s) :=
  (block s₀ _).2.2.2.2.2.2.2 s hs (fuelFor_ok hFT _ _ (by omega))

/-! # part Leader -/
/-! ## the block, called on the latest configuration -/

theorem i_checkConfigActions_latest (hFT : F ∨ T = true) (k t : Nat) (h : I F T true true RT s₀ s) :
    I F T true true RT s₀ (checkConfigActions (fuelFor k) s t s.configs.latest) := by
  by_cases hp : s.panicked = none
  · exact i_checkConfigActions hFT k t _ h (cfgP_latest h hp)
  · exact i_failed_CAs _ _ _ h hp

theorem i_checkConfigAction_latest (hFT : F ∨ T = true) (k t id : Nat) (h : I F T true true RT s₀ s) :
    I F T true true RT s₀ (checkConfigAction (fuelFor k) s t s.configs.latest id) := by
  by_cases hp : s.panicked = none
  · exact i_checkConfigAction hFT k t _ id h (cfgP_latest h hp)
  · exact h.of_failed hp (fun e => fuelClosed.checkConfigAction_inv' _ s t _ id e) trivial
      (resNid_of h ((resNid_frame.block _).2.2.2.2.2.1 s t _ id))

/-! ## `checkQuorum` -/

theorem isVoter_mem {c : Config} {id : Nat} (h : c.isVoter id = true) : ∃ n ∈ c.nodes, n.id = id ∧ n.voter = true := by
  unfold Config.isVoter at h
  cases hf : c.find? id with
  | none => rw [hf] at h; cases h
  | some n => rw [hf] at h; exact ⟨n, (find_spec hf).1, (find_spec hf).2, h⟩

/-- `leader.checkQuorum`: every other voter has a replication -/
theorem i_checkQuorum (h : I F T true true R s₀ s) : I F T true true RT s₀ s.checkQuorum := by
  unfold Node.checkQuorum
  extract_lets vs reachable s1
  have h1 : I F T true true R s₀ s1 := by
    unfold s1
    split
    · rename_i hany
      refine i_unreach _ h (fun hp => ?_)
      obtain ⟨n, hn, hb⟩ := List.any_eq_true.mp hany
      unfold vs at hn
      simp only [List.mem_filter] at hn
      simp only [Bool.and_eq_true, bne_iff_ne, ne_eq, Option.isNone_iff_eq_none] at hb
      obtain ⟨r, hr, _⟩ := C06Cache.member_has_replication s ((C06Cache.cacheOK_iff s).mpr (h.cache rfl hp)) n hn.1 hb.1
      rw [hr] at hb
      exact absurd hb.2 (by simp)
    · exact h
  split
  · exact h1.mono (fun _ _ => trivial)
  · exact (i_setLeader 0 (i_toFollower h1)).mono (fun _ _ => trivial)

/-! ## leadership transfer -/

theorem tryTransferTarget_ok (h : I F T true true R s₀ s) (hp : s.panicked = none) : s.tryTransferTarget.2 = false := by
  have L := h.ldr rfl hp
  unfold Node.tryTransferTarget
  dsimp only
  split
  · rename_i h0
    split
    · rename_i hv
      split
      · rfl
      · rename_i hn
        exfalso
        obtain ⟨n, hn1, hn2, _⟩ := isVoter_mem hv
        obtain ⟨r, hr, _⟩ := C06Cache.member_has_replication s ((C06Cache.cacheOK_iff s).mpr (h.cache rfl hp)) n hn1
          (by rw [hn2]; exact L.target h0)
        rw [hn2] at hr
        rw [hr] at hn
        cases hn
    · rfl
  · rfl

/-- `leader.tryTransfer` -/
theorem i_tryTransfer (h : I F T true true R s₀ s) : I F T true true R s₀ s.tryTransfer := by
  unfold Node.tryTransfer
  extract_lets r s1 s2
  have h1 : I F T true true R s₀ s1 := by
    unfold s1; split
    · exact i_popOrder h
    · exact h
  have hr : s1.tryTransferTarget.2 = s.tryTransferTarget.2 ∨ True := Or.inr trivial
  have h2 : I F T true true R s₀ s2 := by
    unfold s2; split
    · rename_i hr2
      refine i_unreach _ h1 (fun hp => ?_)
      have hp' : s.panicked = none := by
        have : s1.panicked = s.panicked := by unfold s1; split <;> rfl
        rw [← this]; exact hp
      have := tryTransferTarget_ok h hp'
      unfold r at hr2
      rw [this] at hr2
      cases hr2
    · exact h1
  split
  · exact i_ldrMisc _ h2 rfl rfl rfl rfl (fun _ hp => (h2.ldr rfl hp).queue) (fun _ hp => (h2.ldr rfl hp).target)
  · exact h2

/-- `transfer.reply` -/
theorem i_transferReply (r : String) (h : I F T true lc R s₀ s) : I F T true lc R s₀ (s.transferReply r) := by
  unfold Node.transferReply
  have h1 := i_reply s.ldr.transfer.task r h
  exact i_ldrMisc _ h1 rfl rfl rfl rfl (fun _ hp => (h1.ldr rfl hp).queue) (fun _ _ h0 => absurd rfl h0)

theorem validateTransfer_ok (s : Node) (t : Nat) (h : s.validateTransfer t = "") (h0 : t ≠ 0) : t ≠ s.nid := by
  unfold Node.validateTransfer at h
  split at h
  · exact absurd h (by decide)
  · split at h
    · exact absurd h (by decide)
    · first | rw [if_pos h0] at h | skip
      split at h
      · exact absurd h (by decide)
      · assumption

/-- `leader.onTransfer` -/
theorem i_onTransfer (t g : Nat) (h : I F T true true R s₀ s) : I F T true true R s₀ (s.onTransfer t g) := by
  unfold Node.onTransfer
  dsimp only
  split
  · exact i_reply _ _ h
  · rename_i hv
    have hv' : s.validateTransfer g = "" := by
      cases hs : s.validateTransfer g == "" with
      | true => simpa using hs
      | false => exact absurd (by simpa using hs) hv
    exact i_tryTransfer (i_ldrMisc _ h rfl rfl rfl rfl (fun _ hp => (h.ldr rfl hp).queue)
      (fun _ _ h0 => validateTransfer_ok s g hv' h0))

/-- `leader.replyTransfer` -/
theorem i_replyTransfer (hFT : F ∨ T = true) (r : String) (h : I F T true true RT s₀ s) :
    I F T true true RT s₀ (s.replyTransfer r) := by
  unfold Node.replyTransfer
  exact i_checkConfigActions_latest hFT 0 _ (i_transferReply r h)

/-- `leader.onTimeoutNowResult`: an error is reported for a node that has a replication -/
theorem i_onTimeoutNowResult (hFT : F ∨ T = true) (src : Nat) (e : Bool) (r : Nat) (h : I F T true true RT s₀ s)
    (hsrc : e = true → s.panicked = none → s.findRepl? src ≠ none) : I F T true true RT s₀ (s.onTimeoutNowResult src e r) := by
  unfold Node.onTimeoutNowResult
  extract_lets l0 t0 s1 s2 l1 t1
  have h0 : I F T true true RT s₀ s1 :=
    i_ldrMisc _ h rfl rfl rfl rfl (fun _ hp => (h.ldr rfl hp).queue) (fun _ hp => (h.ldr rfl hp).target)
  split
  · rename_i he
    have h2 : I F T true true RT s₀ s2 := by
      unfold s2
      split
      · rename_i st hst
        split
        · exact i_setRepl_same _ st src h0 hst rfl rfl
        · exact h0
      · rename_i hn
        exact i_unreach _ h0 (fun hp => hsrc he hp hn)
    split
    · exact i_tryTransfer h2
    · exact h2
  · split
    · split
      · exact i_replyTransfer hFT _ h0
      · exact i_tryTransfer h0
    · exact i_ldrMisc _ h0 rfl rfl rfl rfl (fun _ hp => (h0.ldr rfl hp).queue) (fun _ hp => (h0.ldr rfl hp).target)

/-- `leader.onWaitForStableConfig` -/
theorem i_onWaitForStable (t : Nat) (h : I F T true lc R s₀ s) : I F T true lc R s₀ (s.onWaitForStable t) := by
  unfold Node.onWaitForStable
  split
  · exact i_reply _ _ h
  · exact i_ldrMisc _ h rfl rfl rfl rfl (fun _ hp => (h.ldr rfl hp).queue) (fun _ hp => (h.ldr rfl hp).target)

/-! ## `leader.onChangeConfig` -/

/-- what is asked of a configuration submitted by a client: member ids strictly increasing (the model's
representation of a Go map), the action of the receiving node's own entry one of the five defined ones, and
— for the two-anchor theorems (`T`) — at least two voters without pending action -/
def UserCfg (T : Bool) (nid : Nat) (c : Config) : Prop :=
  c.nodes.Pairwise (fun a b => a.id < b.id) ∧ (c.get nid).action ≤ 4 ∧
  (T = true → 2 ≤ (c.nodes.filter (fun n => n.voter && n.action == actNone)).length)

instance (T : Bool) (nid : Nat) (c : Config) : Decidable (UserCfg T nid c) := by unfold UserCfg; infer_instance

/-- two members with the same id in a strictly increasing list are the same -/
theorem sorted_unique (l : List CNode) (hl : l.Pairwise (fun a b => a.id < b.id)) :
    ∀ x ∈ l, ∀ y ∈ l, x.id = y.id → x = y := by
  induction l with
  | nil => intro x hx; cases hx
  | cons z zs ih =>
    have h1 := (List.pairwise_cons.mp hl).1
    have h2 := (List.pairwise_cons.mp hl).2
    intro x hx y hy exy
    rcases List.mem_cons.mp hx with e1 | e1 <;> rcases List.mem_cons.mp hy with e2 | e2
    · rw [e1, e2]
    · have := h1 y e2; rw [e1] at exy; omega
    · have := h1 x e1; rw [e2] at exy; omega
    · exact ih h2 x e1 y e2 exy

theorem isAnchor_of_sorted {c : Config} (hs : c.nodes.Pairwise (fun a b => a.id < b.id)) {a : CNode}
    (ha : a ∈ c.nodes.filter (fun n => n.voter && n.action == actNone)) : IsAnchor c a := by
  obtain ⟨h1, h2⟩ := List.mem_filter.mp ha
  simp only [Bool.and_eq_true, beq_iff_eq] at h2
  exact ⟨h1, h2.1, h2.2, fun m hm e => sorted_unique c.nodes hs m hm a h1 e⟩

theorem anchoredT_of_sorted {T : Bool} {c : Config} (hs : c.nodes.Pairwise (fun a b => a.id < b.id))
    (ha : c.nodes.any (fun n => n.voter && n.action == actNone) = true)
    (h2 : T = true → 2 ≤ (c.nodes.filter (fun n => n.voter && n.action == actNone)).length) : AnchoredT T c := by
  constructor
  · obtain ⟨a, ha1, ha2⟩ := List.any_eq_true.mp ha
    exact (anchored_iff c).mpr ⟨a, isAnchor_of_sorted hs (List.mem_filter.mpr ⟨ha1, ha2⟩)⟩
  · intro hT
    have hlen := h2 hT
    have hp : (c.nodes.filter (fun n => n.voter && n.action == actNone)).Pairwise (fun a b => a.id < b.id) :=
      List.Pairwise.filter _ hs
    have hmem : ∀ x ∈ c.nodes.filter (fun n => n.voter && n.action == actNone), IsAnchor c x :=
      fun x hx => isAnchor_of_sorted hs hx
    generalize c.nodes.filter (fun n => n.voter && n.action == actNone) = l at hlen hp hmem
    match l, hlen, hp, hmem with
    | x :: y :: _, _, hp, hmem =>
      have hlt := (List.pairwise_cons.mp hp).1 y List.mem_cons_self
      exact (anchored2_iff c).mpr ⟨x, y, by omega, hmem x List.mem_cons_self,
        hmem y (List.mem_cons_of_mem _ List.mem_cons_self)⟩

/-- a configuration that passed the checks of `onChangeConfig` on a leader whose configuration is committed -/
theorem cfgP_newConf (h : I F T true true RT s₀ s) (hp : s.panicked = none) (hr : s.role = .leader) (c : Config)
    (hu : UserCfg T s.nid c) (hcm : s.configs.isCommitted = true) (hv : configValid c = true)
    (h5 : ∀ n ∈ s.configs.latest.nodes, ∃ nn, c.find? n.id = some nn ∧ nn.voter = n.voter)
    (h7 : c.nodes.any (fun n => n.voter && n.action == actNone) = true) : CfgP T s₀.nid c := by
  have L := h.ldr rfl hp
  rw [← h.nidEq]
  refine ⟨anchoredT_of_sorted hu.1 h7 hu.2.2, hu.2.1, ?_⟩
  obtain ⟨n, hn1, hn2, hn3⟩ := isVoter_mem (L.lv hr hcm)
  obtain ⟨nn, hf, hvo'⟩ := h5 n hn1
  rw [hn2] at hf
  have hvo : nn.voter = true := by rw [hvo', hn3]
  · have hget : c.get s.nid = nn := by unfold Config.get; rw [hf]; rfl
    rw [hget]
    have hmem := (find_spec hf).1
    unfold configValid at hv
    simp only [Bool.and_eq_true, List.all_eq_true] at hv
    have hnv := hv.1.1 nn hmem
    unfold nodeValid at hnv
    simp only [Bool.and_eq_true, Bool.not_eq_true', decide_eq_false_iff_not, not_and] at hnv
    intro hact
    exact absurd hvo (by simpa using hnv.1.2 hact)

/-- `leader.onChangeConfig` -/
theorem i_onChangeConfig (hFT : F ∨ T = true) (t : Nat) (c : Config) (h : I F T true true RT s₀ s) (hr : s.role = .leader)
    (hu : UserCfg T s.nid c) : I F T true true RT s₀ (s.onChangeConfig t c) := by
  unfold Node.onChangeConfig
  split
  · exact i_reply _ _ h
  · rename_i h1
    split
    · exact i_reply _ _ h
    · split
      · exact i_reply _ _ h
      · rename_i h4
        split
        · exact i_reply _ _ h
        · rename_i h4
          split
          · exact i_reply _ _ h
          · rename_i h5
            split
            · exact i_reply _ _ h
            · split
              · exact i_reply _ _ h
              · rename_i h7
                by_cases hp : s.panicked = none
                · have h5' : ∀ n ∈ s.configs.latest.nodes, ∃ nn, c.find? n.id = some nn ∧ nn.voter = n.voter := by
                    intro n hn
                    have h5a : ¬ _ := h5
                    rw [List.any_eq_true] at h5a
                    cases hf : c.find? n.id with
                    | none => exact absurd ⟨n, hn, by rw [hf]⟩ h5a
                    | some nn =>
                      refine ⟨nn, rfl, ?_⟩
                      cases hnv : nn.voter <;> cases hv : n.voter <;> first | rfl | exact absurd ⟨n, hn, by rw [hf]; dsimp only; rw [hnv, hv]; rfl⟩ h5a
                  have hc : CfgP T s₀.nid c := cfgP_newConf h hp hr c hu (by simpa using h1) (by simpa using h4)
                    h5' (by simpa using h7)
                  dsimp only
                  split
                  · exact i_doChangeConfig hFT 1 _ _ (i_checkConfigActions hFT 0 _ _ h hc) hc
                  · exact i_checkConfigActions hFT 0 _ _ h hc
                · dsimp only
                  have hf := i_failed_CAs (fuelFor 0) t c h hp
                  split
                  · exact i_failed_DC _ _ _ hf (fun e => hp ((Order.sticky_closed s).checkConfigActions_inv' _ s t c (fun x => x) e))
                  · exact hf

/-! # part Leader2 -/
/-! ## `leader.checkReplUpdates` -/

/-- what is asked of one replication update (unless its status object was removed): a match index within
the leader's log, a newer term not below the leader's term -/
def UpdOk (s : Node) (u : ReplUpdate) : Prop :=
  u.removed = false →
    (∀ v, u.upd = .matchIndex v → v ≤ s.lastLogIndex) ∧ (∀ v, u.upd = .newTerm v → s.term ≤ v)

instance (s : Node) (u : ReplUpdate) : Decidable (UpdOk s u) := by
  unfold UpdOk
  cases h : u.upd with
  | matchIndex v =>
    exact if hr : u.removed = false then
      (if hv : v ≤ s.lastLogIndex then
        isTrue (fun _ => ⟨fun w e => (by injection e with e; rw [← e]; exact hv), fun w e => (by cases e)⟩)
       else isFalse (fun hf => hv ((hf hr).1 v rfl)))
    else isTrue (fun hr' => absurd hr' hr)
  | newTerm v =>
    exact if hr : u.removed = false then
      (if hv : s.term ≤ v then
        isTrue (fun _ => ⟨fun w e => (by cases e), fun w e => (by injection e with e; rw [← e]; exact hv)⟩)
       else isFalse (fun hf => hv ((hf hr).2 v rfl)))
    else isTrue (fun hr' => absurd hr' hr)
  | removeLTE v => exact isTrue (fun _ => ⟨fun w e => (by cases e), fun w e => (by cases e)⟩)
  | noContact b => exact isTrue (fun _ => ⟨fun w e => (by cases e), fun w e => (by cases e)⟩)

theorem term_setRepl (s : Node) (r : Repl) : (s.setRepl r).term = s.term := rfl

theorem term_checkConfigAction (f : Nat) (s : Node) (t : Nat) (c : Config) (id : Nat) :
    (checkConfigAction f s t c id).term = s.term := by
  have := (termVote_frame.block f).2.2.2.2.2.1 s t c id
  simp only [Prod.mk.injEq] at this
  exact this.1

/-- the loop of `checkReplUpdates` -/
theorem i_replUpdLoop (hFT : F ∨ T = true) (us : List ReplUpdate) : ∀ (s : Node) (f : UpdFlags), I F T true true RT s₀ s → s.term = s₀.term →
    (∀ u ∈ us, UpdOk s₀ u) → I F T true true RT s₀ (replUpdLoop s f us).1 := by
  induction us with
  | nil => intro s f h _ _; exact h
  | cons u us ih =>
    intro s f h ht hu
    have hu' : ∀ u ∈ us, UpdOk s₀ u := fun x hx => hu x (List.mem_cons_of_mem _ hx)
    have hu0 := hu u List.mem_cons_self
    unfold replUpdLoop
    split
    · exact ih _ _ h ht hu'
    · rename_i hrem
      have hrem' : u.removed = false := by simpa using hrem
      split
      · exact ih _ _ h ht hu'
      · rename_i st hst
        split
        · rename_i v hv
          dsimp only
          have h1 : I F T true true RT s₀ (s.setRepl { st with matchIndex := v }) :=
            i_setRepl _ st u.id h hst rfl (fun _ hp => by
              have := (hu0 hrem').1 v hv
              have := (h.ldr rfl hp).lastMono
              show v ≤ s.lastLogIndex
              omega)
          split
          · refine ih _ _ (i_checkConfigAction_latest hFT 0 _ _ h1) ?_ hu'
            rw [term_checkConfigAction]; exact ht
          · exact ih _ _ h1 ht hu'
        · rename_i v hv
          exact ih _ _ (i_setRepl_same _ st u.id h hst rfl rfl) ht hu'
        · rename_i b hv
          exact ih _ _ (i_setRepl_same _ st u.id h hst rfl rfl) ht hu'
        · rename_i v hv
          dsimp only
          refine i_setTerm v ((i_setLeader 0 (i_toFollower h)).mono (fun _ _ => trivial)) (fun _ => ?_)
          have := (hu0 hrem').2 v hv
          show s.term ≤ v
          omega

/-- `leader.checkLogCompact` -/
theorem i_checkLogCompact (h : I F T true lc R s₀ s) : I F T true lc R s₀ s.checkLogCompact := by
  unfold Node.checkLogCompact
  split
  · exact h
  · exact i_compactLog _ h (fun hp => (h.core hp).1.removeLTE_le) (fun _ _ => Nat.le_refl _)

/-- `leader.checkReplUpdates` -/
theorem i_checkReplUpdates (hFT : F ∨ T = true) (us : List ReplUpdate) (h : I F T true true RT s₀ s) (ht : s.term = s₀.term)
    (hu : ∀ u ∈ us, UpdOk s₀ u) : I F T true true RT s₀ (s.checkReplUpdates us) := by
  unfold Node.checkReplUpdates
  extract_lets r s1 f s2 s3 s4
  have h1 : I F T true true RT s₀ s1 := i_replUpdLoop hFT us s {} h ht hu
  split
  · exact h1
  · have h2 : I F T true true RT s₀ s2 := by
      unfold s2; split
      · exact i_onMajorityCommit hFT 0 h1
      · exact h1
    have h3 : I F T true true RT s₀ s3 := by
      unfold s3; split
      · exact i_checkQuorum h2
      · exact h2
    have h4 : I F T true true RT s₀ s4 := by
      unfold s4; split
      · exact i_checkLogCompact h3
      · exact h3
    split
    · exact i_tryTransfer h4
    · exact h4

/-! ## `leader.init` -/

/-- the invariant relative to the current state -/
theorem I.rebase (h : I F T lr lc R s₀ s) : I F T lr lc R s s :=
  ⟨h.pf, h.role, ⟨h.res.1, rfl⟩,
   fun hp => let ⟨c, hcl, _, _⟩ := h.ord hp; ⟨c, hcl, Nat.le_refl _, Nat.le_refl _⟩,
   h.glob, fun hl hp => (h.ldr hl hp).rebase, h.cache⟩

theorem get_of_isVoter {c : Config} {id : Nat} (h : c.isVoter id = true) : (c.get id).voter = true := by
  unfold Config.isVoter at h
  unfold Config.get
  cases hf : c.find? id with
  | none => rw [hf] at h; cases h
  | some n => rw [hf] at h; exact h

/-- one iteration of the "add replications" loop of `leader.init` -/
theorem i_initBody (n : CNode) (h : I F T true false R s₀ s) : I F T true false R s₀ (LC.initBody s n) := by
  unfold LC.initBody
  split
  · exact h
  · rename_i hne
    exact i_addReplication n h hne

/-- **`leader.init` establishes the leader part of the invariant** for a node that has just won an election:
`leader = nid` and it is a voter of its latest configuration. -/
theorem i_leaderInit (hFT : F ∨ T = true) (h : I F T false false R s₀ s) (hr : s.role = .leader)
    (hl : s.panicked = none → s.leader = s.nid ∧ s.configs.latest.isVoter s.nid = true) :
    I F T true true RT s s.leaderInit := by
  have hb := h.rebase
  unfold Node.leaderInit
  extract_lets s1 s2 s3 s4
  have e1 : s1 = s := assert_eq_self _ (fun hp => by simpa using (hl hp).1)
  have h2 : I F T true false RT s s2 := by
    unfold s2
    rw [e1]
    refine (i_withLdr _ hb (fun hp => (hb.core hp).1.prev_le_snap) (fun _ hp => ?_) (fun hc _ => Bool.noConfusion hc)).mono
      (fun _ _ => trivial)
    obtain ⟨c, hcl⟩ := hb.core hp
    have g := hb.glob hp
    have hv := (hl hp).2
    have := c.applied_le_commit
    refine ⟨Nat.le_refl _, ⟨s.lastLogIndex + 1, (by show s.fsm.index < _; omega), rfl⟩, (fun r hr => by cases hr),
      (fun h0 => absurd rfl h0), ?_, g.cfgL.1.2 (get_of_isVoter hv), (fun _ _ => hv), ?_, Nat.le_refl _⟩
    · show s.role ≠ .candidate
      rw [hr]; exact fun x => by cases x
    · obtain ⟨n, hn, _⟩ := isVoter_mem hv
      intro e
      have e' : s.configs.latest.nodes = [] := e
      rw [e'] at hn
      cases hn
  have h3 : I F T true true RT s s3 := by
    have h3' : I F T true false RT s s3 := i_foldl _ (fun x n hx => i_initBody n hx) _ _ h2
    refine ⟨h3'.pf, h3'.role, h3'.res, h3'.ord, h3'.glob, h3'.ldr, fun _ _ => ?_⟩
    exact LC.cache_initSync s
  have h4 : I F T true true RT s s4 := i_checkConfigActions_latest hFT 0 _ h3
  refine i_storeEntry hFT [{ typ := etNop }] h4 ?_
  intro q hq ht
  rw [List.mem_singleton.mp hq] at ht
  exact absurd ht (by decide)

theorem i_leaderReleaseRest {x : Node} (h : I F T false false R s₀ x) : I F T false false R s₀ x.leaderReleaseRest := by
  unfold Node.leaderReleaseRest
  extract_lets s1 err s2 s3
  have h1 : I F T false false R s₀ s1 := by
    unfold s1; split
    · exact i_setLeader 0 h
    · exact h
  have h2 : I F T false false R s₀ s2 := i_foldl _ (fun y (q : QItem) hy => i_reply q.task err hy) _ _ h1
  have h3 : I F T false false R s₀ s3 := i_foldl _ (fun y (t : Nat) hy => i_reply t err hy) _ _ h2
  exact i_withLdr _ h3 (fun hp => (h3.core hp).1.removeLTE_le) (fun hc _ => Bool.noConfusion hc)
    (fun hc _ => Bool.noConfusion hc)

/-- `leader.release` -/
theorem i_leaderRelease (h : I F T lr lc R s₀ s) : I F T false false R s₀ s.leaderRelease := by
  unfold Node.leaderRelease
  apply i_leaderReleaseRest
  split
  · unfold Node.transferReply
    have h1 := i_reply s.ldr.transfer.task s.releaseResult h.drop
    exact i_withLdr _ h1 (fun hp => (h1.core hp).1.removeLTE_le) (fun hc _ => Bool.noConfusion hc)
      (fun hc _ => Bool.noConfusion hc)
  · exact h.drop

/-! # part Follower -/
theorem I.toRT (h : I F T lr lc R s₀ s) : I F T lr lc RT s₀ s := h.mono (fun _ _ => trivial)

theorem I.dropL (h : I F T lr lc R s₀ s) : I F T false lc R s₀ s := h.weaken (fun e => Bool.noConfusion e) id

/-! ## votes, timeouts -/

/-- `Raft.onVoteRequest` -/
theorem i_onVoteRequest (q : VoteReq) (h : I F T lr lc R s₀ s) (hRf : R .follower) : I F T lr lc R s₀ (s.onVoteRequest q) := by
  unfold Node.onVoteRequest
  split
  · exact i_ret _ h (by decide)
  · split
    · exact i_ret _ h (by decide)
    · rename_i hlt
      extract_lets vf tm s1
      have h1 : I F T lr lc R s₀ s1 := by
        unfold s1; split
        · exact (i_toFollower h).mono (fun r hr => by rw [hr]; exact hRf)
        · exact h
      have hterm : s1.term = s.term := by unfold s1; split <;> rfl
      have htm : s1.term ≤ tm := by rw [hterm]; unfold tm; split <;> omega
      have hv : ∀ c, I F T lr lc R s₀ (s1.setVotedFor tm c) := fun c => i_setVotedFor tm c h1 (fun _ => htm)
      split
      · refine i_ret _ (hv _) ?_
        split <;> decide
      · split
        · exact i_ret _ (hv _) (by decide)
        · exact i_ret _ (hv _) (by decide)

/-- `Raft.onTimeoutNowRequest`: refused by a non-voter, else the node becomes candidate -/
theorem i_onTimeoutNow (h : I F T lr lc R s₀ s) :
    I F T lr lc R s₀ s.onTimeoutNow ∨ I F T false false (fun r => r = .candidate) s₀ s.onTimeoutNow := by
  unfold Node.onTimeoutNow
  split
  · exact Or.inl (i_ret _ h (by decide))
  · rename_i hv
    refine Or.inr (i_ret _ (i_candTransfer true (i_setLeader 0 (i_toCandidate h (fun _ => ?_)))) (by decide))
    cases hx : s.configs.latest.isVoter s.nid with
    | true => rfl
    | false => rw [hx] at hv; exact absurd rfl hv

/-- `follower.onTimeout` -/
theorem i_followerTimeout (h : I F T lr lc R s₀ s) (hr : s.role = .follower) : I F T false false RN s₀ s.followerTimeout := by
  unfold Node.followerTimeout
  dsimp only
  split
  · rename_i hc
    refine (i_toCandidate (i_setLeader 0 h) (fun _ => ?_)).mono (fun r hr => by rw [hr]; exact fun x => by cases x)
    unfold Node.canStartElection at hc
    simp only [Bool.and_eq_true] at hc
    exact hc.2
  · refine ⟨(i_setLeader 0 h).pf, ?_, (i_setLeader 0 h).res, (i_setLeader 0 h).ord, (i_setLeader 0 h).glob,
      fun hl _ => Bool.noConfusion hl, fun hl _ => Bool.noConfusion hl⟩
    show s.role ≠ .leader
    rw [hr]; exact fun x => by cases x

/-- a node that has just become leader: `leader = nid`, and it is a voter of its latest configuration -/
def NewLeader (s : Node) : Prop :=
  s.panicked = none → s.role = .leader → s.leader = s.nid ∧ s.configs.latest.isVoter s.nid = true

/-- `candidate.startElection` (a candidate is a voter of its latest configuration) -/
theorem i_startElection (h : I F T lr lc R s₀ s) (hr : s.role = .candidate) :
    I F T false false RT s₀ s.startElection ∧ NewLeader s.startElection := by
  unfold Node.startElection
  extract_lets s1 s2 s3 s4
  have e1 : s1 = s := assert_eq_self _ (fun hp => (h.glob hp).cand hr)
  have h2 : I F T false false R s₀ s2 := by unfold s2; rw [e1]; exact i_votesNeeded _ h.drop
  have h3 : I F T false false R s₀ s3 := i_setVotedFor _ _ h2 (fun _ => Nat.le_succ _)
  have h4 : I F T false false R s₀ s4 := i_votesNeeded _ h3
  have hrole : s4.role = .candidate := by
    show s3.role = _
    unfold s3; rw [LC.role_setVotedFor]
    show s1.role = _
    rw [e1]; exact hr
  split
  · refine ⟨(i_toLeader h4).toRT, fun hp _ => ⟨rfl, ?_⟩⟩
    exact (h4.glob hp).cand hrole
  · exact ⟨h4.toRT, fun _ hl => by rw [hrole] at hl; cases hl⟩

/-- `candidate.onVoteResult` -/
theorem i_onVoteResult (e : Bool) (t r : Nat) (h : I F T lr lc R s₀ s) (hr : s.role = .candidate) :
    I F T false false RT s₀ (s.onVoteResult e t r) ∧ NewLeader (s.onVoteResult e t r) := by
  unfold Node.onVoteResult
  split
  · exact ⟨h.drop.toRT, fun _ hl => by rw [hr] at hl; cases hl⟩
  · split
    · rename_i hgt
      refine ⟨(i_setTerm t (i_toFollower h.drop) (fun _ => Nat.le_of_lt hgt)).toRT, fun _ hl => ?_⟩
      rw [LC.role_setTerm] at hl
      cases hl
    · split
      · dsimp only
        have h1 := i_votesNeeded (s.votesNeeded - 1) h.drop
        split
        · exact ⟨(i_toLeader h1).toRT, fun hp _ => ⟨rfl, (h1.glob hp).cand hr⟩⟩
        · exact ⟨h1.toRT, fun _ hl => by have hl' : s.role = .leader := hl; rw [hr] at hl'; cases hl'⟩
      · exact ⟨h.drop.toRT, fun _ hl => by rw [hr] at hl; cases hl⟩

/-! ## small task handlers -/

theorem i_onTakeSnapshot (t th : Nat) (h : I F T lr lc R s₀ s) : I F T lr lc R s₀ (s.onTakeSnapshot t th) := by
  unfold Node.onTakeSnapshot
  split
  · exact i_reply _ _ h
  · exact i_snapPending _ h

theorem i_rejectEntries (bt : List QItem) (h : I F T lr lc R s₀ s) : I F T lr lc R s₀ (s.rejectEntries bt) := by
  induction bt generalizing s with
  | nil => exact h
  | cons q qs ih =>
    unfold Node.rejectEntries
    dsimp only
    apply ih
    split
    · exact i_reply _ _ h
    · exact i_reply _ _ h

/-- `replyRPC`: the result is never `unexpectedErr` -/
theorem i_rpcDone (a b : Bool) (h : I F T lr lc R s₀ s) : I F T lr lc R s₀ (s.rpcDone a b) := by
  unfold Node.rpcDone
  split
  · rename_i he
    exact absurd he h.res.1
  · exact i_rpcReply _ h

/-! ## snapshots -/

/-- the snapshot goroutine -/
theorem i_snapRun (h : I F T lr lc R s₀ s) : I F T lr lc R s₀ s.snapRun := by
  unfold Node.snapRun
  split
  · exact h
  · dsimp only
    have h0 := i_snapPending none h
    split
    · exact i_snapResult _ h0 (fun _ rs hrs => by injection hrs with hrs; rw [← hrs]; exact Nat.zero_le _)
    · split
      · exact i_snapResult _ h0 (fun _ rs hrs => by injection hrs with hrs; rw [← hrs]; exact Nat.zero_le _)
      · refine i_snapResult _ (i_publishSnapshot _ h0 (fun hp => ?_)) (fun _ rs hrs => ?_)
        · exact ⟨(h0.core hp).1.snap_le_applied, Nat.le_refl _⟩
        · injection hrs with hrs; rw [← hrs]; exact Nat.le_refl _

/-- the leader part survives a change of the log start and of the compaction bound that keeps the view constructible -/
theorem LdrR.reprev {s₀ s s' : Node} (l : LdrR s₀ s) (hp : s'.log.prev ≤ s'.ldr.removeLTE)
    (eq : s'.ldr.queue = s.ldr.queue) (er : s'.ldr.repls = s.ldr.repls) (et : s'.ldr.transfer = s.ldr.transfer)
    (e3 : s'.fsm.index = s.fsm.index) (e4 : s'.lastLogIndex = s.lastLogIndex) (e5 : s'.nid = s.nid)
    (e6 : s'.role = s.role) (e7 : s'.configs = s.configs) : LdrR s₀ s' :=
  ⟨hp, by rw [eq, e3, e4]; exact l.queue, by rw [er, e4]; exact l.matchLe, by rw [et, e5]; exact l.target,
   by rw [e6]; exact l.notCand, by rw [e5, e7]; exact l.selfNP, by rw [e5, e6, e7]; exact l.lv,
   by rw [e7]; exact l.nonempty, by rw [e4]; exact l.lastMono⟩

/-- `Raft.onSnapshotTaken`: compaction and the new compaction bound keep the views constructible -/
theorem i_onSnapshotTaken (h : I F T lr lc R s₀ s) (hrl : lr = true → s.role = .leader) : I F T lr lc R s₀ s.onSnapshotTaken := by
  cases hr : s.snapResult with
  | none => unfold Node.onSnapshotTaken; rw [hr]; exact h
  | some rs =>
    unfold Node.onSnapshotTaken
    rw [hr]
    dsimp -zeta only
    extract_lets s0 repls nowC0 canC0 nowC canC s1 src s2
    have h0 : I F T lr lc R s₀ s0 := i_snapResult none h (fun _ rs hrs => by cases hrs)
    have hrs : s0.panicked = none → rs.index ≤ s0.snapIndex := fun hp => (h.core hp).1.snapRes_le rs hr
    split
    · exact i_reply _ _ h0
    · apply i_reply
      unfold s2
      split
      · have hb0 : nowC0 ≤ rs.index := C09.foldl_le_init _ (fun m r => by split <;> omega) _ _
        have hc0 : canC0 ≤ rs.index := C09.foldl_le_init _ (fun m r => by split <;> omega) _ _
        have hnow : s0.panicked = none → nowC ≤ s0.snapIndex := fun hp =>
          Order.canLTE_le_of (h0.core hp).1.segs (h0.core hp).1.prev_le_snap (by have := hrs hp; omega)
        have hcan : s0.panicked = none → canC ≤ s0.snapIndex := fun hp =>
          Order.canLTE_le_of (h0.core hp).1.segs (h0.core hp).1.prev_le_snap (by have := hrs hp; omega)
        have hs1 : I F T false lc R s₀ s1 := by
          unfold s1; split
          · exact i_compactLog _ h0.dropL hnow (fun hl _ => Bool.noConfusion hl)
          · exact h0.dropL
        have e1 : s1.snapIndex = s0.snapIndex := by unfold s1; split <;> rfl
        have e2 : s1.panicked = s0.panicked := by unfold s1; split <;> rfl
        have e3 : s1.ldr = s0.ldr ∧ s1.fsm = s0.fsm ∧ s1.lastLogIndex = s0.lastLogIndex ∧ s1.nid = s0.nid ∧
            s1.role = s0.role ∧ s1.configs = s0.configs := by
          unfold s1; split <;> exact ⟨rfl, rfl, rfl, rfl, rfl, rfl⟩
        -- where the log starts after the compaction
        have hprev : s0.panicked = none → s0.log.prev ≤ canC ∧ (s1.log.prev ≤ nowC ∨ s1.log.prev = s0.log.prev) := by
          intro hp
          have hseg := (h0.core hp).1.segs
          refine ⟨(C09.canLTE_bounds s0.log canC0 hseg).2.1, ?_⟩
          unfold s1
          split
          · rename_i hgt
            obtain ⟨_, _, _, hor, _⟩ := C09.removeLTE_whole_segments s0.log nowC hseg
            rcases hor with e | e
            · exact Or.inr e
            · exact Or.inl e
          · exact Or.inr rfl
        split
        · rename_i hgt
          have hw : I F T lr lc R s₀ (s1.withLdr { s1.ldr with removeLTE := canC }) := by
            refine i_withLdr _ hs1 (fun hp => by rw [e1]; exact hcan (by rw [← e2]; exact hp)) (fun hl hp => ?_) (fun hl hp => ?_)
            · have hp0 : s0.panicked = none := by rw [← e2]; exact hp
              have hpc : s1.log.prev ≤ canC := by
                obtain ⟨a, b⟩ := hprev hp0
                rcases b with b | b <;> omega
              exact (h0.ldr hl hp0).reprev hpc (by show s1.ldr.queue = _; rw [e3.1])
                (by show s1.ldr.repls = _; rw [e3.1])
                (by show s1.ldr.transfer = _; rw [e3.1])
                (by show s1.fsm.index = _; rw [e3.2.1]) e3.2.2.1 e3.2.2.2.1 e3.2.2.2.2.1 e3.2.2.2.2.2
            · exact LC.cldr _ (hs1.cache hl hp) rfl rfl rfl
          refine i_notifyFlr hw (fun hp => Or.inr ?_)
          obtain ⟨a, b⟩ := hprev (by rw [← e2]; exact hp)
          show s1.log.prev ≤ canC
          rcases b with b | b <;> omega
        · rename_i hngt
          split
          · have hw : I F T lr lc R s₀ (s1.withLdr { s1.ldr with removeLTE := s1.log.prev }) := by
              refine i_withLdr _ hs1 (fun hp => (hs1.core hp).1.prev_le_snap) (fun hl hp => ?_) (fun hl hp => ?_)
              · have hp0 : s0.panicked = none := by rw [← e2]; exact hp
                exact (h0.ldr hl hp0).reprev (Nat.le_refl _) (by show s1.ldr.queue = _; rw [e3.1])
                  (by show s1.ldr.repls = _; rw [e3.1])
                  (by show s1.ldr.transfer = _; rw [e3.1])
                  (by show s1.fsm.index = _; rw [e3.2.1]) e3.2.2.1 e3.2.2.2.1 e3.2.2.2.2.1 e3.2.2.2.2.2
              · exact LC.cldr _ (hs1.cache hl hp) rfl rfl rfl
            exact i_notifyFlr hw (fun _ => Or.inr (Nat.le_refl _))
          · rename_i hnl
            refine ⟨hs1.pf, hs1.role, hs1.res, hs1.ord, hs1.glob, fun hl hp => ?_, hs1.cache⟩
            have hp0 : s0.panicked = none := by rw [← e2]; exact hp
            have hrole : s1.role = .leader := by rw [e3.2.2.2.2.1]; exact hrl hl
            refine (h0.ldr hl hp0).reprev ?_ (by rw [e3.1]) (by rw [e3.1]) (by rw [e3.1]) (by rw [e3.2.1]) e3.2.2.1
              e3.2.2.2.1 e3.2.2.2.2.1 e3.2.2.2.2.2
            have : ¬ s1.ldr.removeLTE < s1.log.prev := fun hlt => hnl ⟨hrole, hlt⟩
            omega
      · exact h0

/-! # part Follower2 -/
/-! ## append entries -/

/-- the payload of a configuration entry, if any, is a configuration node `nid` can hold -/
def cfgOkOpt (T : Bool) (nid : Nat) : Option Config → Prop
  | none => False
  | some c => CfgOk T nid c

instance (T : Bool) (nid : Nat) (o : Option Config) : Decidable (cfgOkOpt T nid o) := by
  cases o <;> unfold cfgOkOpt <;> infer_instance

theorem cfgOkOpt.get {T : Bool} {nid : Nat} {o : Option Config} (h : cfgOkOpt T nid o) : ∃ c, o = some c ∧ CfgOk T nid c := by
  cases o with
  | none => exact absurd h id
  | some c => exact ⟨c, rfl, h⟩

/-- every configuration entry decodes to a configuration node `nid` can hold -/
def EntriesDec (T : Bool) (nid : Nat) (es : List Entry) : Prop := ∀ ne ∈ es, ne.typ = etConfig → cfgOkOpt T nid ne.cfg

instance (T : Bool) (nid : Nat) (es : List Entry) : Decidable (EntriesDec T nid es) := by unfold EntriesDec; infer_instance

theorem get?_some (l : NLog) (i : Nat) (h1 : l.prev < i) (h2 : i ≤ l.last) : ∃ e, l.get? i = some e := by
  unfold NLog.get?
  rw [if_pos h1]
  unfold NLog.last at h2
  have : i - l.prev - 1 < l.entries.length := by omega
  exact ⟨l.entries[i - l.prev - 1], List.getElem?_eq_getElem this⟩

theorem entryTerm?_some (h : I F T lr lc R s₀ s) (hp : s.panicked = none) (i : Nat) (h1 : s.snapIndex < i)
    (h2 : i ≤ s.lastLogIndex) : s.entryTerm? i ≠ none := by
  obtain ⟨c, _⟩ := h.core hp
  have := c.prev_le_snap; have := c.last_eq
  obtain ⟨e, he⟩ := get?_some s.log i (by omega) (by omega)
  unfold Node.entryTerm?
  rw [he]
  exact fun x => by cases x

theorem logDec_take {es : List Entry} (h : LogDec es) (n : Nat) : LogDec (es.take n) :=
  fun e he => h e (List.mem_of_mem_take he)

/-- "delete the conflicting entry and all that follow it" -/
theorem i_resolveConflict (ne : Entry) (pt : Nat) (h : I F T false false RF s₀ s)
    (hg : s.panicked = none → ne.index ≤ s.lastLogIndex →
      s.snapIndex < ne.index ∧ s.commitIndex < ne.index ∧ s.configs.committed.index < ne.index) :
    I F T false false RF s₀ (s.resolveConflict ne pt) := by
  have hord := Order.inv_resolveConflict ne pt h.ord hg
  unfold Node.resolveConflict at hord ⊢
  by_cases hle : ne.index ≤ s.lastLogIndex
  · rw [if_pos hle] at hord ⊢
    cases het : s.entryTerm? ne.index with
    | none =>
      dsimp only
      exact i_unreach _ h (fun hp => entryTerm?_some h hp ne.index (hg hp hle).1 hle het)
    | some tm =>
      rw [het] at hord
      dsimp only at hord ⊢
      have hrole : s.role = .follower := h.role
      by_cases hlat : ne.index ≤ (s.removeGTE ne.index pt).configs.latest.index
      · rw [if_pos hlat] at hord ⊢
        refine ⟨h.pf, h.role, h.res, hord, fun hp => ?_, fun hl _ => Bool.noConfusion hl, fun hl _ => Bool.noConfusion hl⟩
        have g := h.glob hp
        exact ⟨logDec_take g.logDec _, g.retain, g.snaps, (fun e => by rw [show (s.removeGTE ne.index pt).revertConfig.role = s.role from rfl, hrole] at e; cases e),
          g.cfgC, g.cfgC⟩
      · rw [if_neg hlat] at hord ⊢
        refine ⟨h.pf, h.role, h.res, hord, fun hp => ?_, fun hl _ => Bool.noConfusion hl, fun hl _ => Bool.noConfusion hl⟩
        have g := h.glob hp
        exact ⟨logDec_take g.logDec _, g.retain, g.snaps, (fun e => by rw [show (s.removeGTE ne.index pt).role = s.role from rfl, hrole] at e; cases e),
          g.cfgL, g.cfgC⟩
  · rw [if_neg hle]; exact h

theorem resolveConflict_last (s : Node) (ne : Entry) (pt : Nat) (hp : (s.resolveConflict ne pt).panicked = none) :
    (s.resolveConflict ne pt).lastLogIndex = (if ne.index ≤ s.lastLogIndex then ne.index - 1 else s.lastLogIndex) ∧
    s.panicked = none := by
  unfold Node.resolveConflict at hp ⊢
  by_cases hle : ne.index ≤ s.lastLogIndex
  · rw [if_pos hle] at hp ⊢
    rw [if_pos hle]
    cases het : s.entryTerm? ne.index with
    | none =>
      rw [het] at hp
      exact absurd hp (panic_panicked_ne _ _)
    | some tm =>
      rw [het] at hp
      dsimp only at hp ⊢
      constructor
      · split <;> rfl
      · split at hp <;> exact hp
  · rw [if_neg hle] at hp ⊢
    rw [if_neg hle]
    exact ⟨rfl, hp⟩

/-- the consistency check of `onAppendEntriesRequest` -/
theorem i_appendCheck (q : AppendReq) (h : I F T false false RF s₀ s) : I F T false false RF s₀ (s.appendCheck q) := by
  unfold Node.appendCheck
  split
  · rename_i hgt
    split
    · exact i_ret _ h (by decide)
    · rename_i hnl
      extract_lets s1 plt
      have h1 : I F T false false RF s₀ s1 := by
        unfold s1; split
        · exact h
        · rename_i hne
          split
          · exact h
          · rename_i hn
            exact i_unreach _ h (fun hp => entryTerm?_some h hp q.prevLogIndex hgt (by omega) hn)
      have e1 : s1.lastLogIndex = s.lastLogIndex ∧ s1.commitIndex = s.commitIndex := by
        unfold s1; split
        · exact ⟨rfl, rfl⟩
        · split
          · exact ⟨rfl, rfl⟩
          · exact ⟨(panic_fields _ _).2.1, (panic_fields _ _).2.2.2.1⟩
      split
      · exact i_ret _ h1 (by decide)
      · split
        · rename_i hcc
          refine i_ret _ (i_applyCommitted (i_setCommitIndexR _ h1 rfl (fun hp => ?_))) (by decide)
          have := (h1.core hp).1.applied_le_commit
          simp only [Node.canCommit, Bool.and_eq_true, decide_eq_true_eq] at hcc
          rw [e1.1]
          omega
        · exact i_ret _ h1 (by decide)
  · exact i_ret _ h (by decide)

/-- the loop of `onAppendEntriesRequest` over consecutive, decodable entries -/
theorem i_appendLoop (es : List Entry) : ∀ (st : AppLoop), I F T false false RF s₀ st.s → st.err = false →
    Order.chainB st.index es = true →
    (st.s.panicked = none → st.index ≤ st.s.lastLogIndex) →
    (st.s.panicked = none → ∀ ne ∈ es, ne.index ≤ st.s.lastLogIndex → st.s.snapIndex < ne.index →
      st.s.entryTerm? ne.index ≠ some ne.term →
      st.s.commitIndex < ne.index ∧ st.s.configs.committed.index < ne.index) →
    EntriesDec T s₀.nid es →
    I F T false false RF s₀ (appendLoop st es).s ∧ (appendLoop st es).err = false ∧
    ((appendLoop st es).s.panicked = none → (appendLoop st es).index ≤ (appendLoop st es).s.lastLogIndex) := by
  induction es with
  | nil => intro st hs he _ hidx _ _; unfold appendLoop; exact ⟨hs, he, hidx⟩
  | cons ne rest ih =>
    intro st hs he hch hidx hJ hD
    obtain ⟨hc1, hc2⟩ := Order.chainB_cons hch
    have hrest : ∀ x ∈ rest, ne.index < x.index := Order.chainB_gt rest ne.index hc2
    have hD' : EntriesDec T s₀.nid rest := fun x hx => hD x (List.mem_cons_of_mem _ hx)
    unfold appendLoop
    dsimp only
    rw [if_neg (by rw [he]; exact fun e => by cases e)]
    split
    · rename_i hsn
      refine ih _ hs he hc2 (fun hp => ?_) (fun hp x hx => hJ hp x (List.mem_cons_of_mem _ hx)) hD'
      obtain ⟨c, hcl⟩ := hs.core hp
      have h1 := c.snap_le_applied
      have h2 := c.applied_le_commit
      show ne.index ≤ st.s.lastLogIndex
      omega
    · rename_i hsn
      split
      · rename_i hpres
        refine ih _ hs he hc2 (fun _ => ?_) (fun hp x hx => hJ hp x (List.mem_cons_of_mem _ hx)) hD'
        simp only [Bool.and_eq_true, decide_eq_true_eq] at hpres
        exact hpres.1
      · rename_i hpres
        have hrc : I F T false false RF s₀ (st.s.resolveConflict ne st.term) := by
          refine i_resolveConflict ne st.term hs (fun hp hle => ?_)
          have hne : st.s.entryTerm? ne.index ≠ some ne.term := by
            intro he'
            apply hpres
            simp only [Bool.and_eq_true, decide_eq_true_eq, beq_iff_eq]
            exact ⟨hle, he'⟩
          have := hJ hp ne List.mem_cons_self hle (by omega) hne
          exact ⟨by omega, this.1, this.2⟩
        have hdec : ne.typ = etConfig → ne.cfg.isSome = true := by
          intro ht
          obtain ⟨c, hc, _⟩ := (hD ne List.mem_cons_self ht).get
          rw [hc]; rfl
        have h2 : I F T false false RF s₀ ((st.s.resolveConflict ne st.term).appendEntry ne) := by
          refine i_appendEntry ne hrc (fun hp => ?_) hdec (fun hl _ => Bool.noConfusion hl)
          obtain ⟨hrl, hp'⟩ := resolveConflict_last _ _ _ hp
          rw [hrl]
          have := hidx hp'
          split <;> omega
        have e2 : ((st.s.resolveConflict ne st.term).appendEntry ne).lastLogIndex = ne.index := rfl
        split
        · rename_i htyp
          obtain ⟨c, hc, hcok⟩ := (hD ne List.mem_cons_self htyp).get
          split
          · rename_i cfg hcfg
            have hci := Order.config?_index hcfg
            have hnodes : cfg.nodes = c.nodes := by
              unfold Entry.config? at hcfg
              rw [if_pos htyp, hc] at hcfg
              injection hcfg with hcfg
              rw [← hcfg]
            have e3 := (changeConfigR_fields ((st.s.resolveConflict ne st.term).appendEntry ne) cfg).2.1
            have h3 : I F T false false RF s₀ (((st.s.resolveConflict ne st.term).appendEntry ne).changeConfigR cfg) := by
              refine i_changeConfigR cfg h2 (fun _ => ?_) (fun hp => ?_) (fun hcand => ?_)
              · rw [h2.nidEq]; exact hcok.congr hnodes
              · have := (h2.core hp).1.latest_le_last
                rw [e2] at this
                exact ⟨by rw [hci]; exact this, by rw [hci, e2]; exact Nat.le_refl _⟩
              · have := h2.role
                rw [this] at hcand; cases hcand
            refine ih _ h3 he hc2 (fun _ => ?_) (fun _ x hx hle => ?_) hD'
            · show ne.index ≤ _
              rw [e3, e2]; exact Nat.le_refl _
            · have := hrest x hx
              rw [e3, e2] at hle
              omega
          · rename_i hcfg
            exfalso
            unfold Entry.config? at hcfg
            rw [if_pos htyp, hc] at hcfg
            cases hcfg
        · refine ih _ h2 he hc2 (fun _ => Nat.le_of_eq e2.symm) (fun _ x hx hle => ?_) hD'
          have := hrest x hx
          have hle' : x.index ≤ ne.index := hle
          omega

/-- what is asked of an append request that is not stale: the orderings' `AppendOk`, and decodable,
well-formed configuration entries -/
def AppendOk' (T : Bool) (s : Node) (q : AppendReq) : Prop := Order.AppendOk s q ∧ EntriesDec T s.nid q.entries

instance (T : Bool) (s : Node) (q : AppendReq) : Decidable (AppendOk' T s q) := by unfold AppendOk'; infer_instance

/-- `Raft.onAppendEntriesRequest` -/
theorem i_onAppendEntries (q : AppendReq) (h : I F T lr lc R s₀ s) (hok' : q.term < s.term ∨ AppendOk' T s q) :
    (q.term < s.term ∧ I F T lr lc R s₀ (s.onAppendEntries q)) ∨ (¬ q.term < s.term ∧ I F T false false RF s₀ (s.onAppendEntries q)) := by
  unfold Node.onAppendEntries
  split
  · rename_i hst
    exact Or.inl ⟨hst, i_ret _ h (by decide)⟩
  · rename_i hterm
    refine Or.inr ⟨hterm, ?_⟩
    have hok : AppendOk' T s q := by
      rcases hok' with h1 | h1
      · exact absurd h1 hterm
      · exact h1
    obtain ⟨hok1, hok2⟩ := hok
    extract_lets s1 s2 s3 st s4 s4c s5
    have hI2 : Order.Irr s s2 := by
      refine Order.Irr.trans ?_ ((Order.irr_setRole _ _).trans (Order.irr_setLeader _ _))
      unfold s1; split
      · exact (Order.irr_setTerm _ _).trans (Order.irr_setRole _ _)
      · exact Order.Irr.refl _
    have h1 : I F T false false RT s₀ s1 := by
      unfold s1; split
      · rename_i hgt
        exact (i_toFollower (i_setTerm _ h.drop (fun _ => Nat.le_of_lt hgt))).toRT
      · exact h.drop.toRT
    have h2 : I F T false false RF s₀ s2 := i_setLeader _ (i_toFollower h1)
    have h3 : I F T false false RF s₀ s3 := i_appendCheck q h2
    have hP : Order.Pre q.prevLogIndex s s3 := (Order.Pre.of_irr hI2).trans (Order.appendCheck_pre s2 q)
    split
    · exact h3
    · rename_i hres
      have hres' : s3.result = 0 := by
        cases hr : s3.result with
        | zero => rfl
        | succ n => exact absurd (by rw [hr]; exact Nat.succ_ne_zero n) hres
      obtain ⟨p1, p2, p3, p4, p5⟩ := hP
      have hL := i_appendLoop (s₀ := s₀) q.entries { s := s3, index := q.prevLogIndex, term := q.prevLogTerm }
        h3 rfl hok1.1 (fun hp => by
          obtain ⟨c, hcl⟩ := h3.core hp
          have := c.snap_le_applied; have := c.applied_le_commit
          obtain ⟨e1, _, e3, _⟩ := Order.obs_eq (Order.Irr.trans hI2 (Order.Irr.refl s2)).1
          have hr := Order.appendCheck_result s2 q hres'
          show q.prevLogIndex ≤ s3.lastLogIndex
          rw [p2]; rw [p3] at *; rw [p2] at *
          rw [e1, e3] at hr
          omega)
        (fun _ ne hne hle hsn hterm => by
          have hgt := Order.chainB_gt _ _ hok1.1 ne hne
          have hterm' : s.entryTerm? ne.index ≠ some ne.term := by
            unfold Node.entryTerm? at hterm ⊢
            rw [← p1]; exact hterm
          have := hok1.2 ne hne (by rw [← p2]; exact hle) (by rw [← p3]; exact hsn) hterm'
          exact ⟨by show s3.commitIndex < ne.index; omega, by show s3.configs.committed.index < ne.index; omega⟩)
        (by rw [← h.nidEq]; exact hok2)
      obtain ⟨hL1, hL2, hL3⟩ := hL
      have h4 : I F T false false RF s₀ s4 := hL1
      have herr : st.err = false := hL2
      have h5 : I F T false false RF s₀ s5 := by
        unfold s5
        split
        · split
          · rename_i hcc
            refine i_applyCommitted (i_setCommitIndexR _ (i_commitLog _ h4) rfl (fun hp => ?_))
            have hidx : st.index ≤ s4.lastLogIndex := hL3 hp
            have : s4c.fsm.index ≤ s4c.commitIndex := ((i_commitLog s4.lastLogIndex h4).core hp).1.applied_le_commit
            simp only [Node.canCommit, Bool.and_eq_true, decide_eq_true_eq] at hcc
            exact ⟨by omega, hidx⟩
          · exact i_commitLog _ h4
        · exact h4
      refine i_ret _ h5 ?_
      rw [herr]
      decide

/-! # part Step -/
/-! ## install snapshot -/

/-- what is asked of an install request that the handler does not ignore: the orderings' `InstallOk`, and a
label the receiver can hold -/
def InstallOk' (T : Bool) (s : Node) (q : InstallReq) : Prop := Order.InstallOk q ∧ CfgOk T s.nid q.lastConfig

instance (T : Bool) (s : Node) (q : InstallReq) : Decidable (InstallOk' T s q) := by unfold InstallOk'; infer_instance

theorem i_installPre (q : InstallReq) (h : I F T lr lc R s₀ s) (_hterm : ¬ q.term < s.term) :
    I F T false false RF s₀ (installPre s q) := by
  unfold installPre
  refine i_setLeader _ (i_toFollower (R := RT) ?_)
  split
  · rename_i hgt
    exact (i_toFollower (i_setTerm _ h.drop (fun _ => Nat.le_of_lt hgt))).toRT
  · exact h.drop.toRT

theorem discardTail_more2 (p : Node) (c : Config) :
    (C09.discardTail p c).role = p.role ∧ (C09.discardTail p c).nid = p.nid ∧ (C09.discardTail p c).retain = p.retain := by
  unfold C09.discardTail
  rw [commitConfig_eq, changeConfigR_eq, fsmRestore_eq]
  exact ⟨rfl, rfl, rfl⟩

theorem fsmRestore_panicked_of_some (x : Node) (hx : x.panicked ≠ none) : x.fsmRestore.panicked = x.panicked := by
  unfold Node.fsmRestore
  split
  · rw [panic_of_some _ hx]
  · split
    · rfl
    · rw [panic_of_some _ hx]

/-- `Raft.onInstallSnapRequest` -/
theorem i_onInstallSnap (q : InstallReq) (h : I F T lr lc R s₀ s)
    (hok : q.term < s.term ∨ q.lastIndex ≤ s.commitIndex ∨ InstallOk' T s q) :
    (q.term < s.term ∧ I F T lr lc R s₀ (s.onInstallSnap q)) ∨
    (¬ q.term < s.term ∧ I F T false false RF s₀ (s.onInstallSnap q)) := by
  have hord := Order.inv_onInstallSnap q h.ord (by
    rcases hok with a | a | a
    · exact Or.inl a
    · exact Or.inr (Or.inl a)
    · exact Or.inr (Or.inr a.1))
  by_cases hterm : q.term < s.term
  · left
    refine ⟨hterm, ?_⟩
    rw [onInstallSnap_eq, if_pos hterm]
    exact i_ret _ h (by decide)
  · right
    refine ⟨hterm, ?_⟩
    have hpre := i_installPre q h hterm
    by_cases hn : q.lastIndex ≤ s.commitIndex ∨ C09.keepsLog s q = true
    · rw [C09.install_nothing_shape s q hterm hn]
      exact i_ret _ hpre (by decide)
    · have hahead : s.commitIndex < q.lastIndex := by omega
      have hk : C09.keepsLog s q = false := by
        cases hkk : C09.keepsLog s q with
        | true => exact absurd (Or.inr hkk) hn
        | false => rfl
      have hio : InstallOk' T s q := by
        rcases hok with a | a | a
        · exact absurd a hterm
        · omega
        · exact a
      obtain ⟨e1, e2, _, e4, _, e6, e7, e8, e9, e10⟩ := C09.install_snapshot_discard s q hterm hahead hk
      have hshape := C09.install_discard_shape s q hterm hahead hk
      obtain ⟨m1, m2, m3⟩ := discardTail_more2 ((installPre s q).publishSnapshot (C09.fileOf q)) q.lastConfig
      have sd := sameData_installPre s q
      have hrole : (s.onInstallSnap q).role = .follower := by rw [hshape, m1]; rfl
      have hnid : (s.onInstallSnap q).nid = s.nid := by rw [hshape, m2]; exact sd.nid
      have hret : (s.onInstallSnap q).retain = s.retain := by rw [hshape, m3]; exact sd.retain
      by_cases hp : s.panicked = none
      · have g := h.glob hp
        obtain ⟨c, hcl⟩ := h.core hp
        have hh : ∀ x, s.snapsDisk.head? = some x → x.index ≤ q.lastIndex := by
          intro x hx
          have := g.snaps x (List.mem_of_mem_head? hx)
          have := c.snap_le_applied; have := c.applied_le_commit
          omega
        obtain ⟨_, hpan⟩ := C09.install_snapshot_discard_fsm_ok s q hterm hahead hk g.retain hh
        refine ⟨(by unfold PF; rw [hpan]; exact h.pf), hrole, ⟨(by rw [e10]; decide), (by rw [hnid]; exact h.nidEq)⟩, hord,
          fun _ => ?_, fun hl _ => Bool.noConfusion hl, fun hl _ => Bool.noConfusion hl⟩
        refine ⟨(by rw [e1]; exact fun x hx => by cases hx), (by rw [hret]; exact g.retain), ?_,
          (fun hc => by rw [hrole] at hc; cases hc), (by rw [hnid, e7]; exact hio.2), (by rw [hnid, e8]; exact hio.2)⟩
        rw [e9, e4]
        intro x hx
        rcases mem_of_mem_insertSnap (C09.fileOf q) x _ (List.mem_of_mem_take hx) with e | e
        · rw [e]; exact Nat.le_refl _
        · have := g.snaps x e
          have := c.snap_le_applied; have := c.applied_le_commit
          omega
      · refine h.of_failed hp (fun e => ?_) hrole ⟨(by rw [e10]; decide), (by rw [hnid]; exact h.nidEq)⟩
        -- nothing clears the recorded failure
        have hpre_f : (installPre s q).panicked = some "fuel" := by rw [C09.installPre_panicked]; exact e
        have hcl : (((installPre s q).publishSnapshot (C09.fileOf q)).clearLog).panicked = some "fuel" := by
          rw [(C09.discardPre_fields (installPre s q) (C09.fileOf q)).1]; exact hpre_f
        rw [hshape, (C09.discardTail_fields _ _).2.2.2.2.2.2.2.2.2.2.1,
          fsmRestore_panicked_of_some _ (by rw [hcl]; exact fun x => by cases x)]
        exact hcl

/-! ## bootstrap -/

theorem i_withLast (i t : Nat) (h : I F T false false R s₀ s) (hg : s.panicked = none → s.lastLogIndex = i) :
    I F T false false R s₀ (s.withLast i t) :=
  ⟨h.pf, h.role, h.res, Order.inv_withLast i t h.ord hg, fun hp => (h.glob hp).congr rfl rfl rfl rfl rfl rfl rfl,
   fun hl _ => Bool.noConfusion hl, fun hl _ => Bool.noConfusion hl⟩

/-- `Raft.bootstrap`: on a node with an empty log and term at most 1 -/
theorem i_bootstrap (t : Nat) (c : Config) (h : I F T lr lc R s₀ s) (hr : s.role ≠ .leader) (hu : UserCfg T s.nid c)
    (hb : s.configs.isBootstrapped = true ∨ (s.lastLogIndex = 0 ∧ s.term ≤ 1)) :
    I F T false false RN s₀ (s.bootstrap t c) := by
  have hd : I F T false false RN s₀ s := h.drop.mono (fun _ _ => hr) |> fun x => ⟨x.pf, hr, x.res, x.ord, x.glob, x.ldr, x.cache⟩
  unfold Node.bootstrap
  split
  · exact i_reply _ _ hd
  · rename_i hnb
    have hb' : s.lastLogIndex = 0 ∧ s.term ≤ 1 := by
      rcases hb with a | a
      · exact absurd a hnb
      · exact a
    split
    · exact i_reply _ _ hd
    · rename_i hvalid
      split
      · exact i_reply _ _ hd
      · rename_i self hself
        split
        · exact i_reply _ _ hd
        · rename_i hvoter
          split
          · exact i_reply _ _ hd
          · rename_i hstable
            dsimp only
            have hsv : self.voter = true := by simpa using hvoter
            have hst : c.isStable = true := by simpa using hstable
            have hmem := find_spec hself
            have hact : self.action = actNone := by
              unfold Config.isStable at hst
              have := List.all_eq_true.mp hst self hmem.1
              simpa using this
            have hanch : AnchoredT T c := anchoredT_of_sorted hu.1 (List.any_eq_true.mpr ⟨self, hmem.1, by simp [hsv, hact]⟩) hu.2.2
            have hget : c.get s.nid = self := by unfold Config.get; rw [hself]; rfl
            have hcok : CfgOk T s.nid ({ c with index := 1, term := 1 } : Config) := by
              refine CfgOk.congr (c := c) ⟨⟨?_, ?_⟩, fun _ => hanch⟩ rfl
              · rw [hget, hact]; decide
              · intro _; rw [hget, hact]; decide
            have hisv : ({ c with index := 1, term := 1 } : Config).isVoter s.nid = true := by
              have := isVoter_congr (c := c) (c' := ({ c with index := 1, term := 1 } : Config)) rfl s.nid
              rw [this]
              unfold Config.isVoter; rw [hself]; exact hsv
            -- storage.bootstrap
            have h1 : I F T false false RN s₀ (s.appendEntry ({ c with index := 1, term := 1 } : Config).toEntry) :=
              i_appendEntry _ hd (fun _ => by rw [hb'.1]; rfl) (fun _ => rfl) (fun hl _ => Bool.noConfusion hl)
            have h2 := i_commitLog 1 h1
            have hterm : ((s.appendEntry ({ c with index := 1, term := 1 } : Config).toEntry).commitLog 1).term = s.term := by
              show (s.appendEntry _).term = _
              unfold Node.appendEntry
              show (s.assert _ _).term = _
              unfold Node.assert Node.panic
              repeat' split
              all_goals rfl
            have h3 := i_setTerm 1 h2 (fun _ => by rw [hterm]; exact hb'.2)
            have hidx : (((s.appendEntry ({ c with index := 1, term := 1 } : Config).toEntry).commitLog 1).setTerm 1).lastLogIndex = 1 := by
              rw [(Order.obs_eq (Order.irr_setTerm _ 1).1).1]; rfl
            have h4 := i_withLast 1 1 h3 (fun _ => hidx)
            have hnid4 : ((((s.appendEntry ({ c with index := 1, term := 1 } : Config).toEntry).commitLog 1).setTerm 1).withLast 1 1).nid = s.nid := by
              rw [h4.nidEq, h.nidEq]
            have h5 := i_changeConfigR ({ c with index := 1, term := 1 } : Config) h4 (fun _ => by rw [hnid4]; exact hcok)
              (fun hp => ⟨(h4.core hp).1.latest_le_last, Nat.le_refl _⟩) (fun _ => by rw [hnid4]; exact hisv)
            have h6 := i_reply t "ok" h5
            refine (i_toCandidate h6 (fun _ => ?_)).mono (fun r hr => by rw [hr]; exact fun x => by cases x)
            have e1 : (((((s.appendEntry ({ c with index := 1, term := 1 } : Config).toEntry).commitLog 1).setTerm 1).withLast 1 1).changeConfigR
                ({ c with index := 1, term := 1 } : Config)).configs.latest = ({ c with index := 1, term := 1 } : Config) :=
              (LC.changeConfigR_frame _ _).2.2
            have e2 : ((((((s.appendEntry ({ c with index := 1, term := 1 } : Config).toEntry).commitLog 1).setTerm 1).withLast 1 1).changeConfigR
                ({ c with index := 1, term := 1 } : Config)).reply t "ok").configs =
                (((((s.appendEntry ({ c with index := 1, term := 1 } : Config).toEntry).commitLog 1).setTerm 1).withLast 1 1).changeConfigR
                ({ c with index := 1, term := 1 } : Config)).configs := (reply_fields _ _ _).2.2.2.2.2.2.2
            rw [e2, e1, h6.nidEq, ← h.nidEq]
            exact hisv

/-! ## shutdown -/

theorem i_releaseRole (r : Role) (h : I F T lr lc R s₀ s) : I F T false false R s₀ (s.releaseRole r) := by
  unfold Node.releaseRole
  split
  · exact h.drop
  · exact i_candTransfer _ h.drop
  · exact i_leaderRelease h

/-- `Shutdown` -/
theorem i_shutdown (h : I F T lr lc R s₀ s) : I F T false false R s₀ s.shutdown := by
  unfold Node.shutdown
  extract_lets s1 s2 s3
  have h1 : I F T lr lc R s₀ s1 := i_doClose _ h
  have h2 : I F T false false R s₀ s2 := i_releaseRole _ h1
  have h3 : I F T false false R s₀ s3 := by
    unfold s3; split
    · exact i_snapRun h2
    · exact h2
  split
  · exact i_onSnapshotTaken h3 (fun hl => Bool.noConfusion hl)
  · exact h3

/-! # part Main -/
/-! ## the state invariant and the request condition -/

/-- **The state invariant**: nothing has failed, the state is ordered (`Order.Ordered`, C19), the global part
`Glob` holds, and — for a node that is open (not shut down / removed) and leader — the leader part `LdrR` and
the caches (`LC.Cache`, i.e. `C06Cache.CacheOK`) hold. -/
structure Good (T : Bool) (s : Node) : Prop where
  noPanic : s.panicked = none
  ordered : Order.Ordered s
  glob : Glob T s
  leader : s.closed = "" → s.role = .leader → LdrR s s ∧ LC.Cache s

theorem CfgOk.weaken {nid : Nat} {c : Config} (h : CfgOk true nid c) : CfgOk false nid c :=
  ⟨h.1, fun hne => ⟨(h.2 hne).1, fun e => Bool.noConfusion e⟩⟩

/-- the two-anchor invariant implies the one-anchor invariant -/
theorem Good.weaken (h : Good true s) : Good false s :=
  ⟨h.noPanic, h.ordered,
   ⟨h.glob.logDec, h.glob.retain, h.glob.snaps, h.glob.cand, h.glob.cfgL.weaken, h.glob.cfgC.weaken⟩, h.leader⟩

/-- `Good` contains `C06Cache.LeaderCacheOpen` -/
theorem Good.leaderCacheOpen (h : Good T s) : C06Cache.LeaderCacheOpen s :=
  fun ho hl => (C06Cache.cacheOK_iff s).mpr (h.leader ho hl).2

/-- **What an incoming operation must satisfy** so that handling it cannot fail (beyond `Order.ReqOk`):
* `append` (not stale): `Order.AppendOk`, and every configuration entry decodes to a configuration the
  receiver can hold (`CfgOk T`: own action defined; if not empty an anchor voter — two when `T`);
* `install` (not stale, ahead of the commit index): `Order.InstallOk`, and such a label;
* `newEntries` to a leader: configuration items (the client API has none) carry a storable configuration;
* `changeConfig`: member ids strictly increasing, own action one of the five defined ones (when `T`: at least two
  voters without action); on a node that is not leader and not bootstrapped (`Raft.bootstrap` runs): empty log
  and term at most 1;
* `replUpdates` to a leader: match indexes within the leader's log, newer terms not below its term;
* `timeoutNowResult` with a transport error, to a leader awaiting it: the source has a replication.
Nothing is asked of votes, vote results, timeouts, snapshot events, transfers, `waitStable`, `shutdown`, nor of
the oracles (`rollAt`, `orders`). -/
def ReqOk' (T : Bool) (s : Node) : Op → Prop
  | .append q => q.term < s.term ∨ AppendOk' T s q
  | .install q => q.term < s.term ∨ q.lastIndex ≤ s.commitIndex ∨ InstallOk' T s q
  | .newEntries b => s.role = .leader → BatchOk T s.nid b
  | .changeConfig _ c =>
    UserCfg T s.nid c ∧ (s.role ≠ .leader → s.configs.isBootstrapped = true ∨ (s.lastLogIndex = 0 ∧ s.term ≤ 1))
  | .replUpdates us => s.role = .leader → ∀ u ∈ us, UpdOk s u
  | .timeoutNowResult src err _ =>
    s.role = .leader → s.ldr.transfer.respPending = true → err = true → s.findRepl? src ≠ none
  | _ => True

instance (T : Bool) (s : Node) (op : Op) : Decidable (ReqOk' T s op) := by
  cases op <;> unfold ReqOk' <;> infer_instance

/-- `ReqOk'` implies the request condition of the orderings -/
theorem ReqOk'.toReqOk {op : Op} (h : ReqOk' T s op) : Order.ReqOk s op := by
  cases op <;> unfold Order.ReqOk <;> try trivial
  case append q =>
    rcases h with a | a
    · exact Or.inl a
    · exact Or.inr a.1
  case install q =>
    rcases h with a | a | a
    · exact Or.inl a
    · exact Or.inr (Or.inl a)
    · exact Or.inr (Or.inr a.1)

/-! ## from `Good` to the step invariant -/

theorem i_begin (ra : List Nat) (ord : List (List Nat)) (h : Good T s) :
    I F T false false (fun r => r = s.role) s (s.begin ra ord) :=
  ⟨Or.inl rfl, rfl, ⟨(by decide : (0 : Nat) ≠ 11), rfl⟩, Order.inv_begin ra ord h.ordered,
   fun _ => h.glob.congr rfl rfl rfl rfl rfl rfl rfl, fun hl _ => Bool.noConfusion hl, fun hl _ => Bool.noConfusion hl⟩

theorem i_beginL (ra : List Nat) (ord : List (List Nat)) (h : Good T s) (ho : s.closed = "") (hl : s.role = .leader) :
    I F T true true (fun r => r = .leader) s (s.begin ra ord) :=
  ⟨Or.inl rfl, hl, ⟨(by decide : (0 : Nat) ≠ 11), rfl⟩, Order.inv_begin ra ord h.ordered,
   fun _ => h.glob.congr rfl rfl rfl rfl rfl rfl rfl,
   fun _ _ => (h.leader ho hl).1.congr rfl rfl rfl rfl rfl rfl rfl,
   fun _ _ => cache_congr (h.leader ho hl).2 rfl rfl rfl⟩

/-! ## what a handler leaves for the role transitions -/

/-- after a handler that started in role `cur`: the invariant (without leader part), a node that has just
become leader is a voter with `leader = nid`, a node that was and still is leader has its leader part -/
structure Post (F : Prop) (T : Bool) (s₀ : Node) (cur : Role) (h : Node) : Prop where
  inv : I F T false false RT s₀ h
  newLdr : cur ≠ .leader → NewLeader h
  oldLdr : cur = .leader → h.panicked = none → h.role = .leader → LdrR h h ∧ LC.Cache h

theorem Post.ofLeader {cur : Role} {x : Node} (h : I F T true true R s₀ x) (hc : cur = .leader) : Post F T s₀ cur x :=
  ⟨h.drop.toRT, fun hn => absurd hc hn, fun _ hp _ => ⟨(h.ldr rfl hp).rebase, h.cache rfl hp⟩⟩

theorem Post.ofNotLeader {cur : Role} {x : Node} (h : I F T lr lc R s₀ x) (hr : x.role ≠ .leader) : Post F T s₀ cur x :=
  ⟨h.drop.toRT, fun _ _ hl => absurd hl hr, fun _ _ hl => absurd hl hr⟩

theorem Post.ofNew {cur : Role} {x : Node} (h : I F T false false RT s₀ x) (hn : NewLeader x) (hc : cur ≠ .leader) :
    Post F T s₀ cur x :=
  ⟨h, fun _ => hn, fun e => absurd e hc⟩

/-- either the leader part survived, or the node is not leader any more -/
theorem Post.ofEither {cur : Role} {x : Node} (h : I F T lr lc R s₀ x) (hL : lr = true ∧ lc = true ∨ x.role ≠ .leader)
    (hc : cur = .leader) : Post F T s₀ cur x := by
  rcases hL with ⟨a, b⟩ | a
  · subst a; subst b; exact Post.ofLeader h hc
  · exact Post.ofNotLeader h a

theorem role_rpcDone (x : Node) (a b : Bool) : (x.rpcDone a b).role = x.role := C06Cache.role_rpcDone x a b

theorem term_begin (s : Node) (ra : List Nat) (ord : List (List Nat)) : (s.begin ra ord).term = s.term := rfl

/-- **every case of `handle`** from a good, open state, for an acceptable operation -/
theorem handle_post (hFT : F ∨ T = true) (op : Op) (ra : List Nat) (ord : List (List Nat)) (hG : Good T s) (ho : s.closed = "")
    (hr : ReqOk' T s op) (hop : op ≠ .shutdown) : Post F T s s.role ((s.begin ra ord).handle op) := by
  by_cases hl : s.role = .leader
  · -- a leader
    have hb := i_beginL (F := F) ra ord hG ho hl
    have hbT : I F T true true RT s (s.begin ra ord) := hb.toRT
    have hrole : (s.begin ra ord).role = .leader := hl
    cases op <;> unfold Node.handle <;> dsimp only
    case vote q =>
      exact Post.ofLeader (i_rpcDone _ _ (i_onVoteRequest q hbT trivial)) hl
    case append q =>
      rcases i_onAppendEntries q hbT hr with ⟨_, a⟩ | ⟨_, a⟩
      · exact Post.ofLeader (i_rpcDone _ _ a) hl
      · refine Post.ofNotLeader (i_rpcDone _ _ a) ?_
        rw [role_rpcDone, a.role]; exact fun x => by cases x
    case install q =>
      rcases i_onInstallSnap q hbT hr with ⟨_, a⟩ | ⟨_, a⟩
      · exact Post.ofLeader (i_rpcDone _ _ a) hl
      · refine Post.ofNotLeader (i_rpcDone _ _ a) ?_
        rw [role_rpcDone, a.role]; exact fun x => by cases x
    case timeoutNow =>
      rcases i_onTimeoutNow hbT with a | a
      · exact Post.ofLeader (i_rpcDone _ _ a) hl
      · refine Post.ofNotLeader (i_rpcDone _ _ a) ?_
        rw [role_rpcDone, a.role]; exact fun x => by cases x
    case identity a b c => exact Post.ofLeader (i_rpcReply _ hbT) hl
    case disconnected n =>
      split
      · exact Post.ofLeader (i_setLeader 0 hbT) hl
      · exact Post.ofLeader hbT hl
    case timeout =>
      rw [hrole]
      exact Post.ofLeader (i_checkQuorum hbT) hl
    case newEntries b =>
      rw [if_pos hrole]
      exact Post.ofLeader (i_storeEntry hFT b hbT (hr hl)) hl
    case changeConfig t c =>
      rw [if_pos hrole]
      exact Post.ofLeader (i_onChangeConfig hFT t c hbT hrole hr.1) hl
    case takeSnapshot t th => exact Post.ofLeader (i_onTakeSnapshot t th hbT) hl
    case snapRun => exact Post.ofLeader (i_snapRun hbT) hl
    case snapTaken => exact Post.ofLeader (i_onSnapshotTaken hbT (fun _ => hrole)) hl
    case waitStable t =>
      rw [if_pos hrole]
      exact Post.ofLeader (i_onWaitForStable t hbT) hl
    case transfer t g =>
      rw [if_pos hrole]
      exact Post.ofLeader (i_onTransfer t g hbT) hl
    case voteResult e t r =>
      rw [if_neg (by rw [hrole]; exact fun x => by cases x)]
      exact Post.ofLeader hbT hl
    case replUpdates us =>
      rw [if_pos hrole]
      exact Post.ofLeader (i_checkReplUpdates hFT us hbT rfl (hr hl)) hl
    case transferTimeout =>
      split
      · exact Post.ofLeader (i_replyTransfer hFT _ hbT) hl
      · exact Post.ofLeader hbT hl
    case timeoutNowResult a b c =>
      split
      · rename_i hc
        exact Post.ofLeader (i_onTimeoutNowResult hFT a b c hbT (fun hb' _ => hr hl hc.2 hb')) hl
      · exact Post.ofLeader hbT hl
    case newTermTimeout =>
      split
      · exact Post.ofLeader (i_tryTransfer (i_ldrMisc _ hbT rfl rfl rfl rfl (fun _ hp => (hbT.ldr rfl hp).queue)
          (fun _ hp => (hbT.ldr rfl hp).target))) hl
      · exact Post.ofLeader hbT hl
    case shutdown => exact absurd rfl hop
  · -- not a leader
    have hb0 := i_begin (F := F) ra ord hG
    have hb : I F T false false RN s (s.begin ra ord) := hb0.mono (fun r hr => by rw [hr]; exact hl)
    have hrole : (s.begin ra ord).role = s.role := rfl
    have hnl : (s.begin ra ord).role ≠ .leader := hl
    have fin : ∀ {x : Node}, I F T false false RN s x → Post F T s s.role x := fun hx => Post.ofNotLeader hx hx.role
    cases op <;> unfold Node.handle <;> dsimp only
    case vote q =>
      refine fin ?_
      have := i_rpcDone true false (i_onVoteRequest q hb (fun x => by cases x))
      exact this
    case append q =>
      rcases i_onAppendEntries q hb hr with ⟨_, a⟩ | ⟨_, a⟩
      · exact fin (i_rpcDone _ _ a)
      · refine Post.ofNotLeader (i_rpcDone _ _ a) ?_
        rw [role_rpcDone, a.role]; exact fun x => by cases x
    case install q =>
      rcases i_onInstallSnap q hb hr with ⟨_, a⟩ | ⟨_, a⟩
      · exact fin (i_rpcDone _ _ a)
      · refine Post.ofNotLeader (i_rpcDone _ _ a) ?_
        rw [role_rpcDone, a.role]; exact fun x => by cases x
    case timeoutNow =>
      rcases i_onTimeoutNow hb with a | a
      · exact fin (i_rpcDone _ _ a)
      · refine Post.ofNotLeader (i_rpcDone _ _ a) ?_
        rw [role_rpcDone, a.role]; exact fun x => by cases x
    case identity a b c => exact fin (i_rpcReply _ hb)
    case disconnected n =>
      split
      · exact fin (i_setLeader 0 hb)
      · exact fin hb
    case timeout =>
      cases hrl : (s.begin ra ord).role with
      | follower =>
        dsimp only
        exact fin (i_followerTimeout hb hrl)
      | candidate =>
        dsimp only
        obtain ⟨a, b⟩ := i_startElection hb hrl
        exact Post.ofNew a b hl
      | leader => exact absurd hrl hnl
    case newEntries b =>
      rw [if_neg hnl]
      exact fin (i_rejectEntries b hb)
    case changeConfig t c =>
      rw [if_neg hnl]
      exact fin (i_bootstrap t c hb hnl hr.1 (hr.2 hl))
    case takeSnapshot t th => exact fin (i_onTakeSnapshot t th hb)
    case snapRun => exact fin (i_snapRun hb)
    case snapTaken => exact fin (i_onSnapshotTaken hb (fun e => Bool.noConfusion e))
    case waitStable t =>
      rw [if_neg hnl]
      exact fin (i_reply _ _ hb)
    case transfer t g =>
      rw [if_neg hnl]
      exact fin (i_reply _ _ hb)
    case voteResult e t r =>
      split
      · rename_i hc
        obtain ⟨a, b⟩ := i_onVoteResult e t r hb hc
        exact Post.ofNew a b hl
      · exact fin hb
    case replUpdates us =>
      rw [if_neg hnl]
      exact fin hb
    case transferTimeout =>
      rw [if_neg (fun hc => hnl hc.1)]
      exact fin hb
    case timeoutNowResult a b c =>
      rw [if_neg (fun hc => hnl hc.1)]
      exact fin hb
    case newTermTimeout =>
      rw [if_neg (fun hc => hnl hc.1)]
      exact fin hb
    case shutdown => exact absurd rfl hop

/-! ## the role transitions -/

/-- the result of a step: nothing has failed except possibly the model's budget; and while nothing has failed
the state is `Good` -/
structure GoodF (F : Prop) (T : Bool) (t : Node) : Prop where
  pf : PF F t
  ordered : t.panicked = none → Order.Ordered t
  glob : t.panicked = none → Glob T t
  leader : t.panicked = none → t.closed = "" → t.role = .leader → LdrR t t ∧ LC.Cache t

theorem GoodF.good {t : Node} (h : GoodF F T t) (hp : t.panicked = none) : Good T t :=
  ⟨hp, h.ordered hp, h.glob hp, h.leader hp⟩

theorem goodF_of_post {s₀ x : Node} {cur : Role} (P : Post F T s₀ cur x) (he : x.role = cur) : GoodF F T x := by
  refine ⟨P.inv.pf, fun hp => ?_, P.inv.glob, fun hp _ hl => P.oldLdr (by rw [← he]; exact hl) hp hl⟩
  obtain ⟨c, hcl⟩ := P.inv.core hp
  exact ⟨c, hcl⟩

theorem settle_post (hFT : F ∨ T = true) (fuel : Nat) : ∀ (x : Node) (cur : Role) (s₀ : Node), LC.need x.role cur ≤ fuel → Post F T s₀ cur x →
    GoodF F T (settle fuel x cur) := by
  induction fuel with
  | zero =>
    intro x cur s₀ hf P
    have e : x.role = cur := LC.need_zero (Nat.le_zero.mp hf)
    unfold settle
    exact goodF_of_post P e
  | succ n ih =>
    intro x cur s₀ hf P
    unfold settle
    split
    · rename_i e
      exact goodF_of_post P e
    · rename_i hne
      dsimp only
      have hr : (x.releaseRole cur).role = x.role := LC.role_releaseRole x cur
      have h1 : I F T false false RT s₀ (x.releaseRole cur) := i_releaseRole cur P.inv
      have hneed : LC.need x.role cur = match x.role with
          | .follower => 1 | .leader => 2 | .candidate => 3 := by
        unfold LC.need; rw [if_neg hne]; cases x.role <;> rfl
      unfold Node.initRole
      cases hrole : x.role with
      | follower =>
        rw [hr, hrole]; dsimp only
        refine ih _ _ s₀ (by rw [hr, hrole, LC.need_self]; omega) (Post.ofNotLeader h1 ?_)
        rw [hr, hrole]; exact fun e => by cases e
      | candidate =>
        rw [hr, hrole]; dsimp only
        rw [hrole] at hneed hf; dsimp only at hneed
        obtain ⟨a, b⟩ := i_startElection h1 (by rw [hr, hrole])
        refine ih _ _ s₀ ?_ (Post.ofNew a b (fun e => by cases e))
        rcases LC.role_startElection (x.releaseRole cur) with e | e
        · rw [e, hr, hrole, LC.need_self]; omega
        · rw [e]; unfold LC.need; simp; omega
      | leader =>
        rw [hr, hrole]; dsimp only
        rw [hrole] at hneed hf; dsimp only at hneed
        have hcur : cur ≠ .leader := fun e => hne (by rw [hrole, e])
        have hnew := P.newLdr hcur
        have hl : (x.releaseRole cur).panicked = none →
            (x.releaseRole cur).leader = (x.releaseRole cur).nid ∧
            (x.releaseRole cur).configs.latest.isVoter (x.releaseRole cur).nid = true := by
          have hrel : (x.releaseRole cur).panicked = x.panicked ∧ (x.releaseRole cur).leader = x.leader ∧
              (x.releaseRole cur).nid = x.nid ∧ (x.releaseRole cur).configs = x.configs := by
            unfold Node.releaseRole
            cases cur with
            | follower => exact ⟨rfl, rfl, rfl, rfl⟩
            | candidate => exact ⟨rfl, rfl, rfl, rfl⟩
            | leader => exact absurd rfl hcur
          intro hp
          rw [hrel.2.1, hrel.2.2.1, hrel.2.2.2]
          exact hnew (by rw [← hrel.1]; exact hp) hrole
        have h2 : I F T true true RT (x.releaseRole cur) (x.releaseRole cur).leaderInit :=
          i_leaderInit hFT h1 (by rw [hr, hrole]) hl
        refine ih _ _ (x.releaseRole cur) ?_ (Post.ofLeader h2 rfl)
        have hc := LC.role_leaderInit (x.releaseRole cur) (by rw [hr, hrole]; exact fun e => by cases e)
        cases hrl : (x.releaseRole cur).leaderInit.role with
        | candidate => exact absurd hrl hc
        | leader => rw [LC.need_self]; omega
        | follower => unfold LC.need; simp; omega

/-- **one step** from a good, open state, for an acceptable operation: nothing fails except possibly the
model's recursion budget, and unless that happened the resulting state is good -/
theorem step_goodF (hFT : F ∨ T = true) (op : Op) (ra : List Nat) (ord : List (List Nat)) (hG : Good T s) (ho : s.closed = "")
    (hr : ReqOk' T s op) : GoodF F T (s.step op ra ord) := by
  by_cases hop : op = .shutdown
  · subst hop
    have hcl := C06Cache.shutdown_closes s ra ord
    have hsh : I F T false false (fun r => r = s.role) s ((s.begin ra ord).shutdown) := i_shutdown (i_begin ra ord hG)
    have e : s.step .shutdown ra ord = (s.begin ra ord).shutdown := rfl
    rw [e] at hcl ⊢
    refine ⟨hsh.pf, fun hp => ?_, hsh.glob, fun _ hc => absurd hc hcl⟩
    obtain ⟨c, hcl'⟩ := hsh.core hp
    exact ⟨c, hcl'⟩
  · have P := handle_post hFT op ra ord hG ho hr hop
    unfold Node.step
    dsimp only
    split
    · exact absurd rfl hop
    · exact settle_post hFT 6 _ _ s (Nat.le_trans (LC.need_le _ _) (by decide)) P

end NoPanic
end Raft
