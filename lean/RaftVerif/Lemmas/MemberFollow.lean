/-
The FOLLOWER side of a membership change, node level: how `configs` moves relative to the LOG when a node handles an
append request (`Raft.onAppendEntriesRequest`: truncation + `revertConfig`, adoption of configuration entries with
`Raft.changeConfig`, `commitConfig` when the commit index passes the latest configuration) and when it restarts
(`openStorage`: the last two configuration entries of the log).

`fcfg`: if before the step the node's latest configuration is the last configuration entry of its log (`CfgLast`) and
* either the index of that entry is PROTECTED (`Q`: the request does not conflict with the log up to it),
* or the configuration is PENDING (`Pend`: `configs.committed` is the configuration entry before it, and no other lies
  between them) and the index of `configs.committed` is protected,
then after the step the latest configuration is again the last configuration entry of the log, and it is covered by the
commit index, or pending, or protected (and was protected before).
-/
import RaftVerif.Lemmas.MemberCommit
import RaftVerif.Props.C10

namespace Raft
namespace MemberFollow
open Node LogRel Replication CommitRel MemberCommit

/-! ### lists -/

theorem cfgLast_take {es : List Entry} {c : Config} (hc : ∀ k (_ : k < es.length), es[k].index = k + 1)
    (h : CfgLast es c) {n : Nat} (hn : c.index ≤ n) : CfgLast (es.take n) c := by
  obtain ⟨⟨e, he, hec⟩, h2⟩ := h
  obtain ⟨_, ci, _⟩ := config?_facts hec
  refine ⟨⟨e, ?_, hec⟩, fun x hx ht => h2 x (List.mem_of_mem_take hx) ht⟩
  obtain ⟨k, hk, rfl⟩ := List.getElem_of_mem he
  have := hc k hk
  rw [List.mem_take_iff_getElem]
  exact ⟨k, by rw [Nat.lt_min]; exact ⟨by omega, hk⟩, rfl⟩

theorem cfgLast_take_take {es : List Entry} {c : Config} (hc : ∀ k (_ : k < es.length), es[k].index = k + 1)
    {m n : Nat} (h : CfgLast (es.take m) c) (hn : c.index ≤ n) (hnm : n ≤ m) : CfgLast (es.take n) c := by
  have := cfgLast_take (contig_take hc m) h hn
  rwa [List.take_take, Nat.min_eq_left hnm] at this

/-- **pending**: `configs.committed` is the configuration entry just before the latest one -/
def Pend (es : List Entry) (cs : Configs) : Prop :=
  cs.committed.index < cs.latest.index ∧ CfgLast (es.take (cs.latest.index - 1)) cs.committed

/-- the invariant of the entry loop: `pos` — the index up to which the request has been consumed (nothing at or below
it is truncated any more); `ci` — the commit index -/
def CLoop (Q : Nat → Prop) (es : List Entry) (cs : Configs) (ci pos : Nat) : Prop :=
  CfgLast es cs.latest ∧
  ((Q cs.latest.index ∨ (cs.latest.index ≤ pos ∧ cs.latest.index ≤ ci)) ∨
    (Pend es cs ∧ (Q cs.committed.index ∨ cs.latest.index ≤ pos)))

/-- what is claimed at the end -/
def CFin (Q : Nat → Prop) (es : List Entry) (cs : Configs) (ci : Nat) : Prop :=
  CfgLast es cs.latest ∧ (cs.latest.index ≤ ci ∨ Pend es cs ∨ Q cs.latest.index)

theorem CLoop.mono {Q : Nat → Prop} {es : List Entry} {cs : Configs} {ci pos ci' pos' : Nat}
    (h : CLoop Q es cs ci pos) (h1 : ci ≤ ci') (h2 : pos ≤ pos') : CLoop Q es cs ci' pos' := by
  obtain ⟨a, b⟩ := h
  refine ⟨a, ?_⟩
  rcases b with (b | ⟨b1, b2⟩) | ⟨b1, b2 | b2⟩
  · exact Or.inl (Or.inl b)
  · exact Or.inl (Or.inr ⟨by omega, by omega⟩)
  · exact Or.inr ⟨b1, Or.inl b2⟩
  · exact Or.inr ⟨b1, Or.inr (by omega)⟩

theorem CLoop.fin {Q : Nat → Prop} {es : List Entry} {cs : Configs} {ci pos ci' : Nat}
    (h : CLoop Q es cs ci pos) (h1 : ci ≤ ci') : CFin Q es cs ci' := by
  obtain ⟨a, b⟩ := h
  refine ⟨a, ?_⟩
  rcases b with (b | ⟨_, b2⟩) | ⟨b1, _⟩
  · exact Or.inr (Or.inr b)
  · exact Or.inl (by omega)
  · exact Or.inr (Or.inl b1)

/-- the effect of `Raft.setCommitIndex i` on `configs` -/
def CommitCfg (cs cs' : Configs) (i : Nat) : Prop :=
  cs' = cs ∨ (cs.latest.index ≤ i ∧ cs' = ⟨cs.latest, cs.latest⟩)

theorem CLoop.commit {Q : Nat → Prop} {es : List Entry} {cs cs' : Configs} {ci pos i : Nat}
    (h : CLoop Q es cs ci pos) (hc : CommitCfg cs cs' i) (h1 : ci ≤ i) (h2 : pos ≤ i) : CLoop Q es cs' i i := by
  rcases hc with rfl | ⟨c1, rfl⟩
  · exact h.mono h1 h2
  · exact ⟨h.1, Or.inl (Or.inr ⟨c1, c1⟩)⟩

theorem CLoop.commit_fin {Q : Nat → Prop} {es : List Entry} {cs cs' : Configs} {ci pos i : Nat}
    (h : CLoop Q es cs ci pos) (hc : CommitCfg cs cs' i) (h1 : ci ≤ i) : CFin Q es cs' i := by
  rcases hc with rfl | ⟨c1, rfl⟩
  · exact h.fin h1
  · exact ⟨h.1, Or.inl c1⟩

/-- truncation to the first `n` entries (`n` = the current position; `n = es.length`: nothing is truncated) and the
revert that goes with it -/
theorem CLoop.cut {Q : Nat → Prop} {es : List Entry} {cs : Configs} {ci n : Nat}
    (hc : ∀ k (_ : k < es.length), es[k].index = k + 1) (hn : n ≤ es.length) (h : CLoop Q es cs ci n)
    (hQ : ∀ k, Q k → k ≤ n) :
    CLoop Q (es.take n) (if n < es.length ∧ n + 1 ≤ cs.latest.index then ⟨cs.committed, cs.committed⟩ else cs) ci n ∧
    (if n < es.length ∧ n + 1 ≤ cs.latest.index then (⟨cs.committed, cs.committed⟩ : Configs) else cs).latest.index ≤ n := by
  obtain ⟨a, b⟩ := h
  split
  · rename_i hr
    -- revert: the configuration was pending, `committed` protected
    rcases b with (b | ⟨b1, _⟩) | ⟨⟨p1, p2⟩, b2 | b2⟩
    · have := hQ _ b; omega
    · omega
    · have hle := hQ _ b2
      have hcl : CfgLast (es.take n) cs.committed := cfgLast_take_take hc p2 hle (by omega)
      exact ⟨⟨hcl, Or.inl (Or.inl b2)⟩, hle⟩
    · omega
  · rename_i hr
    have hli : cs.latest.index ≤ n := by
      have := a.index_le (fun x hx => (contig_index_le hc x hx).2)
      by_cases h1 : n < es.length
      · have : ¬ (n + 1 ≤ cs.latest.index) := fun h2 => hr ⟨h1, h2⟩
        omega
      · omega
    refine ⟨⟨cfgLast_take hc a hli, ?_⟩, hli⟩
    rcases b with b | ⟨⟨p1, p2⟩, b2⟩
    · exact Or.inl b
    · refine Or.inr ⟨⟨p1, ?_⟩, b2⟩
      rw [List.take_take, Nat.min_eq_left (by omega)]
      exact p2

theorem CLoop.append_plain {Q : Nat → Prop} {es : List Entry} {cs : Configs} {ci : Nat} {ne : Entry}
    (hc : ∀ k (_ : k < es.length), es[k].index = k + 1) (h : CLoop Q es cs ci es.length)
    (hne : ne.typ ≠ etConfig) : CLoop Q (es ++ [ne]) cs ci (es.length + 1) := by
  obtain ⟨a, b⟩ := h
  have hli : cs.latest.index ≤ es.length := a.index_le (fun x hx => (contig_index_le hc x hx).2)
  refine ⟨cfgLast_append_plain a hne, ?_⟩
  rcases b with (b | ⟨b1, b2⟩) | ⟨⟨p1, p2⟩, b2⟩
  · exact Or.inl (Or.inl b)
  · exact Or.inl (Or.inr ⟨by omega, b2⟩)
  · refine Or.inr ⟨⟨p1, ?_⟩, b2.imp id (fun _ => by omega)⟩
    rw [List.take_append_of_le_length (by omega)]
    exact p2

theorem CLoop.append_cfg {Q : Nat → Prop} {es : List Entry} {cs : Configs} {ci : Nat} {ne : Entry} {c : Config}
    (hc : ∀ k (_ : k < es.length), es[k].index = k + 1) (h : CLoop Q es cs ci es.length)
    (hi : ne.index = es.length + 1) (hne : ne.config? = some c) :
    CLoop Q (es ++ [ne]) ⟨cs.latest, c⟩ ci (es.length + 1) := by
  obtain ⟨a, _⟩ := h
  obtain ⟨_, ci', _⟩ := config?_facts hne
  have hb : ∀ x ∈ es, x.index ≤ es.length := fun x hx => (contig_index_le hc x hx).2
  have hli : cs.latest.index ≤ es.length := a.index_le hb
  refine ⟨cfgLast_append_cfg a hb hi hne, Or.inr ⟨⟨?_, ?_⟩, Or.inr ?_⟩⟩
  · show cs.latest.index < c.index; omega
  · show CfgLast ((es ++ [ne]).take (c.index - 1)) cs.latest
    rw [show c.index - 1 = es.length by omega, List.take_left']
    · exact a
    · rfl
  · show c.index ≤ es.length + 1; omega

/-! ### the handler -/

/-- the fields this file looks at, next to the log -/
def kc (s : Node) : Configs × Nat := (s.configs, s.commitIndex)

theorem kc_of_kf {x y : Node} (h : CfgRel.kf y = CfgRel.kf x) : kc y = kc x := by
  unfold CfgRel.kf at h
  simp only [Prod.mk.injEq] at h
  unfold kc; rw [h.1, h.2.1]

theorem resolveConflict_kc (s : Node) (ne : Entry) (pt : Nat) (hn : NWF s) (h1 : 1 ≤ ne.index) :
    kc (s.resolveConflict ne pt) =
      (if ne.index ≤ s.lastLogIndex ∧ ne.index ≤ s.configs.latest.index then ⟨s.configs.committed, s.configs.committed⟩
        else s.configs, s.commitIndex) := by
  unfold Node.resolveConflict
  split
  · rename_i hle
    have hle' := hle
    rw [hn.last] at hle'
    rw [hn.entryTerm ne.index h1 hle']
    dsimp only
    split
    · rename_i h2
      have h2' : ne.index ≤ s.configs.latest.index := h2
      rw [if_pos ⟨hle, h2'⟩]; rfl
    · rename_i h2
      have h2' : ¬ ne.index ≤ s.configs.latest.index := h2
      rw [if_neg (fun hc => h2' hc.2)]; rfl
  · rename_i hle
    rw [if_neg (fun hc => hle hc.1)]; rfl

theorem setCommitIndexR_kc (s : Node) (i : Nat) :
    (s.setCommitIndexR i).1.commitIndex = i ∧ CommitCfg s.configs (s.setCommitIndexR i).1.configs i := by
  unfold Node.setCommitIndexR
  split
  · rename_i hc
    obtain ⟨a1, _, _, a4, _⟩ := CfgRel.commitPath_fields s i
    exact ⟨a4, Or.inr ⟨hc.2, a1⟩⟩
  · exact ⟨rfl, Or.inl rfl⟩

theorem commitApply_kc (s : Node) (i : Nat) :
    (s.setCommitIndexR i).1.applyCommitted.commitIndex = i ∧
    CommitCfg s.configs (s.setCommitIndexR i).1.applyCommitted.configs i := by
  have e := kc_of_kf (CfgRel.kfFsmFrame.applyCommitted_eq (s.setCommitIndexR i).1)
  unfold kc at e
  simp only [Prod.mk.injEq] at e
  rw [e.1, e.2]
  exact setCommitIndexR_kc s i

/-- the consistency check: `configs` and the commit index are untouched, or the check committed up to the previous
entry of the request -/
theorem appendCheck_kc (s : Node) (q : AppendReq) :
    kc (s.appendCheck q) = kc s ∨
    (s.commitIndex < q.prevLogIndex ∧ (s.appendCheck q).commitIndex = q.prevLogIndex ∧
      CommitCfg s.configs (s.appendCheck q).configs q.prevLogIndex) := by
  unfold Node.appendCheck
  split
  · split
    · exact Or.inl rfl
    · extract_lets s1 plt
      have e1 : kc s1 = kc s := by
        unfold s1
        split
        · rfl
        · split
          · rfl
          · exact kc_of_kf (CfgRel.kf_panic _ _)
      unfold kc at e1
      simp only [Prod.mk.injEq] at e1
      split
      · left; show kc s1 = kc s; unfold kc; rw [e1.1, e1.2]
      · split
        · rename_i hcc
          obtain ⟨_, _, k3⟩ := C19.follower_commit_guard _ _ _ _ hcc
          obtain ⟨c1, c2⟩ := commitApply_kc s1 q.prevLogIndex
          right
          rw [← e1.1, ← e1.2]
          exact ⟨k3, c1, c2⟩
        · left; show kc s1 = kc s; unfold kc; rw [e1.1, e1.2]
  · exact Or.inl rfl

/-- **the entry loop**, configurations -/
theorem appendLoop_fc {b : Node} {q : AppendReq} {Q : Nat → Prop}
    (hQ : ∀ k, Q k → k ≤ b.log.entries.length ∧ NoConf b q k)
    (hdec : ∀ e ∈ q.entries, e.typ = etConfig → ∃ c, e.config? = some c)
    (es : List Entry) : ∀ (st : AppLoop),
    FX b q st.s → (b.term ≤ q.term → st.s.term = q.term) → Anchor st.s st.index st.term → st.err = false →
    (∀ e ∈ es, e ∈ q.entries) → (∀ k (h : k < es.length), es[k].index = st.index + k + 1) →
    CLoop Q st.s.log.entries st.s.configs st.s.commitIndex st.index →
    ∃ pos, CLoop Q (appendLoop st es).s.log.entries (appendLoop st es).s.configs (appendLoop st es).s.commitIndex pos ∧
      (appendLoop st es).s.commitIndex = st.s.commitIndex := by
  induction es with
  | nil =>
    intro st _ _ _ _ _ _ hcl
    exact ⟨st.index, hcl, rfl⟩
  | cons ne rest ih =>
    intro st hfx hterm hanch herr hmem hidx hcl
    have hne : ne.index = st.index + 1 := hidx 0 (by simp)
    have hidx' : ∀ k (h : k < rest.length), rest[k].index = ne.index + k + 1 := by
      intro k hk
      have := hidx (k + 1) (by simp; omega)
      simp only [List.getElem_cons_succ] at this
      rw [this, hne]; omega
    have hmem' : ∀ e ∈ rest, e ∈ q.entries := fun e he => hmem e (List.mem_cons_of_mem _ he)
    have hneq : ne ∈ q.entries := hmem ne (List.mem_cons_self ..)
    have hw := hfx.nwf
    unfold appendLoop
    rw [if_neg (by rw [herr]; decide)]
    dsimp only
    split
    · rename_i hsn
      rw [hw.snapIndex] at hsn; omega
    · split
      · rename_i hpres
        simp only [Bool.and_eq_true, decide_eq_true_eq, beq_iff_eq] at hpres
        obtain ⟨hle, hterm'⟩ := hpres
        rw [hw.last] at hle
        rw [hw.entryTerm ne.index (by omega) hle] at hterm'
        injection hterm' with hterm'
        exact ih ⟨st.s, ne.index, ne.term, st.syncLog, st.err⟩ hfx hterm ⟨hle, fun _ => hterm'⟩ herr hmem' hidx'
          (hcl.mono (Nat.le_refl _) (by show st.index ≤ ne.index; omega))
      · rename_i hnp
        have hnp' : ¬ (ne.index ≤ st.s.lastLogIndex ∧ st.s.entryTerm? ne.index = some ne.term) := by
          intro hc; apply hnp
          simp only [Bool.and_eq_true, decide_eq_true_eq, beq_iff_eq]
          exact hc
        have cut := resolveConflict_cut ne st.term st.index hfx hterm hne hanch.1 hneq hnp'
        obtain ⟨hfx', hent, hterm2, _⟩ := fx_conflict_append ne st.term st.index hfx hterm hne hanch hneq hnp'
        have hQn : ∀ k, Q k → k ≤ st.index := fun k hk => (cut.keep k (hQ k hk).1 (hQ k hk).2).1
        -- `configs` and the commit index after the conflict resolution and the append
        have hkc : kc ((st.s.resolveConflict ne st.term).appendEntry ne) =
            (if st.index < st.s.log.entries.length ∧ st.index + 1 ≤ st.s.configs.latest.index then
              ⟨st.s.configs.committed, st.s.configs.committed⟩ else st.s.configs, st.s.commitIndex) := by
          rw [kc_of_kf (CfgRel.kf_appendEntry _ _), resolveConflict_kc st.s ne st.term hw (by omega), hw.last, hne]
          by_cases hc : st.index + 1 ≤ st.s.log.entries.length ∧ st.index + 1 ≤ st.s.configs.latest.index
          · rw [if_pos hc, if_pos ⟨by omega, hc.2⟩]
          · rw [if_neg hc, if_neg (fun h => hc ⟨by omega, h.2⟩)]
        unfold kc at hkc
        simp only [Prod.mk.injEq] at hkc
        obtain ⟨hk1, hk2⟩ := hkc
        obtain ⟨c1, c2⟩ := hcl.cut hw.contig hanch.1 hQn
        rw [← hk1] at c1 c2
        have hlen : (st.s.log.entries.take st.index).length = st.index := by
          rw [List.length_take]; have := hanch.1; omega
        have hct := contig_take hw.contig st.index
        have c1 : CLoop Q (st.s.log.entries.take st.index) ((st.s.resolveConflict ne st.term).appendEntry ne).configs
            st.s.commitIndex (st.s.log.entries.take st.index).length := by rw [hlen]; exact c1
        have hlen2 : (st.s.log.entries.take st.index ++ [ne]).length = ne.index := by
          rw [List.length_append, hlen, hne]; rfl
        have hanch' : Anchor ((st.s.resolveConflict ne st.term).appendEntry ne) ne.index ne.term := by
          unfold Anchor
          rw [hent]
          refine ⟨by rw [hlen2]; exact Nat.le_refl _, fun _ => ?_⟩
          rw [← hlen2, termAt_length, lastTerm_append_singleton]
        split
        · rename_i hcfg
          split
          · rename_i cfg hdc
            have c3 := c1.append_cfg hct (by rw [hlen]; exact hne) hdc
            obtain ⟨f1, _, _, f4, _, _, _, _, f9⟩ :=
              CfgRel.changeConfigR_fields ((st.s.resolveConflict ne st.term).appendEntry ne) cfg
            obtain ⟨pos, r1, r2⟩ := ih ⟨((st.s.resolveConflict ne st.term).appendEntry ne).changeConfigR cfg, ne.index,
              ne.term, true, st.err⟩ (fx_congr hfx' (fobs_changeConfigR _ _))
              (by rw [core_term (core_changeConfigR _ _)]; intro h; rw [hterm2]; exact hterm h)
              (anchor_congr hanch' f9) herr hmem' hidx'
              (by
                show CLoop Q (((st.s.resolveConflict ne st.term).appendEntry ne).changeConfigR cfg).log.entries
                  (((st.s.resolveConflict ne st.term).appendEntry ne).changeConfigR cfg).configs
                  (((st.s.resolveConflict ne st.term).appendEntry ne).changeConfigR cfg).commitIndex ne.index
                rw [f9, f1, f4, hent, hk2, hne]
                rw [hlen] at c3
                exact c3)
            exact ⟨pos, r1, r2.trans (f4.trans hk2)⟩
          · rename_i hdc
            exfalso
            obtain ⟨c, hc⟩ := hdec ne hneq hcfg
            rw [hc] at hdc; cases hdc
        · rename_i hcfg
          have c3 := c1.append_plain hct hcfg
          obtain ⟨pos, r1, r2⟩ := ih ⟨(st.s.resolveConflict ne st.term).appendEntry ne, ne.index, ne.term, true, st.err⟩
            hfx' (by intro h; rw [hterm2]; exact hterm h) hanch' herr hmem' hidx'
            (by
              show CLoop Q ((st.s.resolveConflict ne st.term).appendEntry ne).log.entries
                ((st.s.resolveConflict ne st.term).appendEntry ne).configs
                ((st.s.resolveConflict ne st.term).appendEntry ne).commitIndex ne.index
              rw [hent, hk2, hne]
              rw [hlen] at c3
              exact c3)
          exact ⟨pos, r1, r2.trans hk2⟩

/-- **`onAppendEntriesRequest`**, configurations -/
theorem onAppendEntries_fc (b : Node) (q : AppendReq) (hn : NWF b) (hl : C06.LogWF b.log) (hwf : C05.VoteWF b)
    (hidx : ∀ k (h : k < q.entries.length), q.entries[k].index = q.prevLogIndex + k + 1)
    {Q : Nat → Prop} (hQ : ∀ k, Q k → k ≤ b.log.entries.length ∧ NoConf b q k)
    (hdec : ∀ e ∈ q.entries, e.typ = etConfig → ∃ c, e.config? = some c)
    (hcl : CfgLast b.log.entries b.configs.latest)
    (hsp : Q b.configs.latest.index ∨ (Pend b.log.entries b.configs ∧ Q b.configs.committed.index)) :
    CFin Q (b.onAppendEntries q).log.entries (b.onAppendEntries q).configs (b.onAppendEntries q).commitIndex := by
  have C0 : CLoop Q b.log.entries b.configs b.commitIndex 0 :=
    ⟨hcl, hsp.elim (fun h => Or.inl (Or.inl h)) (fun h => Or.inr ⟨h.1, Or.inl h.2⟩)⟩
  have F0 := fx_refl b q hn hl hwf
  by_cases hst : q.term < b.term
  · rw [C04.stale_append_refused b q hst]
    exact C0.fin (Nat.le_refl _)
  · have hge : b.term ≤ q.term := Nat.le_of_not_lt hst
    unfold Node.onAppendEntries
    rw [if_neg hst]
    extract_lets s1 s2 s3 st s4 s6 s5
    have H1 : FX b q s1 ∧ s1.term = q.term ∧ kc s1 = kc b ∧ s1.log = b.log := by
      unfold s1
      split
      · rename_i hgt
        obtain ⟨f, t⟩ := fx_setTerm F0 rfl hgt
        exact ⟨fx_congr f rfl, t, (kc_of_kf (CfgRel.setTerm_kf b q.term) : kc (b.setTerm q.term) = kc b),
          (setTerm_fields b q.term).1⟩
      · exact ⟨F0, by omega, rfl, rfl⟩
    obtain ⟨H1, t1, c1, g1⟩ := H1
    have H2 : FX b q s2 := fx_congr H1 rfl
    have t2 : s2.term = q.term := t1
    have c2 : kc s2 = kc b := c1
    have g2 : s2.log = b.log := g1
    obtain ⟨f3, _⟩ := appendCheck_fobs s2 q
    have H3 : FX b q s3 := fx_congr H2 f3
    obtain ⟨g3, t3', _⟩ := fobs_log f3
    have t3 : s3.term = q.term := t3'.trans t2
    have g3' : s3.log = b.log := g3.trans g2
    have canch := (appendCheck_spec s2 q H2.nwf).2
    unfold kc at c2
    simp only [Prod.mk.injEq] at c2
    -- after the consistency check
    have C3 : CLoop Q s3.log.entries s3.configs s3.commitIndex q.prevLogIndex ∧ b.commitIndex ≤ s3.commitIndex := by
      rw [g3']
      rcases appendCheck_kc s2 q with e | ⟨e1, e2, e3⟩
      · unfold kc at e
        simp only [Prod.mk.injEq] at e
        have e1 : s3.configs = b.configs := e.1.trans c2.1
        have e2 : s3.commitIndex = b.commitIndex := e.2.trans c2.2
        rw [e1, e2]
        exact ⟨C0.mono (Nat.le_refl _) (Nat.zero_le _), Nat.le_refl _⟩
      · rw [c2.1] at e3
        rw [c2.2] at e1
        have e2' : s3.commitIndex = q.prevLogIndex := e2
        rw [e2']
        exact ⟨C0.commit e3 (Nat.le_of_lt e1) (Nat.zero_le _), Nat.le_of_lt e1⟩
    obtain ⟨C3, m3⟩ := C3
    split
    · -- refused
      exact C3.fin (Nat.le_refl _)
    · rename_i hres
      have hres0 : s3.result = 0 := Classical.byContradiction (fun hne => hres hne)
      have anch : Anchor s3 q.prevLogIndex q.prevLogTerm := anchor_congr (canch hres0) g3
      obtain ⟨l1, _⟩ := appendLoop_fx (b := b) (q := q) q.entries
        { s := s3, index := q.prevLogIndex, term := q.prevLogTerm } H3 (fun _ => t3) anch rfl (fun e he => he) hidx
        (fun _ => g3')
      obtain ⟨pos, C4, c4⟩ := appendLoop_fc hQ hdec q.entries
        { s := s3, index := q.prevLogIndex, term := q.prevLogTerm } H3 (fun _ => t3) anch rfl (fun e he => he) hidx C3
      have l1' : FX b q s4 := l1
      have C4' : CLoop Q s4.log.entries s4.configs s4.commitIndex pos := C4
      show CFin Q s5.log.entries s5.configs s5.commitIndex
      unfold s5
      split
      · have e6 : s6.log.entries = s4.log.entries := (commitN_parts s4.log s4.lastLogIndex).2
        have k6 : s6.configs = s4.configs ∧ s6.commitIndex = s4.commitIndex := ⟨rfl, rfl⟩
        split
        · rename_i hcc
          obtain ⟨_, _, k3⟩ := C19.follower_commit_guard _ _ _ _ hcc
          have ef := fobs_commitApply s6 st.index
          obtain ⟨gl, _, _⟩ := fobs_log ef
          obtain ⟨d1, d2⟩ := commitApply_kc s6 st.index
          rw [gl, e6, d1]
          rw [k6.1] at d2
          exact C4'.commit_fin d2 (by rw [← k6.2]; exact Nat.le_of_lt k3)
        · rw [e6, k6.1, k6.2]; exact C4'.fin (Nat.le_refl _)
      · exact C4'.fin (Nat.le_refl _)

/-! ### the step -/

/-- the fields the summary looks at -/
def cobs (s : Node) : List Entry × Configs × Nat := (s.log.entries, s.configs, s.commitIndex)

theorem cobs_panic (s : Node) (site : String) : cobs (s.panic site) = cobs s := by
  unfold Node.panic; split <;> rfl

theorem relFrame_cobs : RelFrame cobs where
  reply := fun s t r => by unfold Node.reply; split <;> rfl
  ldr := fun _ _ => rfl
  leader := fun _ _ => rfl
  candTransfer := fun _ _ => rfl

theorem cobs_rpcDone (s : Node) (a c : Bool) : cobs (s.rpcDone a c) = cobs s ∧ (s.rpcDone a c).role = s.role := by
  unfold Node.rpcDone
  split
  · refine ⟨(cobs_panic _ _).trans rfl, ?_⟩
    unfold Node.panic; split <;> rfl
  · exact ⟨rfl, rfl⟩

/-- **a step handling an append request: the latest configuration stays the last configuration entry of the log** -/
theorem fcfg (pre : Node) (q : AppendReq) (ra : List Nat) (ord : List (List Nat)) (hn : NWF pre)
    (hl : C06.LogWF pre.log) (hwf : C05.VoteWF pre)
    (hidx : ∀ k (h : k < q.entries.length), q.entries[k].index = q.prevLogIndex + k + 1)
    {Q : Nat → Prop} (hQ : ∀ k, Q k → k ≤ pre.log.entries.length ∧ NoConf pre q k)
    (hdec : ∀ e ∈ q.entries, e.typ = etConfig → ∃ c, e.config? = some c)
    (hcl : CfgLast pre.log.entries pre.configs.latest)
    (hsp : Q pre.configs.latest.index ∨ (Pend pre.log.entries pre.configs ∧ Q pre.configs.committed.index)) :
    CFin Q (pre.step (.append q) ra ord).log.entries (pre.step (.append q) ra ord).configs
      (pre.step (.append q) ra ord).commitIndex := by
  have hbn : NWF (pre.begin ra ord) := nwf_congr hn rfl rfl rfl rfl rfl
  have R := onAppendEntries_fc (pre.begin ra ord) q hbn hl hwf hidx (Q := Q) hQ hdec hcl hsp
  have hpost : pre.step (.append q) ra ord =
      settle 6 (((pre.begin ra ord).onAppendEntries q).rpcDone false true) (pre.begin ra ord).role := rfl
  obtain ⟨d1, d2⟩ := cobs_rpcDone ((pre.begin ra ord).onAppendEntries q) false true
  have hc : cobs (pre.step (.append q) ra ord) = cobs ((pre.begin ra ord).onAppendEntries q) := by
    rw [hpost]
    rcases CfgRel.onAppendEntries_fi (s := pre.begin ra ord) (op := .append q) (pre.begin ra ord) q rfl .start
      (Nat.le_refl _) with e | fi
    · have hr : (((pre.begin ra ord).onAppendEntries q).rpcDone false true).role = (pre.begin ra ord).role := by
        rw [d2, e]; rfl
      rw [← hr, settle_same]
      exact d1
    · have hf : (((pre.begin ra ord).onAppendEntries q).rpcDone false true).role = .follower := by
        rw [d2]; exact fi.role
      rcases settle_follower_cases _ (pre.begin ra ord).role hf with e | e
      · rw [e]; exact d1
      · rw [e, relFrame_cobs.releaseRole]; exact d1
  unfold cobs at hc
  simp only [Prod.mk.injEq] at hc
  rw [hc.1, hc.2.1, hc.2.2]
  exact R

/-- a stale append request changes neither the log nor `configs` nor the commit index -/
theorem fcfg_stale (pre : Node) (q : AppendReq) (ra : List Nat) (ord : List (List Nat)) (hst : q.term < pre.term) :
    (pre.step (.append q) ra ord).log.entries = pre.log.entries ∧
    (pre.step (.append q) ra ord).configs = pre.configs ∧
    (pre.step (.append q) ra ord).commitIndex = pre.commitIndex := by
  have hpost : pre.step (.append q) ra ord =
      settle 6 (((pre.begin ra ord).onAppendEntries q).rpcDone false true) (pre.begin ra ord).role := rfl
  obtain ⟨d1, d2⟩ := cobs_rpcDone ((pre.begin ra ord).onAppendEntries q) false true
  have e := C04.stale_append_refused (pre.begin ra ord) q hst
  have hr : (((pre.begin ra ord).onAppendEntries q).rpcDone false true).role = (pre.begin ra ord).role := by
    rw [d2, e]; rfl
  have hc : cobs (pre.step (.append q) ra ord) = cobs pre := by
    rw [hpost, ← hr, settle_same, d1, e]; rfl
  unfold cobs at hc
  simp only [Prod.mk.injEq] at hc
  exact hc

/-! ### restart: the last two configuration entries of the log -/

/-- the configurations of the entries `es`, newest first -/
def cfgsOf (es : List Entry) : List Config := es.reverse.filterMap Entry.config?

theorem cfgsOf_append (es : List Entry) (e : Entry) :
    cfgsOf (es ++ [e]) = match e.config? with | some c => c :: cfgsOf es | none => cfgsOf es := by
  unfold cfgsOf
  rw [List.reverse_append, List.reverse_singleton, List.singleton_append]
  cases h : e.config? with
  | some c => rw [List.filterMap_cons_some h]
  | none => rw [List.filterMap_cons_none h]

/-- what the newest two configurations of a log say about it -/
def ScanOK (es : List Entry) : List Config → Prop
  | [] => ∀ e ∈ es, e.typ ≠ etConfig
  | [c] => CfgLast es c ∧ ∀ e ∈ es, e.typ = etConfig → e.index = c.index
  | c :: c' :: _ => CfgLast es c ∧ Pend es ⟨c', c⟩

theorem scanOK_take {es : List Entry} (hc : ∀ k (_ : k < es.length), es[k].index = k + 1)
    (hd : ∀ e ∈ es, e.typ = etConfig → ∃ c, e.config? = some c) :
    ∀ n, n ≤ es.length → ScanOK (es.take n) (cfgsOf (es.take n)) := by
  intro n
  induction n with
  | zero =>
    intro _
    rw [List.take_zero]
    exact fun e he => absurd he List.not_mem_nil
  | succ n ih =>
    intro hn
    have ih := ih (by omega)
    have hlt : n < es.length := by omega
    have hct := contig_take hc n
    have hlen : (es.take n).length = n := by rw [List.length_take]; omega
    have hb : ∀ x ∈ es.take n, x.index ≤ n := fun x hx => by
      have := (contig_index_le hct x hx).2; omega
    rw [List.take_add_one, List.getElem?_eq_getElem hlt]
    simp only [Option.toList_some]
    rw [cfgsOf_append]
    have hi : es[n].index = n + 1 := hc n hlt
    cases hcf : es[n].config? with
    | some c =>
      dsimp only
      obtain ⟨_, ci, _⟩ := config?_facts hcf
      have hcl : CfgLast (es.take n ++ [es[n]]) c := by
        refine ⟨⟨es[n], List.mem_append_right _ (List.mem_singleton_self _), hcf⟩, fun y hy _ => ?_⟩
        rcases List.mem_append.mp hy with hy | hy
        · have := hb y hy; omega
        · rw [List.mem_singleton.mp hy]; omega
      cases hk : cfgsOf (es.take n) with
      | nil =>
        rw [hk] at ih
        refine ⟨hcl, fun y hy ht => ?_⟩
        rcases List.mem_append.mp hy with hy | hy
        · exact absurd ht (ih y hy)
        · rw [List.mem_singleton.mp hy]; omega
      | cons c' rest =>
        rw [hk] at ih
        have hcl' : CfgLast (es.take n) c' := by
          cases rest with
          | nil => exact ih.1
          | cons _ _ => exact ih.1
        have hle := hcl'.index_le (fun x hx => by rw [hlen]; exact hb x hx)
        rw [hlen] at hle
        refine ⟨hcl, ?_, ?_⟩
        · show c'.index < c.index; omega
        · show CfgLast ((es.take n ++ [es[n]]).take (c.index - 1)) c'
          rw [show c.index - 1 = (es.take n).length by rw [hlen]; omega, List.take_left']
          · exact hcl'
          · rfl
    | none =>
      dsimp only
      have hnt : es[n].typ ≠ etConfig := by
        intro ht
        obtain ⟨c, hc'⟩ := hd _ (List.getElem_mem hlt) ht
        rw [hc'] at hcf; cases hcf
      cases hk : cfgsOf (es.take n) with
      | nil =>
        rw [hk] at ih
        intro y hy
        rcases List.mem_append.mp hy with hy | hy
        · exact ih y hy
        · rw [List.mem_singleton.mp hy]; exact hnt
      | cons c rest =>
        rw [hk] at ih
        cases rest with
        | nil =>
          refine ⟨cfgLast_append_plain ih.1 hnt, fun y hy ht => ?_⟩
          rcases List.mem_append.mp hy with hy | hy
          · exact ih.2 y hy ht
          · rw [List.mem_singleton.mp hy] at ht; exact absurd ht hnt
        | cons c' rest' =>
          obtain ⟨a, p1, p2⟩ := ih
          have hle := a.index_le (fun x hx => by rw [hlen]; exact hb x hx)
          rw [hlen] at hle
          refine ⟨cfgLast_append_plain a hnt, p1, ?_⟩
          show CfgLast ((es.take n ++ [es[n]]).take (c.index - 1)) c'
          rw [List.take_append_of_le_length (by rw [hlen]; omega)]
          exact p2

theorem scanOK {es : List Entry} (hc : ∀ k (_ : k < es.length), es[k].index = k + 1)
    (hd : ∀ e ∈ es, e.typ = etConfig → ∃ c, e.config? = some c) : ScanOK es (cfgsOf es) := by
  have := scanOK_take hc hd es.length (Nat.le_refl _)
  rwa [List.take_length] at this

/-- **restart**: the latest configuration of the restarted node is the last configuration entry of its log; it is
pending (`configs.committed` is the configuration entry before it), or the log holds no other configuration entry -/
theorem restart_cfg (d : Durable) (retain : Nat) (sor : Bool) (n : Node)
    (h : Node.restart d retain sor = some n) (hs : d.snaps = []) (hp : d.log.prev = 0)
    (hc : ∀ k (_ : k < d.log.entries.length), d.log.entries[k].index = k + 1)
    (hd : ∀ e ∈ d.log.entries, e.typ = etConfig → ∃ c, e.config? = some c)
    (hex : ∃ e ∈ d.log.entries, e.typ = etConfig) :
    CfgLast d.log.entries n.configs.latest ∧
    (Pend d.log.entries n.configs ∨ ∀ e ∈ d.log.entries, e.typ = etConfig → e.index = n.configs.latest.index) := by
  have hsn : C10.snapOf d = {} := by unfold C10.snapOf; rw [hs]; rfl
  have hsi : (C10.snapOf d).index = 0 := by rw [hsn]
  have hlog : C10.logOf d = d.log := by
    have hst : staleLog d = false := by
      unfold staleLog
      rw [hs]
      show (decide (d.log.last < 0) || (decide (d.log.prev < 0) && _)) = false
      simp
    unfold C10.logOf; rw [hst]; rfl
  have hlast : d.log.last = d.log.entries.length := by unfold NLog.last; rw [hp]; omega
  have hwin : C10.window (C10.logOf d) (C10.snapOf d).index (C10.logOf d).last = d.log.entries.reverse := by
    unfold C10.window
    rw [hlog, hsi, hlast, hp, Nat.sub_zero, Nat.sub_zero, List.take_length, List.drop_zero]
  have hok : C10.NoDecodeErr (C10.window (C10.logOf d) (C10.snapOf d).index (C10.logOf d).last) := by
    rw [hwin]
    intro e he ht
    obtain ⟨c, hc'⟩ := hd e (List.mem_reverse.mp he) ht
    rw [hc']; rfl
  obtain ⟨_, r1, r2⟩ := C10.restart_configs d retain sor (by unfold C10.DurWF; rw [hp]; exact Nat.zero_le _) hok
  have hk : C10.configsAbove d = cfgsOf d.log.entries := by
    unfold C10.configsAbove cfgsOf; rw [hwin]
  rw [hk] at r1 r2
  -- the restarted node is `restartNode` (no snapshot to restore)
  have hn : n.configs = (restartNode d retain sor).configs := by
    unfold Node.restart at h
    split at h
    · cases h
    · split at h
      · cases h
      · injection h with h
        have : (restartNode d retain sor).snapIndex = 0 := by
          rw [(C10.restartNode_fields d retain sor).1, hsi]
        rw [if_neg (by rw [this]; omega)] at h
        rw [← h]
  rw [hn]
  have sk := scanOK hc hd
  obtain ⟨e0, he0, ht0⟩ := hex
  cases hks : cfgsOf d.log.entries with
  | nil =>
    rw [hks] at sk
    exact absurd ht0 (sk e0 he0)
  | cons c rest =>
    rw [hks] at sk r1 r2
    have e1 : (restartNode d retain sor).configs.latest = c := r1
    cases rest with
    | nil =>
      rw [e1]
      exact ⟨sk.1, Or.inr sk.2⟩
    | cons c' rest' =>
      have e2 : (restartNode d retain sor).configs.committed = c' := r2
      rw [e1]
      refine ⟨sk.1, Or.inl ?_⟩
      have : (restartNode d retain sor).configs = ⟨c', c⟩ := by
        rw [← e1, ← e2]
      rw [this]
      exact sk.2

/-- EXAMPLE (`fcfg`): node 2 of `C04Sys` (log: the bootstrap configuration entry (1,1); latest configuration: that entry)
handles a heartbeat of term 5 that verifies entry 1; index 1 is protected (`Q k := k = 1`: the request carries no entry,
so it conflicts with nothing) -/
example : CFin (fun k => k = 1)
    ((C04Sys.exNode 2).step (.append { term := 5, src := 1, prevLogIndex := 1, prevLogTerm := 1 }) [] []).log.entries
    ((C04Sys.exNode 2).step (.append { term := 5, src := 1, prevLogIndex := 1, prevLogTerm := 1 }) [] []).configs
    ((C04Sys.exNode 2).step (.append { term := 5, src := 1, prevLogIndex := 1, prevLogTerm := 1 }) [] []).commitIndex := by
  have hcfg : C04Sys.exE.config? = some C04Sys.exCfg := by decide
  refine fcfg (C04Sys.exNode 2) { term := 5, src := 1, prevLogIndex := 1, prevLogTerm := 1 } [] []
    ⟨rfl, rfl, rfl, fun k hk => ?_, rfl, rfl⟩ ⟨by decide, by decide⟩ ⟨rfl, rfl⟩ (fun k hk => absurd hk (Nat.not_lt_zero k))
    (Q := fun k => k = 1) (fun k hk => ⟨by rw [hk]; decide, fun e he => absurd he List.not_mem_nil⟩)
    (fun e he => absurd he List.not_mem_nil)
    ⟨⟨C04Sys.exE, List.mem_singleton.mpr rfl, hcfg⟩, fun e he _ => by rw [List.mem_singleton.mp he]; decide⟩
    (Or.inl (by decide))
  have : k = 0 := by have : k < 1 := hk; omega
  subst this; rfl

/-- EXAMPLE (`scanOK` / `restart_cfg`): the configurations found in a log that holds the bootstrap configuration entry -/
example : cfgsOf [C04Sys.exE] = [C04Sys.exCfg] := by decide

end MemberFollow
end Raft
