/-
`Lemmas/StepInv.lean` restricted to the operations that neither compact the log nor touch the snapshots
(`NCOp`: no `install`, `snapRun`, `snapTaken`, `shutdown`, no replication update that reports a compaction): a predicate
preserved by the primitive state updates THESE operations are built from — no `RemoveLTE`, no `clearLog`, no
`publishSnapshot`, no change of `snapResult` — is preserved by their steps. Used for frame facts (the first index of the
log, the pending snapshot result) that the compacting operations do not have.
(The proofs are those of Lemmas/StepInv.lean.)
-/
import RaftVerif.Lemmas.StepInv
import RaftVerif.Lemmas.SnapRelU2

namespace Raft
namespace Node

structure StepClosedNC (Inv : Node → Prop) : Prop extends Closed Inv where
  begin : ∀ (s : Node) ra (ord : List (List Nat)), Inv s → Inv (s.begin ra ord)
  rpcReply : ∀ (s : Node) r, Inv s → Inv (s.withRpcReply r)
  ret : ∀ (s : Node) r, Inv s → Inv (s.ret r)
  setRole : ∀ (s : Node) r, Inv s → Inv (s.setRole r)
  setLeader : ∀ (s : Node) l, Inv s → Inv (s.setLeader l)
  doClose : ∀ (s : Node) r, Inv s → Inv (s.doClose r)
  setTerm : ∀ (s : Node) t, Inv s → Inv (s.setTerm t)
  /-- `setVotedFor` entering a higher term (vote requests, the self vote of `startElection`) -/
  voteNewTerm : ∀ (s : Node) t c, Inv s → t > s.term → Inv (s.setVotedFor t c)
  /-- `setVotedFor` granting the vote in the current term while no vote was cast yet -/
  voteGrant : ∀ (s : Node) c, Inv s → s.votedFor = 0 → Inv (s.setVotedFor s.term c)
  votesNeeded : ∀ (s : Node) v, Inv s → Inv (s.withVotesNeeded v)
  candTransfer : ∀ (s : Node) v, Inv s → Inv (s.withCandTransfer v)
  /-- `RemoveGTE(i)` is only called for an index above the snapshot index (`appendLoop`) -/
  removeGTE : ∀ (s : Node) i pt, Inv s → s.snapIndex < i →
    Inv { s with log := s.log.removeGTE i, lastLogIndex := i - 1, lastLogTerm := pt }
  revertConfig : ∀ (s : Node), Inv s → Inv s.revertConfig
  commitConfig : ∀ (s : Node), Inv s → Inv s.commitConfig
  snapPending : ∀ (s : Node) v, Inv s → Inv (s.withSnapPending v)
  bootstrapLast : ∀ (s : Node) i t, Inv s → Inv (s.withLast i t)

namespace StepClosedNC

variable {Inv : Node → Prop} (h : StepClosedNC Inv)
include h

theorem storeEntry_inv (f : Nat) (s : Node) (b) (hs : Inv s) : Inv (storeEntry f s b) := (h.toClosed.block f).1 s b hs
theorem doChangeConfig_inv (f : Nat) (s : Node) (t c) (hs : Inv s) : Inv (doChangeConfig f s t c) :=
  (h.toClosed.block f).2.2.2.1 s t c hs
theorem checkConfigActions_inv (f : Nat) (s : Node) (t c) (hs : Inv s) : Inv (checkConfigActions f s t c) :=
  (h.toClosed.block f).2.2.2.2.1 s t c hs
theorem checkConfigAction_inv (f : Nat) (s : Node) (t c id) (hs : Inv s) : Inv (checkConfigAction f s t c id) :=
  (h.toClosed.block f).2.2.2.2.2.1 s t c id hs
theorem onMajorityCommit_inv (f : Nat) (s : Node) (hs : Inv s) : Inv (onMajorityCommit f s) :=
  (h.toClosed.block f).2.2.2.2.2.2.2 s hs

theorem removeGTE_inv (s : Node) (i pt : Nat) (hs : Inv s) (hi : s.snapIndex < i) : Inv (s.removeGTE i pt) := by
  unfold Node.removeGTE; exact h.point _ _ (h.removeGTE _ _ _ hs hi)



theorem applyCommitted_inv (s : Node) (hs : Inv s) : Inv s.applyCommitted := by
  unfold Node.applyCommitted; exact h.toClosed.fsmApply_inv _ _ hs

theorem checkQuorum_inv (s : Node) (hs : Inv s) : Inv s.checkQuorum := by
  unfold Node.checkQuorum; dsimp only
  repeat' split
  all_goals first
    | exact hs
    | exact h.panic _ _ hs
    | exact h.setLeader _ _ (h.setRole _ _ hs)
    | exact h.setLeader _ _ (h.setRole _ _ (h.panic _ _ hs))

theorem transferReply_inv (s : Node) (r : String) (hs : Inv s) : Inv (s.transferReply r) := by
  unfold Node.transferReply; exact h.ldr _ _ (h.reply _ _ _ hs)

theorem tryTransfer_inv (s : Node) (hs : Inv s) : Inv s.tryTransfer := by
  unfold Node.tryTransfer; dsimp only
  have hp := h.popOrder s hs
  repeat' split
  all_goals first
    | exact hs
    | exact hp
    | exact h.panic _ _ hs
    | exact h.panic _ _ hp
    | exact h.ldr _ _ hs
    | exact h.ldr _ _ hp
    | exact h.ldr _ _ (h.panic _ _ hs)
    | exact h.ldr _ _ (h.panic _ _ hp)

theorem onTransfer_inv (s : Node) (t g : Nat) (hs : Inv s) : Inv (s.onTransfer t g) := by
  unfold Node.onTransfer; dsimp only
  split
  · exact h.reply _ _ _ hs
  · exact h.tryTransfer_inv _ (h.ldr _ _ hs)

theorem replyTransfer_inv (s : Node) (r : String) (hs : Inv s) : Inv (s.replyTransfer r) := by
  unfold Node.replyTransfer; exact h.checkConfigActions_inv _ _ _ _ (h.transferReply_inv _ _ hs)

theorem onTimeoutNowResult_inv (s : Node) (src : Nat) (e : Bool) (r : Nat) (hs : Inv s) :
    Inv (s.onTimeoutNowResult src e r) := by
  unfold Node.onTimeoutNowResult
  extract_lets l0 t0 s1 s2 l1 t1
  have h0 : Inv s1 := h.ldr _ _ hs
  have h2 : Inv s2 := by
    unfold s2
    split
    · split
      · exact h.toClosed.setRepl_inv _ _ h0
      · exact h0
    · exact h.panic _ _ h0
  split
  · split
    · exact h.tryTransfer_inv _ h2
    · exact h2
  · split
    · split
      · exact h.replyTransfer_inv _ _ h0
      · exact h.tryTransfer_inv _ h0
    · exact h.ldr _ _ h0

theorem leaderInit_inv (s : Node) (hs : Inv s) : Inv s.leaderInit := by
  unfold Node.leaderInit; dsimp only
  apply h.storeEntry_inv
  apply h.checkConfigActions_inv
  apply Closed.foldl_inv
  · intro s x hs
    split
    · exact hs
    · exact h.toClosed.addReplication_inv _ _ hs
  · exact h.ldr _ _ (h.toClosed.assert_inv _ _ _ hs)

theorem leaderRelease_inv (s : Node) (hs : Inv s) : Inv s.leaderRelease := by
  unfold Node.leaderRelease Node.leaderReleaseRest; dsimp only
  apply h.ldr
  apply Closed.foldl_inv _ (fun s t hs => h.reply _ _ _ hs)
  apply Closed.foldl_inv _ (fun s t hs => h.reply _ _ _ hs)
  repeat' split
  all_goals first
    | exact hs
    | exact h.setLeader _ _ hs
    | exact h.transferReply_inv _ _ hs
    | exact h.setLeader _ _ (h.transferReply_inv _ _ hs)

theorem startElection_inv (s : Node) (hs : Inv s) : Inv s.startElection := by
  unfold Node.startElection
  extract_lets s1 s2 s3 s4
  have h4 : Inv s4 := h.votesNeeded _ _ (h.voteNewTerm _ _ _ (h.votesNeeded _ _ (h.toClosed.assert_inv _ _ _ hs)) (Nat.lt_succ_self _))
  split
  · exact h.setLeader _ _ (h.setRole _ _ h4)
  · exact h4

theorem onVoteResult_inv (s : Node) (e : Bool) (t r : Nat) (hs : Inv s) : Inv (s.onVoteResult e t r) := by
  unfold Node.onVoteResult; dsimp only
  repeat' split
  all_goals first
    | exact hs
    | exact h.setTerm _ _ (h.setRole _ _ hs)
    | exact h.setLeader _ _ (h.setRole _ _ (h.votesNeeded _ _ hs))
    | exact h.votesNeeded _ _ hs

theorem followerTimeout_inv (s : Node) (hs : Inv s) : Inv s.followerTimeout := by
  unfold Node.followerTimeout; dsimp only
  split
  · exact h.setRole _ _ (h.setLeader _ _ hs)
  · exact h.setLeader _ _ hs

theorem releaseRole_inv (s : Node) (r : Role) (hs : Inv s) : Inv (s.releaseRole r) := by
  unfold Node.releaseRole
  split
  · exact hs
  · exact h.candTransfer _ _ hs
  · exact h.leaderRelease_inv _ hs

theorem initRole_inv (s : Node) (hs : Inv s) : Inv s.initRole := by
  unfold Node.initRole
  split
  · exact hs
  · exact h.startElection_inv _ hs
  · exact h.leaderInit_inv _ hs

theorem settle_inv (f : Nat) (s : Node) (c : Role) (hs : Inv s) : Inv (settle f s c) := by
  induction f generalizing s c with
  | zero => exact hs
  | succ n ih =>
    unfold settle
    split
    · exact hs
    · exact ih _ _ (h.initRole_inv _ (h.releaseRole_inv _ _ hs))

omit h in
theorem setVotedFor_same (s : Node) : s.setVotedFor s.term s.votedFor = s := by
  unfold Node.setVotedFor; simp

theorem onVoteRequest_inv (s : Node) (q : VoteReq) (hs : Inv s) : Inv (s.onVoteRequest q) := by
  unfold Node.onVoteRequest
  split
  · exact h.ret _ _ hs
  · split
    · exact h.ret _ _ hs
    · rename_i hlt
      have hge : q.term ≥ s.term := Nat.le_of_not_lt hlt
      extract_lets vf tm s1
      have h1 : Inv s1 := by unfold s1; split; exact h.setRole _ _ hs; exact hs
      have hterm : s1.term = s.term := by unfold s1; split <;> rfl
      have hvote : s1.votedFor = s.votedFor := by unfold s1; split <;> rfl
      by_cases hgt : q.term > s.term
      · have e1 : vf = 0 := by unfold vf; simp [hgt]
        have e2 : tm = q.term := by unfold tm; simp [hgt]
        have hn := fun c => h.voteNewTerm s1 q.term c h1 (by omega)
        simp only [e1, e2]
        repeat' split
        all_goals first | exact h.ret _ _ (hn _) | exact absurd rfl ‹_›
      · have e1 : vf = s1.votedFor := by unfold vf; simp [hgt, hvote]
        have e2 : tm = s1.term := by unfold tm; simp [hgt, hterm]
        simp only [e1, e2]
        split
        · rw [setVotedFor_same]; exact h.ret _ _ h1
        · rename_i hv
          have hv' : s1.votedFor = 0 := by simpa using hv
          split
          · rw [setVotedFor_same]; exact h.ret _ _ h1
          · exact h.ret _ _ (h.voteGrant _ _ h1 hv')

end StepClosedNC

/-- One backward step for goals `Inv (…)`: close by assumption, peel one primitive (syntactic match),
or split a conditional. -/
syntax "invnc_step " term : tactic
macro_rules
  | `(tactic| invnc_step $h) => `(tactic| first
      | assumption
      | with_reducible apply StepClosedNC.ret $h
      | with_reducible apply StepClosedNC.applyCommitted_inv $h
      | with_reducible apply StepClosedNC.checkQuorum_inv $h
      | with_reducible apply StepClosedNC.tryTransfer_inv $h
      | with_reducible apply StepClosedNC.onTransfer_inv $h
      | with_reducible apply StepClosedNC.replyTransfer_inv $h
      | with_reducible apply StepClosedNC.transferReply_inv $h
      | with_reducible apply StepClosedNC.onTimeoutNowResult_inv $h
      | with_reducible apply StepClosedNC.startElection_inv $h
      | with_reducible apply StepClosedNC.onVoteResult_inv $h
      | with_reducible apply StepClosedNC.followerTimeout_inv $h
      | with_reducible apply StepClosedNC.storeEntry_inv $h
      | with_reducible apply StepClosedNC.doChangeConfig_inv $h
      | with_reducible apply StepClosedNC.checkConfigActions_inv $h
      | with_reducible apply StepClosedNC.checkConfigAction_inv $h
      | with_reducible apply StepClosedNC.onMajorityCommit_inv $h
      | with_reducible apply StepClosedNC.releaseRole_inv $h
      | with_reducible apply StepClosedNC.onVoteRequest_inv $h
      | with_reducible apply Closed.appendEntry_inv (StepClosedNC.toClosed $h)
      | with_reducible apply Closed.commitLog_inv (StepClosedNC.toClosed $h)
      | with_reducible apply Closed.assert_inv (StepClosedNC.toClosed $h)
      | with_reducible apply Closed.fsmApply_inv (StepClosedNC.toClosed $h)
      | with_reducible apply Closed.setRepl_inv (StepClosedNC.toClosed $h)
      | with_reducible apply Closed.notifyFlr_inv (StepClosedNC.toClosed $h)
      | with_reducible apply Closed.panic (StepClosedNC.toClosed $h)
      | with_reducible apply Closed.reply (StepClosedNC.toClosed $h)
      | with_reducible apply Closed.point (StepClosedNC.toClosed $h)
      | with_reducible apply Closed.changeConfigR (StepClosedNC.toClosed $h)
      | with_reducible apply Closed.setCommitIndexR (StepClosedNC.toClosed $h)
      | with_reducible apply Closed.ldr (StepClosedNC.toClosed $h)
      | with_reducible apply Closed.fsm (StepClosedNC.toClosed $h)
      | with_reducible apply StepClosedNC.setRole $h
      | with_reducible apply StepClosedNC.setLeader $h
      | with_reducible apply StepClosedNC.setTerm $h
      | with_reducible apply StepClosedNC.doClose $h
      | with_reducible apply StepClosedNC.revertConfig $h
      | with_reducible apply StepClosedNC.commitConfig $h
      | with_reducible apply StepClosedNC.snapPending $h
      | with_reducible apply StepClosedNC.candTransfer $h
      | with_reducible apply StepClosedNC.votesNeeded $h
      | with_reducible apply StepClosedNC.rpcReply $h
      | with_reducible apply StepClosedNC.bootstrapLast $h
      | split)

syntax "invnc_auto " term : tactic
macro_rules
  | `(tactic| invnc_auto $h) => `(tactic| repeat' (invnc_step $h))

namespace StepClosedNC
variable {Inv : Node → Prop} (h : StepClosedNC Inv)
include h

theorem resolveConflict_inv (s : Node) (ne : Entry) (pt : Nat) (hs : Inv s) (hi : s.snapIndex < ne.index) :
    Inv (s.resolveConflict ne pt) := by
  unfold Node.resolveConflict
  split
  · split
    · exact h.panic _ _ hs
    · dsimp only
      have h1 := h.removeGTE_inv s ne.index pt hs hi
      split
      · exact h.revertConfig _ h1
      · exact h1
  · exact hs

omit h in
theorem snapIndex_panic' (s : Node) (site : String) : (s.panic site).snapIndex = s.snapIndex := by
  unfold Node.panic; split <;> rfl

omit h in
theorem snapIndex_resolveConflict' (s : Node) (ne : Entry) (pt : Nat) :
    (s.resolveConflict ne pt).snapIndex = s.snapIndex := by
  unfold Node.resolveConflict
  split
  · split
    · exact snapIndex_panic' _ _
    · dsimp only; split <;> rfl
  · rfl

omit h in
theorem snapIndex_appendEntry' (s : Node) (e : Entry) : (s.appendEntry e).snapIndex = s.snapIndex := by
  unfold Node.appendEntry Node.assert
  dsimp only
  split
  · rfl
  · exact snapIndex_panic' _ _

omit h in
theorem snapIndex_changeConfigR' (s : Node) (c : Config) : (s.changeConfigR c).snapIndex = s.snapIndex := by
  unfold Node.changeConfigR; dsimp only; split <;> rfl

theorem appendLoop_inv (st : AppLoop) (es : List Entry) (hs : Inv st.s) : Inv (appendLoop st es).s := by
  induction es generalizing st with
  | nil => exact hs
  | cons ne rest ih =>
    unfold appendLoop
    split
    · exact hs
    · dsimp only
      split
      · exact ih _ hs
      · rename_i hsn
        split
        · exact ih _ hs
        · have h1 : Inv ((st.s.resolveConflict ne st.term).appendEntry ne) :=
            h.toClosed.appendEntry_inv _ _ (h.resolveConflict_inv _ _ _ hs (by omega))
          split
          · split
            · exact ih _ (h.changeConfigR _ _ h1)
            · exact h1
          · exact ih _ h1

theorem appendCheck_inv (s : Node) (q : AppendReq) (hs : Inv s) : Inv (s.appendCheck q) := by
  unfold Node.appendCheck
  dsimp only
  invnc_auto h
  all_goals (simp only [Node.canCommit, Bool.and_eq_true, decide_eq_true_eq] at *; omega)

theorem onAppendEntries_inv (s : Node) (q : AppendReq) (hs : Inv s) : Inv (s.onAppendEntries q) := by
  unfold Node.onAppendEntries
  dsimp only
  have hA : ∀ x, Inv x → Inv (x.appendCheck q) := fun x hx => h.appendCheck_inv x q hx
  have hL : ∀ st, Inv st.s → Inv (appendLoop st q.entries).s := fun st hst => h.appendLoop_inv st _ hst
  repeat' (first | invnc_step h | (apply hA) | (apply hL; dsimp only))
  all_goals (simp only [Node.canCommit, Bool.and_eq_true, decide_eq_true_eq] at *; omega)

theorem fsmRestore_inv (s : Node) (hs : Inv s) : Inv s.fsmRestore := by
  unfold Node.fsmRestore
  invnc_auto h



theorem onTimeoutNow_inv (s : Node) (hs : Inv s) : Inv s.onTimeoutNow := by
  unfold Node.onTimeoutNow
  invnc_auto h

theorem onTakeSnapshot_inv (s : Node) (t th : Nat) (hs : Inv s) : Inv (s.onTakeSnapshot t th) := by
  unfold Node.onTakeSnapshot
  invnc_auto h



theorem onChangeConfig_inv (s : Node) (t : Nat) (c : Config) (hs : Inv s) : Inv (s.onChangeConfig t c) := by
  unfold Node.onChangeConfig
  dsimp only
  invnc_auto h

theorem bootstrap_inv (s : Node) (t : Nat) (c : Config) (hs : Inv s) : Inv (s.bootstrap t c) := by
  unfold Node.bootstrap
  dsimp only
  invnc_auto h

theorem replUpdLoop_inv (s : Node) (f : UpdFlags) (us : List ReplUpdate) (hs : Inv s) :
    Inv (replUpdLoop s f us).1 := by
  induction us generalizing s f with
  | nil => exact hs
  | cons u us ih =>
    unfold replUpdLoop
    dsimp only
    repeat' (first | invnc_step h | apply ih)


theorem checkReplUpdates_inv (s : Node) (us : List ReplUpdate) (hus : SnapRelU.NoRm us) (hs : Inv s) :
    Inv (s.checkReplUpdates us) := by
  unfold Node.checkReplUpdates
  dsimp only
  have hL : Inv (replUpdLoop s {} us).1 := h.replUpdLoop_inv _ _ _ hs
  have hfl : (replUpdLoop s {} us).2.removeLTEU = false := SnapRelU.replUpdLoop_flag us hus s {}
  rw [hfl]
  simp only [Bool.false_eq_true, false_and, if_false]
  invnc_auto h

theorem rejectEntries_inv (s : Node) (b : List QItem) (hs : Inv s) : Inv (s.rejectEntries b) := by
  induction b generalizing s with
  | nil => exact hs
  | cons q qs ih =>
    unfold Node.rejectEntries
    dsimp only
    repeat' (first | invnc_step h | apply ih)

theorem onWaitForStable_inv (s : Node) (t : Nat) (hs : Inv s) : Inv (s.onWaitForStable t) := by
  unfold Node.onWaitForStable
  invnc_auto h

theorem rpcDone_inv (s : Node) (a b : Bool) (hs : Inv s) : Inv (s.rpcDone a b) := by
  unfold Node.rpcDone
  invnc_auto h


/-- the operations that neither compact the log nor touch the snapshots -/
def NCOp : Op → Prop
  | .install _ => False
  | .snapRun => False
  | .snapTaken => False
  | .shutdown => False
  | .replUpdates us => SnapRelU.NoRm us
  | _ => True

theorem handle_inv (s : Node) (op : Op) (hop : NCOp op) (hs : Inv s) : Inv (s.handle op) := by
  cases op <;> unfold Node.handle <;> dsimp only <;> first | exact hop.elim | skip
  case vote q => exact h.rpcDone_inv _ _ _ (h.onVoteRequest_inv _ _ hs)
  case append q => exact h.rpcDone_inv _ _ _ (h.onAppendEntries_inv _ _ hs)
  case timeoutNow => exact h.rpcDone_inv _ _ _ (h.onTimeoutNow_inv _ hs)
  case identity a b c => exact h.rpcReply _ _ hs
  case disconnected n => invnc_auto h
  case timeout => invnc_auto h
  case newEntries b => split; exact h.storeEntry_inv _ _ _ hs; exact h.rejectEntries_inv _ _ hs
  case changeConfig t c => split; exact h.onChangeConfig_inv _ _ _ hs; exact h.bootstrap_inv _ _ _ hs
  case takeSnapshot t th => exact h.onTakeSnapshot_inv _ _ _ hs
  case waitStable t => split; exact h.onWaitForStable_inv _ _ hs; exact h.reply _ _ _ hs
  case transfer t g => invnc_auto h
  case voteResult e t r => invnc_auto h
  case replUpdates us => split; exact h.checkReplUpdates_inv _ _ hop hs; exact hs
  case transferTimeout => invnc_auto h
  case timeoutNowResult a b c => invnc_auto h
  case newTermTimeout => invnc_auto h

/-- **Composition theorem**: a closed predicate is preserved by every step. -/
theorem step_inv (s : Node) (op : Op) (ra : List Nat) (ord : List (List Nat)) (hop : NCOp op) (hs : Inv s) :
    Inv (s.step op ra ord) := by
  unfold Node.step
  dsimp only
  have h1 := h.handle_inv _ op hop (h.begin _ ra ord hs)
  split
  · exact h1
  · exact h.settle_inv _ _ _ h1

end StepClosedNC
end Node
end Raft
