/-
The replication / commit part of the possibility proof (Props/C17Sys.lean), on the cluster-level system:
  E  the new leader `w` puts ONE request carrying its whole log above index 1 on the wire; every other node of `M`
     receives it and answers `success`;
  F  `w` is told the acknowledgements and commits its last entry `N` (an entry of its own term);
  G  `w` puts a heartbeat (previous entry `N`, commit index `N`) on the wire; every other node of `M` receives it,
     commits `N` and applies.
-/
import RaftVerif.Lemmas.ProgressRun

namespace Raft
namespace Progress
open Node LogRel CommitRel Commit C02Sys NoPanic SysInv
open Replication (ReadFrom)
open Election (FixedV setNode setNode_same setNode_other)

section repl
variable {V : List Nat} {v : Commit.Sys}

theorem stepC_acks (i : Nat) (op : Op) (ra : List Nat) (ord : List (List Nat)) (src : Nat) :
    (stepC v i op ra ord src).acks = ackOf i op ((v.node i).step op ra ord) ++
      (selfAck i op (v.node i) ((v.node i).step op ra ord) ++ v.acks) := rfl

theorem stepC_sent (i : Nat) (op : Op) (ra : List Nat) (ord : List (List Nat)) (src : Nat) :
    (stepC v i op ra ord src).rp.sent = v.rp.sent := rfl

/-- all logs start with the same entry (the bootstrap entry): the tree has one root -/
theorem first_term_eq (hV : V.Nodup) (hv : ReachableG V v) (i j : Nat) :
    termAt (v.node i).log.entries 1 = termAt (v.node j).log.entries 1 := by
  obtain ⟨hI, _⟩ := inv_reachable hV (reachableG_V hv)
  have hG := ginv_reachable hV hv
  have hi : Holds (v.node i).log.entries 1 (termAt (v.node i).log.entries 1) :=
    ⟨Nat.le_refl _, (facts hV hv i).lastPos, rfl⟩
  have hj : Holds (v.node j).log.entries 1 (termAt (v.node j).log.entries 1) :=
    ⟨Nat.le_refl _, (facts hV hv j).lastPos, rfl⟩
  obtain ⟨c, hc, hck⟩ := log_record hI i hi
  obtain ⟨d, hd, hdk⟩ := log_record hI j hj
  unfold key at hck hdk
  simp only [Prod.mk.injEq] at hck hdk
  have := hG.root c hc d hd (by rw [hck.1, hdk.1]) (by rw [hck.1]; exact Nat.le_refl _)
  rw [hck.2, hdk.2] at this
  exact this

/-- an append request on the wire may be delivered to any node other than its sender -/
theorem enabled_append {j : Nat} (hj0 : j ≠ 0) {q : AppendReq} (hq : q ∈ v.rp.sent) (hsrc : q.src ≠ j) :
    Commit.Enabled v j (.append q) 0 ∧ EnabledG v j (.append q) := by
  have h2 : Counts (v.node j) (.append q) → Election.RealReply v.rp.el j 0 := by
    rintro ⟨_, _, _, h⟩; cases h
  have h3 : ∀ q', Op.append q = .append q' → q'.term < (v.rp.el.node j).term ∨ q' ∈ v.rp.sent := by
    intro q' h; injection h with h; rw [← h]; exact Or.inr hq
  have h4 : ∀ q', Op.append q = .append q' → q'.src ≠ j := by
    intro q' h; injection h with h; rw [← h]; exact hsrc
  exact ⟨⟨⟨hj0, (fun _ h => by cases h), h2, trivial, h3⟩,
    ⟨trivial, (fun _ h => by cases h), (fun _ _ h => by cases h)⟩, (fun _ h => by cases h), h4,
    (fun _ h => by cases h)⟩,
    enabledG_other _ (fun _ h => by cases h) (fun _ _ _ h => by cases h)⟩

/-- what the delivery of the request `q` (previous index ≥ 1) to node `j` leaves -/
structure Appended (v v' : Commit.Sys) (j : Nat) (q : AppendReq) : Prop where
  others : ∀ i, i ≠ j → v'.node i = v.node i
  holds : ∀ e ∈ q.entries, Holds (v'.node j).log.entries e.index e.term
  holdsPrev : Holds (v'.node j).log.entries q.prevLogIndex q.prevLogTerm
  role : (v'.node j).role = .follower
  term : (v'.node j).term = q.term
  closed : (v'.node j).closed = (v.node j).closed
  cfg : (v'.node j).configs.latest = (v.node j).configs.latest
  ci : (v'.node j).commitIndex = (v.node j).commitIndex ∨
    ((v.node j).commitIndex < (v'.node j).commitIndex ∧ (v'.node j).commitIndex ≤ q.ldrCommitIndex)
  ack : 1 ≤ q.prevLogIndex + q.entries.length → ∃ a ∈ v'.acks, a.voter = j ∧ a.term = q.term ∧
    a.index = q.prevLogIndex + q.entries.length
  sent : v'.rp.sent = v.rp.sent
  acks : ∀ a ∈ v.acks, a ∈ v'.acks
  post : v'.node j = (v.node j).step (.append q) [] []
  np : ((v.node j).step (.append q) [] []).panicked = none

/-- **one delivery of an append request**: a request on the wire that is not stale for the open node `j` (a member of
its latest configuration), sent by another node, whose previous entry (`prevLogIndex ≥ 1`) `j`'s log holds, is
delivered: `j` answers `success`, holds every entry of the request, stays open with the same latest configuration;
the acknowledgement is recorded. -/
theorem append_node (hV : V.Nodup) (hv : ReachableG V v) (j : Nat) (hj0 : j ≠ 0) (q : AppendReq)
    (hq : q ∈ v.rp.sent) (hsrc : q.src ≠ j) (hns : ¬ q.term < (v.node j).term) (ho : (v.node j).closed = "")
    (hh : (v.node j).configs.latest.has j = true) (h1 : 1 ≤ q.prevLogIndex)
    (h2 : q.prevLogIndex ≤ (v.node j).log.entries.length)
    (ht : termAt (v.node j).log.entries q.prevLogIndex = q.prevLogTerm) :
    Exec V v [.step j (.append q) [] [] 0] (stepC v j (.append q) [] [] 0) ∧
    Appended v (stepC v j (.append q) [] [] 0) j q := by
  obtain ⟨hI, hS⟩ := inv_reachable hV (reachableG_V hv)
  have hG := ginv_reachable hV hv
  have f := facts hV hv j
  obtain ⟨he, heG⟩ := enabled_append (v := v) hj0 hq hsrc
  have sc : SC V v j (.append q) [] [] 0 := ⟨hV, hI, hS, he⟩
  have hp := (C19Sys.reqok_in_sys_partial V hV v hv j (.append q) 0 he heG ho [] []).2.2.1
  have hsucc := append_all_entries_accepted (v.node j) q [] [] f.nwf hns h1 h2 ht hp
  have hidx := (hI.rp.sent q hq).idx
  have hes : ∀ e ∈ q.entries, e.typ ≠ etConfig ∧ (v.node j).configs.latest.index < e.index := by
    intro e hemem
    obtain ⟨k, hk, rfl⟩ := List.getElem_of_mem hemem
    have hi := hidx k hk
    refine ⟨fun htyp => ?_, by rw [f.latest1]; omega⟩
    have := ((sent_cfg hI hG hq _ hemem) htyp).1
    omega
  obtain ⟨a1, a2, a3, a4, a5⟩ := append_step_frame (v.node j) q [] [] hns (by rw [f.nid]; exact hh) hes
  have hex := exec_append hV hv [] [] he heG ho a3
  obtain ⟨_, fs⟩ := sc.fst hns
  obtain ⟨_, k1, k2, k3⟩ := fs.ack hsucc
  have ei := stepC_node_i (y := v) j (.append q) [] [] 0
  refine ⟨hex, fun i hi => stepC_node_j j _ _ _ _ hi, by rw [ei]; exact k1, by rw [ei]; exact k2 h1,
    by rw [ei]; exact a5, by rw [ei]; exact fs.term hns, by rw [ei]; exact a4, by rw [ei]; exact a3, ?_, ?_, rfl, ?_,
    ei, hp⟩
  · rw [ei]
    rcases fs.ci with c | ⟨c1, c2, _⟩
    · exact Or.inl c
    · exact Or.inr ⟨c1, c2⟩
  · intro hpos
    refine ⟨(⟨j, q.term, q.prevLogIndex + q.entries.length,
      termAt ((v.node j).step (.append q) [] []).log.entries (q.prevLogIndex + q.entries.length)⟩ : Ack),
      ?_, rfl, rfl, rfl⟩
    rw [stepC_acks]
    apply List.mem_append_left
    unfold ackOf
    dsimp only
    rw [if_pos ⟨hsucc, hpos⟩]
    exact List.mem_singleton.mpr rfl
  · intro a ha
    rw [stepC_acks]; exact List.mem_append_right _ (List.mem_append_right _ ha)

/-- what the delivery of `q` to node `j` leaves of node `j` (`s` before, `s'` after) and in the ledger of
acknowledgements `A` -/
structure AppendedJ (s s' : Node) (A : List Ack) (j : Nat) (q : AppendReq) : Prop where
  holds : ∀ e ∈ q.entries, Holds s'.log.entries e.index e.term
  holdsPrev : Holds s'.log.entries q.prevLogIndex q.prevLogTerm
  role : s'.role = .follower
  term : s'.term = q.term
  closed : s'.closed = s.closed
  cfg : s'.configs.latest = s.configs.latest
  ci : s'.commitIndex = s.commitIndex ∨ (s.commitIndex < s'.commitIndex ∧ s'.commitIndex ≤ q.ldrCommitIndex)
  ack : 1 ≤ q.prevLogIndex + q.entries.length → ∃ a ∈ A, a.voter = j ∧ a.term = q.term ∧
    a.index = q.prevLogIndex + q.entries.length
  post : s' = s.step (.append q) [] []
  np : (s.step (.append q) [] []).panicked = none

/-- **the request `q` is delivered to every node of `js`** (each: open member of its latest configuration, not the
sender, the request not stale, the previous entry held): see `AppendedJ`; nothing else changes, the ledgers `sent`
and `acks` only grow. -/
theorem append_all (hV : V.Nodup) (q : AppendReq) (h1 : 1 ≤ q.prevLogIndex) :
    ∀ (js : List Nat) (v : Commit.Sys), ReachableG V v → js.Nodup → q ∈ v.rp.sent →
      (∀ j ∈ js, j ≠ 0 ∧ q.src ≠ j ∧ ¬ q.term < (v.node j).term ∧ (v.node j).closed = "" ∧
        (v.node j).configs.latest.has j = true ∧ q.prevLogIndex ≤ (v.node j).log.entries.length ∧
        termAt (v.node j).log.entries q.prevLogIndex = q.prevLogTerm) →
      ∃ ls v', Exec V v ls v' ∧ ls.length = js.length ∧ (∀ l ∈ ls, l.actor ∈ js) ∧ ls.filter Lbl.isTimeout = [] ∧
        (∀ i, i ∉ js → v'.node i = v.node i) ∧ (∀ j ∈ js, AppendedJ (v.node j) (v'.node j) v'.acks j q) ∧
        v'.rp.sent = v.rp.sent ∧ (∀ a ∈ v.acks, a ∈ v'.acks)
  | [], v, _, _, _, _ => ⟨[], v, .nil v, rfl, fun l h => absurd h List.not_mem_nil, rfl, fun _ _ => rfl,
      fun j h => absurd h List.not_mem_nil, rfl, fun _ h => h⟩
  | j :: js, v, hv, hnd, hq, hall => by
    obtain ⟨hjn, hnd'⟩ := List.nodup_cons.mp hnd
    obtain ⟨hj0, hsrc, hns, ho, hh, h2, ht⟩ := hall j (List.mem_cons_self ..)
    obtain ⟨hex, ap⟩ := append_node hV hv j hj0 q hq hsrc hns ho hh h1 h2 ht
    have hv1 := Exec.reachable hV hv hex
    obtain ⟨ls2, v', ex2, len2, act2, tm2, oth2, all2, sent2, acks2⟩ := append_all hV q h1 js
      (stepC v j (.append q) [] [] 0) hv1 hnd' (by rw [ap.sent]; exact hq)
      (fun i hi => by
        have hij : i ≠ j := fun e => hjn (by rw [← e]; exact hi)
        rw [ap.others i hij]
        exact hall i (List.mem_cons_of_mem _ hi))
    refine ⟨[.step j (.append q) [] [] 0] ++ ls2, v', hex.trans ex2, ?_, ?_, ?_, ?_, ?_, ?_, ?_⟩
    · rw [List.length_append, len2, List.length_cons]; exact Nat.add_comm _ _
    · intro l hl
      rcases List.mem_append.mp hl with h | h
      · rw [List.mem_singleton.mp h]; exact List.mem_cons_self ..
      · exact List.mem_cons_of_mem _ (act2 l h)
    · rw [List.filter_append, tm2]; rfl
    · intro i hi
      have hij : i ≠ j := fun e => hi (by rw [e]; exact List.mem_cons_self ..)
      rw [oth2 i (fun h => hi (List.mem_cons_of_mem _ h)), ap.others i hij]
    · intro i hi
      rcases List.mem_cons.mp hi with e | e
      · subst e
        rw [oth2 i hjn]
        refine ⟨ap.holds, ap.holdsPrev, ap.role, ap.term, ap.closed, ap.cfg, ap.ci, fun hp => ?_, ap.post, ap.np⟩
        obtain ⟨a, ha, r⟩ := ap.ack hp
        exact ⟨a, acks2 a ha, r⟩
      · have hij : i ≠ j := fun e' => hjn (by rw [← e']; exact e)
        have := all2 i e
        rw [ap.others i hij] at this
        exact this
    · rw [sent2, ap.sent]
    · intro a ha; exact acks2 a (ap.acks a ha)

end repl

end Progress
end Raft
