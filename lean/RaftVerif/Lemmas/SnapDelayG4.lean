/-
Delayed compaction, part G4 — the report protocol composed with the node model, for every operation a leader handles.

Ghost of a leader state `s`: `view j` (first index of the view of the goroutine of replication `j`) and `q` (the
`removeLTE` reports waiting in `replUpdateCh`), coupled as in the protocol invariant (`Coupled s q view`,
Lemmas/SnapDelayF.lean = `SnapView.QInv.j3`).  The goroutine-side moves (`SnapView.PTrans.consume`: a goroutine takes its
update, reports, replaces its view) are separate steps of the protocol and do not touch the node.

What a leader step does to the ghost (`GhostStep`):
* a NEW LEADERSHIP (the handler left the role `leader`, and after the role transitions the node leads again:
  `leader.init` ran): every replication is new, its goroutine starts with a view at `ldr.removeLTE = log.prev`, the
  channel is new and empty;
* the SAME LEADERSHIP: the goroutines of the replications that existed keep their views; a replication with a new id is
  new: its goroutine starts with a view at `ldr.removeLTE`; the waiting reports stay (or, for the batch of the waiting
  reports, are taken).
`NoReAdd s s'` — the ONE hypothesis about the step that is not proved here: a status of `s'` whose id existed in `s` is
inherited (no member is removed and added again inside one handler; this needs reasoning about configurations: the leader
block only erases or modifies members, `onChangeConfig` only adds).

* `handle_keeps_coupled` / `step_keeps_coupled` — operations other than `.snapTaken`, `.replUpdates`, `.shutdown`.
* `snapTaken_keeps_coupled` — `.snapTaken`: the table is untouched, so is the coupling; what is compacted AT ONCE is
  bounded by the match indexes, NOT by the views (`SnapDelay.snapTaken_status_frame`).
* `SnapDelay.reports_only_keeps_views` (part F) — the batch of the waiting reports.
* `leader_step_keeps_views` — the summary: see Props/C09Sys4.lean.
-/
import RaftVerif.Lemmas.SnapDelayG3
import RaftVerif.Lemmas.SnapDelayF

namespace Raft
namespace SnapDelay
open Node SnapView

/-- `s` has a replication with this id -/
def HasId (s : Node) (j : Nat) : Prop := ∃ r0 ∈ s.ldr.repls, r0.id = j

/-- a status of `s'` whose id existed in `s` is inherited from `s` -/
def NoReAdd (s s' : Node) : Prop := ∀ r ∈ s'.ldr.repls, HasId s r.id → Inh s r.id r.removeLTE

theorem latest_none (q : List (Nat × Nat)) (j d : Nat) (h : ∀ e ∈ q, e.1 ≠ j) : latest q j d = d := by
  induction q generalizing d with
  | nil => rfl
  | cons e q ih =>
    show latest q j (if e.1 = j then e.2 else d) = d
    rw [if_neg (h e (List.mem_cons_self ..))]
    exact ih d (fun x hx => h x (List.mem_cons_of_mem _ hx))

/-- **the coupling through a frame**: if the bound is kept and every status is new or inherited, the coupling holds for the
views of the goroutines that stay and views at the bound for the new ones -/
theorem coupled_of_frame (s x : Node) (q : List (Nat × Nat)) (view view' : Nat → Nat)
    (hf : GL s.ldr.removeLTE (Inh s) x.ldr) (hre : NoReAdd s x) (hc : Coupled s q view)
    (hq : ∀ e ∈ q, HasId s e.1)
    (hv1 : ∀ j, HasId s j → view' j = view j) (hv2 : ∀ j, ¬ HasId s j → view' j = s.ldr.removeLTE) :
    Coupled x q view' := by
  intro r hr
  have inh : Inh s r.id r.removeLTE → latest q r.id r.removeLTE = view' r.id := by
    rintro ⟨r0, h0, e1, e2⟩
    rw [hv1 r.id ⟨r0, h0, e1⟩, ← e1, ← e2]
    exact hc r0 h0
  rcases hf.2 r hr with e | e
  · by_cases hid : HasId s r.id
    · exact inh (hre r hr hid)
    · rw [hv2 r.id hid, e]
      exact latest_none q r.id _ (fun x hx h => hid (h ▸ hq x hx))
  · exact inh e

/-- **a handler other than `onSnapshotTaken`, the loop of `checkReplUpdates` and `shutdown` keeps the coupling** -/
theorem handle_keeps_coupled (s : Node) (op : Op) (hop : StepClosedG.FOp op) (q : List (Nat × Nat))
    (view view' : Nat → Nat) (hre : NoReAdd s (s.handle op)) (hc : Coupled s q view) (hq : ∀ e ∈ q, HasId s e.1)
    (hv1 : ∀ j, HasId s j → view' j = view j) (hv2 : ∀ j, ¬ HasId s j → view' j = s.ldr.removeLTE) :
    Coupled (s.handle op) q view' ∧ (s.handle op).ldr.removeLTE = s.ldr.removeLTE :=
  ⟨coupled_of_frame s _ q view view' (handle_status_frame s op hop) hre hc hq hv1 hv2, (handle_status_frame s op hop).1⟩

/-! ### the role transitions: a new leadership -/

/-- the bound is the first index of the log and every replication is new: the state of a leader record after
`leader.init` -/
def NewLeadership (x : Node) : Prop := x.ldr.removeLTE = x.log.prev ∧ FreshL x.ldr

theorem newLeadership_init (x : Node) : NewLeadership x.leaderInit := by
  obtain ⟨h1, h2, h3⟩ := leaderInit_spec x
  exact ⟨by rw [h1, h3], h2⟩

/-- after the role transitions a leader whose role the handler had changed is a leader that ran `leader.init`
(`LC.settle_cache`, for `NewLeadership`) -/
theorem settle_newLeadership (fuel : Nat) (s : Node) (cur : Role) (hf : LC.need s.role cur ≤ fuel)
    (hI : cur = .leader → s.role = .leader → NewLeadership s) :
    (settle fuel s cur).role = .leader → NewLeadership (settle fuel s cur) := by
  induction fuel generalizing s cur with
  | zero =>
    have e : s.role = cur := LC.need_zero (Nat.le_zero.mp hf)
    unfold settle
    intro hl
    exact hI (by rw [← e]; exact hl) hl
  | succ n ih =>
    unfold settle
    split
    · rename_i e
      intro hl
      exact hI (by rw [← e]; exact hl) hl
    · rename_i hne
      dsimp only
      have hr : (s.releaseRole cur).role = s.role := LC.role_releaseRole s cur
      apply ih
      · have hneed : LC.need s.role cur = match s.role with
            | .follower => 1 | .leader => 2 | .candidate => 3 := by
          unfold LC.need; rw [if_neg hne]; rfl
        unfold Node.initRole
        cases hrole : s.role with
        | follower =>
          rw [hr, hrole]; dsimp only; rw [hr, hrole, LC.need_self]; omega
        | candidate =>
          rw [hr, hrole]; dsimp only
          rw [hrole] at hneed hf; dsimp only at hneed
          rcases LC.role_startElection (s.releaseRole cur) with e | e
          · rw [e, hr, hrole, LC.need_self]; omega
          · rw [e]; unfold LC.need; simp; omega
        | leader =>
          rw [hr, hrole]; dsimp only
          rw [hrole] at hneed hf; dsimp only at hneed
          have hc := LC.role_leaderInit (s.releaseRole cur) (by rw [hr, hrole]; exact fun x => by cases x)
          cases hrl : (s.releaseRole cur).leaderInit.role with
          | candidate => exact absurd hrl hc
          | leader => rw [LC.need_self]; omega
          | follower => unfold LC.need; simp; omega
      · intro hl _
        unfold Node.initRole
        rw [hl]
        exact newLeadership_init _

/-- **leadership change**: if the handler of a leader left the role `leader` and the node leads after the role
transitions, `leader.init` ran last: the bound is `log.prev` and ALL replications are new -/
theorem step_new_leadership (s : Node) (op : Op) (ra : List Nat) (ord : List (List Nat)) (hl : s.role = .leader)
    (hh : ((s.begin ra ord).handle op).role ≠ .leader) (hop : op ≠ .shutdown)
    (hl' : (s.step op ra ord).role = .leader) : NewLeadership (s.step op ra ord) := by
  have e : s.step op ra ord = settle 6 ((s.begin ra ord).handle op) .leader := by
    unfold Node.step
    dsimp only
    have hb : (s.begin ra ord).role = .leader := hl
    rw [hb]
    cases op <;> first | rfl | exact absurd rfl hop
  rw [e] at hl' ⊢
  exact settle_newLeadership 6 _ _ (Nat.le_trans (LC.need_le _ _) (by decide)) (fun _ h => absurd h hh) hl'

/-- a new leadership is coupled with the ghost of new goroutines: views at the bound, nothing waiting -/
theorem newLeadership_coupled (x : Node) (h : NewLeadership x) :
    Coupled x [] (fun _ => x.ldr.removeLTE) ∧ ∀ r ∈ x.ldr.repls, x.log.prev ≤ (fun _ => x.ldr.removeLTE) r.id := by
  refine ⟨fun r hr => h.2 r hr, fun r _ => ?_⟩
  show x.log.prev ≤ x.ldr.removeLTE
  rw [h.1]
  exact Nat.le_refl _

/-! ### `onSnapshotTaken` -/

/-- **`onSnapshotTaken` keeps the coupling** (the replication table is untouched) -/
theorem snapTaken_keeps_coupled (s : Node) (q : List (Nat × Nat)) (view : Nat → Nat) (hok : C09.SegsOK s.log)
    (hc : Coupled s q view) : Coupled s.onSnapshotTaken q view := by
  intro r hr
  rw [(snapTaken_status_frame s hok).1] at hr
  exact hc r hr

theorem snapTaken_role (s : Node) : s.onSnapshotTaken.role = s.role := by
  have hq := SnapSim.onSnapshotTaken_qobs s
  unfold SnapSim.qobs at hq
  simp only [Prod.mk.injEq] at hq
  exact hq.1.2.2.2.2.2.2.2.1

end SnapDelay
end Raft
