/-
C12 at every crash point (part A): the disk predicate `Pd`, the in-memory facts `Mem`, the step invariant
`TJ = Track.TI ∧ TR` (every crash point recorded so far in `trace` satisfies `Pd`), and the primitives.

* `Pd d`  : what a restart needs of a disk content: `C12Track.DiskTracks d` (⇒ the restarted node is `Tracks`),
            `C19Order.DiskOK d` (⇒ it is `Ordered`), every configuration entry of the log decodes (⇒ the restart
            does not fail).
* `Mem s` : what is needed of the node in memory, besides `Track.Core` and `Order.CoreW`, for `Pd s.durable`:
            the log is well formed w.r.t. flushing (`C06.LogWF`), the newest snapshot's label is a configuration the
            snapshot covers, every configuration entry of the log decodes.
* `TR s`  : while the step has not panicked, `Mem s` and `Pd` of every crash point recorded so far.
* `TJ s₀ b g s = Track.TI s₀ b g s ∧ TR s`; every primitive state update preserves it (this file).
-/
import RaftVerif.Lemmas.SnapInstCrash

namespace Raft
namespace TrackCrash
open Node Track

/-! ## the disk predicate -/

/-- **what a restart needs of a disk content** -/
structure Pd (d : Durable) : Prop where
  tracks : C12Track.DiskTracks d
  ok : C19Order.DiskOK d
  dec : NoPanic.LogDec d.log.entries

theorem snapOf_congr {d d' : Durable} (e : d.snaps.head? = d'.snaps.head?) : C10.snapOf d = C10.snapOf d' := by
  unfold C10.snapOf; rw [e]

theorem staleLog_congr {d d' : Durable} (e1 : d.log = d'.log) (e2 : d.snaps.head? = d'.snaps.head?) :
    staleLog d = staleLog d' := by
  unfold staleLog; rw [e1, e2]

theorem logOf_congr {d d' : Durable} (e1 : d.log = d'.log) (e2 : d.snaps.head? = d'.snaps.head?) :
    C10.logOf d = C10.logOf d' := by
  unfold C10.logOf; rw [staleLog_congr e1 e2, snapOf_congr e2, e1]

/-- `Pd` looks at the log and at the newest snapshot file only -/
theorem Pd.congr {d d' : Durable} (h : Pd d') (e1 : d.log = d'.log) (e2 : d.snaps.head? = d'.snaps.head?) : Pd d := by
  have s1 := snapOf_congr e2
  have s2 := logOf_congr e1 e2
  obtain ⟨⟨a1, a2, a3, a4⟩, ⟨b1, b2, b3, b4⟩, c⟩ := h
  refine ⟨⟨by rw [e1]; exact a1, by rw [s1, s2]; exact a2, by rw [s1, s2]; exact a3, by rw [s1]; exact a4⟩,
    ⟨?_, by rw [e1]; exact b2, by rw [e1]; exact b3, by rw [s1]; exact b4⟩, by rw [e1]; exact c⟩
  unfold C10.DurWF at b1 ⊢
  rw [s1, e1]; exact b1

/-! ## what is needed in memory -/

structure Mem (s : Node) : Prop where
  lwf : C06.LogWF s.log
  lab : (label s).index ≤ s.snapIndex
  dec : NoPanic.LogDec s.log.entries

theorem logDec_take {es : List Entry} (h : NoPanic.LogDec es) (n : Nat) : NoPanic.LogDec (es.take n) :=
  fun e he => h e (List.mem_of_mem_take he)

theorem logDec_drop {es : List Entry} (h : NoPanic.LogDec es) (n : Nat) : NoPanic.LogDec (es.drop n) :=
  fun e he => h e (List.mem_of_mem_drop he)

theorem logDec_append {es : List Entry} (h : NoPanic.LogDec es) {e : Entry}
    (he : e.typ = etConfig → e.cfg.isSome = true) : NoPanic.LogDec (es ++ [e]) := by
  intro x hx
  rcases List.mem_append.mp hx with hx | hx
  · exact h x hx
  · rw [List.mem_singleton.mp hx]; exact he

/-- **the disk of a tracking, ordered node with `Mem`** (at any moment of a step) satisfies `Pd` -/
theorem pd_durable {s : Node} (c : Core s) (cw : Order.CoreW s) (m : Mem s) : Pd s.durable := by
  -- `Tracks`/`Ordered` of the node with the role and the commit index normalised: same disk
  let n : Node := { s with role := .follower, commitIndex := s.fsm.index }
  have ht : C12Track.Tracks n := ⟨c.congr6 rfl rfl rfl rfl rfl rfl, fun hl => by cases hl⟩
  have ho : Order.Ordered n :=
    ⟨⟨cw.last_eq, cw.prev_le_snap, cw.snap_le_applied, Nat.le_refl _, cw.committed_le_latest, cw.latest_le_last,
      cw.segs, cw.removeLTE_le, cw.snapRes_le⟩, by
        show s.fsm.index ≤ s.lastLogIndex
        rw [cw.last_eq]; exact c.fsmLe⟩
  have hd : n.durable = s.durable := rfl
  obtain ⟨dw, dc, di⟩ := C12Track.durable_snap n ht ho
  have h1 := C12Track.durable_diskTracks n ht ho
  rw [hd] at dw dc di h1
  refine ⟨h1, ⟨dw, SysInv.segsOK_durable _ cw.segs m.lwf,
    fun i e h => (C12Track.contig_durable c.contig).get?_index i e h, ?_⟩, logDec_take m.dec _⟩
  rw [dc, di]; exact m.lab

/-! ## the step invariant -/

/-- while the step has not panicked: `Mem`, and every crash point recorded so far satisfies `Pd` -/
def TR (s : Node) : Prop := s.panicked = none → Mem s ∧ ∀ p ∈ s.trace, Pd p.2

/-- the invariant of `Lemmas/ConfigTrack.lean` together with `TR` -/
def TJ (s₀ : Node) (b g : Bool) (s : Node) : Prop := TI s₀ b g s ∧ TR s

variable {s₀ : Node} {b g : Bool}

/-- what `TR` looks at -/
def obsR (s : Node) : NLog × List SnapFile × Nat × List (String × Durable) :=
  (s.log, s.snapsDisk, s.snapIndex, s.trace)

theorem obsR_eq {s s' : Node} (h : obsR s' = obsR s) :
    s'.log = s.log ∧ s'.snapsDisk = s.snapsDisk ∧ s'.snapIndex = s.snapIndex ∧ s'.trace = s.trace := by
  simp only [obsR, Prod.mk.injEq] at h
  exact h

theorem Mem.congr {s s' : Node} (m : Mem s) (e1 : s'.log = s.log) (e2 : s'.snapsDisk = s.snapsDisk)
    (e3 : s'.snapIndex = s.snapIndex) : Mem s' :=
  ⟨by rw [e1]; exact m.lwf, by rw [label_congr e3 e2, e3]; exact m.lab, by rw [e1]; exact m.dec⟩

theorem TR.irr {s s' : Node} (h : TR s) (e : obsR s' = obsR s) (hp : s'.panicked = none → s.panicked = none) :
    TR s' := by
  intro hp'
  obtain ⟨e1, e2, e3, e4⟩ := obsR_eq e
  obtain ⟨m, ht⟩ := h (hp hp')
  exact ⟨m.congr e1 e2 e3, by rw [e4]; exact ht⟩

theorem TJ.irr {s s' : Node} {b' g' : Bool} (h : TJ s₀ b g s) (hti : TI s₀ b' g' s') (e : obsR s' = obsR s)
    (hp : s'.panicked = none → s.panicked = none) : TJ s₀ b' g' s' := ⟨hti, h.2.irr e hp⟩

theorem TJ.dropQ {s : Node} (h : TJ s₀ b g s) : TJ s₀ b false s := ⟨h.1.dropQ, h.2⟩
theorem TJ.weaken {s : Node} (h : TJ s₀ true g s) : TJ s₀ b g s := ⟨h.1.weaken, h.2⟩
theorem TJ.toFalse {s : Node} (h : TJ s₀ b g s) : TJ s₀ false g s := ⟨h.1.toFalse, h.2⟩
theorem TJ.coreW {s : Node} (h : TJ s₀ b g s) (hp : s.panicked = none) : Order.CoreW s := h.1.coreW hp
theorem TJ.core {s : Node} (h : TJ s₀ b g s) (hp : s.panicked = none) : Core s := (h.1.2 hp).1
theorem TJ.mem {s : Node} (h : TJ s₀ b g s) (hp : s.panicked = none) : Mem s := (h.2 hp).1

/-- a state whose newest crash point is its own disk content -/
theorem tr_after_point {x : Node} {t : List (String × Durable)} {n : String} (hti : TI s₀ b g x)
    (m : x.panicked = none → Mem x) (htr : x.trace = t ++ [(n, x.durable)])
    (ht : x.panicked = none → ∀ p ∈ t, Pd p.2) : TR x := by
  intro hp
  refine ⟨m hp, fun p hpm => ?_⟩
  rw [htr] at hpm
  rcases List.mem_append.mp hpm with hpm | hpm
  · exact ht hp p hpm
  · rw [List.mem_singleton.mp hpm]
    exact pd_durable (hti.2 hp).1 (hti.coreW hp) (m hp)

/-! ## primitives that touch nothing of `TR` -/

theorem tj_panic (s : Node) (site : String) : TJ s₀ b g (s.panic site) :=
  ⟨ti_panic s site, fun h => absurd h (panic_panicked_ne s site)⟩

theorem obsR_panic (s : Node) (site : String) : obsR (s.panic site) = obsR s := by
  unfold Node.panic; split <;> rfl
theorem obsR_assert (s : Node) (bb : Bool) (site : String) : obsR (s.assert bb site) = obsR s := by
  unfold Node.assert; split
  · rfl
  · exact obsR_panic s site
theorem obsR_reply (s : Node) (t : Nat) (r : String) : obsR (s.reply t r) = obsR s := by
  unfold Node.reply; split <;> rfl
theorem obsR_doClose (s : Node) (r : String) : obsR (s.doClose r) = obsR s := by
  unfold Node.doClose; split <;> rfl

theorem tj_assert {s : Node} (bb : Bool) (site : String) (h : TJ s₀ b g s) : TJ s₀ b g (s.assert bb site) :=
  h.irr (ti_assert bb site h.1) (obsR_assert s bb site) (Order.irr_assert s bb site).2
theorem tj_reply {s : Node} (t : Nat) (r : String) (h : TJ s₀ b g s) : TJ s₀ b g (s.reply t r) :=
  h.irr (ti_reply t r h.1) (obsR_reply s t r) (Order.irr_reply s t r).2
theorem tj_popOrder {s : Node} (h : TJ s₀ b g s) : TJ s₀ b g s.popOrder := h.irr (ti_popOrder h.1) rfl id
theorem tj_rpcReply {s : Node} (r) (h : TJ s₀ b g s) : TJ s₀ b g (s.withRpcReply r) := h.irr (ti_rpcReply r h.1) rfl id
theorem tj_ret {s : Node} (r : Nat) (h : TJ s₀ b g s) : TJ s₀ b g (s.ret r) := h.irr (ti_ret r h.1) rfl id
theorem tj_setRole {s : Node} (r : Role) (h : TJ s₀ b g s) : TJ s₀ b g (s.setRole r) := h.irr (ti_setRole r h.1) rfl id
theorem tj_setLeader {s : Node} (l : Nat) (h : TJ s₀ b g s) : TJ s₀ b g (s.setLeader l) :=
  h.irr (ti_setLeader l h.1) rfl id
theorem tj_votesNeeded {s : Node} (v : Int) (h : TJ s₀ b g s) : TJ s₀ b g (s.withVotesNeeded v) :=
  h.irr (ti_votesNeeded v h.1) rfl id
theorem tj_candTransfer {s : Node} (v : Bool) (h : TJ s₀ b g s) : TJ s₀ b g (s.withCandTransfer v) :=
  h.irr (ti_candTransfer v h.1) rfl id
theorem tj_snapPending {s : Node} (v) (h : TJ s₀ b g s) : TJ s₀ b g (s.withSnapPending v) :=
  h.irr (ti_snapPending v h.1) rfl id
theorem tj_doClose {s : Node} (r : String) (h : TJ s₀ b g s) : TJ s₀ b g (s.doClose r) :=
  h.irr (ti_doClose r h.1) (obsR_doClose s r) (Order.irr_doClose s r).2

/-- a crash point: what is on disk at this instant satisfies `Pd` -/
theorem tj_point {s : Node} (n : String) (h : TJ s₀ b g s) : TJ s₀ b g (s.point n) :=
  ⟨ti_point n h.1, tr_after_point (x := s.point n) (t := s.trace) (n := n) (ti_point n h.1)
    (fun hp => (h.2 hp).1.congr rfl rfl rfl) rfl (fun hp => (h.2 hp).2)⟩

/-- `value.set`: the term file changes, log and snapshots do not -/
theorem tr_storeTermVote {s : Node} (t c : Nat) (h : TJ s₀ b g s) : TR (s.storeTermVote t c) := by
  unfold Node.storeTermVote
  dsimp only
  split
  · exact h.2.irr rfl id
  · intro hp
    have hp' : s.panicked = none := hp
    obtain ⟨m, ht⟩ := h.2 hp'
    refine ⟨m.congr rfl rfl rfl, fun p hpm => ?_⟩
    have hpm' : p ∈ s.trace ++ [("value.set", ({ s with durTerm := t, durVote := c } : Node).durable)] := hpm
    rcases List.mem_append.mp hpm' with hpm' | hpm'
    · exact ht p hpm'
    · rw [List.mem_singleton.mp hpm']
      exact (pd_durable (h.core hp') (h.coreW hp') m).congr rfl rfl

theorem tj_setTerm {s : Node} (t : Nat) (h : TJ s₀ b g s) : TJ s₀ b g (s.setTerm t) := by
  refine ⟨ti_setTerm t h.1, ?_⟩
  unfold Node.setTerm
  split
  · split
    · exact tr_storeTermVote _ _ h
    · exact (tj_panic (s₀ := s₀) (b := b) (g := g) s _).2
  · exact h.2

theorem tj_setVotedFor {s : Node} (t c : Nat) (h : TJ s₀ b g s) : TJ s₀ b g (s.setVotedFor t c) := by
  refine ⟨ti_setVotedFor t c h.1, ?_⟩
  unfold Node.setVotedFor
  split
  · split
    · exact tr_storeTermVote _ _ h
    · exact (tj_panic (s₀ := s₀) (b := b) (g := g) s _).2
  · exact h.2

theorem tj_ldr_same {s : Node} {l : Leader} (h : TJ s₀ b g s) (hl : l.removeLTE = s.ldr.removeLTE)
    (hq : l.queue = s.ldr.queue) : TJ s₀ b g (s.withLdr l) := h.irr (ti_ldr_same h.1 hl hq) rfl id

theorem tj_ldr {s : Node} {l : Leader} (h : TJ s₀ b g s) (hl : s.panicked = none → l.removeLTE ≤ s.snapIndex)
    (hq : ∀ q ∈ l.queue, q ∈ s.ldr.queue) : TJ s₀ b g (s.withLdr l) := h.irr (ti_ldr h.1 hl hq) rfl id

theorem tj_ldr_sub {s : Node} {l : Leader} (h : TJ s₀ b g s) (hl : l.removeLTE = s.ldr.removeLTE)
    (hq : ∀ q ∈ l.queue, q ∈ s.ldr.queue) : TJ s₀ b g (s.withLdr l) := h.irr (ti_ldr_sub h.1 hl hq) rfl id

theorem tj_ldr_fresh {s : Node} {l : Leader} (h : TJ s₀ b g s) (hl : s.panicked = none → l.removeLTE ≤ s.snapIndex)
    (hq : l.queue = []) : TJ s₀ b true (s.withLdr l) := h.irr (ti_ldr_fresh h.1 hl hq) rfl id

theorem obsR_changeConfigR (s : Node) (c : Config) : obsR (s.changeConfigR c) = obsR s := by
  rw [changeConfigR_eq]; rfl

theorem obsR_commitConfig (s : Node) : obsR s.commitConfig = obsR s := by
  rw [commitConfig_eq]; rfl

theorem tj_changeConfigR {s : Node} (cfg : Config) (h : TJ s₀ b g s)
    (hg : s.panicked = none → s.configs.latest.index ≤ cfg.index ∧ cfg.index ≤ s.lastLogIndex) :
    TJ s₀ b g (s.changeConfigR cfg) :=
  h.irr (ti_changeConfigR cfg h.1 hg) (obsR_changeConfigR s cfg)
    (fun hp => by rw [← (changeConfigR_fields s cfg).2.2.2.2.2.1]; exact hp)

theorem tj_commitConfig {s : Node} (h : TJ s₀ b g s) : TJ s₀ b g s.commitConfig :=
  h.irr (ti_commitConfig h.1) (obsR_commitConfig s)
    (fun hp => by rw [← (commitConfig_other s).2.2.2.2.2.2.2.2.2.2]; exact hp)

theorem tj_revertConfig {s : Node} (h : TJ s₀ b g s)
    (hg : s.panicked = none → s.configs.committed.index ≤ s.lastLogIndex) : TJ s₀ b g s.revertConfig :=
  h.irr (ti_revertConfig h.1 hg) rfl id

theorem obsR_afterConfigCommit (s : Node) : obsR s.afterConfigCommit = obsR s := by
  unfold Node.afterConfigCommit Node.closeIfRemoved Node.stepDownIfNotVoter
  repeat' split
  all_goals first
    | rfl
    | exact obsR_doClose _ _

theorem obsR_setCommitIndexR (s : Node) (i : Nat) : obsR (s.setCommitIndexR i).1 = obsR s := by
  unfold Node.setCommitIndexR
  split
  · rw [obsR_afterConfigCommit, commitConfig_eq]; rfl
  · rfl

theorem tj_withCommitIndex {s : Node} {b' : Bool} (i : Nat) (h : TJ s₀ b g s)
    (hg : s.panicked = none → s.fsm.index ≤ i ∧ (b' = true → i ≤ s.lastLogIndex)) :
    TJ s₀ b' g (s.withCommitIndex i) := h.irr (ti_withCommitIndex i h.1 hg) rfl id

theorem tj_setCommitIndexR {s : Node} {b' : Bool} (i : Nat) (h : TJ s₀ b g s)
    (hg : s.panicked = none → s.fsm.index ≤ i ∧ (b' = true → i ≤ s.lastLogIndex)) :
    TJ s₀ b' g (s.setCommitIndexR i).1 :=
  h.irr (ti_setCommitIndexR i h.1 hg) (obsR_setCommitIndexR s i)
    (fun hp => by rw [← Order.setCommitIndexR_panicked s i]; exact hp)

theorem tj_snapResult {s : Node} (v : Option SnapRes) (h : TJ s₀ b g s)
    (hg : s.panicked = none → ∀ rs, v = some rs → rs.index ≤ s.snapIndex) : TJ s₀ b g (s.withSnapResult v) :=
  h.irr (ti_snapResult v h.1 hg) rfl id

theorem tj_withLast {s : Node} (i t : Nat) (h : TJ s₀ b g s) (hg : s.panicked = none → s.lastLogIndex = i) :
    TJ s₀ b g (s.withLast i t) := h.irr (ti_withLast i t h.1 hg) rfl id

/-! ## the log operations -/

theorem tj_appendRaw {s : Node} {g' : Bool} (e : Entry) (roll : Bool) (h : TJ s₀ b g' s)
    (hg : s.panicked = none → e.index = s.lastLogIndex + 1 ∧ (roll = true → s.log.lastSegPrev ≠ e.index - 1))
    (hq : g = true → s.panicked = none → ∀ q ∈ s.ldr.queue, isLogEntryTyp q.typ = true → s.log.prev < q.index →
      s.log.get? q.index = some q.toEntry ∨ (q.index = e.index ∧ q.toEntry = e))
    (hd : s.panicked = none → e.typ = etConfig → e.cfg.isSome = true) :
    TJ s₀ b g { s with log := s.log.append e roll, lastLogIndex := e.index, lastLogTerm := e.term } := by
  refine ⟨ti_appendRaw e roll h.1 hg hq, fun hp => ?_⟩
  have hp' : s.panicked = none := hp
  obtain ⟨m, ht⟩ := h.2 hp'
  obtain ⟨_, p2⟩ := C03.append_parts s.log e roll
  refine ⟨⟨(CommitRel.logwf_append _ _ _ m.lwf).1, m.lab, ?_⟩, ht⟩
  show NoPanic.LogDec (s.log.append e roll).entries
  rw [p2]; exact logDec_append m.dec (hd hp')

theorem tj_appendEntry {s : Node} {g' : Bool} (e : Entry) (h : TJ s₀ b g' s)
    (hq : g = true → s.panicked = none → ∀ q ∈ s.ldr.queue, isLogEntryTyp q.typ = true → s.log.prev < q.index →
      s.log.get? q.index = some q.toEntry ∨ (q.index = e.index ∧ q.toEntry = e))
    (hd : s.panicked = none → e.typ = etConfig → e.cfg.isSome = true) :
    TJ s₀ b g (s.appendEntry e) := by
  unfold Node.appendEntry
  dsimp only
  obtain ⟨e1, e2, _⟩ := Order.obs_eq (Order.irr_assert s (e.index == s.lastLogIndex + 1) "assert.appendEntry").1
  obtain ⟨_, _, _, _, t5, _, t7⟩ := obsT_eq (obsT_assert s (e.index == s.lastLogIndex + 1) "assert.appendEntry")
  refine tj_appendRaw e _ (tj_assert _ _ h) (fun hp => ?_) (fun hg hp => ?_)
    (fun hp => hd ((Order.irr_assert _ _ _).2 hp))
  · have hb := Order.assert_true hp
    rw [e1, e2]
    refine ⟨by simpa using hb, fun hroll => ?_⟩
    simp only [Bool.and_eq_true, bne_iff_ne, ne_eq] at hroll
    exact hroll.2
  · rw [t5, t7]
    exact hq hg ((Order.irr_assert _ _ _).2 hp)

theorem tj_appendEntry' {s : Node} (e : Entry) (h : TJ s₀ b g s)
    (hd : s.panicked = none → e.typ = etConfig → e.cfg.isSome = true) : TJ s₀ b g (s.appendEntry e) :=
  tj_appendEntry e h (fun hg hp q hq ht hlt => Or.inl ((h.1.2 hp).2 hg q hq ht hlt)) hd

theorem tj_commitLog {s : Node} (n : Nat) (h : TJ s₀ b g s) : TJ s₀ b g (s.commitLog n) := by
  have hti := ti_commitLog (s₀ := s₀) (b := b) (g := g) n h.1
  refine ⟨hti, tr_after_point (t := s.trace) (n := "commitLog") hti (fun hp => ?_) rfl (fun hp => (h.2 hp).2)⟩
  have hp' : s.panicked = none := hp
  obtain ⟨m, _⟩ := h.2 hp'
  obtain ⟨_, e2, _⟩ := Order.commitN_same s.log n
  refine ⟨(CommitRel.logwf_commitN _ n m.lwf).1, m.lab, ?_⟩
  show NoPanic.LogDec (s.log.commitN n).entries
  rw [e2]; exact m.dec

theorem logwf_removeLTE (l : NLog) (i : Nat) (a : C09.SegsOK l) : C06.LogWF (l.removeLTE i) := by
  obtain ⟨_, _, _, _, hl, _, hs⟩ := C09.removeLTE_whole_segments l i a
  refine ⟨?_, ?_⟩
  · show (l.removeLTE i).lastSegPrev ≤ l.last
    have := hs.le_last _ (SysInv.lastSegPrev_mem _ hs)
    rw [hl] at this; exact this
  · show l.last ≤ (l.removeLTE i).last
    rw [hl]; exact Nat.le_refl _

theorem logwf_removeGTE (l : NLog) (i : Nat) (a : C09.SegsOK l) (h1 : l.prev < i) (h2 : i ≤ l.last) :
    C06.LogWF (l.removeGTE i) := by
  have hl := Order.last_removeGTE l i h1 h2
  have hs := Order.segsOK_removeGTE l i a h1 h2
  refine ⟨?_, ?_⟩
  · show (l.removeGTE i).lastSegPrev ≤ i - 1
    have := hs.le_last _ (SysInv.lastSegPrev_mem _ hs)
    rw [hl] at this; exact this
  · show i - 1 ≤ (l.removeGTE i).last
    rw [hl]; exact Nat.le_refl _

/-- `Raft.compactLog` at or below the snapshot index -/
theorem tj_compactLog {s : Node} (i : Nat) (h : TJ s₀ b g s) (hg : s.panicked = none → i ≤ s.snapIndex) :
    TJ s₀ b g (s.compactLog i) := by
  have hti := ti_compactLog (s₀ := s₀) (b := b) (g := g) i h.1 hg
  refine ⟨hti, tr_after_point (t := s.trace) (n := "compactLog") hti (fun hp => ?_) rfl (fun hp => (h.2 hp).2)⟩
  have hp' : s.panicked = none := hp
  obtain ⟨m, _⟩ := h.2 hp'
  refine ⟨logwf_removeLTE _ i (h.coreW hp').segs, m.lab, ?_⟩
  show NoPanic.LogDec (s.log.removeLTE i).entries
  rw [C09.removeLTE_entries]; exact logDec_drop m.dec _

/-- "delete the conflicting entry and all that follow it" -/
theorem tj_resolveConflict {s : Node} (ne : Entry) (pt : Nat) (h : TJ s₀ true g s)
    (hg : s.panicked = none → ne.index ≤ s.lastLogIndex →
      s.snapIndex < ne.index ∧ s.commitIndex < ne.index ∧ s.configs.committed.index < ne.index) :
    TJ s₀ true false (s.resolveConflict ne pt) := by
  have hti := ti_resolveConflict (s₀ := s₀) (g := g) ne pt h.1 hg
  refine ⟨hti, ?_⟩
  by_cases hle : ne.index ≤ s.lastLogIndex
  · cases het : s.entryTerm? ne.index with
    | none =>
      have e : s.resolveConflict ne pt = s.panic "bug.mustGetEntry" := by
        unfold Node.resolveConflict; rw [if_pos hle, het]
      rw [e]; exact (tj_panic (s₀ := s₀) (b := true) (g := g) s _).2
    | some x =>
      have hx : (s.resolveConflict ne pt).log = s.log.removeGTE ne.index ∧
          (s.resolveConflict ne pt).snapsDisk = s.snapsDisk ∧ (s.resolveConflict ne pt).snapIndex = s.snapIndex ∧
          (s.resolveConflict ne pt).trace = s.trace ++ [("removeGTE", (s.resolveConflict ne pt).durable)] ∧
          ((s.resolveConflict ne pt).panicked = none → s.panicked = none) := by
        unfold Node.resolveConflict
        rw [if_pos hle, het]
        dsimp only
        split <;> exact ⟨rfl, rfl, rfl, rfl, id⟩
      obtain ⟨x1, x2, x3, x4, x5⟩ := hx
      refine tr_after_point hti (fun hp => ?_) x4 (fun hp => (h.2 (x5 hp)).2)
      have hp' := x5 hp
      obtain ⟨m, _⟩ := h.2 hp'
      have cw := h.coreW hp'
      have hgt := (hg hp' hle).1
      have h1 : s.log.prev < ne.index := by have := cw.prev_le_snap; omega
      have h2 : ne.index ≤ s.log.last := by rw [← cw.last_eq]; exact hle
      refine ⟨by rw [x1]; exact logwf_removeGTE _ _ cw.segs h1 h2, by rw [label_congr x3 x2, x3]; exact m.lab, ?_⟩
      rw [x1]
      exact logDec_take m.dec _
  · have e : s.resolveConflict ne pt = s := by unfold Node.resolveConflict; rw [if_neg hle]
    rw [e]; exact h.2

/-! ## the FSM goroutine: nothing of `TR` moves -/

theorem fsmFrame_obsR : FsmFrame obsR :=
  ⟨fun s site => obsR_panic s site, fun s t r => obsR_reply s t r, fun _ _ => rfl⟩

theorem tj_fsmApply {s : Node} (items : List QItem) (h : TJ s₀ b g s)
    (hit : s.panicked = none → ∀ q ∈ items, isLogEntryTyp q.typ = true → s.log.prev < q.index →
      s.log.get? q.index = some q.toEntry) :
    TJ s₀ true g (s.fsmApply items) :=
  h.irr (ti_fsmApply items h.1 hit) (fsmFrame_obsR.fsmApply_eq s items)
    (fun hp => (Order.fsmApply_ok s items hp).1)

theorem tj_applyCommitted {s : Node} (h : TJ s₀ b g s) : TJ s₀ true g s.applyCommitted :=
  tj_fsmApply [] h (fun _ q hq => by cases hq)

theorem tj_applyCommittedL {s : Node} (h : TJ s₀ b true s) : TJ s₀ true true s.applyCommittedL := by
  unfold Node.applyCommittedL
  dsimp only
  exact tj_fsmApply _ (tj_ldr h (fun hp => (h.coreW hp).removeLTE_le) (splitQueue_mem _ _).2)
    (fun hp q hq => (h.1.2 hp).2 rfl q ((splitQueue_mem _ _).1 q hq))

/-! ## snapshots -/

/-- the newest configuration at or below `i` has an index at or below `i` (given that of the label) -/
theorem newest_index_le {log : NLog} (hc : C03.LogContig log) (L : Config) (i : Nat) (hL : L.index ≤ i) :
    (newest log L i).index ≤ i := by
  unfold newest
  cases hl : (pre log i).getLast? with
  | none => exact hL
  | some c =>
    have hm : c ∈ pre log i := List.mem_of_getLast? hl
    unfold pre at hm
    obtain ⟨e, he, hcfg⟩ := List.mem_filterMap.mp hm
    obtain ⟨k, hk, hke⟩ := List.getElem_of_mem he
    rw [List.length_take] at hk
    rw [List.getElem_take] at hke
    show c.index ≤ i
    rw [Order.config?_index hcfg, ← hke, hc k (by omega)]
    omega

/-- `snapshotSink.done` at the FSM's position: two crash points (`snap.publish`, `snap.retain`), both with the new
file as the newest one -/
theorem tj_publishSnap {s : Node} (f : SnapFile) (h : TJ s₀ b g s) (hidx : f.index = s.fsm.index)
    (hterm : f.term = s.fsm.term) (hcfg : 0 < s.fsm.config.index → f.config = s.fsm.config)
    (hlab : s.panicked = none → f.config.index ≤ f.index) :
    TJ s₀ b g (s.publishSnapshot f) := by
  have hti := ti_publishSnap (s₀ := s₀) (b := b) (g := g) f h.1 hidx hterm hcfg
  refine ⟨hti, fun hp => ?_⟩
  have hp' : s.panicked = none := hp
  obtain ⟨m, ht⟩ := h.2 hp'
  have c := h.core hp'
  have cw := h.coreW hp'
  have hh : ∀ g, s.snapsDisk.head? = some g → g.index ≤ f.index := fun g hg => by
    have := c.headLe g hg; have := cw.snap_le_applied; omega
  have m' : Mem (s.publishSnapshot f) :=
    ⟨m.lwf, by rw [label_publish s f c.retain hh]; exact hlab hp', m.dec⟩
  have hpd := pd_durable (hti.2 hp).1 (hti.coreW hp) m'
  refine ⟨m', fun p hpm => ?_⟩
  rw [C10.publishSnapshot_trace] at hpm
  simp only [List.mem_append, List.mem_cons, List.not_mem_nil, or_false] at hpm
  obtain ⟨tl, htl⟩ := insertSnap_head f s.snapsDisk hh
  obtain ⟨k, hk⟩ : ∃ k, s.retain = k + 1 := ⟨s.retain - 1, by have := c.retain; omega⟩
  rcases hpm with hpm | hpm | hpm
  · exact ht p hpm
  · rw [hpm]
    refine hpd.congr rfl ?_
    show (insertSnap f s.snapsDisk).head? = ((insertSnap f s.snapsDisk).take s.retain).head?
    rw [htl, hk]; rfl
  · rw [hpm]
    exact hpd.congr rfl rfl

end TrackCrash
end Raft
