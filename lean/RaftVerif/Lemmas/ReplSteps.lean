/-
Theorems about M5 (Model/Repl.lean, tied to replication.go by the repldiff engine): what a replication
step sends and how it moves matchIndex / nextIndex. They are quoted by Props C01, C04, C06, C17.
-/
import RaftVerif.Model.Repl

namespace Raft
namespace Repl

/-- **repl_request_from_log** (C04): whatever `writeAppendEntriesReq` sends was read from the leader's log:
the request is addressed `(prev = nextIndex-1)`, `prevLogTerm` is 0 for index 0, the snapshot's term at
the snapshot index and otherwise the term of the leader's entry at `prev`; every entry it carries is an
entry of the leader's log at an index ≥ nextIndex; it carries at most `maxAppendEntries` entries; term,
source and commit index are the leader's. -/
theorem repl_request_from_log (st : State) (env : Env) (b : Bool) (q : Node.AppendReq)
    (h : (writeAppend st env b).append = some q) :
    q.prevLogIndex = st.nextIndex - 1 ∧ q.term = st.term ∧ q.src = st.src ∧ q.ldrCommitIndex = st.ldrCommit ∧
    (q.prevLogIndex = 0 → q.prevLogTerm = 0) ∧
    (q.prevLogIndex ≠ 0 → q.prevLogIndex = env.snapIndex → q.prevLogTerm = env.snapTerm) ∧
    (q.prevLogIndex ≠ 0 → q.prevLogIndex ≠ env.snapIndex →
        ∃ e, env.log.get? q.prevLogIndex = some e ∧ e.term = q.prevLogTerm) ∧
    q.entries.length ≤ maxAppendEntries ∧
    (∀ e ∈ q.entries, ∃ k, env.log.get? (st.nextIndex + k) = some e) ∧
    (writeAppend st env b).st.nextIndex = st.nextIndex + (if b then min (st.ldrLastIndex - (st.nextIndex - 1)) maxAppendEntries else 0) := by
  unfold writeAppend at h ⊢
  extract_lets prev pt n es at h ⊢
  generalize hpt : pt = ptv at h ⊢
  match ptv, hpt with
  | .error p, _ => simp at h
  | .ok none, _ => simp at h
  | .ok (some prevTerm), hpt =>
    dsimp only at h ⊢
    split at h
    · simp at h
    · split at h
      · simp at h
      · rename_i hn1 hn2
        rw [if_neg hn1, if_neg hn2]
        simp only [Option.some.injEq] at h
        subst h
        refine ⟨rfl, rfl, rfl, rfl, ?_, ?_, ?_, ?_, ?_, rfl⟩
        · intro h0
          have : prev = 0 := h0
          simp only [pt, this, if_true] at hpt
          injection hpt with hpt; injection hpt with hpt; exact hpt.symm
        · intro h0 hs
          have h0' : ¬ prev = 0 := h0
          have hs' : prev = env.snapIndex := hs
          simp only [pt, hs', if_true] at hpt
          simp only [hs'] at h0'
          simp only [h0', if_false] at hpt
          injection hpt with hpt; injection hpt with hpt; exact hpt.symm
        · intro h0 hs
          have h0' : ¬ prev = 0 := h0
          have hs' : ¬ prev = env.snapIndex := hs
          simp only [pt, h0', hs', if_false] at hpt
          unfold viewTerm at hpt
          split at hpt
          · simp at hpt
          · split at hpt
            · simp at hpt
            · injection hpt with hpt
              have hpt' : (env.log.get? prev).map (·.term) = some prevTerm := hpt
              obtain ⟨e, hg, he⟩ := Option.map_eq_some_iff.mp hpt'
              exact ⟨e, hg, he⟩
        · refine Nat.le_trans (List.length_filterMap_le _ _) ?_
          simp only [List.length_range]
          unfold n
          split
          · exact Nat.min_le_right _ _
          · exact Nat.zero_le _
        · intro e he
          have he' : e ∈ List.filterMap (fun k => env.log.get? (st.nextIndex + k)) (List.range n) := he
          rw [List.mem_filterMap] at he'
          obtain ⟨k, _, hk⟩ := he'
          exact ⟨k, hk⟩

/-- a heartbeat (`sendEntries = false`) carries no entry and leaves `nextIndex` alone -/
theorem heartbeat_no_entries (st : State) (env : Env) (q : Node.AppendReq)
    (h : (writeAppend st env false).append = some q) :
    q.entries = [] ∧ (writeAppend st env false).st.nextIndex = st.nextIndex := by
  have hn := (repl_request_from_log st env false q h).2.2.2.2.2.2.2.2.2
  have hl := (repl_request_from_log st env false q h)
  refine ⟨?_, by simpa using hn⟩
  unfold writeAppend at h
  extract_lets prev pt n es at h
  generalize hpt : pt = ptv at h
  match ptv, hpt with
  | .error p, _ => simp at h
  | .ok none, _ => simp at h
  | .ok (some prevTerm), _ =>
    dsimp only at h
    have hn0 : n = 0 := by unfold n; simp
    have hes : es = [] := by unfold es; rw [hn0]; rfl
    simp only [hn0, Nat.lt_irrefl, false_and, if_false, Option.some.injEq, gt_iff_lt] at h
    rw [← h]; exact hes

/-- **match_index_sound** (C06): `onAppendEntriesResp` never lowers `matchIndex`; it raises it only on a
success response, exactly to the last index of the request that was acknowledged, and tells the leader
that very value; any other response leaves it alone. -/
theorem match_index_sound (st : State) (term result lastLogIndex reqLast : Nat) :
    let o := onAppendResp st term result lastLogIndex reqLast
    st.matchIndex ≤ o.st.matchIndex ∧
    (o.st.matchIndex ≠ st.matchIndex →
        result = rSuccess ∧ o.st.matchIndex = reqLast ∧ o.notes = [⟨"matchIndex", reqLast⟩]) ∧
    (∀ v, (⟨"matchIndex", v⟩ : Note) ∈ o.notes → result = rSuccess ∧ v = reqLast ∧ o.st.matchIndex = v) := by
  intro o
  unfold o onAppendResp
  repeat' split
  all_goals simp_all
  all_goals omega

/-- an install-snapshot exchange moves `matchIndex` only when the follower answered success, to the
index of the snapshot that was sent -/
theorem install_match_index (st : State) (env : Env) (term result : Nat) :
    let o := installSnap st env term result
    (o.st.matchIndex ≠ st.matchIndex →
        result = rSuccess ∧ ∃ f, env.snap = some f ∧ o.st.matchIndex = f.index ∧ o.st.nextIndex = f.index + 1) ∧
    (∀ q, o.install = some q → ∃ f, env.snap = some f ∧ q.lastIndex = f.index ∧ q.lastTerm = f.term ∧
        q.lastConfig = f.config ∧ q.data = f.data ∧ q.term = st.term ∧ q.src = st.src) := by
  intro o
  unfold o installSnap
  split
  · simp
  · rename_i f hf
    repeat' split
    all_goals simp_all

/-- **probe_decreases** (C17): a mismatch response from a follower that is not faulty strictly lowers
`nextIndex` (when it is positive) and never leaves it above the follower's `lastLogIndex + 1`: the probe
loop of `replicate` has `nextIndex` as a ranking function. -/
theorem probe_decreases (st : State) (term result lastLogIndex reqLast : Nat)
    (hr : result = rPrevEntryNotFound ∨ result = rPrevTermMismatch) (hf : st.matchIndex ≤ lastLogIndex) :
    let o := onAppendResp st term result lastLogIndex reqLast
    o.err = "" ∧ o.panic = "" ∧ o.st.nextIndex ≤ st.nextIndex - 1 ∧ o.st.nextIndex ≤ lastLogIndex + 1 ∧
    (0 < st.nextIndex → o.st.nextIndex < st.nextIndex) ∧ o.st.matchIndex = st.matchIndex := by
  intro o
  have h1 : result ≠ rStaleTerm := by rcases hr with h | h <;> (rw [h]; decide)
  have h2 : result ≠ rSuccess := by rcases hr with h | h <;> (rw [h]; decide)
  unfold o onAppendResp
  rw [if_neg h1, if_neg h2, if_pos hr, if_neg (by omega)]
  dsimp only
  refine ⟨rfl, rfl, Nat.min_le_left _ _, Nat.min_le_right _ _, ?_, rfl⟩
  intro hpos
  have := Nat.min_le_left (st.nextIndex - 1) (lastLogIndex + 1)
  omega

/-- a follower that reports a log shorter than what it already acknowledged is declared faulty, nothing moves -/
theorem faulty_follower_detected (st : State) (term result lastLogIndex reqLast : Nat)
    (hr : result = rPrevEntryNotFound ∨ result = rPrevTermMismatch) (hf : lastLogIndex < st.matchIndex) :
    (onAppendResp st term result lastLogIndex reqLast).err = "faultyFollower" ∧
    (onAppendResp st term result lastLogIndex reqLast).st = st := by
  have h1 : result ≠ rStaleTerm := by rcases hr with h | h <;> (rw [h]; decide)
  have h2 : result ≠ rSuccess := by rcases hr with h | h <;> (rw [h]; decide)
  unfold onAppendResp
  rw [if_neg h1, if_neg h2, if_pos hr, if_pos hf]
  exact ⟨rfl, rfl⟩

/-- **stale_term_stops** (C01): a response carrying "stale term" stops the replication and reports the
follower's term to the leader (which steps down, `checkReplUpdates`); nothing else moves. -/
theorem stale_term_stops (st : State) (env : Env) (term lastLogIndex reqLast : Nat) :
    (onAppendResp st term rStaleTerm lastLogIndex reqLast).err = "stop" ∧
    (onAppendResp st term rStaleTerm lastLogIndex reqLast).notes = [⟨"newTerm", term⟩] ∧
    (onAppendResp st term rStaleTerm lastLogIndex reqLast).st = st ∧
    (∀ f, env.snap = some f → (installSnap st env term rStaleTerm).err = "stop" ∧
      (installSnap st env term rStaleTerm).notes = [⟨"newTerm", term⟩] ∧ (installSnap st env term rStaleTerm).st = st) := by
  refine ⟨by simp [onAppendResp], by simp [onAppendResp], by simp [onAppendResp], ?_⟩
  intro f hf
  simp [installSnap, hf]

/-- a leader update only moves the view, the commit index and the voting right; it reports the new first
index to the leader exactly when the view's first index CHANGED (forward or, after the leader lowered its compaction bound,
backward: the repair of finding F19) -/
theorem leader_update_fields (st : State) (p l c : Nat) (v : Option Bool) :
    let o := onLeaderUpdate st p l c v
    o.st.matchIndex = st.matchIndex ∧ o.st.nextIndex = st.nextIndex ∧ o.st.term = st.term ∧ o.st.src = st.src ∧
    o.st.viewPrev = p ∧ o.st.viewLast = l ∧ o.st.ldrLastIndex = l ∧ o.st.ldrCommit = c ∧
    (o.notes ≠ [] ↔ p ≠ st.viewPrev) ∧ (o.notes ≠ [] → o.notes = [⟨"removeLTE", p⟩]) := by
  intro o
  unfold o onLeaderUpdate
  refine ⟨rfl, rfl, rfl, rfl, rfl, rfl, rfl, rfl, ?_, ?_⟩
  · dsimp only
    split <;> simp_all
  · dsimp only
    split <;> simp_all

-- premises are satisfiable: a concrete replication step
example : (writeAppend { nextIndex := 2, ldrLastIndex := 3, viewLast := 3, term := 2, src := 1 }
    { log := { prev := 0, entries := [⟨1, 1, 2, "a", none⟩, ⟨2, 2, 2, "b", none⟩, ⟨3, 2, 2, "c", none⟩], flushed := 3, segs := [0] } } true).append
    = some { term := 2, src := 1, prevLogIndex := 1, prevLogTerm := 1, ldrCommitIndex := 0,
             entries := [⟨2, 2, 2, "b", none⟩, ⟨3, 2, 2, "c", none⟩] } := by decide

end Repl
end Raft
