/-
Delayed compaction, part G2 — the guarded closure framework (Lemmas/SnapDelayG1.lean) through the handlers of
`Node.step`: the proof of `StepClosed.step_inv` (Lemmas/StepInv.lean) with the leader record updated under guards.

`StepClosedG Inv` = `ClosedG Inv` and the primitives of the other handlers (as in `StepClosed`).  `leader.init` REPLACES
the leader record (bound `log.prev`, empty replication table): that the predicate holds after it is a hypothesis
(`hinit`) of `initRole_inv` / `settle_inv` / `step_inv`, not a guarded update; `handle_inv` does not need it.
NOT covered, because they are the updates the guards exclude — they are treated separately in Lemmas/SnapDelayG3.lean:
* `onSnapshotTaken` (sets `ldr.removeLTE`), `shutdown` (hands a pending snapshot over);
* the loop of `checkReplUpdates` (a `removeLTE` report sets `status.removeLTE`); `checkReplUpdates_inv` is proved FROM a
  given fact about the loop.
`handle_inv` / `step_inv`: every operation except `.snapTaken`, `.replUpdates`, `.shutdown` (`FOp`).
-/
import RaftVerif.Lemmas.SnapDelayG1

namespace Raft
namespace Node

structure StepClosedG (Inv : Node → Prop) : Prop extends ClosedG Inv where
  begin : ∀ (s : Node) ra (ord : List (List Nat)), Inv s → Inv (s.begin ra ord)
  rpcReply : ∀ (s : Node) r, Inv s → Inv (s.withRpcReply r)
  ret : ∀ (s : Node) r, Inv s → Inv (s.ret r)
  setRole : ∀ (s : Node) r, Inv s → Inv (s.setRole r)
  setLeader : ∀ (s : Node) l, Inv s → Inv (s.setLeader l)
  doClose : ∀ (s : Node) r, Inv s → Inv (s.doClose r)
  setTerm : ∀ (s : Node) t, Inv s → Inv (s.setTerm t)
  /-- `setVotedFor` entering a higher term (vote requests, the self vote of `startElection`) -/
  voteNewTerm : ∀ (s : Node) t c, Inv s → t > s.term → Inv (s.setVotedFor t c)
  /-- `setVotedFor` granting the vote in the current term while no vote was cast yet -/
  voteGrant : ∀ (s : Node) c, Inv s → s.votedFor = 0 → Inv (s.setVotedFor s.term c)
  votesNeeded : ∀ (s : Node) v, Inv s → Inv (s.withVotesNeeded v)
  candTransfer : ∀ (s : Node) v, Inv s → Inv (s.withCandTransfer v)
  removeGTE : ∀ (s : Node) i pt, Inv s →
    Inv { s with log := s.log.removeGTE i, lastLogIndex := i - 1, lastLogTerm := pt }
  removeLTE : ∀ (s : Node) i, Inv s → Inv { s with log := s.log.removeLTE i }
  clearLog : ∀ (s : Node), Inv s →
    Inv { s with log := NLog.reset s.snapIndex, lastLogIndex := s.snapIndex, lastLogTerm := s.snapTerm }
  revertConfig : ∀ (s : Node), Inv s → Inv s.revertConfig
  commitConfig : ∀ (s : Node), Inv s → Inv s.commitConfig
  publishSnapshot : ∀ (s : Node) f, Inv s → Inv (s.publishSnapshot f)
  /-- `onInstallSnapRequest` sets the commit index to the new snapshot index, which is above it -/
  installCommit : ∀ (s : Node), Inv s → s.snapIndex > s.commitIndex → Inv (s.withCommitIndex s.snapIndex)
  snapPending : ∀ (s : Node) v, Inv s → Inv (s.withSnapPending v)
  snapResult : ∀ (s : Node) v, Inv s → Inv (s.withSnapResult v)
  bootstrapLast : ∀ (s : Node) i t, Inv s → Inv (s.withLast i t)

namespace StepClosedG

variable {Inv : Node → Prop} (h : StepClosedG Inv)
include h

theorem storeEntry_inv (f : Nat) (s : Node) (b) (hs : Inv s) : Inv (storeEntry f s b) := (h.toClosedG.block f).1 s b hs
theorem doChangeConfig_inv (f : Nat) (s : Node) (t c) (hs : Inv s) : Inv (doChangeConfig f s t c) :=
  (h.toClosedG.block f).2.2.2.1 s t c hs
theorem checkConfigActions_inv (f : Nat) (s : Node) (t c) (hs : Inv s) : Inv (checkConfigActions f s t c) :=
  (h.toClosedG.block f).2.2.2.2.1 s t c hs
theorem checkConfigAction_inv (f : Nat) (s : Node) (t c id) (hs : Inv s) : Inv (checkConfigAction f s t c id) :=
  (h.toClosedG.block f).2.2.2.2.2.1 s t c id hs
theorem onMajorityCommit_inv (f : Nat) (s : Node) (hs : Inv s) : Inv (onMajorityCommit f s) :=
  (h.toClosedG.block f).2.2.2.2.2.2.2 s hs

theorem removeGTE_inv (s : Node) (i pt : Nat) (hs : Inv s) : Inv (s.removeGTE i pt) := by
  unfold Node.removeGTE; exact h.point _ _ (h.removeGTE _ _ _ hs)

theorem compactLog_inv (s : Node) (i : Nat) (hs : Inv s) : Inv (s.compactLog i) := by
  unfold Node.compactLog; exact h.point _ _ (h.removeLTE _ _ hs)

theorem clearLog_inv (s : Node) (hs : Inv s) : Inv s.clearLog := by
  unfold Node.clearLog; exact h.point _ _ (h.clearLog _ hs)

theorem applyCommitted_inv (s : Node) (hs : Inv s) : Inv s.applyCommitted := by
  unfold Node.applyCommitted; exact h.toClosedG.fsmApply_inv _ _ hs

theorem checkQuorum_inv (s : Node) (hs : Inv s) : Inv s.checkQuorum := by
  unfold Node.checkQuorum; dsimp only
  repeat' split
  all_goals first
    | exact hs
    | exact h.panic _ _ hs
    | exact h.setLeader _ _ (h.setRole _ _ hs)
    | exact h.setLeader _ _ (h.setRole _ _ (h.panic _ _ hs))

theorem transferReply_inv (s : Node) (r : String) (hs : Inv s) : Inv (s.transferReply r) := by
  unfold Node.transferReply; exact h.ldrK _ _ (h.reply _ _ _ hs) rfl rfl

theorem tryTransfer_inv (s : Node) (hs : Inv s) : Inv s.tryTransfer := by
  unfold Node.tryTransfer; dsimp only
  have hp := h.popOrder s hs
  repeat' split
  all_goals first
    | exact hs
    | exact hp
    | exact h.panic _ _ hs
    | exact h.panic _ _ hp
    | exact h.ldrK _ _ hs rfl rfl
    | exact h.ldrK _ _ hp rfl rfl
    | exact h.ldrK _ _ (h.panic _ _ hs) rfl rfl
    | exact h.ldrK _ _ (h.panic _ _ hp) rfl rfl

theorem onTransfer_inv (s : Node) (t g : Nat) (hs : Inv s) : Inv (s.onTransfer t g) := by
  unfold Node.onTransfer; dsimp only
  split
  · exact h.reply _ _ _ hs
  · exact h.tryTransfer_inv _ (h.ldrK _ _ hs rfl rfl)

theorem replyTransfer_inv (s : Node) (r : String) (hs : Inv s) : Inv (s.replyTransfer r) := by
  unfold Node.replyTransfer; exact h.checkConfigActions_inv _ _ _ _ (h.transferReply_inv _ _ hs)

theorem onTimeoutNowResult_inv (s : Node) (src : Nat) (e : Bool) (r : Nat) (hs : Inv s) :
    Inv (s.onTimeoutNowResult src e r) := by
  unfold Node.onTimeoutNowResult
  extract_lets l0 t0 s1 s2 l1 t1
  have h0 : Inv s1 := h.ldrK _ _ hs rfl rfl
  have h2 : Inv s2 := by
    unfold s2
    split
    · rename_i r hf
      split
      · exact h.toClosedG.setRepl_keep _ _ r h0 (LC.find_mem hf).1 rfl rfl
      · exact h0
    · exact h.panic _ _ h0
  split
  · split
    · exact h.tryTransfer_inv _ h2
    · exact h2
  · split
    · split
      · exact h.replyTransfer_inv _ _ h0
      · exact h.tryTransfer_inv _ h0
    · exact h.ldrK _ _ h0 rfl rfl

theorem leaderRelease_inv (s : Node) (hs : Inv s) : Inv s.leaderRelease := by
  have hrest : ∀ x : Node, Inv x → Inv x.leaderReleaseRest := by
    intro x hx
    unfold Node.leaderReleaseRest
    extract_lets s1 err s2 s3
    have h1 : Inv s1 := by unfold s1; split; exact h.setLeader _ _ hx; exact hx
    have h2 : Inv s2 := ClosedG.foldl_inv _ (fun s t hs => h.reply _ _ _ hs) _ _ h1
    have h3 : Inv s3 := ClosedG.foldl_inv _ (fun s t hs => h.reply _ _ _ hs) _ _ h2
    have h4 : Inv (s3.withLdr { s3.ldr with repls := [] }) :=
      h.replsG s3 [] h3 (fun r hr => by cases hr)
    exact h.ldrK (s3.withLdr { s3.ldr with repls := [] }) _ h4 rfl rfl
  unfold Node.leaderRelease
  split
  · exact hrest _ (h.transferReply_inv _ _ hs)
  · exact hrest _ hs

theorem startElection_inv (s : Node) (hs : Inv s) : Inv s.startElection := by
  unfold Node.startElection
  extract_lets s1 s2 s3 s4
  have h4 : Inv s4 := h.votesNeeded _ _ (h.voteNewTerm _ _ _ (h.votesNeeded _ _ (h.toClosedG.assert_inv _ _ _ hs)) (Nat.lt_succ_self _))
  split
  · exact h.setLeader _ _ (h.setRole _ _ h4)
  · exact h4

theorem onVoteResult_inv (s : Node) (e : Bool) (t r : Nat) (hs : Inv s) : Inv (s.onVoteResult e t r) := by
  unfold Node.onVoteResult; dsimp only
  repeat' split
  all_goals first
    | exact hs
    | exact h.setTerm _ _ (h.setRole _ _ hs)
    | exact h.setLeader _ _ (h.setRole _ _ (h.votesNeeded _ _ hs))
    | exact h.votesNeeded _ _ hs

theorem followerTimeout_inv (s : Node) (hs : Inv s) : Inv s.followerTimeout := by
  unfold Node.followerTimeout; dsimp only
  split
  · exact h.setRole _ _ (h.setLeader _ _ hs)
  · exact h.setLeader _ _ hs

theorem releaseRole_inv (s : Node) (r : Role) (hs : Inv s) : Inv (s.releaseRole r) := by
  unfold Node.releaseRole
  split
  · exact hs
  · exact h.candTransfer _ _ hs
  · exact h.leaderRelease_inv _ hs

theorem initRole_inv (hinit : ∀ s : Node, Inv s → Inv s.leaderInit) (s : Node) (hs : Inv s) : Inv s.initRole := by
  unfold Node.initRole
  split
  · exact hs
  · exact h.startElection_inv _ hs
  · exact hinit _ hs

theorem settle_inv (hinit : ∀ s : Node, Inv s → Inv s.leaderInit) (f : Nat) (s : Node) (c : Role) (hs : Inv s) :
    Inv (settle f s c) := by
  induction f generalizing s c with
  | zero => exact hs
  | succ n ih =>
    unfold settle
    split
    · exact hs
    · exact ih _ _ (h.initRole_inv hinit _ (h.releaseRole_inv _ _ hs))

omit h in
theorem setVotedFor_same (s : Node) : s.setVotedFor s.term s.votedFor = s := by
  unfold Node.setVotedFor; simp

theorem onVoteRequest_inv (s : Node) (q : VoteReq) (hs : Inv s) : Inv (s.onVoteRequest q) := by
  unfold Node.onVoteRequest
  split
  · exact h.ret _ _ hs
  · split
    · exact h.ret _ _ hs
    · rename_i hlt
      have hge : q.term ≥ s.term := Nat.le_of_not_lt hlt
      extract_lets vf tm s1
      have h1 : Inv s1 := by unfold s1; split; exact h.setRole _ _ hs; exact hs
      have hterm : s1.term = s.term := by unfold s1; split <;> rfl
      have hvote : s1.votedFor = s.votedFor := by unfold s1; split <;> rfl
      by_cases hgt : q.term > s.term
      · have e1 : vf = 0 := by unfold vf; simp [hgt]
        have e2 : tm = q.term := by unfold tm; simp [hgt]
        have hn := fun c => h.voteNewTerm s1 q.term c h1 (by omega)
        simp only [e1, e2]
        repeat' split
        all_goals first | exact h.ret _ _ (hn _) | exact absurd rfl ‹_›
      · have e1 : vf = s1.votedFor := by unfold vf; simp [hgt, hvote]
        have e2 : tm = s1.term := by unfold tm; simp [hgt, hterm]
        simp only [e1, e2]
        split
        · rw [setVotedFor_same]; exact h.ret _ _ h1
        · rename_i hv
          have hv' : s1.votedFor = 0 := by simpa using hv
          split
          · rw [setVotedFor_same]; exact h.ret _ _ h1
          · exact h.ret _ _ (h.voteGrant _ _ h1 hv')

end StepClosedG

/-- One backward step for goals `Inv (…)`: close by assumption, peel one primitive (syntactic match),
or split a conditional. -/
syntax "invg_step " term : tactic
macro_rules
  | `(tactic| invg_step $h) => `(tactic| first
      | assumption
      | rfl
      | with_reducible apply StepClosedG.ret $h
      | with_reducible apply StepClosedG.removeGTE_inv $h
      | with_reducible apply StepClosedG.compactLog_inv $h
      | with_reducible apply StepClosedG.clearLog_inv $h
      | with_reducible apply StepClosedG.applyCommitted_inv $h
      | with_reducible apply StepClosedG.checkQuorum_inv $h
      | with_reducible apply StepClosedG.tryTransfer_inv $h
      | with_reducible apply StepClosedG.onTransfer_inv $h
      | with_reducible apply StepClosedG.replyTransfer_inv $h
      | with_reducible apply StepClosedG.transferReply_inv $h
      | with_reducible apply StepClosedG.onTimeoutNowResult_inv $h
      | with_reducible apply StepClosedG.startElection_inv $h
      | with_reducible apply StepClosedG.onVoteResult_inv $h
      | with_reducible apply StepClosedG.followerTimeout_inv $h
      | with_reducible apply StepClosedG.storeEntry_inv $h
      | with_reducible apply StepClosedG.doChangeConfig_inv $h
      | with_reducible apply StepClosedG.checkConfigActions_inv $h
      | with_reducible apply StepClosedG.checkConfigAction_inv $h
      | with_reducible apply StepClosedG.onMajorityCommit_inv $h
      | with_reducible apply StepClosedG.releaseRole_inv $h
      | with_reducible apply StepClosedG.onVoteRequest_inv $h
      | with_reducible apply ClosedG.appendEntry_inv (StepClosedG.toClosedG $h)
      | with_reducible apply ClosedG.commitLog_inv (StepClosedG.toClosedG $h)
      | with_reducible apply ClosedG.assert_inv (StepClosedG.toClosedG $h)
      | with_reducible apply ClosedG.fsmApply_inv (StepClosedG.toClosedG $h)
      | with_reducible apply ClosedG.notifyFlr_inv (StepClosedG.toClosedG $h)
      | with_reducible apply ClosedG.panic (StepClosedG.toClosedG $h)
      | with_reducible apply ClosedG.reply (StepClosedG.toClosedG $h)
      | with_reducible apply ClosedG.point (StepClosedG.toClosedG $h)
      | with_reducible apply ClosedG.changeConfigR (StepClosedG.toClosedG $h)
      | with_reducible apply ClosedG.setCommitIndexR (StepClosedG.toClosedG $h)
      | with_reducible apply ClosedG.ldrK (StepClosedG.toClosedG $h)
      | with_reducible apply ClosedG.fsm (StepClosedG.toClosedG $h)
      | with_reducible apply StepClosedG.setRole $h
      | with_reducible apply StepClosedG.setLeader $h
      | with_reducible apply StepClosedG.setTerm $h
      | with_reducible apply StepClosedG.doClose $h
      | with_reducible apply StepClosedG.revertConfig $h
      | with_reducible apply StepClosedG.commitConfig $h
      | with_reducible apply StepClosedG.publishSnapshot $h
      | with_reducible apply StepClosedG.installCommit $h
      | with_reducible apply StepClosedG.snapPending $h
      | with_reducible apply StepClosedG.snapResult $h
      | with_reducible apply StepClosedG.candTransfer $h
      | with_reducible apply StepClosedG.votesNeeded $h
      | with_reducible apply StepClosedG.rpcReply $h
      | with_reducible apply StepClosedG.bootstrapLast $h
      | split)

syntax "invg_auto " term : tactic
macro_rules
  | `(tactic| invg_auto $h) => `(tactic| repeat' (invg_step $h))

namespace StepClosedG
variable {Inv : Node → Prop} (h : StepClosedG Inv)
include h

theorem resolveConflict_inv (s : Node) (ne : Entry) (pt : Nat) (hs : Inv s) : Inv (s.resolveConflict ne pt) := by
  unfold Node.resolveConflict
  dsimp only
  invg_auto h

theorem appendLoop_inv (st : AppLoop) (es : List Entry) (hs : Inv st.s) : Inv (appendLoop st es).s := by
  induction es generalizing st with
  | nil => exact hs
  | cons ne rest ih =>
    unfold appendLoop
    dsimp only
    have hR : ∀ x a b, Inv x → Inv (x.resolveConflict a b) := fun x a b hx => h.resolveConflict_inv x a b hx
    repeat' (first | invg_step h | apply hR)
    all_goals (first | (apply ih; dsimp only; repeat' (first | invg_step h | apply hR)) | skip)

theorem appendCheck_inv (s : Node) (q : AppendReq) (hs : Inv s) : Inv (s.appendCheck q) := by
  unfold Node.appendCheck
  dsimp only
  invg_auto h
  all_goals (simp only [Node.canCommit, Bool.and_eq_true, decide_eq_true_eq] at *; omega)

theorem onAppendEntries_inv (s : Node) (q : AppendReq) (hs : Inv s) : Inv (s.onAppendEntries q) := by
  unfold Node.onAppendEntries
  dsimp only
  have hA : ∀ x, Inv x → Inv (x.appendCheck q) := fun x hx => h.appendCheck_inv x q hx
  have hL : ∀ st, Inv st.s → Inv (appendLoop st q.entries).s := fun st hst => h.appendLoop_inv st _ hst
  repeat' (first | invg_step h | (apply hA) | (apply hL; dsimp only))
  all_goals (simp only [Node.canCommit, Bool.and_eq_true, decide_eq_true_eq] at *; omega)

theorem fsmRestore_inv (s : Node) (hs : Inv s) : Inv s.fsmRestore := by
  unfold Node.fsmRestore
  invg_auto h

omit h in
theorem install_commit_guard (s2 : Node) (f : SnapFile) (hgt : ¬ f.index ≤ s2.commitIndex) :
    ((s2.publishSnapshot f).clearLog.fsmRestore).snapIndex > ((s2.publishSnapshot f).clearLog.fsmRestore).commitIndex := by
  have hf : ∀ x : Node, x.fsmRestore.snapIndex = x.snapIndex ∧ x.fsmRestore.commitIndex = x.commitIndex := by
    intro x; unfold Node.fsmRestore Node.panic Node.withFsm
    constructor <;> (repeat' split) <;> rfl
  have hc : ∀ x : Node, x.clearLog.snapIndex = x.snapIndex ∧ x.clearLog.commitIndex = x.commitIndex :=
    fun x => ⟨rfl, rfl⟩
  have hp : (s2.publishSnapshot f).snapIndex = f.index ∧ (s2.publishSnapshot f).commitIndex = s2.commitIndex :=
    ⟨rfl, rfl⟩
  rw [(hf _).1, (hf _).2, (hc _).1, (hc _).2, hp.1, hp.2]
  omega

theorem onInstallSnap_inv (s : Node) (q : InstallReq) (hs : Inv s) : Inv (s.onInstallSnap q) := by
  unfold Node.onInstallSnap
  split
  · exact h.ret _ _ hs
  · extract_lets s1 s2 s3 s4 s5 s6 s7
    have h1 : Inv s1 := by unfold s1; split; exact h.setRole _ _ (h.setTerm _ _ hs); exact hs
    have h2 : Inv s2 := h.setLeader _ _ (h.setRole _ _ h1)
    have h3 : Inv s3 := h.publishSnapshot _ _ h2
    split
    · exact h.ret _ _ h2
    · rename_i hgt
      split
      · exact h.ret _ _ h2
      · exact h.ret _ _ (h.commitConfig _ (h.changeConfigR _ _ (h.installCommit _ (h.fsmRestore_inv _ (h.clearLog_inv _ h3))
          (install_commit_guard s2 _ hgt))))

theorem onTimeoutNow_inv (s : Node) (hs : Inv s) : Inv s.onTimeoutNow := by
  unfold Node.onTimeoutNow
  invg_auto h

theorem onTakeSnapshot_inv (s : Node) (t th : Nat) (hs : Inv s) : Inv (s.onTakeSnapshot t th) := by
  unfold Node.onTakeSnapshot
  invg_auto h

theorem snapRun_inv (s : Node) (hs : Inv s) : Inv s.snapRun := by
  unfold Node.snapRun
  dsimp only
  invg_auto h

theorem onChangeConfig_inv (s : Node) (t : Nat) (c : Config) (hs : Inv s) : Inv (s.onChangeConfig t c) := by
  unfold Node.onChangeConfig
  dsimp only
  invg_auto h

theorem bootstrap_inv (s : Node) (t : Nat) (c : Config) (hs : Inv s) : Inv (s.bootstrap t c) := by
  unfold Node.bootstrap
  dsimp only
  invg_auto h

/-- `checkReplUpdates` after its loop: `onMajorityCommit`, `checkQuorum`, the compaction (which does not touch the leader
record) and `tryTransfer` — given the predicate after the loop -/
theorem checkReplUpdates_inv (s : Node) (us : List ReplUpdate) (hL : Inv (replUpdLoop s {} us).1) :
    Inv (s.checkReplUpdates us) := by
  unfold Node.checkReplUpdates
  dsimp only
  have hC : ∀ x, Inv x → Inv x.checkLogCompact := by
    intro x hx
    unfold Node.checkLogCompact
    split
    · exact hx
    · exact h.compactLog_inv _ _ hx
  repeat' (first | invg_step h | apply hC)

theorem rejectEntries_inv (s : Node) (b : List QItem) (hs : Inv s) : Inv (s.rejectEntries b) := by
  induction b generalizing s with
  | nil => exact hs
  | cons q qs ih =>
    unfold Node.rejectEntries
    dsimp only
    repeat' (first | invg_step h | apply ih)

theorem onWaitForStable_inv (s : Node) (t : Nat) (hs : Inv s) : Inv (s.onWaitForStable t) := by
  unfold Node.onWaitForStable
  invg_auto h

theorem rpcDone_inv (s : Node) (a b : Bool) (hs : Inv s) : Inv (s.rpcDone a b) := by
  unfold Node.rpcDone
  invg_auto h

omit h in
/-- the operations whose handlers update the leader record under the guards only -/
def FOp : Op → Prop
  | .snapTaken => False
  | .replUpdates _ => False
  | .shutdown => False
  | _ => True

theorem handle_inv (s : Node) (op : Op) (hop : FOp op) (hs : Inv s) : Inv (s.handle op) := by
  cases op <;> unfold Node.handle <;> dsimp only <;> first | exact hop.elim | skip
  case vote q => exact h.rpcDone_inv _ _ _ (h.onVoteRequest_inv _ _ hs)
  case append q => exact h.rpcDone_inv _ _ _ (h.onAppendEntries_inv _ _ hs)
  case install q => exact h.rpcDone_inv _ _ _ (h.onInstallSnap_inv _ _ hs)
  case timeoutNow => exact h.rpcDone_inv _ _ _ (h.onTimeoutNow_inv _ hs)
  case identity a b c => exact h.rpcReply _ _ hs
  case disconnected n => invg_auto h
  case timeout => invg_auto h
  case newEntries b => split; exact h.storeEntry_inv _ _ _ hs; exact h.rejectEntries_inv _ _ hs
  case changeConfig t c => split; exact h.onChangeConfig_inv _ _ _ hs; exact h.bootstrap_inv _ _ _ hs
  case takeSnapshot t th => exact h.onTakeSnapshot_inv _ _ _ hs
  case snapRun => exact h.snapRun_inv _ hs
  case waitStable t => split; exact h.onWaitForStable_inv _ _ hs; exact h.reply _ _ _ hs
  case transfer t g => invg_auto h
  case voteResult e t r => invg_auto h
  case transferTimeout => invg_auto h
  case timeoutNowResult a b c => invg_auto h
  case newTermTimeout => invg_auto h

/-- **Composition theorem**: a predicate closed under the guarded primitives is preserved by every step of an operation
in `FOp`. -/
theorem step_inv (hinit : ∀ s : Node, Inv s → Inv s.leaderInit) (s : Node) (op : Op) (ra : List Nat)
    (ord : List (List Nat)) (hop : FOp op) (hs : Inv s) : Inv (s.step op ra ord) := by
  unfold Node.step
  dsimp only
  have h1 := h.handle_inv _ op hop (h.begin _ ra ord hs)
  split
  · exact h1
  · exact h.settle_inv hinit _ _ _ h1

end StepClosedG
end Node
end Raft
