/-
Snapshot erasure (stage 1 of the cluster system with snapshots).

`E σ s` forgets everything a node knows about snapshots: `snapIndex`, `snapTerm`, the snapshot files (in the state
and in every crash point of the current step). The handlers of every operation other than append / install
requests and the snapshot operations never read these fields, so they commute with `E`:
`(E σ s).step op ra ord = E σ (s.step op ra ord)` (`step_E`).
-/
import RaftVerif.Model.Step
import RaftVerif.Lemmas.SnapAttr

namespace Raft
namespace SnapRel
open Node

/-- snapshot data: `(snapIndex, snapTerm, snapshot files)` -/
abbrev SnapData := Nat × Nat × List SnapFile

/-- a disk image with its snapshot files replaced by those of `σ` -/
def eraseD (σ : SnapData) (d : Durable) : Durable := { d with snaps := σ.2.2 }

/-- a crash point with the snapshot files replaced -/
def eraseP (σ : SnapData) (p : String × Durable) : String × Durable := (p.1, eraseD σ p.2)

/-- the node with its snapshot data (state and crash points of the current step) replaced by `σ`; `σ = (0, 0, [])`:
the node without its snapshot data -/
def E (σ : SnapData) (s : Node) : Node :=
  { s with snapIndex := σ.1, snapTerm := σ.2.1, snapsDisk := σ.2.2, trace := s.trace.map (eraseP σ) }

variable {σ : SnapData}

/-! ### projections -/

@[eproj] theorem E_cid (s : Node) : (E σ s).cid = s.cid := rfl
@[eproj] theorem E_nid (s : Node) : (E σ s).nid = s.nid := rfl
@[eproj] theorem E_retain (s : Node) : (E σ s).retain = s.retain := rfl
@[eproj] theorem E_shutdownOnRemove (s : Node) : (E σ s).shutdownOnRemove = s.shutdownOnRemove := rfl
@[eproj] theorem E_term (s : Node) : (E σ s).term = s.term := rfl
@[eproj] theorem E_votedFor (s : Node) : (E σ s).votedFor = s.votedFor := rfl
@[eproj] theorem E_durTerm (s : Node) : (E σ s).durTerm = s.durTerm := rfl
@[eproj] theorem E_durVote (s : Node) : (E σ s).durVote = s.durVote := rfl
@[eproj] theorem E_log (s : Node) : (E σ s).log = s.log := rfl
@[eproj] theorem E_lastLogIndex (s : Node) : (E σ s).lastLogIndex = s.lastLogIndex := rfl
@[eproj] theorem E_lastLogTerm (s : Node) : (E σ s).lastLogTerm = s.lastLogTerm := rfl
@[eproj] theorem E_configs (s : Node) : (E σ s).configs = s.configs := rfl
@[eproj] theorem E_role (s : Node) : (E σ s).role = s.role := rfl
@[eproj] theorem E_leader (s : Node) : (E σ s).leader = s.leader := rfl
@[eproj] theorem E_commitIndex (s : Node) : (E σ s).commitIndex = s.commitIndex := rfl
@[eproj] theorem E_fsm (s : Node) : (E σ s).fsm = s.fsm := rfl
@[eproj] theorem E_votesNeeded (s : Node) : (E σ s).votesNeeded = s.votesNeeded := rfl
@[eproj] theorem E_candTransfer (s : Node) : (E σ s).candTransfer = s.candTransfer := rfl
@[eproj] theorem E_ldr (s : Node) : (E σ s).ldr = s.ldr := rfl
@[eproj] theorem E_snapPending (s : Node) : (E σ s).snapPending = s.snapPending := rfl
@[eproj] theorem E_snapResult (s : Node) : (E σ s).snapResult = s.snapResult := rfl
@[eproj] theorem E_closed (s : Node) : (E σ s).closed = s.closed := rfl
@[eproj] theorem E_rollAt (s : Node) : (E σ s).rollAt = s.rollAt := rfl
@[eproj] theorem E_orders (s : Node) : (E σ s).orders = s.orders := rfl
@[eproj] theorem E_replies (s : Node) : (E σ s).replies = s.replies := rfl
@[eproj] theorem E_rpcReply (s : Node) : (E σ s).rpcReply = s.rpcReply := rfl
@[eproj] theorem E_result (s : Node) : (E σ s).result = s.result := rfl
@[eproj] theorem E_panicked (s : Node) : (E σ s).panicked = s.panicked := rfl

@[eproj] theorem E_trace (s : Node) : (E σ s).trace = s.trace.map (eraseP σ) := rfl
@[eproj] theorem E_snapIndex (s : Node) : (E σ s).snapIndex = σ.1 := rfl
@[eproj] theorem E_snapTerm (s : Node) : (E σ s).snapTerm = σ.2.1 := rfl
@[eproj] theorem E_snapsDisk (s : Node) : (E σ s).snapsDisk = σ.2.2 := rfl

@[eproj] theorem E_durable (s : Node) : (E σ s).durable = eraseD σ s.durable := rfl

/-! ### observations (functions of the state that do not return a state) -/

@[eproj] theorem E_findRepl? (s : Node) (id : Nat) : (E σ s).findRepl? id = s.findRepl? id := rfl
@[eproj] theorem E_replOrder (s : Node) : (E σ s).replOrder = s.replOrder := rfl
@[eproj] theorem E_voterMatches (s : Node) : (E σ s).voterMatches = s.voterMatches := rfl
@[eproj] theorem E_majorityMatchIndex (s : Node) : (E σ s).majorityMatchIndex = s.majorityMatchIndex := rfl
@[eproj] theorem E_canChangeConfig (s : Node) : (E σ s).canChangeConfig = s.canChangeConfig := rfl
@[eproj] theorem E_transferReady (s : Node) (id : Nat) : (E σ s).transferReady id = s.transferReady id := rfl
@[eproj] theorem E_tryTransferTarget (s : Node) : (E σ s).tryTransferTarget = s.tryTransferTarget := rfl
@[eproj] theorem E_validateTransfer (s : Node) (t : Nat) : (E σ s).validateTransfer t = s.validateTransfer t := rfl
@[eproj] theorem E_releaseResult (s : Node) : (E σ s).releaseResult = s.releaseResult := rfl
@[eproj] theorem E_notLeader (s : Node) (b : Bool) : (E σ s).notLeader b = s.notLeader b := rfl
@[eproj] theorem E_canStartElection (s : Node) : (E σ s).canStartElection = s.canStartElection := rfl
@[eproj] theorem E_isClosed (s : Node) : (E σ s).isClosed = s.isClosed := rfl
@[eproj] theorem E_entryTerm? (s : Node) (i : Nat) : (E σ s).entryTerm? i = s.entryTerm? i := rfl
@[eproj] theorem E_mkReply (s : Node) (a b : Bool) : (E σ s).mkReply a b = s.mkReply a b := rfl
@[eproj] theorem E_canCommit (s : Node) (q : AppendReq) (i t : Nat) : (E σ s).canCommit q i t = s.canCommit q i t := rfl

/-! ### primitive state updates -/

@[esimp] theorem E_point (s : Node) (n : String) : (E σ s).point n = E σ (s.point n) := by
  simp only [Node.point, E, List.map_append, List.map_cons, List.map_nil, eraseP]
  rfl

@[esimp] theorem E_panic (s : Node) (site : String) : (E σ s).panic site = E σ (s.panic site) := by
  unfold Node.panic
  show (if s.panicked.isNone = true then _ else _) = _
  split <;> rfl

@[esimp] theorem E_assert (s : Node) (b : Bool) (site : String) : (E σ s).assert b site = E σ (s.assert b site) := by
  unfold Node.assert; split
  · rfl
  · exact E_panic s site

@[esimp] theorem E_reply (s : Node) (t : Nat) (r : String) : (E σ s).reply t r = E σ (s.reply t r) := by
  unfold Node.reply; split <;> rfl

@[esimp] theorem E_setRole (s : Node) (r : Role) : (E σ s).setRole r = E σ (s.setRole r) := rfl
@[esimp] theorem E_popOrder (s : Node) : (E σ s).popOrder = E σ s.popOrder := rfl
@[esimp] theorem E_withLdr (s : Node) (l : Leader) : (E σ s).withLdr l = E σ (s.withLdr l) := rfl
@[esimp] theorem E_withFsm (s : Node) (f : Fsm) : (E σ s).withFsm f = E σ (s.withFsm f) := rfl
@[esimp] theorem E_withVotesNeeded (s : Node) (v : Int) : (E σ s).withVotesNeeded v = E σ (s.withVotesNeeded v) := rfl
@[esimp] theorem E_withCandTransfer (s : Node) (v : Bool) : (E σ s).withCandTransfer v = E σ (s.withCandTransfer v) := rfl
@[esimp] theorem E_withSnapPending (s : Node) (v : Option SnapReq) : (E σ s).withSnapPending v = E σ (s.withSnapPending v) := rfl
@[esimp] theorem E_withSnapResult (s : Node) (v : Option SnapRes) : (E σ s).withSnapResult v = E σ (s.withSnapResult v) := rfl
@[esimp] theorem E_withRpcReply (s : Node) (v : Option RpcReply) : (E σ s).withRpcReply v = E σ (s.withRpcReply v) := rfl
@[esimp] theorem E_withCommitIndex (s : Node) (i : Nat) : (E σ s).withCommitIndex i = E σ (s.withCommitIndex i) := rfl
@[esimp] theorem E_withLast (s : Node) (i t : Nat) : (E σ s).withLast i t = E σ (s.withLast i t) := rfl
@[esimp] theorem E_ret (s : Node) (r : Nat) : (E σ s).ret r = E σ (s.ret r) := rfl
@[esimp] theorem E_setLeader (s : Node) (l : Nat) : (E σ s).setLeader l = E σ (s.setLeader l) := rfl


/-- pull `E` out of a conditional -/
@[esimp] theorem ite_E (c : Prop) {inst : Decidable c} (a b : Node) :
    @ite Node c inst (E σ a) (E σ b) = E σ (@ite Node c inst a b) := by
  split <;> rfl

/-- normalise a goal `f (E σ s) = E σ (f s)` after unfolding `f`: rewrite fields / observations of erased states
(`eproj`, definitional, instances included), push `E` outward through the primitives (`esimp`), split what is
left and close by reflexivity -/
syntax "enorm" ("[" Lean.Parser.Tactic.simpLemma,* "]")? : tactic
macro_rules
  | `(tactic| enorm) => `(tactic| repeat (first | dsimp +instances only [eproj] | simp only [esimp]))
  | `(tactic| enorm [$ls,*]) => `(tactic| repeat (first | dsimp +instances only [eproj] | simp only [esimp, $ls,*]))

syntax "ecomm" ("[" Lean.Parser.Tactic.simpLemma,* "]")? : tactic
macro_rules
  | `(tactic| ecomm) =>
    `(tactic| (enorm <;> repeat' (first | rfl | contradiction | (exfalso; simp_all; done) | (split <;> (try simp only [*, ↓reduceIte]) <;> (try enorm)))))
  | `(tactic| ecomm [$ls,*]) =>
    `(tactic| (enorm [$ls,*] <;>
        repeat' (first | rfl | contradiction | (exfalso; simp_all; done) | (split <;> (try simp only [*, ↓reduceIte]) <;> (try enorm [$ls,*])))))

theorem E_storeTermVote_aux (s : Node) (t c : Nat) :
    s.storeTermVote t c =
      { (if t = s.durTerm ∧ c = s.durVote then s else ({ s with durTerm := t, durVote := c } : Node).point "value.set")
        with term := t, votedFor := c } := rfl

@[esimp] theorem E_storeTermVote (s : Node) (t c : Nat) : (E σ s).storeTermVote t c = E σ (s.storeTermVote t c) := by
  rw [E_storeTermVote_aux, E_storeTermVote_aux]
  by_cases h : t = s.durTerm ∧ c = s.durVote
  · rw [if_pos h, if_pos (show t = (E σ s).durTerm ∧ c = (E σ s).durVote from h)]; rfl
  · rw [if_neg h, if_neg (show ¬ (t = (E σ s).durTerm ∧ c = (E σ s).durVote) from h)]
    show ({ (E σ { s with durTerm := t, durVote := c }).point "value.set" with term := t, votedFor := c } : Node) = _
    rw [E_point]; rfl

@[esimp] theorem E_setTerm (s : Node) (t : Nat) : (E σ s).setTerm t = E σ (s.setTerm t) := by
  unfold Node.setTerm
  ecomm

@[esimp] theorem E_setVotedFor (s : Node) (t c : Nat) : (E σ s).setVotedFor t c = E σ (s.setVotedFor t c) := by
  unfold Node.setVotedFor
  ecomm

@[esimp] theorem E_appendEntry (s : Node) (e : Entry) : (E σ s).appendEntry e = E σ (s.appendEntry e) := by
  unfold Node.appendEntry
  ecomm

@[esimp] theorem E_commitLog (s : Node) (n : Nat) : (E σ s).commitLog n = E σ (s.commitLog n) := by
  unfold Node.commitLog
  show (E σ { s with log := s.log.commitN n }).point _ = _
  rw [E_point]

@[esimp] theorem E_removeGTE (s : Node) (i pt : Nat) : (E σ s).removeGTE i pt = E σ (s.removeGTE i pt) := by
  unfold Node.removeGTE
  show (E σ { s with log := s.log.removeGTE i, lastLogIndex := i - 1, lastLogTerm := pt }).point _ = _
  rw [E_point]

@[esimp] theorem E_doClose (s : Node) (r : String) : (E σ s).doClose r = E σ (s.doClose r) := by
  unfold Node.doClose
  ecomm

/-! ### configuration bookkeeping -/

@[esimp] theorem E_changeConfigR (s : Node) (c : Config) : (E σ s).changeConfigR c = E σ (s.changeConfigR c) := by
  unfold Node.changeConfigR
  ecomm

@[esimp] theorem E_commitConfig (s : Node) : (E σ s).commitConfig = E σ s.commitConfig := by
  unfold Node.commitConfig
  ecomm

@[esimp] theorem E_revertConfig (s : Node) : (E σ s).revertConfig = E σ s.revertConfig := rfl

@[esimp] theorem E_stepDownIfNotVoter (s : Node) : (E σ s).stepDownIfNotVoter = E σ s.stepDownIfNotVoter := by
  unfold Node.stepDownIfNotVoter
  ecomm

@[esimp] theorem E_closeIfRemoved (s : Node) : (E σ s).closeIfRemoved = E σ s.closeIfRemoved := by
  unfold Node.closeIfRemoved
  ecomm

@[esimp] theorem E_afterConfigCommit (s : Node) : (E σ s).afterConfigCommit = E σ s.afterConfigCommit := by
  unfold Node.afterConfigCommit
  ecomm

@[esimp] theorem E_setCommitIndexR_1 (s : Node) (i : Nat) : ((E σ s).setCommitIndexR i).1 = E σ (s.setCommitIndexR i).1 := by
  unfold Node.setCommitIndexR
  ecomm

@[esimp] theorem E_setCommitIndexR_2 (s : Node) (i : Nat) : ((E σ s).setCommitIndexR i).2 = (s.setCommitIndexR i).2 := by
  unfold Node.setCommitIndexR
  dsimp +instances only [eproj]
  split <;> rfl


/-! ### the FSM goroutine -/

@[esimp] theorem E_fsmApplyLogTo (s : Node) (n : Nat) : (E σ s).fsmApplyLogTo n = E σ (s.fsmApplyLogTo n) := by
  unfold Node.fsmApplyLogTo
  ecomm

@[esimp] theorem E_fsmApplyItems (s : Node) (qs : List QItem) : (E σ s).fsmApplyItems qs = E σ (s.fsmApplyItems qs) := by
  induction qs generalizing s with
  | nil => rfl
  | cons q qs ih =>
    unfold Node.fsmApplyItems
    ecomm [ih]

@[esimp] theorem E_fsmApply (s : Node) (qs : List QItem) : (E σ s).fsmApply qs = E σ (s.fsmApply qs) := by
  unfold Node.fsmApply
  ecomm

@[esimp] theorem E_applyCommitted (s : Node) : (E σ s).applyCommitted = E σ s.applyCommitted := by
  unfold Node.applyCommitted
  ecomm

/-! ### leader -/

@[esimp] theorem E_setRepl (s : Node) (r : Repl) : (E σ s).setRepl r = E σ (s.setRepl r) := rfl

@[esimp] theorem E_addReplication (s : Node) (n : CNode) : (E σ s).addReplication n = E σ (s.addReplication n) := by
  unfold Node.addReplication
  ecomm

@[esimp] theorem E_notifyFlr (s : Node) : (E σ s).notifyFlr = E σ s.notifyFlr := by
  unfold Node.notifyFlr
  ecomm

@[esimp] theorem E_beginFinishedRounds (s : Node) : (E σ s).beginFinishedRounds = E σ s.beginFinishedRounds := rfl

@[esimp] theorem E_applyCommittedL (s : Node) : (E σ s).applyCommittedL = E σ s.applyCommittedL := by
  unfold Node.applyCommittedL
  ecomm

/-! ### the mutually recursive leader block -/

theorem foldl_E {β : Type} (f : Node → β → Node) (hf : ∀ s x, f (E σ s) x = E σ (f s x)) (xs : List β) (s : Node) :
    xs.foldl f (E σ s) = E σ (xs.foldl f s) := by
  induction xs generalizing s with
  | nil => rfl
  | cons x xs ih => simp only [List.foldl_cons, hf, ih]

theorem block_E : ∀ fuel : Nat,
    (∀ s b, storeEntry fuel (E σ s) b = E σ (storeEntry fuel s b)) ∧
    (∀ s b, storeItems fuel (E σ s) b = E σ (storeItems fuel s b)) ∧
    (∀ s c, changeConfigL fuel (E σ s) c = E σ (changeConfigL fuel s c)) ∧
    (∀ s t c, doChangeConfig fuel (E σ s) t c = E σ (doChangeConfig fuel s t c)) ∧
    (∀ s t c, checkConfigActions fuel (E σ s) t c = E σ (checkConfigActions fuel s t c)) ∧
    (∀ s t c id, checkConfigAction fuel (E σ s) t c id = E σ (checkConfigAction fuel s t c id)) ∧
    (∀ s i, setCommitIndexL fuel (E σ s) i = E σ (setCommitIndexL fuel s i)) ∧
    (∀ s, onMajorityCommit fuel (E σ s) = E σ (onMajorityCommit fuel s)) := by
  intro fuel
  induction fuel with
  | zero =>
    refine ⟨?_, ?_, ?_, ?_, ?_, ?_, ?_, ?_⟩
    · intro s b; unfold storeEntry; ecomm
    · intro s b; cases b with
      | nil => unfold storeItems; rfl
      | cons q qs => unfold storeItems; ecomm
    · intro s c; unfold changeConfigL; ecomm
    · intro s t c; unfold doChangeConfig; ecomm
    · intro s t c; unfold checkConfigActions; ecomm
    · intro s t c id; unfold checkConfigAction; ecomm
    · intro s i; unfold setCommitIndexL; ecomm
    · intro s; unfold onMajorityCommit; ecomm
  | succ n ih =>
    obtain ⟨ihSE, ihSI, ihCL, ihDC, ihCAs, ihCA, ihSC, ihMC⟩ := ih
    refine ⟨?_, ?_, ?_, ?_, ?_, ?_, ?_, ?_⟩
    · intro s b
      unfold storeEntry
      ecomm [ihSI, ihMC]
    · intro s b
      cases b with
      | nil => unfold storeItems; rfl
      | cons q qs =>
        unfold storeItems
        ecomm [ihSI, ihCL]
    · intro s c
      unfold changeConfigL
      enorm
      rw [foldl_E _ (fun s n => by ecomm)]
      enorm [ihCAs]
    · intro s t c; unfold doChangeConfig; ecomm [ihSE]
    · intro s t c
      unfold checkConfigActions
      ecomm [ihDC]
      all_goals (rw [foldl_E _ (fun s id => by ecomm [ihCA])])
    · intro s t c id
      unfold checkConfigAction
      ecomm [ihDC]
    · intro s i
      unfold setCommitIndexL
      ecomm [ihCAs]
      all_goals (rw [foldl_E _ (fun s t => by enorm)]; rfl)
    · intro s
      unfold onMajorityCommit
      ecomm [ihSC]

@[esimp] theorem E_storeEntry (f : Nat) (s : Node) (b : List QItem) : storeEntry f (E σ s) b = E σ (storeEntry f s b) :=
  (block_E f).1 s b
@[esimp] theorem E_doChangeConfig (f : Nat) (s : Node) (t : Nat) (c : Config) :
    doChangeConfig f (E σ s) t c = E σ (doChangeConfig f s t c) := (block_E f).2.2.2.1 s t c
@[esimp] theorem E_checkConfigActions (f : Nat) (s : Node) (t : Nat) (c : Config) :
    checkConfigActions f (E σ s) t c = E σ (checkConfigActions f s t c) := (block_E f).2.2.2.2.1 s t c
@[esimp] theorem E_checkConfigAction (f : Nat) (s : Node) (t : Nat) (c : Config) (id : Nat) :
    checkConfigAction f (E σ s) t c id = E σ (checkConfigAction f s t c id) := (block_E f).2.2.2.2.2.1 s t c id
@[esimp] theorem E_onMajorityCommit (f : Nat) (s : Node) : onMajorityCommit f (E σ s) = E σ (onMajorityCommit f s) :=
  (block_E f).2.2.2.2.2.2.2 s

/-! ### the other leader handlers -/

@[esimp] theorem E_checkQuorum (s : Node) : (E σ s).checkQuorum = E σ s.checkQuorum := by
  unfold Node.checkQuorum
  ecomm

@[esimp] theorem E_transferReply (s : Node) (r : String) : (E σ s).transferReply r = E σ (s.transferReply r) := by
  unfold Node.transferReply
  ecomm

@[esimp] theorem E_tryTransfer (s : Node) : (E σ s).tryTransfer = E σ s.tryTransfer := by
  unfold Node.tryTransfer
  ecomm

@[esimp] theorem E_onTransfer (s : Node) (t g : Nat) : (E σ s).onTransfer t g = E σ (s.onTransfer t g) := by
  unfold Node.onTransfer
  ecomm

@[esimp] theorem E_replyTransfer (s : Node) (r : String) : (E σ s).replyTransfer r = E σ (s.replyTransfer r) := by
  unfold Node.replyTransfer
  ecomm

@[esimp] theorem E_onTimeoutNowResult (s : Node) (src : Nat) (e : Bool) (r : Nat) :
    (E σ s).onTimeoutNowResult src e r = E σ (s.onTimeoutNowResult src e r) := by
  unfold Node.onTimeoutNowResult
  ecomm

@[esimp] theorem E_leaderInit (s : Node) : (E σ s).leaderInit = E σ s.leaderInit := by
  unfold Node.leaderInit
  enorm
  rw [foldl_E _ (fun s n => by ecomm)]
  enorm

@[esimp] theorem foldl_reply_E {β : Type} (g : β → Nat) (r : String) (xs : List β) (s : Node) :
    xs.foldl (fun s x => s.reply (g x) r) (E σ s) = E σ (xs.foldl (fun s x => s.reply (g x) r) s) :=
  foldl_E _ (fun s x => E_reply s (g x) r) xs s

@[esimp] theorem E_leaderReleaseRest (s : Node) : (E σ s).leaderReleaseRest = E σ s.leaderReleaseRest := by
  unfold Node.leaderReleaseRest
  ecomm

@[esimp] theorem E_leaderRelease (s : Node) : (E σ s).leaderRelease = E σ s.leaderRelease := by
  unfold Node.leaderRelease
  ecomm


/-! ### candidate, follower, role transitions -/

@[esimp] theorem E_startElection (s : Node) : (E σ s).startElection = E σ s.startElection := by
  unfold Node.startElection
  ecomm

@[esimp] theorem E_onVoteResult (s : Node) (e : Bool) (t r : Nat) : (E σ s).onVoteResult e t r = E σ (s.onVoteResult e t r) := by
  unfold Node.onVoteResult
  ecomm

@[esimp] theorem E_followerTimeout (s : Node) : (E σ s).followerTimeout = E σ s.followerTimeout := by
  unfold Node.followerTimeout
  ecomm

@[esimp] theorem E_releaseRole (s : Node) (r : Role) : (E σ s).releaseRole r = E σ (s.releaseRole r) := by
  unfold Node.releaseRole
  ecomm

@[esimp] theorem E_initRole (s : Node) : (E σ s).initRole = E σ s.initRole := by
  unfold Node.initRole
  ecomm

@[esimp] theorem E_settle (f : Nat) (s : Node) (c : Role) : settle f (E σ s) c = E σ (settle f s c) := by
  induction f generalizing s c with
  | zero => rfl
  | succ n ih =>
    unfold settle
    ecomm [ih]

/-! ### RPC handlers and tasks that do not read the snapshot fields -/

@[esimp] theorem E_onVoteRequest (s : Node) (q : VoteReq) : (E σ s).onVoteRequest q = E σ (s.onVoteRequest q) := by
  unfold Node.onVoteRequest
  ecomm

@[esimp] theorem E_onTimeoutNow (s : Node) : (E σ s).onTimeoutNow = E σ s.onTimeoutNow := by
  unfold Node.onTimeoutNow
  ecomm

@[esimp] theorem E_rpcDone (s : Node) (a b : Bool) : (E σ s).rpcDone a b = E σ (s.rpcDone a b) := by
  unfold Node.rpcDone
  ecomm

/-- `TakeSnapshot` reads the snapshot index: the erased node handles the request with the threshold counted from 0 -/
theorem E_onTakeSnapshot (s : Node) (t th : Nat) (h : σ.1 ≤ s.snapIndex + th) :
    (E σ s).onTakeSnapshot t (s.snapIndex + th - σ.1) = E σ (s.onTakeSnapshot t th) := by
  unfold Node.onTakeSnapshot
  ecomm
  rw [show σ.1 + (s.snapIndex + th - σ.1) = s.snapIndex + th from by omega]

@[esimp] theorem E_compactLog (s : Node) (i : Nat) : (E σ s).compactLog i = E σ (s.compactLog i) := by
  unfold Node.compactLog
  show (E σ { s with log := s.log.removeLTE i }).point _ = _
  rw [E_point]

@[esimp] theorem E_onSnapshotTaken (s : Node) : (E σ s).onSnapshotTaken = E σ s.onSnapshotTaken := by
  unfold Node.onSnapshotTaken
  ecomm

@[esimp] theorem E_onChangeConfig (s : Node) (t : Nat) (c : Config) : (E σ s).onChangeConfig t c = E σ (s.onChangeConfig t c) := by
  unfold Node.onChangeConfig
  ecomm

@[esimp] theorem E_bootstrap (s : Node) (t : Nat) (c : Config) : (E σ s).bootstrap t c = E σ (s.bootstrap t c) := by
  unfold Node.bootstrap
  ecomm

/-- `E` on the state component of the result of `replUpdLoop` -/
def Ep (σ : SnapData) (p : Node × UpdFlags) : Node × UpdFlags := (E σ p.1, p.2)

theorem E_replUpdLoop (us : List ReplUpdate) : ∀ (s : Node) (f : UpdFlags),
    replUpdLoop (E σ s) f us = Ep σ (replUpdLoop s f us) := by
  induction us with
  | nil => intro s f; rfl
  | cons u us ih =>
    intro s f
    unfold replUpdLoop
    ecomm [ih]

@[esimp] theorem E_checkLogCompact (s : Node) : (E σ s).checkLogCompact = E σ s.checkLogCompact := by
  unfold Node.checkLogCompact
  ecomm

@[esimp] theorem E_checkReplUpdates (s : Node) (us : List ReplUpdate) :
    (E σ s).checkReplUpdates us = E σ (s.checkReplUpdates us) := by
  unfold Node.checkReplUpdates
  rw [E_replUpdLoop]
  unfold Ep
  ecomm

@[esimp] theorem E_rejectEntries (s : Node) (b : List QItem) : (E σ s).rejectEntries b = E σ (s.rejectEntries b) := by
  induction b generalizing s with
  | nil => rfl
  | cons q qs ih =>
    unfold Node.rejectEntries
    ecomm [ih]

@[esimp] theorem E_onWaitForStable (s : Node) (t : Nat) : (E σ s).onWaitForStable t = E σ (s.onWaitForStable t) := by
  unfold Node.onWaitForStable
  ecomm


/-! ### one step -/

/-- The handlers of these operations read the snapshot fields: append requests (the consistency check is skipped
at or below `snapIndex`), install requests, the snapshot goroutine, and `shutdown` (which completes a pending
snapshot). Every other operation is `Plain`. -/
def Plain : Op → Prop
  | .append _ => False
  | .install _ => False
  | .snapRun => False
  | .shutdown => False
  | _ => True

/-- what the erased node is asked to do when the node handles `op`: a `TakeSnapshot` threshold counts from the
snapshot index, which the erased node has forgotten (replaced by `σ.1`) -/
def eraseOp (σ : SnapData) (s : Node) : Op → Op
  | .takeSnapshot t th => .takeSnapshot t (s.snapIndex + th - σ.1)
  | op => op

/-- the replaced snapshot index is not beyond the minimal index a `TakeSnapshot` asks for -/
def OpFits (σ : SnapData) (s : Node) : Op → Prop
  | .takeSnapshot _ th => σ.1 ≤ s.snapIndex + th
  | _ => True

@[esimp] theorem E_begin (s : Node) (ra : List Nat) (ord : List (List Nat)) : (E σ s).begin ra ord = E σ (s.begin ra ord) := rfl

theorem handle_E (s : Node) (op : Op) (h : Plain op) (hf : OpFits σ s op) :
    (E σ s).handle (eraseOp σ s op) = E σ (s.handle op) := by
  cases op <;> unfold eraseOp <;> unfold Node.handle <;> first | exact h.elim | skip
  case vote q => ecomm
  case timeoutNow => ecomm
  case identity a b c => ecomm
  case disconnected n => ecomm
  case timeout => ecomm
  case newEntries b => ecomm
  case changeConfig t c => ecomm
  case takeSnapshot t th => exact E_onTakeSnapshot s t th hf
  case snapTaken => ecomm
  case waitStable t => ecomm
  case transfer t g => ecomm
  case voteResult e t r => ecomm
  case replUpdates us => ecomm
  case transferTimeout => ecomm
  case timeoutNowResult a b c => ecomm
  case newTermTimeout => ecomm

/-- **the step commutes with the erasure of the snapshot data**, for every operation that does not read it -/
theorem step_E (s : Node) (op : Op) (ra : List Nat) (ord : List (List Nat)) (h : Plain op) (hf : OpFits σ s op) :
    (E σ s).step (eraseOp σ s op) ra ord = E σ (s.step op ra ord) := by
  have hb : eraseOp σ (s.begin ra ord) op = eraseOp σ s op := by cases op <;> rfl
  have hf' : OpFits σ (s.begin ra ord) op := by cases op <;> exact hf
  have hh := handle_E (σ := σ) (s.begin ra ord) op h hf'
  rw [hb] at hh
  unfold Node.step
  cases op <;> first | exact h.elim | (dsimp only; rw [E_begin, hh, E_role, E_settle]; try rfl)

end SnapRel
end Raft
