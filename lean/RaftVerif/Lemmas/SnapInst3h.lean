/-
The invariant of the cluster system with installation of snapshots (Sys/Snap3.lean), part h: every transition preserves
the invariant (`inv3_trans`); it holds in every reachable state (`inv3_reachable`).
-/
import RaftVerif.Lemmas.SnapInst3g
import RaftVerif.Lemmas.SnapInst3v

namespace Raft
namespace SnapInst3
open Node Election LogRel Replication CommitRel Commit C02Sys C03Sys SnapRel SnapRelU SnapSim Snap Snap2 SnapInv SnapInv2
open SnapInst SnapInstU Snap3 SnapFrame

section
variable {V : List Nat}

/-- nothing changes for the other nodes when node `i` makes a step of stage 2 -/
theorem vterm_stepS_other {x : Snap3.Sys} {i : Nat} {op : Op} {ra : List Nat} {ord : List (List Nat)} {src : Nat}
    {j : Nat} (hj : j ≠ i) (hv : VTerm x j) : VTerm { x with s2 := stepS x.s2 i op ra ord src } j := by
  refine ⟨?_, ?_⟩
  · show ∀ f ∈ ((stepS x.s2 i op ra ord src).node j).snapsDisk,
      termAt ((stepS x.s2 i op ra ord src).vnode j).log.entries f.index = f.term
    rw [stepS_node_j _ _ _ _ _ _ hj, view_stepS_node, if_neg hj]; exact hv.files
  · show ((stepS x.s2 i op ra ord src).node j).snapTerm = (headOf ((stepS x.s2 i op ra ord src).node j).snapsDisk).term
    rw [stepS_node_j _ _ _ _ _ _ hj]; exact hv.head

theorem vterm_crashS_other {x : Snap3.Sys} {i : Nat} {op : Op} {n : Node} {j : Nat} (hj : j ≠ i) (hv : VTerm x j) :
    VTerm { x with s2 := crashS x.s2 i op n } j := by
  refine ⟨?_, ?_⟩
  · show ∀ f ∈ ((crashS x.s2 i op n).node j).snapsDisk, termAt ((crashS x.s2 i op n).vnode j).log.entries f.index = f.term
    rw [crashS_node_j _ _ _ _ hj, view_crashS_node, if_neg hj]; exact hv.files
  · show ((crashS x.s2 i op n).node j).snapTerm = (headOf ((crashS x.s2 i op n).node j).snapsDisk).term
    rw [crashS_node_j _ _ _ _ hj]; exact hv.head

theorem snapsWF_node {x : Snap3.Sys} (hI : Inv3 V x) (i : Nat) : C09.SnapsWF (x.node i) := by
  have so : SnapOK (x.vnode i) := hI.sinv.snap i
  refine ⟨so.files.sorted, fun g hg => ?_, ?_⟩
  · show g.index = (x.vnode i).snapIndex
    rw [so.head]
    unfold headOf
    rw [show (x.vnode i).snapsDisk.head? = some g from hg]; rfl
  · show (x.vnode i).snapIndex ≤ (x.vnode i).commitIndex
    rw [so.head]; exact so.files.head_le

/-- the install request the leader `i` sends stands for a committed prefix of its virtual log -/
theorem msgOK_send {x : Snap3.Sys} (hI : Inv3 V x) (hS : Side3 V x) {i : Nat} {q : InstallReq}
    (hr : SnapRead (x.node i) q) : MsgOK (view3 x).cs ⟨q, (x.vlog i).take q.lastIndex⟩ := by
  have hc := hI.sinv.cinv
  have so : SnapOK (x.vnode i) := hI.sinv.snap i
  have hf : C09.fileOf q ∈ (x.node i).snapsDisk := List.mem_of_mem_head? hr.file
  obtain ⟨f1, f2, f3⟩ := so.files.files _ hf
  have f1' : 1 ≤ q.lastIndex := f1
  have f2' : q.lastIndex ≤ (x.node i).commitIndex := f2
  obtain ⟨hlen, hcm⟩ := hc.cmt.cc i q.lastIndex f1' f2'
  have hlen' : q.lastIndex ≤ (x.vlog i).length := hlen
  have hl : ((x.vlog i).take q.lastIndex).length = q.lastIndex := by rw [List.length_take]; omega
  have hlt : lastTerm ((x.vlog i).take q.lastIndex) = termAt (x.vlog i) q.lastIndex := lastTerm_take _ _ hlen'
  have hvt : termAt (x.vlog i) q.lastIndex = q.lastTerm := (hI.vterm i).files _ hf
  refine ⟨hl, f1', (log_path hc i).prefix (List.take_prefix _ _), by rw [hlt, hvt], ?_, ?_, fun e he => ?_, fun e he => ?_⟩
  · show Cmt _ (((x.vlog i).take q.lastIndex).length, lastTerm ((x.vlog i).take q.lastIndex)) q.term
    rw [hl, hlt, hr.term]
    exact hcm
  · show q.data = ups ((x.vlog i).take q.lastIndex)
    exact f3
  · have : e ∈ x.vlog i := List.mem_of_mem_take he
    rw [hr.term]
    exact hc.node.termLe i e this
  · exact hS.dec i e (List.mem_of_mem_take he)

/-- the head of the old listing is not the received file: the request is ahead of everything the node has -/
theorem head_ne_file {x : Snap3.Sys} (hI : Inv3 V x) {i : Nat} {q : InstallReq} (hi : Installs (x.node i) q) :
    ¬ (x.node i).snapsDisk.head? = some (C09.fileOf q) := by
  intro h
  have wf := snapsWF_node hI i
  have := wf.head _ h
  have h2 := wf.le_commit
  have h3 := hi.2.1
  have h4 : (C09.fileOf q).index = q.lastIndex := rfl
  omega

/-- **every transition preserves the invariant** -/
theorem inv3_trans (hV : V.Nodup) {x y : Snap3.Sys} (hI : Inv3 V x) (hS : Side3 V x) (ht : Snap3.Trans x y)
    (hS' : Side3 V y) : Inv3 V y := by
  cases ht with
  | step i op ra ord src en hp htt =>
    have hSv : SideS V (view (stepS x.s2 i op ra ord src)) := sideS_view3 hS'
    by_cases hap : ∃ q, op = .append q
    · obtain ⟨q, rfl⟩ := hap
      obtain ⟨a1, a2, a3⟩ := step3_append hV hI hS en hp hS'
      refine ⟨a1, fun j => ?_, fun j => ?_,
        fun m hm => (hI.msgs m hm).mono (stepS_T _ _ _ _ _ _).1 (stepS_T _ _ _ _ _ _).2⟩
      · by_cases hj : j = i
        · subst hj
          show PrevOK ((stepS x.s2 j (.append q) ra ord src).node j)
          rw [stepS_node_i]; exact a2
        · show PrevOK ((stepS x.s2 i (.append q) ra ord src).node j)
          rw [stepS_node_j _ _ _ _ _ _ hj]; exact hI.prev j
      · by_cases hj : j = i
        · subst hj; exact a3
        · exact vterm_stepS_other hj (hI.vterm j)
    have hnc : NoCut (x.node i) op := by
      cases op <;> first | trivial | exact absurd ⟨_, rfl⟩ hap
    by_cases hsn : op = .snapTaken
    · subst hsn
      obtain ⟨a1, a2, a3, a4, a5⟩ := step3_snapTaken hV hI.sinv hI.prev hS (ra := ra) (ord := ord) (src := src) en.id
      refine ⟨a1, fun j => ?_, fun j => ?_, fun m hm => (hI.msgs m hm).mono (stepS_T _ _ _ _ _ _).1 (stepS_T _ _ _ _ _ _).2⟩
      · by_cases hj : j = i
        · subst hj
          show PrevOK ((stepS x.s2 j .snapTaken ra ord src).node j)
          rw [stepS_node_i]; exact a2
        · show PrevOK ((stepS x.s2 i .snapTaken ra ord src).node j)
          rw [stepS_node_j _ _ _ _ _ _ hj]; exact hI.prev j
      · by_cases hj : j = i
        · subst hj
          have hv := hI.vterm j
          refine ⟨?_, ?_⟩
          · show ∀ f ∈ ((stepS x.s2 j .snapTaken ra ord src).node j).snapsDisk,
              termAt ((stepS x.s2 j .snapTaken ra ord src).vnode j).log.entries f.index = f.term
            rw [stepS_node_i, a3, a4]; exact hv.files
          · show ((stepS x.s2 j .snapTaken ra ord src).node j).snapTerm =
              (headOf ((stepS x.s2 j .snapTaken ra ord src).node j).snapsDisk).term
            rw [stepS_node_i, a4, a5]; exact hv.head
        · exact vterm_stepS_other hj (hI.vterm j)
    · obtain ⟨a1, a2, a3⟩ := step3_nc hV hI.sinv hI.prev hS en hp hsn hnc hSv
      have hU := vstep_comm hI.sinv hI.prev hS en hp hsn hnc
      refine ⟨a1, fun j => ?_, vterm_step hV hI hS en hsn htt a3 hU,
        fun m hm => (hI.msgs m hm).mono (stepS_T _ _ _ _ _ _).1 (stepS_T _ _ _ _ _ _).2⟩
      by_cases hj : j = i
      · subst hj
        show PrevOK ((stepS x.s2 j op ra ord src).node j)
        rw [stepS_node_i]; exact a2
      · show PrevOK ((stepS x.s2 i op ra ord src).node j)
        rw [stepS_node_j _ _ _ _ _ _ hj]; exact hI.prev j
  | crash i op ra ord src k retain sor n en hret hp hnc htt hst hn =>
    have hSv : SideS V (view (crashS x.s2 i op n)) := sideS_view3 hS'
    obtain ⟨w1, w2, w3, _⟩ := restart_snapTerm _ retain sor n hn
    have key : SInv V (view (crashS x.s2 i op n)) ∧ PrevOK n ∧
        FilesOK (x.vlog i) (x.node i).commitIndex (C05.crashDisk (x.node i) op ra ord k).snaps := by
      by_cases hsn : op = .snapTaken
      · subst hsn
        obtain ⟨a1, a2⟩ := crash3_snapTaken (src := src) hV hI hS en.id hret hst hn hSv
        refine ⟨a1, a2, ?_⟩
        have so : SnapOK (x.vnode i) := hI.sinv.snap i
        have hsn' : (C05.crashDisk (x.node i) .snapTaken ra ord k).snaps = (x.node i).snapsDisk := by
          rcases snapTaken_crashDisk (x.node i) ra ord k with e | ⟨e, _⟩ <;> rw [e] <;> rfl
        rw [hsn']; exact so.files
      · obtain ⟨a1, a2, _, a4, _⟩ := crash3_nc hV hI hS en hret hp hsn hnc htt hst hn hSv
        exact ⟨a1, a2, a4⟩
    obtain ⟨a1, a2, a4⟩ := key
    refine ⟨a1, fun j => ?_, fun j => ?_, fun m hm => (hI.msgs m hm).mono (crashS_T _ _ _ _).1 (crashS_T _ _ _ _).2⟩
    · by_cases hj : j = i
      · subst hj
        show PrevOK ((crashS x.s2 j op n).node j)
        rw [crashS_node_i]; exact a2
      · show PrevOK ((crashS x.s2 i op n).node j)
        rw [crashS_node_j _ _ _ _ hj]; exact hI.prev j
    · by_cases hj : j = i
      · subst hj
        exact vterm_restart hI (y := { x with s2 := crashS x.s2 j op n }) a1 (crashS_T _ _ _ _).1 (crashS_T _ _ _ _).2
          (crashS_node_i _ _ _ _) a4 (crash_files_term hI k en.ok2.1 htt) w2 w1 w3
      · exact vterm_crashS_other hj (hI.vterm j)
  | send i q hi hl hr hc =>
    have ht : Snap.Trans (view x.s2) (view { x.s2 with cs := sendC x.s2.cs q }) :=
      Snap.Trans.send (x := view x.s2) i q hi hl hr.read hc
    exact ⟨inv_trans hV hI.sinv (sideS_view3 hS) ht (sideS_view3 hS'), hI.prev, fun j => ⟨(hI.vterm j).files, (hI.vterm j).head⟩,
      fun m hm => (hI.msgs m hm).mono (fun _ h => h) (fun _ h => h)⟩
  | sendSnap i q hi hl hr =>
    refine ⟨hI.sinv, hI.prev, fun j => ⟨(hI.vterm j).files, (hI.vterm j).head⟩, fun m hm => ?_⟩
    rcases List.mem_cons.mp hm with rfl | hm
    · exact msgOK_send hI hS hr
    · exact hI.msgs m hm
  | install i m ra ord hi hm hp =>
    have hvw : C05.VoteWF (x.node i) := (hI.sinv.cinv.rp.el.ids i).2
    have key : SInv V (view3 (installS x i m ra ord)) ∧ PrevOK ((x.node i).step (.install m.q) ra ord) ∧
        VTerm (installS x i m ra ord) i := by
      unfold installS instBase
      by_cases hin : Installs (x.node i) m.q
      · rw [if_pos hin]
        have hmo : MsgOK (view3 x).cs m := hI.msgs m (hm.resolve_left hin.1)
        have wf := snapsWF_node hI i
        have so : SnapOK (x.vnode i) := hI.sinv.snap i
        exact installed_inv hV hI hmo hin
          (installed_of_step (x.node i) m.q ra ord hin wf so.retain hvw (hI.prev i).res wf.le_commit)
      · rw [if_neg hin]
        by_cases hst : m.q.term < (x.node i).term
        · exact same_inv hI (same_of_stale_step (x.node i) m.q ra ord hst)
        · have hno : m.q.lastIndex ≤ (x.node i).commitIndex ∨ C09.keepsLog (x.node i) m.q = true := by
            by_cases h2 : m.q.lastIndex ≤ (x.node i).commitIndex
            · exact Or.inl h2
            · right
              cases hk : C09.keepsLog (x.node i) m.q with
              | true => rfl
              | false => exact absurd ⟨hst, by omega, hk⟩ hin
          exact bumped_inv hI (bumped_of_step (x.node i) m.q ra ord hst hno hvw).1
    obtain ⟨a1, a2, a3⟩ := key
    refine ⟨a1, fun j => ?_, fun j => ?_, fun m' hm' => (hI.msgs m' hm').mono (fun _ h => h) (fun _ h => h)⟩
    · by_cases hj : j = i
      · subst hj
        show PrevOK ((installS x j m ra ord).node j)
        unfold installS; rw [replS_node_i]; exact a2
      · show PrevOK ((installS x i m ra ord).node j)
        unfold installS; rw [replS_node_j _ _ _ _ hj]; exact hI.prev j
    · by_cases hj : j = i
      · subst hj; exact a3
      · unfold installS; exact vterm_other i _ _ hj (hI.vterm j)
  | crashInstall i m ra ord k retain sor n hi hm hret hp hold hn =>
    have hvw : C05.VoteWF (x.node i) := (hI.sinv.cinv.rp.el.ids i).2
    have hd := install_crashDisk (x.node i) m.q ra ord k
    have wf := snapsWF_node hI i
    have so : SnapOK (x.vnode i) := hI.sinv.snap i
    have hSv : SideS V (view3 (crashInstS x i m (C05.crashDisk (x.node i) (.install m.q) ra ord k) n)) := sideS_view3 hS'
    generalize C05.crashDisk (x.node i) (.install m.q) ra ord k = d at hd hold hn hSv
    have key : SInv V (view3 (crashInstS x i m d n)) ∧ PrevOK n ∧ VTerm (crashInstS x i m d n) i := by
      unfold crashInstS instBase at hSv ⊢
      rcases hd.data with ⟨e1, e2⟩ | ⟨hin, e1, e2, e3⟩
      · have hnf : ¬ (d.snaps.head? = some (C09.fileOf m.q) ∧ Installs (x.node i) m.q) := by
          intro hc
          rw [e2] at hc
          exact head_ne_file hI hc.2 hc.1
        rw [if_neg hnf] at hSv ⊢
        exact olddisk_inv hV hI hS hi hd.cid hd.nid e1 e2 hd.tv (hold e2) hret hn hSv
      · have hprev : (x.node i).log.prev ≤ (x.node i).commitIndex := by
          have := (hI.prev i).le; have := wf.le_commit; omega
        have hh : ∀ g, (x.node i).snapsDisk.head? = some g → g.index ≤ m.q.lastIndex := by
          intro g hg
          have := wf.head g hg; have := wf.le_commit; have := hin.2.1
          omega
        have hhead := inst_head (x.node i) m.q so.retain hh e2
        rw [if_pos ⟨hhead, hin⟩]
        have hmo : MsgOK (view3 x).cs m := hI.msgs m (hm.resolve_left hin.1)
        exact installed_inv hV hI hmo hin
          (installed_of_restart (x.node i) m.q hin hprev so.retain hh hvw d hd.nid e1 e2 e3 retain hret sor n hn)
    obtain ⟨a1, a2, a3⟩ := key
    refine ⟨a1, fun j => ?_, fun j => ?_, fun m' hm' => (hI.msgs m' hm').mono (fun _ h => h) (fun _ h => h)⟩
    · by_cases hj : j = i
      · subst hj
        show PrevOK ((crashInstS x j m d n).node j)
        unfold crashInstS; rw [replS_node_i]; exact a2
      · show PrevOK ((crashInstS x i m d n).node j)
        unfold crashInstS; rw [replS_node_j _ _ _ _ hj]; exact hI.prev j
    · by_cases hj : j = i
      · subst hj; exact a3
      · unfold crashInstS; exact vterm_other i _ _ hj (hI.vterm j)

/-- **the invariant holds in every reachable state** -/
theorem inv3_reachable (hV : V.Nodup) {x : Snap3.Sys} (h : Reachable3 V x) : Inv3 V x ∧ Side3 V x := by
  induction h with
  | init x hi hs =>
    have hn : ∀ j, NWF (x.vnode j) := fun j => (hi.init.init.cs.rp.nodes j).1
    refine ⟨⟨sinv_init hi.init.init, fun i => ⟨by rw [hi.init.prev i]; exact Nat.zero_le _,
      fun rs hrs => by rw [hi.init.result i] at hrs; cases hrs⟩, fun i => ⟨fun f hf => ?_, ?_⟩,
      fun m hm => by rw [hi.sent] at hm; cases hm⟩, hs⟩
    · have : (x.vnode i).snapsDisk = [] := (hn i).snaps
      have hf' : f ∈ (x.vnode i).snapsDisk := hf
      rw [this] at hf'; cases hf'
    · have : (x.node i).snapsDisk = [] := (hn i).snaps
      rw [hi.term i, this]; rfl
  | next x y _ ht hs ih => exact ⟨inv3_trans hV ih.1 ih.2 ht hs, hs⟩

end

end SnapInst3
end Raft
