/-
Lemmas for C12 (tracking): "the FSM's cached configuration and term are those of the applied prefix" as an
inductive invariant of `Node.step`.

* `pre log i`: the configurations of the log entries at or below `i`; `newest log L i` (= `C12.newestConfigUpTo`):
  the last of them, else the label `L`.
* `label s`: the configuration recorded in the meta file of the newest snapshot (zero if there is none).
* `FsmOk`, `SnapOk`, `Core s`: the invariant proper (see `Props/C12Track.lean` for the wording); `QM s`: the items
  in the leader queue are the log entries at their index (the FSM applies *items*, not log entries, on a leader).
* `TI s₀ b g s`: the invariant carried through a step: `Order.Inv s₀ b s` (orderings, `Lemmas/Order.lean`)
  and, while the step has not panicked, `Core s` and — when the flag `g` is set — `QM s`.
* every primitive, the leader block, every handler, `settle`, `handle` preserve it.
-/
import RaftVerif.Lemmas.Order
import RaftVerif.Lemmas.LeaderCache
import RaftVerif.Props.C03
import RaftVerif.Props.C12

namespace Raft
namespace Track
open Node

/-! ## configurations at or below an index -/

/-- the configurations of the log entries with index `≤ i` (oldest first) -/
def pre (log : NLog) (i : Nat) : List Config := (log.entries.take (i - log.prev)).filterMap Entry.config?

/-- the newest configuration entry with index `≤ i`, else the label -/
def newest (log : NLog) (L : Config) (i : Nat) : Config := ((pre log i).getLast?).getD L

theorem newest_eq (log : NLog) (L : Config) (i : Nat) : newest log L i = C12.newestConfigUpTo log L i := rfl

theorem newest_of_nil {log : NLog} {i : Nat} (L : Config) (h : pre log i = []) : newest log L i = L := by
  unfold newest; rw [h]; rfl

/-- when there is a configuration entry at or below `i` the label does not matter -/
theorem newest_of_ne {log : NLog} {i : Nat} (L L' : Config) (h : pre log i ≠ []) : newest log L i = newest log L' i := by
  unfold newest
  cases hl : (pre log i).getLast? with
  | none => exact absurd (List.getLast?_eq_none_iff.mp hl) h
  | some c => rfl

/-- the configurations up to `j` extend those up to `i ≤ j` -/
theorem pre_mono (log : NLog) {i j : Nat} (h : i ≤ j) : ∃ t, pre log j = pre log i ++ t := by
  unfold pre
  have e : j - log.prev = (i - log.prev) + ((j - log.prev) - (i - log.prev)) := by omega
  rw [e, List.take_add, List.filterMap_append]
  exact ⟨_, rfl⟩

theorem pre_nil_of_le (log : NLog) {i j : Nat} (h : i ≤ j) (hj : pre log j = []) : pre log i = [] := by
  obtain ⟨t, e⟩ := pre_mono log h
  rw [e] at hj
  exact (List.append_eq_nil_iff.mp hj).1

/-- configurations decoded from a contiguous log have positive index -/
theorem pre_index_pos {log : NLog} (hc : C03.LogContig log) (i : Nat) : ∀ c ∈ pre log i, 0 < c.index := by
  intro c hc'
  unfold pre at hc'
  obtain ⟨e, he, hcfg⟩ := List.mem_filterMap.mp hc'
  have hmem : e ∈ log.entries := List.mem_of_mem_take he
  obtain ⟨k, hk, rfl⟩ := List.getElem_of_mem hmem
  rw [Order.config?_index hcfg, hc k hk]; omega

theorem newest_index_pos {log : NLog} (hc : C03.LogContig log) (L : Config) (i : Nat) (h : pre log i ≠ []) :
    0 < (newest log L i).index := by
  unfold newest
  cases hl : (pre log i).getLast? with
  | none => exact absurd (List.getLast?_eq_none_iff.mp hl) h
  | some c => exact pre_index_pos hc i c (List.mem_of_getLast? hl)

/-- `pre` only looks at the entries at or below `i` -/
theorem pre_congr {log log' : NLog} {i : Nat} (hp : log'.prev = log.prev)
    (he : log'.entries.take (i - log.prev) = log.entries.take (i - log.prev)) : pre log' i = pre log i := by
  unfold pre; rw [hp, he]

theorem get?_congr {log log' : NLog} {i : Nat} (hp : log'.prev = log.prev)
    (he : log'.entries.take (i - log.prev) = log.entries.take (i - log.prev)) : log'.get? i = log.get? i := by
  unfold NLog.get?
  rw [hp]
  split
  · rename_i hlt
    have h1 : (log'.entries.take (i - log.prev))[i - log.prev - 1]? = log'.entries[i - log.prev - 1]? :=
      List.getElem?_take_of_lt (by omega)
    have h2 : (log.entries.take (i - log.prev))[i - log.prev - 1]? = log.entries[i - log.prev - 1]? :=
      List.getElem?_take_of_lt (by omega)
    rw [← h1, ← h2, he]
  · rfl

/-- the same for every index at or below `i` -/
theorem take_le_congr {α : Type} {l l' : List α} {n m : Nat} (h : l'.take n = l.take n) (hm : m ≤ n) :
    l'.take m = l.take m := by
  have e : m = min m n := by omega
  rw [e, ← List.take_take, ← List.take_take, h]

/-! ## the invariant on the FSM's cache -/

/-- The FSM's cached `(term, config)` are those of the applied prefix of `log` (label `L`, snapshot at
`(si, st)`):
* if the FSM holds a configuration (`index > 0`) it is the newest configuration entry at or below `fsm.index`,
  else the snapshot's label;
* if it holds none, there is no configuration entry at or below `fsm.index` in the log;
* `fsm.term` is the term of the log entry `fsm.index` (when the log holds it) and the snapshot's term when
  `fsm.index` is the snapshot index. -/
structure FsmOk (log : NLog) (L : Config) (si st : Nat) (f : Fsm) : Prop where
  cfgPos : 0 < f.config.index → f.config = newest log L f.index
  cfgZero : f.config.index = 0 → pre log f.index = []
  termLog : log.prev < f.index → (log.get? f.index).map (·.term) = some f.term
  termSnap : f.index = si → f.term = st

theorem FsmOk.congr {log : NLog} {L : Config} {si st : Nat} {f f' : Fsm} (h : FsmOk log L si st f)
    (e1 : f'.index = f.index) (e2 : f'.term = f.term) (e3 : f'.config = f.config) : FsmOk log L si st f' :=
  ⟨by rw [e3, e1]; exact h.cfgPos, by rw [e3, e1]; exact h.cfgZero, by rw [e1, e2]; exact h.termLog,
   by rw [e1, e2]; exact h.termSnap⟩

/-- the log changed, but not at or below `fsm.index` -/
theorem FsmOk.of_log {log log' : NLog} {L : Config} {si st : Nat} {f : Fsm} (h : FsmOk log L si st f)
    (hp : log'.prev = log.prev) (he : log'.entries.take (f.index - log.prev) = log.entries.take (f.index - log.prev)) :
    FsmOk log' L si st f := by
  have e1 := pre_congr hp he
  have e2 := get?_congr hp he
  refine ⟨fun hpos => ?_, fun hz => ?_, fun hlt => ?_, h.termSnap⟩
  · unfold newest; rw [e1]; exact h.cfgPos hpos
  · rw [e1]; exact h.cfgZero hz
  · rw [e2]; exact h.termLog (by omega)

/-- one more entry applied: entry `f.index + 1` of the log -/
theorem FsmOk.applyOne {log : NLog} {L : Config} {si st : Nat} {f : Fsm} (hc : C03.LogContig log)
    (h : FsmOk log L si st f) (hprev : log.prev ≤ f.index) (hsi : si ≤ f.index) (e : Entry)
    (he : log.get? (f.index + 1) = some e) (f' : Fsm) (e1 : f'.index = f.index + 1) (e2 : f'.term = e.term)
    (e3 : f'.config = (e.config?).getD f.config) : FsmOk log L si st f' := by
  -- the configurations up to f.index + 1
  have hpre : pre log (f.index + 1) = pre log f.index ++ (e.config?).toList := by
    unfold pre
    have hk : f.index + 1 - log.prev = (f.index - log.prev) + 1 := by omega
    unfold NLog.get? at he
    rw [if_pos (by omega)] at he
    have hidx : f.index + 1 - log.prev - 1 = f.index - log.prev := by omega
    rw [hidx] at he
    obtain ⟨hlt, hget⟩ := List.getElem?_eq_some_iff.mp he
    rw [hk, List.take_succ_eq_append_getElem hlt, List.filterMap_append, hget]
    cases hcfg : e.config? <;> simp [hcfg]
  refine ⟨fun hpos => ?_, fun hz => ?_, fun _ => ?_, fun hsi' => ?_⟩
  · rw [e3, e1]
    unfold newest
    rw [hpre]
    cases hcfg : e.config? with
    | none =>
      rw [e3, hcfg] at hpos
      simp only [Option.toList_none, List.append_nil, Option.getD_none]
      exact h.cfgPos hpos
    | some c => simp
  · rw [e1, hpre]
    cases hcfg : e.config? with
    | none =>
      rw [e3, hcfg] at hz
      simp only [Option.toList_none, List.append_nil]
      exact h.cfgZero hz
    | some c =>
      exfalso
      rw [e3, hcfg] at hz
      have : c.index = e.index := Order.config?_index hcfg
      have := hc.get?_index _ _ he
      simp only [Option.getD_some] at hz
      omega
  · rw [e1, he, e2]; rfl
  · omega

/-- a snapshot taken at the FSM's position, labelled `L'` = the FSM's configuration if it has one -/
theorem FsmOk.snapshot {log : NLog} {L : Config} {si st : Nat} {f : Fsm} (h : FsmOk log L si st f) (L' : Config)
    (hL : 0 < f.config.index → L' = f.config) :
    FsmOk log L' f.index f.term f ∧ newest log L' f.index = L' := by
  by_cases hpos : 0 < f.config.index
  · have e := hL hpos
    have hc := h.cfgPos hpos
    have key : newest log L' f.index = L' := by
      by_cases hn : pre log f.index = []
      · exact newest_of_nil _ hn
      · rw [newest_of_ne L' L hn, ← hc, e]
    exact ⟨⟨fun _ => by rw [key, e], fun hz => absurd hz (by omega), h.termLog, fun _ => rfl⟩, key⟩
  · have hz : f.config.index = 0 := by omega
    have hn := h.cfgZero hz
    exact ⟨⟨fun hp => absurd hp hpos, fun _ => hn, h.termLog, fun _ => rfl⟩, newest_of_nil _ hn⟩

/-- the FSM restored from the snapshot `(si, st, L)` onto a log that starts there -/
theorem FsmOk.restored (log : NLog) (L : Config) (si st : Nat) (f : Fsm) (hp : log.prev = si)
    (e1 : f.index = si) (e2 : f.term = st) (e3 : f.config = L) : FsmOk log L si st f := by
  have hn : pre log f.index = [] := by unfold pre; rw [e1, hp, Nat.sub_self]; rfl
  exact ⟨fun _ => by rw [newest_of_nil _ hn, e3], fun _ => hn, fun hlt => by omega, fun _ => e2⟩

/-! ### compaction -/

/-- what `RemoveLTE` does to the entries, as far as this invariant is concerned -/
structure Compacted (log log' : NLog) : Prop where
  prev_le : log.prev ≤ log'.prev
  entries : log'.entries = log.entries.drop (log'.prev - log.prev)

theorem Compacted.pre {log log' : NLog} (h : Compacted log log') (i : Nat) (hi : log'.prev ≤ i) :
    Track.pre log i = Track.pre log log'.prev ++ Track.pre log' i := by
  unfold Track.pre
  have hle := h.prev_le
  have e : i - log.prev = (log'.prev - log.prev) + (i - log'.prev) := by omega
  rw [e, List.take_add, List.filterMap_append, h.entries]

theorem Compacted.get? {log log' : NLog} (h : Compacted log log') (i : Nat) (hi : log'.prev < i) :
    log'.get? i = log.get? i := by
  have hle := h.prev_le
  unfold NLog.get?
  rw [if_pos hi, if_pos (by omega), h.entries, List.getElem?_drop]
  congr 1; omega

/-- the label is self-consistent: it is the newest configuration at or below the snapshot index -/
theorem lab_compacted {log log' : NLog} {L : Config} {si : Nat} (h : Compacted log log') (hsi : log'.prev ≤ si)
    (hl : newest log L si = L) : newest log' L si = L := by
  by_cases hn : Track.pre log' si = []
  · exact newest_of_nil _ hn
  · have hp := h.pre si hsi
    unfold newest at hl ⊢
    rw [hp, List.getLast?_append] at hl
    cases hg : (Track.pre log' si).getLast? with
    | none => exact absurd (List.getLast?_eq_none_iff.mp hg) hn
    | some c => rw [hg] at hl; simpa using hl

theorem FsmOk.compacted {log log' : NLog} {L : Config} {si st : Nat} {f : Fsm} (h : FsmOk log L si st f)
    (hc : Compacted log log') (hsi : log'.prev ≤ si) (hfi : si ≤ f.index) (hl : newest log L si = L) :
    FsmOk log' L si st f := by
  have hp := hc.pre f.index (by omega)
  refine ⟨fun hpos => ?_, fun hz => ?_, fun hlt => ?_, h.termSnap⟩
  · have h1 := h.cfgPos hpos
    by_cases hn : Track.pre log' f.index = []
    · rw [newest_of_nil _ hn]
      -- nothing above the new start: the newest is among the dropped ones, hence the label
      have hn' : Track.pre log' si = [] := pre_nil_of_le log' hfi hn
      have hps := hc.pre si hsi
      rw [hn', List.append_nil] at hps
      rw [hn, List.append_nil] at hp
      have : newest log L f.index = newest log L si := by unfold newest; rw [hp, hps]
      rw [h1, this, hl]
    · rw [h1]
      unfold newest
      rw [hp, List.getLast?_append]
      cases hg : (Track.pre log' f.index).getLast? with
      | none => exact absurd (List.getLast?_eq_none_iff.mp hg) hn
      | some c => rfl
  · have := h.cfgZero hz
    rw [hp] at this
    exact (List.append_eq_nil_iff.mp this).2
  · rw [hc.get? _ hlt]
    exact h.termLog (by have := hc.prev_le; omega)


/-- several entries applied at once: the range `(f.index, upto]` of the log (`fsmApplyLogTo`) -/
theorem FsmOk.applyRange {log : NLog} {L : Config} {si st : Nat} {f : Fsm} (hc : C03.LogContig log)
    (h : FsmOk log L si st f) (hprev : log.prev ≤ f.index) (hsi : si ≤ f.index) (upto : Nat)
    (hlt : f.index < upto) (hle : upto ≤ log.last) (f' : Fsm) (e1 : f'.index = upto)
    (e2 : f'.term = ((((log.entries.drop (f.index - log.prev)).take (upto - f.index)).getLast?).map (·.term)).getD f.term)
    (e3 : f'.config = ((((log.entries.drop (f.index - log.prev)).take (upto - f.index)).filterMap Entry.config?).getLast?).getD f.config) :
    FsmOk log L si st f' := by
  generalize hR : (log.entries.drop (f.index - log.prev)).take (upto - f.index) = R at e2 e3
  have hpre : pre log upto = pre log f.index ++ R.filterMap Entry.config? := by
    unfold pre
    have hsplit : upto - log.prev = (f.index - log.prev) + (upto - f.index) := by omega
    rw [hsplit, List.take_add, List.filterMap_append, hR]
  have hlen : R.length = upto - f.index := by
    rw [← hR, List.length_take, List.length_drop]; unfold NLog.last at hle; omega
  have hlast : R.getLast? = log.get? upto := by
    rw [List.getLast?_eq_getElem?, hlen, ← hR]
    unfold NLog.get?
    rw [List.getElem?_take_of_lt (by omega), List.getElem?_drop, if_pos (by omega)]
    congr 1; omega
  have hnew : newest log L upto = ((R.filterMap Entry.config?).getLast?).getD (newest log L f.index) := by
    unfold newest; rw [hpre, C12.getLast?_append_getD]
  refine ⟨fun hpos => ?_, fun hz => ?_, fun _ => ?_, fun hsi' => ?_⟩
  · rw [e1, hnew, e3]
    cases hg : (R.filterMap Entry.config?).getLast? with
    | none =>
      rw [e3, hg] at hpos
      exact h.cfgPos hpos
    | some c => rfl
  · rw [e1, hpre]
    cases hg : (R.filterMap Entry.config?).getLast? with
    | none =>
      rw [e3, hg] at hz
      rw [List.getLast?_eq_none_iff.mp hg, List.append_nil]
      exact h.cfgZero hz
    | some c =>
      exfalso
      rw [e3, hg] at hz
      have hm : c ∈ pre log upto := by rw [hpre]; exact List.mem_append_right _ (List.mem_of_getLast? hg)
      have := pre_index_pos hc upto c hm
      simp only [Option.getD_some] at hz
      omega
  · rw [e1, e2, hlast]
    have hex : ∃ e, log.get? upto = some e := by
      unfold NLog.get? NLog.last at *
      rw [if_pos (by omega)]
      exact ⟨_, List.getElem?_eq_getElem (by omega)⟩
    obtain ⟨e, he⟩ := hex
    rw [he]; rfl
  · omega

/-! ## the invariant on a node -/

/-- the snapshot's term is the term of the log entry at the snapshot index (when the log still holds it), and
it is the term recorded in the newest file on disk (`0` if there is none) -/
structure SnapOk (log : NLog) (disk : List SnapFile) (si st : Nat) : Prop where
  termLog : log.prev < si → (log.get? si).map (·.term) = some st
  headTerm : st = ((disk.head?).map (·.term)).getD 0
  zero : si = 0 → st = 0

theorem SnapOk.of_log {log log' : NLog} {disk : List SnapFile} {si st : Nat} (h : SnapOk log disk si st)
    (hp : log'.prev = log.prev) (he : log'.entries.take (si - log.prev) = log.entries.take (si - log.prev)) :
    SnapOk log' disk si st :=
  ⟨fun hlt => by rw [get?_congr hp he]; exact h.termLog (by omega), h.headTerm, h.zero⟩

/-- the configuration recorded in the meta file of the newest snapshot on disk — the snapshot `snaps.index`
(`Core.snapHead`); the zero configuration when there is none -/
def label (s : Node) : Config := ((s.snapsDisk.head?).getD {}).config

theorem label_congr {s s' : Node} (_h1 : s'.snapIndex = s.snapIndex) (h2 : s'.snapsDisk = s.snapsDisk) :
    label s' = label s := by unfold label; rw [h2]

/-- The tracking invariant proper (everything but the leader queue). -/
structure Core (s : Node) : Prop where
  /-- at least one snapshot is retained (`Options.SnapshotsRetain ≥ 1`, validated by `New`) -/
  retain : 1 ≤ s.retain
  /-- `snaps.index` is the index of the newest file on disk (the head of the listing), `0` if there is none -/
  snapHead : s.snapIndex = ((s.snapsDisk.head?).map (·.index)).getD 0
  contig : C03.LogContig s.log
  /-- the FSM never runs ahead of the log -/
  fsmLe : s.fsm.index ≤ s.log.last
  /-- the label is the newest configuration at or below the snapshot index -/
  lab : newest s.log (label s) s.snapIndex = label s
  fsmOk : FsmOk s.log (label s) s.snapIndex s.snapTerm s.fsm
  snapOk : SnapOk s.log s.snapsDisk s.snapIndex s.snapTerm

/-- no file on disk is newer than `snaps.index` -/
theorem Core.headLe {s : Node} (c : Core s) : ∀ g, s.snapsDisk.head? = some g → g.index ≤ s.snapIndex := by
  intro g hg
  rw [c.snapHead, hg]; exact Nat.le_refl _

/-- the log-type items in the leader queue are the log entries at their index (the FSM of a leader is fed
with queue items, `fsmApplyItems`) -/
def QM (s : Node) : Prop :=
  ∀ q ∈ s.ldr.queue, isLogEntryTyp q.typ = true → s.log.prev < q.index → s.log.get? q.index = some q.toEntry

/-- what `Core` and `QM` look at -/
def obsT (s : Node) : Nat × List SnapFile × Nat × Nat × NLog × Fsm × List QItem :=
  (s.retain, s.snapsDisk, s.snapIndex, s.snapTerm, s.log, s.fsm, s.ldr.queue)

theorem obsT_eq {s s' : Node} (h : obsT s' = obsT s) :
    s'.retain = s.retain ∧ s'.snapsDisk = s.snapsDisk ∧ s'.snapIndex = s.snapIndex ∧ s'.snapTerm = s.snapTerm ∧
    s'.log = s.log ∧ s'.fsm = s.fsm ∧ s'.ldr.queue = s.ldr.queue := by
  simp only [obsT, Prod.mk.injEq] at h
  exact h

theorem Core.congr6 {s s' : Node} (c : Core s) (e1 : s'.retain = s.retain) (e2 : s'.snapsDisk = s.snapsDisk)
    (e3 : s'.snapIndex = s.snapIndex) (e4 : s'.snapTerm = s.snapTerm) (e5 : s'.log = s.log) (e6 : s'.fsm = s.fsm) :
    Core s' := by
  have el := label_congr e3 e2
  exact ⟨by rw [e1]; exact c.retain, by rw [e2, e3]; exact c.snapHead, by rw [e5]; exact c.contig,
    by rw [e6, e5]; exact c.fsmLe, by rw [e5, el, e3]; exact c.lab, by rw [e5, el, e3, e4, e6]; exact c.fsmOk,
    by rw [e5, e2, e3, e4]; exact c.snapOk⟩

theorem Core.congr {s s' : Node} (c : Core s) (h : obsT s' = obsT s) : Core s' := by
  obtain ⟨e1, e2, e3, e4, e5, e6, _⟩ := obsT_eq h
  exact c.congr6 e1 e2 e3 e4 e5 e6

theorem QM.congr {s s' : Node} (c : QM s) (h : obsT s' = obsT s) : QM s' := by
  obtain ⟨_, _, _, _, e5, _, e7⟩ := obsT_eq h
  unfold QM; rw [e5, e7]; exact c

/-- The invariant of a step that started in `s₀`: the orderings of `Lemmas/Order.lean` and, while the step
has not panicked, `Core` and (flag `g`) `QM`. -/
def TI (s₀ : Node) (b g : Bool) (s : Node) : Prop :=
  Order.Inv s₀ b s ∧ (s.panicked = none → Core s ∧ (g = true → QM s))

variable {s₀ : Node} {b g : Bool}

theorem TI.dropQ {s : Node} (h : TI s₀ b g s) : TI s₀ b false s :=
  ⟨h.1, fun hp => ⟨(h.2 hp).1, fun e => Bool.noConfusion e⟩⟩

theorem TI.weaken {s : Node} (h : TI s₀ true g s) : TI s₀ b g s := ⟨h.1.weaken, h.2⟩

theorem TI.toFalse {s : Node} (h : TI s₀ b g s) : TI s₀ false g s := ⟨h.1.toFalse, h.2⟩

/-- the orderings available while not panicked -/
theorem TI.coreW {s : Node} (h : TI s₀ b g s) (hp : s.panicked = none) : Order.CoreW s := (h.1 hp).1

/-- a state that differs in nothing `Core`/`QM` look at, given its orderings -/
theorem TI.of_obs {s s' : Node} {b' : Bool} (h : TI s₀ b' g s) (ho : Order.Inv s₀ b s') (e : obsT s' = obsT s)
    (hp : s'.panicked = none → s.panicked = none) : TI s₀ b g s' :=
  ⟨ho, fun hp' => ⟨(h.2 (hp hp')).1.congr e, fun hg => ((h.2 (hp hp')).2 hg).congr e⟩⟩

theorem TI.irr {s s' : Node} (h : TI s₀ b g s) (hi : Order.Irr s s') (e : obsT s' = obsT s) : TI s₀ b g s' :=
  h.of_obs (hi.inv h.1) e hi.2

/-! ## primitives that touch nothing of the invariant -/

theorem ti_panic (s : Node) (site : String) : TI s₀ b g (s.panic site) :=
  ⟨Order.inv_panic s site, fun h => absurd h (panic_panicked_ne s site)⟩

theorem obsT_panic (s : Node) (site : String) : obsT (s.panic site) = obsT s := by
  unfold Node.panic; split <;> rfl
theorem obsT_assert (s : Node) (bb : Bool) (site : String) : obsT (s.assert bb site) = obsT s := by
  unfold Node.assert; split
  · rfl
  · exact obsT_panic s site
theorem obsT_reply (s : Node) (t : Nat) (r : String) : obsT (s.reply t r) = obsT s := by
  unfold Node.reply; split <;> rfl
theorem obsT_doClose (s : Node) (r : String) : obsT (s.doClose r) = obsT s := by
  unfold Node.doClose; split <;> rfl
theorem obsT_storeTermVote (s : Node) (t c : Nat) : obsT (s.storeTermVote t c) = obsT s := by
  unfold Node.storeTermVote Node.point; dsimp only; split <;> rfl
theorem obsT_setTerm (s : Node) (t : Nat) : obsT (s.setTerm t) = obsT s := by
  unfold Node.setTerm
  repeat' split
  all_goals first | exact obsT_storeTermVote _ _ _ | exact obsT_panic _ _ | rfl
theorem obsT_setVotedFor (s : Node) (t c : Nat) : obsT (s.setVotedFor t c) = obsT s := by
  unfold Node.setVotedFor
  repeat' split
  all_goals first | exact obsT_storeTermVote _ _ _ | exact obsT_panic _ _ | rfl

theorem ti_assert {s : Node} (bb : Bool) (site : String) (h : TI s₀ b g s) : TI s₀ b g (s.assert bb site) :=
  h.irr (Order.irr_assert s bb site) (obsT_assert s bb site)
theorem ti_reply {s : Node} (t : Nat) (r : String) (h : TI s₀ b g s) : TI s₀ b g (s.reply t r) :=
  h.irr (Order.irr_reply s t r) (obsT_reply s t r)
theorem ti_point {s : Node} (n : String) (h : TI s₀ b g s) : TI s₀ b g (s.point n) := h.irr (Order.irr_point s n) rfl
theorem ti_popOrder {s : Node} (h : TI s₀ b g s) : TI s₀ b g s.popOrder := h.irr (Order.irr_popOrder s) rfl
theorem ti_rpcReply {s : Node} (r) (h : TI s₀ b g s) : TI s₀ b g (s.withRpcReply r) := h.irr (Order.irr_rpcReply s r) rfl
theorem ti_ret {s : Node} (r : Nat) (h : TI s₀ b g s) : TI s₀ b g (s.ret r) := h.irr (Order.irr_ret s r) rfl
theorem ti_setRole {s : Node} (r : Role) (h : TI s₀ b g s) : TI s₀ b g (s.setRole r) := h.irr (Order.irr_setRole s r) rfl
theorem ti_setLeader {s : Node} (l : Nat) (h : TI s₀ b g s) : TI s₀ b g (s.setLeader l) := h.irr (Order.irr_setLeader s l) rfl
theorem ti_votesNeeded {s : Node} (v : Int) (h : TI s₀ b g s) : TI s₀ b g (s.withVotesNeeded v) :=
  h.irr (Order.irr_votesNeeded s v) rfl
theorem ti_candTransfer {s : Node} (v : Bool) (h : TI s₀ b g s) : TI s₀ b g (s.withCandTransfer v) :=
  h.irr (Order.irr_candTransfer s v) rfl
theorem ti_snapPending {s : Node} (v) (h : TI s₀ b g s) : TI s₀ b g (s.withSnapPending v) :=
  h.irr (Order.irr_snapPending s v) rfl
theorem ti_doClose {s : Node} (r : String) (h : TI s₀ b g s) : TI s₀ b g (s.doClose r) :=
  h.irr (Order.irr_doClose s r) (obsT_doClose s r)
theorem ti_setTerm {s : Node} (t : Nat) (h : TI s₀ b g s) : TI s₀ b g (s.setTerm t) :=
  h.irr (Order.irr_setTerm s t) (obsT_setTerm s t)
theorem ti_setVotedFor {s : Node} (t c : Nat) (h : TI s₀ b g s) : TI s₀ b g (s.setVotedFor t c) :=
  h.irr (Order.irr_setVotedFor s t c) (obsT_setVotedFor s t c)

/-- replacing the leader struct by one with the same compaction bound and the same queue -/
theorem ti_ldr_same {s : Node} {l : Leader} (h : TI s₀ b g s) (hl : l.removeLTE = s.ldr.removeLTE)
    (hq : l.queue = s.ldr.queue) : TI s₀ b g (s.withLdr l) :=
  h.irr (Order.irr_ldr s l hl) (by unfold obsT Node.withLdr; dsimp only; rw [hq])

/-- replacing the leader struct: the compaction bound stays at or below the snapshot index, the queue shrinks -/
theorem ti_ldr {s : Node} {l : Leader} (h : TI s₀ b g s) (hl : s.panicked = none → l.removeLTE ≤ s.snapIndex)
    (hq : ∀ q ∈ l.queue, q ∈ s.ldr.queue) : TI s₀ b g (s.withLdr l) :=
  ⟨Order.inv_ldr h.1 hl, fun hp => ⟨(h.2 hp).1.congr6 rfl rfl rfl rfl rfl rfl, fun hg q hq' => (h.2 hp).2 hg q (hq q hq')⟩⟩

theorem ti_changeConfigR {s : Node} (cfg : Config) (h : TI s₀ b g s)
    (hg : s.panicked = none → s.configs.latest.index ≤ cfg.index ∧ cfg.index ≤ s.lastLogIndex) :
    TI s₀ b g (s.changeConfigR cfg) :=
  h.of_obs (Order.inv_changeConfigR cfg h.1 hg) (by rw [changeConfigR_eq]; rfl)
    (fun hp => by rw [← (changeConfigR_fields s cfg).2.2.2.2.2.1]; exact hp)

theorem ti_commitConfig {s : Node} (h : TI s₀ b g s) : TI s₀ b g s.commitConfig :=
  h.of_obs (Order.inv_commitConfig h.1) (by rw [commitConfig_eq]; rfl)
    (fun hp => by rw [← (commitConfig_other s).2.2.2.2.2.2.2.2.2.2]; exact hp)

theorem ti_revertConfig {s : Node} (h : TI s₀ b g s)
    (hg : s.panicked = none → s.configs.committed.index ≤ s.lastLogIndex) : TI s₀ b g s.revertConfig :=
  h.of_obs (Order.inv_revertConfig h.1 hg) rfl id

theorem obsT_afterConfigCommit (s : Node) : obsT s.afterConfigCommit = obsT s := by
  unfold Node.afterConfigCommit Node.closeIfRemoved Node.stepDownIfNotVoter
  repeat' split
  all_goals first
    | rfl
    | exact obsT_doClose _ _

theorem ti_withCommitIndex {s : Node} {b' : Bool} (i : Nat) (h : TI s₀ b g s)
    (hg : s.panicked = none → s.fsm.index ≤ i ∧ (b' = true → i ≤ s.lastLogIndex)) :
    TI s₀ b' g (s.withCommitIndex i) :=
  h.of_obs (Order.inv_withCommitIndex i h.1 hg) rfl id

theorem ti_setCommitIndexR {s : Node} {b' : Bool} (i : Nat) (h : TI s₀ b g s)
    (hg : s.panicked = none → s.fsm.index ≤ i ∧ (b' = true → i ≤ s.lastLogIndex)) :
    TI s₀ b' g (s.setCommitIndexR i).1 := by
  refine h.of_obs (Order.inv_setCommitIndexR i h.1 hg) ?_
    (fun hp => by rw [← Order.setCommitIndexR_panicked s i]; exact hp)
  unfold Node.setCommitIndexR
  split
  · rw [obsT_afterConfigCommit, commitConfig_eq]; rfl
  · rfl

theorem ti_snapResult {s : Node} (v : Option SnapRes) (h : TI s₀ b g s)
    (hg : s.panicked = none → ∀ rs, v = some rs → rs.index ≤ s.snapIndex) : TI s₀ b g (s.withSnapResult v) :=
  h.of_obs (Order.inv_snapResult v h.1 hg) rfl id

theorem ti_withLast {s : Node} (i t : Nat) (h : TI s₀ b g s) (hg : s.panicked = none → s.lastLogIndex = i) :
    TI s₀ b g (s.withLast i t) :=
  h.of_obs (Order.inv_withLast i t h.1 hg) rfl id


/-! ## the log operations -/

/-- the log changed, but not at or below `fsm.index` -/
theorem Core.of_log {s s' : Node} (c : Core s) (e1 : s'.retain = s.retain) (e2 : s'.snapsDisk = s.snapsDisk)
    (e3 : s'.snapIndex = s.snapIndex) (e4 : s'.snapTerm = s.snapTerm) (e6 : s'.fsm = s.fsm)
    (hsi : s.snapIndex ≤ s.fsm.index) (hp : s'.log.prev = s.log.prev)
    (he : s'.log.entries.take (s.fsm.index - s.log.prev) = s.log.entries.take (s.fsm.index - s.log.prev))
    (hc : C03.LogContig s'.log) (hl : s.fsm.index ≤ s'.log.last) : Core s' := by
  have el := label_congr e3 e2
  refine ⟨by rw [e1]; exact c.retain, by rw [e2, e3]; exact c.snapHead, hc, by rw [e6]; exact hl, ?_, ?_, ?_⟩
  · rw [el, e3]
    have : pre s'.log s.snapIndex = pre s.log s.snapIndex := pre_congr hp (take_le_congr he (by omega))
    unfold newest; rw [this]; exact c.lab
  · rw [el, e3, e4, e6]; exact c.fsmOk.of_log hp he
  · rw [e2, e3, e4]; exact c.snapOk.of_log hp (take_le_congr he (by omega))

theorem QM.of_log {s s' : Node} (h : QM s) (hq : s'.ldr.queue = s.ldr.queue) (hp : s'.log.prev = s.log.prev)
    (hg : ∀ i x, s.log.get? i = some x → s'.log.get? i = some x) : QM s' := by
  intro q hq' ht hlt
  rw [hq] at hq'
  exact hg _ _ (h q hq' ht (by omega))

theorem get?_append_of_some (l : NLog) (e : Entry) (roll : Bool) (i : Nat) (x : Entry) (h : l.get? i = some x) :
    (l.append e roll).get? i = some x := by
  obtain ⟨p1, p2⟩ := C03.append_parts l e roll
  unfold NLog.get? at h ⊢
  rw [p1, p2]
  split at h
  · rename_i hlt
    rw [if_pos hlt]
    obtain ⟨hk, _⟩ := List.getElem?_eq_some_iff.mp h
    rw [List.getElem?_append_left hk]; exact h
  · cases h

theorem get?_append_new (l : NLog) (e : Entry) (roll : Bool) : (l.append e roll).get? (l.last + 1) = some e := by
  obtain ⟨p1, p2⟩ := C03.append_parts l e roll
  unfold NLog.get? NLog.last
  rw [p1, p2, if_pos (by omega)]
  have : l.prev + l.entries.length + 1 - l.prev - 1 = l.entries.length := by omega
  rw [this]
  simp

theorem get?_some_le {l : NLog} {i : Nat} {e : Entry} (h : l.get? i = some e) : l.prev < i ∧ i ≤ l.last := by
  unfold NLog.get? at h
  split at h
  · obtain ⟨hk, _⟩ := List.getElem?_eq_some_iff.mp h
    unfold NLog.last; omega
  · cases h

/-- the record update of `storage.appendEntry`; a queue item may be the entry being appended -/
theorem ti_appendRaw {s : Node} {g' : Bool} (e : Entry) (roll : Bool) (h : TI s₀ b g' s)
    (hg : s.panicked = none → e.index = s.lastLogIndex + 1 ∧ (roll = true → s.log.lastSegPrev ≠ e.index - 1))
    (hq : g = true → s.panicked = none → ∀ q ∈ s.ldr.queue, isLogEntryTyp q.typ = true → s.log.prev < q.index →
      s.log.get? q.index = some q.toEntry ∨ (q.index = e.index ∧ q.toEntry = e)) :
    TI s₀ b g { s with log := s.log.append e roll, lastLogIndex := e.index, lastLogTerm := e.term } := by
  refine ⟨Order.inv_appendRaw e roll h.1 hg, fun hp => ?_⟩
  have hp' : s.panicked = none := hp
  obtain ⟨c, _⟩ := h.2 hp'
  have cw := h.coreW hp'
  obtain ⟨he, _⟩ := hg hp'
  obtain ⟨p1, p2⟩ := C03.append_parts s.log e roll
  have hfl := c.fsmLe
  refine ⟨c.of_log rfl rfl rfl rfl rfl cw.snap_le_applied p1 ?_
    (c.contig.append e roll (by rw [← cw.last_eq]; exact he)) ?_, fun hg' q hq' ht hlt => ?_⟩
  · show (s.log.append e roll).entries.take _ = _
    rw [p2, List.take_append_of_le_length]
    unfold NLog.last at hfl; omega
  · show s.fsm.index ≤ (s.log.append e roll).last
    rw [Order.last_append]; omega
  · have hlt' : s.log.prev < q.index := by rw [← p1]; exact hlt
    show (s.log.append e roll).get? q.index = some q.toEntry
    rcases hq hg' hp' q hq' ht hlt' with h1 | ⟨h1, h2⟩
    · exact get?_append_of_some _ _ _ _ _ h1
    · rw [h1, h2, he, cw.last_eq]; exact get?_append_new _ _ _

theorem ti_appendEntry {s : Node} {g' : Bool} (e : Entry) (h : TI s₀ b g' s)
    (hq : g = true → s.panicked = none → ∀ q ∈ s.ldr.queue, isLogEntryTyp q.typ = true → s.log.prev < q.index →
      s.log.get? q.index = some q.toEntry ∨ (q.index = e.index ∧ q.toEntry = e)) :
    TI s₀ b g (s.appendEntry e) := by
  unfold Node.appendEntry
  dsimp only
  obtain ⟨e1, e2, _⟩ := Order.obs_eq (Order.irr_assert s (e.index == s.lastLogIndex + 1) "assert.appendEntry").1
  obtain ⟨_, _, _, _, t5, _, t7⟩ := obsT_eq (obsT_assert s (e.index == s.lastLogIndex + 1) "assert.appendEntry")
  refine ti_appendRaw e _ (ti_assert _ _ h) (fun hp => ?_) (fun hg hp => ?_)
  · have hb := Order.assert_true hp
    rw [e1, e2]
    refine ⟨by simpa using hb, fun hroll => ?_⟩
    simp only [Bool.and_eq_true, bne_iff_ne, ne_eq] at hroll
    exact hroll.2
  · rw [t5, t7]
    exact hq hg ((Order.irr_assert _ _ _).2 hp)

theorem ti_appendEntry' {s : Node} (e : Entry) (h : TI s₀ b g s) : TI s₀ b g (s.appendEntry e) :=
  ti_appendEntry e h (fun hg hp q hq ht hlt => Or.inl ((h.2 hp).2 hg q hq ht hlt))

theorem contig_commitN {l : NLog} (hc : C03.LogContig l) (n : Nat) : C03.LogContig (l.commitN n) := by
  unfold NLog.commitN; split <;> exact hc

theorem ti_commitLog {s : Node} (n : Nat) (h : TI s₀ b g s) : TI s₀ b g (s.commitLog n) := by
  refine ⟨Order.inv_commitLog n h.1, fun hp => ?_⟩
  have hp' : s.panicked = none := hp
  obtain ⟨c, hq⟩ := h.2 hp'
  have cw := h.coreW hp'
  obtain ⟨e1, e2, e3⟩ := Order.commitN_same s.log n
  have hlast : (s.log.commitN n).last = s.log.last := by unfold NLog.last; rw [e1, e2]
  have hget : ∀ i, (s.log.commitN n).get? i = s.log.get? i := by intro i; unfold NLog.get?; rw [e1, e2]
  refine ⟨c.of_log (s' := s.commitLog n) rfl rfl rfl rfl rfl cw.snap_le_applied e1 ?_ (contig_commitN c.contig n) ?_,
    fun hg => (hq hg).of_log rfl e1 (fun i x hx => ?_)⟩
  · show (s.log.commitN n).entries.take _ = _
    rw [e2]
  · show s.fsm.index ≤ (s.log.commitN n).last
    rw [hlast]; exact c.fsmLe
  · show (s.log.commitN n).get? i = _
    rw [hget]; exact hx

theorem compacted_removeLTE (l : NLog) (i : Nat) (h : C09.SegsOK l) : Compacted l (l.removeLTE i) :=
  ⟨(C09.removeLTE_whole_segments l i h).2.2.1, by rw [C09.removeLTE_entries, C09.removeLTE_prev]⟩

/-- `Raft.compactLog` at or below the snapshot index: the label stands in for the dropped configurations -/
theorem ti_compactLog {s : Node} (i : Nat) (h : TI s₀ b g s) (hg : s.panicked = none → i ≤ s.snapIndex) :
    TI s₀ b g (s.compactLog i) := by
  refine ⟨Order.inv_compactLog i h.1 hg, fun hp => ?_⟩
  have hp' : s.panicked = none := hp
  obtain ⟨c, hq⟩ := h.2 hp'
  have cw := h.coreW hp'
  obtain ⟨_, _, hge, hor, hl, hget, hk⟩ := C09.removeLTE_whole_segments s.log i cw.segs
  have hcomp := compacted_removeLTE s.log i cw.segs
  have hi := hg hp'
  have hps : (s.log.removeLTE i).prev ≤ s.snapIndex := by
    have := cw.prev_le_snap
    rcases hor with e | e <;> omega
  have el : label (s.compactLog i) = label s := label_congr rfl rfl
  refine ⟨⟨c.retain, c.snapHead, ?_, ?_, ?_, ?_,
    ⟨fun hlt => by
      have hlt' : (s.log.removeLTE i).prev < s.snapIndex := hlt
      show ((s.log.removeLTE i).get? s.snapIndex).map (·.term) = some s.snapTerm
      rw [hget _ hlt']; exact c.snapOk.termLog (by omega), c.snapOk.headTerm, c.snapOk.zero⟩⟩, fun hg' q hq' ht hlt => ?_⟩
  · exact c.contig.removeLTE i cw.segs.head
  · show s.fsm.index ≤ (s.log.removeLTE i).last
    rw [hl]; exact c.fsmLe
  · rw [el]; exact lab_compacted hcomp hps c.lab
  · rw [el]; exact c.fsmOk.compacted hcomp hps cw.snap_le_applied c.lab
  · have hlt' : (s.log.removeLTE i).prev < q.index := hlt
    show (s.log.removeLTE i).get? q.index = _
    rw [hget _ hlt']
    exact hq hg' q hq' ht (by omega)

/-! ### truncation (follower) -/

theorem core_removeGTE {s : Node} (c : Core s) (cw : Order.CoreW s) (i pt : Nat) (h1 : s.fsm.index < i)
    (h2 : i ≤ s.lastLogIndex) : Core (s.removeGTE i pt) := by
  have hprev : s.log.prev < i := by have := cw.prev_le_snap; have := cw.snap_le_applied; omega
  refine c.of_log (s' := s.removeGTE i pt) rfl rfl rfl rfl rfl cw.snap_le_applied rfl ?_ (c.contig.removeGTE i) ?_
  · show ((s.log.entries.take (i - 1 - s.log.prev)).take _) = _
    rw [List.take_take]; congr 1; omega
  · show s.fsm.index ≤ (s.log.removeGTE i).last
    rw [Order.last_removeGTE _ _ hprev (by rw [← cw.last_eq]; exact h2)]; omega

theorem resolveConflict_sticky (s : Node) (ne : Entry) (pt : Nat) (hp : (s.resolveConflict ne pt).panicked = none) :
    s.panicked = none := by
  unfold Node.resolveConflict at hp
  split at hp
  · split at hp
    · exact absurd hp (panic_panicked_ne _ _)
    · dsimp only at hp; split at hp <;> exact hp
  · exact hp

theorem core_resolveConflict {s : Node} (c : Core s) (cw : Order.CoreW s) (ne : Entry) (pt : Nat)
    (hg : ne.index ≤ s.lastLogIndex → s.fsm.index < ne.index) : Core (s.resolveConflict ne pt) := by
  unfold Node.resolveConflict
  split
  · rename_i hle
    split
    · exact c.congr (obsT_panic _ _)
    · dsimp only
      have := core_removeGTE c cw ne.index pt (hg hle) hle
      split
      · exact this.congr6 rfl rfl rfl rfl rfl rfl
      · exact this
  · exact c

/-- "delete the conflicting entry and all that follow it": above the applied index the FSM's cache is not
concerned. The queue (of a deposed leader) is not tracked any more. -/
theorem ti_resolveConflict {s : Node} (ne : Entry) (pt : Nat) (h : TI s₀ true g s)
    (hg : s.panicked = none → ne.index ≤ s.lastLogIndex →
      s.snapIndex < ne.index ∧ s.commitIndex < ne.index ∧ s.configs.committed.index < ne.index) :
    TI s₀ true false (s.resolveConflict ne pt) := by
  refine ⟨Order.inv_resolveConflict ne pt h.1 hg, fun hp => ⟨?_, fun e => Bool.noConfusion e⟩⟩
  have hp' := resolveConflict_sticky s ne pt hp
  have cw := h.coreW hp'
  exact core_resolveConflict (h.2 hp').1 cw ne pt (fun hle => by
    have := (hg hp' hle).2.1; have := cw.applied_le_commit; omega)

/-! ## the FSM goroutine -/

/-- what `fsmApply` does not touch -/
def rest (s : Node) : Nat × List SnapFile × Nat × Nat × NLog × List QItem :=
  (s.retain, s.snapsDisk, s.snapIndex, s.snapTerm, s.log, s.ldr.queue)

theorem rest_eq {s s' : Node} (h : rest s' = rest s) :
    s'.retain = s.retain ∧ s'.snapsDisk = s.snapsDisk ∧ s'.snapIndex = s.snapIndex ∧ s'.snapTerm = s.snapTerm ∧
    s'.log = s.log ∧ s'.ldr.queue = s.ldr.queue := by
  simp only [rest, Prod.mk.injEq] at h
  exact h

theorem fsmFrame_rest : FsmFrame rest :=
  ⟨fun s site => by unfold Node.panic; split <;> rfl, fun s t r => by unfold Node.reply; split <;> rfl,
   fun _ _ => rfl⟩

/-- the FSM moved, nothing else did -/
theorem Core.of_fsm {s s' : Node} (c : Core s) (hr : rest s' = rest s) (hle : s'.fsm.index ≤ s.log.last)
    (hf : FsmOk s.log (label s) s.snapIndex s.snapTerm s'.fsm) : Core s' := by
  obtain ⟨e1, e2, e3, e4, e5, _⟩ := rest_eq hr
  have el := label_congr e3 e2
  exact ⟨by rw [e1]; exact c.retain, by rw [e2, e3]; exact c.snapHead, by rw [e5]; exact c.contig,
    by rw [e5]; exact hle, by rw [e5, el, e3]; exact c.lab, by rw [e5, el, e3, e4]; exact hf,
    by rw [e5, e2, e3, e4]; exact c.snapOk⟩

theorem QM.congr_pub {s : Node} {f : SnapFile} (h : QM s) : QM (s.publishSnapshot f) := h

theorem QM.of_rest {s s' : Node} (h : QM s) (hr : rest s' = rest s) : QM s' := by
  obtain ⟨_, _, _, _, e5, e6⟩ := rest_eq hr
  unfold QM; rw [e5, e6]; exact h

/-- `fsmApplyLogTo`: nothing but the FSM moves; it either stays or applies the range `(fsm.index, upto]` -/
theorem fsmApplyLogTo_cases (s : Node) (upto : Nat) :
    rest (s.fsmApplyLogTo upto) = rest s ∧
    ((s.fsmApplyLogTo upto).fsm = s.fsm ∨
     (s.fsm.index < upto ∧ s.log.prev ≤ s.fsm.index ∧ (C12.applyRange s upto).length = upto - s.fsm.index ∧
      (s.fsmApplyLogTo upto).fsm.index = upto ∧
      (s.fsmApplyLogTo upto).fsm.term = (((C12.applyRange s upto).getLast?).map (·.term)).getD s.fsm.term ∧
      (s.fsmApplyLogTo upto).fsm.config =
        (((C12.applyRange s upto).filterMap Entry.config?).getLast?).getD s.fsm.config)) := by
  refine ⟨fsmFrame_rest.fsmApplyLogTo_eq s upto, ?_⟩
  unfold Node.fsmApplyLogTo
  by_cases c1 : upto ≤ s.fsm.index
  · rw [if_pos c1]; exact Or.inl rfl
  · rw [if_neg c1]
    by_cases c2 : s.fsm.index < s.log.prev
    · rw [if_pos c2, panic_eq]; exact Or.inl rfl
    · rw [if_neg c2]
      dsimp only
      by_cases c3 : (C12.applyRange s upto).length ≠ upto - s.fsm.index
      · rw [if_pos (by exact c3), panic_eq]; exact Or.inl rfl
      · rw [if_neg (by exact c3)]
        simp only [panic_eq, Node.withFsm]
        refine Or.inr ⟨by omega, by omega, by simpa using c3, ?_, ?_, ?_⟩ <;>
          first | trivial | rfl | (split <;> rfl)

theorem core_fsmApplyLogTo (s : Node) (upto : Nat) (c : Core s) (hprev : s.log.prev ≤ s.fsm.index)
    (hsi : s.snapIndex ≤ s.fsm.index) :
    Core (s.fsmApplyLogTo upto) ∧ s.fsm.index ≤ (s.fsmApplyLogTo upto).fsm.index := by
  obtain ⟨hr, hc⟩ := fsmApplyLogTo_cases s upto
  rcases hc with hc | ⟨h1, h2, h3, h4, h5, h6⟩
  · exact ⟨c.of_fsm hr (by rw [hc]; exact c.fsmLe) (by rw [hc]; exact c.fsmOk), by rw [hc]; exact Nat.le_refl _⟩
  · have hle : upto ≤ s.log.last := by
      unfold C12.applyRange at h3
      rw [List.length_take, List.length_drop] at h3
      unfold NLog.last; omega
    exact ⟨c.of_fsm hr (by rw [h4]; exact hle)
      (c.fsmOk.applyRange c.contig hprev hsi upto h1 hle _ h4 h5 h6), by omega⟩

theorem config?_none_of_not_log (q : QItem) (h : isLogEntryTyp q.typ ≠ true) : q.toEntry.config? = none := by
  unfold Entry.config?
  rw [if_neg]
  intro e
  apply h
  show isLogEntryTyp q.typ = true
  have : q.typ = etConfig := e
  rw [this]; rfl

theorem itemStep_spec (s : Node) (q : QItem) :
    (C12.itemStep s q).fsm.config = (q.toEntry.config?).getD s.fsm.config ∧
    (C12.itemStep s q).fsm.index = (if isLogEntryTyp q.typ = true then q.index else s.fsm.index) ∧
    (C12.itemStep s q).fsm.term = (if isLogEntryTyp q.typ = true then q.term else s.fsm.term) ∧
    ((C12.itemStep s q).panicked = none → s.panicked = none ∧ q.index = s.fsm.index + 1) := by
  have e : (s.assert (q.index == s.fsm.index + 1) "fsm.assertNext").fsm = s.fsm :=
    (obsT_eq (obsT_assert _ _ _)).2.2.2.2.2.1
  have hpan : (C12.itemStep s q).panicked = (s.assert (q.index == s.fsm.index + 1) "fsm.assertNext").panicked := by
    unfold C12.itemStep
    simp only [reply_eq, Node.withFsm]
    cases q.toEntry.config? <;> dsimp only <;> (repeat' split) <;> rfl
  refine ⟨C12.itemStep_config s q, ?_, ?_, fun hp => ?_⟩
  · unfold C12.itemStep
    simp only [reply_eq, Node.withFsm]
    cases q.toEntry.config? <;> dsimp only <;> (repeat' split) <;> first | rfl | (rw [e]) | simp_all
  · unfold C12.itemStep
    simp only [reply_eq, Node.withFsm]
    cases q.toEntry.config? <;> dsimp only <;> (repeat' split) <;> first | rfl | (rw [e]) | simp_all
  · rw [hpan] at hp
    exact ⟨(Order.irr_assert _ _ _).2 hp, by simpa using Order.assert_true hp⟩

theorem core_itemStep (s : Node) (q : QItem) (hp : (C12.itemStep s q).panicked = none) (c : Core s)
    (hprev : s.log.prev ≤ s.fsm.index) (hsi : s.snapIndex ≤ s.fsm.index)
    (hq : isLogEntryTyp q.typ = true → s.log.prev < q.index → s.log.get? q.index = some q.toEntry) :
    Core (C12.itemStep s q) ∧ s.fsm.index ≤ (C12.itemStep s q).fsm.index := by
  obtain ⟨h1, h2, h3, h4⟩ := itemStep_spec s q
  obtain ⟨_, hidx⟩ := h4 hp
  have hr : rest (C12.itemStep s q) = rest s := fsmFrame_rest.fsmApplyItems_eq s [q]
  by_cases ht : isLogEntryTyp q.typ = true
  · rw [if_pos ht] at h2 h3
    have hget := hq ht (by omega)
    rw [hidx] at hget
    have hle := (get?_some_le hget).2
    exact ⟨c.of_fsm hr (by rw [h2, hidx]; exact hle)
      (c.fsmOk.applyOne c.contig hprev hsi q.toEntry hget _ (by rw [h2, hidx]) (by rw [h3]; rfl) h1), by rw [h2]; omega⟩
  · rw [if_neg ht] at h2 h3
    rw [config?_none_of_not_log q ht] at h1
    exact ⟨c.of_fsm hr (by rw [h2]; exact c.fsmLe) (c.fsmOk.congr h2 h3 h1), by rw [h2]; exact Nat.le_refl _⟩

theorem core_fsmApplyItems (qs : List QItem) : ∀ (s : Node), (s.fsmApplyItems qs).panicked = none → Core s →
    s.log.prev ≤ s.fsm.index → s.snapIndex ≤ s.fsm.index →
    (∀ q ∈ qs, isLogEntryTyp q.typ = true → s.log.prev < q.index → s.log.get? q.index = some q.toEntry) →
    Core (s.fsmApplyItems qs) := by
  induction qs with
  | nil => intro s _ c _ _ _; exact c
  | cons q qs ih =>
    intro s hp c hprev hsi hit
    rw [C12.fsmApplyItems_cons] at hp ⊢
    have hp1 : (C12.itemStep s q).panicked = none :=
      (Order.sticky_closed (C12.itemStep s q)).fsmApplyItems_inv _ qs (fun h => h) hp
    obtain ⟨c1, hmono⟩ := core_itemStep s q hp1 c hprev hsi (hit q (List.mem_cons_self ..))
    have hr : rest (C12.itemStep s q) = rest s := fsmFrame_rest.fsmApplyItems_eq s [q]
    obtain ⟨_, _, e3, _, e5, _⟩ := rest_eq hr
    refine ih _ hp c1 (by rw [e5]; omega) (by rw [e3]; omega) (fun x hx => ?_)
    rw [e5]; exact hit x (List.mem_cons_of_mem _ hx)

theorem core_mid (s : Node) (upto : Nat) (items : List QItem)
    (hp : ((s.fsmApplyLogTo upto).fsmApplyItems items).panicked = none) (c : Core s)
    (hprev : s.log.prev ≤ s.fsm.index) (hsi : s.snapIndex ≤ s.fsm.index)
    (hit : ∀ q ∈ items, isLogEntryTyp q.typ = true → s.log.prev < q.index → s.log.get? q.index = some q.toEntry) :
    Core ((s.fsmApplyLogTo upto).fsmApplyItems items) := by
  obtain ⟨c1, hmono⟩ := core_fsmApplyLogTo s upto c hprev hsi
  obtain ⟨_, _, e3, _, e5, _⟩ := rest_eq (fsmApplyLogTo_cases s upto).1
  refine core_fsmApplyItems items _ hp c1 (by rw [e5]; omega) (by rw [e3]; omega) (fun q hq' => ?_)
  rw [e5]; exact hit q hq'

/-- **`fsmApply` keeps the FSM's cache in step with the applied prefix**, provided the items handed over are
the log entries at their index (`hit`; trivially so on a follower: `items = []`). -/
theorem ti_fsmApply {s : Node} (items : List QItem) (h : TI s₀ b g s)
    (hit : s.panicked = none → ∀ q ∈ items, isLogEntryTyp q.typ = true → s.log.prev < q.index →
      s.log.get? q.index = some q.toEntry) :
    TI s₀ true g (s.fsmApply items) := by
  refine ⟨Order.inv_fsmApply items h.1, fun hp => ?_⟩
  obtain ⟨hs, hle, hfi, _⟩ := Order.fsmApply_ok s items hp
  obtain ⟨c, hq⟩ := h.2 hs
  have cw := h.coreW hs
  have hr : rest (s.fsmApply items) = rest s := fsmFrame_rest.fsmApply_eq s items
  have hprev : s.log.prev ≤ s.fsm.index := by have := cw.prev_le_snap; have := cw.snap_le_applied; omega
  have hfsm : (s.fsmApply items).fsm = (Order.fsmMid s items).fsm ∧ (Order.fsmMid s items).panicked = none := by
    rw [Order.fsmApply_unfold] at hp ⊢
    split at hp
    · exact absurd hp (panic_panicked_ne _ _)
    · rename_i h1
      rw [if_neg h1]
      split at hp
      · exact absurd hp (panic_panicked_ne _ _)
      · rename_i h2
        rw [if_neg h2]
        exact ⟨(obsT_eq (obsT_assert _ _ _)).2.2.2.2.2.1, (Order.irr_assert _ _ _).2 hp⟩
  have hmid : Core (Order.fsmMid s items) :=
    core_mid s _ items hfsm.2 c hprev cw.snap_le_applied (hit hs)
  have hrm : rest (Order.fsmMid s items) = rest s := by
    unfold Order.fsmMid
    rw [fsmFrame_rest.fsmApplyItems_eq, fsmFrame_rest.fsmApplyLogTo_eq]
  obtain ⟨m1, m2, m3, m4, m5, _⟩ := rest_eq hrm
  have cm : Core s := c
  refine ⟨?_, fun hg => (hq hg).of_rest hr⟩
  have elm : label (Order.fsmMid s items) = label s := label_congr m3 m2
  refine c.of_fsm hr ?_ ?_
  · rw [hfsm.1, ← m5]; exact hmid.fsmLe
  · rw [hfsm.1]
    have := hmid.fsmOk
    rw [m5, elm, m3, m4] at this
    exact this

theorem ti_applyCommitted {s : Node} (h : TI s₀ b g s) : TI s₀ true g s.applyCommitted :=
  ti_fsmApply [] h (fun _ q hq => by cases hq)

theorem splitQueue_mem (ci : Nat) (l : List QItem) :
    (∀ q ∈ (splitQueue ci l).1, q ∈ l) ∧ (∀ q ∈ (splitQueue ci l).2, q ∈ l) := by
  induction l with
  | nil => unfold splitQueue; exact ⟨fun q h => h, fun q h => h⟩
  | cons x xs ih =>
    unfold splitQueue
    split
    · dsimp only
      refine ⟨fun q hq => ?_, fun q hq => List.mem_cons_of_mem _ (ih.2 q hq)⟩
      rcases List.mem_cons.mp hq with e | e
      · rw [e]; exact List.mem_cons_self ..
      · exact List.mem_cons_of_mem _ (ih.1 q e)
    · exact ⟨fun q h => (by cases h), fun q h => h⟩

/-- `leader.applyCommitted`: the committed part of the queue is handed to the FSM — it matches the log (`QM`) -/
theorem ti_applyCommittedL {s : Node} (h : TI s₀ b true s) : TI s₀ true true s.applyCommittedL := by
  unfold Node.applyCommittedL
  dsimp only
  exact ti_fsmApply _ (ti_ldr h (fun hp => (h.coreW hp).removeLTE_le) (splitQueue_mem _ _).2)
    (fun hp q hq => (h.2 hp).2 rfl q ((splitQueue_mem _ _).1 q hq))


/-! ## the mutually recursive leader block -/

theorem ti_setRepl {s : Node} (r : Repl) (h : TI s₀ b g s) : TI s₀ b g (s.setRepl r) := by
  unfold Node.setRepl; exact ti_ldr_same h rfl rfl

theorem ti_addReplication {s : Node} (n : CNode) (h : TI s₀ b g s) : TI s₀ b g (s.addReplication n) := by
  unfold Node.addReplication
  apply ti_setRepl
  split
  · exact ti_assert _ _ h
  · exact ti_panic _ _

theorem ti_notifyFlr {s : Node} (h : TI s₀ b g s) : TI s₀ b g s.notifyFlr := by
  unfold Node.notifyFlr; split
  · exact h
  · split
    · exact h
    · exact ti_panic _ _

theorem ti_beginFinishedRounds {s : Node} (h : TI s₀ b g s) : TI s₀ b g s.beginFinishedRounds := by
  unfold Node.beginFinishedRounds; exact ti_ldr_same h rfl rfl

theorem foldl_ti {β : Type} (f : Node → β → Node) (hf : ∀ s x, TI s₀ b g s → TI s₀ b g (f s x))
    (xs : List β) (s : Node) (hs : TI s₀ b g s) : TI s₀ b g (xs.foldl f s) := by
  induction xs generalizing s with
  | nil => exact hs
  | cons x xs ih => exact ih _ (hf _ _ hs)

/-- queueing an item that is not a log entry (read, barrier) -/
theorem ti_push {s : Node} (q' : QItem) (h : TI s₀ b true s) (hq : isLogEntryTyp q'.typ ≠ true) :
    TI s₀ b true (s.withLdr { s.ldr with queue := s.ldr.queue ++ [q'] }) :=
  ⟨Order.inv_ldr_same h.1 rfl, fun hp => ⟨(h.2 hp).1.congr6 rfl rfl rfl rfl rfl rfl, fun _ x hx ht hlt => by
    rcases List.mem_append.mp hx with e | e
    · exact (h.2 hp).2 rfl x e ht hlt
    · rw [List.mem_singleton.mp e] at ht; exact absurd ht hq⟩⟩

/-- queueing a log-entry item and appending it to the log: the new item is the new entry -/
theorem ti_push_append {s : Node} (q' : QItem) (h : TI s₀ b true s) :
    TI s₀ b true ((s.withLdr { s.ldr with queue := s.ldr.queue ++ [q'] }).appendEntry q'.toEntry) := by
  have h1 : TI s₀ b false (s.withLdr { s.ldr with queue := s.ldr.queue ++ [q'] }) :=
    ⟨Order.inv_ldr_same h.1 rfl, fun hp => ⟨(h.2 hp).1.congr6 rfl rfl rfl rfl rfl rfl, fun e => Bool.noConfusion e⟩⟩
  refine ti_appendEntry q'.toEntry h1 (fun _ hp x hx ht hlt => ?_)
  rcases List.mem_append.mp hx with e | e
  · exact Or.inl ((h.2 hp).2 rfl x e ht hlt)
  · rw [List.mem_singleton.mp e]; exact Or.inr ⟨rfl, rfl⟩

/-- The leader block preserves the invariant (queue matching included), by induction on the recursion budget;
the structure follows `Order.block`. -/
theorem block (s₀ : Node) : ∀ fuel : Nat, ∀ b : Bool,
    (∀ s bt, TI s₀ b true s → TI s₀ b true (storeEntry fuel s bt)) ∧
    (∀ s bt, TI s₀ b true s → TI s₀ b true (storeItems fuel s bt)) ∧
    (∀ s c, TI s₀ b true s → (s.panicked = none → s.configs.latest.index ≤ c.index ∧ c.index ≤ s.lastLogIndex) →
      TI s₀ b true (changeConfigL fuel s c)) ∧
    (∀ s t c, TI s₀ b true s → TI s₀ b true (doChangeConfig fuel s t c)) ∧
    (∀ s t c, TI s₀ b true s → TI s₀ b true (checkConfigActions fuel s t c)) ∧
    (∀ s t c id, TI s₀ b true s → TI s₀ b true (checkConfigAction fuel s t c id)) ∧
    (∀ s i, TI s₀ b true s → i > s.commitIndex → TI s₀ false true (setCommitIndexL fuel s i)) ∧
    (∀ s, TI s₀ b true s → TI s₀ b true (onMajorityCommit fuel s)) := by
  intro fuel
  induction fuel with
  | zero =>
    intro b
    refine ⟨?_, ?_, ?_, ?_, ?_, ?_, ?_, ?_⟩ <;> intros <;> (try unfold storeItems) <;>
      (try unfold storeEntry) <;> (try unfold changeConfigL) <;> (try unfold doChangeConfig) <;>
      (try unfold checkConfigActions) <;> (try unfold checkConfigAction) <;>
      (try unfold setCommitIndexL) <;> (try unfold onMajorityCommit) <;>
      (try split) <;> first | assumption | exact ti_panic _ _
  | succ n ih =>
    intro b
    obtain ⟨ihSE, ihSI, ihCL, ihDC, ihCAs, ihCA, ihSC, ihMC⟩ := ih b
    obtain ⟨_, _, _, _, fCAs, _, _, _⟩ := ih false
    refine ⟨?_, ?_, ?_, ?_, ?_, ?_, ?_, ?_⟩
    · -- storeEntry
      intro s bt hs
      unfold storeEntry; dsimp only
      have h1 : TI s₀ b true (storeItems n s bt) := ihSI _ _ hs
      have h2 : TI s₀ b true (storeItems n s bt).applyCommittedL := (ti_applyCommittedL h1).weaken
      repeat' split
      all_goals first
        | exact ihMC _ (ti_notifyFlr (ti_beginFinishedRounds h2))
        | exact ihMC _ (ti_notifyFlr (ti_beginFinishedRounds h1))
        | exact ti_notifyFlr (ti_beginFinishedRounds h2)
        | exact ti_notifyFlr (ti_beginFinishedRounds h1)
        | exact h2
        | exact h1
    · -- storeItems
      intro s bt hs
      cases bt with
      | nil => unfold storeItems; exact hs
      | cons q qs =>
        unfold storeItems; dsimp only
        apply ihSI
        split
        · exact ti_reply _ _ hs
        · split
          · split
            · exact ti_reply _ _ hs
            · exact ti_reply _ _ hs
          · have h2 := ti_push_append (s₀ := s₀) (b := b) { q with index := s.lastLogIndex + 1, term := s.term, cfg := q.cfg.map Config.payload } hs
            split
            · split
              · split
                · rename_i cfg hcfg
                  refine ihCL _ _ h2 (fun hp => ?_)
                  have hidx := Order.config?_index hcfg
                  have hll := (h2.1 hp).1.latest_le_last
                  exact ⟨by rw [hidx]; exact hll, by rw [hidx]; exact Nat.le_refl _⟩
                · exact ti_panic _ _
              · exact h2
            · rename_i hnl
              exact ti_push _ hs hnl
    · -- changeConfigL
      intro s c hs hg
      unfold changeConfigL; dsimp only
      apply ihCAs
      apply foldl_ti
      · intro s x hs
        split
        · exact hs
        · split
          · exact ti_addReplication _ hs
          · exact ti_setRepl _ hs
      · exact ti_ldr_same (ti_changeConfigR c (ti_ldr_same hs rfl rfl) (fun hp => hg hp)) rfl rfl
    · -- doChangeConfig
      intro s t c hs
      unfold doChangeConfig; exact ihSE _ _ hs
    · -- checkConfigActions
      intro s t c hs
      unfold checkConfigActions; dsimp only
      apply foldl_ti
      · intro s x hs
        split
        · exact ihCA _ _ _ _ hs
        · exact hs
      · apply ti_popOrder
        split
        · split
          · exact ihDC _ _ _ hs
          · split
            · exact ihDC _ _ _ hs
            · exact ti_panic _ _
        · exact hs
    · -- checkConfigAction
      intro s t c id hs
      unfold checkConfigAction; dsimp only
      have h1 := fun r => ti_setRepl (s₀ := s₀) (b := b) (g := true) (s := s) r hs
      repeat' split
      all_goals first | exact hs | exact h1 _ | exact ihDC _ _ _ (h1 _)
    · -- setCommitIndexL
      intro s i hs hi
      unfold setCommitIndexL
      extract_lets s1 ready r s2 s3
      have h1 : TI s₀ b true s1 := ti_commitLog i hs
      have h2 : TI s₀ false true s2 := ti_setCommitIndexR i h1 (fun hp => by
        have hc := (h1.1 hp).1.applied_le_commit
        have e : s1.commitIndex = s.commitIndex := rfl
        exact ⟨by omega, fun e => Bool.noConfusion e⟩)
      have h3 : TI s₀ false true s3 := by
        unfold s3; split
        · exact fCAs _ _ _ h2
        · exact h2
      split
      · split
        · exact ti_ldr_same (foldl_ti _ (fun s t hs => ti_reply _ _ hs) _ _ h3) rfl rfl
        · exact fCAs _ _ _ h3
      · exact h3
    · -- onMajorityCommit
      intro s hs
      unfold onMajorityCommit; dsimp only
      have hc : ∀ site, (s.panic site).commitIndex = s.commitIndex := by
        intro site; unfold Node.panic; split <;> rfl
      split
      · split
        · rename_i hgt
          exact ti_notifyFlr (ti_applyCommittedL (ihSC _ _ hs hgt.1)).weaken
        · exact hs
      · split
        · rename_i hgt
          exact ti_notifyFlr (ti_applyCommittedL
            (ihSC _ _ (ti_panic (s₀ := s₀) (b := b) (g := true) s _) (by rw [hc] at hgt; rw [hc]; exact hgt.1))).weaken
        · exact ti_panic _ _

theorem ti_storeEntry (f : Nat) {s : Node} (bt) (hs : TI s₀ b true s) : TI s₀ b true (storeEntry f s bt) :=
  (block s₀ f b).1 s bt hs
theorem ti_doChangeConfig (f : Nat) {s : Node} (t c) (hs : TI s₀ b true s) : TI s₀ b true (doChangeConfig f s t c) :=
  (block s₀ f b).2.2.2.1 s t c hs
theorem ti_checkConfigActions (f : Nat) {s : Node} (t c) (hs : TI s₀ b true s) :
    TI s₀ b true (checkConfigActions f s t c) :=
  (block s₀ f b).2.2.2.2.1 s t c hs
theorem ti_checkConfigAction (f : Nat) {s : Node} (t c id) (hs : TI s₀ b true s) :
    TI s₀ b true (checkConfigAction f s t c id) :=
  (block s₀ f b).2.2.2.2.2.1 s t c id hs
theorem ti_onMajorityCommit (f : Nat) {s : Node} (hs : TI s₀ b true s) : TI s₀ b true (onMajorityCommit f s) :=
  (block s₀ f b).2.2.2.2.2.2.2 s hs


/-! ## handlers outside the block -/

/-- replacing the leader struct: same compaction bound, the queue shrinks (or is emptied) -/
theorem ti_ldr_sub {s : Node} {l : Leader} (h : TI s₀ b g s) (hl : l.removeLTE = s.ldr.removeLTE)
    (hq : ∀ q ∈ l.queue, q ∈ s.ldr.queue) : TI s₀ b g (s.withLdr l) :=
  ⟨Order.inv_ldr_same h.1 hl, fun hp => ⟨(h.2 hp).1.congr6 rfl rfl rfl rfl rfl rfl,
    fun hg q hq' => (h.2 hp).2 hg q (hq q hq')⟩⟩

/-- a fresh leader struct (empty queue): the queue matches the log whatever it held before -/
theorem ti_ldr_fresh {s : Node} {l : Leader} (h : TI s₀ b g s) (hl : s.panicked = none → l.removeLTE ≤ s.snapIndex)
    (hq : l.queue = []) : TI s₀ b true (s.withLdr l) :=
  ⟨Order.inv_ldr h.1 hl, fun hp => ⟨(h.2 hp).1.congr6 rfl rfl rfl rfl rfl rfl,
    fun _ q hq' => by
      have : q ∈ l.queue := hq'
      rw [hq] at this; cases this⟩⟩

theorem ti_checkQuorum {s : Node} (hs : TI s₀ b g s) : TI s₀ b g s.checkQuorum := by
  unfold Node.checkQuorum; dsimp only
  repeat' split
  all_goals first
    | exact hs
    | exact ti_panic _ _
    | exact ti_setLeader _ (ti_setRole _ hs)
    | exact ti_setLeader _ (ti_setRole _ (ti_panic _ _))

theorem ti_transferReply {s : Node} (r : String) (hs : TI s₀ b g s) : TI s₀ b g (s.transferReply r) := by
  unfold Node.transferReply; exact ti_ldr_same (ti_reply _ _ hs) rfl rfl

theorem ti_tryTransfer {s : Node} (hs : TI s₀ b g s) : TI s₀ b g s.tryTransfer := by
  unfold Node.tryTransfer; dsimp only
  have hp := ti_popOrder hs
  repeat' split
  all_goals first
    | exact hs
    | exact hp
    | exact ti_panic _ _
    | exact ti_ldr_same hs rfl rfl
    | exact ti_ldr_same hp rfl rfl
    | exact ti_ldr_same (ti_panic (s₀ := s₀) (b := b) (g := g) _ _) rfl rfl

theorem ti_onTransfer {s : Node} (t tg : Nat) (hs : TI s₀ b g s) : TI s₀ b g (s.onTransfer t tg) := by
  unfold Node.onTransfer; dsimp only
  split
  · exact ti_reply _ _ hs
  · exact ti_tryTransfer (ti_ldr_same hs rfl rfl)

theorem ti_replyTransfer {s : Node} (r : String) (hs : TI s₀ b true s) : TI s₀ b true (s.replyTransfer r) := by
  unfold Node.replyTransfer; exact ti_checkConfigActions _ _ _ (ti_transferReply _ hs)

theorem ti_onTimeoutNowResult {s : Node} (src : Nat) (e : Bool) (r : Nat) (hs : TI s₀ b true s) :
    TI s₀ b true (s.onTimeoutNowResult src e r) := by
  unfold Node.onTimeoutNowResult
  extract_lets l0 t0 s1 s2 l1 t1
  have h0 : TI s₀ b true s1 := ti_ldr_same hs rfl rfl
  have h2 : TI s₀ b true s2 := by
    unfold s2
    split
    · split
      · exact ti_setRepl _ h0
      · exact h0
    · exact ti_panic _ _
  split
  · split
    · exact ti_tryTransfer h2
    · exact h2
  · split
    · split
      · exact ti_replyTransfer _ h0
      · exact ti_tryTransfer h0
    · exact ti_ldr_same h0 rfl rfl

/-- `leader.init` starts from an empty queue: whatever the flag before, the queue matches the log after -/
theorem ti_leaderInit {s : Node} (hs : TI s₀ b g s) : TI s₀ b true s.leaderInit := by
  unfold Node.leaderInit; dsimp only
  apply ti_storeEntry
  apply ti_checkConfigActions
  apply foldl_ti
  · intro s x hs
    split
    · exact hs
    · exact ti_addReplication _ hs
  · exact ti_ldr_fresh (ti_assert _ _ hs)
      (fun hp => (Order.inv_assert (s₀ := s₀) (b := b) _ _ hs.1 hp).1.prev_le_snap) rfl

theorem ti_leaderRelease {s : Node} (hs : TI s₀ b g s) : TI s₀ b g s.leaderRelease := by
  unfold Node.leaderRelease Node.leaderReleaseRest; dsimp only
  refine ti_ldr_sub ?_ rfl (fun q hq => by cases hq)
  apply foldl_ti _ (fun s t hs => ti_reply _ _ hs)
  apply foldl_ti _ (fun s t hs => ti_reply _ _ hs)
  repeat' split
  all_goals first
    | exact hs
    | exact ti_setLeader _ hs
    | exact ti_transferReply _ hs
    | exact ti_setLeader _ (ti_transferReply _ hs)

theorem ti_startElection {s : Node} (hs : TI s₀ b g s) : TI s₀ b g s.startElection := by
  unfold Node.startElection
  extract_lets s1 s2 s3 s4
  have h4 : TI s₀ b g s4 := ti_votesNeeded _ (ti_setVotedFor _ _ (ti_votesNeeded _ (ti_assert _ _ hs)))
  split
  · exact ti_setLeader _ (ti_setRole _ h4)
  · exact h4

theorem ti_onVoteResult {s : Node} (e : Bool) (t r : Nat) (hs : TI s₀ b g s) : TI s₀ b g (s.onVoteResult e t r) := by
  unfold Node.onVoteResult; dsimp only
  repeat' split
  all_goals first
    | exact hs
    | exact ti_setTerm _ (ti_setRole _ hs)
    | exact ti_setLeader _ (ti_setRole _ (ti_votesNeeded _ hs))
    | exact ti_votesNeeded _ hs

theorem ti_followerTimeout {s : Node} (hs : TI s₀ b g s) : TI s₀ b g s.followerTimeout := by
  unfold Node.followerTimeout; dsimp only
  split
  · exact ti_setRole _ (ti_setLeader _ hs)
  · exact ti_setLeader _ hs

theorem ti_releaseRole {s : Node} (r : Role) (hs : TI s₀ b g s) : TI s₀ b g (s.releaseRole r) := by
  unfold Node.releaseRole
  split
  · exact hs
  · exact ti_candTransfer _ hs
  · exact ti_leaderRelease hs

/-- One backward step on a goal `TI s₀ b g (…)`. -/
syntax "ti_step" : tactic
macro_rules
  | `(tactic| ti_step) => `(tactic| first
      | with_reducible assumption
      | with_reducible exact ti_panic _ _
      | with_reducible apply ti_ret
      | with_reducible apply ti_reply
      | with_reducible apply ti_point
      | with_reducible apply ti_assert
      | with_reducible apply ti_setRole
      | with_reducible apply ti_setLeader
      | with_reducible apply ti_setTerm
      | with_reducible apply ti_setVotedFor
      | with_reducible apply ti_doClose
      | with_reducible apply ti_votesNeeded
      | with_reducible apply ti_candTransfer
      | with_reducible apply ti_snapPending
      | with_reducible apply ti_rpcReply
      | with_reducible apply ti_popOrder
      | with_reducible apply ti_setRepl
      | with_reducible apply ti_notifyFlr
      | with_reducible apply ti_commitLog
      | with_reducible apply ti_appendEntry'
      | with_reducible apply ti_commitConfig
      | with_reducible apply ti_checkQuorum
      | with_reducible apply ti_tryTransfer
      | with_reducible apply ti_onTransfer
      | with_reducible apply ti_replyTransfer
      | with_reducible apply ti_transferReply
      | with_reducible apply ti_onTimeoutNowResult
      | with_reducible apply ti_startElection
      | with_reducible apply ti_onVoteResult
      | with_reducible apply ti_followerTimeout
      | with_reducible apply ti_storeEntry
      | with_reducible apply ti_doChangeConfig
      | with_reducible apply ti_checkConfigActions
      | with_reducible apply ti_checkConfigAction
      | with_reducible apply ti_onMajorityCommit
      | with_reducible apply ti_releaseRole
      | (with_reducible refine ti_ldr_same ?_ rfl rfl)
      | split)

syntax "ti_auto" : tactic
macro_rules
  | `(tactic| ti_auto) => `(tactic| repeat' ti_step)

theorem ti_onVoteRequest {s : Node} (q : VoteReq) (hs : TI s₀ b g s) : TI s₀ b g (s.onVoteRequest q) := by
  unfold Node.onVoteRequest
  dsimp only
  ti_auto

theorem ti_onTimeoutNow {s : Node} (hs : TI s₀ b g s) : TI s₀ b g s.onTimeoutNow := by
  unfold Node.onTimeoutNow
  ti_auto

theorem ti_onTakeSnapshot {s : Node} (t th : Nat) (hs : TI s₀ b g s) : TI s₀ b g (s.onTakeSnapshot t th) := by
  unfold Node.onTakeSnapshot
  ti_auto

theorem ti_rejectEntries {s : Node} (bt : List QItem) (hs : TI s₀ b g s) : TI s₀ b g (s.rejectEntries bt) := by
  induction bt generalizing s with
  | nil => exact hs
  | cons q qs ih =>
    unfold Node.rejectEntries
    dsimp only
    repeat' (first | ti_step | apply ih)

theorem ti_onWaitForStable {s : Node} (t : Nat) (hs : TI s₀ b g s) : TI s₀ b g (s.onWaitForStable t) := by
  unfold Node.onWaitForStable
  ti_auto

theorem ti_rpcDone {s : Node} (a c : Bool) (hs : TI s₀ b g s) : TI s₀ b g (s.rpcDone a c) := by
  unfold Node.rpcDone
  ti_auto

theorem ti_onChangeConfig {s : Node} (t : Nat) (c : Config) (hs : TI s₀ b true s) :
    TI s₀ b true (s.onChangeConfig t c) := by
  unfold Node.onChangeConfig
  dsimp only
  ti_auto


/-! ## snapshots and compaction -/

/-- the label of the state right after `f` was published as the newest file -/
theorem label_publish (s : Node) (f : SnapFile) (hr : s.retain ≥ 1)
    (hh : ∀ g, s.snapsDisk.head? = some g → g.index ≤ f.index) :
    label (s.publishSnapshot f) = f.config := by
  unfold label
  rw [(C09.publish_keeps_new_file s f hr hh).2]; rfl

/-- `snapshotSink.done` at the FSM's position, labelled with the FSM's configuration (if it holds one):
the new label is self-consistent and the FSM's cache stays right relative to it. -/
theorem ti_publishSnap {s : Node} (f : SnapFile) (h : TI s₀ b g s) (hidx : f.index = s.fsm.index)
    (hterm : f.term = s.fsm.term) (hcfg : 0 < s.fsm.config.index → f.config = s.fsm.config) :
    TI s₀ b g (s.publishSnapshot f) := by
  refine ⟨Order.inv_publishSnapshot f h.1 (fun hp => ?_), fun hp => ?_⟩
  · rw [hidx]; exact ⟨(h.coreW hp).snap_le_applied, Nat.le_refl _⟩
  · have hp' : s.panicked = none := hp
    obtain ⟨c, hq⟩ := h.2 hp'
    have cw := h.coreW hp'
    have hsa := cw.snap_le_applied
    have hh : ∀ g, s.snapsDisk.head? = some g → g.index ≤ f.index := fun g hg => by
      have := c.headLe g hg; omega
    have el := label_publish s f c.retain hh
    obtain ⟨k1, k2⟩ := c.fsmOk.snapshot f.config hcfg
    refine ⟨⟨c.retain, ?_, c.contig, c.fsmLe, ?_, ?_, ⟨fun hlt => ?_, ?_, fun hz => ?_⟩⟩, fun hg => (hq hg).congr_pub⟩
    · rw [(C09.publish_keeps_new_file s f c.retain hh).2]; rfl
    · rw [el]
      show newest s.log f.config f.index = f.config
      rw [hidx]; exact k2
    · rw [el]
      show FsmOk s.log f.config f.index f.term s.fsm
      rw [hidx, hterm]; exact k1
    · have hlt' : s.log.prev < f.index := hlt
      show (s.log.get? f.index).map (·.term) = some f.term
      rw [hidx, hterm]
      exact c.fsmOk.termLog (by rw [← hidx]; exact hlt')
    · rw [(C09.publish_keeps_new_file s f c.retain hh).2]; rfl
    · -- a snapshot at index 0: the FSM sits on the (absent) old snapshot
      have hz' : f.index = 0 := hz
      have h0 : s.fsm.index = s.snapIndex := by omega
      show f.term = 0
      rw [hterm, c.fsmOk.termSnap h0]
      exact c.snapOk.zero (by omega)


theorem ti_snapRun {s : Node} (h : TI s₀ b g s) : TI s₀ b g s.snapRun := by
  unfold Node.snapRun
  split
  · exact h
  · dsimp only
    have h0 := ti_snapPending (s₀ := s₀) (b := b) (g := g) none h
    split
    · exact ti_snapResult _ h0 (fun _ rs hrs => by injection hrs with hrs; rw [← hrs]; exact Nat.zero_le _)
    · split
      · exact ti_snapResult _ h0 (fun _ rs hrs => by injection hrs with hrs; rw [← hrs]; exact Nat.zero_le _)
      · refine ti_snapResult _ (ti_publishSnap _ h0 rfl rfl (fun hpos => ?_)) (fun _ rs hrs => ?_)
        · show (if _ then _ else _) = _
          rw [if_pos hpos]
        · injection hrs with hrs; rw [← hrs]; exact Nat.le_refl _

theorem ti_onSnapshotTaken {s : Node} (h : TI s₀ b g s) : TI s₀ b g s.onSnapshotTaken := by
  cases hr : s.snapResult with
  | none => unfold Node.onSnapshotTaken; rw [hr]; exact h
  | some rs =>
    unfold Node.onSnapshotTaken
    rw [hr]
    dsimp -zeta only
    extract_lets s0 repls nowC0 canC0 nowC canC s1 src s2
    have h0 : TI s₀ b g s0 := ti_snapResult none h (fun _ rs hrs => by cases hrs)
    have hrs : s0.panicked = none → rs.index ≤ s0.snapIndex := fun hp => (h.coreW hp).snapRes_le rs hr
    split
    · exact ti_reply _ _ h0
    · apply ti_reply
      unfold s2
      split
      · have hb0 : nowC0 ≤ rs.index := C09.foldl_le_init _ (fun m r => by split <;> omega) _ _
        have hc0 : canC0 ≤ rs.index := C09.foldl_le_init _ (fun m r => by split <;> omega) _ _
        have hnow : s0.panicked = none → nowC ≤ s0.snapIndex := fun hp =>
          Order.canLTE_le_of (h0.coreW hp).segs (h0.coreW hp).prev_le_snap (by have := hrs hp; omega)
        have hcan : s0.panicked = none → canC ≤ s0.snapIndex := fun hp =>
          Order.canLTE_le_of (h0.coreW hp).segs (h0.coreW hp).prev_le_snap (by have := hrs hp; omega)
        have hs1 : TI s₀ b g s1 := by
          unfold s1; split
          · exact ti_compactLog _ h0 hnow
          · exact h0
        have e1 : s1.snapIndex = s0.snapIndex := by unfold s1; split <;> rfl
        have e2 : s1.panicked = s0.panicked := by unfold s1; split <;> rfl
        split
        · exact ti_notifyFlr (ti_ldr hs1 (fun hp => by rw [e1]; exact hcan (by rw [← e2]; exact hp)) (fun q hq => hq))
        · split
          · exact ti_notifyFlr (ti_ldr hs1 (fun hp => (hs1.coreW hp).prev_le_snap) (fun q hq => hq))
          · exact hs1
      · exact h0

theorem ti_checkLogCompact {s : Node} (h : TI s₀ b g s) : TI s₀ b g s.checkLogCompact := by
  unfold Node.checkLogCompact
  split
  · exact h
  · exact ti_compactLog _ h (fun hp => (h.coreW hp).removeLTE_le)

theorem ti_replUpdLoop {s : Node} (f : UpdFlags) (us : List ReplUpdate) (hs : TI s₀ b true s) :
    TI s₀ b true (replUpdLoop s f us).1 := by
  induction us generalizing s f with
  | nil => exact hs
  | cons u us ih =>
    unfold replUpdLoop
    dsimp only
    repeat' (first | ti_step | apply ih)

theorem ti_checkReplUpdates {s : Node} (us : List ReplUpdate) (hs : TI s₀ b true s) :
    TI s₀ b true (s.checkReplUpdates us) := by
  unfold Node.checkReplUpdates
  dsimp only
  have hL : TI s₀ b true (replUpdLoop s {} us).1 := ti_replUpdLoop _ _ hs
  have hC : ∀ x, TI s₀ b true x → TI s₀ b true x.checkLogCompact := fun x hx => ti_checkLogCompact hx
  repeat' (first | ti_step | apply hC)

theorem ti_shutdown {s : Node} (hs : TI s₀ b g s) : TI s₀ b g s.shutdown := by
  unfold Node.shutdown
  dsimp only
  have h1 : ∀ x, TI s₀ b g x → TI s₀ b g x.snapRun := fun x hx => ti_snapRun hx
  have h2 : ∀ x, TI s₀ b g x → TI s₀ b g x.onSnapshotTaken := fun x hx => ti_onSnapshotTaken hx
  repeat' (first | ti_step | apply h1 | apply h2)

/-! ## bootstrap -/

theorem ti_bootstrap {s : Node} (t : Nat) (cfg : Config) (hs : TI s₀ b g s) : TI s₀ b g (s.bootstrap t cfg) := by
  unfold Node.bootstrap
  dsimp only
  repeat' split
  all_goals first
    | exact ti_reply _ _ hs
    | skip
  apply ti_setRole
  apply ti_reply
  have hpre : TI s₀ b g (((s.appendEntry ({ cfg with index := 1, term := 1 } : Config).toEntry).commitLog 1).setTerm 1) :=
    ti_setTerm _ (ti_commitLog _ (ti_appendEntry' _ hs))
  have hidx : (((s.appendEntry ({ cfg with index := 1, term := 1 } : Config).toEntry).commitLog 1).setTerm 1).lastLogIndex = 1 := by
    rw [(Order.obs_eq (Order.irr_setTerm _ 1).1).1]; rfl
  have hl : TI s₀ b g ((((s.appendEntry ({ cfg with index := 1, term := 1 } : Config).toEntry).commitLog 1).setTerm 1).withLast 1 1) :=
    ti_withLast 1 1 hpre (fun _ => hidx)
  exact ti_changeConfigR _ hl (fun hp => ⟨(hl.1 hp).1.latest_le_last, Nat.le_refl _⟩)


/-! ## the follower's append-entries handler (structure of `Order.inv_appendLoop` …) -/

theorem ti_appendLoop (es : List Entry) : ∀ (st : AppLoop), TI s₀ true false st.s → Order.chainB st.index es = true →
    (st.s.panicked = none → st.index ≤ st.s.lastLogIndex) →
    (st.s.panicked = none → ∀ ne ∈ es, ne.index ≤ st.s.lastLogIndex → st.s.snapIndex < ne.index →
      st.s.entryTerm? ne.index ≠ some ne.term →
      st.s.commitIndex < ne.index ∧ st.s.configs.committed.index < ne.index) →
    TI s₀ true false (appendLoop st es).s ∧
    ((appendLoop st es).s.panicked = none → (appendLoop st es).index ≤ (appendLoop st es).s.lastLogIndex) := by
  induction es with
  | nil => intro st hs _ hidx _; unfold appendLoop; exact ⟨hs, hidx⟩
  | cons ne rest ih =>
    intro st hs hch hidx hJ
    obtain ⟨hc1, hc2⟩ := Order.chainB_cons hch
    have hrest : ∀ x ∈ rest, ne.index < x.index := Order.chainB_gt rest ne.index hc2
    unfold appendLoop
    dsimp only
    split
    · exact ⟨hs, hidx⟩
    · split
      · rename_i hsn
        refine ih _ hs hc2 (fun hp => ?_) (fun hp x hx => hJ hp x (List.mem_cons_of_mem _ hx))
        obtain ⟨c, hcl, _, _⟩ := hs.1 hp
        have h1 := c.snap_le_applied
        have h2 := c.applied_le_commit
        have h3 := hcl rfl
        show ne.index ≤ st.s.lastLogIndex
        omega
      · rename_i hsn
        split
        · rename_i hpres
          refine ih _ hs hc2 (fun _ => ?_) (fun hp x hx => hJ hp x (List.mem_cons_of_mem _ hx))
          simp only [Bool.and_eq_true, decide_eq_true_eq] at hpres
          exact hpres.1
        · rename_i hpres
          have h2 : TI s₀ true false ((st.s.resolveConflict ne st.term).appendEntry ne) := by
            refine ti_appendEntry' ne (ti_resolveConflict ne st.term hs (fun hp hle => ?_))
            have hne : st.s.entryTerm? ne.index ≠ some ne.term := by
              intro he
              apply hpres
              simp only [Bool.and_eq_true, decide_eq_true_eq, beq_iff_eq]
              exact ⟨hle, he⟩
            have := hJ hp ne (List.mem_cons_self ..) hle (by omega) hne
            exact ⟨by omega, this.1, this.2⟩
          have e2 : ((st.s.resolveConflict ne st.term).appendEntry ne).lastLogIndex = ne.index := rfl
          split
          · split
            · rename_i cfg hcfg
              have hci := Order.config?_index hcfg
              have e3 := (changeConfigR_fields ((st.s.resolveConflict ne st.term).appendEntry ne) cfg).2.1
              refine ih _ (ti_changeConfigR cfg h2 (fun hp => ?_)) hc2 (fun _ => ?_) (fun _ x hx hle => ?_)
              · have := (h2.1 hp).1.latest_le_last
                rw [e2] at this
                exact ⟨by rw [hci]; exact this, by rw [hci, e2]; exact Nat.le_refl _⟩
              · show ne.index ≤ _
                rw [e3, e2]; exact Nat.le_refl _
              · have := hrest x hx
                rw [e3, e2] at hle
                omega
            · exact ⟨h2, fun _ => Nat.le_of_eq e2.symm⟩
          · refine ih _ h2 hc2 (fun _ => Nat.le_of_eq e2.symm) (fun _ x hx hle => ?_)
            have := hrest x hx
            have hle' : x.index ≤ ne.index := hle
            omega

theorem ti_appendCheck {s : Node} (q : AppendReq) (h : TI s₀ true g s) : TI s₀ true g (s.appendCheck q) := by
  unfold Node.appendCheck
  split
  · split
    · exact ti_ret _ h
    · rename_i hnl
      extract_lets s1 plt
      have hI : Order.Irr s s1 := by
        unfold s1; split
        · exact Order.Irr.refl _
        · split
          · exact Order.Irr.refl _
          · exact Order.irr_panic _ _
      have h1 : TI s₀ true g s1 := by
        unfold s1; split
        · exact h
        · split
          · exact h
          · exact ti_panic _ _
      split
      · exact ti_ret _ h1
      · split
        · rename_i hcc
          refine ti_ret _ (ti_applyCommitted (ti_setCommitIndexR (b' := true) _ h1 (fun hp => ?_)))
          obtain ⟨e1, _, _, _, _, _⟩ := Order.obs_eq hI.1
          have := (h1.1 hp).1.applied_le_commit
          simp only [Node.canCommit, Bool.and_eq_true, decide_eq_true_eq] at hcc
          exact ⟨by omega, fun _ => by rw [e1]; omega⟩
        · exact ti_ret _ h1
  · exact ti_ret _ h

theorem ti_onAppendEntries {s : Node} (q : AppendReq) (h : TI s₀ true g s)
    (hok' : q.term < s.term ∨ Order.AppendOk s q) : TI s₀ true false (s.onAppendEntries q) := by
  unfold Node.onAppendEntries
  split
  · exact ti_ret _ h.dropQ
  · rename_i hterm
    have hok : Order.AppendOk s q := by
      rcases hok' with h1 | h1
      · exact absurd h1 hterm
      · exact h1
    extract_lets s1 s2 s3 st s4 s4c s5
    have hI2 : Order.Irr s s2 := by
      refine Order.Irr.trans ?_ ((Order.irr_setRole _ _).trans (Order.irr_setLeader _ _))
      unfold s1; split
      · exact (Order.irr_setTerm _ _).trans (Order.irr_setRole _ _)
      · exact Order.Irr.refl _
    have h2 : TI s₀ true false s2 := by
      unfold s2 s1
      apply ti_setLeader; apply ti_setRole
      split
      · exact ti_setRole _ (ti_setTerm _ h.dropQ)
      · exact h.dropQ
    have h3 : TI s₀ true false s3 := ti_appendCheck q h2
    have hP : Order.Pre q.prevLogIndex s s3 := (Order.Pre.of_irr hI2).trans (Order.appendCheck_pre s2 q)
    split
    · exact h3
    · rename_i hres
      have hres' : s3.result = 0 := by
        cases hr : s3.result with
        | zero => rfl
        | succ n => exact absurd (by rw [hr]; exact Nat.succ_ne_zero n) hres
      obtain ⟨p1, p2, p3, p4, p5⟩ := hP
      have hL := ti_appendLoop (s₀ := s₀) q.entries { s := s3, index := q.prevLogIndex, term := q.prevLogTerm }
        h3 hok.1 (fun hp => by
          obtain ⟨c, hcl, _, _⟩ := h3.1 hp
          have := c.snap_le_applied; have := c.applied_le_commit; have := hcl rfl
          obtain ⟨e1, _, e3, _⟩ := Order.obs_eq (Order.Irr.trans hI2 (Order.Irr.refl s2)).1
          have hr := Order.appendCheck_result s2 q hres'
          show q.prevLogIndex ≤ s3.lastLogIndex
          rw [p2]; rw [p3] at *; rw [p2] at *
          rw [e1, e3] at hr
          omega)
        (fun _ ne hne hle hsn hterm => by
          have hgt := Order.chainB_gt _ _ hok.1 ne hne
          have hterm' : s.entryTerm? ne.index ≠ some ne.term := by
            unfold Node.entryTerm? at hterm ⊢
            rw [← p1]; exact hterm
          have := hok.2 ne hne (by rw [← p2]; exact hle) (by rw [← p3]; exact hsn) hterm'
          exact ⟨by show s3.commitIndex < ne.index; omega, by show s3.configs.committed.index < ne.index; omega⟩)
      have h4 : TI s₀ true false s4 := hL.1
      apply ti_ret
      unfold s5
      split
      · split
        · rename_i hcc
          refine ti_applyCommitted (ti_setCommitIndexR (b' := true) _ (ti_commitLog _ h4) (fun hp => ?_))
          have hidx : st.index ≤ s4.lastLogIndex := hL.2 hp
          have : s4c.fsm.index ≤ s4c.commitIndex :=
            ((ti_commitLog (s₀ := s₀) (b := true) (g := false) s4.lastLogIndex h4).1 hp).1.applied_le_commit
          simp only [Node.canCommit, Bool.and_eq_true, decide_eq_true_eq] at hcc
          exact ⟨by omega, fun _ => hidx⟩
        · exact ti_commitLog _ h4
      · exact h4


/-! ## install-snapshot -/

theorem obsT_installPre (s : Node) (q : InstallReq) : obsT (installPre s q) = obsT s := by
  unfold installPre
  have key : ∀ x : Node, obsT ((x.setRole .follower).setLeader q.src) = obsT x := fun _ => rfl
  rw [key]
  split
  · exact (show obsT ((s.setTerm q.term).setRole .follower) = obsT (s.setTerm q.term) from rfl).trans
      (obsT_setTerm _ _)
  · rfl

theorem ti_installPre {s : Node} (q : InstallReq) (h : TI s₀ b g s) : TI s₀ b g (installPre s q) :=
  h.irr (Order.irr_installPre s q) (obsT_installPre s q)

theorem discardTail_retain (p : Node) (c : Config) : (C09.discardTail p c).retain = p.retain := by
  unfold C09.discardTail
  rw [commitConfig_eq, changeConfigR_eq, fsmRestore_eq]
  rfl

theorem pre_reset (i j : Nat) : pre (NLog.reset i) j = [] := by
  unfold pre NLog.reset; simp

/-- the discard branch: the log is emptied at the new snapshot, the FSM restored from it — its cache is the
label just written. The queue (of a deposed leader) is not tracked any more. -/
theorem ti_onInstallSnap {s : Node} (q : InstallReq) (h : TI s₀ true g s)
    (hok' : q.term < s.term ∨ q.lastIndex ≤ s.commitIndex ∨ Order.InstallOk q) :
    TI s₀ true false (s.onInstallSnap q) := by
  refine ⟨Order.inv_onInstallSnap q h.1 hok', ?_⟩
  rw [onInstallSnap_eq]
  have hpre : TI s₀ true false (installPre s q) := (ti_installPre q h).dropQ
  split
  · exact (ti_ret (s₀ := s₀) (b := true) _ h.dropQ).2
  · rename_i hterm
    split
    · exact (ti_ret (s₀ := s₀) (b := true) _ hpre).2
    · rename_i hahead
      split
      · exact (ti_ret (s₀ := s₀) (b := true) _ hpre).2
      · change (C09.discardTail ((installPre s q).publishSnapshot (C09.fileOf q)) q.lastConfig).panicked = none →
          Core (C09.discardTail ((installPre s q).publishSnapshot (C09.fileOf q)) q.lastConfig) ∧
          (false = true → QM (C09.discardTail ((installPre s q).publishSnapshot (C09.fileOf q)) q.lastConfig))
        intro hp
        refine ⟨?_, fun e => Bool.noConfusion e⟩
        obtain ⟨f1, _, _, f4, f5, _, _, f8, _, f10, f11, _⟩ :=
          C09.discardTail_fields ((installPre s q).publishSnapshot (C09.fileOf q)) q.lastConfig
        have fr := discardTail_retain ((installPre s q).publishSnapshot (C09.fileOf q)) q.lastConfig
        rw [f11] at hp
        obtain ⟨hpp, _⟩ := Order.fsmRestore_ok _ hp
        obtain ⟨d1, _, d3, d4⟩ := C09.discardPre_fields (installPre s q) (C09.fileOf q)
        have hpp' : (installPre s q).panicked = none := by rw [← d1]; exact hpp
        obtain ⟨c, _⟩ := hpre.2 hpp'
        have cw := hpre.coreW hpp'
        have hidx : (C09.fileOf q).index = q.lastIndex := rfl
        have hlt : (installPre s q).commitIndex < q.lastIndex := by omega
        have hh : ∀ g, (installPre s q).snapsDisk.head? = some g → g.index ≤ (C09.fileOf q).index := fun g hg => by
          have := c.headLe g hg
          have := cw.snap_le_applied
          have := cw.applied_le_commit
          rw [hidx]; omega
        obtain ⟨k1, k2⟩ := C09.publish_keeps_new_file (installPre s q) (C09.fileOf q) c.retain hh
        have hsnap : ((installPre s q).publishSnapshot (C09.fileOf q)).snapIndex = q.lastIndex := rfl
        have hsterm : ((installPre s q).publishSnapshot (C09.fileOf q)).snapTerm = q.lastTerm := rfl
        have h0 : q.lastIndex ≠ 0 := by omega
        -- the restored FSM
        have hfsm := (fsmRestore_fsm ((installPre s q).publishSnapshot (C09.fileOf q)).clearLog (C09.fileOf q)
          (by rw [d3]; exact h0) (by rw [d4, d3]; exact k1)).1
        -- the label
        have el : label (C09.discardTail ((installPre s q).publishSnapshot (C09.fileOf q)) q.lastConfig) = q.lastConfig := by
          unfold label
          rw [f8, k2]; rfl
        refine ⟨by rw [fr]; exact c.retain, ?_, by rw [f1]; exact C03.LogContig.reset _, ?_, ?_, ?_,
          ⟨fun hlt => ?_, ?_, fun hz => ?_⟩⟩
        · rw [f8, k2, f4, hsnap]; rfl
        · rw [f10, hfsm, f1, hsnap]
          show q.lastIndex ≤ q.lastIndex + 0
          omega
        · rw [el, f1]
          exact newest_of_nil _ (pre_reset _ _)
        · rw [el, f1, f4, f5, f10, hfsm, hsnap, hsterm]
          exact FsmOk.restored _ _ _ _ _ rfl rfl rfl rfl
        · rw [f1, f4] at hlt
          exact absurd hlt (Nat.lt_irrefl _)
        · rw [f8, k2, f5, hsterm]; rfl
        · rw [f4, hsnap] at hz; exact absurd hz h0


/-! ## every operation -/

theorem role_rpcDone (s : Node) (a c : Bool) : (s.rpcDone a c).role = s.role := by
  unfold Node.rpcDone
  split
  · exact LC.role_panic _ _
  · rfl

/-- a handler run with the queue matching the log (any role): the invariant survives; the queue still matches
unless the handler was an append/install request with a current term — and then the node is not leader -/
theorem ti_handle_true {s : Node} (op : Op) (hs : TI s₀ true true s) (hr : Order.ReqOk s op) :
    TI s₀ true false (s.handle op) ∧ ((s.handle op).role = .leader → TI s₀ true true (s.handle op)) := by
  have key : ∀ x : Node, TI s₀ true true x → TI s₀ true false x ∧ (x.role = .leader → TI s₀ true true x) :=
    fun x hx => ⟨hx.dropQ, fun _ => hx⟩
  cases op <;> unfold Node.handle <;> dsimp only
  case vote q => exact key _ (ti_rpcDone _ _ (ti_onVoteRequest _ hs))
  case append q =>
    by_cases hq : q.term < s.term
    · apply key
      apply ti_rpcDone
      unfold Node.onAppendEntries
      rw [if_pos hq]
      exact ti_ret _ hs
    · refine ⟨ti_rpcDone _ _ (ti_onAppendEntries _ hs hr), fun hl => ?_⟩
      rw [role_rpcDone] at hl
      exact absurd hl (LC.nl_onAppendEntries s q hq)
  case install q =>
    by_cases hq : q.term < s.term
    · apply key
      apply ti_rpcDone
      unfold Node.onInstallSnap
      rw [if_pos hq]
      exact ti_ret _ hs
    · refine ⟨ti_rpcDone _ _ (ti_onInstallSnap _ hs hr), fun hl => ?_⟩
      rw [role_rpcDone] at hl
      exact absurd hl (LC.nl_onInstallSnap s q hq)
  case timeoutNow => exact key _ (ti_rpcDone _ _ (ti_onTimeoutNow hs))
  case identity a b c => exact key _ (ti_rpcReply _ hs)
  case disconnected n => apply key; ti_auto
  case timeout => apply key; ti_auto
  case newEntries bt => apply key; split; exact ti_storeEntry _ _ hs; exact ti_rejectEntries _ hs
  case changeConfig t c => apply key; split; exact ti_onChangeConfig _ _ hs; exact ti_bootstrap _ _ hs
  case takeSnapshot t th => exact key _ (ti_onTakeSnapshot _ _ hs)
  case snapRun => exact key _ (ti_snapRun hs)
  case snapTaken => exact key _ (ti_onSnapshotTaken hs)
  case waitStable t => apply key; split; exact ti_onWaitForStable _ hs; exact ti_reply _ _ hs
  case transfer t tg => apply key; ti_auto
  case voteResult e t r => apply key; ti_auto
  case replUpdates us => apply key; split; exact ti_checkReplUpdates _ hs; exact hs
  case transferTimeout => apply key; ti_auto
  case timeoutNowResult a b c => apply key; ti_auto
  case newTermTimeout => apply key; ti_auto
  case shutdown => exact key _ (ti_shutdown hs)

/-- a handler run by a non-leader: the queue is not looked at -/
theorem ti_handle_false {s : Node} (op : Op) (hs : TI s₀ true false s) (hl : s.role ≠ .leader)
    (hr : Order.ReqOk s op) : TI s₀ true false (s.handle op) := by
  cases op <;> unfold Node.handle <;> dsimp only
  case vote q => exact ti_rpcDone _ _ (ti_onVoteRequest _ hs)
  case append q => exact ti_rpcDone _ _ (ti_onAppendEntries _ hs hr)
  case install q => exact ti_rpcDone _ _ (ti_onInstallSnap _ hs hr)
  case timeoutNow => exact ti_rpcDone _ _ (ti_onTimeoutNow hs)
  case identity a b c => exact ti_rpcReply _ hs
  case disconnected n => ti_auto
  case timeout =>
    split
    · exact ti_followerTimeout hs
    · exact ti_startElection hs
    · rename_i h; exact absurd h hl
  case newEntries bt => rw [if_neg hl]; exact ti_rejectEntries _ hs
  case changeConfig t c => rw [if_neg hl]; exact ti_bootstrap _ _ hs
  case takeSnapshot t th => exact ti_onTakeSnapshot _ _ hs
  case snapRun => exact ti_snapRun hs
  case snapTaken => exact ti_onSnapshotTaken hs
  case waitStable t => rw [if_neg hl]; exact ti_reply _ _ hs
  case transfer t tg => rw [if_neg hl]; exact ti_reply _ _ hs
  case voteResult e t r => ti_auto
  case replUpdates us => rw [if_neg hl]; exact hs
  case transferTimeout => rw [if_neg (fun h => hl h.1)]; exact hs
  case timeoutNowResult a b c => rw [if_neg (fun h => hl h.1)]; exact hs
  case newTermTimeout => rw [if_neg (fun h => hl h.1)]; exact hs
  case shutdown => exact ti_shutdown hs

theorem ti_initRole {s : Node} (hs : TI s₀ b false s) :
    TI s₀ b false s.initRole ∧ (s.role = .leader → TI s₀ b true s.initRole) := by
  unfold Node.initRole
  split
  · rename_i h; exact ⟨hs, fun e => by rw [h] at e; cases e⟩
  · rename_i h; exact ⟨ti_startElection hs, fun e => by rw [h] at e; cases e⟩
  · exact ⟨(ti_leaderInit hs).dropQ, fun _ => ti_leaderInit hs⟩

/-- the role transitions after a handler: a node that ends up leader went through `leader.init` (empty queue)
or was leader all along with a matching queue -/
theorem ti_settle (fuel : Nat) (s : Node) (cur : Role) (hf : LC.need s.role cur ≤ fuel) (h : TI s₀ b false s)
    (hq : cur = .leader → s.role = .leader → TI s₀ b true s) :
    TI s₀ b false (settle fuel s cur) ∧ ((settle fuel s cur).role = .leader → TI s₀ b true (settle fuel s cur)) := by
  induction fuel generalizing s cur with
  | zero =>
    have e : s.role = cur := LC.need_zero (Nat.le_zero.mp hf)
    unfold settle
    exact ⟨h, fun hl => hq (by rw [← e]; exact hl) hl⟩
  | succ n ih =>
    unfold settle
    split
    · rename_i e
      exact ⟨h, fun hl => hq (by rw [← e]; exact hl) hl⟩
    · rename_i hne
      dsimp only
      have hr : (s.releaseRole cur).role = s.role := LC.role_releaseRole s cur
      have h1 : TI s₀ b false (s.releaseRole cur) := ti_releaseRole cur h
      obtain ⟨h2, h3⟩ := ti_initRole h1
      apply ih
      · -- enough fuel remains
        unfold Node.initRole
        cases hrole : s.role with
        | follower =>
          rw [hr, hrole]; dsimp only; rw [hr, hrole, LC.need_self]; omega
        | candidate =>
          have hneed : LC.need s.role cur = 3 := by unfold LC.need; rw [if_neg hne, hrole]
          rw [hr, hrole]; dsimp only
          rw [hrole] at hneed hf
          rcases LC.role_startElection (s.releaseRole cur) with e | e
          · rw [e, hr, hrole, LC.need_self]; omega
          · rw [e]; unfold LC.need; simp; omega
        | leader =>
          have hneed : LC.need s.role cur = 2 := by unfold LC.need; rw [if_neg hne, hrole]
          rw [hr, hrole]; dsimp only
          rw [hrole] at hneed hf
          have hc := LC.role_leaderInit (s.releaseRole cur) (by rw [hr, hrole]; exact fun x => by cases x)
          cases hrl : (s.releaseRole cur).leaderInit.role with
          | candidate => exact absurd hrl hc
          | leader => rw [LC.need_self]; omega
          | follower => unfold LC.need; simp; omega
      · exact h2
      · intro hl _
        exact h3 hl

theorem role_snapRun (s : Node) : s.snapRun.role = s.role := by
  unfold Node.snapRun
  split
  · rfl
  · dsimp only
    repeat' split
    all_goals rfl

theorem role_notifyFlr (s : Node) : s.notifyFlr.role = s.role := by
  unfold Node.notifyFlr
  split
  · rfl
  · split
    · rfl
    · exact LC.role_panic _ _

theorem role_onSnapshotTaken (s : Node) : s.onSnapshotTaken.role = s.role := by
  cases hr : s.snapResult with
  | none => unfold Node.onSnapshotTaken; rw [hr]
  | some rs =>
    unfold Node.onSnapshotTaken
    rw [hr]
    dsimp -zeta only
    extract_lets s0 repls nowC0 canC0 nowC canC s1 src s2
    have e1 : s1.role = s.role := by unfold s1; split <;> rfl
    split
    · rw [LC.role_reply]; rfl
    · rw [LC.role_reply]
      unfold s2
      split
      · split
        · rw [role_notifyFlr]; exact e1
        · split
          · rw [role_notifyFlr]; exact e1
          · exact e1
      · rfl

theorem role_shutdown (s : Node) : s.shutdown.role = s.role := by
  unfold Node.shutdown
  dsimp only
  have h1 : ((s.doClose "serverClosed").releaseRole (s.doClose "serverClosed").role).role = s.role := by
    rw [LC.role_releaseRole, LC.role_doClose]
  split
  · split
    · rw [role_onSnapshotTaken, role_snapRun]; exact h1
    · rw [role_snapRun]; exact h1
  · split
    · rw [role_onSnapshotTaken]; exact h1
    · exact h1

/-- `begin` (clearing the ghost outputs) establishes the step invariant from the stable one -/
theorem ti_begin {s : Node} (ra : List Nat) (ord : List (List Nat)) (ho : Order.Ordered s) (c : Core s)
    (hq : g = true → QM s) : TI s true g (s.begin ra ord) :=
  ⟨Order.inv_begin ra ord ho, fun _ => ⟨c.congr rfl, fun hg => (hq hg).congr rfl⟩⟩

/-- **Composition**: one step from an ordered state satisfying `Core` (and `QM` if leader), for an acceptable
operation, keeps the invariant relative to the state the step started from; a node that is leader afterwards
has a queue matching its log. -/
theorem ti_stepAll {s : Node} (op : Op) (ra : List Nat) (ord : List (List Nat)) (ho : Order.Ordered s)
    (c : Core s) (hq : s.role = .leader → QM s) (hr : Order.ReqOk s op) :
    TI s true false (s.step op ra ord) ∧ ((s.step op ra ord).role = .leader → TI s true true (s.step op ra ord)) := by
  unfold Node.step
  dsimp only
  have hr' : Order.ReqOk (s.begin ra ord) op := by cases op <;> exact hr
  have hrole : (s.begin ra ord).role = s.role := rfl
  have hH : TI s true false ((s.begin ra ord).handle op) ∧
      (s.role = .leader → ((s.begin ra ord).handle op).role = .leader → TI s true true ((s.begin ra ord).handle op)) := by
    by_cases hl : s.role = .leader
    · obtain ⟨a1, a2⟩ := ti_handle_true op (ti_begin ra ord ho c (fun _ => hq hl)) hr'
      exact ⟨a1, fun _ => a2⟩
    · exact ⟨ti_handle_false op (ti_begin ra ord ho c (fun e => Bool.noConfusion e)) (by rw [hrole]; exact hl) hr',
        fun e => absurd e hl⟩
  split
  · exact ⟨hH.1, fun hl => by
      -- shutdown: no role transition; `releaseRole` keeps the role, so the node was leader before
      have hl0 : s.role = .leader := by
        have : ((s.begin ra ord).handle Op.shutdown).role = (s.begin ra ord).role := role_shutdown _
        rw [← hrole, ← this]; exact hl
      exact hH.2 hl0 hl⟩
  · apply ti_settle
    · exact Nat.le_trans (LC.need_le _ _) (by decide)
    · exact hH.1
    · intro hc hl
      exact hH.2 (by rw [← hrole]; exact hc) hl

end Track
end Raft
