/-
The invariant of the cluster system with installation of snapshots (Sys/Snap3.lean): a completed APPEND step, whatever
the request — also one that overwrites the first entry of a log that starts exactly at its snapshot index (which the
un-compaction of Lemmas/SnapRelU*.lean cannot follow on the segment list).

The virtual node is regrouped to the un-compaction that keeps the segment list (`SnapInstV.V`; `SnapInv.sinv_regroup`:
the invariants read the segment list only through `lastSegPrev`), makes the same step (`SnapInstV.append_step_V`: a step
of stage 1), and is regrouped back; the ledgers do not see the difference (`stepL_append_congr`).
-/
import RaftVerif.Lemmas.SnapInst3b
import RaftVerif.Lemmas.SnapInstV

namespace Raft
namespace SnapInst3
open Node Election LogRel Replication CommitRel Commit C02Sys C03Sys SnapRel SnapRelU SnapSim Snap Snap2 SnapInv SnapInv2
open SnapInst SnapInstU Snap3 SnapFrame SnapInstV

section
variable {V : List Nat}

/-- the ledgers of an append step read of the nodes only the term, the cached last coordinates, the role, the reply and
the log entries -/
theorem stepL_append_congr (z : Commit.Sys) (M : Nat → Node) (i : Nat) (q : AppendReq) (src : Nat) (P P' : Node)
    (N : Nat → Node)
    (h1 : (M i).term = (z.node i).term) (h2 : (M i).lastLogIndex = (z.node i).lastLogIndex)
    (h3 : (M i).lastLogTerm = (z.node i).lastLogTerm)
    (p1 : P'.term = P.term) (p2 : P'.votedFor = P.votedFor) (p3 : P'.role = P.role) (p4 : P'.rpcReply = P.rpcReply)
    (p5 : P'.log.entries = P.log.entries) :
    withNodes (stepL (withNodes z M) i (.append q) src P') N = withNodes (stepL z i (.append q) src P) N := by
  have hn : (withNodes z M).node i = M i := rfl
  unfold stepL
  rw [hn]
  unfold selfGrant campOf ackOf selfAck newCommit
  simp only [h1, h2, h3, p1, p2, p3, p4, p5]
  rfl

/-- the two un-compactions of a node differ only in the segment list -/
theorem snapStep_UV (β : List Entry) (s : Node) (hne : s.log.segs ≠ []) (hso : SnapOK (U β s)) :
    SnapStep (U β s) (SnapInstV.V β s) ∧ SnapStep (SnapInstV.V β s) (U β s) := by
  have hlsp : (vLog β s.log).lastSegPrev = (uncLog β s.log).lastSegPrev := by
    rw [vLog_lastSegPrev _ hne, uncLog_lastSegPrev]
  have hlast : (vLog β s.log).last = (uncLog β s.log).last := by rw [vLog_last, uncLog_last]
  constructor
  · refine ⟨⟨rfl, rfl, rfl, rfl, rfl, rfl, rfl, Nat.le_refl _, fun hw => ?_, rfl, rfl, rfl, rfl, rfl, rfl⟩, rfl,
      ⟨hso.retain, hso.files, hso.head, hso.le⟩, Nat.le_refl _, fun g hg => Or.inl hg⟩
    show C06.LogWF (vLog β s.log)
    have hw' : C06.LogWF (uncLog β s.log) := hw
    unfold C06.LogWF at hw' ⊢
    rw [hlsp, hlast]; exact hw'
  · refine ⟨⟨rfl, rfl, rfl, rfl, rfl, rfl, rfl, Nat.le_refl _, fun hw => ?_, rfl, rfl, rfl, rfl, rfl, rfl⟩, rfl,
      ⟨hso.retain, hso.files, hso.head, hso.le⟩, Nat.le_refl _, fun g hg => Or.inl hg⟩
    show C06.LogWF (uncLog β s.log)
    have hw' : C06.LogWF (vLog β s.log) := hw
    unfold C06.LogWF at hw' ⊢
    rw [← hlsp, ← hlast]; exact hw'

/-- **a completed append step, whatever the request** -/
theorem step3_append (hV : V.Nodup) {x : Snap3.Sys} (hI3 : Inv3 V x) (hS : Side3 V x) {i : Nat} {q : AppendReq}
    {ra : List Nat} {ord : List (List Nat)} {src : Nat} (en : Snap.Enabled x.s2.cs i (.append q) src)
    (hp : ((x.node i).step (.append q) ra ord).panicked = none)
    (hS' : Side3 V { x with s2 := stepS x.s2 i (.append q) ra ord src }) :
    SInv V (view (stepS x.s2 i (.append q) ra ord src)) ∧ PrevOK ((x.node i).step (.append q) ra ord) ∧
    VTerm { x with s2 := stepS x.s2 i (.append q) ra ord src } i := by
  have hI := hI3.sinv
  have hP := hI3.prev
  have hfl : (x.node i).log.prev ≤ (x.node i).log.flushed :=
    prev_le_flushed (x.s2.base i) (hS.segs i) (vnode_lwf3 hI i)
  have hne : (x.node i).log.segs ≠ [] := fun h => by
    have := (hS.segs i).head; rw [h] at this; cases this
  have hav : AV (x.node i) := ⟨(hP i).le, hne⟩
  have so : SnapOK (x.vnode i) := hI.snap i
  have hnep0 : ((x.node i).step (.append q) ra ord).log.segs ≠ [] := fun h => by
    have := (hS'.segs i).head
    have e : ({ x with s2 := stepS x.s2 i (.append q) ra ord src } : Snap3.Sys).node i =
        (x.node i).step (.append q) ra ord := stepS_node_i _ _ _ _ _ _
    rw [e, h] at this; cases this
  have hcomm0 := append_step_V (β := x.s2.base i) (x.node i) q ra ord hav hp
  -- frame facts of the real step
  have fr := step_frame (x.node i) (.append q) ra ord trivial (hP i).le hfl
  obtain ⟨f1, _, f3, f4, f5⟩ := fr
  obtain ⟨_, g2, g3, _⟩ := append_snap_frame (x.node i) q ra ord
  have hyi : ({ x with s2 := stepS x.s2 i (.append q) ra ord src } : Snap3.Sys).node i =
      (x.node i).step (.append q) ra ord := stepS_node_i _ _ _ _ _ _
  have hSyv : SideS V (view (stepS x.s2 i (.append q) ra ord src)) := sideS_view3 hS'
  generalize hpost : (x.node i).step (.append q) ra ord = post at *
  have hpost' : (x.s2.node i).step (.append q) ra ord = post := hpost
  -- the virtual node of the state after the step
  have hb : newBase x.s2 i post.log.prev = pad (x.s2.base i) (x.node i).log.prev := by
    unfold newBase Snap2.Sys.vlog Snap2.Sys.vnode
    rw [f1]
    exact take_vlog (x.s2.base i) (x.node i).log
  have hUb : U (newBase x.s2 i post.log.prev) post = U (x.s2.base i) post := by
    rw [hb, U_pad _ _ _ f1 (fun pt hpt => (f5 pt hpt).1)]
  -- step 1: regroup the virtual node of `i` to `V`
  obtain ⟨ss1, _⟩ := snapStep_UV (x.s2.base i) (x.node i) hne so
  have hI1 := sinv_regroup hI ss1
  obtain ⟨X1, hX1⟩ : ∃ X1 : Snap.Sys, X1 = { cs := withNodes (view x.s2).cs (setNode (view x.s2).cs.rp.el.node i (SnapInstV.V (x.s2.base i) (x.node i))), snaps := newSnaps i ((view x.s2).node i).snapsDisk (SnapInstV.V (x.s2.base i) (x.node i)).snapsDisk ++ (view x.s2).snaps } :=
    ⟨_, rfl⟩
  rw [← hX1] at hI1
  have hx1i : X1.node i = SnapInstV.V (x.s2.base i) (x.node i) := by rw [hX1]; exact setNode_same _ _ _
  have hx1j : ∀ j, j ≠ i → X1.node j = x.vnode j := fun j hj => by rw [hX1]; exact setNode_other _ _ _ _ hj
  have hx1sent : X1.cs.rp.sent = x.s2.cs.rp.sent := by rw [hX1]; rfl
  have hSX1 : SideS V X1 := by
    refine ⟨⟨fun j => ?_, fun j => ?_⟩, fun j => ?_, fun j => ?_⟩
    · show (X1.node j).configs.isBootstrapped = true ∧ (X1.node j).configs.latest.voters = V
      by_cases hj : j = i
      · subst hj; rw [hx1i]; exact hS.sideV.1 j
      · rw [hx1j j hj]; exact hS.sideV.1 j
    · show (X1.node j).configs.latest.isStable = true
      by_cases hj : j = i
      · subst hj; rw [hx1i]; exact hS.sideV.2 j
      · rw [hx1j j hj]; exact hS.sideV.2 j
    · by_cases hj : j = i
      · subst hj; rw [hx1i]; rfl
      · rw [hx1j j hj]; rfl
    · show ∀ e ∈ (X1.node j).log.entries, e.typ = etConfig → e.cfg.isSome = true
      by_cases hj : j = i
      · subst hj; rw [hx1i]; exact hS.dec j
      · rw [hx1j j hj]; exact hS.dec j
  have hx1i' : X1.cs.node i = SnapInstV.V (x.s2.base i) (x.node i) := hx1i
  have en1 : Snap.Enabled X1.cs i (.append q) src := by
    refine ⟨en.id, (fun q' h => by cases h), (fun hc => ?_), en.ok2, (fun q' hq' => ?_), (fun q' h => by cases h),
      en.appendSrc, (fun us h => by cases h)⟩
    · obtain ⟨_, _, _, he⟩ := hc; cases he
    · have := en.append q' hq'
      show q'.term < (X1.cs.node i).term ∨ q' ∈ X1.cs.rp.sent
      rw [hx1i', hx1sent]; exact this
  -- step 2: the virtual node makes the step (stage 1)
  have hstep1 : (X1.node i).step (.append q) ra ord = SnapInstV.V (x.s2.base i) post := by rw [hx1i, hcomm0]
  have hp1 : ((X1.node i).step (.append q) ra ord).panicked = none := by rw [hstep1]; exact hp
  obtain ⟨Y1, hY1⟩ : ∃ Y1 : Snap.Sys, Y1 = { cs := stepC X1.cs i (.append q) ra ord src, snaps := newSnaps i (X1.node i).snapsDisk ((X1.node i).step (.append q) ra ord).snapsDisk ++ X1.snaps } :=
    ⟨_, rfl⟩
  have ht : Snap.Trans X1 Y1 := by
    rw [hY1]; exact Snap.Trans.step i (.append q) ra ord src en1 hp1 (fun h => nomatch h)
  obtain ⟨_, hk⟩ := vstep_keep hV hI1 hSX1 en1 (by intro h; cases h) (by intro h; cases h) (ra := ra) (ord := ord)
  rw [hstep1, hx1i] at hk
  have hY1i : Y1.node i = SnapInstV.V (x.s2.base i) post := by
    rw [hY1]
    show (stepC X1.cs i (.append q) ra ord src).node i = _
    rw [stepC_node_i]; exact hstep1
  have hY1j : ∀ j, j ≠ i → Y1.node j = x.vnode j := fun j hj => by
    rw [hY1]
    show (stepC X1.cs i (.append q) ra ord src).node j = _
    rw [stepC_node_j _ _ _ _ _ _ hj]; exact hx1j j hj
  have hvy : ∀ j, (stepS x.s2 i (.append q) ra ord src).vnode j =
      if j = i then U (x.s2.base i) post else x.vnode j := by
    intro j; rw [view_stepS_node]; split
    · rw [hpost']; exact hUb
    · rfl
  have hSY1 : SideS V Y1 := by
    refine ⟨⟨fun j => ?_, fun j => ?_⟩, fun j => ?_, fun j => ?_⟩
    · show (Y1.node j).configs.isBootstrapped = true ∧ (Y1.node j).configs.latest.voters = V
      have := hSyv.sideV.1 j
      have this' : ((stepS x.s2 i (.append q) ra ord src).vnode j).configs.isBootstrapped = true ∧
          ((stepS x.s2 i (.append q) ra ord src).vnode j).configs.latest.voters = V := this
      rw [hvy] at this'
      by_cases hj : j = i
      · subst hj; rw [hY1i]; rw [if_pos rfl] at this'; exact this'
      · rw [hY1j j hj]; rw [if_neg hj] at this'; exact this'
    · show (Y1.node j).configs.latest.isStable = true
      have := hSyv.sideV.2 j
      have this' : ((stepS x.s2 i (.append q) ra ord src).vnode j).configs.latest.isStable = true := this
      rw [hvy] at this'
      by_cases hj : j = i
      · subst hj; rw [hY1i]; rw [if_pos rfl] at this'; exact this'
      · rw [hY1j j hj]; rw [if_neg hj] at this'; exact this'
    · show (Y1.node j).log.prev = 0
      by_cases hj : j = i
      · subst hj; rw [hY1i]; rfl
      · rw [hY1j j hj]; rfl
    · show ∀ e ∈ (Y1.node j).log.entries, e.typ = etConfig → e.cfg.isSome = true
      have := hSyv.dec j
      have this' : ∀ e ∈ ((stepS x.s2 i (.append q) ra ord src).vnode j).log.entries,
          e.typ = etConfig → e.cfg.isSome = true := this
      rw [hvy] at this'
      by_cases hj : j = i
      · subst hj; rw [hY1i]; rw [if_pos rfl] at this'; exact this'
      · rw [hY1j j hj]; rw [if_neg hj] at this'; exact this'
  have hIY1 := inv_trans hV hI1 hSX1 ht hSY1
  -- step 3: regroup back to `U`
  have hsoP : SnapOK (U (x.s2.base i) post) := by
    have h' : SnapOK (Y1.node i) := hIY1.snap i
    rw [hY1i] at h'
    exact ⟨h'.retain, h'.files, h'.head, h'.le⟩
  obtain ⟨_, ss2⟩ := snapStep_UV (x.s2.base i) post hnep0 hsoP
  have ss2' : SnapStep (Y1.node i) (U (x.s2.base i) post) := by rw [hY1i]; exact ss2
  have hI2 := sinv_regroup hIY1 ss2'
  -- step 4: this is the view of the state after the step
  have hview : view (stepS x.s2 i (.append q) ra ord src) =
      { cs := withNodes Y1.cs (setNode Y1.cs.rp.el.node i (U (x.s2.base i) post)), snaps := newSnaps i (Y1.node i).snapsDisk (U (x.s2.base i) post).snapsDisk ++ Y1.snaps } := by
    refine sys_ext ?_ ?_
    · show withNodes (withNodes (stepL (view x.s2).cs i (.append q) src _) _) (stepS x.s2 i (.append q) ra ord src).vnode = _
      rw [withNodes_withNodes, hpost', hUb, hY1]
      show _ = withNodes (stepC X1.cs i (.append q) ra ord src) (setNode (stepC X1.cs i (.append q) ra ord src).rp.el.node i _)
      rw [stepC_eq, hx1i', hcomm0, hX1]
      show _ = withNodes (stepL (withNodes (view x.s2).cs
          (setNode (view x.s2).cs.rp.el.node i (SnapInstV.V (x.s2.base i) (x.node i)))) i (.append q) src
          (SnapInstV.V (x.s2.base i) post)) _
      rw [stepL_append_congr (view x.s2).cs (setNode (view x.s2).cs.rp.el.node i (SnapInstV.V (x.s2.base i) (x.node i))) i q src
        (U (x.s2.base i) post) (SnapInstV.V (x.s2.base i) post) _
        (by rw [setNode_same]; rfl) (by rw [setNode_same]; rfl) (by rw [setNode_same]; rfl) rfl rfl rfl rfl rfl]
      congr 1
      funext j
      rw [hvy]
      show _ = setNode (setNode (setNode (view x.s2).cs.rp.el.node i _) i _) i _ j
      unfold setNode
      split <;> rfl
    · show newSnaps i (x.node i).snapsDisk ((x.s2.node i).step (.append q) ra ord).snapsDisk ++ x.s2.snaps = _
      rw [hpost']
      have e1 : (Y1.node i).snapsDisk = post.snapsDisk := by rw [hY1i]; rfl
      have e2 : (X1.node i).snapsDisk = (x.node i).snapsDisk := by rw [hx1i]; rfl
      have e3 : ((X1.node i).step (.append q) ra ord).snapsDisk = post.snapsDisk := by rw [hstep1]; rfl
      have e4 : X1.snaps = newSnaps i (x.node i).snapsDisk (x.node i).snapsDisk ++ x.s2.snaps := by rw [hX1]; rfl
      have e5 : Y1.snaps = newSnaps i (X1.node i).snapsDisk ((X1.node i).step (.append q) ra ord).snapsDisk ++ X1.snaps := by
        rw [hY1]
      rw [e1, e5, e2, e3, e4]
      show _ = newSnaps i post.snapsDisk post.snapsDisk ++ _
      rw [g3, newSnaps_same, List.nil_append, List.nil_append, List.nil_append]
  refine ⟨by rw [hview]; exact hI2, ⟨by rw [f1, f3]; exact (hP i).le, fun rs hrs => by
      rw [f3]; exact (hP i).res rs (by rw [← f4]; exact hrs)⟩, ?_⟩
  -- the snapshot files still agree with the virtual log
  have hv := hI3.vterm i
  have hsc : (x.node i).snapIndex ≤ (x.node i).commitIndex := by
    show (x.vnode i).snapIndex ≤ (x.vnode i).commitIndex
    rw [so.head]; exact so.files.head_le
  have hk' : (U (x.s2.base i) post).log.entries.take (x.node i).commitIndex = (x.vlog i).take (x.node i).commitIndex := hk
  refine ⟨?_, ?_⟩
  · show ∀ f ∈ (({ x with s2 := stepS x.s2 i (.append q) ra ord src } : Snap3.Sys).node i).snapsDisk,
      termAt ((stepS x.s2 i (.append q) ra ord src).vnode i).log.entries f.index = f.term
    rw [hyi, view_stepS_node, if_pos rfl, hpost', hUb, g3]
    intro f hf
    have hfi : f.index ≤ (x.node i).commitIndex := by
      have h1 : f.index ≤ (headOf (x.node i).snapsDisk).index := so.files.le_head f hf
      have h2 : (x.node i).snapIndex = (headOf (x.node i).snapsDisk).index := so.head
      omega
    rw [termAt_take_eq hk' hfi]
    exact hv.files f hf
  · show (({ x with s2 := stepS x.s2 i (.append q) ra ord src } : Snap3.Sys).node i).snapTerm =
      (headOf (({ x with s2 := stepS x.s2 i (.append q) ra ord src } : Snap3.Sys).node i).snapsDisk).term
    rw [hyi, g2, g3]; exact hv.head

end

end SnapInst3
end Raft
