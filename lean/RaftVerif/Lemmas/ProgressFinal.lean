/-
The complete run of the possibility proof (Props/C17Sys.lean): the election run (Lemmas/ProgressRun.lean) followed
by replication, commit and the heartbeat that lets the followers commit and apply (Lemmas/ProgressRepl.lean).
-/
import RaftVerif.Lemmas.ProgressRepl

namespace Raft
namespace Progress
open Node LogRel CommitRel Commit C02Sys NoPanic SysInv
open Replication (ReadFrom)
open Election (FixedV setNode setNode_same setNode_other)

section final
variable {V : List Nat}

/-- a node whose log holds no entry of the leader's term `T` has not committed the leader's entry `(N, T)` -/
theorem commit_lt (hV : V.Nodup) {u : Commit.Sys} (hu : ReachableG V u) {w j N T : Nat}
    (hl : (u.node w).role = .leader) (hT : (u.node w).term = T) (hw : Holds (u.node w).log.entries N T)
    (hj : (u.node j).term ≤ T) (hlog : ∀ e ∈ (u.node j).log.entries, e.term < T) :
    (u.node j).commitIndex < N := by
  obtain ⟨hI, _⟩ := inv_reachable hV (reachableG_V hu)
  apply Nat.lt_of_not_le
  intro hle
  obtain ⟨h1, _⟩ := (leader_completeness_sys_partial V hV u (reachableG_V hu)).2.1 w j N hl (by rw [hT]; exact hj)
    hw.1 hle
  obtain ⟨e, he, het⟩ := holds_get hw
  rw [(nwf hI w).get?, (nwf hI j).get?, if_pos (show 0 < N from hw.1), if_pos (show 0 < N from hw.1), he] at h1
  have hmem : e ∈ (u.node j).log.entries := List.mem_of_getElem? h1.symm
  have := hlog e hmem
  omega

/-- two logs of a reachable state that hold the same entry coordinates at `N` agree up to `N` -/
theorem take_eq_of_holds {y : Commit.Sys} (hI : CInv V y) {i j N τ : Nat} (hi : Holds (y.node i).log.entries N τ)
    (hj : Holds (y.node j).log.entries N τ) :
    (y.node i).log.entries.take N = (y.node j).log.entries.take N := by
  apply List.ext_getElem?
  intro k
  rw [List.getElem?_take, List.getElem?_take]
  split
  · rename_i hk
    have := same_entries hI hi hj (k' := k + 1) (by omega) (by omega)
    rw [(nwf hI i).get?, (nwf hI j).get?, if_pos (by omega), if_pos (by omega)] at this
    simpa using this
  · rfl

/-- match-index reports backed by acknowledgements may be delivered to the leader -/
theorem enabled_match {u : Commit.Sys} {w N : Nat} (hw0 : w ≠ 0) (js : List Nat)
    (hack : ∀ j ∈ js, ∃ a ∈ u.acks, a.voter = j ∧ a.term = (u.node w).term ∧ N ≤ a.index) :
    Commit.Enabled u w (.replUpdates (js.map (mkMatch N))) 0 ∧ EnabledG u w (.replUpdates (js.map (mkMatch N))) := by
  have hmem : ∀ x ∈ js.map (mkMatch N), ∃ j ∈ js, x = mkMatch N j := by
    intro x hx
    obtain ⟨j, hj, e⟩ := List.mem_map.mp hx
    exact ⟨j, hj, e.symm⟩
  refine ⟨enabled_intro hw0 (fun _ h => by cases h) (fun _ h => by cases h) (fun _ h => by cases h)
    (fun _ _ h => by cases h) ?_ ?_ ?_, ⟨?_, fun _ _ _ h => by cases h⟩⟩
  · rintro ⟨_, _, _, h⟩; cases h
  · intro x hx v hv
    obtain ⟨j, _, e⟩ := hmem x hx
    rw [e] at hv; cases hv
  · intro us h x hx v hv
    injection h with h; subst h
    obtain ⟨j, hj, e⟩ := hmem x hx
    rw [e] at hv ⊢
    injection hv with hv
    right
    obtain ⟨a, ha, a1, a2, a3⟩ := hack j hj
    exact ⟨a, ha, a1, a2, by rw [← hv]; exact a3⟩
  · intro us h _ x hx _ v hv
    injection h with h; subst h
    obtain ⟨j, _, e⟩ := hmem x hx
    rw [e] at hv; cases hv

/-- the request of leader `w` (term `T`) that carries its whole log `L` above index 1, stamped with commit index 0 -/
def fullReq (T w : Nat) (L : List Entry) : AppendReq :=
  { term := T, src := w, prevLogIndex := 1, prevLogTerm := termAt L 1, ldrCommitIndex := 0, entries := L.drop 1 }

/-- the heartbeat of leader `w` (term `T`): previous entry `(N, T)`, no entries, commit index `N` -/
def beatReq (T w N : Nat) : AppendReq :=
  { term := T, src := w, prevLogIndex := N, prevLogTerm := T, ldrCommitIndex := N, entries := [] }

/-- the state `y` reached by the complete run from `x`: `w ∈ M` is leader of the term `T`, above every term the nodes
of `M` had in `x`; its log extends the log it had in `x` and holds at `N` (beyond the old log) an entry of term `T`;
it has committed `N` and applied everything up to its commit index; every other node of `M` is a follower of term
`T` whose log agrees with the leader's up to `N`, with commit index `N` and applied index `N`. -/
structure ProgressSys (M : List Nat) (x y : Commit.Sys) (w T N : Nat) : Prop where
  wM : w ∈ M
  termGt : ∀ i ∈ M, (x.node i).term < T
  role : (y.node w).role = .leader
  term : (y.node w).term = T
  ownEntry : Holds (y.node w).log.entries N T
  oldLog : (x.node w).log.entries <+: (y.node w).log.entries ∧ (x.node w).log.entries.length < N
  commit : N ≤ (y.node w).commitIndex
  applied : (y.node w).fsm.index = (y.node w).commitIndex
  followers : ∀ j ∈ M, j ≠ w → (y.node j).role = .follower ∧ (y.node j).term = T ∧
    (y.node j).log.entries.take N = (y.node w).log.entries.take N ∧ (y.node j).commitIndex = N ∧
    (y.node j).fsm.index = N
  outside : ∀ i, i ∉ M → y.node i = x.node i
  openM : ∀ i ∈ M, (y.node i).closed = ""
  cfgM : ∀ i ∈ M, (y.node i).configs.latest = (x.node i).configs.latest

/-- **the complete run**: election (phases A–D), then replication, commit and heartbeat (phases E–G); at most
`6 * |M| + 1` labels, all of nodes of `M`, at most two election timeouts per node. -/
theorem progress_run (hV : V.Nodup) {x : Commit.Sys} (hx : ReachableG V x) (M : List Nat)
    (hM : M.Nodup) (hMV : ∀ i ∈ M, i ∈ V) (hmaj : 2 * M.length > V.length) (h0 : ∀ i ∈ M, i ≠ 0)
    (hopen : ∀ i ∈ M, (x.node i).closed = "") (hids : ∀ i ∈ M, (x.node i).configs.latest.ids.Nodup) :
    ∃ ls y w T N, Exec V x ls y ∧ RunOK M ls (6 * M.length + 1) (fun j => if j ∈ M then 2 else 0) ∧
      ProgressSys M x y w T N := by
  obtain ⟨ls0, u, w, T, ex0, ok0, el⟩ := election_run hV hx M hM hMV hmaj h0 hopen hids
  have hu := Exec.reachable hV hx ex0
  have hw0 := h0 w el.wM
  have fw := facts hV hu w
  have hvot : ∀ i ∈ M, ∀ j ∈ M, (x.node i).configs.latest.isVoter j = true :=
    fun i hi j hj => isVoter_of_mem (facts hV hx i) (hids i hi) (hMV j hj)
  obtain ⟨jsN, jsL, jsM⟩ := others_facts hM el.wM
  -- the leader's log
  obtain ⟨es, hes0, hLw, hesT⟩ := el.ext
  have hlenx : 1 ≤ (x.node w).log.entries.length := (facts hV hx w).lastPos
  have heslen : 1 ≤ es.length := List.length_pos_iff.mpr hes0
  generalize hN : (u.node w).log.entries.length = N at *
  have hNeq : N = (x.node w).log.entries.length + es.length := by rw [← hN, hLw, List.length_append]
  have hNT : termAt (u.node w).log.entries N = T := by
    rw [hLw]
    exact termAt_append_right _ _ _ hesT N (by omega) (by rw [List.length_append]; omega)
  have hholdsW : Holds (u.node w).log.entries N T := ⟨by omega, by rw [hN]; exact Nat.le_refl _, hNT⟩
  -- commit indexes below `N`
  have hciW : (u.node w).commitIndex < N := by
    rw [el.commitIndex]
    have f := facts hV hx w
    have := f.good.ordered.commit_le_last
    rw [f.nwf.last] at this
    omega
  have hciJ : ∀ j ∈ M, j ≠ w → (u.node j).commitIndex < N := by
    intro j hj hjw
    obtain ⟨k, _, t⟩ := el.others j hj hjw
    refine commit_lt hV hu el.role el.term hholdsW (by rw [t]; exact Nat.le_refl _) ?_
    rw [k.log]
    intro e he
    exact Nat.lt_of_le_of_lt ((facts hV hx j).termLe e he) (el.termGt j hj)
  -- phase E: the request carrying the whole log above index 1
  have hrf1 : ReadFrom (u.node w) (fullReq T w (u.node w).log.entries) :=
    ⟨el.term.symm, fw.nid.symm, by show 1 ≤ (u.node w).log.entries.length; rw [hN]; omega, rfl,
      ⟨N, by
        show (u.node w).log.entries.drop 1 = ((u.node w).log.entries.drop 1).take N
        rw [List.take_of_length_le]
        rw [List.length_drop, hN]; omega⟩⟩
  generalize hq1 : fullReq T w (u.node w).log.entries = q1 at hrf1
  have q1f : q1.term = T ∧ q1.src = w ∧ q1.prevLogIndex = 1 ∧ q1.prevLogTerm = termAt (u.node w).log.entries 1 ∧
      q1.ldrCommitIndex = 0 ∧ q1.entries = (u.node w).log.entries.drop 1 := by
    rw [← hq1]; exact ⟨rfl, rfl, rfl, rfl, rfl, rfl⟩
  obtain ⟨q1t, q1s, q1p, q1pt, q1c, q1e⟩ := q1f
  have exS1 : Exec V u [.send w q1] (sendC u q1) :=
    .send w q1 (.nil u) hw0 el.role hrf1 (by rw [q1c]; exact Nat.zero_le _)
  have hu1 := Exec.reachable hV hu exS1
  have n1 : ∀ i, (sendC u q1).node i = u.node i := fun _ => rfl
  have hjpre : ∀ j ∈ M.filter (· != w), j ≠ 0 ∧ q1.src ≠ j ∧ ¬ q1.term < ((sendC u q1).node j).term ∧
      ((sendC u q1).node j).closed = "" ∧ ((sendC u q1).node j).configs.latest.has j = true ∧
      q1.prevLogIndex ≤ ((sendC u q1).node j).log.entries.length ∧
      termAt ((sendC u q1).node j).log.entries q1.prevLogIndex = q1.prevLogTerm := by
    intro j hj
    obtain ⟨hjM, hjw⟩ := (jsM j).mp hj
    obtain ⟨k, _, t⟩ := el.others j hjM hjw
    rw [n1]
    refine ⟨h0 j hjM, by rw [q1s]; exact fun e => hjw e.symm, by rw [q1t, t]; exact Nat.lt_irrefl _,
      by rw [k.closed]; exact hopen j hjM, ?_, by rw [q1p]; exact (facts hV hu j).lastPos, ?_⟩
    · rw [k.configs]; exact has_of_isVoter _ _ (hvot j hjM j hjM)
    · rw [q1p, q1pt]; exact first_term_eq hV hu j w
  obtain ⟨lsE, u2, exE, lenE, actE, tmE, othE, allE, sentE, acksE⟩ := append_all hV q1 (by rw [q1p]; exact Nat.le_refl _)
    (M.filter (· != w)) (sendC u q1) hu1 jsN (List.mem_cons_self ..) hjpre
  have hu2 := Exec.reachable hV hu1 exE
  have hw2 : u2.node w = u.node w := by rw [othE w (fun h => ((jsM w).mp h).2 rfl)]; rfl
  -- what the followers hold now
  have hlastmem : ∃ e ∈ q1.entries, e.index = N ∧ e.term = T := by
    obtain ⟨e, he, het⟩ := holds_get hholdsW
    refine ⟨e, ?_, ?_, het⟩
    · rw [q1e]
      have hk : N - 1 < (u.node w).log.entries.length := by rw [hN]; omega
      have : e = (u.node w).log.entries[N - 1] := by
        rw [List.getElem?_eq_getElem hk] at he; injection he with he; exact he.symm
      rw [this]
      have hk' : N - 2 < ((u.node w).log.entries.drop 1).length := by rw [List.length_drop, hN]; omega
      have e2 : ((u.node w).log.entries.drop 1)[N - 2] = (u.node w).log.entries[N - 1] := by
        rw [List.getElem_drop]
        congr 1; omega
      rw [← e2]; exact List.getElem_mem hk'
    · have hk : N - 1 < (u.node w).log.entries.length := by rw [hN]; omega
      rw [List.getElem?_eq_getElem hk] at he; injection he with he
      rw [← he, fw.nwf.contig _ hk]; omega
  have hfol2 : ∀ j ∈ M.filter (· != w), Holds (u2.node j).log.entries N T ∧ (u2.node j).commitIndex < N ∧
      (u2.node j).role = .follower ∧ (u2.node j).term = T ∧ (u2.node j).closed = "" ∧
      (u2.node j).configs.latest.has j = true ∧
      ∃ a ∈ u2.acks, a.voter = j ∧ a.term = T ∧ N ≤ a.index := by
    intro j hj
    obtain ⟨hjM, hjw⟩ := (jsM j).mp hj
    obtain ⟨k, _, t⟩ := el.others j hjM hjw
    have ap := allE j hj
    rw [n1] at ap
    obtain ⟨e, he, hei, het⟩ := hlastmem
    have hh := ap.holds e he
    rw [hei, het] at hh
    have hci : (u2.node j).commitIndex = (u.node j).commitIndex := by
      rcases ap.ci with c | ⟨c1, c2⟩
      · exact c
      · rw [q1c] at c2; omega
    have hlen1 : q1.prevLogIndex + q1.entries.length = N := by
      rw [q1p, q1e, List.length_drop, hN]; omega
    obtain ⟨a, ha, a1, a2, a3⟩ := ap.ack (by rw [hlen1]; omega)
    refine ⟨hh, by rw [hci]; exact hciJ j hjM hjw, ap.role, by rw [ap.term, q1t],
      by rw [ap.closed, k.closed]; exact hopen j hjM, ?_, a, ha, a1, by rw [a2, q1t], by rw [a3, hlen1]; exact Nat.le_refl _⟩
    rw [ap.cfg, k.configs]; exact has_of_isVoter _ _ (hvot j hjM j hjM)
  -- phase F: the leader commits
  have f2 := facts hV hu2 w
  obtain ⟨hI2, hS2⟩ := inv_reachable hV (reachableG_V hu2)
  have hrole2 : (u2.node w).role = .leader := by rw [hw2]; exact el.role
  have hclosed2 : (u2.node w).closed = "" := by rw [hw2]; exact el.closed
  obtain ⟨heF, heGF⟩ := enabled_match (u := u2) (w := w) (N := N) hw0 (M.filter (· != w))
    (fun j hj => by
      obtain ⟨_, _, _, _, _, _, a, ha, a1, a2, a3⟩ := hfol2 j hj
      exact ⟨a, ha, a1, by rw [a2, hw2, el.term], a3⟩)
  have hpF := (C19Sys.reqok_in_sys_partial V hV u2 hu2 w _ 0 heF heGF hclosed2 [] []).2.2.1
  have exF := exec_step hV hu2 [] [] heF heGF hclosed2 (fun q h => by cases h)
  have hnidw : (u2.node w).nid = w := f2.nid
  have hcm : Committed N (u2.node w) ((u2.node w).step (.replUpdates ((M.filter (· != w)).map (mkMatch N))) [] []) := by
    have hlo := hI2.node.ldr w hrole2
    have := ack_majority_commits (u2.node w) [] [] M N hrole2 hclosed2
      (by rw [f2.nwf.last, hw2]; exact hN) (by rw [hw2]; exact hciW)
      (by have := hlo.startLe; rw [hw2, hN] at this; rw [hw2]; exact this)
      (f2.good.leaderCacheOpen hclosed2 hrole2) f2.stable
      (by rw [hnidw, hw2, el.cfg]; exact hvot w el.wM w el.wM) (by rw [f2.voters]; exact hV)
      (by rw [numVoters_eq f2]; exact two_voters f2 (List.ne_nil_of_mem (hMV w el.wM))) hM
      (fun v hv => by rw [f2.voters]; exact hMV v hv) (by rw [f2.voters]; exact hmaj)
      (by
        obtain ⟨j, hj⟩ : ∃ j, j ∈ M.filter (· != w) := by
          apply List.exists_mem_of_ne_nil
          intro e
          rw [e] at jsL
          have : V.length ≥ 2 := two_voters f2 (List.ne_nil_of_mem (hMV w el.wM))
          simp at jsL
          omega
        exact ⟨j, ((jsM j).mp hj).1, by rw [hnidw]; exact ((jsM j).mp hj).2⟩)
    rw [hnidw] at this
    exact this hpF
  generalize hu3def : stepC u2 w (.replUpdates ((M.filter (· != w)).map (mkMatch N))) [] [] 0 = u3 at exF
  have hu3 := Exec.reachable hV hu2 exF
  have hw3 : u3.node w = (u2.node w).step (.replUpdates ((M.filter (· != w)).map (mkMatch N))) [] [] := by
    rw [← hu3def]; exact stepC_node_i w _ _ _ _
  have hoth3 : ∀ i, i ≠ w → u3.node i = u2.node i := by
    intro i hi; rw [← hu3def]; exact stepC_node_j w _ _ _ _ hi
  rw [← hw3] at hcm
  -- the leader's log still holds `(N, T)`
  have hext3 : (u2.node w).log.entries <+: (u3.node w).log.entries := by
    have hok : OpOK (.replUpdates ((M.filter (· != w)).map (mkMatch N))) := heF.rp.ok
    have ls := leader_step (u2.node w) _ [] [] f2.nwf f2.wf f2.boot hok (fun q h => by cases h) f2.candPos
    obtain ⟨es', _, e1, _⟩ := ls.ext
    rw [hw3, e1]; exact List.prefix_append _ _
  have hholds3 : Holds (u3.node w).log.entries N T := by
    have : Holds (u2.node w).log.entries N T := by rw [hw2]; exact hholdsW
    exact holds_prefix hext3 this
  -- phase G: the heartbeat
  have f3 := facts hV hu3 w
  have hrf2 : ReadFrom (u3.node w) (beatReq T w N) :=
    ⟨by show T = (u3.node w).term; rw [hcm.term, hw2, el.term], f3.nid.symm, hholds3.2.1, hholds3.2.2.symm,
      ⟨0, by show ([] : List Entry) = _; rw [List.take_zero]⟩⟩
  generalize hq2 : beatReq T w N = q2 at hrf2
  have q2f : q2.term = T ∧ q2.src = w ∧ q2.prevLogIndex = N ∧ q2.prevLogTerm = T ∧
      q2.ldrCommitIndex = N ∧ q2.entries = [] := by
    rw [← hq2]; exact ⟨rfl, rfl, rfl, rfl, rfl, rfl⟩
  obtain ⟨q2t, q2s, q2p, q2pt, q2c, q2e⟩ := q2f
  have exS2 : Exec V u3 [.send w q2] (sendC u3 q2) :=
    .send w q2 (.nil u3) hw0 hcm.role hrf2 (by rw [q2c]; exact hcm.commit)
  have hu4 := Exec.reachable hV hu3 exS2
  have n4 : ∀ i, (sendC u3 q2).node i = u3.node i := fun _ => rfl
  have hjpre2 : ∀ j ∈ M.filter (· != w), j ≠ 0 ∧ q2.src ≠ j ∧ ¬ q2.term < ((sendC u3 q2).node j).term ∧
      ((sendC u3 q2).node j).closed = "" ∧ ((sendC u3 q2).node j).configs.latest.has j = true ∧
      q2.prevLogIndex ≤ ((sendC u3 q2).node j).log.entries.length ∧
      termAt ((sendC u3 q2).node j).log.entries q2.prevLogIndex = q2.prevLogTerm := by
    intro j hj
    obtain ⟨hjM, hjw⟩ := (jsM j).mp hj
    obtain ⟨hh, _, _, t, c, hs, _⟩ := hfol2 j hj
    rw [n4, hoth3 j hjw]
    exact ⟨h0 j hjM, by rw [q2s]; exact fun e => hjw e.symm, by rw [q2t, t]; exact Nat.lt_irrefl _, c, hs,
      by rw [q2p]; exact hh.2.1, by rw [q2p, q2pt]; exact hh.2.2⟩
  obtain ⟨lsG, y, exG, lenG, actG, tmG, othG, allG, _, _⟩ := append_all hV q2 (by rw [q2p]; omega)
    (M.filter (· != w)) (sendC u3 q2) hu4 jsN (List.mem_cons_self ..) hjpre2
  have hy := Exec.reachable hV hu4 exG
  obtain ⟨hIy, _⟩ := inv_reachable hV (reachableG_V hy)
  have hwy : y.node w = u3.node w := by rw [othG w (fun h => ((jsM w).mp h).2 rfl)]; rfl
  refine ⟨(((ls0 ++ [.send w q1]) ++ lsE) ++ [_]) ++ ([.send w q2] ++ lsG), y, w, T, N,
    (((ex0.trans exS1).trans exE).trans exF).trans (exS2.trans exG), ?_, ?_⟩
  · -- bookkeeping
    have none : ∀ (ls : List Lbl), ls.filter Lbl.isTimeout = [] → ∀ i, (ls.filter (Lbl.isTimeoutOf i)).length ≤ 0 := by
      intro ls h i
      apply Nat.le_of_eq
      rw [List.length_eq_zero_iff, List.filter_eq_nil_iff]
      intro l hl ht
      have : l ∈ ls.filter Lbl.isTimeout := List.mem_filter.mpr ⟨hl, by
        cases l with
        | step a op _ _ _ => cases op <;> first | rfl | cases ht
        | send _ _ => cases ht⟩
      rw [h] at this; exact absurd this List.not_mem_nil
    have okS1 : RunOK M [Lbl.send w q1] 1 (fun _ => 0) :=
      ⟨Nat.le_refl _, fun l hl => by rw [List.mem_singleton.mp hl]; exact el.wM, none _ rfl⟩
    have okE : RunOK M lsE (M.filter (· != w)).length (fun _ => 0) :=
      ⟨Nat.le_of_eq lenE, fun l hl => ((jsM _).mp (actE l hl)).1, none _ tmE⟩
    have okF : RunOK M [Lbl.step w (.replUpdates ((M.filter (· != w)).map (mkMatch N))) [] [] 0] 1 (fun _ => 0) :=
      ⟨Nat.le_refl _, fun l hl => by rw [List.mem_singleton.mp hl]; exact el.wM, none _ rfl⟩
    have okS2 : RunOK M [Lbl.send w q2] 1 (fun _ => 0) :=
      ⟨Nat.le_refl _, fun l hl => by rw [List.mem_singleton.mp hl]; exact el.wM, none _ rfl⟩
    have okG : RunOK M lsG (M.filter (· != w)).length (fun _ => 0) :=
      ⟨Nat.le_of_eq lenG, fun l hl => ((jsM _).mp (actG l hl)).1, none _ tmG⟩
    refine ((((ok0.append okS1).append okE).append okF).append (okS2.append okG)).mono (by omega) (fun j => ?_)
    show (if j ∈ M then 2 else 0) + 0 + 0 + 0 + (0 + 0) ≤ _
    omega
  · refine ⟨el.wM, el.termGt, by rw [hwy]; exact hcm.role, by rw [hwy, hcm.term, hw2, el.term],
      by rw [hwy]; exact hholds3, ?_, by rw [hwy]; exact hcm.commit, by rw [hwy]; exact hcm.applied, ?_, ?_, ?_, ?_⟩
    · rw [hwy]
      refine ⟨List.IsPrefix.trans ?_ hext3, by omega⟩
      rw [hw2, hLw]; exact List.prefix_append _ _
    · intro j hjM hjw
      have hj : j ∈ M.filter (· != w) := (jsM j).mpr ⟨hjM, hjw⟩
      obtain ⟨hh, hc, _, t, _, _, _⟩ := hfol2 j hj
      have ap := allG j hj
      rw [n4, hoth3 j hjw] at ap
      obtain ⟨g1, g2, g3⟩ := heartbeat_commits_follower (u2.node j) q2 [] [] (facts hV hu2 j).nwf
        (by rw [q2t, t]; exact Nat.lt_irrefl _) q2e (by rw [q2p]; omega) (by rw [q2p]; exact hh.2.1)
        (by rw [q2p, q2pt]; exact hh.2.2) (by rw [q2pt, q2t]) (by rw [q2p, q2c]; exact Nat.le_refl _)
        (by rw [q2p]; exact hc) ap.np
      rw [← ap.post] at g1 g2 g3
      refine ⟨ap.role, by rw [ap.term, q2t], ?_, by rw [g1, q2p], by rw [g2, q2p]⟩
      have hhy : Holds (y.node j).log.entries N T := by rw [g3]; exact hh
      have hhw : Holds (y.node w).log.entries N T := by rw [hwy]; exact hholds3
      exact take_eq_of_holds hIy hhy hhw
    · intro i hi
      have hiw : i ≠ w := fun e => hi (by rw [e]; exact el.wM)
      have hij : i ∉ M.filter (· != w) := fun h => hi ((jsM i).mp h).1
      rw [othG i hij, n4, hoth3 i hiw, othE i hij, n1, el.outside i hi]
    · intro i hi
      by_cases hiw : i = w
      · rw [hiw, hwy]; exact hcm.closed
      · have hj : i ∈ M.filter (· != w) := (jsM i).mpr ⟨hi, hiw⟩
        obtain ⟨_, _, _, _, c, _, _⟩ := hfol2 i hj
        have ap := allG i hj
        rw [n4, hoth3 i hiw] at ap
        rw [ap.closed]; exact c
    · intro i hi
      by_cases hiw : i = w
      · rw [hiw, hwy, hcm.cfg, hw2, el.cfg]
      · have hj : i ∈ M.filter (· != w) := (jsM i).mpr ⟨hi, hiw⟩
        have ap := allG i hj
        rw [n4, hoth3 i hiw] at ap
        have ap1 := allE i hj
        rw [n1] at ap1
        rw [ap.cfg, ap1.cfg, (el.others i hi hiw).1.configs]

end final

end Progress
end Raft
