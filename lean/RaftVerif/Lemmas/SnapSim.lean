/-
Node-level facts for the cluster system with snapshots (Sys/Snap.lean), stage 1:
* the snapshot operations (`.snapRun`, `.snapTaken` without compaction) touch nothing the cluster invariants read
  (`pobs`, `lobs`), nor the log / term / vote on disk at their crash points;
* a restart from a disk with snapshot files, compared with the restart from the same disk without them
  (`restart_rel`): same log, term, vote; the state machine is restored from the newest file, the commit index is
  its index.
-/
import RaftVerif.Lemmas.SnapRelA
import RaftVerif.Props.C09

namespace Raft
namespace SnapSim
open Node SnapRel

/-- no snapshot data -/
def σ0 : SnapData := (0, 0, [])

/-- the fields the cluster invariants read on every node (besides the snapshot data) -/
def pobs (s : Node) : Nat × Nat × Nat × Nat × Nat × NLog × Nat × Nat × Role × Int :=
  (s.nid, s.term, s.votedFor, s.durTerm, s.durVote, s.log, s.lastLogIndex, s.lastLogTerm, s.role, s.votesNeeded)

/-- the fields the cluster invariants read on a node depending on its role: commit index, state machine,
configurations, and of the leader record the voter count, the start index, the replication table and the queue -/
def lobs (s : Node) : Nat × Fsm × Configs × Nat × Nat × List Repl × List QItem :=
  (s.commitIndex, s.fsm, s.configs, s.ldr.numVoters, s.ldr.startIndex, s.ldr.repls, s.ldr.queue)

theorem settle_same_role (f : Nat) (s : Node) : settle f s s.role = s := by
  cases f with
  | zero => rfl
  | succ n => unfold settle; rw [if_pos rfl]

/-- a `disconnected` notification about nobody: the step only clears the outputs of the previous step -/
theorem step_disconnected0 (s : Node) (ra : List Nat) (ord : List (List Nat)) :
    s.step (.disconnected 0) ra ord = s.begin ra ord := by
  unfold Node.step Node.handle
  dsimp only
  rw [if_neg (by intro h; exact h.2.1 rfl)]
  exact settle_same_role 6 _

theorem snapRun_obs (s : Node) : pobs s.snapRun = pobs s ∧ lobs s.snapRun = lobs s ∧
    s.snapRun.panicked = s.panicked ∧ s.snapRun.replies = s.replies ∧ s.snapRun.rpcReply = s.rpcReply := by
  unfold Node.snapRun
  split
  · exact ⟨rfl, rfl, rfl, rfl, rfl⟩
  · dsimp only
    split
    · exact ⟨rfl, rfl, rfl, rfl, rfl⟩
    · split
      · exact ⟨rfl, rfl, rfl, rfl, rfl⟩
      · exact ⟨rfl, rfl, rfl, rfl, rfl⟩

theorem snapRun_step_eq (s : Node) (ra : List Nat) (ord : List (List Nat)) :
    s.step .snapRun ra ord = (s.begin ra ord).snapRun := by
  unfold Node.step Node.handle
  dsimp only
  have : (s.begin ra ord).snapRun.role = (s.begin ra ord).role := by
    have := congrArg (fun p => p.2.2.2.2.2.2.2.2.1) (snapRun_obs (s.begin ra ord)).1
    exact this
  rw [← this]
  exact settle_same_role 6 _


/-- everything `onSnapshotTaken` leaves alone -/
def qobs (s : Node) : (Nat × Nat × Nat × Nat × Nat × Nat × Nat × Role × Int) ×
    (Nat × Fsm × Configs × Nat × Nat × List Repl × List QItem) × (Nat × Nat × List SnapFile) × Option RpcReply :=
  ((s.nid, s.term, s.votedFor, s.durTerm, s.durVote, s.lastLogIndex, s.lastLogTerm, s.role, s.votesNeeded),
   lobs s, (s.snapIndex, s.snapTerm, s.snapsDisk), s.rpcReply)

theorem qobs_panic (s : Node) (site : String) : qobs (s.panic site) = qobs s := by
  unfold Node.panic; split <;> rfl

theorem qobs_reply (s : Node) (t : Nat) (r : String) : qobs (s.reply t r) = qobs s := by
  unfold Node.reply; split <;> rfl

theorem qobs_notifyFlr (s : Node) : qobs s.notifyFlr = qobs s := by
  unfold Node.notifyFlr
  split
  · rfl
  · split
    · rfl
    · exact qobs_panic _ _

theorem onSnapshotTaken_qobs (s : Node) : qobs s.onSnapshotTaken = qobs s := by
  unfold Node.onSnapshotTaken
  split
  · rfl
  · dsimp only
    split
    · exact qobs_reply _ _ _
    · rw [qobs_reply]
      repeat' split
      all_goals first | rfl | (rw [qobs_notifyFlr]; rfl)

theorem pobs_of_qobs {s s' : Node} (h : qobs s' = qobs s) (hl : s'.log = s.log) : pobs s' = pobs s ∧ lobs s' = lobs s := by
  unfold qobs at h
  simp only [Prod.mk.injEq] at h
  obtain ⟨⟨a1, a2, a3, a4, a5, a6, a7, a8, a9⟩, b, _, _⟩ := h
  refine ⟨?_, b⟩
  unfold pobs
  rw [a1, a2, a3, a4, a5, a6, a7, a8, a9, hl]

theorem snapTaken_step_eq (s : Node) (ra : List Nat) (ord : List (List Nat)) :
    s.step .snapTaken ra ord = (s.begin ra ord).onSnapshotTaken := by
  unfold Node.step Node.handle
  dsimp only
  have h := onSnapshotTaken_qobs (s.begin ra ord)
  unfold qobs at h
  simp only [Prod.mk.injEq] at h
  rw [← h.1.2.2.2.2.2.2.2.1]
  exact settle_same_role 6 _


/-! ### what is on disk at the crash points of the snapshot operations -/

/-- crash points, log and what else `Node.durable` reads -/
def tobs (s : Node) : List (String × Durable) × NLog × Nat × Nat × Nat × Nat × List SnapFile :=
  (s.trace, s.log, s.durTerm, s.durVote, s.cid, s.nid, s.snapsDisk)

theorem tobs_panic (s : Node) (site : String) : tobs (s.panic site) = tobs s := by
  unfold Node.panic; split <;> rfl

theorem tobs_reply (s : Node) (t : Nat) (r : String) : tobs (s.reply t r) = tobs s := by
  unfold Node.reply; split <;> rfl

theorem tobs_notifyFlr (s : Node) : tobs s.notifyFlr = tobs s := by
  unfold Node.notifyFlr
  split
  · rfl
  · split
    · rfl
    · exact tobs_panic _ _

/-- `onSnapshotTaken`: at most one new crash point (after `compactLog`), holding the log the handler ends with;
nothing else on disk moves -/
theorem onSnapshotTaken_tobs (s : Node) :
    tobs s.onSnapshotTaken = tobs s ∨
    tobs s.onSnapshotTaken = (s.trace ++ [("compactLog", { s.durable with log := s.onSnapshotTaken.log.durable })],
      s.onSnapshotTaken.log, s.durTerm, s.durVote, s.cid, s.nid, s.snapsDisk) := by
  unfold Node.onSnapshotTaken
  split
  · exact Or.inl rfl
  · dsimp only
    split
    · exact Or.inl (tobs_reply _ _ _)
    · rw [tobs_reply]
      have hlog : ∀ (x : Node) (t : Nat) (r : String), (x.reply t r).log = x.log := fun x t r => by
        have := congrArg (fun p => p.2.1) (tobs_reply x t r); exact this
      rw [hlog]
      repeat' split
      all_goals first
        | exact Or.inl rfl
        | exact Or.inr rfl
        | (left; rw [tobs_notifyFlr]; rfl)
        | (right; rw [tobs_notifyFlr]
           have hl : ∀ x : Node, x.notifyFlr.log = x.log := fun x => by
             have := congrArg (fun p => p.2.1) (tobs_notifyFlr x); exact this
           rw [hl]; rfl)


/-- `snapRun`: either nothing on disk moves, or the new file is published and retention is applied — two crash points -/
theorem snapRun_tobs (s : Node) :
    tobs s.snapRun = tobs s ∨
    ∃ rq, s.snapPending = some rq ∧ s.fsm.index ≠ s.snapIndex ∧ rq.minIndex ≤ s.fsm.index ∧
      tobs s.snapRun =
        (s.trace ++ [("snap.publish", { s.durable with snaps := insertSnap (C09.snapFileOf s rq) s.snapsDisk }),
                     ("snap.retain", { s.durable with
                        snaps := (insertSnap (C09.snapFileOf s rq) s.snapsDisk).take s.retain })],
         s.log, s.durTerm, s.durVote, s.cid, s.nid, (insertSnap (C09.snapFileOf s rq) s.snapsDisk).take s.retain) := by
  unfold Node.snapRun
  split
  · exact Or.inl rfl
  · rename_i rq hrq
    dsimp only
    split
    · exact Or.inl rfl
    · split
      · exact Or.inl rfl
      · rename_i h1 h2
        refine Or.inr ⟨rq, hrq, h1, Nat.le_of_not_lt h2, ?_⟩
        unfold tobs Node.publishSnapshot Node.point Node.withSnapResult Node.withSnapPending C09.snapFileOf
        simp only [List.append_assoc, List.cons_append, List.nil_append]
        rfl

/-- **what is on disk when the process dies during a snapshot operation**: log, term and vote are those of the
state the step started from; the snapshot files are the old ones, or the old ones with the new file, before or
after retention -/
theorem snap_crashDisk (s : Node) (op : Op) (ra : List Nat) (ord : List (List Nat)) (k : Nat)
    (hop : op = .snapRun ∨ (op = .snapTaken ∧ (s.step op ra ord).log = s.log)) :
    eraseD σ0 (C05.crashDisk s op ra ord k) = eraseD σ0 s.durable ∧
    ((C05.crashDisk s op ra ord k).snaps = s.snapsDisk ∨
     ∃ rq, op = .snapRun ∧ s.snapPending = some rq ∧ s.fsm.index ≠ s.snapIndex ∧ rq.minIndex ≤ s.fsm.index ∧
       ((C05.crashDisk s op ra ord k).snaps = insertSnap (C09.snapFileOf s rq) s.snapsDisk ∨
        (C05.crashDisk s op ra ord k).snaps = (insertSnap (C09.snapFileOf s rq) s.snapsDisk).take s.retain)) := by
  have hcases := C04Sys.crashDisk_cases s op ra ord k
  generalize C05.crashDisk s op ra ord k = d at hcases ⊢
  rcases hop with rfl | ⟨rfl, hlog⟩
  · rw [snapRun_step_eq] at hcases
    rcases snapRun_tobs (s.begin ra ord) with h | ⟨rq, h1, h2, h3, h⟩
    · unfold tobs at h
      simp only [Prod.mk.injEq] at h
      obtain ⟨e1, e2, e3, e4, e5, e6, e7⟩ := h
      have hd : (s.begin ra ord).snapRun.durable = s.durable := by
        unfold Node.durable
        rw [e2, e3, e4, e5, e6, e7]; rfl
      rw [e1, hd] at hcases
      rcases hcases with e | ⟨p, hp, _⟩ | e
      · rw [e]; exact ⟨rfl, Or.inl rfl⟩
      · cases hp
      · rw [e]; exact ⟨rfl, Or.inl rfl⟩
    · unfold tobs at h
      simp only [Prod.mk.injEq] at h
      obtain ⟨e1, e2, e3, e4, e5, e6, e7⟩ := h
      have hd : (s.begin ra ord).snapRun.durable =
          { s.durable with snaps := (insertSnap (C09.snapFileOf s rq) s.snapsDisk).take s.retain } := by
        unfold Node.durable
        rw [e2, e3, e4, e5, e6, e7]; rfl
      rw [e1, hd] at hcases
      rcases hcases with e | ⟨p, hp, e⟩ | e
      · rw [e]; exact ⟨rfl, Or.inl rfl⟩
      · have hp' : p = ("snap.publish", { s.durable with snaps := insertSnap (C09.snapFileOf s rq) s.snapsDisk }) ∨
            p = ("snap.retain", { s.durable with snaps := (insertSnap (C09.snapFileOf s rq) s.snapsDisk).take s.retain }) := by
          have : p ∈ [("snap.publish", ({ s.durable with snaps := insertSnap (C09.snapFileOf s rq) s.snapsDisk } : Durable)),
              ("snap.retain", { s.durable with snaps := (insertSnap (C09.snapFileOf s rq) s.snapsDisk).take s.retain })] := hp
          simpa using this
        rcases hp' with rfl | rfl
        · rw [e]; exact ⟨rfl, Or.inr ⟨rq, rfl, h1, h2, h3, Or.inl rfl⟩⟩
        · rw [e]; exact ⟨rfl, Or.inr ⟨rq, rfl, h1, h2, h3, Or.inr rfl⟩⟩
      · rw [e]; exact ⟨rfl, Or.inr ⟨rq, rfl, h1, h2, h3, Or.inr rfl⟩⟩
  · rw [snapTaken_step_eq] at hlog hcases
    have hl : (s.begin ra ord).onSnapshotTaken.log = s.log := hlog
    have hd : (s.begin ra ord).onSnapshotTaken.durable = s.durable ∧
        ∀ p ∈ (s.begin ra ord).onSnapshotTaken.trace, p.2 = s.durable := by
      rcases onSnapshotTaken_tobs (s.begin ra ord) with h | h
      · unfold tobs at h
        simp only [Prod.mk.injEq] at h
        obtain ⟨e1, e2, e3, e4, e5, e6, e7⟩ := h
        refine ⟨by unfold Node.durable; rw [e2, e3, e4, e5, e6, e7]; rfl, ?_⟩
        rw [e1]; intro p hp; cases hp
      · unfold tobs at h
        simp only [Prod.mk.injEq] at h
        obtain ⟨e1, e2, e3, e4, e5, e6, e7⟩ := h
        refine ⟨by unfold Node.durable; rw [e3, e4, e5, e6, e7, hl]; rfl, ?_⟩
        rw [e1, hl]
        intro p hp
        have : p = ("compactLog", { s.durable with log := s.log.durable }) := by
          have : p ∈ [("compactLog", ({ s.durable with log := s.log.durable } : Durable))] := hp
          simpa using this
        rw [this]; rfl
    rcases hcases with e | ⟨p, hp, e⟩ | e
    · rw [e]; exact ⟨rfl, Or.inl rfl⟩
    · rw [e, hd.2 p hp]; exact ⟨rfl, Or.inl rfl⟩
    · rw [e, hd.1]; exact ⟨rfl, Or.inl rfl⟩


/-! ### restart with and without the snapshot files -/

/-- every index from 1 to `sn` holds an entry, and if it is a configuration entry it decodes -/
def ScanOK (log : NLog) (sn : Nat) : Prop :=
  ∀ j, 1 ≤ j → j ≤ sn → ∃ e, log.get? j = some e ∧ (e.typ = etConfig → e.config?.isSome = true)

theorem scan_le (log : NLog) (sn : Nat) : ∀ (fuel i : Nat) (latest : Option Config), i ≤ sn →
    (scanConfigs log sn fuel i latest).2.2 = false := by
  intro fuel i latest h
  cases fuel with
  | zero => rfl
  | succ n => unfold scanConfigs; rw [if_pos h]

/-- the scan for configurations that does not stop at the snapshot index does not fail either -/
theorem scan_ext (log : NLog) (sn : Nat) (hok : ScanOK log sn) : ∀ (fuel i : Nat) (latest : Option Config),
    (scanConfigs log sn fuel i latest).2.2 = false → (scanConfigs log 0 fuel i latest).2.2 = false := by
  intro fuel
  induction fuel with
  | zero => intro i latest _; rfl
  | succ n ih =>
    intro i latest h
    unfold scanConfigs at h ⊢
    by_cases h0 : i ≤ 0
    · rw [if_pos h0]
    · rw [if_neg h0]
      by_cases hsn : i ≤ sn
      · obtain ⟨e, he, hdec⟩ := hok i (by omega) hsn
        rw [he]
        dsimp only
        cases hc : e.config? with
        | some c =>
          dsimp only
          cases latest with
          | none => exact ih _ _ (scan_le log sn n (i - 1) _ (by omega))
          | some l => rfl
        | none =>
          dsimp only
          by_cases ht : e.typ = etConfig
          · have := hdec ht; rw [hc] at this; cases this
          · rw [if_neg ht]
            exact ih _ _ (scan_le log sn n (i - 1) _ (by omega))
      · rw [if_neg hsn] at h
        cases hg : log.get? i with
        | none => rw [hg] at h; cases h
        | some e =>
          rw [hg] at h
          dsimp only at h ⊢
          cases hc : e.config? with
          | some c =>
            rw [hc] at h
            dsimp only at h ⊢
            cases latest with
            | none => exact ih _ _ h
            | some l => rfl
          | none =>
            rw [hc] at h
            dsimp only at h ⊢
            by_cases ht : e.typ = etConfig
            · rw [if_pos ht] at h; cases h
            · rw [if_neg ht] at h ⊢
              exact ih _ _ h


/-- the newest snapshot file on a disk (the zero file if none) -/
def headSnap (d : Durable) : SnapFile := (d.snaps.head?).getD {}

theorem obs_fsmRestore (x : Node) : pobs x.fsmRestore = pobs x ∧ x.fsmRestore.snapsDisk = x.snapsDisk ∧
    x.fsmRestore.snapIndex = x.snapIndex ∧ x.fsmRestore.retain = x.retain ∧ x.fsmRestore.ldr = x.ldr ∧
    x.fsmRestore.trace = x.trace ∧ x.fsmRestore.commitIndex = x.commitIndex := by
  unfold Node.fsmRestore Node.panic Node.withFsm
  repeat' split
  all_goals exact ⟨rfl, rfl, rfl, rfl, rfl, rfl, rfl⟩

/-- a stale log (`openStorage` resets it) implies a snapshot with a positive index -/
theorem stale_pos (d : Durable) (h : staleLog d = true) : 0 < (headSnap d).index := by
  unfold staleLog at h
  simp only [Bool.or_eq_true, Bool.and_eq_true, decide_eq_true_eq] at h
  show 0 < ((d.snaps.head?).getD {}).index
  rcases h with h | h
  · omega
  · omega

/-- a log that is not stale reaches the newest snapshot -/
theorem notstale_reaches (d : Durable) (h : staleLog d = false) : (headSnap d).index ≤ d.log.last := by
  unfold staleLog at h
  simp only [Bool.or_eq_false_iff, decide_eq_false_iff_not] at h
  exact Nat.le_of_not_lt h.1

/-- without snapshot files no log is stale -/
theorem notstale_nosnap (d : Durable) (hs : d.snaps = []) : staleLog d = false := by
  unfold staleLog
  rw [hs]
  show (decide (d.log.last < 0) || (decide (d.log.prev < 0) && _)) = false
  simp

/-- **restart with and without the snapshot files.** A restart from disk `d` that does not reset the log (the
restarted log starts at index 1), where every snapshot file has a positive index and the log below the newest
snapshot is complete and decodes: the restart from `d` without its snapshot files succeeds too, with the same
identity, term, vote, log and cached last coordinates; the node restarted from `d` is a follower that holds the
files of `d`, whose commit index is the index of the newest file, and whose state machine is restored from that
file (or empty if there is none). -/
theorem restart_rel (d : Durable) (retain : Nat) (sor : Bool) (n : Node)
    (h : Node.restart d retain sor = some n) (hprev : n.log.prev = 0)
    (hidx : ∀ f ∈ d.snaps, 1 ≤ f.index) (hok : ScanOK d.log (headSnap d).index) :
    ∃ n0, Node.restart (eraseD σ0 d) retain sor = some n0 ∧
      pobs n0 = pobs n ∧ n.role = .follower ∧ n.retain = retain ∧ n.snapsDisk = d.snaps ∧
      n.snapIndex = (headSnap d).index ∧ n.commitIndex = n.snapIndex ∧ n.ldr = {} ∧ n.trace = [] ∧
      n.log.entries = d.log.entries ∧
      ((n.fsm = {} ∧ (headSnap d).index = 0) ∨
       (0 < (headSnap d).index ∧ ∃ f, d.snaps.head? = some f ∧
         n.fsm = { index := f.index, term := f.term, applied := f.data, config := f.config })) := by
  unfold Node.restart at h
  split at h
  · cases h
  · rename_i hid
    split at h
    · cases h
    · rename_i hfail
      injection h with h
      -- the restarted node before the restore step
      have hsnap : headSnap d = (d.snaps.head?).getD {} := rfl
      have hrn : (restartNode d retain sor).snapIndex = (headSnap d).index ∧
          (restartNode d retain sor).snapsDisk = d.snaps ∧ (restartNode d retain sor).retain = retain ∧
          (restartNode d retain sor).role = .follower ∧ (restartNode d retain sor).ldr = {} ∧
          (restartNode d retain sor).trace = [] ∧ (restartNode d retain sor).commitIndex = 0 ∧
          (restartNode d retain sor).fsm = {} ∧
          (restartNode d retain sor).log.prev =
            (if staleLog d then NLog.reset (headSnap d).index else d.log).prev :=
        ⟨rfl, rfl, rfl, rfl, rfl, rfl, rfl, rfl, rfl⟩
      obtain ⟨r1, r2, r3, r4, r5, r6, r7, r8, r9⟩ := hrn
      have hnp : n.log.prev = (restartNode d retain sor).log.prev := by
        rw [← h]
        split
        · have := (obs_fsmRestore (restartNode d retain sor)).1
          have := congrArg (fun p => p.2.2.2.2.2.1.prev) this
          exact this
        · rfl
      have hnoreset : staleLog d = false := by
        cases hst : staleLog d with
        | false => rfl
        | true =>
          rw [hnp, r9, if_pos hst] at hprev
          have : (headSnap d).index = 0 := hprev
          have := stale_pos d hst
          omega
      have hdp : d.log.prev = 0 := by
        rw [hnp, r9, hnoreset] at hprev; exact hprev
      -- an empty log means no snapshot
      have hempty : d.log.count = 0 → headSnap d = {} := by
        intro hc
        have hl : d.log.last = 0 := by unfold NLog.last; unfold NLog.count at hc; omega
        have hi : (headSnap d).index = 0 := by have := notstale_reaches d hnoreset; omega
        cases hs : d.snaps with
        | nil => unfold headSnap; rw [hs]; rfl
        | cons f fs =>
          have := hidx f (by rw [hs]; exact List.mem_cons_self ..)
          have e : headSnap d = f := by unfold headSnap; rw [hs]; rfl
          rw [e] at hi; omega
      -- the node restarted without the files
      have herase : (eraseD σ0 d).snaps = [] ∧ (eraseD σ0 d).log = d.log ∧ (eraseD σ0 d).cid = d.cid ∧
          (eraseD σ0 d).nid = d.nid ∧ (eraseD σ0 d).term = d.term ∧ (eraseD σ0 d).vote = d.vote :=
        ⟨rfl, rfl, rfl, rfl, rfl, rfl⟩
      have hlog : (if staleLog d then NLog.reset (headSnap d).index else d.log) = d.log :=
        by rw [hnoreset]; rfl
      have hidx' : (if d.log.count > 0 then d.log.last else (headSnap d).index) =
          (if d.log.count > 0 then d.log.last else 0) := by
        by_cases hc : d.log.count > 0
        · rw [if_pos hc, if_pos hc]
        · rw [if_neg hc, if_neg hc, hempty (by omega)]
      have hterm' : (if d.log.count > 0 then ((d.log.entries.getLast?).map (·.term)).getD 0 else (headSnap d).term) =
          (if d.log.count > 0 then ((d.log.entries.getLast?).map (·.term)).getD 0 else 0) := by
        by_cases hc : d.log.count > 0
        · rw [if_pos hc, if_pos hc]
        · rw [if_neg hc, if_neg hc, hempty (by omega)]
      have hfail0 : restartFails (eraseD σ0 d) = false := by
        have hf : restartFails d = false := by
          cases hb : restartFails d with
          | true => exact absurd hb hfail
          | false => rfl
        unfold restartFails at hf ⊢
        dsimp only at hf ⊢
        rw [← hsnap, hlog, hidx'] at hf
        show (scanConfigs (if staleLog (eraseD σ0 d) then NLog.reset 0 else d.log) 0 _ _ none).2.2 = false
        rw [notstale_nosnap _ herase.1]
        exact scan_ext d.log (headSnap d).index hok _ _ none hf
      refine ⟨restartNode (eraseD σ0 d) retain sor, ?_, ?_⟩
      · unfold Node.restart
        rw [if_neg (show ¬ ((eraseD σ0 d).cid = 0 ∨ (eraseD σ0 d).nid = 0) from hid), hfail0]
        rfl
      · have hp0 : pobs (restartNode (eraseD σ0 d) retain sor) = pobs (restartNode d retain sor) := by
          unfold pobs Node.restartNode
          dsimp only
          rw [← hsnap, hlog, hidx', hterm']
          show (_, _, _, _, _, ({ (if staleLog (eraseD σ0 d) then NLog.reset 0 else d.log) with flushed := _ } : NLog), _, _, _, _) = _
          rw [notstale_nosnap _ herase.1]
          rfl
        have hlogn : (restartNode d retain sor).log.entries = d.log.entries := by
          show (if staleLog d then NLog.reset (headSnap d).index else d.log).entries = _
          rw [hlog]
        by_cases hpos : (restartNode d retain sor).snapIndex > 0
        · rw [if_pos hpos] at h
          obtain ⟨o1, o2, o3, o4, o5, o6, o7⟩ := obs_fsmRestore (restartNode d retain sor)
          have hpos' : 0 < (headSnap d).index := by rw [← r1]; exact hpos
          -- the file that is restored is the head of the list
          obtain ⟨f, hf⟩ : ∃ f, d.snaps.head? = some f := by
            cases hs : d.snaps with
            | nil =>
              have : headSnap d = {} := by unfold headSnap; rw [hs]; rfl
              rw [this] at hpos'; cases hpos'
            | cons f fs => exact ⟨f, rfl⟩
          have hfi : f.index = (headSnap d).index := by unfold headSnap; rw [hf]; rfl
          have hfsm : (restartNode d retain sor).fsmRestore.fsm =
              { index := f.index, term := f.term, applied := f.data, config := f.config } := by
            unfold Node.fsmRestore
            rw [if_neg (by rw [r1]; omega), r2]
            have : d.snaps.find? (fun g => g.index == (restartNode d retain sor).snapIndex) = some f := by
              cases hs : d.snaps with
              | nil => rw [hs] at hf; cases hf
              | cons g gs =>
                rw [hs] at hf
                have : g = f := by injection hf
                subst this
                rw [List.find?_cons_of_pos]
                rw [r1, hfi]; simp
            rw [this]
            rfl
          rw [← h]
          refine ⟨hp0.trans o1.symm, ?_, ?_, ?_, ?_, ?_, ?_, ?_, ?_, ?_⟩
          · show (restartNode d retain sor).fsmRestore.role = _
            have := congrArg (fun p => p.2.2.2.2.2.2.2.2.1) o1
            rw [show (restartNode d retain sor).fsmRestore.role = (restartNode d retain sor).role from this, r4]
          · show (restartNode d retain sor).fsmRestore.retain = _
            rw [o4, r3]
          · show (restartNode d retain sor).fsmRestore.snapsDisk = _
            rw [o2, r2]
          · show (restartNode d retain sor).fsmRestore.snapIndex = _
            rw [o3, r1]
          · show (restartNode d retain sor).snapIndex = (restartNode d retain sor).fsmRestore.snapIndex
            rw [o3]
          · show (restartNode d retain sor).fsmRestore.ldr = _
            rw [o5, r5]
          · show (restartNode d retain sor).fsmRestore.trace = _
            rw [o6, r6]
          · show (restartNode d retain sor).fsmRestore.log.entries = _
            have := congrArg (fun p => p.2.2.2.2.2.1.entries) o1
            rw [show (restartNode d retain sor).fsmRestore.log.entries = (restartNode d retain sor).log.entries from this,
              hlogn]
          · exact Or.inr ⟨hpos', f, hf, hfsm⟩
        · rw [if_neg hpos] at h
          rw [← h]
          have hz : (headSnap d).index = 0 := by rw [← r1]; omega
          exact ⟨hp0, r4, r3, r2, r1, by rw [r7, r1, hz], r5, r6, hlogn, Or.inl ⟨r8, hz⟩⟩


/-- a restart whose log starts at index 1 did not reset the log: the log on disk reaches the newest snapshot -/
theorem restart_noreset' (d : Durable) (retain : Nat) (sor : Bool) (n : Node)
    (h : Node.restart d retain sor = some n) (hprev : n.log.prev = 0) :
    (headSnap d).index ≤ d.log.entries.length ∧ d.log.prev = 0 ∧ staleLog d = false := by
  unfold Node.restart at h
  split at h
  · cases h
  · split at h
    · cases h
    · injection h with h
      have r9 : (restartNode d retain sor).log.prev =
          (if staleLog d then NLog.reset (headSnap d).index else d.log).prev := rfl
      have hnp : n.log.prev = (restartNode d retain sor).log.prev := by
        rw [← h]
        split
        · have := (obs_fsmRestore (restartNode d retain sor)).1
          have := congrArg (fun p => p.2.2.2.2.2.1.prev) this
          exact this
        · rfl
      have hnoreset : staleLog d = false := by
        cases hst : staleLog d with
        | false => rfl
        | true =>
          rw [hnp, r9, if_pos hst] at hprev
          have : (headSnap d).index = 0 := hprev
          have := stale_pos d hst
          omega
      have hdp : d.log.prev = 0 := by
        rw [hnp, r9, hnoreset] at hprev; exact hprev
      refine ⟨?_, hdp, hnoreset⟩
      have := notstale_reaches d hnoreset
      unfold NLog.last at this
      omega

theorem restart_noreset (d : Durable) (retain : Nat) (sor : Bool) (n : Node)
    (h : Node.restart d retain sor = some n) (hprev : n.log.prev = 0) :
    (headSnap d).index ≤ d.log.entries.length ∧ d.log.prev = 0 :=
  let ⟨a, b, _⟩ := restart_noreset' d retain sor n h hprev
  ⟨a, b⟩

/-- a restart whose log starts at index 1 found a log that is not stale -/
theorem restart_notstale (d : Durable) (retain : Nat) (sor : Bool) (n : Node)
    (h : Node.restart d retain sor = some n) (hprev : n.log.prev = 0) : staleLog d = false :=
  (restart_noreset' d retain sor n h hprev).2.2

end SnapSim
end Raft
