/-
The invariant `SnapInst3.Inv3` of stage 3 on the system WITH THE STALE RESET AND THE CUT (Sys/Snap6.lean):
* `cut_not_stale` — inside the `NoCut` window (`0 < log.prev = snapIndex = commitIndex`) no crash disk of an append handler
  is stale: the log on disk starts at the newest snapshot;
* `inv3_crash_append` — the invariant after a crash at any storage point of the handler of any append request and the
  restart from a log that is not stale (`SnapCut.crash3_append`);
* `inv6_trans`, `inv6_reachable` — every transition of `Raft.Snap6` preserves the invariant.
-/
import RaftVerif.Sys.Snap6
import RaftVerif.Lemmas.SnapCutE

namespace Raft
namespace SnapCut
open Node Election LogRel Replication CommitRel Commit C02Sys C03Sys SnapRel SnapRelU SnapSim Snap Snap2 SnapInv SnapInv2
open SnapInst SnapInstU Snap3 SnapFrame SnapInst3 Snap6

section
variable {V : List Nat}

/-- what a crash in the handler of an append request leaves on disk: the log starts where it started, is flushed as far
as it goes; the snapshot files are untouched -/
theorem append_disk {x : Snap3.Sys} (hI3 : Inv3 V x) (hS : Side3 V x) {i : Nat} {q : AppendReq} {ra : List Nat}
    {ord : List (List Nat)} {src : Nat} (k : Nat) (en : Snap.Enabled x.s2.cs i (.append q) src) :
    (C05.crashDisk (x.node i) (.append q) ra ord k).log.prev = (x.node i).log.prev ∧
    (C05.crashDisk (x.node i) (.append q) ra ord k).snaps = (x.node i).snapsDisk := by
  have hI := hI3.sinv
  have hP := hI3.prev
  have hfl : (x.node i).log.prev ≤ (x.node i).log.flushed :=
    prev_le_flushed (x.s2.base i) (hS.segs i) (vnode_lwf3 hI i)
  have fr := step_frame (x.node i) (.append q) ra ord trivial (hP i).le hfl
  refine ⟨?_, SnapInst4.crash_snaps_eq (x.node i) (.append q) ra ord k en.ok2.1 (fun h => nomatch h) (fun h => nomatch h)⟩
  rcases C04Sys.crashDisk_cases (x.node i) (.append q) ra ord k with e | ⟨p, hpt, e⟩ | e
  · rw [e]; rfl
  · rw [e]; exact (fr.2.2.2.2 p hpt).1
  · rw [e]; exact fr.1

/-- **inside the `NoCut` window no crash disk of the append handler is stale**: the node has `0 < log.prev = snapIndex`,
so the log on every crash disk starts exactly at the newest snapshot file — it neither ends below it nor holds an entry
at its index -/
theorem cut_not_stale {x : Snap3.Sys} (hI3 : Inv3 V x) (hS : Side3 V x) {i : Nat} {q : AppendReq} {ra : List Nat}
    {ord : List (List Nat)} {src : Nat} (k : Nat) (en : Snap.Enabled x.s2.cs i (.append q) src)
    (hcut : ¬ NoCut (x.node i) (.append q)) :
    staleLog (C05.crashDisk (x.node i) (.append q) ra ord k) = false := by
  obtain ⟨h1, h2⟩ := append_disk hI3 hS (ra := ra) (ord := ord) k en
  have so : SnapOK (x.vnode i) := hI3.sinv.snap i
  have hle := (hI3.prev i).le
  have hsi : (x.node i).snapIndex = (headOf (x.node i).snapsDisk).index := so.head
  have hnp : ¬ (x.node i).log.prev < (x.node i).snapIndex := fun h => hcut (Or.inr (Or.inr (Or.inl h)))
  generalize C05.crashDisk (x.node i) (.append q) ra ord k = d at h1 h2
  have hF : (headSnap d).index = d.log.prev := by
    show (headOf d.snaps).index = _
    rw [h2, ← hsi, h1]; omega
  show (decide (d.log.last < (headSnap d).index) ||
    (decide (d.log.prev < (headSnap d).index) &&
      ((d.log.get? (headSnap d).index).map (·.term) != some (headSnap d).term))) = false
  rw [hF]
  have e1 : decide (d.log.last < d.log.prev) = false := by
    have : d.log.last = d.log.prev + d.log.entries.length := rfl
    simp; omega
  have e2 : decide (d.log.prev < d.log.prev) = false := by simp
  rw [e1, e2]; rfl

/-- **the invariant of stage 3 after a crash at any storage point of the handler of ANY append request and the restart
from a log that is not stale** -/
theorem inv3_crash_append (hV : V.Nodup) {x : Snap3.Sys} (hI : Inv3 V x) (hS : Side3 V x) {i : Nat} {q : AppendReq}
    {ra : List Nat} {ord : List (List Nat)} {src k retain : Nat} {sor : Bool} {n : Node}
    (en : Snap.Enabled x.s2.cs i (.append q) src) (hret : 1 ≤ retain)
    (hp : ((x.node i).step (.append q) ra ord).panicked = none)
    (hst : staleLog (C05.crashDisk (x.node i) (.append q) ra ord k) = false)
    (hn : Node.restart (C05.crashDisk (x.node i) (.append q) ra ord k) retain sor = some n)
    (hS' : Side3 V { x with s2 := crashS x.s2 i (.append q) n }) :
    Inv3 V { x with s2 := crashS x.s2 i (.append q) n } := by
  obtain ⟨w1, w2, w3, _⟩ := restart_snapTerm _ retain sor n hn
  have hseg : n.log.segs ≠ [] := fun h => by
    have := (hS'.segs i).head
    have e : ({ x with s2 := crashS x.s2 i (.append q) n } : Snap3.Sys).node i = n := crashS_node_i _ _ _ _
    rw [e, h] at this; cases this
  obtain ⟨a1, a2, _, a4, hft, _⟩ := crash3_append hV hI hS en hret hp hst hn hseg (sideS_view3 hS')
  refine ⟨a1, fun j => ?_, fun j => ?_, fun m hm => (hI.msgs m hm).mono (crashS_T _ _ _ _).1 (crashS_T _ _ _ _).2⟩
  · by_cases hj : j = i
    · subst hj
      show PrevOK ((crashS x.s2 j (.append q) n).node j)
      rw [crashS_node_i]; exact a2
    · show PrevOK ((crashS x.s2 i (.append q) n).node j)
      rw [crashS_node_j _ _ _ _ hj]; exact hI.prev j
  · by_cases hj : j = i
    · subst hj
      exact vterm_restart hI (y := { x with s2 := crashS x.s2 j (.append q) n }) a1 (crashS_T _ _ _ _).1
        (crashS_T _ _ _ _).2 (crashS_node_i _ _ _ _) a4 hft w2 w1 w3
    · exact vterm_crashS_other hj (hI.vterm j)

/-- **every transition of `Raft.Snap6` preserves the invariant**: a transition whose crash neither resets the log nor
falls into the `NoCut` window is a transition of `Raft.Snap3`; the others are analysed with `inv3_crash_stale`,
`olddisk_stale_inv` (the stale reset) and `inv3_crash_append` (the cut) -/
theorem inv6_trans (hV : V.Nodup) {x y : Snap3.Sys} (hI : Inv3 V x) (hS : Side3 V x) (ht : Snap6.Trans x y)
    (hS' : Side3 V y) : Inv3 V y := by
  cases ht with
  | step i op ra ord src en hp htt => exact inv3_trans hV hI hS (.step i op ra ord src en hp htt) hS'
  | send i q hi hl hr hc => exact inv3_trans hV hI hS (.send i q hi hl hr hc) hS'
  | sendSnap i q hi hl hr => exact inv3_trans hV hI hS (.sendSnap i q hi hl hr) hS'
  | install i m ra ord hi hm hp => exact inv3_trans hV hI hS (.install i m ra ord hi hm hp) hS'
  | crash i op ra ord src k retain sor n en hret hp htt hn =>
    by_cases hap : ∃ q, op = .append q
    · obtain ⟨q, rfl⟩ := hap
      cases hst : staleLog (C05.crashDisk (x.node i) (.append q) ra ord k) with
      | false => exact inv3_crash_append hV hI hS en hret hp hst hn hS'
      | true =>
        have hnc : NoCut (x.node i) (.append q) := by
          apply Classical.byContradiction
          intro hc
          rw [cut_not_stale hI hS k en hc] at hst
          cases hst
        exact (inv3_crash_stale hV hI hS en hret hp hnc htt hst hn).1
    · have hnc : NoCut (x.node i) op := by
        cases op <;> first | trivial | exact absurd ⟨_, rfl⟩ hap
      cases hst : staleLog (C05.crashDisk (x.node i) op ra ord k) with
      | false => exact inv3_trans hV hI hS (.crash i op ra ord src k retain sor n en hret hp hnc htt hst hn) hS'
      | true => exact (inv3_crash_stale hV hI hS en hret hp hnc htt hst hn).1
  | crashInstall i m ra ord k retain sor n hi hm hret hp hn =>
    have hvw : C05.VoteWF (x.node i) := (hI.sinv.cinv.rp.el.ids i).2
    have hd := install_crashDisk (x.node i) m.q ra ord k
    have wf := snapsWF_node hI i
    have so : SnapOK (x.vnode i) := hI.sinv.snap i
    have hSv : SideS V (view3 (crashInstS6 x i m (C05.crashDisk (x.node i) (.install m.q) ra ord k) n)) := sideS_view3 hS'
    generalize C05.crashDisk (x.node i) (.install m.q) ra ord k = d at hd hn hSv
    have key : SInv V (view3 (crashInstS6 x i m d n)) ∧ PrevOK n ∧ VTerm (crashInstS6 x i m d n) i := by
      unfold crashInstS6 at hSv ⊢
      rcases hd.data with ⟨e1, e2⟩ | ⟨hin, e1, e2, e3⟩
      · have hnf : ¬ (d.snaps.head? = some (C09.fileOf m.q) ∧ Installs (x.node i) m.q) := by
          intro hc
          rw [e2] at hc
          exact head_ne_file hI hc.2 hc.1
        rw [if_neg hnf] at hSv ⊢
        cases hst : staleLog d with
        | false =>
          obtain ⟨_, _, _, s4⟩ := restart_shape d retain sor n hn
          rw [hst] at s4
          have hprev : n.log.prev = (x.node i).log.prev := by
            have : n.log.prev = d.log.prev := s4
            rw [this, e1]; rfl
          rw [hprev] at hSv ⊢
          exact olddisk_inv hV hI hS hi hd.cid hd.nid e1 e2 hd.tv hst hret hn hSv
        | true => exact olddisk_stale_inv hV hI hS hi hd.cid hd.nid e1 e2 hd.tv hst hret hn
      · have hprev : (x.node i).log.prev ≤ (x.node i).commitIndex := by
          have := (hI.prev i).le; have := wf.le_commit; omega
        have hh : ∀ g, (x.node i).snapsDisk.head? = some g → g.index ≤ m.q.lastIndex := by
          intro g hg
          have := wf.head g hg; have := wf.le_commit; have := hin.2.1
          omega
        have hhead := inst_head (x.node i) m.q so.retain hh e2
        rw [if_pos ⟨hhead, hin⟩]
        have hmo : MsgOK (view3 x).cs m := hI.msgs m (hm.resolve_left hin.1)
        exact installed_inv hV hI hmo hin
          (installed_of_restart (x.node i) m.q hin hprev so.retain hh hvw d hd.nid e1 e2 e3 retain hret sor n hn)
    obtain ⟨a1, a2, a3⟩ := key
    refine ⟨a1, fun j => ?_, fun j => ?_, fun m' hm' => (hI.msgs m' hm').mono (fun _ h => h) (fun _ h => h)⟩
    · by_cases hj : j = i
      · subst hj
        show PrevOK ((crashInstS6 x j m d n).node j)
        unfold crashInstS6; rw [replS_node_i]; exact a2
      · show PrevOK ((crashInstS6 x i m d n).node j)
        unfold crashInstS6; rw [replS_node_j _ _ _ _ hj]; exact hI.prev j
    · by_cases hj : j = i
      · subst hj; exact a3
      · unfold crashInstS6; exact vterm_other i _ _ hj (hI.vterm j)

/-- **the invariant holds in every reachable state of `Raft.Snap6`** -/
theorem inv6_reachable (hV : V.Nodup) {x : Snap3.Sys} (h : Reachable6 V x) : Inv3 V x ∧ Side3 V x := by
  induction h with
  | init x hi hs => exact inv3_reachable hV (.init x hi hs)
  | next x y _ ht hs ih => exact ⟨inv6_trans hV ih.1 ih.2 ht hs, hs⟩

/-- **every transition of `Raft.Snap3` is a transition of `Raft.Snap6`** (from a state that satisfies the invariant) -/
theorem trans3_trans6 {x y : Snap3.Sys} (hI : Inv3 V x) (ht : Snap3.Trans x y) : Snap6.Trans x y := by
  cases ht with
  | step i op ra ord src en hp htt => exact .step i op ra ord src en hp htt
  | crash i op ra ord src k retain sor n en hret hp hnc htt hst hn => exact .crash i op ra ord src k retain sor n en hret hp htt hn
  | send i q hi hl hr hc => exact .send i q hi hl hr hc
  | sendSnap i q hi hl hr => exact .sendSnap i q hi hl hr
  | install i m ra ord hi hm hp => exact .install i m ra ord hi hm hp
  | crashInstall i m ra ord k retain sor n hi hm hret hp hold hn =>
    have heq : crashInstS x i m (C05.crashDisk (x.node i) (.install m.q) ra ord k) n =
        crashInstS6 x i m (C05.crashDisk (x.node i) (.install m.q) ra ord k) n := by
      have hd := install_crashDisk (x.node i) m.q ra ord k
      have wf := snapsWF_node hI i
      have so : SnapOK (x.vnode i) := hI.sinv.snap i
      generalize C05.crashDisk (x.node i) (.install m.q) ra ord k = d at hd hold hn
      unfold crashInstS crashInstS6 instBase
      by_cases hc : d.snaps.head? = some (C09.fileOf m.q) ∧ Installs (x.node i) m.q
      · rw [if_pos hc, if_pos hc]
      · rw [if_neg hc, if_neg hc]
        rcases hd.data with ⟨e1, e2⟩ | ⟨hin, e1, e2, e3⟩
        · obtain ⟨_, _, _, s4⟩ := restart_shape d retain sor n hn
          rw [hold e2] at s4
          have hprev : n.log.prev = (x.node i).log.prev := by
            have : n.log.prev = d.log.prev := s4
            rw [this, e1]; rfl
          rw [hprev]
        · have hh : ∀ g, (x.node i).snapsDisk.head? = some g → g.index ≤ m.q.lastIndex := by
            intro g hg
            have := wf.head g hg; have := wf.le_commit; have := hin.2.1
            omega
          exact absurd ⟨inst_head (x.node i) m.q so.retain hh e2, hin⟩ hc
    rw [heq]
    exact .crashInstall i m ra ord k retain sor n hi hm hret hp hn

/-- **every run of `Raft.Snap3` is a run of `Raft.Snap6`** -/
theorem reach3_reach6 (hV : V.Nodup) {x : Snap3.Sys} (h : Reachable3 V x) : Reachable6 V x := by
  induction h with
  | init x hi hs => exact .init x hi hs
  | next x y h3 ht hs ih => exact .next x y ih (trans3_trans6 (inv3_reachable hV h3).1 ht) hs

end

end SnapCut
end Raft
