/-
Installation of a snapshot (`Raft.onInstallSnapRequest`, `Node.onInstallSnap`) — the crash analysis at node level.

The handler has up to four storage points: `value.set` (a newer term is adopted), `snap.publish` (the meta file of the
received snapshot is renamed into place), `snap.retain` (older files are removed), `clearLog` (the log is reset to the
snapshot).  Between `snap.publish` and `clearLog` the disk holds the NEW snapshot and the OLD log.  This file shows

* `install_step_iobs`, `install_crashDisk`: what a completed `.install` step and every crash point of it leave;
* `install_disk_stale`: at the two crash points in the window the old log is STALE with respect to the new snapshot
  (`Node.staleLog`: it ends below the snapshot index, or the entry it holds there has another term — the F18 repair), so
  `openStorage` resets it (`C10.logOf d = NLog.reset lastIndex`);
* `install_disk_tracks`, `install_disk_ok`: every disk content a crash in the handler can leave satisfies
  `C12Track.DiskTracks` and `C19Order.DiskOK`, so the restarted node is again `Tracks` / `Ordered`
  (`install_crash_restart_tracks`) — in particular "the log entry at the snapshot index, if held, has the snapshot's term";
* `install_crash_restart_installed`: the node restarted from a disk that holds the new snapshot is the node after the
  completed installation, as far as log, snapshot coordinates, commit index and state machine are concerned.
-/
import RaftVerif.Props.C12Track
import RaftVerif.Props.C19Order
import RaftVerif.Lemmas.SysInv

namespace Raft
namespace SnapInst
open Node

/-! ### the step -/

/-- everything of a node but what `leader.release` / `candidate.release` touch (`replies`, `ldr`, `leader`,
`candTransfer`) -/
def iobs (s : Node) :
    (NLog × Nat × Nat × Nat × Nat × List SnapFile) × (Nat × Nat × Nat × Nat) × (Nat × Fsm × Configs) ×
      (List (String × Durable) × Nat × Nat × Nat × Bool) × (Role × Option String × Option RpcReply × Nat) ×
      (Option SnapReq × Option SnapRes × String × Int) :=
  ((s.log, s.lastLogIndex, s.lastLogTerm, s.snapIndex, s.snapTerm, s.snapsDisk),
   (s.term, s.votedFor, s.durTerm, s.durVote), (s.commitIndex, s.fsm, s.configs),
   (s.trace, s.cid, s.nid, s.retain, s.shutdownOnRemove), (s.role, s.panicked, s.rpcReply, s.result),
   (s.snapPending, s.snapResult, s.closed, s.votesNeeded))

theorem relFrame_iobs : CommitRel.RelFrame iobs where
  reply := fun s t r => by unfold Node.reply; split <;> rfl
  ldr := fun _ _ => rfl
  leader := fun _ _ => rfl
  candTransfer := fun _ _ => rfl

theorem iobs_durable {a b : Node} (h : iobs a = iobs b) : a.durable = b.durable := by
  unfold iobs at h
  simp only [Prod.mk.injEq] at h
  obtain ⟨⟨h1, _, _, _, _, h6⟩, ⟨_, _, h9, h10⟩, _, ⟨_, h12, h13, _, _⟩, _⟩ := h
  unfold Node.durable
  rw [h1, h6, h9, h10, h12, h13]

/-- the result code of the install handler -/
theorem install_result (s : Node) (q : InstallReq) :
    (s.onInstallSnap q).result = rStaleTerm ∨ (s.onInstallSnap q).result = rSuccess := by
  rw [onInstallSnap_eq]
  split
  · exact Or.inl rfl
  · split
    · exact Or.inr rfl
    · split
      · exact Or.inr rfl
      · exact Or.inr rfl

theorem installPre_role (s : Node) (q : InstallReq) : (installPre s q).role = .follower := rfl

theorem discardTail_role (p : Node) (c : Config) : (C09.discardTail p c).role = p.role := by
  unfold C09.discardTail
  rw [commitConfig_eq, changeConfigR_eq, fsmRestore_eq]
  rfl

theorem discardTail_dur (p : Node) (c : Config) :
    (C09.discardTail p c).durTerm = p.durTerm ∧ (C09.discardTail p c).durVote = p.durVote ∧
    (C09.discardTail p c).cid = p.cid ∧ (C09.discardTail p c).nid = p.nid := by
  unfold C09.discardTail
  rw [commitConfig_eq, changeConfigR_eq, fsmRestore_eq]
  exact ⟨rfl, rfl, rfl, rfl⟩

/-- a request that is not stale leaves a follower -/
theorem install_role (s : Node) (q : InstallReq) (hq : ¬ q.term < s.term) : (s.onInstallSnap q).role = .follower := by
  by_cases hn : q.lastIndex ≤ s.commitIndex ∨ C09.keepsLog s q = true
  · rw [C09.install_nothing_shape s q hq hn]; rfl
  · have hahead : s.commitIndex < q.lastIndex := by omega
    have hk : C09.keepsLog s q = false := by
      cases h : C09.keepsLog s q with
      | true => exact absurd (Or.inr h) hn
      | false => rfl
    rw [C09.install_discard_shape s q hq hahead hk, discardTail_role]
    rfl

theorem iobs_rpcDone_install (h : Node) (hr : h.result = rStaleTerm ∨ h.result = rSuccess) :
    (h.rpcDone false).role = h.role ∧ (h.rpcDone false).trace = h.trace ∧ (h.rpcDone false).durable = h.durable ∧
    (h.rpcDone false).log = h.log ∧ (h.rpcDone false).panicked = h.panicked ∧
    (h.rpcDone false) = h.withRpcReply (some (h.mkReply false false)) := by
  have hne : ¬ h.result = rUnexpectedErr := by
    rcases hr with e | e <;> rw [e] <;> decide
  unfold Node.rpcDone
  rw [if_neg hne]
  exact ⟨rfl, rfl, rfl, rfl, rfl, rfl⟩

/-- **a completed `.install` step**: apart from the reply and what releasing the previous role touches (`replies`,
the leader record, `leader`, `candTransfer`), the node is what the handler `onInstallSnap` left -/
theorem install_step_iobs (s : Node) (q : InstallReq) (ra : List Nat) (ord : List (List Nat)) :
    iobs (s.step (.install q) ra ord) =
      iobs (((s.begin ra ord).onInstallSnap q).withRpcReply
        (some (((s.begin ra ord).onInstallSnap q).mkReply false false))) := by
  have hpost : s.step (.install q) ra ord =
      settle 6 (((s.begin ra ord).onInstallSnap q).rpcDone false) (s.begin ra ord).role := rfl
  obtain ⟨r1, _, _, _, _, r6⟩ := iobs_rpcDone_install _ (install_result (s.begin ra ord) q)
  rw [hpost]
  by_cases hst : q.term < (s.begin ra ord).term
  · have hh : (s.begin ra ord).onInstallSnap q = (s.begin ra ord).ret rStaleTerm := by
      rw [onInstallSnap_eq, if_pos hst]
    have hrole : (((s.begin ra ord).onInstallSnap q).rpcDone false).role = (s.begin ra ord).role := by
      rw [r1, hh]; rfl
    have e : settle 6 (((s.begin ra ord).onInstallSnap q).rpcDone false) (s.begin ra ord).role =
        ((s.begin ra ord).onInstallSnap q).rpcDone false := by
      unfold settle; rw [if_pos hrole]
    rw [e, r6]
  · have hf : (((s.begin ra ord).onInstallSnap q).rpcDone false).role = .follower := by
      rw [r1]; exact install_role _ q hst
    rcases CommitRel.settle_follower_cases _ (s.begin ra ord).role hf with e | e
    · rw [e, r6]
    · rw [e, relFrame_iobs.releaseRole, r6]

/-! ### what a crash in the handler leaves on disk -/

/-- the request makes the handler store the snapshot and discard the log: it is not stale, it is ahead of the commit
index, and the log does not hold the snapshot's last entry -/
def Installs (s : Node) (q : InstallReq) : Prop :=
  ¬ q.term < s.term ∧ s.commitIndex < q.lastIndex ∧ C09.keepsLog s q = false

instance (s : Node) (q : InstallReq) : Decidable (Installs s q) := by unfold Installs; infer_instance

/-- **a disk content a crash in `onInstallSnapRequest` can leave**: identity untouched; `(term, vote)` as before or the
request's newer term with no vote; and either log and snapshot files as before, or — only when the request installs —
the received snapshot file among the files (before or after the retention pass) with the OLD log or the reset log -/
structure InstDisk (s : Node) (q : InstallReq) (d : Durable) : Prop where
  cid : d.cid = s.cid
  nid : d.nid = s.nid
  tv : (d.term = s.durTerm ∧ d.vote = s.durVote) ∨ (s.term < q.term ∧ d.term = q.term ∧ d.vote = 0)
  data : (d.log = s.durable.log ∧ d.snaps = s.snapsDisk) ∨
    (Installs s q ∧ (d.log = s.durable.log ∨ d.log = NLog.reset q.lastIndex) ∧
      (d.snaps = insertSnap (C09.fileOf q) s.snapsDisk ∨
        d.snaps = (insertSnap (C09.fileOf q) s.snapsDisk).take s.retain) ∧
      ((s.term < q.term ∧ d.term = q.term ∧ d.vote = 0) ∨
        (¬ s.term < q.term ∧ d.term = s.durTerm ∧ d.vote = s.durVote)))

theorem installPre_dur (s : Node) (q : InstallReq) :
    ((installPre s q).durTerm = s.durTerm ∧ (installPre s q).durVote = s.durVote) ∨
    (s.term < q.term ∧ (installPre s q).durTerm = q.term ∧ (installPre s q).durVote = 0) := by
  unfold installPre
  by_cases h : q.term > s.term
  · rw [if_pos h]
    show ((s.setTerm q.term).durTerm = _ ∧ (s.setTerm q.term).durVote = _) ∨ _
    unfold Node.setTerm
    rw [if_pos (by omega), if_pos h]
    unfold Node.storeTermVote
    dsimp only
    by_cases h2 : q.term = s.durTerm ∧ 0 = s.durVote
    · rw [if_pos h2]; exact Or.inl ⟨rfl, rfl⟩
    · rw [if_neg h2]; exact Or.inr ⟨h, rfl, rfl⟩
  · rw [if_neg h]; exact Or.inl ⟨rfl, rfl⟩

theorem installPre_dur' (s : Node) (q : InstallReq) :
    (s.term < q.term ∧ (installPre s q).durTerm = q.term ∧ (installPre s q).durVote = 0) ∨
    (¬ s.term < q.term ∧ (installPre s q).durTerm = s.durTerm ∧ (installPre s q).durVote = s.durVote) := by
  unfold installPre
  by_cases h : q.term > s.term
  · rw [if_pos h]
    left
    show s.term < q.term ∧ (s.setTerm q.term).durTerm = _ ∧ (s.setTerm q.term).durVote = _
    unfold Node.setTerm
    rw [if_pos (by omega), if_pos h]
    unfold Node.storeTermVote
    dsimp only
    by_cases h2 : q.term = s.durTerm ∧ 0 = s.durVote
    · rw [if_pos h2]; exact ⟨h, h2.1.symm, h2.2.symm⟩
    · rw [if_neg h2]; exact ⟨h, rfl, rfl⟩
  · rw [if_neg h]; exact Or.inr ⟨h, rfl, rfl⟩

theorem instDisk_pre (s : Node) (q : InstallReq) : InstDisk s q (installPre s q).durable := by
  have sd := sameData_installPre s q
  refine ⟨sd.cid, sd.nid, installPre_dur s q, Or.inl ⟨?_, sd.snapsDisk⟩⟩
  show (installPre s q).log.durable = s.log.durable
  rw [sd.log]

theorem instDisk_preTrace (s : Node) (q : InstallReq) : ∀ p ∈ C10.preTrace s q, InstDisk s q p.2 := by
  intro p hp
  unfold C10.preTrace at hp
  split at hp
  · rename_i h
    simp only [List.mem_cons, List.not_mem_nil, or_false] at hp
    subst hp
    exact ⟨rfl, rfl, Or.inr ⟨h.1, rfl, rfl⟩, Or.inl ⟨rfl, rfl⟩⟩
  · cases hp

theorem reset_durable (i : Nat) : (NLog.reset i).durable = NLog.reset i := by
  unfold NLog.durable NLog.reset
  simp

/-- every crash point of the handler, and what is durable when it returns -/
theorem install_points (b : Node) (q : InstallReq) (hb : b.trace = []) :
    (∀ p ∈ (b.onInstallSnap q).trace, InstDisk b q p.2) ∧ InstDisk b q (b.onInstallSnap q).durable := by
  by_cases hi : Installs b q
  · obtain ⟨hterm, hahead, hk⟩ := hi
    have sd := sameData_installPre b q
    have hpl : (installPre b q).durable.log = b.durable.log := by
      show (installPre b q).log.durable = b.log.durable
      rw [sd.log]
    constructor
    · intro p hp
      rw [C10.install_discard_script b q hterm hahead hk, hb] at hp
      simp only [List.nil_append, List.mem_append, List.mem_cons, List.not_mem_nil, or_false] at hp
      rcases hp with hp | hp | hp | hp
      · exact instDisk_preTrace b q p hp
      · subst hp
        exact ⟨sd.cid, sd.nid, installPre_dur b q, Or.inr ⟨⟨hterm, hahead, hk⟩, Or.inl hpl, Or.inl rfl,
          installPre_dur' b q⟩⟩
      · subst hp
        exact ⟨sd.cid, sd.nid, installPre_dur b q, Or.inr ⟨⟨hterm, hahead, hk⟩, Or.inl hpl, Or.inr rfl,
          installPre_dur' b q⟩⟩
      · subst hp
        exact ⟨sd.cid, sd.nid, installPre_dur b q, Or.inr ⟨⟨hterm, hahead, hk⟩, Or.inr rfl, Or.inr rfl,
          installPre_dur' b q⟩⟩
    · obtain ⟨e1, _, _, _, _, _, _, _, e9, _⟩ := C09.install_snapshot_discard b q hterm hahead hk
      have hshape := C09.install_discard_shape b q hterm hahead hk
      obtain ⟨t1, t2, t3, t4⟩ := discardTail_dur ((installPre b q).publishSnapshot (C09.fileOf q)) q.lastConfig
      rw [← hshape] at t1 t2 t3 t4
      have c1 : (b.onInstallSnap q).durable.cid = b.cid := t3.trans sd.cid
      have c2 : (b.onInstallSnap q).durable.nid = b.nid := t4.trans sd.nid
      have c3 : (b.onInstallSnap q).durable.term = (installPre b q).durTerm := t1
      have c4 : (b.onInstallSnap q).durable.vote = (installPre b q).durVote := t2
      have c5 : (b.onInstallSnap q).durable.log = NLog.reset q.lastIndex := by
        show (b.onInstallSnap q).log.durable = _
        rw [e1, reset_durable]
      have c6 : (b.onInstallSnap q).durable.snaps = (insertSnap (C09.fileOf q) b.snapsDisk).take b.retain := e9
      refine ⟨c1, c2, ?_, Or.inr ⟨⟨hterm, hahead, hk⟩, Or.inr c5, Or.inr c6, ?_⟩⟩
      · rw [c3, c4]
        exact installPre_dur b q
      · rw [c3, c4]
        exact installPre_dur' b q
  · have hign : q.term < b.term ∨ q.lastIndex ≤ b.commitIndex ∨ C09.keepsLog b q = true := by
      unfold Installs at hi
      by_cases h1 : q.term < b.term
      · exact Or.inl h1
      · by_cases h2 : q.lastIndex ≤ b.commitIndex
        · exact Or.inr (Or.inl h2)
        · right; right
          cases hk : C09.keepsLog b q with
          | true => rfl
          | false => exact absurd ⟨h1, by omega, hk⟩ hi
    constructor
    · intro p hp
      rw [(C10.install_ignored_script b q hign).1, hb] at hp
      simp only [List.nil_append] at hp
      split at hp
      · cases hp
      · exact instDisk_preTrace b q p hp
    · by_cases h1 : q.term < b.term
      · rw [onInstallSnap_eq, if_pos h1]
        exact ⟨rfl, rfl, Or.inl ⟨rfl, rfl⟩, Or.inl ⟨rfl, rfl⟩⟩
      · have h2 : q.lastIndex ≤ b.commitIndex ∨ C09.keepsLog b q = true := by
          rcases hign with h | h
          · contradiction
          · exact h
        rw [C09.install_nothing_shape b q h1 h2]
        exact instDisk_pre b q

/-- **the crash points of `.install`**: whatever the request and the point at which the process dies, the disk holds
`InstDisk` -/
theorem install_crashDisk (s : Node) (q : InstallReq) (ra : List Nat) (ord : List (List Nat)) (k : Nat) :
    InstDisk s q (C05.crashDisk s (.install q) ra ord k) := by
  have hio := install_step_iobs s q ra ord
  have htr : (s.step (.install q) ra ord).trace = ((s.begin ra ord).onInstallSnap q).trace := by
    have := congrArg (fun p => p.2.2.2.1.1) hio
    exact this
  have hdur : (s.step (.install q) ra ord).durable = ((s.begin ra ord).onInstallSnap q).durable :=
    (iobs_durable hio).trans rfl
  obtain ⟨h1, h2⟩ := install_points (s.begin ra ord) q rfl
  have key : InstDisk (s.begin ra ord) q (C05.crashDisk s (.install q) ra ord k) := by
    rcases C04Sys.crashDisk_cases s (.install q) ra ord k with e | ⟨p, hp, e⟩ | e
    · rw [e]; exact ⟨rfl, rfl, Or.inl ⟨rfl, rfl⟩, Or.inl ⟨rfl, rfl⟩⟩
    · rw [e]; rw [htr] at hp; exact h1 p hp
    · rw [e, hdur]; exact h2
  exact ⟨key.cid, key.nid, key.tv, key.data⟩

/-! ### the window between `snap.publish` and `clearLog`: the old log is stale -/

/-- the received file heads the listing, before and after the retention pass -/
theorem inst_head (s : Node) (q : InstallReq) (hr : 1 ≤ s.retain)
    (hh : ∀ g, s.snapsDisk.head? = some g → g.index ≤ q.lastIndex) {l : List SnapFile}
    (hl : l = insertSnap (C09.fileOf q) s.snapsDisk ∨ l = (insertSnap (C09.fileOf q) s.snapsDisk).take s.retain) :
    l.head? = some (C09.fileOf q) := by
  obtain ⟨tl, htl⟩ := insertSnap_head (C09.fileOf q) s.snapsDisk hh
  obtain ⟨k, hk⟩ : ∃ k, s.retain = k + 1 := ⟨s.retain - 1, by omega⟩
  rcases hl with e | e
  · rw [e, htl]; rfl
  · rw [e, htl, hk]; rfl

/-- what the durable image of a log answers is what the log answers -/
theorem durable_get? (l : NLog) (i : Nat) (e : Entry) (h : l.durable.get? i = some e) : l.get? i = some e := by
  unfold NLog.get? at h ⊢
  have hp : l.durable.prev = l.prev := rfl
  rw [hp] at h
  split
  · rw [if_pos (by assumption)] at h
    have he : l.durable.entries = l.entries.take (l.flushed - l.prev) := rfl
    rw [he, List.getElem?_take] at h
    split at h
    · exact h
    · cases h
  · rw [if_neg (by assumption)] at h; cases h

theorem durable_last_le (l : NLog) : l.durable.last ≤ l.last := by
  unfold NLog.last
  have hp : l.durable.prev = l.prev := rfl
  have he : l.durable.entries = l.entries.take (l.flushed - l.prev) := rfl
  rw [hp, he, List.length_take]
  omega

/-- **F18, the repaired window.** The old log on disk under the newly published snapshot is a STALE log: a process that
dies after `snap.publish` / `snap.retain` and before `clearLog` finds, on restart, a log that ends below the snapshot
index or holds another entry there — because the handler stores the snapshot only when the log does NOT hold the
snapshot's last entry (`keepsLog = false`), and what is on disk is a prefix of that log. -/
theorem install_disk_stale (s : Node) (q : InstallReq) (hi : Installs s q) (hprev : s.log.prev ≤ s.commitIndex)
    (d : Durable) (hlog : d.log = s.durable.log) (hhead : d.snaps.head? = some (C09.fileOf q)) :
    staleLog d = true := by
  obtain ⟨_, hahead, hk⟩ := hi
  have hso : C10.snapOf d = C09.fileOf q := by unfold C10.snapOf; rw [hhead]; rfl
  cases hst : staleLog d with
  | true => rfl
  | false =>
    exfalso
    have h1 := C10.not_stale_reaches d hst
    have hp : d.log.prev < (C10.snapOf d).index := by
      rw [hso, hlog]
      show s.log.prev < q.lastIndex
      omega
    have h2 := C10.not_stale_term d hst hp
    rw [hso, hlog] at h1 h2
    have h1' : q.lastIndex ≤ s.log.durable.last := h1
    have h2' : (s.log.durable.get? q.lastIndex).map (·.term) = some q.lastTerm := h2
    cases hg : s.log.durable.get? q.lastIndex with
    | none => rw [hg] at h2'; cases h2'
    | some e =>
      rw [hg] at h2'
      have hget := durable_get? s.log q.lastIndex e hg
      have hk' : C09.keepsLog s q = true := by
        unfold C09.keepsLog NLog.contains Node.entryTerm?
        rw [hget]
        have hl := durable_last_le s.log
        have e1 : decide (s.log.prev < q.lastIndex) = true := decide_eq_true (by omega)
        have e2 : decide (q.lastIndex ≤ s.log.last) = true := decide_eq_true (by omega)
        rw [e1, e2]
        simp only [Option.map_some, Bool.and_self, Bool.true_and, beq_iff_eq]
        simpa using h2'
      rw [hk] at hk'; cases hk'

/-- … so `openStorage` works with the log reset to the snapshot, at every crash point that has the new file -/
theorem install_disk_logOf (s : Node) (q : InstallReq) (hi : Installs s q) (hprev : s.log.prev ≤ s.commitIndex)
    (d : Durable) (hlog : d.log = s.durable.log ∨ d.log = NLog.reset q.lastIndex)
    (hhead : d.snaps.head? = some (C09.fileOf q)) :
    C10.snapOf d = C09.fileOf q ∧ C10.logOf d = NLog.reset q.lastIndex := by
  have hso : C10.snapOf d = C09.fileOf q := by unfold C10.snapOf; rw [hhead]; rfl
  refine ⟨hso, ?_⟩
  rcases hlog with e | e
  · unfold C10.logOf
    rw [if_pos (install_disk_stale s q hi hprev d e hhead), hso]; rfl
  · rcases C10.logOf_cases d with ⟨_, h⟩ | ⟨_, h⟩
    · rw [h, hso]; rfl
    · rw [h, e]

/-! ### every crash point leaves a disk from which the restart re-establishes the per-node invariants -/

theorem diskTracks_congr {d d' : Durable} (h : C12Track.DiskTracks d') (e1 : d.log = d'.log) (e2 : d.snaps = d'.snaps) :
    C12Track.DiskTracks d := by
  cases d; cases d'
  simp only at e1 e2
  subst e1; subst e2
  exact ⟨h.contig, h.lab, h.term, h.zero⟩

/-- **`DiskTracks` at every crash point of `.install`** — what `C12Track` left open for the storage points INSIDE this
handler: from a tracking, ordered node, whatever the request and wherever the process dies, the disk is one from which
a restart yields a tracking node (`C12Track.restart_tracks`). -/
theorem install_disk_tracks (s : Node) (q : InstallReq) (ra : List Nat) (ord : List (List Nat)) (k : Nat)
    (ht : C12Track.Tracks s) (ho : Order.Ordered s) :
    C12Track.DiskTracks (C05.crashDisk s (.install q) ra ord k) := by
  have hd := install_crashDisk s q ra ord k
  generalize C05.crashDisk s (.install q) ra ord k = d at hd
  have hprev : s.log.prev ≤ s.commitIndex := by
    have := ho.prev_le_snap; have := ho.snap_le_applied; have := ho.applied_le_commit; omega
  rcases hd.data with ⟨e1, e2⟩ | ⟨hi, e1, e2, _⟩
  · exact diskTracks_congr (C12Track.durable_diskTracks s ht ho) e1 e2
  · have hh : ∀ g, s.snapsDisk.head? = some g → g.index ≤ q.lastIndex := by
      intro g hg
      have := ht.headLe g hg
      have := ho.snap_le_applied; have := ho.applied_le_commit; have := hi.2.1
      omega
    have hhead := inst_head s q ht.retain hh e2
    obtain ⟨hso, hlo⟩ := install_disk_logOf s q hi hprev d e1 hhead
    refine ⟨?_, ?_, fun hlt => ?_, fun h0 => ?_⟩
    · rcases e1 with e | e <;> rw [e]
      · exact C12Track.contig_durable ht.contig
      · exact C03.LogContig.reset _
    · rw [hlo]; exact Track.newest_of_nil _ (Track.pre_reset _ _)
    · rw [hlo, hso] at hlt
      exact absurd hlt (Nat.lt_irrefl _)
    · rw [hso] at h0
      have h0' : q.lastIndex = 0 := h0
      have := hi.2.1
      omega

/-- … and `C19Order.DiskOK` (for `restart_ordered`), given in addition that the log is well formed with respect to
flushing (`C06.LogWF`), that the label of the newest snapshot on disk is a configuration the snapshot covers, and that
the request's label is one its snapshot covers (`Order.InstallOk`, required of an installing request) -/
theorem install_disk_ok (s : Node) (q : InstallReq) (ra : List Nat) (ord : List (List Nat)) (k : Nat)
    (ht : C12Track.Tracks s) (ho : Order.Ordered s) (hw : C06.LogWF s.log)
    (hlab : (Track.label s).index ≤ s.snapIndex) (hq : Installs s q → Order.InstallOk q) :
    C19Order.DiskOK (C05.crashDisk s (.install q) ra ord k) := by
  have hd := install_crashDisk s q ra ord k
  generalize C05.crashDisk s (.install q) ra ord k = d at hd
  have hprev : s.log.prev ≤ s.commitIndex := by
    have := ho.prev_le_snap; have := ho.snap_le_applied; have := ho.applied_le_commit; omega
  have hseg : C09.SegsOK s.log.durable := SysInv.segsOK_durable _ ho.segs hw
  have hidx : ∀ i e, s.log.durable.get? i = some e → e.index = i :=
    fun i e h => (C12Track.contig_durable ht.contig).get?_index i e h
  rcases hd.data with ⟨e1, e2⟩ | ⟨hi, e1, e2, _⟩
  · obtain ⟨dw, dc, di⟩ := C12Track.durable_snap s ht ho
    have hso : C10.snapOf d = C10.snapOf s.durable := by unfold C10.snapOf; rw [e2]; rfl
    refine ⟨?_, by rw [e1]; exact hseg, by rw [e1]; exact hidx, ?_⟩
    · unfold C10.DurWF; rw [hso, e1]; exact dw
    · rw [hso, dc, di]; exact hlab
  · have hh : ∀ g, s.snapsDisk.head? = some g → g.index ≤ q.lastIndex := by
      intro g hg
      have := ht.headLe g hg
      have := ho.snap_le_applied; have := ho.applied_le_commit; have := hi.2.1
      omega
    have hhead := inst_head s q ht.retain hh e2
    have hso : C10.snapOf d = C09.fileOf q := by unfold C10.snapOf; rw [hhead]; rfl
    refine ⟨?_, ?_, ?_, by rw [hso]; exact hq hi⟩
    · unfold C10.DurWF
      rw [hso]
      rcases e1 with e | e <;> rw [e]
      · show s.log.prev ≤ q.lastIndex
        have := hi.2.1; omega
      · exact Nat.le_refl _
    · rcases e1 with e | e <;> rw [e]
      · exact hseg
      · exact Order.segsOK_reset _
    · rcases e1 with e | e <;> rw [e]
      · exact hidx
      · intro i x hx
        unfold NLog.get? NLog.reset at hx
        dsimp only at hx
        split at hx
        · simp at hx
        · cases hx

/-- **the per-node invariants survive a crash at EVERY storage point of `onInstallSnapRequest`.** Let `s` be a
tracking (`C12Track.Tracks`: in particular the log entry at the snapshot index, if the log holds it, has the snapshot's
term) and ordered (`Order.Ordered`) node with a well-formed log; let the process die after `k` storage points of
handling ANY install request `q` (stale, duplicate, already held, or installing) and restart from what is on disk.
Then the restarted node is again tracking and ordered. -/
theorem install_crash_restart_tracks (s : Node) (q : InstallReq) (ra : List Nat) (ord : List (List Nat)) (k : Nat)
    (r : Nat) (sor : Bool) (n : Node) (ht : C12Track.Tracks s) (ho : Order.Ordered s) (hw : C06.LogWF s.log)
    (hlab : (Track.label s).index ≤ s.snapIndex) (hq : Installs s q → Order.InstallOk q) (hr : 1 ≤ r)
    (hn : Node.restart (C05.crashDisk s (.install q) ra ord k) r sor = some n) :
    C12Track.Tracks n ∧ Order.Ordered n :=
  ⟨C12Track.restart_tracks _ r sor n hr (install_disk_tracks s q ra ord k ht ho) hn,
   C19Order.restart_ordered _ r sor n (install_disk_ok s q ra ord k ht ho hw hlab hq) hn⟩

/-! ### the node restarted from a disk that holds the received snapshot -/

theorem restartNode_lastLogTerm (d : Durable) (r : Nat) (sor : Bool) :
    (restartNode d r sor).lastLogTerm =
      (if (C10.logOf d).count > 0 then (((C10.logOf d).entries.getLast?).map (·.term)).getD 0 else (C10.snapOf d).term) ∧
    (restartNode d r sor).role = .follower := ⟨rfl, rfl⟩

/-- **a crash after `snap.publish`: the restarted node is the node after the installation.** If the disk the process
leaves holds the received snapshot file (crash points `snap.publish`, `snap.retain`, `clearLog`, or after the handler
returned), the restarted node has the log reset to the snapshot — never the OLD log under the NEW snapshot —, last log
index / term, snapshot index / term and commit index are the snapshot's, the state machine is the snapshot's content
and both configurations are its label: exactly what the completed handler leaves (`C09.install_snapshot_discard`,
`C09.install_discard_restore_ok`), with the durable term and vote. -/
theorem install_crash_restart_installed (s : Node) (q : InstallReq) (hi : Installs s q)
    (hprev : s.log.prev ≤ s.commitIndex) (hr : 1 ≤ s.retain)
    (hh : ∀ g, s.snapsDisk.head? = some g → g.index ≤ q.lastIndex)
    (d : Durable) (hlog : d.log = s.durable.log ∨ d.log = NLog.reset q.lastIndex)
    (hsn : d.snaps = insertSnap (C09.fileOf q) s.snapsDisk ∨
      d.snaps = (insertSnap (C09.fileOf q) s.snapsDisk).take s.retain)
    (r : Nat) (sor : Bool) (n : Node) (hn : Node.restart d r sor = some n) :
    n.log = NLog.reset q.lastIndex ∧ n.lastLogIndex = q.lastIndex ∧ n.lastLogTerm = q.lastTerm ∧
    n.snapIndex = q.lastIndex ∧ n.snapTerm = q.lastTerm ∧ n.commitIndex = q.lastIndex ∧
    n.fsm = { index := q.lastIndex, term := q.lastTerm, applied := q.data, config := q.lastConfig } ∧
    n.configs = { committed := q.lastConfig, latest := q.lastConfig } ∧ n.snapsDisk = d.snaps ∧
    n.role = .follower ∧ n.term = d.term ∧ n.votedFor = d.vote ∧ n.panicked = none := by
  have hhead := inst_head s q hr hh hsn
  obtain ⟨hso, hlo⟩ := install_disk_logOf s q hi hprev d hlog hhead
  have hpos : (C10.snapOf d).index > 0 := by
    rw [hso]; show q.lastIndex > 0; have := hi.2.1; omega
  obtain ⟨f1, f2, f3, f4, f5, f6, f7⟩ := C10.restart_fsm d r sor n hn
  rw [if_pos hpos] at f1
  obtain ⟨e1, e2, e3, e4, _⟩ := C10.restartNode_fields d r sor
  obtain ⟨t1, t2⟩ := restartNode_lastLogTerm d r sor
  obtain ⟨_, _, _, hne⟩ := C10.restart_some d r sor n hn
  rw [e1, if_pos hpos] at hne
  obtain ⟨_, _, o3, _, o5, _, _, _, _, _, _⟩ := fsmRestore_other (restartNode d r sor)
  obtain ⟨v1, v2, _, _⟩ := C10.restart_term_vote d r sor n hn
  have hcount : ¬ (C10.logOf d).count > 0 := by rw [hlo]; simp [NLog.reset, NLog.count]
  have hcfg := C10.restart_configs_none d r sor (by
      unfold C10.DurWF
      rw [hso]
      rcases hlog with e | e <;> rw [e]
      · show s.log.prev ≤ q.lastIndex
        have := hi.2.1; omega
      · exact Nat.le_refl _) (by
      intro e he
      rw [hlo, hso] at he
      rw [C10.window_empty _ _ _ (by show (NLog.reset q.lastIndex).last ≤ q.lastIndex; simp [NLog.reset, NLog.last])] at he
      cases he)
  refine ⟨?_, ?_, ?_, by rw [f3, hso]; rfl, ?_, by rw [f1.2, hso]; rfl, by rw [f1.1, hso]; rfl, ?_, f7, ?_, v1, v2, f2⟩
  · rw [f4, e3, hlo]; rfl
  · rw [f5, e4, if_neg hcount, hso]; rfl
  · rw [hne]
    show (restartNode d r sor).fsmRestore.lastLogTerm = _
    rw [o3, t1, if_neg hcount, hso]; rfl
  · rw [hne]
    show (restartNode d r sor).fsmRestore.snapTerm = _
    rw [o5, e2, hso]; rfl
  · rw [f6]
    have := hcfg.2
    rw [hso] at this
    cases hc : (restartNode d r sor).configs with
    | mk c l =>
      rw [hc] at this
      obtain ⟨a, b⟩ := this
      have a' : l = q.lastConfig := a
      have b' : c = q.lastConfig := b
      rw [a', b']
  · rw [hne]
    show (restartNode d r sor).fsmRestore.role = _
    rw [fsmRestore_eq]; exact t2

end SnapInst
end Raft
