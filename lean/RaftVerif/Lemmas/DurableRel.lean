/-
Durability of committed entries on the cluster system `Raft.Commit` (Sys/Commit.lean) — helper lemmas for
Props/C06Sys.lean.

* `DiskHolds d k t`      — the disk image `d` (what `restart` reads) returns an entry of term `t` for `Log.Get(k)`;
* `DurablyHolds x j k t` — the disk image of node `j` in state `x` does;
* `CrashSafe x j k t`    — so does the disk image at EVERY storage point of EVERY enabled step of node `j`
                            (`C05.crashDisk`), i.e. whenever the process may die;
* `SameOnDisk d s k`     — the disk image `d` returns for every index `1 ≤ k' ≤ k` the very entry node `s` holds;
* `Keeps y v s k`        — node `v` of state `y` keeps the entries `1 … k` of `s` durably (flushed, on disk at every
                            crash point, and back in the log after every restart).

The facts are consequences of the invariant `Commit.CInv` (Props/C02Sys.lean), mainly of `AckI.stable` (an
acknowledged entry of the acknowledgement's term stays durably in the voter's log unless an entry of a later
term does not extend it), `CmtI.quorum`, `CmtI.lc` (every later entry extends a committed one) and of the
description `C02Sys.DImg` of the crash images of a step.
-/
import RaftVerif.Props.C02Sys

namespace Raft
namespace DurableRel
open Node Election LogRel Replication CommitRel Commit C02Sys

/-! ### the notions -/

/-- the disk image `d` holds an entry with term `t` at index `k`: `Log.Get(k)` on the reopened log returns it -/
def DiskHolds (d : Durable) (k t : Nat) : Prop := ∃ e, d.log.get? k = some e ∧ e.term = t

/-- node `j`'s DURABLE log in state `x` (entries up to `flushed`: what a process crash keeps and `restart`
reads) holds an entry with term `t` at index `k` -/
def DurablyHolds (x : Commit.Sys) (j k t : Nat) : Prop := DiskHolds (x.node j).durable k t

/-- whenever node `j` may die — before, at any storage point of, or after any enabled step with any content and
oracles — the disk holds an entry with term `t` at index `k` -/
def CrashSafe (x : Commit.Sys) (j k t : Nat) : Prop :=
  ∀ op ra ord src n, Commit.Enabled x j op src → DiskHolds (C05.crashDisk (x.node j) op ra ord n) k t

/-- the disk image `d` returns, for every index `1 ≤ k' ≤ k`, the very entry the log of `s` holds there -/
def SameOnDisk (d : Durable) (s : Node) (k : Nat) : Prop :=
  ∀ k', 1 ≤ k' → k' ≤ k → d.log.get? k' = s.log.get? k' ∧ (s.log.get? k').isSome = true

/-- **node `v` of state `y` keeps the entries `1 … k` of the log of `s` durably**: its log is flushed up to
`k` at least; its disk returns these very entries — now, and at every storage point of every enabled step
(whenever the process may die); and whenever it restarts from such a disk image, the restarted node holds these
very entries again, in a completely flushed log. -/
structure Keeps (y : Commit.Sys) (v : Nat) (s : Node) (k : Nat) : Prop where
  flushed : k ≤ (y.node v).log.flushed
  disk : SameOnDisk (y.node v).durable s k
  crash : ∀ op ra ord src n, Commit.Enabled y v op src → SameOnDisk (C05.crashDisk (y.node v) op ra ord n) s k
  restart : ∀ op ra ord src n retain sor w, Commit.Enabled y v op src →
    Node.restart (C05.crashDisk (y.node v) op ra ord n) retain sor = some w →
    k ≤ w.log.flushed ∧ ∀ k', 1 ≤ k' → k' ≤ k → w.log.get? k' = s.log.get? k'

/-! ### disk images and `Holds` -/

theorem get?_prev0 (l : NLog) (hp : l.prev = 0) (k : Nat) :
    l.get? k = if 0 < k then l.entries[k - 1]? else none := by
  unfold NLog.get?
  rw [hp]
  split
  · rw [Nat.sub_zero]
  · rfl

theorem diskHolds_iff {d : Durable} (hp : d.log.prev = 0) {k t : Nat} :
    DiskHolds d k t ↔ Holds d.log.entries k t := by
  unfold DiskHolds
  rw [get?_prev0 _ hp]
  constructor
  · rintro ⟨e, he, het⟩
    by_cases hk : 0 < k
    · rw [if_pos hk] at he
      obtain ⟨hlt, hee⟩ := List.getElem?_eq_some_iff.mp he
      refine ⟨hk, by omega, ?_⟩
      unfold termAt
      rw [if_neg (by omega), he]
      exact het
    · rw [if_neg hk] at he; cases he
  · intro h
    obtain ⟨e, he, het⟩ := holds_get h
    exact ⟨e, by rw [if_pos (show 0 < k from h.1)]; exact he, het⟩

theorem holds_take_iff {es : List Entry} {f k t : Nat} :
    Holds (es.take f) k t ↔ k ≤ f ∧ Holds es k t := by
  constructor
  · intro h
    have hl := h.2.1
    rw [List.length_take] at hl
    exact ⟨by omega, holds_prefix (List.take_prefix _ _) h⟩
  · rintro ⟨hf, h⟩
    exact holds_of_take_eq (k := f) (by rw [List.take_take, Nat.min_self]) h hf

/-- on a well-formed node, "the durable log holds" is `Commit.DurHolds` -/
theorem durable_holds_iff {s : Node} (hn : NWF s) {k t : Nat} :
    DiskHolds s.durable k t ↔ DurHolds s (k, t) := by
  have hp : s.durable.log.prev = 0 := hn.prev
  rw [diskHolds_iff hp]
  show Holds s.log.durable.entries k t ↔ _
  rw [durable_entries hn, holds_take_iff]
  rfl

theorem durablyHolds_iff {V : List Nat} {x : Commit.Sys} (hI : CInv V x) {j k t : Nat} :
    DurablyHolds x j k t ↔ DurHolds (x.node j) (k, t) := durable_holds_iff (nwf hI j)

/-- the entries the durable image returns below `flushed` are the entries of the log -/
theorem durable_get? {s : Node} (hn : NWF s) {k : Nat} (hk : k ≤ s.log.flushed) :
    s.durable.log.get? k = s.log.get? k := by
  have hp : s.durable.log.prev = 0 := hn.prev
  rw [get?_prev0 _ hp, hn.get?]
  by_cases h0 : 0 < k
  · rw [if_pos h0, if_pos h0]
    show s.log.durable.entries[k - 1]? = _
    rw [durable_entries hn, List.getElem?_take, if_pos (by omega)]
  · rw [if_neg h0, if_neg h0]

/-! ### the ledgers along a run -/

theorem trans_acks {x y : Commit.Sys} (h : Commit.Trans x y) : ∀ a ∈ x.acks, a ∈ y.acks := by
  cases h with
  | step i op ra ord src he => exact fun a ha => List.mem_append_right _ (List.mem_append_right _ ha)
  | crash i op ra ord src k retain sor n he hn => exact fun a ha => ha
  | send i q hi hl hr hc => exact fun a ha => ha

theorem run_acks {V : List Nat} {x y : Commit.Sys} (h : RunV V x y) : ∀ a ∈ x.acks, a ∈ y.acks := by
  induction h with
  | refl => exact fun a ha => ha
  | next y z _ ht _ ih => exact fun a ha => trans_acks ht a (ih a ha)

theorem run_trans {V : List Nat} {x y z : Commit.Sys} (h1 : RunV V x y) (h2 : RunV V y z) : RunV V x z := by
  induction h2 with
  | refl => exact h1
  | next z w _ ht hs ih => exact .next z w ih ht hs

/-! ### committed entries are held durably by those who acknowledged them -/

section inv
variable {V : List Nat} {x : Commit.Sys}

/-- no entry of a later term fails to extend a ledger entry -/
theorem not_unsafe (hI : CInv V x) {m : Nat × Nat} (hm : m ∈ x.committed) (u : Nat) : ¬ Unsafe x.T m u := by
  rintro ⟨c, hc, h1, _, h3⟩
  exact h3 (hI.cmt.lc m hm c hc h1)

/-- **whoever acknowledged a ledger entry in the entry's term holds it durably** -/
theorem acker_durHolds (hI : CInv V x) {m : Nat × Nat} (hm : m ∈ x.committed) {a : Ack} (ha : a ∈ x.acks)
    (hat : a.term = m.2) (hanc : Anc x.T m a.key) : DurHolds (x.node a.voter) m :=
  (hI.ack.stable a ha m hat.symm hanc).resolve_right (not_unsafe hI hm _)

/-- a log that holds a key durably holds every ancestor of the key durably -/
theorem durHolds_anc (hI : CInv V x) {v : Nat} {a c : Nat × Nat} (h : Anc x.T a c)
    (hc : DurHolds (x.node v) c) : DurHolds (x.node v) a :=
  ⟨Nat.le_trans h.1 hc.1, log_holds_anc hI v h hc.2⟩

/-- the acknowledging majority of a ledger entry -/
def AckQuorum (V : List Nat) (x : Commit.Sys) (m : Nat × Nat) (Q : List Nat) : Prop :=
  Q.Nodup ∧ (∀ v ∈ Q, v ∈ V) ∧ 2 * Q.length > V.length ∧
    ∀ v ∈ Q, ∃ a ∈ x.acks, a.voter = v ∧ a.term = m.2 ∧ Anc x.T m a.key

theorem ackQuorum_exists (hI : CInv V x) {m : Nat × Nat} (hm : m ∈ x.committed) : ∃ Q, AckQuorum V x m Q :=
  (hI.cmt.quorum m hm).2

/-- the acknowledging majority stays one along a run -/
theorem AckQuorum.run {y : Commit.Sys} {m : Nat × Nat} {Q : List Nat} (h : AckQuorum V x m Q)
    (hT : ∀ c ∈ x.T, c ∈ y.T) (hA : ∀ a ∈ x.acks, a ∈ y.acks) : AckQuorum V y m Q := by
  obtain ⟨q1, q2, q3, q4⟩ := h
  refine ⟨q1, q2, q3, fun v hv => ?_⟩
  obtain ⟨a, ha, a1, a2, a3⟩ := q4 v hv
  exact ⟨a, hA a ha, a1, a2, a3.mono hT⟩

theorem AckQuorum.durHolds (hI : CInv V x) {m : Nat × Nat} (hm : m ∈ x.committed) {Q : List Nat}
    (h : AckQuorum V x m Q) {v : Nat} (hv : v ∈ Q) : DurHolds (x.node v) m := by
  obtain ⟨a, ha, a1, a2, a3⟩ := h.2.2.2 v hv
  have := acker_durHolds hI hm ha a2 a3
  rwa [a1] at this

end inv

/-! ### the crash images of a step -/

namespace SC
variable {V : List Nat} {x : Commit.Sys} {i : Nat} {op : Op} {ra : List Nat} {ord : List (List Nat)} {src : Nat}

/-- the log on disk at any moment the process may die is a root path of the tree after the completed step -/
theorem disk_path (h : SC V x i op ra ord src) (k : Nat) :
    Path (stepC x i op ra ord src).T (C05.crashDisk (x.node i) op ra ord k).log.entries := by
  have hI := h.inv
  have hE := h.ext
  have hpre : Path (stepC x i op ra ord src).T (x.node i).log.entries := (log_path hI i).mono hE.T
  rcases C02Sys.SC.op_cases op with happ | ⟨q, rfl⟩
  · rcases (h.img k).within happ with w | w
    · exact hpre.prefix w
    · exact h.ppath.prefix w
  · have fi := follower_step (T := x.T) (x.node i) q ra ord (hI.rp.nodes i).1 (hI.rp.nodes i).2
      (C04Sys.enabled_req hI.rp h.en.rp)
    have hd : DiskOK x.T (C05.crashDisk (x.node i) (.append q) ra ord k) := by
      rcases C04Sys.crashDisk_cases (x.node i) (.append q) ra ord k with hd | ⟨p, hp, hd⟩ | hd
      · rw [hd]; exact diskOK_durable (hI.rp.nodes i).1 (hI.rp.nodes i).2
      · rw [hd]; exact fi.tr p hp
      · rw [hd]; exact diskOK_durable fi.nwf fi.chain
    have hp : Path x.T (C05.crashDisk (x.node i) (.append q) ra ord k).log.entries := ⟨hd.2.2.1, hd.2.2.2⟩
    exact Path.mono hE.T hp

/-- a ledger entry that node `i` acknowledged in the entry's term is on disk whenever `i` may die -/
theorem disk_holds (h : SC V x i op ra ord src) (k : Nat) {m : Nat × Nat} (hm : m ∈ x.committed) {a : Ack}
    (ha : a ∈ x.acks) (hv : a.voter = i) (hat : a.term = m.2) (hanc : Anc x.T m a.key) :
    Holds (C05.crashDisk (x.node i) op ra ord k).log.entries m.1 m.2 := by
  have hd := acker_durHolds h.inv hm ha hat hanc
  rw [hv] at hd
  rcases (h.img k).dur a ha hv m hat.symm hd with ⟨_, d⟩ | u
  · exact d
  · exact absurd u (not_unsafe h.inv hm _)

end SC

end DurableRel
end Raft
