/-
Every transition of `Member.Sys` preserves the invariant `MemberInv.MInv` (the dynamic part; the generalisation of
`Props/C02Sys.lean` — `SC`, `NewE`, `CC`, `cinv_send` — to the system with membership changes).
-/
import RaftVerif.Lemmas.MemberInv

namespace Raft
namespace MemberStep
open Node Election LogRel Replication CommitRel Commit Member MemberCore QuorumRel MemberInv MemberCommit

/-- every node's latest configuration is the last configuration entry of its log -/
def CfgLatest (x : Member.Sys) : Prop := ∀ i, CfgLast (x.node i).log.entries (x.node i).configs.latest

/-- no enabled step of a candidate or leader fails (`panicked`: a Go panic, or the recursion budget of the model).
NOT a usable side condition: it is FALSE in every state in which a leader has a replication
(`C08Member.nofail_unsatisfiable`: `Member.Enabled` admits a `newTerm 0` report, which fails the assertion of
`storage.setTerm`). The analysis of a transition asks the no-failure of the operation AT HAND only (`SM.nofail`,
`TransNF`). -/
def NoFail (x : Member.Sys) : Prop :=
  ∀ i op ra ord src, Member.Enabled x i op src → (x.node i).role ≠ .follower →
    ((x.node i).step op ra ord).panicked = none

/-- side conditions on a state of a run (hypotheses of the theorems, see Props/C02Member.lean) -/
structure SideM (x : Member.Sys) : Prop where
  boot : Boot x
  q1 : ∀ i, (x.node i).configs.latest.quorum ≠ 1
  cache : ∀ i, C06Cache.LeaderCache (x.node i)
  tree : SideT x

/-- the hypotheses under which a completed step is analysed -/
structure SM (x : Member.Sys) (G : Ghost) (i : Nat) (op : Op) (ra : List Nat) (ord : List (List Nat)) (src : Nat) :
    Prop where
  inv : MInv x G
  side : SideM x
  en : Member.Enabled x i op src
  /-- the step at hand does not fail if the node is candidate or leader -/
  nofail : (x.node i).role ≠ .follower → ((x.node i).step op ra ord).panicked = none

namespace SM
variable {x : Member.Sys} {G : Ghost} {i : Nat} {op : Op} {ra : List Nat} {ord : List (List Nat)} {src : Nat}

/-- the state after the step -/
abbrev y (_h : SM x G i op ra ord src) : Member.Sys := stepM x i op ra ord src

/-- node `i` after the step -/
abbrev post (_h : SM x G i op ra ord src) : Node := (x.node i).step op ra ord

theorem node_i (h : SM x G i op ra ord src) : h.y.node i = h.post := by
  show setNode x.cm.rp.el.node i _ i = _
  rw [setNode_same]

theorem node_j (h : SM x G i op ra ord src) {j : Nat} (hj : j ≠ i) : h.y.node j = x.node j := by
  show setNode x.cm.rp.el.node i _ j = _
  rw [setNode_other _ _ _ _ hj]

theorem esafe (h : SM x G i op ra ord src) : C04Member.ESafe x.el.grants x.ecfg := esafeM h.inv h.side.tree

/-- the replication invariant after the step -/
theorem ry (h : SM x G i op ra ord src) : C04Member.RInv h.y.cm.rp h.y.ecfg :=
  C04Member.rinv_upd h.inv.rp h.esafe i op src _ h.en.rp.id (h.side.q1 i) h.en.rp.real
    (C04Member.upd_step h.inv.rp i (h.side.boot i) op ra ord src h.en.rp)
    (stepSys x.cm.rp.el i op ra ord src) _ rfl
    (fun g hg => List.mem_append_right _ (List.mem_append_right _ hg))
    (fun k hk => List.mem_append_right _ hk)
    (C01Member.einv_step x.cm.rp.el x.ecfg h.inv.rp.el i op ra ord src h.en.rp.id (h.side.boot i) h.en.rp.ok
      h.en.rp.voteSrc h.en.rp.real)

theorem vstep (h : SM x G i op ra ord src) : C05.VoteStep (x.node i) h.post ∧ C05.VoteWF h.post := by
  obtain ⟨a, b, _⟩ := C05.step_vote_stable (x.node i) op ra ord (h.inv.rp.el.ids i).2
  exact ⟨a, b⟩

theorem ext (h : SM x G i op ra ord src) : Ext x.cm h.y.cm i := by
  refine ⟨fun j hj => h.node_j hj, fun j => ?_, fun c hc => List.mem_append_right _ hc, fun q hq => hq,
    fun a ha => List.mem_append_right _ (List.mem_append_right _ ha), fun k hk => List.mem_append_right _ hk,
    fun m hm => List.mem_append_right _ hm,
    fun g hg => List.mem_append_right _ (List.mem_append_right _ hg), fun e he => List.mem_append_right _ he,
    fun e he => List.mem_append_right _ he, h.ry.uniq, h.inv.tree.pathc⟩
  by_cases hj : j = i
  · subst hj
    have := h.node_i
    show (x.node j).term ≤ (h.y.node j).term
    rw [this]; exact h.vstep.1.1
  · have := h.node_j hj
    show (x.node j).term ≤ (h.y.node j).term
    rw [this]; exact Nat.le_refl _

theorem rstep (h : SM x G i op ra ord src) : RoleStep (x.node i) op h.post :=
  role_step (x.node i) op ra ord (fun hc => (h.inv.rp.el.cand i hc).term_pos)

theorem upd (h : SM x G i op ra ord src) : C04Member.UpdM x.cm.rp i op h.post :=
  C04Member.upd_step h.inv.rp i (h.side.boot i) op ra ord src h.en.rp

theorem nid_pre (h : SM x G i op ra ord src) : (x.node i).nid = i := (h.inv.rp.el.ids i).1

theorem nid_post (h : SM x G i op ra ord src) : h.post.nid = i := by
  have := (h.ry.el.ids i).1
  have e : h.y.cm.rp.el.node i = h.post := h.node_i
  rw [e] at this; exact this

theorem nwf_post (h : SM x G i op ra ord src) : NWF h.post := by
  have := (h.ry.nodes i).1
  rwa [show h.y.cm.rp.el.node i = _ from h.node_i] at this

theorem noPanic (h : SM x G i op ra ord src) : h.post.panicked = none ∨ (x.node i).role = .follower := by
  by_cases hf : (x.node i).role = .follower
  · exact Or.inr hf
  · exact Or.inl (h.nofail hf)

/-- a node that is leader after the step was not follower before it (the quorum is not one) -/
theorem leader_pre (h : SM x G i op ra ord src) (hl : h.post.role = .leader) :
    (x.node i).role ≠ .follower ∧ h.post.panicked = none := by
  have hnf : (x.node i).role ≠ .follower := by
    intro hf
    rcases h.rstep.leader hl with ⟨a, _⟩ | ⟨a, _⟩ | ne
    · rw [hf] at a; cases a
    · have := a.1; rw [hf] at this; cases this
    · obtain ⟨ec, e1, _, _, e4⟩ := ne.cfg
      have := e4 hl
      rw [e1 (h.side.boot i)] at this
      exact h.side.q1 i this
  exact ⟨hnf, h.nofail hnf⟩

/-- the voters of a node's latest configuration are duplicate free -/
theorem latest_nodup (hI : MInv x G) (hS : SideM x) (j : Nat) : (x.node j).configs.latest.voters.Nodup := by
  obtain ⟨⟨e, he, hec⟩, _⟩ := hI.cfg.cl j
  obtain ⟨c, hc, hce⟩ := C04Sys.chain_mem (hI.rp.nodes j).2 e he
  exact hS.tree.nodup c hc _ (by rw [hce]; exact hec)

theorem voters_ne_one (hS : SideM x) (j : Nat) : (x.node j).configs.latest.voters.length ≠ 1 := by
  have := hS.q1 j
  rw [C01Sys.quorum_eq] at this
  omega

/-- the node-level summary of a step that is not an append request -/
theorem nst (h : SM x G i op ra ord src) (happ : ∀ q, op ≠ .append q) :
    NStepM (x.node i) (AOp (x.node i) op) (Commit.Backed x.cm i) h.post := by
  have hI := h.inv
  refine nstepM (x.node i) op ra ord (Commit.Backed x.cm i) (nwfM hI i) (hI.node.lwf i) (hI.rp.el.ids i).2
    (h.side.boot i) h.en.rp.ok h.en.cfg happ (fun hc => (hI.rp.el.cand i hc).term_pos) (fun hc => ?_)
    (hI.cfg.cl i) (by rw [(nwfM hI i).last]; exact ciLeM hI i) (latest_nodup hI h.side i)
    (h.side.q1 i)
    (fun hl => ⟨hI.node.ldr i hl, backed_leM hI h.side.tree hl, (h.side.cache i hl).node, hI.node.cc i hl⟩) h.en.upd
  rw [h.nid_pre]; exact (hI.rp.el.cand i hc).voter

/-- the node-level summary of a step handling an append request that is not stale -/
theorem fst {q : AppendReq} (h : SM x G i (.append q) ra ord src) (hns : ¬ q.term < (x.node i).term) :
    q ∈ x.cm.rp.sent ∧ FStep (x.node i) q h.post := by
  have hq : q ∈ x.cm.rp.sent := (h.en.rp.append q rfl).resolve_left hns
  exact ⟨hq, fstep (x.node i) q ra ord (nwfM h.inv i) (h.inv.node.lwf i) (h.inv.rp.el.ids i).2
    (h.inv.rp.sent q hq).idx⟩

theorem op_cases (op : Op) : (∀ q, op ≠ .append q) ∨ ∃ q, op = .append q := by
  by_cases happ : ∀ q, op ≠ .append q
  · exact Or.inl happ
  · exact Or.inr (Classical.byContradiction (fun hn => happ (fun q hq => hn ⟨q, hq⟩)))

/-- the commit moments and configuration entries of the step -/
theorem evs (h : SM x G i op ra ord src) (happ : ∀ q, op ≠ .append q) :
    ∃ T L, MEvs (x.node i) (Commit.Backed x.cm i) h.post T L := (h.nst happ).evs h.noPanic

end SM

/-! ### entries appended by a node to its own log (a completed step or a crash + restart; not an append request) -/

theorem chainOf_pt {cr pt : Nat} {es : List Entry} {c : CEntry} (h : c ∈ chainOf cr pt es) :
    c.pt = pt ∨ ∃ e' ∈ es, c.pt = e'.term := C02Sys.chainOf_pt h

theorem chainOf_mem {cr pt : Nat} {es : List Entry} {e : Entry} (h : e ∈ es) :
    ∃ c ∈ chainOf cr pt es, c.e = e ∧ c.cr = cr := C02Sys.chainOf_mem h

/-- ancestry of an old record is decided in the old tree -/
theorem anc_reflect {x y : Commit.Sys} {i : Nat} (hE : Ext x y i) {b : K} {c : CEntry} (hc : c ∈ x.T)
    (h : Anc y.T b (key c)) : Anc x.T b (key c) := C02Sys.anc_reflect hE hc h

theorem rpathM {y : Member.Sys} (hR : C04Member.RInv y.cm.rp y.ecfg) (i : Nat) :
    Path y.cm.T (y.node i).log.entries :=
  ⟨(hR.nodes i).2, (hR.nodes i).1.contig⟩

theorem rancM {y : Member.Sys} (hR : C04Member.RInv y.cm.rp y.ecfg) (i : Nat) {a c : K}
    (ha : Holds (y.node i).log.entries a.1 a.2) (hc : Holds (y.node i).log.entries c.1 c.2) (h : a.1 ≤ c.1) :
    Anc y.cm.T a c := anc_of_path (rpathM hR i) ha hc h

theorem rholdsM {y : Member.Sys} (hR : C04Member.RInv y.cm.rp y.ecfg) (i : Nat) {a c : K}
    (h : Anc y.cm.T a c) (hc : Holds (y.node i).log.entries c.1 c.2) : Holds (y.node i).log.entries a.1 a.2 :=
  h.on_path hR.uniq (rpathM hR i) hc

theorem rrecordM {y : Member.Sys} (hR : C04Member.RInv y.cm.rp y.ecfg) (i : Nat) {k τ : Nat}
    (h : Holds (y.node i).log.entries k τ) : ∃ c ∈ y.cm.T, key c = (k, τ) := by
  obtain ⟨c, hc, h1, h2, _⟩ := path_record (rpathM hR i) h
  exact ⟨c, hc, by unfold key; rw [h1, h2]⟩

/-- `UpToM` survives a transition in which the new acknowledgements of the voter are made in a term at or above
the campaign's -/
theorem upToM_mono {x y : Commit.Sys} {i : Nat} (hE : Ext x y i) {A A' : List Ack} {k : Camp} {v : Nat}
    (hwf : ∀ a ∈ A, ∃ c ∈ x.T, key c = a.key)
    (hacks : ∀ a ∈ A', a ∈ A ∨ (a.voter = v → k.term ≤ a.term)) (h : UpToM x.T A k v) : UpToM y.T A' k v := by
  intro a ha hv hlt b hb hanc
  rcases hacks a ha with hx | hn
  · obtain ⟨c, hc, hk⟩ := hwf a hx
    rw [← hk] at hanc
    have hanc' := anc_reflect hE hc hanc
    rw [hk] at hanc'
    rcases h a hx hv hlt b hb hanc' with r | ⟨c', hc', c1, c2, c3⟩
    · exact Or.inl (hE.anc r)
    · exact Or.inr ⟨c', hE.T c' hc', c1, hE.not_anc hc' c2, c3⟩
  · have := hn hv; omega

/-- the record of a log entry -/
theorem log_entry_record {y : Member.Sys} (hR : C04Member.RInv y.cm.rp y.ecfg) (j : Nat) {e : Entry}
    (he : e ∈ (y.node j).log.entries) :
    ∃ c ∈ y.cm.T, c.e = e ∧ Holds (y.node j).log.entries e.index e.term := by
  have hn := (hR.nodes j).1
  have hh := C02Sys.holds_of_mem hn.contig he
  obtain ⟨c, hc, c1, c2, c3⟩ := path_record (rpathM hR j) hh
  refine ⟨c, hc, ?_, hh⟩
  obtain ⟨k, hk, rfl⟩ := List.getElem_of_mem he
  have hi := hn.contig k hk
  rw [hi] at c3
  have : (y.node j).log.entries[k + 1 - 1]? = some (y.node j).log.entries[k] := by
    rw [Nat.add_sub_cancel]; exact List.getElem?_eq_getElem hk
  rw [this] at c3
  injection c3 with c3
  exact c3.symm

/-- a record of the tree that the log of node `j` holds within its first `n` entries is one of those entries -/
theorem record_in_take {y : Member.Sys} (hR : C04Member.RInv y.cm.rp y.ecfg) (j n : Nat) {c' : CEntry}
    (hc' : c' ∈ y.cm.T) (hh : Holds (y.node j).log.entries c'.e.index c'.e.term) (hle : c'.e.index ≤ n) :
    c'.e ∈ (y.node j).log.entries.take n := by
  obtain ⟨c'', hc'', d1, d2, d3⟩ := path_record (rpathM hR j) hh
  have : c'' = c' := hR.uniq c'' hc'' c' hc' d1 d2
  rw [this] at d3
  have h1 := hh.1
  have : ((y.node j).log.entries.take n)[c'.e.index - 1]? = some c'.e := by
    rw [List.getElem?_take, if_pos (by omega)]; exact d3
  exact List.mem_of_getElem? this

/-- **from the log to the tree**: the last configuration entry of the first `n` entries of a node's log is the last
configuration entry below the key of its `n`-th entry -/
theorem cfgAt_of_log {y : Member.Sys} (hR : C04Member.RInv y.cm.rp y.ecfg) (j n : Nat) (h1 : 1 ≤ n)
    (hn : n ≤ (y.node j).log.entries.length) {cfg : Config}
    (hcl : CfgLast ((y.node j).log.entries.take n) cfg) :
    ∃ D, CfgAt y.cm.T D cfg (n, termAt (y.node j).log.entries n) ∧ D = (cfg.index, cfg.term) := by
  obtain ⟨⟨e, he, hec⟩, hlast⟩ := hcl
  have hem : e ∈ (y.node j).log.entries := List.mem_of_mem_take he
  obtain ⟨c, hc, hce, hh⟩ := log_entry_record hR j hem
  have hv : Holds (y.node j).log.entries n (termAt (y.node j).log.entries n) := ⟨h1, hn, rfl⟩
  obtain ⟨_, ci, ct⟩ := config?_facts hec
  have hcont : ∀ k (h : k < (y.node j).log.entries.length), (y.node j).log.entries[k].index = k + 1 :=
    (hR.nodes j).1.contig
  have hidx : e.index ≤ n := by
    obtain ⟨k, hk, hek⟩ := List.getElem_of_mem he
    rw [List.getElem_take] at hek
    rw [List.length_take] at hk
    have := hcont k (by omega)
    rw [← hek, this]; omega
  refine ⟨key c, ⟨⟨c, hc, rfl, by rw [hce]; exact hec⟩, ?_, fun c' hc' ht hA => ?_⟩, ?_⟩
  · exact anc_of_path (rpathM hR j) (a := key c) (c := (n, _)) (by show Holds _ c.e.index c.e.term; rw [hce]; exact hh) hv
      (by show c.e.index ≤ n; rw [hce]; exact hidx)
  · have hh' := rholdsM hR j hA hv
    have hm := record_in_take hR j n hc' hh' hA.1
    have := hlast c'.e hm ht
    show c'.e.index ≤ c.e.index
    rw [hce, ← ci]; exact this
  · unfold key; rw [hce, ci, ct]

/-- … and the nearest configuration entry below a configuration entry at index `k` -/
theorem prevT_of_log {y : Member.Sys} (hR : C04Member.RInv y.cm.rp y.ecfg) (j k : Nat)
    (hk : k ≤ (y.node j).log.entries.length) {P : Config}
    (hcl : CfgLast ((y.node j).log.entries.take (k - 1)) P) :
    PrevT y.cm.T (P.index, P.term) (k, termAt (y.node j).log.entries k) := by
  obtain ⟨⟨e, he, hec⟩, hlast⟩ := hcl
  have hem : e ∈ (y.node j).log.entries := List.mem_of_mem_take he
  obtain ⟨c, hc, hce, hh⟩ := log_entry_record hR j hem
  obtain ⟨ty, ci, ct⟩ := config?_facts hec
  have hcont : ∀ k (h : k < (y.node j).log.entries.length), (y.node j).log.entries[k].index = k + 1 :=
    (hR.nodes j).1.contig
  have hidx : e.index ≤ k - 1 ∧ 1 ≤ k - 1 := by
    obtain ⟨m, hm, hek⟩ := List.getElem_of_mem he
    rw [List.getElem_take] at hek
    rw [List.length_take] at hm
    have := hcont m (by omega)
    rw [← hek, this]; omega
  have hv : Holds (y.node j).log.entries k (termAt (y.node j).log.entries k) := ⟨by omega, hk, rfl⟩
  have hkey : key c = (P.index, P.term) := by unfold key; rw [hce, ci, ct]
  refine ⟨⟨c, hc, hkey, by rw [hce]; exact ty⟩, ?_, by show P.index < k; omega, fun c' hc' ht hA hlt => ?_⟩
  · rw [← hkey]
    exact anc_of_path (rpathM hR j) (a := key c) (c := (k, _)) (by show Holds _ c.e.index c.e.term; rw [hce]; exact hh)
      hv (by show c.e.index ≤ k; rw [hce]; omega)
  · have hh' := rholdsM hR j hA hv
    have hlt' : c'.e.index < k := hlt
    have hm := record_in_take hR j (k - 1) hc' hh' (by omega)
    have := hlast c'.e hm ht
    show c'.e.index ≤ P.index
    exact this

/-! ### protected indexes, pending configurations -/

/-- a protected index stays protected while the log keeps its first `k` entries -/
theorem protG_mono {x y : Member.Sys} {G G' : Ghost} {i k : Nat} (hT : ∀ c ∈ x.cm.T, c ∈ y.cm.T)
    (hroot : G'.root = G.root) (hR : ∀ r ∈ G.R, r ∈ G'.R) (hterm : (x.node i).term ≤ (y.node i).term)
    (htake : (y.node i).log.entries.take k = (x.node i).log.entries.take k) (h : ProtG x G i k) :
    ProtG y G' i k := by
  obtain ⟨h1, h2, h3⟩ := h
  have hl := congrArg List.length htake
  simp only [List.length_take] at hl
  have ht : termAt (y.node i).log.entries k = termAt (x.node i).log.entries k :=
    termAt_of_take_eq htake (Nat.le_refl _)
  refine ⟨h1, by omega, ?_⟩
  rw [ht, hroot]
  rcases h3 with e | ⟨r, hr, r1, r2⟩
  · exact Or.inl e
  · exact Or.inr ⟨r, hR r hr, Nat.le_trans r1 hterm, r2.mono hT⟩

/-- what the commit index covers is protected -/
theorem protG_of_cc {x : Member.Sys} {G : Ghost} (hc : CmtM x) (hcov : ∀ m ∈ x.cm.committed, ∃ r ∈ G.R, r.m = m)
    {i k : Nat} (h1 : 1 ≤ k) (hk : k ≤ (x.node i).commitIndex) : ProtG x G i k := by
  obtain ⟨c1, m, hm, m1, m2⟩ := hc.cc i k h1 hk
  obtain ⟨r, hr, e⟩ := hcov m hm
  exact ⟨h1, c1, Or.inr ⟨r, hr, by rw [e]; exact m1, by rw [e]; exact m2⟩⟩

/-- a non-empty log holds the bootstrap entry -/
theorem holds_root {y : Member.Sys} {root : K} (hR : C04Member.RInv y.cm.rp y.ecfg)
    (hrootA : ∀ c ∈ y.cm.T, Anc y.cm.T root (key c)) (j : Nat) (hne : 1 ≤ (y.node j).log.entries.length) :
    Holds (y.node j).log.entries root.1 root.2 := by
  have hv : Holds (y.node j).log.entries (y.node j).log.entries.length
      (termAt (y.node j).log.entries (y.node j).log.entries.length) := ⟨hne, Nat.le_refl _, rfl⟩
  obtain ⟨c, hc, hk⟩ := rrecordM hR j hv
  have := hrootA c hc
  rw [hk] at this
  exact rholdsM hR j this hv

theorem protG_root {y : Member.Sys} {G : Ghost} {j : Nat} (h : Holds (y.node j).log.entries G.root.1 G.root.2) :
    ProtG y G j G.root.1 :=
  ⟨h.1, h.2.1, Or.inl (by rw [h.2.2])⟩

theorem prevT_unique {T : List CEntry} (hU : Uniq T) {P P' a : K} (h : PrevT T P a) (h' : PrevT T P' a) : P = P' := by
  obtain ⟨⟨p, hp, pk, pt⟩, a1, a2, a3⟩ := h
  obtain ⟨⟨p', hp', pk', pt'⟩, b1, b2, b3⟩ := h'
  have e1 : p.e.index = P.1 := by rw [← pk]; rfl
  have e2 : p'.e.index = P'.1 := by rw [← pk']; rfl
  have l1 := a3 p' hp' pt' (by rw [pk']; exact b1) (by rw [e2]; exact b2)
  have l2 := b3 p hp pt (by rw [pk]; exact a1) (by rw [e1]; exact a2)
  have hi : P.1 = P'.1 := by omega
  exact (a1.comparable hU b1 (Nat.le_of_eq hi)).eq_of_index hi

/-- **a pending configuration: the index of `configs.committed` is protected** — the configuration entry after it was
created by a leader that had committed, in its own term, a key at or above it (`RecM.chain`) -/
theorem pend_prot {y : Member.Sys} {G : Ghost} {j : Nat} (hR : C04Member.RInv y.cm.rp y.ecfg)
    (hrootA : ∀ c ∈ y.cm.T, Anc y.cm.T G.root (key c))
    (hrootOnly : ∀ c ∈ y.cm.T, c.cr = 0 → c.e.typ = etConfig → key c = G.root)
    (hchain : ∀ c ∈ y.cm.T, c.e.typ = etConfig → c.cr ≠ 0 → ∃ P r, r ∈ G.R ∧ PrevT y.cm.T P (key c) ∧
      r.m.2 = c.e.term ∧ r.l.1 < c.e.index ∧ Anc y.cm.T P r.m)
    (htl : ∀ e ∈ (y.node j).log.entries, e.term ≤ (y.node j).term)
    (hcl : CfgLast (y.node j).log.entries (y.node j).configs.latest)
    (hp : MemberFollow.Pend (y.node j).log.entries (y.node j).configs) :
    ProtG y G j (y.node j).configs.committed.index := by
  obtain ⟨⟨el, hel, helc⟩, _⟩ := hcl
  obtain ⟨ty, li, ltm⟩ := config?_facts helc
  obtain ⟨c, hc, hce, hh⟩ := log_entry_record hR j hel
  obtain ⟨hlt, hpc⟩ := hp
  obtain ⟨⟨ec, hec, hecc⟩, _⟩ := id hpc
  obtain ⟨ty', ci', ct'⟩ := config?_facts hecc
  obtain ⟨c', hc', hce', hh'⟩ := log_entry_record hR j (List.mem_of_mem_take hec)
  have hcr : c.cr ≠ 0 := by
    intro h0
    have hk := hrootOnly c hc h0 (by rw [hce]; exact ty)
    have h1 : G.root.1 ≤ (key c').1 := (hrootA c' hc').1
    have h2 : (key c').1 = ec.index := by show c'.e.index = _; rw [hce']
    have h3 : (key c).1 = el.index := by show c.e.index = _; rw [hce]
    rw [hk] at h3
    omega
  obtain ⟨P, r, hr, hP, r1, _, r3⟩ := hchain c hc (by rw [hce]; exact ty) hcr
  have hkey : key c = ((y.node j).configs.latest.index, termAt (y.node j).log.entries (y.node j).configs.latest.index) := by
    unfold key; rw [hce, li, hh.2.2]
  have hP' := prevT_of_log hR j (y.node j).configs.latest.index (by rw [li]; exact hh.2.1) hpc
  rw [hkey] at hP
  have hPe := prevT_unique hR.uniq hP hP'
  rw [hPe] at r3
  have hterm : termAt (y.node j).log.entries (y.node j).configs.committed.index = (y.node j).configs.committed.term := by
    rw [ci', ct']; exact hh'.2.2
  refine ⟨by rw [ci']; exact hh'.1, by rw [ci']; exact hh'.2.1, Or.inr ⟨r, hr, ?_, by rw [hterm]; exact r3⟩⟩
  rw [r1, hce]
  exact htl el hel

/-- the latest configuration is the only configuration entry of the log: it is the bootstrap entry -/
theorem prot_single {y : Member.Sys} {G : Ghost} {j : Nat} (hR : C04Member.RInv y.cm.rp y.ecfg)
    (hrootC : ∃ c ∈ y.cm.T, key c = G.root ∧ c.e.typ = etConfig ∧ c.cr = 0)
    (hrootA : ∀ c ∈ y.cm.T, Anc y.cm.T G.root (key c))
    (hcl : CfgLast (y.node j).log.entries (y.node j).configs.latest)
    (hone : ∀ e ∈ (y.node j).log.entries, e.typ = etConfig → e.index = (y.node j).configs.latest.index) :
    ProtG y G j (y.node j).configs.latest.index := by
  obtain ⟨⟨el, hel, _⟩, _⟩ := hcl
  have hne : 1 ≤ (y.node j).log.entries.length := List.length_pos_of_mem hel
  have hh := holds_root hR hrootA j hne
  obtain ⟨c0, hc0, hk0, ht0, _⟩ := hrootC
  have e1 : c0.e.index = G.root.1 := by rw [← hk0]; rfl
  have e2 : c0.e.term = G.root.2 := by rw [← hk0]; rfl
  have hm := record_in_take hR j (y.node j).log.entries.length hc0 (by rw [e1, e2]; exact hh)
    (by rw [e1]; exact hh.2.1)
  have := hone c0.e (List.mem_of_mem_take hm) ht0
  rw [e1] at this
  rw [← this]
  exact protG_root hh

theorem pairwise_cases {α : Type} {R : α → α → Prop} : ∀ {L : List α}, L.Pairwise R → ∀ a ∈ L, ∀ b ∈ L,
    a = b ∨ R a b ∨ R b a := by
  intro L
  induction L with
  | nil => intro _ a ha; cases ha
  | cons z zs ih =>
    intro hp a ha b hb
    obtain ⟨h1, h2⟩ := List.pairwise_cons.mp hp
    rcases List.mem_cons.mp ha with ea | ha' <;> rcases List.mem_cons.mp hb with eb | hb'
    · exact Or.inl (ea.trans eb.symm)
    · rw [ea]; exact Or.inr (Or.inl (h1 b hb'))
    · rw [eb]; exact Or.inr (Or.inr (h1 a ha'))
    · exact ih h2 a ha' b hb'

/-- Node `i` of `x` is replaced by `(y.node i)`; its log grew by `es` (all of term `te`), which are the new
records of the tree. -/
structure NewM (x y : Member.Sys) (G : Ghost) (i : Nat) (op : Op) (src : Nat) (es : List Entry) (te : Nat) :
    Prop where
  inv : MInv x G
  side : SideM x
  i0 : i ≠ 0
  ext : Ext x.cm y.cm i
  ry : C04Member.RInv y.cm.rp y.ecfg
  T : y.cm.T = chainOf i (lastTerm (x.node i).log.entries) es ++ x.cm.T
  log : es ≠ [] → (y.node i).log.entries = (x.node i).log.entries ++ es
  keepL : (y.node i).role = .leader → (x.node i).log.entries <+: (y.node i).log.entries
  ent : ∀ e ∈ es, e.term = te ∧ (x.node i).lastLogIndex < e.index
  story : es ≠ [] → te ≤ (y.node i).term ∧ Story (x.node i) op te ∧ (y.node i).role ≠ .candidate
  real : Counts (x.node i) op → RealReply x.el i src
  ldr : (y.node i).role = .leader →
    ((x.node i).role = .leader ∧ (y.node i).term = (x.node i).term) ∨
    ((x.node i).role = .candidate ∧ (y.node i).term = (x.node i).term) ∨ (x.node i).term < (y.node i).term

namespace NewM
variable {x y : Member.Sys} {G : Ghost} {i : Nat} {op : Op} {src : Nat} {es : List Entry} {te : Nat}

theorem mem_new (h : NewM x y G i op src es te) {c : CEntry}
    (hc : c ∈ chainOf i (lastTerm (x.node i).log.entries) es) :
    c.cr = i ∧ c.e ∈ es ∧ c.e.term = te ∧ (x.node i).log.entries.length < c.e.index ∧ es ≠ [] := by
  obtain ⟨h1, h2⟩ := C04Sys.mem_chainOf hc
  obtain ⟨h3, h4⟩ := h.ent _ h2
  rw [(nwfM h.inv i).last] at h4
  exact ⟨h1, h2, h3, h4, fun e => by rw [e] at h2; cases h2⟩

theorem mem_T (h : NewM x y G i op src es te) {c : CEntry} (hc : c ∈ y.cm.T) :
    c ∈ chainOf i (lastTerm (x.node i).log.entries) es ∨ c ∈ x.cm.T := by
  rw [h.T] at hc; exact List.mem_append.mp hc

/-- a new record is held by the new log -/
theorem new_holds (h : NewM x y G i op src es te) {c : CEntry}
    (hc : c ∈ chainOf i (lastTerm (x.node i).log.entries) es) :
    Holds (y.node i).log.entries c.e.index c.e.term := by
  obtain ⟨_, h2, _, _, hne⟩ := h.mem_new hc
  apply C02Sys.holds_of_mem (h.ry.nodes i).1.contig
  rw [h.log hne]
  exact List.mem_append_right _ h2

/-- what the old log held the new log holds (when entries were appended) -/
theorem old_holds (h : NewM x y G i op src es te) (hne : es ≠ []) {k τ : Nat}
    (hk : Holds (x.node i).log.entries k τ) : Holds (y.node i).log.entries k τ := by
  rw [h.log hne]; exact holds_prefix (List.prefix_append _ _) hk

/-- the cases of `Story` (the quorum of the latest configuration is not one) -/
theorem story_cases (h : NewM x y G i op src es te) (hne : es ≠ []) :
    ((x.node i).role = .leader ∧ te = (x.node i).term) ∨
    (¬ ((x.node i).role = .leader ∧ te = (x.node i).term) ∧
      Counts (x.node i) op ∧ (x.node i).votesNeeded - 1 = 0 ∧ te = (x.node i).term) := by
  by_cases hl : (x.node i).role = .leader ∧ te = (x.node i).term
  · exact Or.inl hl
  · right
    refine ⟨hl, ?_⟩
    rcases (h.story hne).2.1 with a | ⟨a, b, c⟩ | ⟨_, b, _⟩
    · exact absurd a hl
    · exact ⟨a, b, c⟩
    · exact absurd b (h.side.q1 i)

/-- unless the node was leader of `te` already, no old record carries the term `te` -/
theorem no_old (h : NewM x y G i op src es te) (hne : es ≠ [])
    (hnl : ¬ ((x.node i).role = .leader ∧ te = (x.node i).term)) {c : CEntry} (hc : c ∈ x.cm.T)
    (ht : c.e.term = te) : False := by
  obtain ⟨_, hs, _⟩ := h.story hne
  have hI := h.inv
  by_cases h0 : c.cr = 0
  · obtain ⟨i1, i2⟩ := hI.rp.init0 c hc h0 i
    have i1' : c.e.term ≤ (x.node i).term := i1
    rcases hs with ⟨a, b⟩ | ⟨a, _, b⟩ | ⟨a, _, _⟩
    · exact hnl ⟨a, b⟩
    · have : c.e.term < (x.node i).term := i2 (by rw [show (x.cm.rp.el.node i).role = _ from a.1]; decide)
      omega
    · omega
  · obtain ⟨⟨kb, hkb, b1, b2, b3⟩, o3, _, o5⟩ := hI.rp.own c hc h0
    obtain ⟨ki, hki, i1, i2, i3⟩ := C04Member.story_backed hI.rp i op src te (h.side.q1 i) h.real hs
    have hli : c.cr = i := by
      have := esafeM hI h.side.tree kb hkb ki hki (by rw [b2, i2, ht]) (by rw [b1, b2]; exact b3)
        (by rw [i1, i2]; exact i3)
      rw [b1, i1] at this
      exact this
    rw [hli] at o3 o5
    have o3' : c.e.term ≤ (x.node i).term := o3
    rcases hs with ⟨a, b⟩ | ⟨a, _, b⟩ | ⟨a, _, _⟩
    · exact hnl ⟨a, b⟩
    · have : c.e.term < (x.node i).term := o5 a.1
      omega
    · omega

/-- when the node was leader of `te` already, the old records of term `te` are in its old log -/
theorem old_in_log (h : NewM x y G i op src es te) (hl : (x.node i).role = .leader) (ht : te = (x.node i).term)
    {c : CEntry} (hc : c ∈ x.cm.T) (hct : c.e.term = te) : Holds (x.node i).log.entries c.e.index c.e.term :=
  leader_holds_ownM h.inv h.side.tree hl hc (hct.trans ht)

/-- the old log is not empty: it holds the node's latest configuration -/
theorem old_nonempty (h : NewM x y G i op src es te) :
    ∃ z ∈ x.cm.T, Holds (x.node i).log.entries z.e.index z.e.term := by
  obtain ⟨⟨e, he, _⟩, _⟩ := h.inv.cfg.cl i
  have hh := C02Sys.holds_of_mem (nwfM h.inv i).contig he
  obtain ⟨z, hz, hzk⟩ := log_recordM h.inv i hh
  unfold key at hzk
  simp only [Prod.mk.injEq] at hzk
  exact ⟨z, hz, by rw [hzk.1, hzk.2]; exact hh⟩

theorem treeM (h : NewM x y G i op src es te) : TreeM y G := by
  have hI := h.inv
  have hpy := rpathM h.ry i
  refine ⟨fun c hc => ?_, fun c hc => ?_, fun c hc d hd ht hcr hle => ?_, fun c hc d hd ht hc0 hd0 => ?_,
    fun c hc h0 hl ht => ?_, ?_, fun c hc => ?_, fun c hc h0 hty => ?_, fun c hc d hd hc0 hd0 => ?_⟩
  rotate_right
  · -- created entries have terms above the initial ones
    have hco : c ∈ x.cm.T := by
      rcases h.mem_T hc with hn | ho
      · exact absurd ((h.mem_new hn).1.symm.trans hc0) h.i0
      · exact ho
    rcases h.mem_T hd with hn | ho
    · obtain ⟨_, _, d3, _, hne⟩ := h.mem_new hn
      obtain ⟨i1, i2⟩ := hI.rp.init0 c hco hc0 i
      have i1' : c.e.term ≤ (x.node i).term := i1
      rw [d3]
      rcases (h.story hne).2.1 with ⟨a, b⟩ | ⟨a, _, b⟩ | ⟨a, _, _⟩
      · have : c.e.term < (x.node i).term := i2 (by rw [show (x.cm.rp.el.node i).role = _ from a]; decide)
        omega
      · have : c.e.term < (x.node i).term := i2 (by rw [show (x.cm.rp.el.node i).role = _ from a.1]; decide)
        omega
      · omega
    · exact hI.tree.initLt c hco d ho hc0 hd0
  · -- every record lies on a root path
    rcases h.mem_T hc with hn | ho
    · exact ⟨_, hpy, h.new_holds hn⟩
    · obtain ⟨p, hp, hh⟩ := hI.tree.pathc c ho
      exact ⟨p, hp.mono h.ext.T, hh⟩
  · -- terms do not decrease
    rcases h.mem_T hc with hn | ho
    · obtain ⟨_, _, h3, _, hne⟩ := h.mem_new hn
      have hte : (x.node i).term ≤ te := by
        rcases (h.story hne).2.1 with ⟨_, b⟩ | ⟨_, _, b⟩ | ⟨a, _, _⟩ <;> omega
      rcases chainOf_pt hn with e | ⟨e', he', e⟩
      · rw [e, h3]
        refine Nat.le_trans ?_ hte
        unfold lastTerm
        cases hl : (x.node i).log.entries.getLast? with
        | none => exact Nat.zero_le _
        | some z => exact hI.node.termLe i z (List.mem_of_getLast? hl)
      · rw [e, (h.ent e' he').1, h3]; exact Nat.le_refl _
    · exact hI.tree.tmono c ho
  · -- the entries one node created in one term lie on one path
    rcases h.mem_T hc with hcn | hco <;> rcases h.mem_T hd with hdn | hdo
    · exact anc_of_path hpy (h.new_holds hcn) (h.new_holds hdn) hle
    · exfalso
      obtain ⟨_, _, c3, c4, hne⟩ := h.mem_new hcn
      rcases h.story_cases hne with ⟨hl, hte⟩ | ⟨hnl, _⟩
      · have := (h.old_in_log hl hte hdo (by rw [← ht]; exact c3)).2.1
        have hle' : c.e.index ≤ d.e.index := hle
        omega
      · exact h.no_old hne hnl hdo (by rw [← ht]; exact c3)
    · obtain ⟨_, _, d3, _, hne⟩ := h.mem_new hdn
      rcases h.story_cases hne with ⟨hl, hte⟩ | ⟨hnl, _⟩
      · have hh := h.old_holds hne (h.old_in_log hl hte hco (by rw [ht]; exact d3))
        exact anc_of_path hpy hh (h.new_holds hdn) hle
      · exact (h.no_old hne hnl hco (by rw [ht]; exact d3)).elim
    · exact h.ext.anc (hI.tree.tbI c hco d hdo ht hcr hle)
  · -- one creator per term
    have key : ∀ {a b : CEntry}, a ∈ chainOf i (lastTerm (x.node i).log.entries) es → b ∈ x.cm.T →
        a.e.term = b.e.term → b.cr ≠ 0 → b.cr = a.cr := by
      intro a b ha hb hab hb0
      obtain ⟨a1, _, a3, _, hne⟩ := h.mem_new ha
      rw [a1]
      rcases h.story_cases hne with ⟨hl, hte⟩ | ⟨hnl, _⟩
      · exact creator_is_leaderM hI h.side.tree hl hb (by rw [← hab, a3]; exact hte)
      · exact (h.no_old hne hnl hb (by rw [← hab]; exact a3)).elim
    rcases h.mem_T hc with hcn | hco <;> rcases h.mem_T hd with hdn | hdo
    · rw [(h.mem_new hcn).1, (h.mem_new hdn).1]
    · exact (key hcn hdo ht hd0).symm
    · exact key hdn hco ht.symm hc0
    · exact hI.tree.cu c hco d hdo ht hc0 hd0
  · -- own entries of a leader are in its log
    rcases h.mem_T hc with hn | ho
    · rw [(h.mem_new hn).1] at hl ht ⊢; exact h.new_holds hn
    · by_cases hci : c.cr = i
      · rw [hci] at hl ht ⊢
        obtain ⟨_, o3, _, o5⟩ := hI.rp.own c ho h0
        rw [hci] at o3 o5
        have o3' : c.e.term ≤ (x.node i).term := o3
        rcases h.ldr hl with ⟨a, b⟩ | ⟨a, b⟩ | a
        · have := hI.tree.ownLog c ho h0
          rw [hci] at this
          exact holds_prefix (h.keepL hl) (this a (by rw [← b]; exact ht))
        · have : c.e.term < (x.node i).term := o5 a
          omega
        · omega
      · have e := h.ext.other _ hci
        have e' : y.node c.cr = x.node c.cr := e
        rw [e'] at hl ht ⊢
        exact hI.tree.ownLog c ho h0 hl ht
  · obtain ⟨c, hc, r⟩ := hI.tree.rootC
    exact ⟨c, h.ext.T c hc, r⟩
  · rcases h.mem_T hc with hn | ho
    · obtain ⟨_, _, _, c4, hne⟩ := h.mem_new hn
      obtain ⟨z, hz, hzh⟩ := h.old_nonempty
      have h1 : Anc y.cm.T G.root (key z) := h.ext.anc (hI.tree.rootA z hz)
      have h2 : Anc y.cm.T (key z) (key c) :=
        rancM h.ry i (a := key z) (c := key c) (h.old_holds hne hzh) (h.new_holds hn)
          (by show z.e.index ≤ c.e.index; have := hzh.2.1; omega)
      exact h1.trans h.ry.uniq h2
    · exact h.ext.anc (hI.tree.rootA c ho)
  · rcases h.mem_T hc with hn | ho
    · exact absurd ((h.mem_new hn).1.symm.trans h0) h.i0
    · exact hI.tree.rootOnly c ho h0 hty

end NewM

/-- an election record stays one when the ledgers grow (the new acknowledgements are node `i`'s, in a term at or
above its old term) -/
theorem elOK_mono {x y : Member.Sys} {G : Ghost} {i : Nat} (hI : MInv x G) (hE : Ext x.cm y.cm i)
    (hU : Uniq y.cm.T) (hec : ∀ k ∈ x.ecfg, k ∈ y.ecfg) {A' : List Ack}
    (hA : ∀ a ∈ A', a ∈ acksG x G ∨ (a.voter = i ∧ (x.node i).term ≤ a.term))
    {e : El} (he : ElOK x (acksG x G) e) : ElOK y A' e := by
  obtain ⟨k, hk, kc, hkc, k1, k2, k3, k4, k5, ⟨D, hD⟩, q1, q2, q3, q4, c0, hc0, hc0r⟩ := he
  obtain ⟨_, _, _, cl, hcl, hclk⟩ := hI.vote.campWf k hk
  obtain ⟨p, hp, hh⟩ := hI.tree.pathc cl hcl
  refine ⟨k, hE.camps k hk, kc, hec kc hkc, k1, k2, k3, k4, k5,
    ⟨D, cfgAt_mono hE.T hU ⟨p, hp, by rw [← hclk]; exact hh⟩ hD⟩, q1, q2, q3, fun v hv => ?_,
    c0, hE.T c0 hc0, hc0r⟩
  obtain ⟨g, u⟩ := q4 v hv
  refine ⟨hE.grants _ g, upToM_mono hE (fun a ha => (hI.ack.wf a ha).2.2.2) (fun a ha => ?_) u⟩
  rcases hA a ha with ho | ⟨a1, a2⟩
  · exact Or.inl ho
  · right
    intro hav
    have := grant_termM hI g
    have e1 : ({ voter := v, term := e.term, cand := e.cand } : C01.Grant).voter = v := rfl
    rw [e1, ← hav, a1] at this
    have e2 : ({ voter := v, term := e.term, cand := e.cand } : C01.Grant).term = e.term := rfl
    rw [e2] at this
    omega

namespace NewM
variable {x y : Member.Sys} {G : Ghost} {i : Nat} {op : Op} {src : Nat} {es : List Entry} {te : Nat}

/-- **the election records** after node `i` appended `es` to its own log: when the node was elected in the step (it
counted the last missing vote) and created entries, its election record is added -/
theorem elM (hN : NewM x y G i op src es te) (hec : ∀ k ∈ x.ecfg, k ∈ y.ecfg) (R' : List Rec) (SA' : List Ack)
    (hA : ∀ a ∈ y.cm.acks ++ SA', a ∈ acksG x G ∨ (a.voter = i ∧ (x.node i).term ≤ a.term)) :
    ∃ E', ElM y ⟨G.root, R', E', SA'⟩ := by
  have hI := hN.inv
  have hE := hN.ext
  have hold : ∀ e, ElOK x (acksG x G) e → ElOK y (y.cm.acks ++ SA') e :=
    fun e he => elOK_mono hI hE hN.ry.uniq hec hA he
  -- the old part
  have oldC : ∀ c ∈ x.cm.T, c.cr ≠ 0 → ∀ E' : List El, (∀ e ∈ G.E, e ∈ E') →
      ∃ e ∈ E', e.cand = c.cr ∧ e.term = c.e.term ∧ Anc y.cm.T e.last (key c) := by
    intro c hc h0 E' hsub
    obtain ⟨e, he, e1, e2, e3⟩ := hI.el.creator c hc h0
    exact ⟨e, hsub e he, e1, e2, hE.anc e3⟩
  by_cases hne : es = []
  · -- nothing was created
    refine ⟨G.E, fun c hc h0 => ?_, fun e he => hold e (hI.el.elect e he)⟩
    rcases hN.mem_T hc with hn | ho
    · exact absurd hne (hN.mem_new hn).2.2.2.2
    · exact oldC c ho h0 G.E (fun _ h => h)
  · rcases hN.story_cases hne with ⟨hl, hte⟩ | ⟨hnl, hcn, hvn, hte⟩
    · -- the node was leader of the term already: the record of its last entry
      refine ⟨G.E, fun c hc h0 => ?_, fun e he => hold e (hI.el.elect e he)⟩
      rcases hN.mem_T hc with hn | ho
      · have lo := hI.node.ldr i hl
        have hlen : 1 ≤ (x.node i).log.entries.length := Nat.le_trans lo.start lo.startLe
        have hz : Holds (x.node i).log.entries (x.node i).log.entries.length (x.node i).term :=
          ⟨hlen, Nat.le_refl _, lo.own _ lo.startLe (Nat.le_refl _)⟩
        obtain ⟨z, hzT, hzk⟩ := log_recordM hI i hz
        have hzk' : z.e.index = (x.node i).log.entries.length ∧ z.e.term = (x.node i).term := by
          unfold key at hzk; simp only [Prod.mk.injEq] at hzk; exact hzk
        have hzi := creator_is_leaderM hI hN.side.tree hl hzT hzk'.2
        have hz0 := cr_ne_zeroM hI (i := i) (by rw [hl]; decide) hzT hzk'.2
        obtain ⟨e, he, e1, e2, e3⟩ := hI.el.creator z hzT hz0
        obtain ⟨c1, _, c3, c4, _⟩ := hN.mem_new hn
        refine ⟨e, he, by rw [e1, hzi, c1], by rw [e2, hzk'.2, c3, hte], ?_⟩
        have h2 : Anc y.cm.T (key z) (key c) := by
          rw [hzk]
          exact rancM hN.ry i (a := ((x.node i).log.entries.length, (x.node i).term)) (c := key c)
            (hN.old_holds hne hz) (hN.new_holds hn) (by show _ ≤ c.e.index; omega)
        exact (hE.anc e3).trans hN.ry.uniq h2
      · exact oldC c ho h0 G.E (fun _ h => h)
    · -- the node counted the last missing vote in this step: a new election record
      have hcand : (x.node i).role = .candidate := hcn.1
      obtain ⟨k, hk, k1, k2, k3, k4, k5⟩ := hI.node.camp i (by rw [hcand]; decide)
      have ok := hI.rp.el.cand i hcand
      obtain ⟨r1, r2, r3, r4⟩ := hN.real hcn
      have hnotin : src ∉ votersCounted x.el.counted i (x.node i).term :=
        fun hm => r4 ((C01Sys.mem_votersCounted _ _ _ _).mp hm)
      let e : El := ⟨i, (x.node i).term, k.last, i :: src :: votersCounted x.el.counted i (x.node i).term⟩
      have hklast : k.last = ((x.node i).log.entries.length, (x.node i).lastLogTerm) := by
        have e1 := k5 hcand
        have hlen : 1 ≤ k.lastIndex := by
          rw [e1]
          obtain ⟨z, _, hzh⟩ := hN.old_nonempty
          have := hzh.1; have := hzh.2.1; omega
        have e2 := k4 hlen
        unfold Camp.last
        rw [e1] at e2 ⊢
        rw [termAt_length, ← (nwfM hI i).lastT] at e2
        rw [e2]
      have hlen : 1 ≤ (x.node i).log.entries.length := by
        obtain ⟨z, _, hzh⟩ := hN.old_nonempty
        have := hzh.1; have := hzh.2.1; omega
      have hkh : Holds (x.node i).log.entries (x.node i).log.entries.length (x.node i).lastLogTerm :=
        C02Sys.holds_last (nwfM hI i) hlen
      refine ⟨e :: G.E, fun c hc h0 => ?_, fun e' he' => ?_⟩
      · rcases hN.mem_T hc with hn | ho
        · obtain ⟨c1, _, c3, c4, _⟩ := hN.mem_new hn
          refine ⟨e, List.mem_cons_self .., c1.symm, by show (x.node i).term = _; rw [c3, hte], ?_⟩
          show Anc _ k.last (key c)
          rw [hklast]
          exact rancM hN.ry i (a := ((x.node i).log.entries.length, (x.node i).lastLogTerm)) (c := key c)
            (hN.old_holds hne hkh) (hN.new_holds hn) (by show _ ≤ c.e.index; omega)
        · exact oldC c ho h0 (e :: G.E) (fun _ h => List.mem_cons_of_mem _ h)
      · rcases List.mem_cons.mp he' with rfl | ho
        · -- the new record
          obtain ⟨kc', hkc', c1, c2, D, hD⟩ := hI.vote.campCfg k hk
          have hkce : kc' = ⟨i, (x.node i).term, (x.node i).configs.latest⟩ :=
            hI.rp.el.ecfgUniq kc' hkc' _ ok.recd (c1.trans k1) (c2.trans k2)
          obtain ⟨_, _, _, cl, hcl, hclk⟩ := hI.vote.campWf k hk
          obtain ⟨p, hp, hh⟩ := hI.tree.pathc cl hcl
          have hwfa : ∀ a ∈ acksG x G, ∃ c ∈ x.cm.T, key c = a.key := fun a ha => (hI.ack.wf a ha).2.2.2
          have hmono : ∀ v, UpToM x.cm.T (acksG x G) k v → UpToM y.cm.T (y.cm.acks ++ SA') k v := by
            intro v hu
            refine upToM_mono hE hwfa (fun a ha => ?_) hu
            rcases hA a ha with ho | ⟨_, a2⟩
            · exact Or.inl ho
            · exact Or.inr (fun _ => by rw [k2]; exact a2)
          obtain ⟨c0, hc0, hc0e, hc0r⟩ : ∃ c0 ∈ y.cm.T, c0.cr = i ∧ c0.e.term = (x.node i).term := by
            obtain ⟨e0, he0⟩ := List.exists_mem_of_ne_nil es hne
            obtain ⟨c0, hc0, h1, h2⟩ := chainOf_mem (cr := i) (pt := lastTerm (x.node i).log.entries) he0
            refine ⟨c0, by rw [hN.T]; exact List.mem_append_left _ hc0, h2, ?_⟩
            rw [h1, (hN.ent e0 he0).1, hte]
          refine ⟨k, hE.camps k hk, ⟨i, (x.node i).term, (x.node i).configs.latest⟩,
            hec _ ok.recd, k1, k2, rfl, rfl, rfl,
            ⟨D, cfgAt_mono hE.T hN.ry.uniq ⟨p, hp, by rw [← hclk]; exact hh⟩ (by rw [hkce] at hD; exact hD)⟩,
            ?_, ?_, ?_, ?_, c0, hc0, hc0e, hc0r⟩
          · refine List.nodup_cons.mpr ⟨?_, List.nodup_cons.mpr ⟨hnotin, ok.nodup⟩⟩
            intro hm
            rcases List.mem_cons.mp hm with hm | hm
            · exact r1 hm.symm
            · exact (ok.real i hm).2.1 rfl
          · intro v hv
            apply C01Sys.isVoter_mem_voters
            rcases List.mem_cons.mp hv with hv | hv
            · subst hv; exact ok.voter
            · rcases List.mem_cons.mp hv with hv | hv
              · subst hv; exact r2
              · exact (ok.real v hv).1
          · have hcount : (x.node i).votesNeeded + ((votersCounted x.el.counted i (x.node i).term).length : Int) + 1 =
                (((x.node i).configs.latest.voters.length / 2 + 1 : Nat) : Int) := ok.count
            show 2 * (i :: src :: votersCounted x.el.counted i (x.node i).term).length >
              (x.node i).configs.latest.voters.length
            simp only [List.length_cons]
            omega
          · intro v hv
            rcases List.mem_cons.mp hv with hv | hv
            · subst hv
              exact ⟨hE.grants _ ok.self, hmono _ (hI.vote.electInv k hk _ (Or.inl k1.symm))⟩
            · rcases List.mem_cons.mp hv with hv | hv
              · subst hv
                exact ⟨hE.grants _ r3, hmono _ (upTo_of_grantM hI hcand hk k1 k2 r3)⟩
              · obtain ⟨_, _, hg⟩ := ok.real v hv
                refine ⟨hE.grants _ hg, hmono _ (hI.vote.electInv k hk v (Or.inr ?_))⟩
                rw [k1, k2]
                exact (C01Sys.mem_votersCounted _ _ _ _).mp hv
        · exact hold e' (hI.el.elect e' ho)

end NewM


/-- node `i` (in state `s`) has a recorded campaign for its term whose coordinates its log still holds -/
def CampOK (y : Member.Sys) (i : Nat) (s : Node) : Prop :=
  ∃ k ∈ y.cm.camps, k.cand = i ∧ k.term = s.term ∧ k.lastIndex ≤ s.log.entries.length ∧
    (1 ≤ k.lastIndex → termAt s.log.entries k.lastIndex = k.lastTerm) ∧
    (s.role = .candidate → k.lastIndex = s.log.entries.length)

namespace SM
variable {x : Member.Sys} {G : Ghost} {i : Nat} {op : Op} {ra : List Nat} {ord : List (List Nat)} {src : Nat}

theorem T_eq (h : SM x G i op ra ord src) : h.y.cm.T =
    newCreated i (x.node i).log.entries h.post.log.entries op ++ x.cm.T := rfl

/-- the new state, as new entries appended by node `i` (step that is not an append request) -/
theorem newM (h : SM x G i op ra ord src) (happ : ∀ q, op ≠ .append q) :
    ∃ es te, NewM x h.y G i op src es te ∧ h.post.log.entries = (x.node i).log.entries ++ es := by
  have hI := h.inv
  have hpre := nwfM hI i
  have ls := leader_step (x.node i) op ra ord hpre (hI.rp.el.ids i).2 (h.side.boot i) h.en.rp.ok happ
    (fun hc => (hI.rp.el.cand i hc).term_pos)
  have rs := h.rstep
  obtain ⟨es, te, l1, l2, l3, l4, _⟩ := ls.ext
  have hni := h.node_i
  refine ⟨es, te, ⟨hI, h.side, h.en.rp.id, h.ext, h.ry, ?_, fun _ => by rw [hni]; exact l1,
    fun _ => by rw [hni, l1]; exact List.prefix_append _ _, ?_, fun hne => ?_, h.en.rp.real, ?_⟩, l1⟩
  · show newCreated i (x.node i).log.entries h.post.log.entries op ++ x.cm.T = _
    rw [C04Sys.newCreated_other _ _ _ _ happ, l1, List.drop_left]
  · intro e he
    refine ⟨l2 e he, ?_⟩
    have := (C04Sys.contig_drop ls.nwf.contig (x.node i).log.entries.length).2 e (by rw [l1, List.drop_left]; exact he)
    rw [hpre.last]; exact this.1
  · rw [hni]; exact ⟨l3, (l4 hne).1, (l4 hne).2⟩
  · rw [hni]
    intro hl
    rcases rs.leader hl with ⟨a, b⟩ | ⟨a, _, b⟩ | ne
    · exact Or.inl ⟨a, b⟩
    · exact Or.inr (Or.inl ⟨a.1, b⟩)
    · exact Or.inr (Or.inr ne.term_gt)

/-! ### the nodes after a completed step -/

theorem lwf_post (h : SM x G i op ra ord src) : C06.LogWF h.post.log := by
  rcases op_cases op with happ | ⟨q, rfl⟩
  · exact (h.nst happ).lwf
  · by_cases hst : q.term < (x.node i).term
    · show C06.LogWF ((x.node i).step (.append q) ra ord).log
      rw [(append_stale _ q ra ord hst).1]; exact h.inv.node.lwf i
    · exact (h.fst hst).2.lwf

theorem termLe_post (h : SM x G i op ra ord src) : ∀ e ∈ h.post.log.entries, e.term ≤ h.post.term := by
  have hI := h.inv
  have hmono := h.vstep.1.1
  rcases op_cases op with happ | ⟨q, rfl⟩
  · obtain ⟨es, te, hN, hl⟩ := h.newM happ
    intro e he
    rw [hl] at he
    rcases List.mem_append.mp he with he | he
    · exact Nat.le_trans (hI.node.termLe i e he) hmono
    · have hne : es ≠ [] := fun e0 => by rw [e0] at he; cases he
      rw [(hN.ent e he).1]
      have := (hN.story hne).1
      rw [h.node_i] at this; exact this
  · by_cases hst : q.term < (x.node i).term
    · obtain ⟨s1, s2, _⟩ := append_stale _ q ra ord hst
      show ∀ e ∈ ((x.node i).step (.append q) ra ord).log.entries, e.term ≤ ((x.node i).step (.append q) ra ord).term
      rw [s1, s2]; exact hI.node.termLe i
    · obtain ⟨hq, fs⟩ := h.fst hst
      intro e he
      rcases fs.src e he with he | he
      · exact Nat.le_trans (hI.node.termLe i e he) hmono
      · show e.term ≤ ((x.node i).step (.append q) ra ord).term
        rw [fs.term hst]; exact (hI.sent.term q hq).1 e he

theorem unfl_post (h : SM x G i op ra ord src) : ∀ k, h.post.log.flushed < k →
    k ≤ h.post.log.entries.length →
    ∃ c ∈ h.y.cm.T, c.e.index = k ∧ c.e.term = termAt h.post.log.entries k ∧ c.cr = i := by
  have hI := h.inv
  intro k hk hk2
  rcases op_cases op with happ | ⟨q, rfl⟩
  · obtain ⟨es, te, hN, hl⟩ := h.newM happ
    have hfl := (h.nst happ).flush
    by_cases hkl : k ≤ (x.node i).log.entries.length
    · obtain ⟨c, hc, c1, c2, c3⟩ := hI.node.unfl i k (by omega) hkl
      refine ⟨c, h.ext.T c hc, c1, ?_, c3⟩
      rw [hl, termAt_append_left _ _ _ hkl]; exact c2
    · have hkl' : (x.node i).log.entries.length < k := by omega
      have hlt : k - 1 < h.post.log.entries.length := by omega
      have hpn := h.nwf_post
      obtain ⟨e, hget⟩ : ∃ e, h.post.log.entries[k - 1]? = some e := ⟨_, List.getElem?_eq_getElem hlt⟩
      have hidx : e.index = k := by
        obtain ⟨hh, he⟩ := List.getElem?_eq_some_iff.mp hget
        rw [← he, hpn.contig (k - 1) hh]; omega
      have hmem : e ∈ es := by
        have hg := hget
        rw [hl, List.getElem?_append_right (by omega)] at hg
        exact List.mem_of_getElem? hg
      obtain ⟨c, hc, c1, c2⟩ := chainOf_mem (cr := i) (pt := lastTerm (x.node i).log.entries) hmem
      refine ⟨c, by rw [hN.T]; exact List.mem_append_left _ hc, by rw [c1]; exact hidx, ?_, c2⟩
      rw [c1]
      unfold termAt
      rw [if_neg (by omega), hget]; rfl
  · by_cases hst : q.term < (x.node i).term
    · obtain ⟨s1, _⟩ := append_stale _ q ra ord hst
      have s1' : h.post.log = (x.node i).log := s1
      rw [s1'] at hk hk2 ⊢
      obtain ⟨c, hc, r⟩ := hI.node.unfl i k hk hk2
      exact ⟨c, h.ext.T c hc, r⟩
    · rcases (h.fst hst).2.dirty with d | d
      · rw [d] at hk hk2 ⊢
        obtain ⟨c, hc, r⟩ := hI.node.unfl i k hk hk2
        exact ⟨c, h.ext.T c hc, r⟩
      · omega

theorem camp_post (h : SM x G i op ra ord src) : h.post.role ≠ .follower → CampOK h.y i h.post := by
  have hI := h.inv
  have hnid := h.nid_pre
  have hpre := nwfM hI i
  intro hr
  rcases op_cases op with happ | ⟨q, rfl⟩
  · obtain ⟨es, te, hN, hl⟩ := h.newM happ
    have rs := h.rstep
    have hcand : h.post.role = .candidate → es = [] := by
      intro hc
      apply Classical.byContradiction
      intro hne
      have := (hN.story hne).2.2
      rw [h.node_i] at this
      exact this hc
    -- the campaign the node had before the step
    have old : (x.node i).role ≠ .follower → h.post.term = (x.node i).term →
        (h.post.role = .candidate → (x.node i).role = .candidate) → CampOK h.y i h.post := by
      intro hp ht hcc
      obtain ⟨k, hk, k1, k2, k3, k4, k5⟩ := hI.node.camp i hp
      refine ⟨k, h.ext.camps k hk, k1, k2.trans ht.symm, by rw [hl, List.length_append]; omega, fun h1 => ?_,
        fun hc => ?_⟩
      · rw [hl, termAt_append_left _ _ _ k3]; exact k4 h1
      · rw [hl, hcand hc, List.append_nil]; exact k5 (hcc hc)
    -- a campaign started in this step
    have fromNE : NewElection (x.node i) h.post → CampOK h.y i h.post := by
      intro ne
      refine ⟨Camp.mk i h.post.term (x.node i).lastLogIndex (x.node i).lastLogTerm, ?_, rfl, rfl,
        ?_, fun h1 => ?_, fun hc => ?_⟩
      · apply List.mem_append_left
        unfold campOf
        rw [if_pos ⟨ne.term_gt, by rw [ne.vote_self, hnid]⟩]
        exact List.mem_singleton.mpr rfl
      · show (x.node i).lastLogIndex ≤ _
        rw [hpre.last, hl, List.length_append]; omega
      · show termAt _ (x.node i).lastLogIndex = (x.node i).lastLogTerm
        rw [hpre.last, hl, termAt_append_left _ _ _ (Nat.le_refl _), termAt_length, hpre.lastT]
      · show (x.node i).lastLogIndex = _
        rw [hpre.last, hl, hcand hc, List.append_nil]
    cases hrole : h.post.role with
    | follower => exact absurd hrole hr
    | leader =>
      rcases rs.leader hrole with ⟨a, b⟩ | ⟨a, _, b⟩ | ne
      · exact old (by rw [a]; decide) b (fun hc => by rw [hrole] at hc; cases hc)
      · exact old (by rw [a.1]; decide) b (fun _ => a.1)
      · exact fromNE ne
    | candidate =>
      rcases rs.candidate hrole with ⟨a, b, _⟩ | ne
      · exact old (by rw [a]; decide) b (fun _ => a)
      · exact fromNE ne
  · by_cases hst : q.term < (x.node i).term
    · obtain ⟨s1, s2, _, _, _, s6, _⟩ := append_stale _ q ra ord hst
      unfold CampOK
      show ∃ k ∈ h.y.cm.camps, k.cand = i ∧ k.term = ((x.node i).step (.append q) ra ord).term ∧
        k.lastIndex ≤ ((x.node i).step (.append q) ra ord).log.entries.length ∧
        (1 ≤ k.lastIndex → termAt ((x.node i).step (.append q) ra ord).log.entries k.lastIndex = k.lastTerm) ∧
        (((x.node i).step (.append q) ra ord).role = .candidate →
          k.lastIndex = ((x.node i).step (.append q) ra ord).log.entries.length)
      rw [s1, s2, s6]
      obtain ⟨k, hk, r⟩ := hI.node.camp i (by rw [← s6]; exact hr)
      exact ⟨k, h.ext.camps k hk, r⟩
    · exact absurd (append_step_role _ q ra ord hst) hr

theorem ldr_post (h : SM x G i op ra ord src) : h.post.role = .leader →
    LeadOK (Commit.Backed h.y.cm i) h.post := by
  have hI := h.inv
  intro hl
  have hmono : h.post.term = (x.node i).term →
      ∀ j m, Commit.Backed x.cm i j m → Commit.Backed h.y.cm i j m := by
    rintro ht j m ⟨a, ha, a1, a2, a3⟩
    refine ⟨a, h.ext.acks a ha, a1, ?_, a3⟩
    show a.term = (h.y.node i).term
    rw [h.node_i, ht]; exact a2
  rcases op_cases op with happ | ⟨q, rfl⟩
  · rcases (h.nst happ).ldr hl with ⟨_, b, lo⟩ | lo
    · exact lo.mono (hmono b)
    · exact lo.mono (fun _ _ hf => hf.elim)
  · by_cases hst : q.term < (x.node i).term
    · obtain ⟨s1, s2, _, _, _, s6, s7, s8, s9, _⟩ := append_stale _ q ra ord hst
      have lo := hI.node.ldr i (by rw [← s6]; exact hl)
      exact (LeadOK.mono (hmono s2) (show LeadOK (Commit.Backed x.cm i) _ from
        ⟨by rw [s8, s7]; exact lo.numVoters, by rw [s8]; exact lo.start, by rw [s8, s1, s2]; exact lo.own,
          by rw [s8]; exact lo.mi, by rw [s8, s1]; exact lo.startLe, by rw [s9, s2]; exact lo.lastT⟩))
    · have := append_step_role _ q ra ord hst
      rw [show h.post.role = _ from this] at hl; cases hl

theorem cc_post (h : SM x G i op ra ord src) : h.post.role = .leader → h.post.configs.isCommitted = true →
    h.post.configs.latest.index < h.post.ldr.startIndex ∨ h.post.configs.latest.index ≤ h.post.commitIndex := by
  intro hl hc
  rcases op_cases op with happ | ⟨q, rfl⟩
  · exact (h.nst happ).cc hl (h.leader_pre hl).2 hc
  · by_cases hst : q.term < (x.node i).term
    · obtain ⟨_, _, _, s4, _, s6, s7, s8, _⟩ := append_stale _ q ra ord hst
      have hl' : ((x.node i).step (.append q) ra ord).role = .leader := hl
      have hc' : ((x.node i).step (.append q) ra ord).configs.isCommitted = true := hc
      show ((x.node i).step (.append q) ra ord).configs.latest.index < ((x.node i).step (.append q) ra ord).ldr.startIndex ∨
        ((x.node i).step (.append q) ra ord).configs.latest.index ≤ ((x.node i).step (.append q) ra ord).commitIndex
      rw [s7, s8, s4]
      exact h.inv.node.cc i (by rw [← s6]; exact hl') (by rw [← s7]; exact hc')
    · have := append_step_role _ q ra ord hst
      rw [show h.post.role = _ from this] at hl; cases hl

/-- **the nodes** after a completed step -/
theorem nodeM (h : SM x G i op ra ord src) : NodeM h.y := by
  have hI := h.inv
  have hE := h.ext
  have oth : ∀ j, j ≠ i → h.y.node j = x.node j := fun j hj => h.node_j hj
  refine ⟨fun j => ?_, fun j => ?_, fun j k hk hk2 => ?_, fun j hr => ?_, fun j hl => ?_, fun j hl hc => ?_⟩
  · by_cases hj : j = i
    · subst hj; rw [h.node_i]; exact h.lwf_post
    · rw [oth j hj]; exact hI.node.lwf j
  · by_cases hj : j = i
    · subst hj; rw [h.node_i]; exact h.termLe_post
    · rw [oth j hj]; exact hI.node.termLe j
  · by_cases hj : j = i
    · subst hj; rw [h.node_i] at hk hk2 ⊢; exact h.unfl_post k hk hk2
    · rw [oth j hj] at hk hk2 ⊢
      obtain ⟨c, hc, r⟩ := hI.node.unfl j k hk hk2
      exact ⟨c, hE.T c hc, r⟩
  · by_cases hj : j = i
    · subst hj; rw [h.node_i] at hr ⊢; exact h.camp_post hr
    · rw [oth j hj] at hr ⊢
      obtain ⟨k, hk, r⟩ := hI.node.camp j hr
      exact ⟨k, hE.camps k hk, r⟩
  · by_cases hj : j = i
    · subst hj; rw [h.node_i] at hl ⊢; exact h.ldr_post hl
    · rw [oth j hj] at hl ⊢
      refine (hI.node.ldr j hl).mono ?_
      rintro v m ⟨a, ha, a1, a2, a3⟩
      refine ⟨a, hE.acks a ha, a1, ?_, a3⟩
      show a.term = (h.y.node j).term
      rw [oth j hj]; exact a2
  · by_cases hj : j = i
    · subst hj; rw [h.node_i] at hl hc ⊢; exact h.cc_post hl hc
    · rw [oth j hj] at hl hc ⊢; exact hI.node.cc j hl hc

/-- **requests on the wire** after a completed step -/
theorem sentM (h : SM x G i op ra ord src) : SentM h.y := by
  have hI := h.inv
  have hE := h.ext
  refine ⟨fun q hq => ?_, fun q hq => hI.sent.term q hq, fun q hq => ?_, fun q hq c hc h0 => ?_, fun q hq => ?_⟩
  rotate_right
  · obtain ⟨c1, c2⟩ := hI.sent.cmt q hq
    exact ⟨fun e he hle => hE.cmt (Nat.le_refl _) (c1 e he hle), fun h1 h2 => hE.cmt (Nat.le_refl _) (c2 h1 h2)⟩
  rotate_right
  · have hcx : c ∈ x.cm.T := by
      rw [h.T_eq] at hc
      rcases List.mem_append.mp hc with hn | ho
      · exfalso
        rcases op_cases op with happ | ⟨q', rfl⟩
        · rw [C04Sys.newCreated_other _ _ _ _ happ] at hn
          exact h.en.rp.id ((C04Sys.mem_chainOf hn).1.symm.trans h0)
        · cases hn
      · exact ho
    exact hI.sent.init q hq c hcx h0
  · obtain ⟨a1, a3, a4, a5⟩ := hI.sent.won q hq
    refine ⟨a1, hE.won _ a3, Nat.le_trans a4 (hE.term _), fun hc => ?_⟩
    by_cases hj : q.src = i
    · have e : h.y.node q.src = h.post := by rw [hj]; exact h.node_i
      rw [e] at hc ⊢
      rw [hj] at a4 a5
      rcases h.rstep.candidate hc with ⟨c1, c2, _⟩ | ne
      · rw [c2]; exact a5 c1
      · have := ne.term_gt; omega
    · rw [h.node_j hj] at hc ⊢; exact a5 hc
  · obtain ⟨c, hc, c1, c2, c3⟩ := hI.sent.anc q hq
    exact ⟨c, hE.T c hc, c1, fun e he => hE.anc (c2 e he), fun h1 => hE.anc (c3 h1)⟩

/-- **the tree** after a step handling an append request (no record is added) -/
theorem treeM_app {q : AppendReq} (h : SM x G i (.append q) ra ord src) : TreeM h.y G := by
  have hI := h.inv
  have hT : h.y.cm.T = x.cm.T := rfl
  refine ⟨by rw [hT]; exact hI.tree.pathc, by rw [hT]; exact hI.tree.tmono, by rw [hT]; exact hI.tree.tbI,
    by rw [hT]; exact hI.tree.cu, fun c hc h0 hl ht => ?_, by rw [hT]; exact hI.tree.rootC,
    by rw [hT]; exact hI.tree.rootA, by rw [hT]; exact hI.tree.rootOnly, by rw [hT]; exact hI.tree.initLt⟩
  by_cases hj : c.cr = i
  · have e : h.y.node c.cr = h.post := by rw [hj]; exact h.node_i
    rw [e] at hl ht ⊢
    by_cases hst : q.term < (x.node i).term
    · obtain ⟨s1, s2, _, _, _, s6, _⟩ := append_stale _ q ra ord hst
      have s1' : h.post.log = (x.node i).log := s1
      rw [s1']
      have := hI.tree.ownLog c hc h0
      rw [hj] at this
      exact this (by rw [← s6]; exact hl) (by rw [← s2]; exact ht)
    · have := append_step_role _ q ra ord hst
      rw [show h.post.role = _ from this] at hl; cases hl
  · rw [h.node_j hj] at hl ht ⊢
    exact hI.tree.ownLog c hc h0 hl ht

/-- **the tree** after a completed step -/
theorem treeM (h : SM x G i op ra ord src) : TreeM h.y G := by
  rcases op_cases op with happ | ⟨q, rfl⟩
  · obtain ⟨es, te, hN, _⟩ := h.newM happ
    exact hN.treeM
  · exact h.treeM_app

/-! ### acknowledgements -/

/-- what the acknowledgement recorded for a `success` reply to an append request says -/
theorem ack_facts {q : AppendReq} (h : SM x G i (.append q) ra ord src) {a : Ack}
    (ha : a ∈ ackOf i (.append q) h.post) :
    q ∈ x.cm.rp.sent ∧ ¬ q.term < (x.node i).term ∧ a.voter = i ∧ a.term = q.term ∧
    a.index = q.prevLogIndex + q.entries.length ∧ 1 ≤ a.index ∧
    Holds h.post.log.entries a.index a.eterm ∧ h.post.term = q.term ∧
    ((∃ e ∈ q.entries, e.index = a.index ∧ e.term = a.eterm) ∨ (q.entries = [] ∧ q.prevLogTerm = a.eterm)) := by
  unfold ackOf at ha
  dsimp only at ha
  split at ha
  · rename_i hc
    have hst : ¬ q.term < (x.node i).term := by
      intro hst
      have := (append_stale _ q ra ord hst).2.2.2.2.2.2.2.2.2.2.2
      have hc1 := hc.1
      rw [show h.post.rpcReply.map (·.result) = _ from this] at hc1
      exact absurd hc1 (by decide)
    obtain ⟨hq, fs⟩ := h.fst hst
    obtain ⟨_, f2, f3, f4⟩ := fs.ack hc.1
    have hidx := (h.inv.rp.sent q hq).idx
    rw [List.mem_singleton.mp ha]
    refine ⟨hq, hst, rfl, rfl, rfl, hc.2, ?_, fs.term hst, ?_⟩
    · exact ⟨hc.2, f4, rfl⟩
    · show (∃ e ∈ q.entries, e.index = q.prevLogIndex + q.entries.length ∧
          e.term = termAt _ (q.prevLogIndex + q.entries.length)) ∨
        (q.entries = [] ∧ q.prevLogTerm = termAt _ (q.prevLogIndex + q.entries.length))
      cases hqe : q.entries with
      | nil =>
        right
        refine ⟨rfl, ?_⟩
        rw [hqe] at hc
        simp only [List.length_nil, Nat.add_zero] at hc ⊢
        exact (f3 hc.2).2.2.symm
      | cons e0 es0 =>
        left
        have hlast : q.entries.length - 1 < q.entries.length := by rw [hqe]; simp
        refine ⟨q.entries[q.entries.length - 1], by rw [← hqe]; exact List.getElem_mem hlast, ?_, ?_⟩
        · rw [hidx _ hlast, ← hqe]; omega
        · have hh := f2 _ (List.getElem_mem hlast)
          rw [hidx _ hlast] at hh
          have e : q.prevLogIndex + (q.entries.length - 1) + 1 = q.prevLogIndex + q.entries.length := by omega
          rw [e] at hh
          rw [← hqe]
          exact hh.2.2.symm
  · cases ha

/-- what the self acknowledgement of a leader-side commit says: it is that of the newest commit moment of the step -/
theorem selfAck_facts (h : SM x G i op ra ord src) {a : Ack} (ha : a ∈ selfAck i op (x.node i) h.post) :
    (∀ q, op ≠ .append q) ∧ a.voter = i ∧ a.eterm = a.term ∧ a.index = h.post.commitIndex ∧
    ∃ L ev L', MEvs (x.node i) (Commit.Backed x.cm i) h.post a.term L ∧ L = ev :: L' ∧ ev.ci = a.index := by
  unfold selfAck at ha
  split at ha
  · rename_i hlc
    have happ : ∀ q, op ≠ .append q := by
      intro q hq
      have := hlc.1
      rw [hq] at this
      simp [isAppend] at this
    obtain ⟨T, L, m⟩ := h.evs happ
    rw [List.mem_singleton.mp ha]
    cases L with
    | nil =>
      exfalso
      have e : h.post.commitIndex = (x.node i).commitIndex := m.head
      have := hlc.2
      omega
    | cons ev L' =>
      have e : h.post.commitIndex = ev.ci := m.head
      have hT : termAt h.post.log.entries h.post.commitIndex = T := by
        rw [e]; exact (m.ev ev (List.mem_cons_self ..)).2.2.2.2.1.2.2
      exact ⟨happ, rfl, rfl, rfl, ev :: L', ev, L', by show MEvs _ _ _ (termAt _ _) _; rw [hT]; exact m, rfl, e.symm⟩
  · cases ha

/-- the log after the step is a root path of the new tree -/
theorem ppath (h : SM x G i op ra ord src) : Path h.y.cm.T h.post.log.entries := by
  have := rpathM h.ry i
  rwa [h.node_i] at this

theorem precord (h : SM x G i op ra ord src) {k τ : Nat} (hh : Holds h.post.log.entries k τ) :
    ∃ c ∈ h.y.cm.T, key c = (k, τ) := by
  obtain ⟨c, hc, h1, h2, _⟩ := path_record h.ppath hh
  exact ⟨c, hc, by unfold key; rw [h1, h2]⟩

theorem pholds (h : SM x G i op ra ord src) {a c : K} (ha : Anc h.y.cm.T a c)
    (hc : Holds h.post.log.entries c.1 c.2) : Holds h.post.log.entries a.1 a.2 :=
  ha.on_path h.ry.uniq h.ppath hc

theorem panc (h : SM x G i op ra ord src) {a c : K} (ha : Holds h.post.log.entries a.1 a.2)
    (hc : Holds h.post.log.entries c.1 c.2) (hle : a.1 ≤ c.1) : Anc h.y.cm.T a c :=
  anc_of_path h.ppath ha hc hle

/-- how a durably held entry of the node fares in the step -/
theorem dur_post (h : SM x G i op ra ord src) {a : Ack} (ha : a ∈ acksG x G) (hv : a.voter = i) {b : K}
    (hb : b.2 = a.term) (hd : DurHolds (x.node i) b) :
    DurHolds h.post b ∨ Unsafe x.cm.T b h.post.term := by
  have hI := h.inv
  obtain ⟨d1, d2⟩ := hd
  rcases op_cases op with happ | ⟨q, rfl⟩
  · left
    obtain ⟨es, te, _, hl⟩ := h.newM happ
    exact ⟨Nat.le_trans d1 (h.nst happ).flush, by rw [hl]; exact holds_prefix (List.prefix_append _ _) d2⟩
  · by_cases hst : q.term < (x.node i).term
    · left
      unfold DurHolds
      rw [show h.post.log = _ from (append_stale _ q ra ord hst).1]
      exact ⟨d1, d2⟩
    · obtain ⟨hq, fs⟩ := h.fst hst
      by_cases hnc : NoConf (x.node i) q b.1
      · left
        obtain ⟨k1, k2⟩ := fs.keep b.1 d2.2.1 hnc
        exact ⟨k2 d1, holds_of_take_eq k1 d2 (Nat.le_refl _)⟩
      · right
        have : ∃ e ∈ q.entries, e.index ≤ b.1 ∧ termAt (x.node i).log.entries e.index ≠ e.term := by
          apply Classical.byContradiction
          intro hn
          apply hnc
          intro e he hle
          apply Classical.byContradiction
          intro hne
          exact hn ⟨e, he, hle, hne⟩
        obtain ⟨e, he, hle, hne⟩ := this
        have := conflict_unsafeM hI ha hv hb d2 hq hst he hle hne
        rw [fs.term hst]
        exact this

theorem acks_cases (h : SM x G i op ra ord src) {a : Ack} (ha : a ∈ h.y.cm.acks ++ G.SA) :
    (∃ q, op = .append q ∧ a ∈ ackOf i op h.post) ∨ a ∈ selfAck i op (x.node i) h.post ∨ a ∈ acksG x G := by
  rcases List.mem_append.mp ha with ha | ha
  · rcases List.mem_append.mp ha with ha | ha
    · left
      rcases op_cases op with happ | ⟨q, hq⟩
      · rw [C02Sys.SC.ackOf_nonappend _ _ _ happ] at ha; cases ha
      · exact ⟨q, hq, ha⟩
    · rcases List.mem_append.mp ha with ha | ha
      · exact Or.inr (Or.inl ha)
      · exact Or.inr (Or.inr (List.mem_append_left _ ha))
  · exact Or.inr (Or.inr (List.mem_append_right _ ha))

/-- the acknowledgements added by a step are the node's own, in a term at or above its old term -/
theorem new_acks (h : SM x G i op ra ord src) : ∀ a ∈ h.y.cm.acks ++ G.SA,
    a ∈ acksG x G ∨ (a.voter = i ∧ (x.node i).term ≤ a.term) := by
  intro a ha
  rcases h.acks_cases ha with ⟨q, rfl, ha⟩ | ha | ha
  · obtain ⟨_, hst, a1, a2, _⟩ := h.ack_facts ha
    exact Or.inr ⟨a1, by rw [a2]; omega⟩
  · obtain ⟨happ, a1, _, _, L, ev, L', m, hL, _⟩ := h.selfAck_facts ha
    refine Or.inr ⟨a1, ?_⟩
    obtain ⟨_, _, s3⟩ := m.src (Or.inl (by rw [hL]; exact List.cons_ne_nil _ _))
    rcases s3 with ⟨_, s⟩ | ⟨_, _, s⟩
    · rw [s]; exact Nat.le_refl _
    · rw [hL] at s; cases s
  · exact Or.inl ha

/-- **acknowledgements** after a completed step -/
theorem ackM (h : SM x G i op ra ord src) : AckM h.y (h.y.cm.acks ++ G.SA) := by
  have hI := h.inv
  have hE := h.ext
  have hR := h.ry
  have hni := h.node_i
  refine ⟨fun a ha => ?_, fun a ha => ?_, fun a ha b hb hanc => ?_⟩
  · -- well-formed
    rcases h.acks_cases ha with ⟨q, rfl, ha⟩ | ha | ha
    · obtain ⟨hq, _, a1, a2, _, a4, a5, a6, a7⟩ := h.ack_facts ha
      refine ⟨a4, by rw [a1, hni, a2, a6]; exact Nat.le_refl _, ?_, ?_⟩
      · rw [a2]
        rcases a7 with ⟨e, he, _, e2⟩ | ⟨_, e2⟩
        · rw [← e2]; exact (hI.sent.term q hq).1 e he
        · rw [← e2]; exact (hI.sent.term q hq).2
      · exact h.precord a5
    · obtain ⟨_, a1, a2, a3, L, ev, L', m, hL, e3⟩ := h.selfAck_facts ha
      have hev := m.ev ev (by rw [hL]; exact List.mem_cons_self ..)
      obtain ⟨s1, _, _⟩ := m.src (Or.inl (by rw [hL]; exact List.cons_ne_nil _ _))
      have hh : Holds h.post.log.entries a.index a.term := by rw [← e3]; exact hev.2.2.2.2.1
      refine ⟨hh.1, by rw [a1, hni]; exact s1, by rw [a2]; exact Nat.le_refl _, ?_⟩
      obtain ⟨r, hr, hk⟩ := h.precord hh
      exact ⟨r, hr, by rw [hk]; unfold Ack.key; rw [a2]⟩
    · obtain ⟨a1, a2, a3, c, hc, hk⟩ := hI.ack.wf a ha
      exact ⟨a1, Nat.le_trans a2 (hE.term _), a3, c, hE.T c hc, hk⟩
  · -- origin
    rcases h.acks_cases ha with ⟨q, rfl, ha⟩ | ha | ha
    · obtain ⟨hq, _, a1, a2, a3, _, _, _, a7⟩ := h.ack_facts ha
      exact Or.inl ⟨q, hq, a2.symm, by rw [a1]; exact h.en.appendSrc q rfl, a3, a7⟩
    · right
      obtain ⟨happ, a1, a2, a3, L, ev, L', m, hL, e3⟩ := h.selfAck_facts ha
      refine ⟨a2, ?_⟩
      have hev := m.ev ev (by rw [hL]; exact List.mem_cons_self ..)
      have hh : Holds h.post.log.entries a.index a.term := by rw [← e3]; exact hev.2.2.2.2.1
      obtain ⟨r, hr, hk⟩ := h.precord hh
      refine ⟨r, hr, by rw [hk]; unfold Ack.key; rw [a2], ?_⟩
      have hrt : r.e.term = a.term := by unfold key at hk; simp only [Prod.mk.injEq] at hk; exact hk.2
      rw [a1]
      obtain ⟨_, _, s3⟩ := m.src (Or.inl (by rw [hL]; exact List.cons_ne_nil _ _))
      rcases s3 with ⟨s1, s2⟩ | ⟨_, _, s⟩
      · -- leader before the step: the record is new, or an old record of the leader's term
        obtain ⟨es, te, hN, _⟩ := h.newM happ
        rcases hN.mem_T hr with hn | ho
        · exact ⟨(hN.mem_new hn).1, by rw [(hN.mem_new hn).1]; exact h.en.rp.id⟩
        · exact ⟨creator_is_leaderM hI h.side.tree s1 ho (hrt.trans s2),
            cr_ne_zeroM hI (by rw [s1]; decide) ho (hrt.trans s2)⟩
      · rw [hL] at s; cases s
    · rcases hI.ack.src a ha with ⟨q, hq, r⟩ | ⟨e, c, hc, r⟩
      · exact Or.inl ⟨q, hq, r⟩
      · exact Or.inr ⟨e, c, hE.T c hc, r⟩
  · -- stability
    rcases h.acks_cases ha with ⟨q, rfl, ha⟩ | ha | ha
    · left
      obtain ⟨hq, hst, a1, a2, _, _, a5, _, _⟩ := h.ack_facts ha
      rw [a1, hni]
      have hbh := h.pholds hanc (show Holds _ a.key.1 a.key.2 from a5)
      refine ⟨?_, hbh⟩
      rcases (h.fst hst).2.dirty with d | d
      · -- nothing was written: an entry of the request's term is not among the node's own unflushed entries
        apply Nat.le_of_not_lt
        intro hlt
        rw [d] at hlt hbh
        obtain ⟨c, hc, c1, c2, c3⟩ := hI.node.unfl i b.1 hlt hbh.2.1
        obtain ⟨_, w3, _⟩ := hI.sent.won q hq
        have := creator_of_wonM hI h.side.tree w3 hc (by rw [c3]; exact h.en.rp.id)
          (by rw [c2, hbh.2.2, hb, a2])
        exact h.en.appendSrc q rfl (this.symm.trans c3)
      · rw [d]; exact hbh.2.1
    · left
      obtain ⟨_, a1, a2, a3, L, ev, L', m, hL, e3⟩ := h.selfAck_facts ha
      rw [a1, hni]
      have hev := m.ev ev (by rw [hL]; exact List.mem_cons_self ..)
      have hh : Holds h.post.log.entries a.key.1 a.key.2 := by
        unfold Ack.key; rw [a2, ← e3]; exact hev.2.2.2.2.1
      have hbh := h.pholds hanc hh
      refine ⟨?_, hbh⟩
      have := hanc.1
      have e : a.key.1 = a.index := rfl
      have := hev.2.2.2.2.2.1
      omega
    · obtain ⟨c, hc, hk⟩ := (hI.ack.wf a ha).2.2.2
      rw [← hk] at hanc
      have hanc' := anc_reflect hE hc hanc
      rw [hk] at hanc'
      by_cases hv : a.voter = i
      · rw [hv, hni]
        rcases hI.ack.stable a ha b hb hanc' with d | u
        · rw [hv] at d
          rcases h.dur_post ha hv hb d with d' | u
          · exact Or.inl d'
          · exact Or.inr (hE.unsafeU (Nat.le_refl _) u)
        · rw [hv] at u
          exact Or.inr (hE.unsafeU h.vstep.1.1 u)
      · rw [h.node_j hv]
        exact (hI.ack.stable a ha b hb hanc').imp id (hE.unsafeU (Nat.le_refl _))

/-! ### votes, campaigns, elections -/

/-- the (term, vote) pair after the step -/
theorem pair_post (h : SM x G i op ra ord src) :
    PairOK (x.node i) (AOp (x.node i) op) h.post.term h.post.votedFor := by
  rcases op_cases op with happ | ⟨q, rfl⟩
  · exact (h.nst happ).pair
  · by_cases hst : q.term < (x.node i).term
    · obtain ⟨_, s2, s3, _⟩ := append_stale _ q ra ord hst
      rw [show h.post.term = _ from s2, show h.post.votedFor = _ from s3]
      exact ⟨Nat.le_refl _, Or.inr (Or.inl ⟨rfl, rfl⟩)⟩
    · exact (h.fst hst).2.pair.mono (fun _ _ hf => hf.elim)

theorem camp_new (h : SM x G i op ra ord src) {k : Camp} (hk : k ∈ campOf i (x.node i) h.post) :
    h.post.term > (x.node i).term ∧ h.post.votedFor = i ∧
    k = Camp.mk i h.post.term (x.node i).lastLogIndex (x.node i).lastLogTerm := by
  unfold campOf at hk
  split at hk
  · rename_i hc
    exact ⟨hc.1, hc.2, List.mem_singleton.mp hk⟩
  · cases hk

theorem camp_cases (h : SM x G i op ra ord src) {k : Camp} (hk : k ∈ h.y.cm.camps) :
    k ∈ campOf i (x.node i) h.post ∨ k ∈ x.cm.camps := List.mem_append.mp hk

theorem ecfg_cases (h : SM x G i op ra ord src) {k : ECfg} (hk : k ∈ h.y.ecfg) :
    k ∈ ecfgOf i (x.node i) h.post ∨ k ∈ x.ecfg := List.mem_append.mp hk

/-- when the node holds a vote after the step, its new acknowledgements are of its new term -/
theorem new_acks_vote (h : SM x G i op ra ord src) (hv : h.post.votedFor ≠ 0) :
    ∀ a ∈ h.y.cm.acks ++ G.SA, a ∈ acksG x G ∨ (a.voter = i ∧ h.post.term ≤ a.term) := by
  intro a ha
  have hmono := h.vstep.1.1
  rcases h.acks_cases ha with ⟨q, rfl, ha⟩ | ha | ha
  · obtain ⟨_, _, a1, a2, _, _, _, a6, _⟩ := h.ack_facts ha
    exact Or.inr ⟨a1, by rw [a2, a6]; exact Nat.le_refl _⟩
  · obtain ⟨_, a1, _, _, L, ev, L', m, hL, _⟩ := h.selfAck_facts ha
    right
    refine ⟨a1, ?_⟩
    obtain ⟨s1, s2, _⟩ := m.src (Or.inl (by rw [hL]; exact List.cons_ne_nil _ _))
    rcases s2 with s2 | s2
    · omega
    · exact absurd s2 hv
  · exact Or.inl ha

theorem campUniq_post (h : SM x G i op ra ord src) : ∀ k ∈ h.y.cm.camps,
    ∀ k' ∈ h.y.cm.camps, k.cand = k'.cand → k.term = k'.term → k = k' := by
  have hI := h.inv
  intro k hk k' hk' hc ht
  have key : ∀ kn ∈ campOf i (x.node i) h.post, ∀ ko ∈ x.cm.camps, kn.cand = ko.cand →
      kn.term = ko.term → False := by
    intro kn hkn ko hko e1 e2
    obtain ⟨n1, _, n3⟩ := h.camp_new hkn
    have := (hI.vote.campWf ko hko).2.1
    rw [← e1, ← e2, n3] at this
    have t : (x.node i).term < h.post.term := n1
    have this' : h.post.term ≤ (x.node i).term := this
    omega
  rcases h.camp_cases hk with hn | ho <;> rcases h.camp_cases hk' with hn' | ho'
  · rw [(h.camp_new hn).2.2, (h.camp_new hn').2.2]
  · exact (key k hn k' ho' hc ht).elim
  · exact (key k' hn' k ho hc.symm ht.symm).elim
  · exact hI.vote.campUniq k ho k' ho' hc ht

/-- **the up-to-date check for the vote the node holds after the step** -/
theorem vote_core (h : SM x G i op ra ord src) (hv0 : h.post.votedFor ≠ 0)
    {k : Camp} (hk : k ∈ h.y.cm.camps) (hkc : k.cand = h.post.votedFor) (hkt : k.term = h.post.term)
    {a : Ack} (ha : a ∈ h.y.cm.acks ++ G.SA) (hav : a.voter = i) (hlt : a.term < k.term)
    {b : K} (hb : b.2 = a.term) (hanc : Anc h.y.cm.T b a.key) :
    Anc h.y.cm.T b k.last ∨ Unsafe h.y.cm.T b k.term := by
  have hI := h.inv
  have hE := h.ext
  have hnid := h.nid_pre
  -- the acknowledgement is an old one
  have hao : a ∈ acksG x G := by
    rcases h.new_acks_vote hv0 a ha with ho | ⟨_, hn⟩
    · exact ho
    · omega
  obtain ⟨ca, hca, hcak⟩ := (hI.ack.wf a hao).2.2.2
  rw [← hcak] at hanc
  have hanc' := anc_reflect hE hca hanc
  rw [hcak] at hanc'
  have hst := hI.ack.stable a hao b hb hanc'
  rw [hav] at hst
  rcases h.pair_post.2 with p0 | ⟨p1, p2⟩ | ⟨q, rfl, p1, p2, p3, p4⟩ | ⟨p1, p2⟩
  · exact absurd p0 hv0
  · -- the vote the node held before
    have hko : k ∈ x.cm.camps := by
      rcases h.camp_cases hk with hn | ho
      · have := (h.camp_new hn).1; omega
      · exact ho
    have hv0' : (x.node i).votedFor ≠ 0 := by rw [← p2]; exact hv0
    rcases hI.vote.voteInv i hv0' k hko (hkc.trans p2) (hkt.trans p1) a hao hav hlt b hb hanc' with r | r
    · exact Or.inl (hE.anc r)
    · exact Or.inr (hE.unsafeU (Nat.le_refl _) r)
  · -- a vote granted in this step: the request is a recorded campaign
    have hk0 : (Camp.mk q.src q.term q.lastLogIndex q.lastLogTerm) ∈ x.cm.camps := by
      rcases h.en.vote q rfl with hs | hc
      · omega
      · exact hc
    have hkk : k = Camp.mk q.src q.term q.lastLogIndex q.lastLogTerm :=
      h.campUniq_post k hk _ (hE.camps _ hk0) (hkc.trans p2) (hkt.trans p1)
    rcases hst with ⟨_, hh⟩ | u
    · rcases uptodate_ancM hI hh hk0 p4 with r | r
      · left; rw [hkk]; exact hE.anc r
      · right; rw [hkk]; exact hE.unsafeU (Nat.le_refl _) r
    · right
      rw [hkt, p1]
      exact hE.unsafeU p3 u
  · -- the self vote of an election started in this step
    have hcond : h.post.term > (x.node i).term ∧ h.post.votedFor = i := ⟨p2, by rw [p1, hnid]⟩
    have hkn : (Camp.mk i h.post.term (x.node i).lastLogIndex (x.node i).lastLogTerm) ∈ h.y.cm.camps := by
      apply List.mem_append_left
      unfold campOf
      rw [if_pos hcond]
      exact List.mem_singleton.mpr rfl
    have hkk := h.campUniq_post k hk _ hkn (hkc.trans hcond.2) hkt
    rcases hst with ⟨_, hh⟩ | u
    · left
      have hlen : 1 ≤ (x.node i).log.entries.length := by have := hh.1; have := hh.2.1; omega
      have := log_ancM hI i (a := b) (c := ((x.node i).log.entries.length, (x.node i).lastLogTerm)) hh
        (C02Sys.holds_last (nwfM hI i) hlen) hh.2.1
      rw [hkk]
      show Anc _ b ((x.node i).lastLogIndex, (x.node i).lastLogTerm)
      rw [(nwfM hI i).last]
      exact hE.anc this
    · right
      rw [hkt]
      exact hE.unsafeU (Nat.le_of_lt p2) u

/-- a grant recorded in this step is the vote the node holds afterwards, and answers a recorded campaign -/
theorem grant_new (h : SM x G i op ra ord src) {g : C01.Grant}
    (hg : g ∈ Election.voteGrant i op h.post ∨ g ∈ Election.selfGrant i (x.node i) h.post) :
    g.voter = i ∧ h.post.term = g.term ∧ h.post.votedFor = g.cand ∧
    g.cand ≠ 0 ∧ ∃ k ∈ h.y.cm.camps, k.cand = g.cand ∧ k.term = g.term := by
  have hI := h.inv
  have hwf := (hI.rp.el.ids i).2
  rcases hg with hg | hg
  · unfold Election.voteGrant at hg
    split at hg
    · rename_i z hz
      cases op with
      | vote q =>
        simp only [C05.grantOf] at hz
        split at hz
        · rename_i hs
          injection hz with hz
          subst hz
          rw [List.mem_singleton.mp hg]
          obtain ⟨p1, p2⟩ := vote_step_pair (x.node i) q ra ord hwf hs
          obtain ⟨g1, _⟩ := Election.vote_grant_agrees (x.node i) q ra ord hwf hs
          refine ⟨rfl, p1, p2, h.en.rp.voteSrc q rfl, ?_⟩
          rcases h.en.vote q rfl with hst | hc
          · omega
          · exact ⟨_, h.ext.camps _ hc, rfl, rfl⟩
        · cases hz
      | _ => simp [C05.grantOf] at hz
    · cases hg
  · obtain ⟨s1, s2, s3⟩ := C01Sys.mem_selfGrant hg
    rw [s3]
    refine ⟨rfl, rfl, s2, h.en.rp.id, Camp.mk i h.post.term (x.node i).lastLogIndex
      (x.node i).lastLogTerm, ?_, rfl, rfl⟩
    apply List.mem_append_left
    unfold campOf
    rw [if_pos ⟨s1, s2⟩]
    exact List.mem_singleton.mpr rfl

theorem grant_cases (h : SM x G i op ra ord src) {g : C01.Grant} (hg : g ∈ h.y.el.grants) :
    (g ∈ Election.voteGrant i op h.post ∨ g ∈ Election.selfGrant i (x.node i) h.post) ∨ g ∈ x.el.grants := by
  have hg' : g ∈ Election.voteGrant i op h.post ++ (Election.selfGrant i (x.node i) h.post ++ x.el.grants) := hg
  rcases List.mem_append.mp hg' with a | a
  · exact Or.inl (Or.inl a)
  · rcases List.mem_append.mp a with a | a
    · exact Or.inl (Or.inr a)
    · exact Or.inr a

theorem counted_cases (h : SM x G i op ra ord src) {e : Nat × Nat × Nat} (he : e ∈ h.y.el.counted) :
    (Counts (x.node i) op ∧ e = (i, (x.node i).term, src)) ∨ e ∈ x.el.counted := by
  have he' : e ∈ Election.countedBy i (x.node i) op src ++ x.el.counted := he
  rcases List.mem_append.mp he' with a | a
  · left
    by_cases hc : Counts (x.node i) op
    · exact ⟨hc, C01Sys.mem_countedBy a⟩
    · rw [Election.countedBy_not _ _ _ _ hc] at a; cases a
  · exact Or.inr a

/-- the configuration a campaign is recorded with is the last configuration entry of the campaign's log -/
theorem cfgAt_new (h : SM x G i op ra ord src) :
    ∃ D, CfgAt h.y.cm.T D (x.node i).configs.latest ((x.node i).lastLogIndex, (x.node i).lastLogTerm) := by
  have hI := h.inv
  have hn := nwfM hI i
  obtain ⟨⟨e, he, hec⟩, hlast⟩ := h.inv.cfg.cl i
  have hh := C02Sys.holds_of_mem hn.contig he
  obtain ⟨c, hc, c1, c2, c3⟩ := path_record (log_pathM hI i) hh
  have hlen : 1 ≤ (x.node i).log.entries.length := by have := hh.1; have := hh.2.1; omega
  have hv := C02Sys.holds_last hn hlen
  have hce : c.e = e := by
    obtain ⟨k, hk, rfl⟩ := List.getElem_of_mem he
    have hi := hn.contig k hk
    rw [hi] at c3
    have : (x.node i).log.entries[k + 1 - 1]? = some (x.node i).log.entries[k] := by
      rw [Nat.add_sub_cancel]; exact List.getElem?_eq_getElem hk
    rw [this] at c3
    injection c3 with c3
    exact c3.symm
  have hD : CfgAt x.cm.T (key c) (x.node i).configs.latest ((x.node i).log.entries.length, (x.node i).lastLogTerm) := by
    refine ⟨⟨c, hc, rfl, by rw [hce]; exact hec⟩, ?_, fun c' hc' ht hA => ?_⟩
    · exact log_ancM hI i (a := key c) (by show Holds _ c.e.index c.e.term; rw [c1, c2]; exact hh) hv
        (by show c.e.index ≤ _; rw [c1]; exact hh.2.1)
    · have hh' := log_holds_ancM hI i hA hv
      obtain ⟨c'', hc'', d1, d2, d3⟩ := path_record (log_pathM hI i) hh'
      have : c'' = c' := uniqM hI c'' hc'' c' hc' d1 d2
      rw [this] at d3
      have hm : c'.e ∈ (x.node i).log.entries := List.mem_of_getElem? d3
      have := hlast c'.e hm ht
      obtain ⟨_, ci, _⟩ := config?_facts hec
      show c'.e.index ≤ c.e.index
      rw [c1, ← ci]; exact this
  refine ⟨key c, ?_⟩
  rw [hn.last]
  exact cfgAt_mono h.ext.T h.ry.uniq ⟨_, log_pathM hI i, hv⟩ hD

/-- **campaigns, votes and elections** after a completed step -/
theorem voteM (h : SM x G i op ra ord src) : VoteM h.y (h.y.cm.acks ++ G.SA) := by
  have hI := h.inv
  have hE := h.ext
  have hni := h.node_i
  have hnid := h.nid_pre
  have hmono := h.vstep.1.1
  have hwfa : ∀ a ∈ acksG x G, ∃ c ∈ x.cm.T, key c = a.key := fun a ha => (hI.ack.wf a ha).2.2.2
  -- a new campaign is for a term no old campaign, grant or counted vote of the node mentions
  have newk : ∀ k ∈ campOf i (x.node i) h.post,
      k.cand = i ∧ (x.node i).term < k.term ∧ k.term = h.post.term ∧
      h.post.votedFor = i ∧ k.last = ((x.node i).lastLogIndex, (x.node i).lastLogTerm) := by
    intro k hk
    obtain ⟨n1, n2, n3⟩ := h.camp_new hk
    rw [n3]; exact ⟨rfl, n1, rfl, n2, rfl⟩
  have hrecOld : ∀ k ∈ x.cm.camps, ∃ es, Path x.cm.T es ∧ Holds es k.last.1 k.last.2 := by
    intro k hk
    obtain ⟨_, _, _, c, hc, hck⟩ := hI.vote.campWf k hk
    obtain ⟨es, p, hh⟩ := hI.tree.pathc c hc
    exact ⟨es, p, by rw [← hck]; exact hh⟩
  refine ⟨h.campUniq_post, fun k hk => ?_, fun v hv hvv => ?_, fun v hv k hk hkc hkt a ha hav hlt b hb hanc => ?_,
    fun g hg k hk hkc hkt a ha hav hlt b hb hanc => ?_, fun k hk v hel => ?_, fun e he => ?_, fun g hg => ?_,
    fun k hk => ?_, fun kc hkc => ?_⟩
  · -- campaigns are well formed
    rcases h.camp_cases hk with hn | ho
    · obtain ⟨n1, n2, n3, _, n5⟩ := newk k hn
      have hlt := lastLogTerm_leM hI i
      refine ⟨by rw [n1]; exact h.en.rp.id, by rw [n1, hni, n3]; exact Nat.le_refl _, ?_, ?_⟩
      · have : k.lastTerm = (x.node i).lastLogTerm := congrArg Prod.snd n5
        omega
      · obtain ⟨D, ⟨_, hA, _⟩⟩ := h.cfgAt_new
        rw [← n5] at hA
        obtain ⟨_, es, p, hh, _⟩ := hA
        obtain ⟨c, hc, c1, c2, _⟩ := path_record p hh
        exact ⟨c, hc, by unfold key; rw [c1, c2]⟩
    · obtain ⟨a1, a2, a3, c, hc, hck⟩ := hI.vote.campWf k ho
      exact ⟨a1, Nat.le_trans a2 (hE.term _), a3, c, hE.T c hc, hck⟩
  · -- a vote for somebody else answers a campaign
    by_cases hvi : v = i
    · subst hvi
      rw [hni] at hv hvv ⊢
      rcases h.pair_post.2 with p0 | ⟨p1, p2⟩ | ⟨q, rfl, p1, p2, p3, _⟩ | ⟨p1, _⟩
      · exact absurd p0 hv
      · obtain ⟨k, hk, k1, k2⟩ := hI.vote.voteCamp v (by rw [← p2]; exact hv) (by rw [← p2]; exact hvv)
        exact ⟨k, hE.camps k hk, by rw [k1, p2], by rw [k2, p1]⟩
      · rcases h.en.vote q rfl with hst | hc
        · omega
        · exact ⟨_, hE.camps _ hc, p2.symm, p1.symm⟩
      · rw [p1, hnid] at hvv; exact absurd rfl hvv
    · rw [h.node_j hvi] at hv hvv ⊢
      obtain ⟨k, hk, r⟩ := hI.vote.voteCamp v hv hvv
      exact ⟨k, hE.camps k hk, r⟩
  · -- the vote a node holds
    by_cases hvi : v = i
    · subst hvi
      rw [hni] at hv hkc hkt
      exact h.vote_core hv hk hkc hkt ha hav hlt hb hanc
    · rw [h.node_j hvi] at hv hkc hkt
      have hko : k ∈ x.cm.camps := by
        rcases h.camp_cases hk with hn | ho
        · exfalso
          obtain ⟨n1, n2, _⟩ := newk k hn
          have hvv : (x.node v).votedFor ≠ v := by rw [← hkc, n1]; exact fun e => hvi e.symm
          obtain ⟨k', hk', k1, k2⟩ := hI.vote.voteCamp v hv hvv
          have := (hI.vote.campWf k' hk').2.1
          rw [k1, ← hkc, n1, k2, ← hkt] at this
          omega
        · exact ho
      have hao : a ∈ acksG x G := by
        rcases h.new_acks a ha with ho | ⟨hn, _⟩
        · exact ho
        · exact absurd (hav.symm.trans hn) hvi
      obtain ⟨ca, hca, hcak⟩ := hwfa a hao
      rw [← hcak] at hanc
      have hanc' := anc_reflect hE hca hanc
      rw [hcak] at hanc'
      rcases hI.vote.voteInv v hv k hko hkc hkt a hao hav hlt b hb hanc' with r | r
      · exact Or.inl (hE.anc r)
      · exact Or.inr (hE.unsafeU (Nat.le_refl _) r)
  · -- every recorded grant
    rcases h.grant_cases hg with hn | ho
    · obtain ⟨g1, g2, g3, g4, _⟩ := h.grant_new hn
      exact h.vote_core (by rw [g3]; exact g4) hk (hkc.trans g3.symm) (hkt.trans g2.symm) ha (hav.trans g1) hlt hb hanc
    · have hgt := grant_termM hI ho
      have hko : k ∈ x.cm.camps := by
        rcases h.camp_cases hk with hn | ho'
        · exfalso
          obtain ⟨n1, n2, _⟩ := newk k hn
          obtain ⟨k', hk', k1, k2⟩ := hI.vote.grantCamp g ho
          have := (hI.vote.campWf k' hk').2.1
          rw [k1, ← hkc, n1, k2, ← hkt] at this
          omega
        · exact ho'
      have hao : a ∈ acksG x G := by
        rcases h.new_acks a ha with ho' | ⟨hn, hn2⟩
        · exact ho'
        · exfalso
          rw [← hav, hn] at hgt
          omega
      obtain ⟨ca, hca, hcak⟩ := hwfa a hao
      rw [← hcak] at hanc
      have hanc' := anc_reflect hE hca hanc
      rw [hcak] at hanc'
      rcases hI.vote.grantInv g ho k hko hkc hkt a hao hav hlt b hb hanc' with r | r
      · exact Or.inl (hE.anc r)
      · exact Or.inr (hE.unsafeU (Nat.le_refl _) r)
  · -- the voters a candidate counted
    rcases h.camp_cases hk with hn | ho
    · -- a new campaign: only the candidate itself
      obtain ⟨n1, n2, n3, n4, n5⟩ := newk k hn
      have hvi : v = i := by
        rcases hel with e | e
        · exact e.trans n1
        · exfalso
          rcases h.counted_cases e with ⟨_, e'⟩ | e'
          · injection e' with _ e'; injection e' with e' _; omega
          · have := hI.rp.el.countedTerm _ e'
            have this' : k.term ≤ (x.node k.cand).term := this
            rw [n1] at this'; omega
      subst hvi
      intro a ha hav hlt b hb hanc
      have hv0 : h.post.votedFor ≠ 0 := by rw [n4]; exact h.en.rp.id
      have hao : a ∈ acksG x G := by
        rcases h.new_acks_vote hv0 a ha with ho | ⟨_, hn⟩
        · exact ho
        · omega
      obtain ⟨ca, hca, hcak⟩ := hwfa a hao
      rw [← hcak] at hanc
      have hanc' := anc_reflect hE hca hanc
      rw [hcak] at hanc'
      have hst := hI.ack.stable a hao b hb hanc'
      rw [hav] at hst
      rcases hst with ⟨_, hh⟩ | ⟨c, hc, c1, c2, c3⟩
      · left
        have hlen : 1 ≤ (x.node v).log.entries.length := by have := hh.1; have := hh.2.1; omega
        have := log_ancM hI v (a := b) (c := ((x.node v).log.entries.length, (x.node v).lastLogTerm)) hh
          (C02Sys.holds_last (nwfM hI v) hlen) hh.2.1
        rw [n5, (nwfM hI v).last]
        exact hE.anc this
      · right
        exact ⟨c, hE.T c hc, c1, hE.not_anc hc c3, Or.inl (by omega)⟩
    · -- an old campaign
      have hup : ∀ u, Elector x.cm k.cand k.term u → UpToM x.cm.T (acksG x G) k u →
          UpToM h.y.cm.T (h.y.cm.acks ++ G.SA) k u := by
        intro u hu hux
        refine upToM_mono hE hwfa (fun a ha => ?_) hux
        rcases h.new_acks a ha with ho' | ⟨a1, a2⟩
        · exact Or.inl ho'
        · right
          intro hau
          have := elector_termM hI ho hu
          rw [← hau, a1] at this
          omega
      rcases hel with e | e
      · exact hup v (Or.inl e) (hI.vote.electInv k ho v (Or.inl e))
      · rcases h.counted_cases e with ⟨hc, e'⟩ | e'
        · injection e' with e1 e'
          injection e' with e2 e3
          obtain ⟨r1, _, r3, _⟩ := h.en.rp.real hc
          have hux : UpToM x.cm.T (acksG x G) k v := by
            rw [e3]
            exact upTo_of_grantM hI hc.1 ho e1 e2 r3
          refine upToM_mono hE hwfa (fun a ha => ?_) hux
          rcases h.new_acks a ha with ho' | ⟨a1, _⟩
          · exact Or.inl ho'
          · right
            intro hau
            rw [e3] at hau
            exact absurd (hau.symm.trans a1) r1
        · exact hup v (Or.inr e') (hI.vote.electInv k ho v (Or.inr e'))
  · rcases h.counted_cases he with ⟨hc, e'⟩ | e'
    · rw [e']
      exact hE.grants _ (h.en.rp.real hc).2.2.1
    · exact hE.grants _ (hI.vote.countedGrant e e')
  · rcases h.grant_cases hg with hn | ho
    · exact (h.grant_new hn).2.2.2.2
    · obtain ⟨k, hk, r⟩ := hI.vote.grantCamp g ho
      exact ⟨k, hE.camps k hk, r⟩
  · -- a campaign has its configuration
    rcases h.camp_cases hk with hn | ho
    · obtain ⟨n1, n2, n3⟩ := h.camp_new hn
      refine ⟨⟨i, h.post.term, (x.node i).configs.latest⟩, ?_, by rw [n3], by rw [n3], ?_⟩
      · apply List.mem_append_left
        unfold ecfgOf
        rw [if_pos ⟨n1, n2⟩]
        exact List.mem_singleton.mpr rfl
      · rw [n3]; exact h.cfgAt_new
    · obtain ⟨kc, hkc, c1, c2, D, hD⟩ := hI.vote.campCfg k ho
      exact ⟨kc, List.mem_append_right _ hkc, c1, c2, D, cfgAt_mono hE.T h.ry.uniq (hrecOld k ho) hD⟩
  · rcases h.ecfg_cases hkc with hn | ho
    · obtain ⟨n1, n2, n3⟩ := C01Member.mem_ecfgOf hn
      refine ⟨Camp.mk i h.post.term (x.node i).lastLogIndex (x.node i).lastLogTerm, ?_, by rw [n3], by rw [n3]⟩
      apply List.mem_append_left
      unfold campOf
      rw [if_pos ⟨n1, n2⟩]
      exact List.mem_singleton.mpr rfl
    · obtain ⟨k, hk, r⟩ := hI.vote.cfgCamp kc ho
      exact ⟨k, hE.camps k hk, r⟩

/-! ### commit records -/

/-- the commit record of a commit moment -/
def recOf (T : Nat) (ev : CEvt) : Rec := ⟨(ev.ci, T), (ev.len, T), ev.Q⟩

/-- the newest commit moment carries the commit index after the step -/
theorem head_ev (h : SM x G i op ra ord src) {T : Nat} {L : List CEvt}
    (m : MEvs (x.node i) (Commit.Backed x.cm i) h.post T L) :
    (L = [] ∧ h.post.commitIndex = (x.node i).commitIndex) ∨
    (∃ ev0 ∈ L, h.post.commitIndex = ev0.ci ∧ ∀ ev ∈ L, ev.ci ≤ ev0.ci) := by
  cases L with
  | nil => exact Or.inl ⟨rfl, m.head⟩
  | cons ev0 L' =>
    refine Or.inr ⟨ev0, List.mem_cons_self .., m.head, fun ev hev => ?_⟩
    rcases List.mem_cons.mp hev with e' | e'
    · rw [e']; exact Nat.le_refl _
    · exact Nat.le_of_lt ((List.pairwise_cons.mp m.sorted).1 ev e').1

/-- an old record stays a record -/
theorem recOK_old (h : SM x G i op ra ord src) {r : Rec} (hr : RecOK x (acksG x G) r) :
    RecOK h.y (h.y.cm.acks ++ G.SA) r := by
  have hE := h.ext
  obtain ⟨r1, r2, ⟨c, hc, hk, h0⟩, D, cfg, r4, r5, r6, r7⟩ := hr
  obtain ⟨p, hp, hh⟩ := h.inv.tree.pathc c hc
  refine ⟨r1, hE.anc r2, ⟨c, hE.T c hc, hk, h0⟩, D, cfg,
    cfgAt_mono hE.T h.ry.uniq ⟨p, hp, by rw [← hk]; exact hh⟩ r4, r5, r6, fun v hv => ?_⟩
  obtain ⟨a, ha, a1, a2, a3⟩ := r7 v hv
  refine ⟨a, ?_, a1, a2, hE.anc a3⟩
  rcases List.mem_append.mp ha with ha | ha
  · exact List.mem_append_left _ (hE.acks a ha)
  · exact List.mem_append_right _ ha

/-- when the step has a commit moment, the node was leader of `T` before it -/
theorem ev_leader (h : SM x G i op ra ord src) {T : Nat} {L : List CEvt}
    (m : MEvs (x.node i) (Commit.Backed x.cm i) h.post T L) (hne : L ≠ []) :
    (x.node i).role = .leader ∧ T = (x.node i).term := by
  obtain ⟨_, _, s3⟩ := m.src (Or.inl hne)
  rcases s3 with s | ⟨_, _, s⟩
  · exact s
  · exact absurd s hne

/-- the entries of the log after the step from a commit moment's index on carry the term `T` -/
theorem ev_terms (h : SM x G i op ra ord src) (happ : ∀ q, op ≠ .append q) {T : Nat} {L : List CEvt}
    (m : MEvs (x.node i) (Commit.Backed x.cm i) h.post T L) {ev : CEvt} (hev : ev ∈ L) {k : Nat}
    (h1 : ev.ci ≤ k) (h2 : k ≤ h.post.log.entries.length) : Holds h.post.log.entries k T := by
  have hI := h.inv
  obtain ⟨hl, hT⟩ := h.ev_leader m (List.ne_nil_of_mem hev)
  obtain ⟨_, _, _, _, hci, _⟩ := m.ev ev hev
  have h1' : 1 ≤ k := Nat.le_trans hci.1 h1
  refine ⟨h1', h2, ?_⟩
  have hlow : T ≤ termAt h.post.log.entries k :=
    holds_terms_mono h.treeM.tmono h.ppath hci ⟨h1', h2, rfl⟩ h1
  have hup : termAt h.post.log.entries k ≤ T := by
    obtain ⟨es, te, _, hle⟩ := h.newM happ
    have hlt : k - 1 < h.post.log.entries.length := by omega
    have hidx := h.nwf_post.contig (k - 1) hlt
    have hmem : h.post.log.entries[k - 1] ∈ h.post.log.entries := List.getElem_mem hlt
    have ht : termAt h.post.log.entries k = (h.post.log.entries[k - 1]).term := by
      unfold termAt
      rw [if_neg (by omega), List.getElem?_eq_getElem hlt]; rfl
    rw [ht]
    by_cases hk : k ≤ (x.node i).log.entries.length
    · have : h.post.log.entries[k - 1] ∈ (x.node i).log.entries := by
        have e : h.post.log.entries[k - 1] = (x.node i).log.entries[k - 1]'(by omega) := by
          simp only [hle]
          rw [List.getElem_append_left (by omega)]
        rw [e]; exact List.getElem_mem _
      rw [hT]; exact hI.node.termLe i _ this
    · exact Nat.le_of_eq (m.newT _ hmem (by rw [hidx]; omega))
  omega

/-- **the record of a commit moment of the step** -/
theorem recOK_new (h : SM x G i op ra ord src) (happ : ∀ q, op ≠ .append q) {T : Nat} {L : List CEvt}
    (m : MEvs (x.node i) (Commit.Backed x.cm i) h.post T L) {ev : CEvt} (hev : ev ∈ L) :
    RecOK h.y (h.y.cm.acks ++ G.SA) (recOf T ev) := by
  have hI := h.inv
  have hne : L ≠ [] := List.ne_nil_of_mem hev
  obtain ⟨hl, hT⟩ := h.ev_leader m hne
  obtain ⟨a1, a2, a3, a4, hci, afl, acl, aq1, aq2, aq3⟩ := m.ev ev hev
  have hlenT := h.ev_terms happ m hev a2 a4
  have hni := h.node_i
  obtain ⟨D, hD, _⟩ := cfgAt_of_log h.ry i ev.len hlenT.1 (by rw [hni]; exact a4) (by rw [hni]; exact acl)
  rw [hni, hlenT.2.2] at hD
  obtain ⟨cl, hcl, hclk⟩ := h.precord hlenT
  refine ⟨rfl, h.panc hci hlenT a2, ⟨cl, hcl, hclk, ?_⟩, D, ev.cfg, hD, aq1, aq2, fun v hv => ?_⟩
  · -- the record of the log end of that moment was created by a node
    have hclt : cl.e.term = T := by unfold key at hclk; simp only [Prod.mk.injEq] at hclk; exact hclk.2
    obtain ⟨es, te, hN, _⟩ := h.newM happ
    rcases hN.mem_T hcl with hn | ho
    · rw [(hN.mem_new hn).1]; exact h.en.rp.id
    · exact cr_ne_zeroM hI (i := i) (by rw [hl]; decide) ho (hclt.trans hT)
  · rcases aq3 v hv with e | ⟨_, _, mm, hm1, a, ha, b1, b2, b3⟩
    · -- the leader itself: the self acknowledgement of the newest commit moment
      rcases h.head_ev m with ⟨e0, _⟩ | ⟨ev0, hev0m, hhead, hmax⟩
      · exact absurd e0 hne
      · have hev0 := m.ev ev0 hev0m
        have hlc : LeaderCommit op (x.node i) h.post := by
          refine ⟨C02Sys.SC.isAppend_false op happ, ?_⟩
          have := hev0.1
          omega
        have hT0 : termAt h.post.log.entries h.post.commitIndex = T := by rw [hhead]; exact hev0.2.2.2.2.1.2.2
        have hle : ev.ci ≤ ev0.ci := hmax ev hev
        refine ⟨⟨i, T, ev0.ci, T⟩, ?_, by rw [e, h.nid_pre], rfl, ?_⟩
        · apply List.mem_append_left
          apply List.mem_append_right
          apply List.mem_append_left
          unfold selfAck
          rw [if_pos hlc, hT0, hhead]
          exact List.mem_singleton.mpr rfl
        · exact h.panc hci hev0.2.2.2.2.1 hle
    · -- another voter: the acknowledgement that backs its match index
      have hah := ack_on_leaderM hI h.side.tree hl (List.mem_append_left _ ha) b2
      obtain ⟨es, te, _, hle⟩ := h.newM happ
      have hah' : Holds h.post.log.entries a.index a.eterm := by
        rw [hle]; exact holds_prefix (List.prefix_append _ _) hah
      refine ⟨a, List.mem_append_left _ (h.ext.acks a ha), b1, by rw [b2, hT]; rfl, ?_⟩
      exact h.panc hci hah' (by show ev.ci ≤ a.index; omega)

/-- the newest commit moment carries the commit index after the step; the others lie below -/
theorem ev_le_post (h : SM x G i op ra ord src) {T : Nat} {L : List CEvt}
    (m : MEvs (x.node i) (Commit.Backed x.cm i) h.post T L) {ev : CEvt} (hev : ev ∈ L) :
    ev.ci ≤ h.post.commitIndex := by
  rcases h.head_ev m with ⟨e, _⟩ | ⟨ev0, _, e1, e2⟩
  · rw [e] at hev; cases hev
  · rw [e1]; exact e2 ev hev

/-- two leaders of one term are one node -/
theorem leaders_same (hI : MInv x G) (hS : SideT x) {a b : Nat} (ha : (x.node a).role = .leader)
    (hb : (x.node b).role = .leader) (ht : (x.node a).term = (x.node b).term) : a = b := by
  have lo := hI.node.ldr a ha
  have hlen : 1 ≤ (x.node a).log.entries.length := Nat.le_trans lo.start lo.startLe
  have hz : Holds (x.node a).log.entries (x.node a).log.entries.length (x.node a).term :=
    ⟨hlen, Nat.le_refl _, lo.own _ lo.startLe (Nat.le_refl _)⟩
  obtain ⟨z, hzT, hzk⟩ := log_recordM hI a hz
  have hzt : z.e.term = (x.node a).term := by
    unfold key at hzk; simp only [Prod.mk.injEq] at hzk; exact hzk.2
  have h1 := creator_is_leaderM hI hS ha hzT hzt
  have h2 := creator_is_leaderM hI hS hb hzT (hzt.trans ht)
  exact h1.symm.trans h2

/-- **the commit records** after a completed step that is not an append request: the commit moments of the step are
added -/
theorem recM_step (h : SM x G i op ra ord src) (happ : ∀ q, op ≠ .append q) {T : Nat} {L : List CEvt}
    (m : MEvs (x.node i) (Commit.Backed x.cm i) h.post T L) (E' : List El) :
    RecM h.y ⟨G.root, L.map (recOf T) ++ G.R, E', G.SA⟩ := by
  have hI := h.inv
  have hE := h.ext
  have hni := h.node_i
  obtain ⟨es, te, hN, hle⟩ := h.newM happ
  have hmem : ∀ r ∈ L.map (recOf T) ++ G.R, (∃ ev ∈ L, r = recOf T ev) ∨ r ∈ G.R := by
    intro r hr
    rcases List.mem_append.mp hr with hr | hr
    · obtain ⟨ev, hev, rfl⟩ := List.mem_map.mp hr
      exact Or.inl ⟨ev, hev, rfl⟩
    · exact Or.inr hr
  have hlenle : (x.node i).log.entries.length ≤ h.post.log.entries.length := by
    rw [hle, List.length_append]; omega
  have hcim := (h.nst happ).cim
  refine ⟨fun r hr => ?_, fun r hr r' hr' ht hlt => ?_, fun m' hm' => ?_, fun c hc hty h0 => ?_,
    fun j hl hst => ?_, fun c hc h0 r hr => ?_, fun j hl r hr ht => ?_⟩
  · rcases hmem r hr with ⟨ev, hev, rfl⟩ | ho
    · exact h.recOK_new happ m hev
    · exact h.recOK_old (hI.recs.recd r ho)
  · -- monotone
    rcases hmem r hr with ⟨ev, hev, rfl⟩ | ho <;> rcases hmem r' hr' with ⟨ev', hev', rfl⟩ | ho'
    · show ev.ci ≤ ev'.ci
      have hlt' : ev.len < ev'.len := hlt
      rcases pairwise_cases m.sorted ev hev ev' hev' with e | ⟨_, e⟩ | ⟨e, _⟩
      · rw [e] at hlt'; omega
      · omega
      · omega
    · exfalso
      obtain ⟨hl, hT⟩ := h.ev_leader m (List.ne_nil_of_mem hev)
      have hb := (hI.recs.bound i hl r' ho' (by rw [← ht]; exact hT)).2
      have := (m.ev ev hev).2.2.1
      have hlt' : ev.len < r'.l.1 := hlt
      omega
    · obtain ⟨hl, hT⟩ := h.ev_leader m (List.ne_nil_of_mem hev')
      have hb := (hI.recs.bound i hl r ho (by rw [ht]; exact hT)).1
      have := (m.ev ev' hev').1
      show r.m.1 ≤ ev'.ci
      omega
    · exact hI.recs.mono r ho r' ho' ht hlt
  · -- the ledger `committed`
    rcases List.mem_append.mp hm' with hn | ho
    · unfold newCommit at hn
      split at hn
      · rename_i hlc
        have hlc2 : (x.node i).commitIndex < h.post.commitIndex := hlc.2
        rcases h.head_ev m with ⟨_, e⟩ | ⟨ev0, hev0m, hhead, _⟩
        · omega
        · have hev0 := m.ev ev0 hev0m
          have hT0 : termAt h.post.log.entries h.post.commitIndex = T := by rw [hhead]; exact hev0.2.2.2.2.1.2.2
          refine ⟨recOf T ev0, List.mem_append_left _ (List.mem_map.mpr ⟨ev0, hev0m, rfl⟩), ?_⟩
          rw [List.mem_singleton.mp hn]
          show (ev0.ci, T) = (h.post.commitIndex, termAt h.post.log.entries h.post.commitIndex)
          rw [hT0, hhead]
      · cases hn
    · obtain ⟨r, hr, e⟩ := hI.recs.cover m' ho
      exact ⟨r, List.mem_append_right _ hr, e⟩
  · -- configuration entries created by nodes
    rcases hN.mem_T hc with hn | ho
    · obtain ⟨c1, c2, c3, c4, hne⟩ := hN.mem_new hn
      have hch := hN.new_holds hn
      rw [hni] at hch
      have hcm : c.e ∈ h.post.log.entries := by rw [hle]; exact List.mem_append_right _ c2
      obtain ⟨P, ci, p1, p2, p3, p4⟩ := m.chg c.e hcm c4 hty
      have hPT := prevT_of_log h.ry i c.e.index (by rw [hni]; exact hch.2.1) (by rw [hni]; exact p1)
      rw [hni, hch.2.2] at hPT
      have hPh : Holds h.post.log.entries P.index P.term := h.pholds hPT.2.1 hch
      have hcT : c.e.term = T := m.newT c.e hcm c4
      rcases p4 with ⟨e1, hl, hst⟩ | ⟨ev, hev, e1, e2⟩
      · obtain ⟨r, hr, r1, r2⟩ := hI.recs.lead i hl (by rw [← e1]; exact hst)
        have lo := hI.node.ldr i hl
        have hTe : T = (x.node i).term := by
          have hcl : ci ≤ (x.node i).log.entries.length := by rw [e1]; exact ciLeM hI i
          have := lo.own ci hst hcl
          have h2 := p2.2.2
          rw [hle, termAt_append_left _ _ _ hcl] at h2
          omega
        refine ⟨(P.index, P.term), r, List.mem_append_right _ hr, hPT, by rw [r1, hcT]; exact hTe.symm, by omega, ?_⟩
        rw [r1, ← e1, ← hTe]
        exact h.panc hPh p2 p3
      · refine ⟨(P.index, P.term), recOf T ev, List.mem_append_left _ (List.mem_map.mpr ⟨ev, hev, rfl⟩), hPT,
          hcT.symm, e2, ?_⟩
        show Anc _ _ (ev.ci, T)
        rw [e1]
        exact h.panc hPh p2 p3
    · obtain ⟨P, r, hr, hP, r1, r2, r3⟩ := hI.recs.chain c ho hty h0
      obtain ⟨p, hp, hh⟩ := hI.tree.pathc c ho
      exact ⟨P, r, List.mem_append_right _ hr, prevT_mono hE.T h.ry.uniq ⟨p, hp, hh⟩ hP, r1, r2, hE.anc r3⟩
  · -- the standing record of a leader
    by_cases hj : j = i
    · subst hj
      rw [hni] at hl hst ⊢
      rcases (h.nst happ).start hl (h.leader_pre hl).2 with ⟨s1, s2, s3⟩ | s
      · rcases h.head_ev m with ⟨_, e⟩ | ⟨ev0, hev0, hhead, _⟩
        · obtain ⟨r, hr, r1, r2⟩ := hI.recs.lead j s1 (by rw [← e, ← s3]; exact hst)
          exact ⟨r, List.mem_append_right _ hr, by rw [r1, e, s2], by omega⟩
        · obtain ⟨_, hT⟩ := h.ev_leader m (List.ne_nil_of_mem hev0)
          refine ⟨recOf T ev0, List.mem_append_left _ (List.mem_map.mpr ⟨ev0, hev0, rfl⟩), ?_, (m.ev ev0 hev0).2.2.2.1⟩
          show (ev0.ci, T) = _
          rw [hhead, s2, hT]
      · omega
    · rw [h.node_j hj] at hl hst ⊢
      obtain ⟨r, hr, r1, r2⟩ := hI.recs.lead j hl hst
      exact ⟨r, List.mem_append_right _ hr, r1, r2⟩
  · -- initial entries
    have hco : c ∈ x.cm.T := by
      rcases hN.mem_T hc with hn | ho
      · exact absurd ((hN.mem_new hn).1.symm.trans h0) h.en.rp.id
      · exact ho
    rcases hmem r hr with ⟨ev, hev, rfl⟩ | ho
    · obtain ⟨hl, hT⟩ := h.ev_leader m (List.ne_nil_of_mem hev)
      have := (hI.rp.init0 c hco h0 i).2 (by rw [show (x.cm.rp.el.node i).role = _ from hl]; decide)
      show c.e.term ≤ T
      rw [hT]; exact Nat.le_of_lt this
    · exact hI.recs.init c hco h0 r ho
  · -- the records of a leader's term
    by_cases hj : j = i
    · subst hj
      rw [hni] at hl ht ⊢
      rcases hmem r hr with ⟨ev, hev, rfl⟩ | ho
      · exact ⟨h.ev_le_post m hev, (m.ev ev hev).2.2.2.1⟩
      · rcases h.rstep.leader hl with ⟨s1, s2⟩ | ⟨s1, _, s2⟩ | ne
        · obtain ⟨b1, b2⟩ := hI.recs.bound j s1 r ho (ht.trans s2)
          exact ⟨Nat.le_trans b1 hcim, Nat.le_trans b2 hlenle⟩
        · -- elected in this step: no old record carries the new term
          exfalso
          obtain ⟨_, _, ⟨cl, hcl, hclk, hcl0⟩, _⟩ := hI.recs.recd r ho
          have hclt : cl.e.term = (x.node j).term := by
            have : cl.e.term = r.l.2 := by unfold key at hclk; exact congrArg Prod.snd hclk
            rw [this, ← (hI.recs.recd r ho).1, ht, s2]
          obtain ⟨⟨kb, hkb, b1, b2, b3⟩, _, _, o5⟩ := hI.rp.own cl hcl hcl0
          have hs : Story (x.node j) op (x.node j).term := Or.inr (Or.inl ⟨s1, by assumption, rfl⟩)
          obtain ⟨ki, hki, i1, i2, i3⟩ := C04Member.story_backed hI.rp j op src _ (h.side.q1 j) h.en.rp.real hs
          have hli : cl.cr = j := by
            have := esafeM hI h.side.tree kb hkb ki hki (by rw [b2, i2, hclt]) (by rw [b1, b2]; exact b3)
              (by rw [i1, i2]; exact i3)
            rw [b1, i1] at this
            exact this
          rw [hli] at o5
          have : cl.e.term < (x.node j).term := o5 s1.1
          omega
        · obtain ⟨ec, e1, _, _, e4⟩ := ne.cfg
          have := e4 hl
          rw [e1 (h.side.boot j)] at this
          exact absurd this (h.side.q1 j)
    · rw [h.node_j hj] at hl ht ⊢
      rcases hmem r hr with ⟨ev, hev, rfl⟩ | ho
      · exfalso
        obtain ⟨hli, hT⟩ := h.ev_leader m (List.ne_nil_of_mem hev)
        have ht' : T = (x.node j).term := ht
        exact hj (leaders_same hI h.side.tree hl hli (by rw [← ht', hT]))
      · exact hI.recs.bound j hl r ho ht

/-- **the commit records** after a step handling an append request: nothing is added -/
theorem recM_app {q : AppendReq} (h : SM x G i (.append q) ra ord src) : RecM h.y G := by
  have hI := h.inv
  have hT : h.y.cm.T = x.cm.T := rfl
  have hpost : ∀ (P : Node → Prop), h.post.role = .leader → P (x.node i) →
      (∀ s : Node, s.log = (x.node i).log → s.term = (x.node i).term → s.commitIndex = (x.node i).commitIndex →
        s.ldr = (x.node i).ldr → s.role = (x.node i).role → P (x.node i) → P s) → P h.post := by
    intro P hl hp hc
    by_cases hst : q.term < (x.node i).term
    · obtain ⟨s1, s2, _, s4, _, s6, _, s8, _⟩ := append_stale _ q ra ord hst
      exact hc _ s1 s2 s4 s8 s6 hp
    · have := append_step_role _ q ra ord hst
      rw [show h.post.role = _ from this] at hl; cases hl
  refine ⟨fun r hr => h.recOK_old (hI.recs.recd r hr), hI.recs.mono, fun m' hm' => ?_, by rw [hT]; exact hI.recs.chain,
    fun j hl hst => ?_, by rw [hT]; exact hI.recs.init, fun j hl r hr ht => ?_⟩
  · have : m' ∈ newCommit (.append q) (x.node i) h.post ++ x.cm.committed := hm'
    have e : newCommit (.append q) (x.node i) h.post = [] := by
      unfold newCommit LeaderCommit isAppend
      simp
    rw [e] at this
    exact hI.recs.cover m' this
  · by_cases hj : j = i
    · subst hj
      rw [h.node_i] at hl hst ⊢
      by_cases hs : q.term < (x.node j).term
      · obtain ⟨s1, s2, _, s4, _, s6, _, s8, _⟩ := append_stale _ q ra ord hs
        have e1 : h.post.log = _ := s1
        have e2 : h.post.term = _ := s2
        have e4 : h.post.commitIndex = _ := s4
        have e6 : h.post.role = _ := s6
        have e8 : h.post.ldr = _ := s8
        rw [e1, e2, e4]
        rw [e8, e4] at hst
        exact hI.recs.lead j (by rw [← e6]; exact hl) hst
      · have := append_step_role _ q ra ord hs
        rw [show h.post.role = _ from this] at hl; cases hl
    · rw [h.node_j hj] at hl hst ⊢
      exact hI.recs.lead j hl hst
  · by_cases hj : j = i
    · subst hj
      rw [h.node_i] at hl ht ⊢
      by_cases hs : q.term < (x.node j).term
      · obtain ⟨s1, s2, _, s4, _, s6, _⟩ := append_stale _ q ra ord hs
        have e1 : h.post.log = _ := s1
        have e2 : h.post.term = _ := s2
        have e4 : h.post.commitIndex = _ := s4
        have e6 : h.post.role = _ := s6
        rw [e1, e4]
        exact hI.recs.bound j (by rw [← e6]; exact hl) r hr (by rw [← e2]; exact ht)
      · have := append_step_role _ q ra ord hs
        rw [show h.post.role = _ from this] at hl; cases hl
    · rw [h.node_j hj] at hl ht ⊢
      exact hI.recs.bound j hl r hr ht

/-! ### election records -/

/-- an old election record stays a record -/
theorem elOK_old (h : SM x G i op ra ord src) {e : El} (he : ElOK x (acksG x G) e) :
    ElOK h.y (h.y.cm.acks ++ G.SA) e :=
  elOK_mono h.inv h.ext h.ry.uniq (fun k hk => List.mem_append_right _ hk) h.new_acks he

/-- **the election records** after a step handling an append request -/
theorem elM_app {q : AppendReq} (h : SM x G i (.append q) ra ord src) : ElM h.y G := by
  have hT : h.y.cm.T = x.cm.T := rfl
  exact ⟨by rw [hT]; exact h.inv.el.creator, fun e he => h.elOK_old (h.inv.el.elect e he)⟩

/-- **the election records** after a completed step that is not an append request -/
theorem elM_step (h : SM x G i op ra ord src) (happ : ∀ q, op ≠ .append q) (R' : List Rec) :
    ∃ E', ElM h.y ⟨G.root, R', E', G.SA⟩ := by
  obtain ⟨es, te, hN, _⟩ := h.newM happ
  exact hN.elM (fun k hk => List.mem_append_right _ hk) R' G.SA h.new_acks

/-! ### commitment -/

/-- **every node's commit index covers committed entries only**, after a completed step -/
theorem cmtM (h : SM x G i op ra ord src) : CmtM h.y := by
  have hI := h.inv
  have hE := h.ext
  have hR := h.ry
  have hni := h.node_i
  refine ⟨fun j k hk hk2 => ?_⟩
  by_cases hj : j = i
  · subst hj
    rw [hni] at hk2 ⊢
    have hmono := h.vstep.1.1
    -- what is known when the commit index did not move past `k`
    have old : k ≤ (x.node j).commitIndex → h.post.log.entries.take k = (x.node j).log.entries.take k →
        k ≤ h.post.log.entries.length ∧ Cmt h.y.cm (k, termAt h.post.log.entries k) h.post.term := by
      intro hle htk
      obtain ⟨c1, c2⟩ := hI.cmt.cc j k hk hle
      have hl := congrArg List.length htk
      simp only [List.length_take] at hl
      refine ⟨by omega, ?_⟩
      rw [termAt_of_take_eq htk (Nat.le_refl _)]
      exact hE.cmt hmono c2
    rcases op_cases op with happ | ⟨q, rfl⟩
    · obtain ⟨es, te, _, hl⟩ := h.newM happ
      by_cases hle : k ≤ (x.node j).commitIndex
      · refine old hle ?_
        obtain ⟨c1, _⟩ := hI.cmt.cc j k hk hle
        rw [hl, List.take_append_of_le_length c1]
      · -- the commit index moved: the newest commit moment of the step
        have hpan : h.post.panicked = none ∨ (x.node j).role = .follower := h.noPanic
        obtain ⟨T, L, m⟩ := (h.nst happ).evs hpan
        rcases h.head_ev m with ⟨_, e⟩ | ⟨ev0, hev0m, hhead, _⟩
        · omega
        · obtain ⟨a1, _, _, _, hci, _⟩ := m.ev ev0 hev0m
          rw [← hhead] at hci
          have hkl : k ≤ h.post.log.entries.length := Nat.le_trans hk2 hci.2.1
          obtain ⟨s1, _, _⟩ := m.src (Or.inl (List.ne_nil_of_mem hev0m))
          refine ⟨hkl, (h.post.commitIndex, T), ?_, s1, ?_⟩
          · apply List.mem_append_left
            unfold newCommit
            rw [if_pos ⟨C02Sys.SC.isAppend_false op happ, by show (x.node j).commitIndex < h.post.commitIndex; omega⟩,
              hci.2.2]
            exact List.mem_singleton.mpr rfl
          · exact h.panc ⟨hk, hkl, rfl⟩ hci hk2
    · by_cases hst : q.term < (x.node j).term
      · obtain ⟨s1, _, _, s4, _⟩ := append_stale _ q ra ord hst
        rw [show h.post.commitIndex = _ from s4] at hk2
        exact old hk2 (by rw [show h.post.log = _ from s1])
      · obtain ⟨hq, fs⟩ := h.fst hst
        have hnc := reqokM hI h.side.tree (i := j) hq hst
        by_cases hle : k ≤ (x.node j).commitIndex
        · obtain ⟨c1, _⟩ := hI.cmt.cc j k hk hle
          exact old hle (fs.keep k c1 (fun e he hek => hnc e he (by omega))).1
        · rcases fs.ci with c | ⟨_, c2, _, c4, c5⟩
          · rw [c] at hk2; exact absurd hk2 hle
          · have hkl : k ≤ h.post.log.entries.length := Nat.le_trans hk2 c4.2.1
            refine ⟨hkl, ?_⟩
            have hcm : Cmt x.cm (h.post.commitIndex, q.term) q.term := by
              obtain ⟨s1, s2⟩ := hI.sent.cmt q hq
              rcases c5 with ⟨e1, e2⟩ | ⟨e, he, e1, e2⟩
              · have h2 := s2 (by rw [← e1]; exact c4.1) (by rw [← e1]; exact c2)
                rw [e2, ← e1] at h2
                exact h2
              · have h1 := s1 e he (by rw [e1]; exact c2)
                rw [e1, e2] at h1
                exact h1
            obtain ⟨m, hm, m1, m2⟩ := hcm
            refine ⟨m, hE.committed m hm, by rw [show h.post.term = _ from fs.term hst]; exact m1, ?_⟩
            exact (h.panc ⟨hk, hkl, rfl⟩ c4 hk2).trans hR.uniq (hE.anc m2)
  · rw [h.node_j hj] at hk2 ⊢
    obtain ⟨c1, c2⟩ := hI.cmt.cc j k hk hk2
    exact ⟨c1, hE.cmt (Nat.le_refl _) c2⟩

/-! ### configurations and logs -/

/-- **configurations and logs after a completed step** (for ghost ledgers `G'` that extend `G` and cover the ledger
`committed`): every node's latest configuration is still the last configuration entry of its log; it is protected or
pending -/
theorem cfgM (h : SM x G i op ra ord src) (G' : Ghost) (hroot : G'.root = G.root) (hsub : ∀ r ∈ G.R, r ∈ G'.R)
    (hcov : ∀ m ∈ h.y.cm.committed, ∃ r ∈ G'.R, r.m = m) : CfgM h.y G' := by
  have hI := h.inv
  have hE := h.ext
  have hni := h.node_i
  have mono : ∀ j k, (h.y.node j).log.entries.take k = (x.node j).log.entries.take k → ProtG x G j k →
      ProtG h.y G' j k := fun j k ht hp => protG_mono hE.T hroot hsub (hE.term j) ht hp
  have hcc : ∀ k, 1 ≤ k → k ≤ h.post.commitIndex → ProtG h.y G' i k := fun k h1 hk =>
    protG_of_cc h.cmtM hcov h1 (by rw [hni]; exact hk)
  have hpre := nwfM hI i
  have hlat1 : ∀ {es : List Entry} {c : Config}, CfgLast es c → (∀ k (_ : k < es.length), es[k].index = k + 1) →
      1 ≤ c.index := by
    intro es c hcl hct
    obtain ⟨⟨e, he, hec⟩, _⟩ := hcl
    obtain ⟨_, ci, _⟩ := config?_facts hec
    have := (contig_index_le hct e he).1
    omega
  have hne : 1 ≤ (x.node i).log.entries.length := by
    obtain ⟨⟨e, he, _⟩, _⟩ := hI.cfg.cl i
    exact List.length_pos_of_mem he
  have hrootx : ProtG x G i G.root.1 := protG_root (holds_root hI.rp hI.tree.rootA i hne)
  -- node `i`
  have key : CfgLast h.post.log.entries h.post.configs.latest ∧
      (ProtG h.y G' i h.post.configs.latest.index ∨ MemberFollow.Pend h.post.log.entries h.post.configs) ∧
      G.root.1 ≤ h.post.log.flushed := by
    rcases op_cases op with happ | ⟨q, rfl⟩
    · have ns := h.nst happ
      obtain ⟨T, L, m⟩ := ns.evs h.noPanic
      obtain ⟨es, te, _, hl⟩ := h.newM happ
      have hli := (hI.cfg.cl i).index_le (fun x hx => (contig_index_le hpre.contig x hx).2)
      refine ⟨m.cl, ?_, Nat.le_trans (hI.cfg.rootFl i) ns.flush⟩
      rcases m.cmtd with e | e | e
      · rw [show h.post.configs = _ from e]
        rcases hI.cfg.sp i with p | p
        · refine Or.inl (mono i _ ?_ p)
          rw [hni, hl, List.take_append_of_le_length p.2.1]
        · refine Or.inr ⟨p.1, ?_⟩
          rw [hl, List.take_append_of_le_length (by omega)]
          exact p.2
      · exact Or.inl (hcc _ (hlat1 m.cl h.nwf_post.contig) e)
      · exact Or.inr e
    · by_cases hst : q.term < (x.node i).term
      · obtain ⟨e1, e2, e3⟩ := MemberFollow.fcfg_stale (x.node i) q ra ord hst
        have s1 : h.post.log = (x.node i).log := (append_stale _ q ra ord hst).1
        rw [show h.post.log.entries = _ from e1, show h.post.configs = _ from e2, s1]
        refine ⟨hI.cfg.cl i, ?_, hI.cfg.rootFl i⟩
        rcases hI.cfg.sp i with p | p
        · refine Or.inl (mono i _ ?_ p)
          rw [hni, e1]
        · exact Or.inr p
      · obtain ⟨hq, fs⟩ := h.fst hst
        have hQ : ∀ k, ProtG x G i k → k ≤ (x.node i).log.entries.length ∧ NoConf (x.node i) q k :=
          fun k p => ⟨p.2.1, protNoConf hI h.side.tree hq hst p⟩
        have hdec : ∀ e ∈ q.entries, e.typ = etConfig → ∃ c, e.config? = some c := by
          intro e he ht
          obtain ⟨c, hc, hce⟩ := C04Sys.chain_mem (hI.rp.sent q hq).chain e he
          have := h.side.tree.dec c hc (by rw [hce]; exact ht)
          rwa [hce] at this
        have hsp : ProtG x G i (x.node i).configs.latest.index ∨
            (MemberFollow.Pend (x.node i).log.entries (x.node i).configs ∧
              ProtG x G i (x.node i).configs.committed.index) :=
          (hI.cfg.sp i).imp id (fun p => ⟨p, pend_prot hI.rp hI.tree.rootA hI.tree.rootOnly hI.recs.chain
            (hI.node.termLe i) (hI.cfg.cl i) p⟩)
        obtain ⟨R1, R2⟩ := MemberFollow.fcfg (x.node i) q ra ord hpre (hI.node.lwf i) (hI.rp.el.ids i).2
          (hI.rp.sent q hq).idx (Q := ProtG x G i) hQ hdec (hI.cfg.cl i) hsp
        refine ⟨R1, ?_, ?_⟩
        · rcases R2 with a | a | a
          · exact Or.inl (hcc _ (hlat1 R1 h.nwf_post.contig) a)
          · exact Or.inr a
          · refine Or.inl (mono i _ ?_ a)
            rw [hni]
            exact (fs.keep _ a.2.1 (hQ _ a).2).1
        · exact (fs.keep _ hrootx.2.1 (hQ _ hrootx).2).2 (hI.cfg.rootFl i)
  refine ⟨fun j => ?_, fun j => ?_, fun j => ?_⟩
  · by_cases hj : j = i
    · subst hj; rw [hni]; exact key.1
    · rw [h.node_j hj]; exact hI.cfg.cl j
  · by_cases hj : j = i
    · subst hj; rw [hni]; exact key.2.1
    · rw [h.node_j hj]
      rcases hI.cfg.sp j with p | p
      · exact Or.inl (mono j _ (by rw [h.node_j hj]) p)
      · exact Or.inr p
  · by_cases hj : j = i
    · subst hj; rw [hni, hroot]; exact key.2.2
    · rw [h.node_j hj, hroot]; exact hI.cfg.rootFl j

end SM

/-- **a completed step preserves the invariant** (for suitable new ghost ledgers) -/
theorem minv_step {x : Member.Sys} {G : Ghost} (hI : MInv x G) (hS : SideM x) (i : Nat) (op : Op) (ra : List Nat)
    (ord : List (List Nat)) (src : Nat) (he : Member.Enabled x i op src)
    (hnf : (x.node i).role ≠ .follower → ((x.node i).step op ra ord).panicked = none) :
    ∃ G', MInv (stepM x i op ra ord src) G' ∧ G'.root = G.root := by
  have h : SM x G i op ra ord src := ⟨hI, hS, he, hnf⟩
  rcases SM.op_cases op with happ | ⟨q, rfl⟩
  · obtain ⟨T, L, m⟩ := h.evs happ
    obtain ⟨E', hE'⟩ := h.elM_step happ (L.map (SM.recOf T) ++ G.R)
    have t := h.treeM
    exact ⟨⟨G.root, L.map (SM.recOf T) ++ G.R, E', G.SA⟩,
      ⟨h.ry, ⟨t.pathc, t.tmono, t.tbI, t.cu, t.ownLog, t.rootC, t.rootA, t.rootOnly, t.initLt⟩, h.nodeM, h.sentM,
        h.ackM, h.voteM, h.recM_step happ m E', hE', h.cmtM,
        h.cfgM ⟨G.root, L.map (SM.recOf T) ++ G.R, E', G.SA⟩ rfl (fun r hr => List.mem_append_right _ hr)
          (h.recM_step happ m E').cover⟩, rfl⟩
  · exact ⟨G, ⟨h.ry, h.treeM, h.nodeM, h.sentM, h.ackM, h.voteM, h.recM_app, h.elM_app, h.cmtM,
      h.cfgM G rfl (fun r hr => hr) h.recM_app.cover⟩, rfl⟩

end MemberStep
end Raft
