/-
C10 on the cluster-level system WITH MEMBERSHIP CHANGES (Sys/Member.lean, runs of `C08Member.ReachableR`), lemmas:
* `restarted_member`   — at every crash point of every step `MemberSide.TransR` admits (an enabled, well-formed operation
                         delivered to an open node; between two steps for a closed node) the restart succeeds and yields a
                         `RestartSys.Restarted` node — for a node that tracks (`C12Track.Tracks`) and has a cluster id;
* `tracks_transR`, `tracks_runR` — `C12Track.Tracks` on every node is preserved by every transition (completed steps,
                         configuration entries appended / truncated included; crashes at every storage point + restart);
* `grants_runR`        — the ledger of granted votes only grows.
-/
import RaftVerif.Lemmas.RestartSysB
import RaftVerif.Lemmas.MemberDurableRun

namespace Raft
namespace RestartSys
open Node Election LogRel Replication CommitRel Commit Member MemberCore QuorumRel MemberInv MemberCommit MemberStep
open MemberSide C08Member MemberDurable MemberGood NoPanic TrackCrash

section
variable {root : K} {x y : Member.Sys} {G : Ghost}

/-- a node of a reachable state that tracks and has a cluster id satisfies `C12Crash.CrashInv` (there are no snapshots in
this system: the label is the zero configuration) -/
theorem crashInv_member (h : RS root x G) (i : Nat) (hi : i ≠ 0) (ht : C12Track.Tracks (x.node i))
    (hcid : (x.node i).cid ≠ 0) : C12Crash.CrashInv (x.node i) := by
  have hn := nwfM h.inv i
  have hg := h.xinv.good i
  refine ⟨ht, hg.ordered, ⟨h.inv.node.lwf i, ?_, hg.glob.logDec⟩, hcid, by rw [(h.inv.rp.el.ids i).1]; exact hi⟩
  unfold Track.label
  rw [hn.snaps]
  exact Nat.zero_le _

/-- an operation the system delivers does not run the snapshot goroutine -/
theorem snapFbOp_member {i : Nat} {op : Op} {src : Nat} (he : Member.Enabled x i op src) : SnapFbOp (x.node i) op := by
  have hok : LogRel.OpOK op := he.rp.ok
  cases op <;> first | trivial | exact hok.elim

/-- … and its configuration entries decode -/
theorem reqDec_member {s : Node} {op : Op} (hr : ReqOk' true s op) : ReqDec s op := by
  cases op <;> try trivial
  case append q =>
    rcases hr with h | h
    · exact Or.inl h
    · right
      intro ne hne htc
      obtain ⟨c, hc, _⟩ := (h.2 ne hne htc).get
      rw [hc]; rfl

/-- **the restart from every crash image `TransR` admits succeeds and yields a `Restarted` node** -/
theorem restarted_member (h : RS root x G) {i : Nat} {op : Op} {src : Nat} (he : Member.Enabled x i op src)
    (hg : ReqG x i op) (ra : List Nat) (ord : List (List Nat)) (k : Nat)
    (hopen : (x.node i).closed = "" ∨ k = 0) (ht : C12Track.Tracks (x.node i)) (hcid : (x.node i).cid ≠ 0)
    (r : Nat) (hret : 1 ≤ r) (sor : Bool) :
    ∃ n, Node.restart (C05.crashDisk (x.node i) op ra ord k) r sor = some n ∧
      Restarted (x.node i) (C05.crashDisk (x.node i) op ra ord k) n := by
  have hci := crashInv_member h i he.rp.id ht hcid
  have hwf : C05.VoteWF (x.node i) := (h.inv.rp.el.ids i).2
  rcases hopen with ho | hk
  · have hr := reqok h.inv h.xinv he hg
    have hp := (C15NoPanic.good_step_two _ op ra ord (h.xinv.good i) ho hr).1
    exact restarted_of_crash (x.node i) op ra ord k r sor hci hwf hr.toReqOk (reqDec_member hr) (snapFbOp_member he) hp
      hret
  · subst hk
    have hp' : ((x.node i).step (.disconnected 0) ra ord).panicked = none := by
      rw [MemberSide.step_disconnected0]; rfl
    have e : C05.crashDisk (x.node i) op ra ord 0 = C05.crashDisk (x.node i) (.disconnected 0) ra ord 0 := rfl
    rw [e]
    exact restarted_of_crash (x.node i) (.disconnected 0) ra ord 0 r sor hci hwf trivial trivial trivial hp' hret

/-- **every transition preserves "every node tracks"** -/
theorem tracks_transR (h : RS root x G) (hT : ∀ i, C12Track.Tracks (x.node i)) (ht : TransR x y) :
    ∀ i, C12Track.Tracks (y.node i) := by
  cases ht with
  | step i op ra ord src he hg ho =>
    intro j
    show C12Track.Tracks (setNode x.cm.rp.el.node i ((x.node i).step op ra ord) j)
    by_cases hj : j = i
    · subst hj
      rw [setNode_same]
      have hr := reqok h.inv h.xinv he hg
      have hp := (C15NoPanic.good_step_two _ op ra ord (h.xinv.good j) ho hr).1
      exact C12Track.tracks_step _ op ra ord (hT j) (h.xinv.good j).ordered hr.toReqOk hp
    · rw [setNode_other _ _ _ _ hj]; exact hT j
  | crash i op ra ord src k retain sor n he hg ho hret hn =>
    intro j
    show C12Track.Tracks (setNode x.cm.rp.el.node i n j)
    by_cases hj : j = i
    · subst hj
      rw [setNode_same]
      have hcid : (x.node j).cid ≠ 0 := by
        have := (C10.restart_some _ _ _ _ hn).1
        rwa [SysMore.crashDisk_cid] at this
      obtain ⟨n', hn', hR⟩ := restarted_member h he hg ra ord k ho (hT j) hcid retain hret sor
      rw [hn] at hn'
      injection hn' with hn'
      rw [hn']; exact hR.tracks
    · rw [setNode_other _ _ _ _ hj]; exact hT j
  | send i q hi hl hr hc => exact hT

/-- … and every run -/
theorem tracks_runR (hx : ReachableR root x) (hT : ∀ i, C12Track.Tracks (x.node i)) (hrun : RunR x y) :
    ∀ i, C12Track.Tracks (y.node i) := by
  induction hrun with
  | refl => exact hT
  | next y z hxy ht ih =>
    obtain ⟨G, hy, _⟩ := rs_of (run_reachable hx hxy)
    exact tracks_transR hy ih ht

/-- the ledger of granted votes only grows -/
theorem grants_transR (ht : TransR x y) : ∀ g ∈ x.el.grants, g ∈ y.el.grants := by
  cases ht with
  | step i op ra ord src he hg ho => exact fun g hg' => List.mem_append_right _ (List.mem_append_right _ hg')
  | crash i op ra ord src k retain sor n he hg ho hret hn => exact fun g hg' => hg'
  | send i q hi hl hr hc => exact fun g hg' => hg'

theorem grants_runR (hrun : RunR x y) : ∀ g ∈ x.el.grants, g ∈ y.el.grants := by
  induction hrun with
  | refl => exact fun _ h => h
  | next y z _ ht ih => exact fun g hg => grants_transR ht g (ih g hg)

/-- the cluster id of a node never changes -/
theorem cid_transR (ht : TransR x y) (j : Nat) : (y.node j).cid = (x.node j).cid := by
  cases ht with
  | step i op ra ord src he hg ho =>
    show (setNode x.cm.rp.el.node i ((x.node i).step op ra ord) j).cid = _
    by_cases hj : j = i
    · subst hj; rw [setNode_same]; exact SysMore.step_cid _ _ _ _
    · rw [setNode_other _ _ _ _ hj]
  | crash i op ra ord src k retain sor n he hg ho hret hn =>
    show (setNode x.cm.rp.el.node i n j).cid = _
    by_cases hj : j = i
    · subst hj; rw [setNode_same, SysMore.restart_cid _ _ _ _ hn, SysMore.crashDisk_cid]
    · rw [setNode_other _ _ _ _ hj]
  | send i q hi hl hr hc => rfl

theorem cid_runR (hrun : RunR x y) (j : Nat) : (y.node j).cid = (x.node j).cid := by
  induction hrun with
  | refl => rfl
  | next y z _ ht ih => rw [cid_transR ht j, ih]

end

end RestartSys
end Raft
