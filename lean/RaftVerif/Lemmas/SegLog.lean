import RaftVerif.Model.SegLog
/-!
Helper lemmas for C13 / C14 (segmented log).  Core Lean only.
-/
namespace Raft.SL

@[simp] theorem flatChunks_ok (c : List Bytes) : flatChunks (.ok c) = .ok c.flatten := rfl
@[simp] theorem flatChunks_error (e : Err) : flatChunks (.error e) = .error e := rfl

/-! ## dataSize -/

theorem dataSize_append (a b : List Bytes) : dataSize (a ++ b) = dataSize a + dataSize b := by
  induction a with
  | nil => simp [dataSize]
  | cons x xs ih => simp [dataSize, ih]; omega

theorem dataSize_take_le (a : List Bytes) (k : Nat) : dataSize (a.take k) ≤ dataSize a := by
  induction a generalizing k with
  | nil => simp [dataSize]
  | cons x xs ih =>
    cases k with
    | zero => simp [dataSize]
    | succ k => simp [dataSize]; exact ih k

/-! ## Invariant -/

/-- Per segment: data and offset table (slots `0..n+1`) do not overlap; `0 ≤ synced ≤ n`. -/
def SegOK (s : Seg) : Prop :=
  s.size + 8 * (s.n + 2) ≤ s.cap ∧ 0 ≤ s.synced ∧ s.synced ≤ (s.n : Int)

/-- The segments behind a segment whose prevIndex is `p`: chained, non-empty, not dirty. -/
def Chain : Nat → List Seg → Prop
  | _, [] => True
  | p, a :: rest => a.prev + a.n = p ∧ 0 < a.n ∧ a.synced = (a.n : Int) ∧ SegOK a ∧ Chain a.prev rest

/-- C13 invariant. -/
def Inv (l : SegLog) : Prop :=
  SegOK l.last ∧ Chain l.last.prev l.older ∧ 1024 ≤ l.segmentSize

/-- prevIndex of the oldest segment of a chain hanging below `p`. -/
def chainPrev : Nat → List Seg → Nat
  | p, [] => p
  | _, a :: rest => chainPrev a.prev rest

theorem lastD_prev (older : List Seg) (s : Seg) : (lastD older s).prev = chainPrev s.prev older := by
  induction older generalizing s with
  | nil => rfl
  | cons a rest ih => simp [lastD, chainPrev, ih]

theorem prevIndex_eq (l : SegLog) : l.prevIndex = chainPrev l.last.prev l.older := by
  simp [SegLog.prevIndex, SegLog.first, lastD_prev]

theorem chain_len {p : Nat} {older : List Seg} (h : Chain p older) :
    chainPrev p older + (absEntries older).length = p := by
  induction older generalizing p with
  | nil => simp [chainPrev, absEntries]
  | cons a rest ih =>
    obtain ⟨h1, _, _, _, h5⟩ := h
    have := ih h5
    simp [chainPrev, absEntries, Seg.n] at *
    omega

theorem chainPrev_le {p : Nat} {older : List Seg} (h : Chain p older) : chainPrev p older ≤ p := by
  have := chain_len h; omega

theorem abs_lastIndex {l : SegLog} (h : Inv l) : (abs l).lastIndex = l.lastIndex := by
  have := chain_len h.2.1
  simp [AbsLog.lastIndex, abs, SegLog.segs, absEntries, prevIndex_eq, SegLog.lastIndex, Seg.lastIndex, Seg.n] at *
  omega

theorem abs_prev (l : SegLog) : (abs l).prev = l.prevIndex := rfl

theorem abs_count {l : SegLog} (h : Inv l) : (abs l).count = l.count := by
  have := abs_lastIndex h
  simp [AbsLog.count, SegLog.count, AbsLog.lastIndex, abs_prev] at *
  omega

theorem abs_contains {l : SegLog} (h : Inv l) (i : Nat) : (abs l).contains i = l.contains i := by
  simp [AbsLog.contains, SegLog.contains, abs_lastIndex h, abs_prev]


/-! ## Segment level -/

@[simp] theorem sync_prev (s : Seg) : s.sync.prev = s.prev := by unfold Seg.sync; split <;> rfl
@[simp] theorem sync_entries (s : Seg) : s.sync.entries = s.entries := by unfold Seg.sync; split <;> rfl
@[simp] theorem sync_cap (s : Seg) : s.sync.cap = s.cap := by unfold Seg.sync; split <;> rfl
@[simp] theorem sync_n (s : Seg) : s.sync.n = s.n := by simp [Seg.n]
@[simp] theorem sync_size (s : Seg) : s.sync.size = s.size := by simp [Seg.size]

theorem sync_synced {s : Seg} (h : s.synced ≤ (s.n : Int)) : s.sync.synced = (s.n : Int) := by
  unfold Seg.sync Seg.dirty
  split
  · rfl
  · simp_all; omega

theorem sync_ok {s : Seg} (h : SegOK s) : SegOK s.sync := by
  obtain ⟨h1, h2, h3⟩ := h
  refine ⟨by simpa using h1, ?_, ?_⟩ <;> rw [sync_synced h3] <;> simp

theorem sync_not_dirty {s : Seg} (h : s.synced ≤ (s.n : Int)) : s.sync.dirty = false := by
  simp [Seg.dirty, sync_synced h]

theorem sync_id {s : Seg} (h : s.synced = (s.n : Int)) : s.sync = s := by
  simp [Seg.sync, Seg.dirty, h]

theorem fresh_ok {p cap : Nat} (h : 16 ≤ cap) : SegOK (Seg.fresh p cap) := by
  simp [SegOK, Seg.fresh, Seg.size, Seg.n, dataSize]; omega

theorem append_ok {s : Seg} {b : Bytes} (h : SegOK s) (ha : (b.length : Int) ≤ s.available) :
    SegOK (s.append b) := by
  obtain ⟨h1, h2, h3⟩ := h
  simp [SegOK, Seg.append, Seg.size, Seg.n, Seg.available, Seg.slotAt, dataSize_append, dataSize] at *
  omega

/-- `segment_layout` core: when `append` is called with `len b ≤ available()`, the data store
`[size, size+len b)` ends at or below the slot `n+2` it is about to write, i.e. below the whole
offset table / header region `[at(n+2), cap)`. -/
theorem append_layout {s : Seg} {b : Bytes} (ha : (b.length : Int) ≤ s.available) :
    ((s.size + b.length : Nat) : Int) ≤ s.slotAt (s.n + 2) := by
  simp [Seg.available] at ha; omega

theorem removeGTE_entries (s : Seg) (i : Nat) :
    (s.removeGTE i).entries = s.entries.take (i - s.prev - 1) := by
  unfold Seg.removeGTE
  split
  · simp
  · rename_i h; simp [Seg.n] at h ⊢; exact (List.take_of_length_le h).symm

@[simp] theorem removeGTE_prev (s : Seg) (i : Nat) : (s.removeGTE i).prev = s.prev := by
  unfold Seg.removeGTE; split <;> simp

@[simp] theorem removeGTE_cap (s : Seg) (i : Nat) : (s.removeGTE i).cap = s.cap := by
  unfold Seg.removeGTE; split <;> simp

theorem removeGTE_ok {s : Seg} (h : SegOK s) (i : Nat) : SegOK (s.removeGTE i) := by
  unfold Seg.removeGTE
  split
  · rename_i hlt
    obtain ⟨h1, h2, h3⟩ := h
    have hs : dataSize (s.entries.take (i - s.prev - 1)) ≤ dataSize s.entries := dataSize_take_le _ _
    have hn : (List.take (i - s.prev - 1) s.entries).length = i - s.prev - 1 := by
      simp [Seg.n] at hlt; simp; omega
    have hd : ({ s with entries := s.entries.take (i - s.prev - 1), synced := -1 } : Seg).synced ≤
        (({ s with entries := s.entries.take (i - s.prev - 1), synced := -1 } : Seg).n : Int) := by
      simp [Seg.n]
    refine ⟨?_, ?_, ?_⟩
    · simp [Seg.size, Seg.n] at *; omega
    · rw [sync_synced hd]; simp
    · rw [sync_synced hd]; simp
  · exact sync_ok h

theorem removeGTE_synced {s : Seg} (h : s.synced ≤ (s.n : Int)) (i : Nat) :
    (s.removeGTE i).synced = ((s.removeGTE i).n : Int) := by
  unfold Seg.removeGTE
  split
  · rename_i hlt
    have hd : ({ s with entries := s.entries.take (i - s.prev - 1), synced := -1 } : Seg).synced ≤
        (({ s with entries := s.entries.take (i - s.prev - 1), synced := -1 } : Seg).n : Int) := by
      simp [Seg.n]
    rw [sync_synced hd]; simp
  · rw [sync_synced h]; simp

/-! ## commit -/

theorem chain_head_clean {p : Nat} {older : List Seg} (h : Chain p older) (n : Nat) :
    commitSegs n older = older := by
  cases older with
  | nil => rfl
  | cons a rest =>
    obtain ⟨_, _, h3, _, _⟩ := h
    simp [commitSegs, Seg.dirty, h3]

theorem chain_commitSteps {p : Nat} {older : List Seg} (h : Chain p older) (n : Nat) :
    commitSteps n older = [] := by
  cases older with
  | nil => rfl
  | cons a rest =>
    obtain ⟨_, _, h3, _, _⟩ := h
    simp [commitSteps, Seg.dirty, h3]

/-- Shape of `commitN` on an `Inv` state: only `last` can change, and only by a `sync`. -/
theorem commitN_shape {l : SegLog} (h : Inv l) (n : Nat) :
    l.commitN n = l ∨ l.commitN n = { l with last := l.last.sync } := by
  unfold SegLog.commitN
  rw [chain_head_clean h.2.1]
  split
  · left; rfl
  · split
    · left; rfl
    · right; rfl

theorem commit_eq {l : SegLog} (h : Inv l) : l.commit = { l with last := l.last.sync } := by
  unfold SegLog.commit SegLog.commitN
  rw [chain_head_clean h.2.1]
  split
  · rename_i hd
    have : l.last.sync = l.last := by simp [Seg.sync]; intro h'; simp [h'] at hd
    rw [this]
  · split
    · rename_i hd hge
      simp [SegLog.lastIndex, Seg.lastIndex] at hge
      have h3 := h.1.2.1
      have : l.last.n = 0 := by omega
      simp [Seg.dirty, this] at hd
      omega
    · rfl

theorem inv_sync_last {l : SegLog} (h : Inv l) : Inv { l with last := l.last.sync } := by
  refine ⟨sync_ok h.1, ?_, h.2.2⟩
  simpa using h.2.1

theorem abs_sync_last (l : SegLog) : abs { l with last := l.last.sync } = abs l := by
  simp [abs, SegLog.prevIndex, SegLog.first, SegLog.segs, absEntries, lastD_prev]

theorem commitN_inv {l : SegLog} (h : Inv l) (n : Nat) : Inv (l.commitN n) := by
  rcases commitN_shape h n with e | e <;> rw [e]
  · exact h
  · exact inv_sync_last h

theorem commitN_abs {l : SegLog} (h : Inv l) (n : Nat) : abs (l.commitN n) = abs l := by
  rcases commitN_shape h n with e | e <;> rw [e]
  exact abs_sync_last l

theorem commit_inv {l : SegLog} (h : Inv l) : Inv l.commit := commitN_inv h _
theorem commit_abs {l : SegLog} (h : Inv l) : abs l.commit = abs l := commitN_abs h _


/-! ## append / reset -/

theorem abs_eq (l : SegLog) :
    abs l = { prev := chainPrev l.last.prev l.older, entries := absEntries l.older ++ l.last.entries } := by
  simp [abs, prevIndex_eq, SegLog.segs, absEntries]

theorem append_refines {l : SegLog} (h : Inv l) (b : Bytes) :
    (∃ l', l.append b = .ok l' ∧ Inv l' ∧ abs l' = (abs l).snoc b) ∨
    (l.append b = .error .exceedsSegmentSize ∧ l.last.n = 0 ∧ l.last.available < (b.length : Int)) := by
  unfold SegLog.append
  by_cases hav : l.last.available < (b.length : Int)
  · by_cases hn : l.last.n = 0
    · right; simp [hav, hn]
    · left
      simp only [hav, hn, if_true, if_false]
      refine ⟨_, rfl, ?_, ?_⟩
      · rw [commit_eq h]
        refine ⟨?_, ?_, ?_⟩
        · apply append_ok (fresh_ok (by split <;> omega))
          simp [Seg.available, Seg.slotAt, Seg.fresh, Seg.size, Seg.n, dataSize]
          split <;> omega
        · have h3 := h.1.2.2
          refine ⟨?_, by simp; omega, by rw [sync_synced h3]; simp, sync_ok h.1, by simpa using h.2.1⟩
          simp [Seg.append, Seg.fresh, SegLog.lastIndex, Seg.lastIndex]
        · have := h.2.2
          simp only []
          split <;> omega
      · rw [commit_eq h]
        simp [abs_eq, AbsLog.snoc, Seg.append, Seg.fresh, chainPrev, absEntries]
  · left
    simp only [hav, if_false]
    refine ⟨_, rfl, ⟨append_ok h.1 (by omega), by simpa [Seg.append] using h.2.1, h.2.2⟩, ?_⟩
    simp [abs_eq, AbsLog.snoc, Seg.append]

theorem reset_refines {l : SegLog} (h : Inv l) (j : Nat) :
    Inv (l.reset j) ∧ abs (l.reset j) = AbsLog.reset j := by
  have := h.2.2
  refine ⟨⟨fresh_ok (by omega), by simp [SegLog.reset, Chain], h.2.2⟩, ?_⟩
  simp [abs_eq, SegLog.reset, AbsLog.reset, chainPrev, absEntries, Seg.fresh]

theorem closeOpen_refines {l : SegLog} (h : Inv l) {ss : Nat} (hs : 1024 ≤ ss) :
    Inv (l.closeOpen ss) ∧ abs (l.closeOpen ss) = abs l := by
  have hc := commit_inv h
  refine ⟨⟨hc.1, hc.2.1, hs⟩, ?_⟩
  have := commit_abs h
  simpa [abs_eq, SegLog.closeOpen] using this

/-! ## removeGTE -/

theorem take_min_last (es : List Bytes) (i p : Nat) :
    es.take (min i (p + es.length + 1) - p - 1) = es.take (i - p - 1) := by
  by_cases h : i ≤ p + es.length + 1
  · rw [Nat.min_eq_left h]
  · rw [Nat.min_eq_right (by omega), List.take_of_length_le (by omega), List.take_of_length_le (by omega)]

theorem rgte_spec (i ss : Nat) (hss : 16 ≤ ss) (older : List Seg) :
    ∀ (s : Seg), SegOK s → Chain s.prev older →
      SegOK (rgte i ss s older).1 ∧ Chain (rgte i ss s older).1.prev (rgte i ss s older).2 ∧
      (rgte i ss s older).1.synced = ((rgte i ss s older).1.n : Int) ∧
      (⟨chainPrev (rgte i ss s older).1.prev (rgte i ss s older).2,
        absEntries (rgte i ss s older).2 ++ (rgte i ss s older).1.entries⟩ : AbsLog) =
      AbsLog.removeGTE ⟨chainPrev s.prev older, absEntries older ++ s.entries⟩ i := by
  induction older with
  | nil =>
    intro s hs _
    unfold rgte
    by_cases h1 : i ≤ s.prev + 1
    · by_cases h2 : i = s.prev + 1
      · rw [if_pos h1, if_pos h2]
        refine ⟨removeGTE_ok hs _, by simp [Chain], removeGTE_synced hs.2.2 _, ?_⟩
        simp [removeGTE_entries, chainPrev, absEntries, AbsLog.removeGTE, h2]
      · rw [if_pos h1, if_neg h2]
        refine ⟨fresh_ok hss, by simp [Chain], by simp [Seg.fresh, Seg.n], ?_⟩
        have : i ≤ s.prev := by omega
        simp [chainPrev, absEntries, AbsLog.removeGTE, Seg.fresh, this]
    · rw [if_neg h1]
      refine ⟨removeGTE_ok hs _, by simp [Chain], removeGTE_synced hs.2.2 _, ?_⟩
      have : ¬ i ≤ s.prev := by omega
      simp [removeGTE_entries, chainPrev, absEntries, AbsLog.removeGTE, this, Seg.lastIndex, Seg.n,
        take_min_last]
  | cons o os ih =>
    intro s hs hc
    obtain ⟨c1, c2, c3, c4, c5⟩ := hc
    unfold rgte
    have hlen := chain_len c5
    have hle := chainPrev_le c5
    have e1 : (absEntries os ++ o.entries).length = s.prev - chainPrev o.prev os := by
      simp [Seg.n] at *; omega
    by_cases h1 : i ≤ s.prev + 1
    · rw [if_pos h1]
      obtain ⟨r1, r2, r3, r4⟩ := ih o c4 c5
      refine ⟨r1, r2, r3, ?_⟩
      rw [r4]
      simp only [chainPrev, absEntries, AbsLog.removeGTE]
      by_cases h2 : i ≤ chainPrev o.prev os
      · simp [h2]
      · simp only [h2, if_false]
        have e3 : List.take (i - chainPrev o.prev os - 1) ((absEntries os ++ o.entries) ++ s.entries) =
            List.take (i - chainPrev o.prev os - 1) (absEntries os ++ o.entries) :=
          List.take_append_of_le_length (by rw [e1]; omega)
        rw [e3]
    · rw [if_neg h1]
      refine ⟨removeGTE_ok hs _, by simpa using ⟨c1, c2, c3, c4, c5⟩, removeGTE_synced hs.2.2 _, ?_⟩
      have : ¬ i ≤ chainPrev o.prev os := by omega
      simp only [removeGTE_entries, chainPrev, absEntries, AbsLog.removeGTE, this, if_false,
        Seg.lastIndex, Seg.n, take_min_last]
      congr 1
      rw [List.take_append, e1]
      have e2 : List.take (i - chainPrev o.prev os - 1) (absEntries os ++ o.entries) =
          absEntries os ++ o.entries := List.take_of_length_le (by rw [e1]; omega)
      rw [e2]
      congr 2
      omega

theorem removeGTE_refines {l : SegLog} (h : Inv l) (i : Nat) :
    Inv (l.removeGTE i) ∧ abs (l.removeGTE i) = (abs l).removeGTE i := by
  have hc := commit_inv h
  have ha := commit_abs h
  have := hc.2.2
  obtain ⟨r1, r2, _, r4⟩ := rgte_spec i l.commit.segmentSize (by omega) l.commit.older l.commit.last hc.1 hc.2.1
  refine ⟨⟨r1, r2, hc.2.2⟩, ?_⟩
  rw [← ha]
  rw [abs_eq l.commit, ← r4, abs_eq]
  rfl


/-! ## removeLTE / canLTE -/

theorem absEntries_append (a b : List Seg) : absEntries (a ++ b) = absEntries b ++ absEntries a := by
  induction a with
  | nil => simp [absEntries]
  | cons x xs ih => simp [absEntries, ih]

theorem chainPrev_append (p : Nat) (a b : List Seg) :
    chainPrev p (a ++ b) = chainPrev (chainPrev p a) b := by
  induction a generalizing p with
  | nil => rfl
  | cons x xs ih => simp [chainPrev, ih]

theorem chain_append {p : Nat} {a b : List Seg} (h : Chain p (a ++ b)) :
    Chain p a ∧ Chain (chainPrev p a) b := by
  induction a generalizing p with
  | nil => exact ⟨trivial, h⟩
  | cons x xs ih =>
    obtain ⟨h1, h2, h3, h4, h5⟩ := h
    have := ih h5
    exact ⟨⟨h1, h2, h3, h4, this.1⟩, this.2⟩

/-- `dropOld` keeps a prefix (the newer segments) and drops a suffix (the oldest ones), each dropped
segment being non-empty with `lastIndex ≤ i`. -/
theorem dropOld_spec (i : Nat) (older : List Seg) :
    ∃ dropped, older = dropOld i older ++ dropped ∧ ∀ s ∈ dropped, 0 < s.n ∧ s.lastIndex ≤ i := by
  induction older with
  | nil => exact ⟨[], rfl, by simp⟩
  | cons s rest ih =>
    obtain ⟨dr, e, hd⟩ := ih
    unfold dropOld
    split
    · rename_i hnil
      rw [hnil] at e
      by_cases hc : s.n > 0 ∧ s.lastIndex ≤ i
      · refine ⟨s :: dr, by simp [hc, e], ?_⟩
        intro x hx
        rcases List.mem_cons.1 hx with rfl | hx
        · exact hc
        · exact hd x hx
      · exact ⟨dr, by simpa [hc] using e, hd⟩
    · rename_i o os hcons
      rw [hcons] at e
      exact ⟨dr, by rw [e]; simp, hd⟩

theorem canOld_eq (i : Nat) (older : List Seg) :
    canOld i older = match dropOld i older with
      | [] => none
      | k :: ks => some (chainPrev k.prev ks) := by
  induction older with
  | nil => rfl
  | cons s rest ih =>
    unfold canOld dropOld
    rw [ih]
    generalize dropOld i rest = d
    cases d with
    | nil => by_cases hc : s.n > 0 ∧ s.lastIndex ≤ i <;> simp [hc, chainPrev]
    | cons o os => simp [chainPrev]

theorem canLTE_eq (l : SegLog) (i : Nat) :
    l.canLTE i = chainPrev l.last.prev (dropOld i l.older) := by
  unfold SegLog.canLTE
  rw [canOld_eq]
  split <;> simp_all [chainPrev]

theorem lastD_mem (older : List Seg) (s : Seg) : lastD older s ∈ s :: older := by
  induction older generalizing s with
  | nil => simp [lastD]
  | cons a rest ih =>
    have := ih a
    simp [lastD] at this ⊢
    rcases this with h | h
    · exact Or.inr (Or.inl h)
    · exact Or.inr (Or.inr h)

theorem dropped_le {p i : Nat} {kept dropped : List Seg} (h : Chain p (kept ++ dropped))
    (hd : ∀ s ∈ dropped, 0 < s.n ∧ s.lastIndex ≤ i) : dropped = [] ∨ chainPrev p kept ≤ i := by
  cases dropped with
  | nil => exact Or.inl rfl
  | cons d ds =>
    right
    have := (chain_append h).2
    have hdi := (hd d (by simp)).2
    simp [Chain, Seg.lastIndex] at this hdi
    omega

/-- `removeLTE`: invariant kept, abstract effect = dropping `k` leading entries, where the new
prevIndex is `canLTE i`, is a segment boundary of the old log, and is `≤ i` unless nothing was
removed. -/
theorem removeLTE_refines {l : SegLog} (h : Inv l) (i : Nat) :
    Inv (l.removeLTE i) ∧
    ∃ k, k ≤ (abs l).entries.length ∧ abs (l.removeLTE i) = (abs l).dropFront k ∧
      (l.removeLTE i).prevIndex = l.canLTE i ∧
      (k = 0 ∨ (l.removeLTE i).prevIndex ≤ i) ∧
      (l.removeLTE i).prevIndex ∈ l.segs.map (·.prev) := by
  have hc := commit_inv h
  have ha := commit_abs h
  have hce := commit_eq h
  obtain ⟨dr, e, hd⟩ := dropOld_spec i l.commit.older
  obtain ⟨kept, hk⟩ : ∃ kept, dropOld i l.commit.older = kept := ⟨_, rfl⟩
  rw [hk] at e
  have hR : l.removeLTE i = { l.commit with older := kept } := by simp [SegLog.removeLTE, hk]
  have holder : l.commit.older = l.older := by rw [hce]
  have hlastp : l.commit.last.prev = l.last.prev := by rw [hce]; simp
  have hch := hc.2.1
  rw [e] at hch
  obtain ⟨ck, cd⟩ := chain_append hch
  have hl := chain_len cd
  rw [hR]
  refine ⟨⟨hc.1, ck, hc.2.2⟩, (absEntries dr).length, ?_, ?_, ?_, ?_, ?_⟩
  · rw [← ha, abs_eq, e, absEntries_append]; simp
  · rw [← ha, abs_eq l.commit, abs_eq, e]
    simp only [AbsLog.dropFront, chainPrev_append, absEntries_append]
    congr 1
    · omega
    · rw [List.append_assoc, List.drop_left]
  · rw [prevIndex_eq, canLTE_eq, ← holder, hk, hlastp]
  · rcases dropped_le hch hd with hnil | hle
    · left; simp [hnil, absEntries]
    · right; rw [prevIndex_eq]; exact hle
  · have hm := lastD_mem kept l.commit.last
    have hsub : ∀ x ∈ l.commit.last :: kept, x.prev ∈ l.segs.map (·.prev) := by
      intro x hx
      rcases List.mem_cons.1 hx with rfl | hx
      · simp [SegLog.segs, hlastp]
      · have : x ∈ l.older := by rw [← holder, e]; exact List.mem_append_left _ hx
        simp [SegLog.segs]
        exact Or.inr ⟨x, this, rfl⟩
    exact hsub _ hm


/-! ## Reading -/

/-- Entries of a list of segments given OLDEST first (the `s.next` direction). -/
def fwd : List Seg → List Bytes
  | [] => []
  | s :: rest => s.entries ++ fwd rest

/-- Forward chain from `s` through its `next` segments. -/
def FCh : Seg → List Seg → Prop
  | _, [] => True
  | s, nx :: rest => nx.prev = s.prev + s.n ∧ 0 < s.n ∧ FCh nx rest

theorem findSeg_spec (i : Nat) (older : List Seg) :
    ∀ (s : Seg) (acc : List Seg), Chain s.prev older → FCh s acc →
      chainPrev s.prev older < i → i ≤ s.prev + s.n →
      ∃ seg nexts pre, findSeg i (s :: older) acc = some (seg, nexts) ∧ FCh seg nexts ∧
        seg.prev < i ∧ i ≤ seg.prev + seg.n ∧
        absEntries older ++ s.entries ++ fwd acc = pre ++ (seg.entries ++ fwd nexts) ∧
        chainPrev s.prev older + pre.length = seg.prev := by
  induction older with
  | nil =>
    intro s acc _ hf hp hi
    simp only [chainPrev] at hp
    exact ⟨s, acc, [], by simp [findSeg, hp], hf, hp, hi, by simp [absEntries], by simp [chainPrev]⟩
  | cons o os ih =>
    intro s acc hc hf hp hi
    by_cases h : i > s.prev
    · refine ⟨s, acc, absEntries (o :: os), by simp [findSeg, h], hf, h, hi, by simp, ?_⟩
      exact chain_len hc
    · obtain ⟨c1, c2, c3, c4, c5⟩ := hc
      obtain ⟨seg, nexts, pre, e1, e2, e3, e4, e5, e6⟩ :=
        ih o (s :: acc) c5 ⟨by omega, c2, hf⟩ hp (by omega)
      refine ⟨seg, nexts, pre, by rw [findSeg, if_neg h]; exact e1, e2, e3, e4, ?_, e6⟩
      simpa [absEntries, fwd, List.append_assoc] using e5

theorem flatten_take_one_drop (es : List Bytes) (a : Nat) (h : a < es.length) :
    ((es.drop a).take 1).flatten = es[a] := by
  rw [List.drop_eq_getElem_cons h]; simp [List.take]

theorem seg_get_one {s : Seg} {i : Nat} (h1 : s.prev < i) (h2 : i ≤ s.prev + s.n) :
    s.get i 1 = .ok (s.entries[i - s.prev - 1]'(by simp [Seg.n] at h2; omega)) := by
  unfold Seg.get
  rw [if_pos h1, if_pos (by omega)]
  rw [flatten_take_one_drop]

/-- `Get` agrees with the abstract log (including `ErrNotFound` and the panic). -/
theorem get_refines {l : SegLog} (h : Inv l) (i : Nat) : l.get i = (abs l).get i := by
  have hL := abs_lastIndex h
  unfold SegLog.get getIn segmentOf AbsLog.get
  rw [hL, abs_prev]
  by_cases h1 : i > l.lastIndex
  · simp [h1]
  · by_cases h2 : i ≤ l.prevIndex
    · simp [h1, h2]
    · simp only [h1, h2, if_false]
      rw [prevIndex_eq] at h2
      obtain ⟨seg, nexts, pre, e1, _, e3, e4, e5, e6⟩ :=
        findSeg_spec i l.older l.last [] h.2.1 trivial (by omega)
          (by simpa [SegLog.lastIndex, Seg.lastIndex] using h1)
      simp only [SegLog.segs, e1]
      rw [seg_get_one e3 e4]
      have hidx : i - chainPrev l.last.prev l.older - 1 = pre.length + (i - seg.prev - 1) := by omega
      have hlt : i - seg.prev - 1 < seg.entries.length := by simp [Seg.n] at e4; omega
      simp only [abs_eq, prevIndex_eq]
      simp only [fwd, List.append_nil] at e5
      rw [e5, hidx, List.getElem?_append_right (by omega)]
      simp [List.getElem?_append_left hlt, List.getElem?_eq_getElem hlt]


theorem drop_len_add {α} (pre X : List α) (a : Nat) :
    (pre ++ X).drop (pre.length + a) = X.drop a := by
  induction pre with
  | nil => simp
  | cons x xs ih => simp [Nat.add_right_comm]

theorem seg_get_ok {s : Seg} {i k : Nat} (h1 : s.prev < i) (h2 : (i - s.prev) + k ≤ s.n + 1) :
    s.get i k = .ok ((s.entries.drop (i - s.prev - 1)).take k).flatten := by
  unfold Seg.get
  rw [if_pos h1, if_pos h2]

theorem getNLoop_spec (nexts : List Seg) :
    ∀ (seg : Seg) (i n : Nat), FCh seg nexts → seg.prev < i → i ≤ seg.prev + seg.n → 0 < n →
      i + n ≤ seg.prev + (seg.entries ++ fwd nexts).length + 1 →
      ∃ chunks, getNLoop seg nexts i n = .ok chunks ∧
        chunks.flatten = (((seg.entries ++ fwd nexts).drop (i - seg.prev - 1)).take n).flatten := by
  induction nexts with
  | nil =>
    intro seg i n _ h1 h2 h3 h4
    simp only [fwd, List.append_nil] at h4 ⊢
    refine ⟨[_], by rw [getNLoop, seg_get_ok h1 (by simp [Seg.n]; omega)], by simp⟩
  | cons nx rest ih =>
    intro seg i n hf h1 h2 h3 h4
    obtain ⟨f1, f2, f3⟩ := hf
    have hlen : seg.entries.length = seg.n := rfl
    by_cases hn : n ≤ seg.prev + seg.n - (i - 1)
    · -- everything inside this segment
      have hsn : min (seg.lastIndex - (i - 1)) n = n := by simp [Seg.lastIndex]; omega
      refine ⟨[((seg.entries.drop (i - seg.prev - 1)).take n).flatten], ?_, ?_⟩
      · rw [getNLoop, hsn, seg_get_ok h1 (by omega)]
        simp
      · simp only [List.flatten_cons, List.flatten_nil, List.append_nil]
        rw [List.drop_append_of_le_length (by omega), List.take_append_of_le_length (by simp; omega)]
    · have hsn : min (seg.lastIndex - (i - 1)) n = seg.prev + seg.n - (i - 1) := by
        simp [Seg.lastIndex]; omega
      have hnx : 0 < nx.n := by
        cases rest with
        | nil => simp [fwd, Seg.n] at h4 ⊢; omega
        | cons r rs => exact f3.2.1
      obtain ⟨r, er, fr⟩ := ih nx (i + (seg.prev + seg.n - (i - 1))) (n - (seg.prev + seg.n - (i - 1)))
        f3 (by omega) (by omega) (by omega) (by simp [fwd] at h4 ⊢; omega)
      refine ⟨((seg.entries.drop (i - seg.prev - 1)).take (seg.prev + seg.n - (i - 1))).flatten :: r, ?_, ?_⟩
      · rw [getNLoop, hsn, seg_get_ok h1 (by omega)]
        dsimp only
        rw [if_pos (by omega), er]
      · simp only [List.flatten_cons, fr]
        have e0 : i + (seg.prev + seg.n - (i - 1)) - nx.prev - 1 = 0 := by omega
        have hF : fwd (nx :: rest) = nx.entries ++ fwd rest := rfl
        have e1 : List.take n (List.drop (i - seg.prev - 1) seg.entries) =
            List.drop (i - seg.prev - 1) seg.entries := List.take_of_length_le (by simp; omega)
        have e2 : List.take (seg.prev + seg.n - (i - 1)) (List.drop (i - seg.prev - 1) seg.entries) =
            List.drop (i - seg.prev - 1) seg.entries := List.take_of_length_le (by simp; omega)
        have e3 : n - (List.drop (i - seg.prev - 1) seg.entries).length = n - (seg.prev + seg.n - (i - 1)) := by
          simp; omega
        have e4 : List.take n (List.drop (i - seg.prev - 1) seg.entries ++ (nx.entries ++ fwd rest)) =
            List.drop (i - seg.prev - 1) seg.entries ++
              List.take (n - (seg.prev + seg.n - (i - 1))) (nx.entries ++ fwd rest) := by
          rw [List.take_append, e1, e3]
        rw [e0, List.drop_zero, hF, List.drop_append_of_le_length (by omega), e4, e2, List.flatten_append]

/-- `GetN`: the chunks (one per segment) concatenate to exactly the abstract bytes; errors and
panics coincide. -/
theorem getN_refines {l : SegLog} (h : Inv l) (i n : Nat) :
    flatChunks (l.getN i n) = (abs l).getN i n := by
  have hL := abs_lastIndex h
  unfold SegLog.getN getNIn segmentOf AbsLog.getN
  rw [hL, abs_prev]
  by_cases h0 : (n = 0 ∧ (i = 0 ∨ i - 1 > l.lastIndex)) ∨ (n > 0 ∧ i + (n - 1) > l.lastIndex)
  · simp [h0]
  · rw [if_neg h0, if_neg h0]
    by_cases h1 : i > l.lastIndex
    · simp [h1]
    · by_cases h2 : i ≤ l.prevIndex
      · simp [h1, h2]
      · simp only [h1, h2, if_false]
        rw [prevIndex_eq] at h2
        obtain ⟨seg, nexts, pre, e1, e2, e3, e4, e5, e6⟩ :=
          findSeg_spec i l.older l.last [] h.2.1 trivial (by omega)
            (by simpa [SegLog.lastIndex, Seg.lastIndex] using h1)
        simp only [SegLog.segs, e1]
        simp only [fwd, List.append_nil] at e5
        by_cases hn : n = 0
        · simp [hn]
        · have hlen := congrArg List.length e5
          have hcl := chain_len h.2.1
          simp only [List.length_append] at hlen
          obtain ⟨chunks, ec, fc⟩ := getNLoop_spec nexts seg i n e2 e3 e4 (by omega) (by
            simp [SegLog.lastIndex, Seg.lastIndex, Seg.n] at h0 h1 ⊢
            omega)
          simp only [hn, if_false, ec, flatChunks_ok, fc]
          simp only [abs_eq, prevIndex_eq]
          rw [e5]
          have hidx : i - chainPrev l.last.prev l.older - 1 = pre.length + (i - seg.prev - 1) := by omega
          rw [hidx, drop_len_add]


/-! ## Views -/

theorem findSeg_fst (j : Nat) (ss acc : List Seg) :
    (findSeg j ss acc).map (·.1) = ss.find? (fun s => decide (j > s.prev)) := by
  induction ss generalizing acc with
  | nil => rfl
  | cons x rest ih =>
    by_cases h : j > x.prev
    · simp [findSeg, h]
    · simp [findSeg, h, ih]

theorem getIn_find (ss : List Seg) (p l j : Nat) :
    getIn ss p l j =
      if j > l then .error (.panic .gtLastIndex)
      else if j ≤ p then .error .notFound
      else match ss.find? (fun s => decide (j > s.prev)) with
        | none => .error .notFound
        | some s => s.get j 1 := by
  unfold getIn segmentOf
  by_cases h1 : j > l
  · simp [h1]
  · by_cases h2 : j ≤ p
    · simp [h1, h2]
    · simp only [h1, h2, if_false]
      rw [← findSeg_fst j ss []]
      cases findSeg j ss [] <;> rfl

/-- prevIndex values strictly decreasing along a newest-first list. -/
def Desc (ss : List Seg) : Prop := List.Pairwise (fun a b => a.prev > b.prev) ss

theorem chain_lt {p : Nat} {older : List Seg} (h : Chain p older) : ∀ x ∈ older, x.prev < p := by
  induction older generalizing p with
  | nil => simp
  | cons a rest ih =>
    obtain ⟨h1, h2, _, _, h5⟩ := h
    intro x hx
    rcases List.mem_cons.1 hx with rfl | hx
    · omega
    · have := ih h5 x hx; omega

theorem chain_desc {p : Nat} {older : List Seg} (h : Chain p older) : Desc older := by
  induction older generalizing p with
  | nil => exact List.Pairwise.nil
  | cons a rest ih =>
    exact List.Pairwise.cons (fun x hx => chain_lt h.2.2.2.2 x hx) (ih h.2.2.2.2)

theorem inv_desc {l : SegLog} (h : Inv l) : Desc l.segs :=
  List.Pairwise.cons (fun x hx => chain_lt h.2.1 x hx) (chain_desc h.2.1)

theorem chainPrev_le_mem {p : Nat} {older : List Seg} (h : Chain p older) :
    ∀ x ∈ older, chainPrev p older ≤ x.prev := by
  induction older generalizing p with
  | nil => simp
  | cons a rest ih =>
    intro x hx
    rcases List.mem_cons.1 hx with rfl | hx
    · exact chainPrev_le h.2.2.2.2
    · exact ih h.2.2.2.2 x hx

theorem find_takeWhile {ss : List Seg} {fp j : Nat} (hd : Desc ss) (hm : ∃ x ∈ ss, x.prev = fp)
    (hj : fp < j) :
    (ss.takeWhile (fun s => decide (s.prev ≥ fp))).find? (fun s => decide (j > s.prev)) =
      ss.find? (fun s => decide (j > s.prev)) := by
  induction ss with
  | nil => rfl
  | cons x rest ih =>
    obtain ⟨y, hy, hyp⟩ := hm
    have hdx := List.pairwise_cons.1 hd
    by_cases hx : x.prev ≥ fp
    · by_cases hjx : j > x.prev
      · simp [List.takeWhile, hx, hjx]
      · have hy' : y ∈ rest := by
          rcases List.mem_cons.1 hy with rfl | h
          · omega
          · exact h
        simp [List.takeWhile, hx, hjx]
        have := ih hdx.2 ⟨y, hy', hyp⟩
        simpa using this
    · exfalso
      rcases List.mem_cons.1 hy with rfl | h
      · omega
      · have := hdx.1 y h; omega

theorem find_view {ss : List Seg} {fp lp l j : Nat} (hd : Desc ss) (hm : ∃ x ∈ ss, x.prev = fp)
    (hj : fp < j) (hjl : j ≤ l) (hl : ∀ x ∈ ss, x.prev > lp → l ≤ x.prev) :
    ((ss.dropWhile (fun s => decide (s.prev > lp))).takeWhile (fun s => decide (s.prev ≥ fp))).find?
        (fun s => decide (j > s.prev)) = ss.find? (fun s => decide (j > s.prev)) := by
  induction ss with
  | nil => rfl
  | cons x rest ih =>
    obtain ⟨y, hy, hyp⟩ := hm
    have hdx := List.pairwise_cons.1 hd
    by_cases hx : x.prev > lp
    · have hlx := hl x (by simp) hx
      have hy' : y ∈ rest := by
        rcases List.mem_cons.1 hy with rfl | h
        · omega
        · exact h
      have hnj : ¬ j > x.prev := by omega
      simp only [List.dropWhile, hx, decide_true, List.find?, hnj, decide_false]
      exact ih hdx.2 ⟨y, hy', hyp⟩ (fun z hz => hl z (List.mem_cons_of_mem _ hz))
    · simp only [List.dropWhile, hx, decide_false]
      exact find_takeWhile hd ⟨y, hy, hyp⟩ hj

/-- What must stay true of the log for a view to keep reading correctly. -/
def ViewOK (v : View) (l : SegLog) : Prop :=
  (∃ x ∈ l.segs, x.prev = v.firstPrev) ∧ v.firstPrev ≤ v.p ∧ v.l ≤ l.lastIndex ∧
  match v.lastPrev with
  | none => v.l ≤ v.p
  | some lp => ∀ x ∈ l.segs, x.prev > lp → v.l ≤ x.prev

theorem walkFirst_spec {p fp : Nat} {ss : List Seg} (h : walkFirst p ss = some fp) :
    (∃ x ∈ ss, x.prev = fp) ∧ fp ≤ p := by
  induction ss with
  | nil => simp [walkFirst] at h
  | cons x rest ih =>
    unfold walkFirst at h
    by_cases hx : p ≥ x.prev
    · simp [hx] at h; exact ⟨⟨x, by simp, h⟩, by omega⟩
    · simp [hx] at h
      obtain ⟨⟨y, hy, e⟩, hle⟩ := ih h
      exact ⟨⟨y, List.mem_cons_of_mem _ hy, e⟩, hle⟩

theorem find_newer {ss : List Seg} {l : Nat} {seg : Seg} (hd : Desc ss)
    (h : ss.find? (fun s => decide (l > s.prev)) = some seg) :
    ∀ x ∈ ss, x.prev > seg.prev → l ≤ x.prev := by
  induction ss with
  | nil => simp at h
  | cons x rest ih =>
    have hdx := List.pairwise_cons.1 hd
    by_cases hx : l > x.prev
    · simp [List.find?, hx] at h
      subst h
      intro y hy hgt
      rcases List.mem_cons.1 hy with rfl | hy
      · omega
      · have := hdx.1 y hy; omega
    · simp [List.find?, hx] at h
      intro y hy hgt
      rcases List.mem_cons.1 hy with rfl | hy
      · omega
      · exact ih hdx.2 h y hy hgt

theorem viewAt_ok {s : SegLog} (h : Inv s) {p l : Nat} {v : View}
    (hv : s.viewAt p l = .ok (some v)) : ViewOK v s ∧ v.p = p ∧ v.l = l := by
  unfold SegLog.viewAt at hv
  by_cases h1 : l > s.lastIndex
  · simp [h1] at hv
  · by_cases h2 : p > l ∨ p < s.prevIndex
    · simp [h1, h2] at hv
    · simp only [h1, h2, if_false] at hv
      cases hw : walkFirst p s.segs with
      | none => simp [hw] at hv
      | some fp =>
        simp only [hw] at hv
        obtain ⟨hm, hle⟩ := walkFirst_spec hw
        unfold segmentOf at hv
        simp only [h1, if_false] at hv
        by_cases h3 : l ≤ s.prevIndex
        · simp [h3] at hv
          subst hv
          refine ⟨⟨hm, hle, by simpa using h1, ?_⟩, rfl, rfl⟩
          simp; omega
        · simp only [h3, if_false] at hv
          have hf := findSeg_fst l s.segs []
          cases hfs : findSeg l s.segs [] with
          | none =>
            rw [hfs] at hv
            simp at hv
            subst hv
            refine ⟨⟨hm, hle, by simpa using h1, ?_⟩, rfl, rfl⟩
            -- impossible branch: some segment has prev < l
            exfalso
            rw [hfs] at hf
            have hf' := List.find?_eq_none.1 hf.symm
            have := hf' (lastD s.older s.last) (lastD_mem _ _)
            simp at this
            simp [SegLog.prevIndex, SegLog.first] at h3
            omega
          | some sa =>
            rw [hfs] at hv hf
            simp at hv
            subst hv
            refine ⟨⟨hm, hle, by simpa using h1, ?_⟩, rfl, rfl⟩
            simp only [Option.map]
            exact find_newer (inv_desc h) hf.symm

/-- Reading through a valid view = reading the log itself, for indices inside the view. -/
theorem view_get_eq {s : SegLog} (h : Inv s) {v : View} (hv : ViewOK v s) {j : Nat}
    (h1 : v.p < j) (h2 : j ≤ v.l) : v.get s j = s.get j := by
  obtain ⟨hm, hfp, hl, hlp⟩ := hv
  unfold View.get SegLog.get
  rw [getIn_find, getIn_find]
  have hpi : s.prevIndex ≤ v.firstPrev := by
    obtain ⟨x, hx, e⟩ := hm
    rw [prevIndex_eq, ← e]
    rcases List.mem_cons.1 hx with rfl | hx
    · exact chainPrev_le h.2.1
    · exact chainPrev_le_mem h.2.1 x hx
  rw [if_neg (by omega), if_neg (by omega), if_neg (by omega), if_neg (by omega)]
  cases hlpv : v.lastPrev with
  | none => rw [hlpv] at hlp; simp at hlp; omega
  | some lp =>
    rw [hlpv] at hlp
    simp only [View.segs, hlpv]
    rw [find_view (inv_desc h) hm (by omega) h2 hlp]


def Op.appendish : Op → Bool
  | .append _ => true
  | .commitN _ => true
  | .commit => true
  | _ => false

theorem viewOK_mono {v : View} {s s' : SegLog} (hv : ViewOK v s)
    (h1 : ∀ x ∈ s'.segs, (∃ y ∈ s.segs, y.prev = x.prev) ∨ s.lastIndex ≤ x.prev)
    (h2 : ∀ y ∈ s.segs, ∃ x ∈ s'.segs, x.prev = y.prev)
    (h3 : s.lastIndex ≤ s'.lastIndex) : ViewOK v s' := by
  obtain ⟨⟨y, hy, e⟩, hfp, hl, hlp⟩ := hv
  obtain ⟨x, hx, ex⟩ := h2 y hy
  refine ⟨⟨x, hx, by omega⟩, hfp, by omega, ?_⟩
  cases hlpv : v.lastPrev with
  | none => rw [hlpv] at hlp; exact hlp
  | some lp =>
    rw [hlpv] at hlp
    intro z hz hgt
    rcases h1 z hz with ⟨w, hw, ew⟩ | hge
    · have := hlp w hw (by omega); omega
    · omega

theorem viewOK_sync_last {v : View} {s : SegLog} (hv : ViewOK v s) :
    ViewOK v { s with last := s.last.sync } := by
  apply viewOK_mono hv
  · intro x hx
    left
    rcases List.mem_cons.1 hx with rfl | hx
    · exact ⟨s.last, by simp [SegLog.segs], by simp⟩
    · exact ⟨x, by simp [SegLog.segs, hx], rfl⟩
  · intro y hy
    rcases List.mem_cons.1 hy with rfl | hy
    · exact ⟨s.last.sync, by simp [SegLog.segs], by simp⟩
    · exact ⟨y, by simp [SegLog.segs, hy], rfl⟩
  · simp [SegLog.lastIndex, Seg.lastIndex]

theorem viewOK_commitN {v : View} {s : SegLog} (h : Inv s) (hv : ViewOK v s) (n : Nat) :
    ViewOK v (s.commitN n) := by
  rcases commitN_shape h n with e | e <;> rw [e]
  · exact hv
  · exact viewOK_sync_last hv

theorem viewOK_append {v : View} {s s' : SegLog} (h : Inv s) (hv : ViewOK v s) {b : Bytes}
    (ha : s.append b = .ok s') : ViewOK v s' := by
  unfold SegLog.append at ha
  by_cases hav : s.last.available < (b.length : Int)
  · by_cases hn : s.last.n = 0
    · simp [hav, hn] at ha
    · simp only [hav, hn, if_true, if_false] at ha
      rw [commit_eq h] at ha
      simp only [Except.ok.injEq] at ha
      subst ha
      apply viewOK_mono hv
      · intro x hx
        simp only [SegLog.segs, List.mem_cons] at hx
        rcases hx with rfl | rfl | hx
        · right; simp [Seg.append, Seg.fresh, SegLog.lastIndex, Seg.lastIndex]
        · left; exact ⟨s.last, by simp [SegLog.segs], by simp⟩
        · left; exact ⟨x, by simp [SegLog.segs, hx], rfl⟩
      · intro y hy
        rcases List.mem_cons.1 hy with rfl | hy
        · exact ⟨s.last.sync, by simp [SegLog.segs], by simp⟩
        · exact ⟨y, by simp [SegLog.segs, hy], rfl⟩
      · simp [SegLog.lastIndex, Seg.lastIndex, Seg.append, Seg.fresh, Seg.n]
  · simp only [hav, if_false, Except.ok.injEq] at ha
    subst ha
    apply viewOK_mono hv
    · intro x hx
      left
      rcases List.mem_cons.1 hx with rfl | hx
      · exact ⟨s.last, by simp [SegLog.segs], by simp [Seg.append]⟩
      · exact ⟨x, by simp [SegLog.segs, hx], rfl⟩
    · intro y hy
      rcases List.mem_cons.1 hy with rfl | hy
      · exact ⟨s.last.append b, by simp [SegLog.segs], by simp [Seg.append]⟩
      · exact ⟨y, by simp [SegLog.segs, hy], rfl⟩
    · simp [SegLog.lastIndex, Seg.lastIndex, Seg.append, Seg.n]

/-- Appends and commits only extend the abstract log and keep views valid. -/
theorem run_appendish {s : SegLog} (h : Inv s) {v : View} (hv : ViewOK v s) (ops : List Op)
    (ha : ∀ op ∈ ops, op.appendish = true) :
    Inv (s.run ops) ∧ ViewOK v (s.run ops) ∧
    ∃ extra, abs (s.run ops) = { abs s with entries := (abs s).entries ++ extra } := by
  induction ops generalizing s with
  | nil => exact ⟨h, hv, [], by simp [SegLog.run]⟩
  | cons op ops ih =>
    have hop := ha op (by simp)
    have hrest : ∀ o ∈ ops, o.appendish = true := fun o ho => ha o (List.mem_cons_of_mem _ ho)
    cases op with
    | append b =>
      rcases append_refines h b with ⟨l', e, hi, ea⟩ | ⟨e, _, _⟩
      · obtain ⟨r1, r2, extra, r3⟩ := ih hi (viewOK_append h hv e) hrest
        simp only [SegLog.run, SegLog.apply, e]
        refine ⟨r1, r2, b :: extra, ?_⟩
        rw [r3, ea]; simp [AbsLog.snoc]
      · simp only [SegLog.run, SegLog.apply, e]
        exact ih h hv hrest
    | commitN n =>
      obtain ⟨r1, r2, extra, r3⟩ := ih (commitN_inv h n) (viewOK_commitN h hv n) hrest
      simp only [SegLog.run, SegLog.apply]
      exact ⟨r1, r2, extra, by rw [r3, commitN_abs h]⟩
    | commit =>
      obtain ⟨r1, r2, extra, r3⟩ := ih (commit_inv h) (viewOK_commitN h hv _) hrest
      simp only [SegLog.run, SegLog.apply]
      exact ⟨r1, r2, extra, by rw [r3, commit_abs h]⟩
    | removeLTE i => simp [Op.appendish] at hop
    | removeGTE i => simp [Op.appendish] at hop
    | reset j => simp [Op.appendish] at hop
    | closeOpen ss => simp [Op.appendish] at hop

theorem absget_extend (a : AbsLog) (extra : List Bytes) {j : Nat} (hj : j ≤ a.lastIndex) :
    ({ a with entries := a.entries ++ extra } : AbsLog).get j = a.get j := by
  unfold AbsLog.get AbsLog.lastIndex
  simp only [AbsLog.lastIndex] at hj
  by_cases h2 : j ≤ a.prev
  · rw [if_neg (by simp; omega), if_pos h2, if_neg (by omega), if_pos h2]
  · have hlt : j - a.prev - 1 < a.entries.length := by omega
    rw [if_neg (by simp; omega), if_neg h2, if_neg (by omega), if_neg h2]
    rw [List.getElem?_append_left hlt]

end Raft.SL
