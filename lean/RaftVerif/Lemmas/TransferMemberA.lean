/-
C16 with membership changes, node level, part A — **while a transfer is in progress the leader block appends nothing**.

`SysMore.TClosed` (Lemmas/SysMore.lean, Part 3) carries facts about the leader's transfer record through the mutually
recursive leader block, but asks for closure under an UNGUARDED `storage.appendEntry` / `Raft.changeConfig`, so it cannot
carry "the log is as it was". `AClosed` is the same composition principle with these two primitives REMOVED and replaced
by `idle`: the predicate holds of every state in which no transfer is in progress. It is sound because the only call
site of `appendEntry` in the block (`leader.storeEntry`, the loop `storeItems`) is behind the check
`if l.transfer.inProgress() { reply InProgressError("transferLeadership") }`, and the block never writes the transfer
record (`SysMore.teq_step`).

Instance: `Frozen b` — "if a transfer is in progress, the log (entries, first index), the last index / term and the
LATEST configuration are those of `b`".
-/
import RaftVerif.Lemmas.SysMore

namespace Raft
namespace TransferMember
open Node SysMore

/-! ## the guarded closure -/

structure AClosed (Inv : Node → Prop) : Prop where
  panic : ∀ s site, Inv s → Inv (s.panic site)
  reply : ∀ s t r, Inv s → Inv (s.reply t r)
  point : ∀ s n, Inv s → Inv (s.point n)
  /-- the leader record is replaced by one with THE SAME transfer record -/
  ldr : ∀ (s : Node) l, Inv s → l.transfer = s.ldr.transfer → Inv (s.withLdr l)
  commitN : ∀ (s : Node) n, Inv s → Inv { s with log := s.log.commitN n }
  fsm : ∀ (s : Node) f, Inv s → Inv (s.withFsm f)
  setCommitIndexR : ∀ (s : Node) i, Inv s → Inv (s.setCommitIndexR i).1
  popOrder : ∀ (s : Node), Inv s → Inv s.popOrder
  /-- the predicate says nothing about a state without a transfer in progress -/
  idle : ∀ s : Node, s.ldr.transfer.active = false → Inv s

namespace AClosed

variable {Inv : Node → Prop} (h : AClosed Inv)
include h

theorem assert_inv (s : Node) (b : Bool) (site : String) (hs : Inv s) : Inv (s.assert b site) := by
  unfold Node.assert; split <;> simp_all [h.panic]

theorem commitLog_inv (s : Node) (n : Nat) (hs : Inv s) : Inv (s.commitLog n) := by
  unfold Node.commitLog; exact h.point _ _ (h.commitN _ _ hs)

theorem setRepl_inv (s : Node) (r : Repl) (hs : Inv s) : Inv (s.setRepl r) := by
  unfold Node.setRepl; exact h.ldr _ _ hs rfl

theorem notifyFlr_inv (s : Node) (hs : Inv s) : Inv s.notifyFlr := by
  unfold Node.notifyFlr; split
  · exact hs
  · split
    · exact hs
    · exact h.panic _ _ hs

theorem beginFinishedRounds_inv (s : Node) (hs : Inv s) : Inv s.beginFinishedRounds := by
  unfold Node.beginFinishedRounds; exact h.ldr _ _ hs rfl

theorem fsmApplyLogTo_inv (s : Node) (n : Nat) (hs : Inv s) : Inv (s.fsmApplyLogTo n) := by
  unfold Node.fsmApplyLogTo
  split
  · exact hs
  · split
    · exact h.panic _ _ hs
    · extract_lets es ups lastTerm cfg s1
      have h1 : Inv s1 := by unfold s1; split; exact h.panic _ _ hs; exact hs
      split
      · exact h.panic _ _ hs
      · exact h.fsm _ _ h1

theorem fsmApplyItems_inv (s : Node) (qs : List QItem) (hs : Inv s) : Inv (s.fsmApplyItems qs) := by
  induction qs generalizing s with
  | nil => exact hs
  | cons q qs ih =>
    unfold Node.fsmApplyItems
    dsimp only
    apply ih
    apply h.reply
    have h1 : Inv (s.assert (q.index == s.fsm.index + 1) "fsm.assertNext") := h.assert_inv s _ _ hs
    repeat' split
    all_goals first
      | exact h.fsm _ _ (h.fsm _ _ (h.fsm _ _ h1))
      | exact h.fsm _ _ (h.fsm _ _ h1)
      | exact h.fsm _ _ h1
      | exact h1

theorem fsmApply_inv (s : Node) (qs : List QItem) (hs : Inv s) : Inv (s.fsmApply qs) := by
  unfold Node.fsmApply
  split
  · exact h.panic _ _ hs
  · split
    · exact h.panic _ _ hs
    · dsimp only
      exact h.assert_inv _ _ _ (h.fsmApplyItems_inv _ _ (h.fsmApplyLogTo_inv _ _ hs))

theorem applyCommittedL_inv (s : Node) (hs : Inv s) : Inv s.applyCommittedL := by
  unfold Node.applyCommittedL; exact h.fsmApply_inv _ _ (h.ldr _ _ hs rfl)

omit h in
theorem foldl_inv {β : Type} (f : Node → β → Node) (hf : ∀ s x, Inv s → Inv (f s x))
    (xs : List β) (s : Node) (hs : Inv s) : Inv (xs.foldl f s) := by
  induction xs generalizing s with
  | nil => exact hs
  | cons x xs ih => exact ih _ (hf _ _ hs)

/-- The leader block preserves every `AClosed` predicate, by induction on the recursion budget (`leader.changeConfig`
is only reached behind the transfer check of `storeItems`: its result is `idle`). -/
theorem block : ∀ fuel : Nat,
    (∀ s b, Inv s → Inv (storeEntry fuel s b)) ∧
    (∀ s b, Inv s → Inv (storeItems fuel s b)) ∧
    (∀ s t c, Inv s → Inv (doChangeConfig fuel s t c)) ∧
    (∀ s t c, Inv s → Inv (checkConfigActions fuel s t c)) ∧
    (∀ s t c id, Inv s → Inv (checkConfigAction fuel s t c id)) ∧
    (∀ s i, Inv s → Inv (setCommitIndexL fuel s i)) ∧
    (∀ s, Inv s → Inv (onMajorityCommit fuel s)) := by
  intro fuel
  induction fuel with
  | zero =>
    refine ⟨?_, ?_, ?_, ?_, ?_, ?_, ?_⟩ <;> intros <;> (try unfold storeItems) <;>
      (try unfold storeEntry) <;> (try unfold doChangeConfig) <;>
      (try unfold checkConfigActions) <;> (try unfold checkConfigAction) <;>
      (try unfold setCommitIndexL) <;> (try unfold onMajorityCommit) <;>
      (try split) <;> first | assumption | (apply h.panic; assumption)
  | succ n ih =>
    obtain ⟨ihSE, ihSI, ihDC, ihCAs, ihCA, ihSC, ihMC⟩ := ih
    refine ⟨?_, ?_, ?_, ?_, ?_, ?_, ?_⟩
    · -- storeEntry
      intro s b hs
      unfold storeEntry; dsimp only
      have h1 : Inv (storeItems n s b) := ihSI _ _ hs
      have h2 := h.applyCommittedL_inv _ h1
      repeat' split
      all_goals first
        | exact ihMC _ (h.notifyFlr_inv _ (h.beginFinishedRounds_inv _ h2))
        | exact ihMC _ (h.notifyFlr_inv _ (h.beginFinishedRounds_inv _ h1))
        | exact h.notifyFlr_inv _ (h.beginFinishedRounds_inv _ h2)
        | exact h.notifyFlr_inv _ (h.beginFinishedRounds_inv _ h1)
        | exact h2
        | exact h1
    · -- storeItems
      intro s b hs
      cases b with
      | nil => unfold storeItems; exact hs
      | cons q qs =>
        unfold storeItems; dsimp only
        apply ihSI
        split
        · exact h.reply _ _ _ hs
        · rename_i hact
          have hact' : s.ldr.transfer.active = false := by simpa using hact
          apply h.idle
          refine Eq.trans (congrArg Transfer.active (?_ : _ = s.ldr.transfer)) hact'
          have h' := (teq_step s).toTClosed
          change TEq s _
          have hs' : TEq s s := rfl
          split
          · split
            · exact h'.reply _ _ _ hs'
            · exact h'.reply _ _ _ hs'
          · have h1 := h'.ldr s { s.ldr with queue := s.ldr.queue ++ [{ q with index := s.lastLogIndex + 1, term := s.term, cfg := q.cfg.map Config.payload }] } hs' rfl
            split
            · split
              · split
                · exact (h'.block _).2.2.1 _ _ (h'.appendEntry_inv _ _ h1)
                · exact h'.panic _ _ (h'.appendEntry_inv _ _ h1)
              · exact h'.appendEntry_inv _ _ h1
            · exact h1
    · -- doChangeConfig
      intro s t c hs
      unfold doChangeConfig; exact ihSE _ _ hs
    · -- checkConfigActions
      intro s t c hs
      unfold checkConfigActions; dsimp only
      apply foldl_inv
      · intro s x hs
        split
        · exact ihCA _ _ _ _ hs
        · exact hs
      · apply h.popOrder
        split
        · split
          · exact ihDC _ _ _ hs
          · split
            · exact ihDC _ _ _ hs
            · exact h.panic _ _ hs
        · exact hs
    · -- checkConfigAction
      intro s t c id hs
      unfold checkConfigAction; dsimp only
      have h1 := fun r => h.setRepl_inv s r hs
      repeat' split
      all_goals first | exact hs | exact h1 _ | exact ihDC _ _ _ (h1 _)
    · -- setCommitIndexL
      intro s i hs
      unfold setCommitIndexL
      extract_lets s1 ready r s2 s3
      have h2 : Inv s2 := h.setCommitIndexR _ i (h.commitLog_inv _ i hs)
      have h3 : Inv s3 := by
        unfold s3; split
        · exact ihCAs _ _ _ h2
        · exact h2
      split
      · split
        · exact h.ldr _ _ (foldl_inv _ (fun s t hs => h.reply _ _ _ hs) _ _ h3) rfl
        · exact ihCAs _ _ _ h3
      · exact h3
    · -- onMajorityCommit
      intro s hs
      unfold onMajorityCommit; dsimp only
      have h1 := h.panic s "nil.majorityMatchIndex" hs
      split
      · split
        · exact h.notifyFlr_inv _ (h.applyCommittedL_inv _ (ihSC _ _ hs))
        · exact hs
      · split
        · exact h.notifyFlr_inv _ (h.applyCommittedL_inv _ (ihSC _ _ h1))
        · exact h1

theorem storeEntry_inv (f : Nat) (s : Node) (b) (hs : Inv s) : Inv (storeEntry f s b) := (h.block f).1 s b hs
theorem doChangeConfig_inv (f : Nat) (s : Node) (t c) (hs : Inv s) : Inv (doChangeConfig f s t c) :=
  (h.block f).2.2.1 s t c hs
theorem checkConfigActions_inv (f : Nat) (s : Node) (t c) (hs : Inv s) : Inv (checkConfigActions f s t c) :=
  (h.block f).2.2.2.1 s t c hs
theorem checkConfigAction_inv (f : Nat) (s : Node) (t c id) (hs : Inv s) : Inv (checkConfigAction f s t c id) :=
  (h.block f).2.2.2.2.1 s t c id hs
theorem onMajorityCommit_inv (f : Nat) (s : Node) (hs : Inv s) : Inv (onMajorityCommit f s) :=
  (h.block f).2.2.2.2.2.2 s hs

end AClosed

/-! ## the instance: what a transfer in progress freezes -/

/-- the log (entries and first index), the last index and term, and the LATEST configuration -/
def lq (s : Node) : List Entry × Nat × Nat × Nat × Config :=
  (s.log.entries, s.log.prev, s.lastLogIndex, s.lastLogTerm, s.configs.latest)

theorem lq_eq {s s' : Node} (h : lq s' = lq s) :
    s'.log.entries = s.log.entries ∧ s'.log.prev = s.log.prev ∧ s'.lastLogIndex = s.lastLogIndex ∧
    s'.lastLogTerm = s.lastLogTerm ∧ s'.configs.latest = s.configs.latest := by
  unfold lq at h
  simp only [Prod.mk.injEq] at h
  exact h

/-- if a transfer is in progress in `s`, then log, last index / term and latest configuration are those of `b` -/
def Frozen (b s : Node) : Prop := s.ldr.transfer.active = true → lq s = lq b

theorem frozen_congr {b s s' : Node} (h : Frozen b s) (e1 : lq s' = lq s) (e2 : s'.ldr = s.ldr) : Frozen b s' := by
  intro ha
  rw [e1]
  exact h (by rw [← e2]; exact ha)

theorem lq_panic (s : Node) (site : String) : lq (s.panic site) = lq s := by
  unfold Node.panic; split <;> rfl

theorem lq_reply (s : Node) (t : Nat) (r : String) : lq (s.reply t r) = lq s := by
  unfold Node.reply; split <;> rfl

theorem lq_commitN (s : Node) (n : Nat) : lq { s with log := s.log.commitN n } = lq s := by
  unfold NLog.commitN lq
  dsimp only
  split <;> rfl

theorem lq_setCommitIndexR (s : Node) (i : Nat) : lq (s.setCommitIndexR i).1 = lq s := by
  unfold Node.setCommitIndexR Node.afterConfigCommit Node.closeIfRemoved Node.stepDownIfNotVoter Node.commitConfig
    Node.doClose
  dsimp only
  repeat' split
  all_goals rfl

theorem ldr_setCommitIndexR (s : Node) (i : Nat) : (s.setCommitIndexR i).1.ldr = s.ldr := by
  unfold Node.setCommitIndexR Node.afterConfigCommit Node.closeIfRemoved Node.stepDownIfNotVoter Node.commitConfig
    Node.doClose
  dsimp only
  repeat' split
  all_goals rfl

theorem frozen_closed (b : Node) : AClosed (Frozen b) where
  panic := fun s site h => frozen_congr h (lq_panic s site) (ldr_panic s site)
  reply := fun s t r h => frozen_congr h (lq_reply s t r) (ldr_reply s t r)
  point := fun s n h => frozen_congr h rfl rfl
  ldr := fun s l h hg => by
    intro ha
    exact h (by rw [← hg]; exact ha)
  commitN := fun s n h => frozen_congr h (lq_commitN s n) rfl
  fsm := fun s f h => frozen_congr h rfl rfl
  setCommitIndexR := fun s i h => frozen_congr h (lq_setCommitIndexR s i) (ldr_setCommitIndexR s i)
  popOrder := fun s h => frozen_congr h rfl rfl
  idle := fun s h0 ha => by rw [h0] at ha; cases ha

end TransferMember
end Raft
