/-
The stale reset after a crash in `.snapTaken` (`Raft.onSnapshotTaken`: the compaction), before or after the compacted
log reached the disk — the companion of `SnapCut.crash3_stale` (Lemmas/SnapCutB.lean) for the one operation of stage 2
that changes `log.prev`; and `crash3_any`: a crash in ANY operation of stage 2 (with `NoCut`), stale disk or not.
-/
import RaftVerif.Lemmas.SnapCutB

namespace Raft
namespace SnapCut
open Node Election LogRel Replication CommitRel Commit C02Sys C03Sys SnapRel SnapRelU SnapSim Snap Snap2 SnapInv SnapInv2
open SnapInst SnapInstU Snap3 SnapFrame SnapInst3

section
variable {V : List Nat}

theorem crashS_snapTaken (y : Snap2.Sys) (i : Nat) (n : Node) :
    crashS y i .snapTaken n = crashS y i (.disconnected 0) n := rfl

/-- **a crash at any storage point of `.snapTaken` after which `openStorage` resets the log, and the restart** -/
theorem crash3_stale_snapTaken (hV : V.Nodup) {x : Snap3.Sys} (hI3 : Inv3 V x) (hS : Side3 V x) {i : Nat} {ra : List Nat}
    {ord : List (List Nat)} {src k retain : Nat} {sor : Bool} {n : Node} (hi : i ≠ 0) (hret : 1 ≤ retain)
    (hst : staleLog (C05.crashDisk (x.node i) .snapTaken ra ord k) = true)
    (hn : Node.restart (C05.crashDisk (x.node i) .snapTaken ra ord k) retain sor = some n) :
    SInv V (view (crashS x.s2 i .snapTaken n)) ∧ PrevOK n ∧
    n.log = NLog.reset (headOf (x.node i).snapsDisk).index ∧
    (crashS x.s2 i .snapTaken n).vlog i = (x.vlog i).take (headOf (x.node i).snapsDisk).index := by
  have hI := hI3.sinv
  have hP := hI3.prev
  have so : SnapOK (x.vnode i) := hI.snap i
  have hfl : (x.node i).log.prev ≤ (x.node i).log.flushed :=
    prev_le_flushed (x.s2.base i) (hS.segs i) (vnode_lwf3 hI i)
  rcases snapTaken_crashDisk (x.node i) ra ord k with e | ⟨e, hdur⟩
  · -- nothing was compacted yet: a crash before the first storage point of any operation
    rw [e] at hn hst
    have hpd : ((x.node i).step (.disconnected 0) [] []).panicked = none := by rw [step_disconnected0]; rfl
    obtain ⟨a1, a2, _, _, a5, a6⟩ := crash3_stale hV hI3 hS (i := i) (op := .disconnected 0) (ra := []) (ord := [])
      (src := src) (k := 0) (retain := retain) (sor := sor) (n := n) (enabled_disc0 _ hi src) hret hpd
      (fun h => nomatch h) trivial trivial hst hn
    exact ⟨a1, a2, a5, a6⟩
  · -- the compacted log is on disk
    obtain ⟨c1, c2, c3, _, _, c6, _, _⟩ := compact_cases ((x.node i).begin ra ord) (hS.segs i)
    have ss := snapTaken_snapStep (x.s2.base i) (x.node i) ra ord (hS.segs i) so (vnode_lwf3 hI i)
    have hq := onSnapshotTaken_qobs ((x.node i).begin ra ord)
    unfold qobs at hq
    simp only [Prod.mk.injEq] at hq
    obtain ⟨_, _, ⟨s1, _, s3⟩, _⟩ := hq
    rw [e] at hn hst
    have hent0 := vlog_keep (x.s2.base i) (x.node i).log ((x.node i).begin ra ord).onSnapshotTaken.log c1 c2 c3
    generalize hpo : ((x.node i).begin ra ord).onSnapshotTaken = post at *
    have s3' : post.snapsDisk = (x.node i).snapsDisk := s3
    generalize hb' : (uncLog (x.s2.base i) (x.node i).log).entries.take post.log.prev = β' at ss hent0
    have hent1 : (U β' post).log.entries = x.vlog i := hent0
    have hlwf : C06.LogWF (uncLog β' post.log) := ss.feq.lwf (vnode_lwf3 hI i)
    have hflp : post.log.prev ≤ post.log.flushed := prev_le_flushed β' c6 hlwf
    have hI' := sinv_regroup hI ss
    have pe := ss.feq
    have le := lfieldEq_of_lobs ss.lobs
    have hni : ∀ j, (withNodes (view x.s2).cs (setNode (view x.s2).cs.rp.el.node i (U β' post))).node j =
        if j = i then U β' post else x.vnode j := fun j => rfl
    have hSr : SideS V { cs := withNodes (view x.s2).cs (setNode (view x.s2).cs.rp.el.node i (U β' post))
                         snaps := newSnaps i ((view x.s2).node i).snapsDisk (U β' post).snapsDisk ++ (view x.s2).snaps } := by
      refine ⟨⟨fun j => ?_, fun j => ?_⟩, fun j => ?_, fun j => ?_⟩
      · show ((withNodes (view x.s2).cs (setNode (view x.s2).cs.rp.el.node i (U β' post))).node j).configs.isBootstrapped = true ∧
          ((withNodes (view x.s2).cs (setNode (view x.s2).cs.rp.el.node i (U β' post))).node j).configs.latest.voters = V
        rw [hni]
        split
        · rename_i hj; rw [le.configs]; have := hS.sideV.1 i; exact this
        · exact hS.sideV.1 j
      · show ((withNodes (view x.s2).cs (setNode (view x.s2).cs.rp.el.node i (U β' post))).node j).configs.latest.isStable = true
        rw [hni]
        split
        · rw [le.configs]; exact hS.sideV.2 i
        · exact hS.sideV.2 j
      · show ((withNodes (view x.s2).cs (setNode (view x.s2).cs.rp.el.node i (U β' post))).node j).log.prev = 0
        rw [hni]
        split <;> rfl
      · show ∀ e ∈ ((withNodes (view x.s2).cs (setNode (view x.s2).cs.rp.el.node i (U β' post))).node j).log.entries,
          e.typ = etConfig → e.cfg.isSome = true
        rw [hni]
        split
        · rw [show (U β' post).log.entries = (x.vnode i).log.entries from pe.entries]
          exact hS.dec i
        · exact hS.dec j
    generalize hX' : ({ cs := withNodes (view x.s2).cs (setNode (view x.s2).cs.rp.el.node i (U β' post))
                        snaps := newSnaps i ((view x.s2).node i).snapsDisk (U β' post).snapsDisk ++ (view x.s2).snaps } :
        Snap.Sys) = X' at hI' hSr
    have hXi : X'.node i = U β' post := by rw [← hX']; exact setNode_same _ _ _
    have hXs : X'.snaps = newSnaps i ((view x.s2).node i).snapsDisk (U β' post).snapsDisk ++ (view x.s2).snaps := by
      rw [← hX']
    have hXcs : X'.cs = withNodes (view x.s2).cs (setNode (view x.s2).cs.rp.el.node i (U β' post)) := by rw [← hX']
    -- the disk
    generalize hdd : ({ (x.node i).durable with log := post.log.durable } : Durable) = d at hn hst hdur
    have hdsn : d.snaps = (x.node i).snapsDisk := by rw [← hdd]; rfl
    have hdlen : d.log.prev + d.log.entries.length ≤ d.log.flushed := by
      rw [← hdd]; exact durable_len post hflp
    have hdV : C05.crashDisk (X'.node i) (.disconnected 0) [] [] 0 = uncD β' d := by
      show (X'.node i).durable = _
      rw [hXi, U_durable, hdur]
    have hft : ∀ g ∈ d.snaps, termAt (x.vlog i) g.index = g.term := by
      rw [hdsn]; exact (hI3.vterm i).files
    have hfo : FilesOK (x.vlog i) (x.node i).commitIndex d.snaps := by
      rw [hdsn]; exact so.files
    have hci : (X'.node i).commitIndex = (x.node i).commitIndex := by
      rw [hXi]; exact le.commitIndex
    have hlogv : (Op.disconnected 0) = .snapTaken →
        ((X'.node i).step (.disconnected 0) [] []).log = (X'.node i).log := fun h => nomatch h
    have hkeep : ∀ K, K ≤ (x.node i).commitIndex → K ≤ (uncD β' d).log.entries.length →
        (uncD β' d).log.entries.take K = (x.vlog i).take K := by
      intro K h1 h2
      have := crash_keep_snap hV hI' hSr [] [] 0 (enabled_disc0 X'.cs hi src) hlogv K (by rw [hci]; exact h1)
        (by rw [hdV]; exact h2)
      rw [hdV, hXi, hent1] at this
      exact this
    have hshort := stale_is_short hdlen hft hfo hkeep hst
    obtain ⟨hcid, hnid, _, _⟩ := C10.restart_some _ _ _ _ hn
    have hFlen : (headSnap d).index ≤ (U β' post).log.entries.length := by
      rw [hent1]
      have hm := headSnap_mem _ (stale_pos _ hst)
      obtain ⟨g1, g2, _⟩ := hfo.files _ hm
      exact (hI.cinv.cmt.cc i _ g1 g2).1
    obtain ⟨hN, hent⟩ := staleN_of_restart (s := U β' post) (β := β') hret hn hst (by rw [hent1]; exact hft) hFlen
    rw [hent1] at hN hent
    obtain ⟨a1, _, _, a4, _, _, _, _, _, _, _, _, _, a14, _, _⟩ := restart_stale_fields _ retain sor n hn hst
    have hhd : (headSnap d).index = (headOf (x.node i).snapsDisk).index := by
      show (headOf d.snaps).index = _; rw [hdsn]
    have key := sinv_crash_stale hV hI' hSr (i := i) (op := .disconnected 0) (ra := []) (ord := []) (src := src) (k := 0)
      (retain := retain) (sor := sor) (N := U ((x.vlog i).take (headSnap d).index) n)
      (enabled_disc0 X'.cs hi src) hlogv
      (by rw [hdV]; exact hcid) (by rw [hdV]; exact hnid) (by rw [hdV]; rfl)
      (by
        rw [hdV, uncD_eq _ hdlen]
        show (pad _ _ ++ _).length < (headSnap d).index
        rw [List.length_append, pad_length]
        exact hshort)
      (by rw [hdV, hXi]; exact hN)
      (by
        intro e he
        rw [hent] at he
        exact hS.dec i e (List.mem_of_mem_take he))
    have hPn : U (newBase x.s2 i n.log.prev) n = U ((x.vlog i).take (headSnap d).index) n := by
      rw [a1]; rfl
    refine ⟨?_, ⟨by rw [a1, a4]; exact Nat.le_refl _, fun rs hrs => by rw [a14] at hrs; cases hrs⟩, by rw [a1, hhd], ?_⟩
    · have hview := view_crashS x.s2 i .snapTaken n _ hPn
      have hcs : crashC X'.cs i (.disconnected 0) (U ((x.vlog i).take (headSnap d).index) n) =
          crashC (view x.s2).cs i .snapTaken (U ((x.vlog i).take (headSnap d).index) n) := by
        rw [crashC_op, hXcs]
        exact crashC_regroup (view x.s2).cs i (.disconnected 0) (U β' post) _ pe.entries pe.term pe.lastLogIndex
          pe.lastLogTerm
      have hsn : newSnaps i (x.vnode i).snapsDisk (U ((x.vlog i).take (headSnap d).index) n).snapsDisk ++ (view x.s2).snaps =
          newSnaps i (X'.node i).snapsDisk (U ((x.vlog i).take (headSnap d).index) n).snapsDisk ++ X'.snaps := by
        rw [hXs, hXi]
        show newSnaps i (x.node i).snapsDisk n.snapsDisk ++ x.s2.snaps =
          newSnaps i post.snapsDisk n.snapsDisk ++ (newSnaps i (x.node i).snapsDisk post.snapsDisk ++ x.s2.snaps)
        rw [s3', newSnaps_same, List.nil_append]
      rw [hview, ← hcs, hsn]
      exact key
    · show ((crashS x.s2 i .snapTaken n).vnode i).log.entries = _
      rw [view_crashS_node, if_pos rfl, hPn, hent, hhd]

end

end SnapCut
end Raft
