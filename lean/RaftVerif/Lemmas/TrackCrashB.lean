/-
C12 at every crash point (part B): the invariant `TJ` of `Lemmas/TrackCrashA.lean` through the mutually recursive
leader block, every handler (but `onInstallSnap`, whose crash points are analysed in `Lemmas/SnapInstCrash.lean`),
`settle`, `handle`, `step`.  The structure of every proof is that of `Lemmas/ConfigTrack.lean` (`ti_…` ↦ `tj_…`).
-/
import RaftVerif.Lemmas.TrackCrashA

namespace Raft
namespace TrackCrash
open Node Track

variable {s₀ : Node} {b g : Bool}

/-! ## the mutually recursive leader block -/

theorem tj_setRepl {s : Node} (r : Repl) (h : TJ s₀ b g s) : TJ s₀ b g (s.setRepl r) := by
  unfold Node.setRepl; exact tj_ldr_same h rfl rfl

theorem tj_addReplication {s : Node} (n : CNode) (h : TJ s₀ b g s) : TJ s₀ b g (s.addReplication n) := by
  unfold Node.addReplication
  apply tj_setRepl
  split
  · exact tj_assert _ _ h
  · exact tj_panic _ _

theorem tj_notifyFlr {s : Node} (h : TJ s₀ b g s) : TJ s₀ b g s.notifyFlr := by
  unfold Node.notifyFlr; split
  · exact h
  · split
    · exact h
    · exact tj_panic _ _

theorem tj_beginFinishedRounds {s : Node} (h : TJ s₀ b g s) : TJ s₀ b g s.beginFinishedRounds := by
  unfold Node.beginFinishedRounds; exact tj_ldr_same h rfl rfl

theorem foldl_tj {β : Type} (f : Node → β → Node) (hf : ∀ s x, TJ s₀ b g s → TJ s₀ b g (f s x))
    (xs : List β) (s : Node) (hs : TJ s₀ b g s) : TJ s₀ b g (xs.foldl f s) := by
  induction xs generalizing s with
  | nil => exact hs
  | cons x xs ih => exact ih _ (hf _ _ hs)

theorem tj_push {s : Node} (q' : QItem) (h : TJ s₀ b true s) (hq : isLogEntryTyp q'.typ ≠ true) :
    TJ s₀ b true (s.withLdr { s.ldr with queue := s.ldr.queue ++ [q'] }) :=
  h.irr (ti_push q' h.1 hq) rfl id

theorem cfg_isSome_of_config? {e : Entry} {c : Config} (h : e.config? = some c) : e.cfg.isSome = true := by
  unfold Entry.config? at h
  split at h
  · cases hc : e.cfg with
    | none => rw [hc] at h; cases h
    | some x => rfl
  · cases h

theorem tj_push_append {s : Node} (q' : QItem) (h : TJ s₀ b true s)
    (hd : s.panicked = none → q'.toEntry.typ = etConfig → q'.toEntry.cfg.isSome = true) :
    TJ s₀ b true ((s.withLdr { s.ldr with queue := s.ldr.queue ++ [q'] }).appendEntry q'.toEntry) := by
  have h1 : TJ s₀ b false (s.withLdr { s.ldr with queue := s.ldr.queue ++ [q'] }) :=
    h.irr ⟨Order.inv_ldr_same h.1.1 rfl, fun hp => ⟨(h.1.2 hp).1.congr6 rfl rfl rfl rfl rfl rfl,
      fun e => Bool.noConfusion e⟩⟩ rfl id
  refine tj_appendEntry q'.toEntry h1 (fun _ hp x hx ht hlt => ?_) hd
  rcases List.mem_append.mp hx with e | e
  · exact Or.inl ((h.1.2 hp).2 rfl x e ht hlt)
  · rw [List.mem_singleton.mp e]; exact Or.inr ⟨rfl, rfl⟩

theorem block (s₀ : Node) : ∀ fuel : Nat, ∀ b : Bool,
    (∀ s bt, TJ s₀ b true s → TJ s₀ b true (storeEntry fuel s bt)) ∧
    (∀ s bt, TJ s₀ b true s → TJ s₀ b true (storeItems fuel s bt)) ∧
    (∀ s c, TJ s₀ b true s → (s.panicked = none → s.configs.latest.index ≤ c.index ∧ c.index ≤ s.lastLogIndex) →
      TJ s₀ b true (changeConfigL fuel s c)) ∧
    (∀ s t c, TJ s₀ b true s → TJ s₀ b true (doChangeConfig fuel s t c)) ∧
    (∀ s t c, TJ s₀ b true s → TJ s₀ b true (checkConfigActions fuel s t c)) ∧
    (∀ s t c id, TJ s₀ b true s → TJ s₀ b true (checkConfigAction fuel s t c id)) ∧
    (∀ s i, TJ s₀ b true s → i > s.commitIndex → TJ s₀ false true (setCommitIndexL fuel s i)) ∧
    (∀ s, TJ s₀ b true s → TJ s₀ b true (onMajorityCommit fuel s)) := by
  intro fuel
  induction fuel with
  | zero =>
    intro b
    refine ⟨?_, ?_, ?_, ?_, ?_, ?_, ?_, ?_⟩ <;> intros <;> (try unfold storeItems) <;>
      (try unfold storeEntry) <;> (try unfold changeConfigL) <;> (try unfold doChangeConfig) <;>
      (try unfold checkConfigActions) <;> (try unfold checkConfigAction) <;>
      (try unfold setCommitIndexL) <;> (try unfold onMajorityCommit) <;>
      (try split) <;> first | assumption | exact tj_panic _ _
  | succ n ih =>
    intro b
    obtain ⟨ihSE, ihSI, ihCL, ihDC, ihCAs, ihCA, ihSC, ihMC⟩ := ih b
    obtain ⟨_, _, _, _, fCAs, _, _, _⟩ := ih false
    refine ⟨?_, ?_, ?_, ?_, ?_, ?_, ?_, ?_⟩
    · -- storeEntry
      intro s bt hs
      unfold storeEntry; dsimp only
      have h1 : TJ s₀ b true (storeItems n s bt) := ihSI _ _ hs
      have h2 : TJ s₀ b true (storeItems n s bt).applyCommittedL := (tj_applyCommittedL h1).weaken
      repeat' split
      all_goals first
        | exact ihMC _ (tj_notifyFlr (tj_beginFinishedRounds h2))
        | exact ihMC _ (tj_notifyFlr (tj_beginFinishedRounds h1))
        | exact tj_notifyFlr (tj_beginFinishedRounds h2)
        | exact tj_notifyFlr (tj_beginFinishedRounds h1)
        | exact h2
        | exact h1
    · -- storeItems
      intro s bt hs
      cases bt with
      | nil => unfold storeItems; exact hs
      | cons q qs =>
        unfold storeItems; dsimp only
        apply ihSI
        split
        · exact tj_reply _ _ hs
        · split
          · split
            · exact tj_reply _ _ hs
            · exact tj_reply _ _ hs
          · have h2 := fun hd => tj_push_append (s₀ := s₀) (b := b)
              { q with index := s.lastLogIndex + 1, term := s.term, cfg := q.cfg.map Config.payload } hs hd
            split
            · split
              · split
                · rename_i cfg hcfg
                  have h2' := h2 (fun _ _ => cfg_isSome_of_config? hcfg)
                  refine ihCL _ _ h2' (fun hp => ?_)
                  have hidx := Order.config?_index hcfg
                  have hll := (h2'.1.1 hp).1.latest_le_last
                  exact ⟨by rw [hidx]; exact hll, by rw [hidx]; exact Nat.le_refl _⟩
                · exact tj_panic _ _
              · rename_i hnt
                exact h2 (fun _ ht => absurd ht hnt)
            · rename_i hnl
              exact tj_push _ hs hnl
    · -- changeConfigL
      intro s c hs hg
      unfold changeConfigL; dsimp only
      apply ihCAs
      apply foldl_tj
      · intro s x hs
        split
        · exact hs
        · split
          · exact tj_addReplication _ hs
          · exact tj_setRepl _ hs
      · exact tj_ldr_same (tj_changeConfigR c (tj_ldr_same hs rfl rfl) (fun hp => hg hp)) rfl rfl
    · -- doChangeConfig
      intro s t c hs
      unfold doChangeConfig; exact ihSE _ _ hs
    · -- checkConfigActions
      intro s t c hs
      unfold checkConfigActions; dsimp only
      apply foldl_tj
      · intro s x hs
        split
        · exact ihCA _ _ _ _ hs
        · exact hs
      · apply tj_popOrder
        split
        · split
          · exact ihDC _ _ _ hs
          · split
            · exact ihDC _ _ _ hs
            · exact tj_panic _ _
        · exact hs
    · -- checkConfigAction
      intro s t c id hs
      unfold checkConfigAction; dsimp only
      have h1 := fun r => tj_setRepl (s₀ := s₀) (b := b) (g := true) (s := s) r hs
      repeat' split
      all_goals first | exact hs | exact h1 _ | exact ihDC _ _ _ (h1 _)
    · -- setCommitIndexL
      intro s i hs hi
      unfold setCommitIndexL
      extract_lets s1 ready r s2 s3
      have h1 : TJ s₀ b true s1 := tj_commitLog i hs
      have h2 : TJ s₀ false true s2 := tj_setCommitIndexR i h1 (fun hp => by
        have hc := (h1.1.1 hp).1.applied_le_commit
        have e : s1.commitIndex = s.commitIndex := rfl
        exact ⟨by omega, fun e => Bool.noConfusion e⟩)
      have h3 : TJ s₀ false true s3 := by
        unfold s3; split
        · exact fCAs _ _ _ h2
        · exact h2
      split
      · split
        · exact tj_ldr_same (foldl_tj _ (fun s t hs => tj_reply _ _ hs) _ _ h3) rfl rfl
        · exact fCAs _ _ _ h3
      · exact h3
    · -- onMajorityCommit
      intro s hs
      unfold onMajorityCommit; dsimp only
      have hc : ∀ site, (s.panic site).commitIndex = s.commitIndex := by
        intro site; unfold Node.panic; split <;> rfl
      split
      · split
        · rename_i hgt
          exact tj_notifyFlr (tj_applyCommittedL (ihSC _ _ hs hgt.1)).weaken
        · exact hs
      · split
        · rename_i hgt
          exact tj_notifyFlr (tj_applyCommittedL
            (ihSC _ _ (tj_panic (s₀ := s₀) (b := b) (g := true) s _) (by rw [hc] at hgt; rw [hc]; exact hgt.1))).weaken
        · exact tj_panic _ _

theorem tj_storeEntry (f : Nat) {s : Node} (bt) (hs : TJ s₀ b true s) : TJ s₀ b true (storeEntry f s bt) :=
  (block s₀ f b).1 s bt hs
theorem tj_doChangeConfig (f : Nat) {s : Node} (t c) (hs : TJ s₀ b true s) : TJ s₀ b true (doChangeConfig f s t c) :=
  (block s₀ f b).2.2.2.1 s t c hs
theorem tj_checkConfigActions (f : Nat) {s : Node} (t c) (hs : TJ s₀ b true s) :
    TJ s₀ b true (checkConfigActions f s t c) :=
  (block s₀ f b).2.2.2.2.1 s t c hs
theorem tj_checkConfigAction (f : Nat) {s : Node} (t c id) (hs : TJ s₀ b true s) :
    TJ s₀ b true (checkConfigAction f s t c id) :=
  (block s₀ f b).2.2.2.2.2.1 s t c id hs
theorem tj_onMajorityCommit (f : Nat) {s : Node} (hs : TJ s₀ b true s) : TJ s₀ b true (onMajorityCommit f s) :=
  (block s₀ f b).2.2.2.2.2.2.2 s hs

/-! ## handlers outside the block -/

theorem tj_checkQuorum {s : Node} (hs : TJ s₀ b g s) : TJ s₀ b g s.checkQuorum := by
  unfold Node.checkQuorum; dsimp only
  repeat' split
  all_goals first
    | exact hs
    | exact tj_panic _ _
    | exact tj_setLeader _ (tj_setRole _ hs)
    | exact tj_setLeader _ (tj_setRole _ (tj_panic _ _))

theorem tj_transferReply {s : Node} (r : String) (hs : TJ s₀ b g s) : TJ s₀ b g (s.transferReply r) := by
  unfold Node.transferReply; exact tj_ldr_same (tj_reply _ _ hs) rfl rfl

theorem tj_tryTransfer {s : Node} (hs : TJ s₀ b g s) : TJ s₀ b g s.tryTransfer := by
  unfold Node.tryTransfer; dsimp only
  have hp := tj_popOrder hs
  repeat' split
  all_goals first
    | exact hs
    | exact hp
    | exact tj_panic _ _
    | exact tj_ldr_same hs rfl rfl
    | exact tj_ldr_same hp rfl rfl
    | exact tj_ldr_same (tj_panic (s₀ := s₀) (b := b) (g := g) _ _) rfl rfl

theorem tj_onTransfer {s : Node} (t tg : Nat) (hs : TJ s₀ b g s) : TJ s₀ b g (s.onTransfer t tg) := by
  unfold Node.onTransfer; dsimp only
  split
  · exact tj_reply _ _ hs
  · exact tj_tryTransfer (tj_ldr_same hs rfl rfl)

theorem tj_replyTransfer {s : Node} (r : String) (hs : TJ s₀ b true s) : TJ s₀ b true (s.replyTransfer r) := by
  unfold Node.replyTransfer; exact tj_checkConfigActions _ _ _ (tj_transferReply _ hs)

theorem tj_onTimeoutNowResult {s : Node} (src : Nat) (e : Bool) (r : Nat) (hs : TJ s₀ b true s) :
    TJ s₀ b true (s.onTimeoutNowResult src e r) := by
  unfold Node.onTimeoutNowResult
  extract_lets l0 t0 s1 s2 l1 t1
  have h0 : TJ s₀ b true s1 := tj_ldr_same hs rfl rfl
  have h2 : TJ s₀ b true s2 := by
    unfold s2
    split
    · split
      · exact tj_setRepl _ h0
      · exact h0
    · exact tj_panic _ _
  split
  · split
    · exact tj_tryTransfer h2
    · exact h2
  · split
    · split
      · exact tj_replyTransfer _ h0
      · exact tj_tryTransfer h0
    · exact tj_ldr_same h0 rfl rfl

theorem tj_leaderInit {s : Node} (hs : TJ s₀ b g s) : TJ s₀ b true s.leaderInit := by
  unfold Node.leaderInit; dsimp only
  apply tj_storeEntry
  apply tj_checkConfigActions
  apply foldl_tj
  · intro s x hs
    split
    · exact hs
    · exact tj_addReplication _ hs
  · exact tj_ldr_fresh (tj_assert _ _ hs)
      (fun hp => (Order.inv_assert (s₀ := s₀) (b := b) _ _ hs.1.1 hp).1.prev_le_snap) rfl

theorem tj_leaderRelease {s : Node} (hs : TJ s₀ b g s) : TJ s₀ b g s.leaderRelease := by
  unfold Node.leaderRelease Node.leaderReleaseRest; dsimp only
  refine tj_ldr_sub ?_ rfl (fun q hq => by cases hq)
  apply foldl_tj _ (fun s t hs => tj_reply _ _ hs)
  apply foldl_tj _ (fun s t hs => tj_reply _ _ hs)
  repeat' split
  all_goals first
    | exact hs
    | exact tj_setLeader _ hs
    | exact tj_transferReply _ hs
    | exact tj_setLeader _ (tj_transferReply _ hs)

theorem tj_startElection {s : Node} (hs : TJ s₀ b g s) : TJ s₀ b g s.startElection := by
  unfold Node.startElection
  extract_lets s1 s2 s3 s4
  have h4 : TJ s₀ b g s4 := tj_votesNeeded _ (tj_setVotedFor _ _ (tj_votesNeeded _ (tj_assert _ _ hs)))
  split
  · exact tj_setLeader _ (tj_setRole _ h4)
  · exact h4

theorem tj_onVoteResult {s : Node} (e : Bool) (t r : Nat) (hs : TJ s₀ b g s) : TJ s₀ b g (s.onVoteResult e t r) := by
  unfold Node.onVoteResult; dsimp only
  repeat' split
  all_goals first
    | exact hs
    | exact tj_setTerm _ (tj_setRole _ hs)
    | exact tj_setLeader _ (tj_setRole _ (tj_votesNeeded _ hs))
    | exact tj_votesNeeded _ hs

theorem tj_followerTimeout {s : Node} (hs : TJ s₀ b g s) : TJ s₀ b g s.followerTimeout := by
  unfold Node.followerTimeout; dsimp only
  split
  · exact tj_setRole _ (tj_setLeader _ hs)
  · exact tj_setLeader _ hs

theorem tj_releaseRole {s : Node} (r : Role) (hs : TJ s₀ b g s) : TJ s₀ b g (s.releaseRole r) := by
  unfold Node.releaseRole
  split
  · exact hs
  · exact tj_candTransfer _ hs
  · exact tj_leaderRelease hs

/-- One backward step on a goal `TJ s₀ b g (…)`. -/
syntax "tj_step" : tactic
macro_rules
  | `(tactic| tj_step) => `(tactic| first
      | with_reducible assumption
      | with_reducible exact tj_panic _ _
      | with_reducible apply tj_ret
      | with_reducible apply tj_reply
      | with_reducible apply tj_point
      | with_reducible apply tj_assert
      | with_reducible apply tj_setRole
      | with_reducible apply tj_setLeader
      | with_reducible apply tj_setTerm
      | with_reducible apply tj_setVotedFor
      | with_reducible apply tj_doClose
      | with_reducible apply tj_votesNeeded
      | with_reducible apply tj_candTransfer
      | with_reducible apply tj_snapPending
      | with_reducible apply tj_rpcReply
      | with_reducible apply tj_popOrder
      | with_reducible apply tj_setRepl
      | with_reducible apply tj_notifyFlr
      | with_reducible apply tj_commitLog
      | with_reducible apply tj_commitConfig
      | with_reducible apply tj_checkQuorum
      | with_reducible apply tj_tryTransfer
      | with_reducible apply tj_onTransfer
      | with_reducible apply tj_replyTransfer
      | with_reducible apply tj_transferReply
      | with_reducible apply tj_onTimeoutNowResult
      | with_reducible apply tj_startElection
      | with_reducible apply tj_onVoteResult
      | with_reducible apply tj_followerTimeout
      | with_reducible apply tj_storeEntry
      | with_reducible apply tj_doChangeConfig
      | with_reducible apply tj_checkConfigActions
      | with_reducible apply tj_checkConfigAction
      | with_reducible apply tj_onMajorityCommit
      | with_reducible apply tj_releaseRole
      | (with_reducible refine tj_ldr_same ?_ rfl rfl)
      | split)

syntax "tj_auto" : tactic
macro_rules
  | `(tactic| tj_auto) => `(tactic| repeat' tj_step)

theorem tj_onVoteRequest {s : Node} (q : VoteReq) (hs : TJ s₀ b g s) : TJ s₀ b g (s.onVoteRequest q) := by
  unfold Node.onVoteRequest
  dsimp only
  tj_auto

theorem tj_onTimeoutNow {s : Node} (hs : TJ s₀ b g s) : TJ s₀ b g s.onTimeoutNow := by
  unfold Node.onTimeoutNow
  tj_auto

theorem tj_onTakeSnapshot {s : Node} (t th : Nat) (hs : TJ s₀ b g s) : TJ s₀ b g (s.onTakeSnapshot t th) := by
  unfold Node.onTakeSnapshot
  tj_auto

theorem tj_rejectEntries {s : Node} (bt : List QItem) (hs : TJ s₀ b g s) : TJ s₀ b g (s.rejectEntries bt) := by
  induction bt generalizing s with
  | nil => exact hs
  | cons q qs ih =>
    unfold Node.rejectEntries
    dsimp only
    repeat' (first | tj_step | apply ih)

theorem tj_onWaitForStable {s : Node} (t : Nat) (hs : TJ s₀ b g s) : TJ s₀ b g (s.onWaitForStable t) := by
  unfold Node.onWaitForStable
  tj_auto

theorem tj_rpcDone {s : Node} (a c : Bool) (hs : TJ s₀ b g s) : TJ s₀ b g (s.rpcDone a c) := by
  unfold Node.rpcDone
  tj_auto

theorem tj_onChangeConfig {s : Node} (t : Nat) (c : Config) (hs : TJ s₀ b true s) :
    TJ s₀ b true (s.onChangeConfig t c) := by
  unfold Node.onChangeConfig
  dsimp only
  tj_auto

/-! ## snapshots and compaction -/

/-- the fallback of `doTakeSnapshot` (the configuration captured at request time is used when the FSM holds
none) yields a label the snapshot covers: what is asked of a pending snapshot request -/
def SnapFb (s : Node) : Prop :=
  ∀ rq, s.snapPending = some rq → s.fsm.index ≠ s.snapIndex → rq.minIndex ≤ s.fsm.index →
    0 < s.fsm.config.index ∨ rq.config.index ≤ s.fsm.index

instance (s : Node) : Decidable (SnapFb s) := by
  unfold SnapFb
  cases h : s.snapPending with
  | none => exact isTrue (fun rq hrq => by cases hrq)
  | some rq =>
    exact decidable_of_iff (s.fsm.index ≠ s.snapIndex → rq.minIndex ≤ s.fsm.index →
        0 < s.fsm.config.index ∨ rq.config.index ≤ s.fsm.index)
      ⟨fun hh rq' hrq' => by injection hrq' with e; rw [← e]; exact hh, fun hh => hh rq rfl⟩

/-- `SnapFb` is asked for the two operations that run the snapshot goroutine -/
def SnapFbOp (s : Node) : Op → Prop
  | .snapRun => SnapFb s
  | .shutdown => SnapFb s
  | _ => True

instance (s : Node) (op : Op) : Decidable (SnapFbOp s op) := by
  cases op <;> unfold SnapFbOp <;> infer_instance

theorem tj_snapRun {s : Node} (h : TJ s₀ b g s) (hfb : SnapFb s) : TJ s₀ b g s.snapRun := by
  unfold Node.snapRun
  split
  · exact h
  · rename_i rq hrq
    dsimp only
    have h0 := tj_snapPending (s₀ := s₀) (b := b) (g := g) none h
    split
    · exact tj_snapResult _ h0 (fun _ rs hrs => by injection hrs with hrs; rw [← hrs]; exact Nat.zero_le _)
    · rename_i hne
      split
      · exact tj_snapResult _ h0 (fun _ rs hrs => by injection hrs with hrs; rw [← hrs]; exact Nat.zero_le _)
      · rename_i hmin
        refine tj_snapResult _ (tj_publishSnap _ h0 rfl rfl (fun hpos => ?_) (fun hp => ?_)) (fun _ rs hrs => ?_)
        · show (if _ then _ else _) = _
          rw [if_pos hpos]
        · have hp' : s.panicked = none := hp
          have c := h.core hp'
          have cw := h.coreW hp'
          have m := h.mem hp'
          show (if s.fsm.config.index > 0 then s.fsm.config else rq.config).index ≤ s.fsm.index
          split
          · rename_i hpos
            rw [c.fsmOk.cfgPos hpos]
            exact newest_index_le c.contig _ _ (Nat.le_trans m.lab cw.snap_le_applied)
          · rename_i hz
            rcases hfb rq hrq hne (Nat.le_of_not_lt hmin) with h1 | h1
            · exact absurd h1 hz
            · exact h1
        · injection hrs with hrs; rw [← hrs]; exact Nat.le_refl _

theorem tj_onSnapshotTaken {s : Node} (h : TJ s₀ b g s) : TJ s₀ b g s.onSnapshotTaken := by
  cases hr : s.snapResult with
  | none => unfold Node.onSnapshotTaken; rw [hr]; exact h
  | some rs =>
    unfold Node.onSnapshotTaken
    rw [hr]
    dsimp -zeta only
    extract_lets s0 repls nowC0 canC0 nowC canC s1 src s2
    have h0 : TJ s₀ b g s0 := tj_snapResult none h (fun _ rs hrs => by cases hrs)
    have hrs : s0.panicked = none → rs.index ≤ s0.snapIndex := fun hp => (h.coreW hp).snapRes_le rs hr
    split
    · exact tj_reply _ _ h0
    · apply tj_reply
      unfold s2
      split
      · have hb0 : nowC0 ≤ rs.index := C09.foldl_le_init _ (fun m r => by split <;> omega) _ _
        have hc0 : canC0 ≤ rs.index := C09.foldl_le_init _ (fun m r => by split <;> omega) _ _
        have hnow : s0.panicked = none → nowC ≤ s0.snapIndex := fun hp =>
          Order.canLTE_le_of (h0.coreW hp).segs (h0.coreW hp).prev_le_snap (by have := hrs hp; omega)
        have hcan : s0.panicked = none → canC ≤ s0.snapIndex := fun hp =>
          Order.canLTE_le_of (h0.coreW hp).segs (h0.coreW hp).prev_le_snap (by have := hrs hp; omega)
        have hs1 : TJ s₀ b g s1 := by
          unfold s1; split
          · exact tj_compactLog _ h0 hnow
          · exact h0
        have e1 : s1.snapIndex = s0.snapIndex := by unfold s1; split <;> rfl
        have e2 : s1.panicked = s0.panicked := by unfold s1; split <;> rfl
        split
        · exact tj_notifyFlr (tj_ldr hs1 (fun hp => by rw [e1]; exact hcan (by rw [← e2]; exact hp)) (fun q hq => hq))
        · split
          · exact tj_notifyFlr (tj_ldr hs1 (fun hp => (hs1.coreW hp).prev_le_snap) (fun q hq => hq))
          · exact hs1
      · exact h0

theorem tj_checkLogCompact {s : Node} (h : TJ s₀ b g s) : TJ s₀ b g s.checkLogCompact := by
  unfold Node.checkLogCompact
  split
  · exact h
  · exact tj_compactLog _ h (fun hp => (h.coreW hp).removeLTE_le)

theorem tj_replUpdLoop {s : Node} (f : UpdFlags) (us : List ReplUpdate) (hs : TJ s₀ b true s) :
    TJ s₀ b true (replUpdLoop s f us).1 := by
  induction us generalizing s f with
  | nil => exact hs
  | cons u us ih =>
    unfold replUpdLoop
    dsimp only
    repeat' (first | tj_step | apply ih)

theorem tj_checkReplUpdates {s : Node} (us : List ReplUpdate) (hs : TJ s₀ b true s) :
    TJ s₀ b true (s.checkReplUpdates us) := by
  unfold Node.checkReplUpdates
  dsimp only
  have hL : TJ s₀ b true (replUpdLoop s {} us).1 := tj_replUpdLoop _ _ hs
  have hC : ∀ x, TJ s₀ b true x → TJ s₀ b true x.checkLogCompact := fun x hx => tj_checkLogCompact hx
  repeat' (first | tj_step | apply hC)

/-- what `Shutdown` does before waiting for the snapshot goroutine touches neither the FSM nor the pending request -/
def obsS (s : Node) : Fsm × Option SnapReq × Nat := (s.fsm, s.snapPending, s.snapIndex)

theorem obsS_reply (s : Node) (t : Nat) (r : String) : obsS (s.reply t r) = obsS s := by
  unfold Node.reply; split <;> rfl

theorem obsS_foldl {β : Type} (f : Node → β → Node) (hf : ∀ s x, obsS (f s x) = obsS s) (xs : List β) (s : Node) :
    obsS (xs.foldl f s) = obsS s := by
  induction xs generalizing s with
  | nil => rfl
  | cons x xs ih => exact (ih _).trans (hf _ _)

theorem obsS_releaseRole (s : Node) (r : Role) : obsS (s.releaseRole r) = obsS s := by
  unfold Node.releaseRole
  split
  · rfl
  · rfl
  · unfold Node.leaderRelease Node.leaderReleaseRest
    dsimp only
    show obsS (List.foldl _ (List.foldl _ _ _) _) = _
    rw [obsS_foldl _ (fun s t => obsS_reply _ _ _), obsS_foldl _ (fun s t => obsS_reply _ _ _)]
    unfold Node.transferReply
    repeat' split
    all_goals first
      | rfl
      | exact obsS_reply _ _ _

theorem obsS_doClose (s : Node) (r : String) : obsS (s.doClose r) = obsS s := by
  unfold Node.doClose; split <;> rfl

theorem tj_shutdown {s : Node} (hs : TJ s₀ b g s) (hfb : SnapFb s) : TJ s₀ b g s.shutdown := by
  unfold Node.shutdown
  extract_lets s1 s2 s3
  have h2 : TJ s₀ b g s2 := tj_releaseRole _ (tj_doClose _ hs)
  have e2 : obsS s2 = obsS s := (obsS_releaseRole _ _).trans (obsS_doClose _ _)
  have hfb2 : SnapFb s2 := by
    simp only [obsS, Prod.mk.injEq] at e2
    unfold SnapFb
    rw [e2.1, e2.2.1, e2.2.2]; exact hfb
  have h3 : TJ s₀ b g s3 := by
    unfold s3; split
    · exact tj_snapRun h2 hfb2
    · exact h2
  split
  · exact tj_onSnapshotTaken h3
  · exact h3

/-! ## bootstrap -/

theorem tj_bootstrap {s : Node} (t : Nat) (cfg : Config) (hs : TJ s₀ b g s) : TJ s₀ b g (s.bootstrap t cfg) := by
  unfold Node.bootstrap
  dsimp only
  repeat' split
  all_goals first
    | exact tj_reply _ _ hs
    | skip
  apply tj_setRole
  apply tj_reply
  have hpre : TJ s₀ b g (((s.appendEntry ({ cfg with index := 1, term := 1 } : Config).toEntry).commitLog 1).setTerm 1) :=
    tj_setTerm _ (tj_commitLog _ (tj_appendEntry' _ hs (fun _ _ => rfl)))
  have hidx : (((s.appendEntry ({ cfg with index := 1, term := 1 } : Config).toEntry).commitLog 1).setTerm 1).lastLogIndex = 1 := by
    rw [(Order.obs_eq (Order.irr_setTerm _ 1).1).1]; rfl
  have hl : TJ s₀ b g ((((s.appendEntry ({ cfg with index := 1, term := 1 } : Config).toEntry).commitLog 1).setTerm 1).withLast 1 1) :=
    tj_withLast 1 1 hpre (fun _ => hidx)
  exact tj_changeConfigR _ hl (fun hp => ⟨(hl.1.1 hp).1.latest_le_last, Nat.le_refl _⟩)

/-! ## the follower's append-entries handler -/

/-- every configuration entry of the request carries a payload (it decodes) -/
def EntriesDec (es : List Entry) : Prop := ∀ ne ∈ es, ne.typ = etConfig → ne.cfg.isSome = true

instance (es : List Entry) : Decidable (EntriesDec es) := by unfold EntriesDec; infer_instance

theorem tj_appendLoop (es : List Entry) : ∀ (st : AppLoop), TJ s₀ true false st.s → Order.chainB st.index es = true →
    EntriesDec es →
    (st.s.panicked = none → st.index ≤ st.s.lastLogIndex) →
    (st.s.panicked = none → ∀ ne ∈ es, ne.index ≤ st.s.lastLogIndex → st.s.snapIndex < ne.index →
      st.s.entryTerm? ne.index ≠ some ne.term →
      st.s.commitIndex < ne.index ∧ st.s.configs.committed.index < ne.index) →
    TJ s₀ true false (appendLoop st es).s ∧
    ((appendLoop st es).s.panicked = none → (appendLoop st es).index ≤ (appendLoop st es).s.lastLogIndex) := by
  induction es with
  | nil => intro st hs _ _ hidx _; unfold appendLoop; exact ⟨hs, hidx⟩
  | cons ne rest ih =>
    intro st hs hch hdec hidx hJ
    obtain ⟨hc1, hc2⟩ := Order.chainB_cons hch
    have hrest : ∀ x ∈ rest, ne.index < x.index := Order.chainB_gt rest ne.index hc2
    have hdec' : EntriesDec rest := fun x hx => hdec x (List.mem_cons_of_mem _ hx)
    unfold appendLoop
    dsimp only
    split
    · exact ⟨hs, hidx⟩
    · split
      · rename_i hsn
        refine ih _ hs hc2 hdec' (fun hp => ?_) (fun hp x hx => hJ hp x (List.mem_cons_of_mem _ hx))
        obtain ⟨c, hcl, _, _⟩ := hs.1.1 hp
        have h1 := c.snap_le_applied
        have h2 := c.applied_le_commit
        have h3 := hcl rfl
        show ne.index ≤ st.s.lastLogIndex
        omega
      · rename_i hsn
        split
        · rename_i hpres
          refine ih _ hs hc2 hdec' (fun _ => ?_) (fun hp x hx => hJ hp x (List.mem_cons_of_mem _ hx))
          simp only [Bool.and_eq_true, decide_eq_true_eq] at hpres
          exact hpres.1
        · rename_i hpres
          have h2 : TJ s₀ true false ((st.s.resolveConflict ne st.term).appendEntry ne) := by
            refine tj_appendEntry' ne (tj_resolveConflict ne st.term hs (fun hp hle => ?_))
              (fun _ => hdec ne (List.mem_cons_self ..))
            have hne : st.s.entryTerm? ne.index ≠ some ne.term := by
              intro he
              apply hpres
              simp only [Bool.and_eq_true, decide_eq_true_eq, beq_iff_eq]
              exact ⟨hle, he⟩
            have := hJ hp ne (List.mem_cons_self ..) hle (by omega) hne
            exact ⟨by omega, this.1, this.2⟩
          have e2 : ((st.s.resolveConflict ne st.term).appendEntry ne).lastLogIndex = ne.index := rfl
          split
          · split
            · rename_i cfg hcfg
              have hci := Order.config?_index hcfg
              have e3 := (changeConfigR_fields ((st.s.resolveConflict ne st.term).appendEntry ne) cfg).2.1
              refine ih _ (tj_changeConfigR cfg h2 (fun hp => ?_)) hc2 hdec' (fun _ => ?_) (fun _ x hx hle => ?_)
              · have := (h2.1.1 hp).1.latest_le_last
                rw [e2] at this
                exact ⟨by rw [hci]; exact this, by rw [hci, e2]; exact Nat.le_refl _⟩
              · show ne.index ≤ _
                rw [e3, e2]; exact Nat.le_refl _
              · have := hrest x hx
                rw [e3, e2] at hle
                omega
            · exact ⟨h2, fun _ => Nat.le_of_eq e2.symm⟩
          · refine ih _ h2 hc2 hdec' (fun _ => Nat.le_of_eq e2.symm) (fun _ x hx hle => ?_)
            have := hrest x hx
            have hle' : x.index ≤ ne.index := hle
            omega

theorem tj_appendCheck {s : Node} (q : AppendReq) (h : TJ s₀ true g s) : TJ s₀ true g (s.appendCheck q) := by
  unfold Node.appendCheck
  split
  · split
    · exact tj_ret _ h
    · rename_i hnl
      extract_lets s1 plt
      have hI : Order.Irr s s1 := by
        unfold s1; split
        · exact Order.Irr.refl _
        · split
          · exact Order.Irr.refl _
          · exact Order.irr_panic _ _
      have h1 : TJ s₀ true g s1 := by
        unfold s1; split
        · exact h
        · split
          · exact h
          · exact tj_panic _ _
      split
      · exact tj_ret _ h1
      · split
        · rename_i hcc
          refine tj_ret _ (tj_applyCommitted (tj_setCommitIndexR (b' := true) _ h1 (fun hp => ?_)))
          obtain ⟨e1, _, _, _, _, _⟩ := Order.obs_eq hI.1
          have := (h1.1.1 hp).1.applied_le_commit
          simp only [Node.canCommit, Bool.and_eq_true, decide_eq_true_eq] at hcc
          exact ⟨by omega, fun _ => by rw [e1]; omega⟩
        · exact tj_ret _ h1
  · exact tj_ret _ h

theorem tj_onAppendEntries {s : Node} (q : AppendReq) (h : TJ s₀ true g s)
    (hok' : q.term < s.term ∨ Order.AppendOk s q) (hdec' : q.term < s.term ∨ EntriesDec q.entries) :
    TJ s₀ true false (s.onAppendEntries q) := by
  unfold Node.onAppendEntries
  split
  · exact tj_ret _ h.dropQ
  · rename_i hterm
    have hok : Order.AppendOk s q := by
      rcases hok' with h1 | h1
      · exact absurd h1 hterm
      · exact h1
    have hdec : EntriesDec q.entries := by
      rcases hdec' with h1 | h1
      · exact absurd h1 hterm
      · exact h1
    extract_lets s1 s2 s3 st s4 s4c s5
    have hI2 : Order.Irr s s2 := by
      refine Order.Irr.trans ?_ ((Order.irr_setRole _ _).trans (Order.irr_setLeader _ _))
      unfold s1; split
      · exact (Order.irr_setTerm _ _).trans (Order.irr_setRole _ _)
      · exact Order.Irr.refl _
    have h2 : TJ s₀ true false s2 := by
      unfold s2 s1
      apply tj_setLeader; apply tj_setRole
      split
      · exact tj_setRole _ (tj_setTerm _ h.dropQ)
      · exact h.dropQ
    have h3 : TJ s₀ true false s3 := tj_appendCheck q h2
    have hP : Order.Pre q.prevLogIndex s s3 := (Order.Pre.of_irr hI2).trans (Order.appendCheck_pre s2 q)
    split
    · exact h3
    · rename_i hres
      have hres' : s3.result = 0 := by
        cases hr : s3.result with
        | zero => rfl
        | succ n => exact absurd (by rw [hr]; exact Nat.succ_ne_zero n) hres
      obtain ⟨p1, p2, p3, p4, p5⟩ := hP
      have hL := tj_appendLoop (s₀ := s₀) q.entries { s := s3, index := q.prevLogIndex, term := q.prevLogTerm }
        h3 hok.1 hdec (fun hp => by
          obtain ⟨c, hcl, _, _⟩ := h3.1.1 hp
          have := c.snap_le_applied; have := c.applied_le_commit; have := hcl rfl
          obtain ⟨e1, _, e3, _⟩ := Order.obs_eq (Order.Irr.trans hI2 (Order.Irr.refl s2)).1
          have hr := Order.appendCheck_result s2 q hres'
          show q.prevLogIndex ≤ s3.lastLogIndex
          rw [p2]; rw [p3] at *; rw [p2] at *
          rw [e1, e3] at hr
          omega)
        (fun _ ne hne hle hsn hterm => by
          have hgt := Order.chainB_gt _ _ hok.1 ne hne
          have hterm' : s.entryTerm? ne.index ≠ some ne.term := by
            unfold Node.entryTerm? at hterm ⊢
            rw [← p1]; exact hterm
          have := hok.2 ne hne (by rw [← p2]; exact hle) (by rw [← p3]; exact hsn) hterm'
          exact ⟨by show s3.commitIndex < ne.index; omega, by show s3.configs.committed.index < ne.index; omega⟩)
      have h4 : TJ s₀ true false s4 := hL.1
      apply tj_ret
      unfold s5
      split
      · split
        · rename_i hcc
          refine tj_applyCommitted (tj_setCommitIndexR (b' := true) _ (tj_commitLog _ h4) (fun hp => ?_))
          have hidx : st.index ≤ s4.lastLogIndex := hL.2 hp
          have : s4c.fsm.index ≤ s4c.commitIndex :=
            ((tj_commitLog (s₀ := s₀) (b := true) (g := false) s4.lastLogIndex h4).1.1 hp).1.applied_le_commit
          simp only [Node.canCommit, Bool.and_eq_true, decide_eq_true_eq] at hcc
          exact ⟨by omega, fun _ => hidx⟩
        · exact tj_commitLog _ h4
      · exact h4

/-! ## every operation but `install` -/

/-- what is asked of the operation beyond `Order.ReqOk`: the configuration entries of an append request (that is
not stale) decode -/
def ReqDec (s : Node) : Op → Prop
  | .append q => q.term < s.term ∨ EntriesDec q.entries
  | _ => True

instance (s : Node) (op : Op) : Decidable (ReqDec s op) := by
  cases op <;> unfold ReqDec <;> infer_instance

theorem tj_handle_true {s : Node} (op : Op) (hs : TJ s₀ true true s) (hr : Order.ReqOk s op) (hd : ReqDec s op)
    (hfb : SnapFbOp s op) (hni : ∀ q, op ≠ .install q) :
    TJ s₀ true false (s.handle op) ∧ ((s.handle op).role = .leader → TJ s₀ true true (s.handle op)) := by
  have key : ∀ x : Node, TJ s₀ true true x → TJ s₀ true false x ∧ (x.role = .leader → TJ s₀ true true x) :=
    fun x hx => ⟨hx.dropQ, fun _ => hx⟩
  cases op <;> unfold Node.handle <;> dsimp only
  case vote q => exact key _ (tj_rpcDone _ _ (tj_onVoteRequest _ hs))
  case append q =>
    by_cases hq : q.term < s.term
    · apply key
      apply tj_rpcDone
      unfold Node.onAppendEntries
      rw [if_pos hq]
      exact tj_ret _ hs
    · refine ⟨tj_rpcDone _ _ (tj_onAppendEntries _ hs hr hd), fun hl => ?_⟩
      rw [role_rpcDone] at hl
      exact absurd hl (LC.nl_onAppendEntries s q hq)
  case install q => exact absurd rfl (hni q)
  case timeoutNow => exact key _ (tj_rpcDone _ _ (tj_onTimeoutNow hs))
  case identity a b c => exact key _ (tj_rpcReply _ hs)
  case disconnected n => apply key; tj_auto
  case timeout => apply key; tj_auto
  case newEntries bt => apply key; split; exact tj_storeEntry _ _ hs; exact tj_rejectEntries _ hs
  case changeConfig t c => apply key; split; exact tj_onChangeConfig _ _ hs; exact tj_bootstrap _ _ hs
  case takeSnapshot t th => exact key _ (tj_onTakeSnapshot _ _ hs)
  case snapRun => exact key _ (tj_snapRun hs hfb)
  case snapTaken => exact key _ (tj_onSnapshotTaken hs)
  case waitStable t => apply key; split; exact tj_onWaitForStable _ hs; exact tj_reply _ _ hs
  case transfer t tg => apply key; tj_auto
  case voteResult e t r => apply key; tj_auto
  case replUpdates us => apply key; split; exact tj_checkReplUpdates _ hs; exact hs
  case transferTimeout => apply key; tj_auto
  case timeoutNowResult a b c => apply key; tj_auto
  case newTermTimeout => apply key; tj_auto
  case shutdown => exact key _ (tj_shutdown hs hfb)

theorem tj_handle_false {s : Node} (op : Op) (hs : TJ s₀ true false s) (hl : s.role ≠ .leader)
    (hr : Order.ReqOk s op) (hd : ReqDec s op) (hfb : SnapFbOp s op) (hni : ∀ q, op ≠ .install q) :
    TJ s₀ true false (s.handle op) := by
  cases op <;> unfold Node.handle <;> dsimp only
  case vote q => exact tj_rpcDone _ _ (tj_onVoteRequest _ hs)
  case append q => exact tj_rpcDone _ _ (tj_onAppendEntries _ hs hr hd)
  case install q => exact absurd rfl (hni q)
  case timeoutNow => exact tj_rpcDone _ _ (tj_onTimeoutNow hs)
  case identity a b c => exact tj_rpcReply _ hs
  case disconnected n => tj_auto
  case timeout =>
    split
    · exact tj_followerTimeout hs
    · exact tj_startElection hs
    · rename_i h; exact absurd h hl
  case newEntries bt => rw [if_neg hl]; exact tj_rejectEntries _ hs
  case changeConfig t c => rw [if_neg hl]; exact tj_bootstrap _ _ hs
  case takeSnapshot t th => exact tj_onTakeSnapshot _ _ hs
  case snapRun => exact tj_snapRun hs hfb
  case snapTaken => exact tj_onSnapshotTaken hs
  case waitStable t => rw [if_neg hl]; exact tj_reply _ _ hs
  case transfer t tg => rw [if_neg hl]; exact tj_reply _ _ hs
  case voteResult e t r => tj_auto
  case replUpdates us => rw [if_neg hl]; exact hs
  case transferTimeout => rw [if_neg (fun h => hl h.1)]; exact hs
  case timeoutNowResult a b c => rw [if_neg (fun h => hl h.1)]; exact hs
  case newTermTimeout => rw [if_neg (fun h => hl h.1)]; exact hs
  case shutdown => exact tj_shutdown hs hfb

theorem tj_initRole {s : Node} (hs : TJ s₀ b false s) :
    TJ s₀ b false s.initRole ∧ (s.role = .leader → TJ s₀ b true s.initRole) := by
  unfold Node.initRole
  split
  · rename_i h; exact ⟨hs, fun e => by rw [h] at e; cases e⟩
  · rename_i h; exact ⟨tj_startElection hs, fun e => by rw [h] at e; cases e⟩
  · exact ⟨(tj_leaderInit hs).dropQ, fun _ => tj_leaderInit hs⟩

theorem tj_settle (fuel : Nat) (s : Node) (cur : Role) (hf : LC.need s.role cur ≤ fuel) (h : TJ s₀ b false s)
    (hq : cur = .leader → s.role = .leader → TJ s₀ b true s) :
    TJ s₀ b false (settle fuel s cur) ∧ ((settle fuel s cur).role = .leader → TJ s₀ b true (settle fuel s cur)) := by
  induction fuel generalizing s cur with
  | zero =>
    have e : s.role = cur := LC.need_zero (Nat.le_zero.mp hf)
    unfold settle
    exact ⟨h, fun hl => hq (by rw [← e]; exact hl) hl⟩
  | succ n ih =>
    unfold settle
    split
    · rename_i e
      exact ⟨h, fun hl => hq (by rw [← e]; exact hl) hl⟩
    · rename_i hne
      dsimp only
      have hr : (s.releaseRole cur).role = s.role := LC.role_releaseRole s cur
      have h1 : TJ s₀ b false (s.releaseRole cur) := tj_releaseRole cur h
      obtain ⟨h2, h3⟩ := tj_initRole h1
      apply ih
      · -- enough fuel remains
        unfold Node.initRole
        cases hrole : s.role with
        | follower =>
          rw [hr, hrole]; dsimp only; rw [hr, hrole, LC.need_self]; omega
        | candidate =>
          have hneed : LC.need s.role cur = 3 := by unfold LC.need; rw [if_neg hne, hrole]
          rw [hr, hrole]; dsimp only
          rw [hrole] at hneed hf
          rcases LC.role_startElection (s.releaseRole cur) with e | e
          · rw [e, hr, hrole, LC.need_self]; omega
          · rw [e]; unfold LC.need; simp; omega
        | leader =>
          have hneed : LC.need s.role cur = 2 := by unfold LC.need; rw [if_neg hne, hrole]
          rw [hr, hrole]; dsimp only
          rw [hrole] at hneed hf
          have hc := LC.role_leaderInit (s.releaseRole cur) (by rw [hr, hrole]; exact fun x => by cases x)
          cases hrl : (s.releaseRole cur).leaderInit.role with
          | candidate => exact absurd hrl hc
          | leader => rw [LC.need_self]; omega
          | follower => unfold LC.need; simp; omega
      · exact h2
      · intro hl _
        exact h3 hl

/-- `begin` (clearing the ghost outputs, among them the crash-point trace) establishes the step invariant -/
theorem tj_begin {s : Node} (ra : List Nat) (ord : List (List Nat)) (ho : Order.Ordered s) (c : Core s)
    (hq : g = true → QM s) (m : Mem s) : TJ s true g (s.begin ra ord) :=
  ⟨ti_begin ra ord ho c hq, fun _ => ⟨m.congr rfl rfl rfl, fun p hp => by cases hp⟩⟩

/-- **Composition**: one step (any operation but an install request) from an ordered state satisfying `Core`
(and `QM` if leader) and `Mem`: the invariant `TJ` holds of the state after the step — in particular every crash
point recorded in its `trace` satisfies `Pd`, if the step has not panicked. -/
theorem tj_stepAll {s : Node} (op : Op) (ra : List Nat) (ord : List (List Nat)) (ho : Order.Ordered s)
    (c : Core s) (hq : s.role = .leader → QM s) (m : Mem s) (hr : Order.ReqOk s op) (hd : ReqDec s op)
    (hfb : SnapFbOp s op) (hni : ∀ q, op ≠ .install q) :
    TJ s true false (s.step op ra ord) := by
  unfold Node.step
  dsimp only
  have hr' : Order.ReqOk (s.begin ra ord) op := by cases op <;> exact hr
  have hrole : (s.begin ra ord).role = s.role := rfl
  have hfb' : SnapFbOp (s.begin ra ord) op := by cases op <;> exact hfb
  have hd' : ReqDec (s.begin ra ord) op := by cases op <;> exact hd
  have hH : TJ s true false ((s.begin ra ord).handle op) ∧
      (s.role = .leader → ((s.begin ra ord).handle op).role = .leader → TJ s true true ((s.begin ra ord).handle op)) := by
    by_cases hl : s.role = .leader
    · obtain ⟨a1, a2⟩ := tj_handle_true op (tj_begin ra ord ho c (fun _ => hq hl) m) hr' hd' hfb' hni
      exact ⟨a1, fun _ => a2⟩
    · exact ⟨tj_handle_false op (tj_begin ra ord ho c (fun e => Bool.noConfusion e) m) (by rw [hrole]; exact hl)
        hr' hd' hfb' hni, fun e => absurd e hl⟩
  split
  · exact hH.1
  · refine (tj_settle 6 _ _ ?_ hH.1 ?_).1
    · exact Nat.le_trans (LC.need_le _ _) (by decide)
    · intro hc hl
      exact hH.2 (by rw [← hrole]; exact hc) hl

end TrackCrash
end Raft
