/-
Un-compaction, continued (Lemmas/SnapRelU.lean): the handlers outside the leader block, role transitions, replication
updates that report no compaction, and the complete step of the operations `UPlain`:
`(s.step op ra ord).panicked = none → (U β s).step op ra ord = U β (s.step op ra ord)`.
-/
import RaftVerif.Lemmas.SnapRelU
namespace Raft
namespace SnapRelU
open Node SnapRelP
variable {β : List Entry}

@[uproj] theorem zrr_noContact' (r : Repl) : (zrr r).noContact = r.noContact := rfl
@[uproj] theorem zrr_matchIndex' (r : Repl) : (zrr r).matchIndex = r.matchIndex := rfl
@[uproj] theorem zrr_node' (r : Repl) : (zrr r).node = r.node := rfl
@[uproj] theorem zrr_round' (r : Repl) : (zrr r).round = r.round := rfl
@[uproj] theorem zrr_id' (r : Repl) : (zrr r).id = r.id := rfl

@[usimp] theorem U_checkQuorum (s : Node) : (U β s).checkQuorum = U β s.checkQuorum := by
  unfold Node.checkQuorum
  have hp : True := trivial
  ucomm hp [U_findRepl?, match_sn_zrr, match_ns_zrr, U_setRepl_lit]

@[usimp] theorem U_transferReply (s : Node) (r : String) : (U β s).transferReply r = U β (s.transferReply r) := by
  unfold Node.transferReply
  have hp : True := trivial
  ucomm hp

@[usimp] theorem U_tryTransfer (s : Node) : (U β s).tryTransfer = U β s.tryTransfer := by
  unfold Node.tryTransfer
  have hp : True := trivial
  ucomm hp

@[usimp] theorem U_onTransfer (s : Node) (t g : Nat) : (U β s).onTransfer t g = U β (s.onTransfer t g) := by
  unfold Node.onTransfer
  have hp : True := trivial
  ucomm hp

@[usimp] theorem U_replyTransfer (s : Node) (r : String) (hp : (s.replyTransfer r).panicked = none) :
    (U β s).replyTransfer r = U β (s.replyTransfer r) := by
  unfold Node.replyTransfer at hp ⊢
  ucomm hp

@[usimp] theorem U_onTimeoutNowResult (s : Node) (src : Nat) (e : Bool) (r : Nat)
    (hp : (s.onTimeoutNowResult src e r).panicked = none) :
    (U β s).onTimeoutNowResult src e r = U β (s.onTimeoutNowResult src e r) := by
  unfold Node.onTimeoutNowResult at hp ⊢
  ucomm hp [U_findRepl?, match_sn_zrr, match_ns_zrr, U_setRepl_lit]

/-! ### leader init / release, candidate, follower, role transitions -/

theorem U_withLdr_fresh (s : Node) (nd : CNode) (nv si : Nat) :
    (U β s).withLdr { node := nd, numVoters := nv, startIndex := si, removeLTE := (U β s).log.prev,
                      queue := [], repls := [], transfer := {}, waitStable := [] } =
      U β (s.withLdr { node := nd, numVoters := nv, startIndex := si, removeLTE := s.log.prev,
                       queue := [], repls := [], transfer := {}, waitStable := [] }) := rfl

theorem U_withLdr_released (s : Node) (nd : CNode) (nv si : Nat) :
    (U β s).withLdr { node := nd, numVoters := nv, startIndex := si, removeLTE := (U β s).ldr.removeLTE } =
      U β (s.withLdr { node := nd, numVoters := nv, startIndex := si, removeLTE := s.ldr.removeLTE }) := rfl

@[usimp] theorem U_leaderInit (s : Node) (hp : s.leaderInit.panicked = none) : (U β s).leaderInit = U β s.leaderInit := by
  unfold Node.leaderInit at hp ⊢
  dsimp only at hp ⊢
  have h1 := npk (k := fun x => storeEntry (fuelFor 1) x [{ typ := etNop }]) (fun π x => P_storeEntry _ x _) hp
  have h2 := npk (k := fun x => checkConfigActions (fuelFor 0) x 0 x.configs.latest) (fun π x => by pcomm) h1
  have e0 : ((U β s).assert ((U β s).leader == (U β s).nid) "assert.leaderInit").withLdr
        { node := ((U β s).assert ((U β s).leader == (U β s).nid) "assert.leaderInit").configs.latest.get
            ((U β s).assert ((U β s).leader == (U β s).nid) "assert.leaderInit").nid,
          numVoters := ((U β s).assert ((U β s).leader == (U β s).nid) "assert.leaderInit").configs.latest.numVoters,
          startIndex := ((U β s).assert ((U β s).leader == (U β s).nid) "assert.leaderInit").lastLogIndex + 1,
          removeLTE := ((U β s).assert ((U β s).leader == (U β s).nid) "assert.leaderInit").log.prev,
          queue := [], repls := [], transfer := {}, waitStable := [] } =
      U β ((s.assert (s.leader == s.nid) "assert.leaderInit").withLdr
        { node := (s.assert (s.leader == s.nid) "assert.leaderInit").configs.latest.get
            (s.assert (s.leader == s.nid) "assert.leaderInit").nid,
          numVoters := (s.assert (s.leader == s.nid) "assert.leaderInit").configs.latest.numVoters,
          startIndex := (s.assert (s.leader == s.nid) "assert.leaderInit").lastLogIndex + 1,
          removeLTE := (s.assert (s.leader == s.nid) "assert.leaderInit").log.prev,
          queue := [], repls := [], transfer := {}, waitStable := [] }) := by
    have := U_assert (β := β) s (s.leader == s.nid) "assert.leaderInit"
    rw [show (U β s).assert ((U β s).leader == (U β s).nid) "assert.leaderInit" = _ from this]
    exact U_withLdr_fresh _ _ _ _
  rw [e0]
  dsimp +instances only [uproj]
  rw [foldl_U (β := β) _ ?_ ?_ _ _ h2]
  · dsimp +instances only [uproj]
    rw [U_checkConfigActions _ _ _ _ h1, U_storeEntry _ _ _ hp]
  · intro x nd hx
    by_cases hid : nd.id = x.nid
    · rw [if_pos hid, if_pos (show nd.id = (U β x).nid from hid)]
    · rw [if_neg hid] at hx ⊢
      rw [if_neg (show ¬ nd.id = (U β x).nid from hid)]
      exact U_addReplication x nd hx
  · intro x nd hx
    by_cases hid : nd.id = x.nid
    · rw [if_pos hid] at hx; exact hx
    · rw [if_neg hid] at hx
      exact npk (k := fun y => y.addReplication nd) (fun π y => P_addReplication y nd) hx

@[usimp] theorem foldl_reply_U {α : Type} (g : α → Nat) (r : String) (xs : List α) (s : Node) :
    xs.foldl (fun s x => s.reply (g x) r) (U β s) = U β (xs.foldl (fun s x => s.reply (g x) r) s) :=
  foldl_U' _ (fun s x => U_reply s (g x) r) xs s

@[usimp] theorem U_leaderReleaseRest (s : Node) : (U β s).leaderReleaseRest = U β s.leaderReleaseRest := by
  unfold Node.leaderReleaseRest
  have hp : True := trivial
  ucomm hp [U_withLdr_released]

@[usimp] theorem U_leaderRelease (s : Node) : (U β s).leaderRelease = U β s.leaderRelease := by
  unfold Node.leaderRelease
  have hp : True := trivial
  ucomm hp

@[usimp] theorem U_startElection (s : Node) : (U β s).startElection = U β s.startElection := by
  unfold Node.startElection
  have hp : True := trivial
  ucomm hp

@[usimp] theorem U_onVoteResult (s : Node) (e : Bool) (t r : Nat) : (U β s).onVoteResult e t r = U β (s.onVoteResult e t r) := by
  unfold Node.onVoteResult
  have hp : True := trivial
  ucomm hp

@[usimp] theorem U_followerTimeout (s : Node) : (U β s).followerTimeout = U β s.followerTimeout := by
  unfold Node.followerTimeout
  have hp : True := trivial
  ucomm hp

@[usimp] theorem U_releaseRole (s : Node) (r : Role) : (U β s).releaseRole r = U β (s.releaseRole r) := by
  unfold Node.releaseRole
  have hp : True := trivial
  ucomm hp

@[usimp] theorem U_initRole (s : Node) (hp : s.initRole.panicked = none) : (U β s).initRole = U β s.initRole := by
  unfold Node.initRole at hp ⊢
  ucomm hp

theorem settle_sticky (f : Nat) : ∀ (s : Node) (c : Role), (settle f s c).panicked = none → s.panicked = none := by
  intro s c h
  exact npk (k := fun x => settle f x c) (fun π x => P_settle f x c) h

@[usimp] theorem U_settle (f : Nat) : ∀ (s : Node) (c : Role), (settle f s c).panicked = none →
    settle f (U β s) c = U β (settle f s c) := by
  induction f with
  | zero => intro s c _; rfl
  | succ n ih =>
    intro s c hp
    unfold settle at hp ⊢
    dsimp +instances only [uproj]
    by_cases hr : s.role = c
    · rw [if_pos hr, if_pos hr]
    · rw [if_neg hr] at hp ⊢
      rw [if_neg hr]
      dsimp only at hp ⊢
      have h1 : (s.releaseRole c).initRole.panicked = none := settle_sticky n _ _ hp
      rw [U_releaseRole, U_initRole _ h1]
      dsimp +instances only [uproj]
      exact ih _ _ hp

/-! ### RPC handlers and tasks -/

@[usimp] theorem U_onVoteRequest (s : Node) (q : VoteReq) : (U β s).onVoteRequest q = U β (s.onVoteRequest q) := by
  unfold Node.onVoteRequest
  have hp : True := trivial
  ucomm hp

@[usimp] theorem U_onTimeoutNow (s : Node) : (U β s).onTimeoutNow = U β s.onTimeoutNow := by
  unfold Node.onTimeoutNow
  have hp : True := trivial
  ucomm hp

@[usimp] theorem U_rpcDone (s : Node) (x y : Bool) : (U β s).rpcDone x y = U β (s.rpcDone x y) := by
  unfold Node.rpcDone
  have hp : True := trivial
  ucomm hp

@[usimp] theorem U_onTakeSnapshot (s : Node) (t th : Nat) : (U β s).onTakeSnapshot t th = U β (s.onTakeSnapshot t th) := by
  unfold Node.onTakeSnapshot
  have hp : True := trivial
  ucomm hp

@[usimp] theorem U_rejectEntries (s : Node) (bt : List QItem) : (U β s).rejectEntries bt = U β (s.rejectEntries bt) := by
  induction bt generalizing s with
  | nil => rfl
  | cons q qs ih =>
    unfold Node.rejectEntries
    have hp : True := trivial
    ucomm hp [ih]

@[usimp] theorem U_onWaitForStable (s : Node) (t : Nat) : (U β s).onWaitForStable t = U β (s.onWaitForStable t) := by
  unfold Node.onWaitForStable
  have hp : True := trivial
  ucomm hp

/-! ### replication updates (without compaction reports) -/

/-- no update reports a compaction (`LogRel.NoCompact`) -/
def NoRm (us : List ReplUpdate) : Prop := ∀ u ∈ us, ∀ v, u.upd ≠ .removeLTE v

/-- `U` on the state component of the result of `replUpdLoop` -/
def Up (β : List Entry) (p : Node × UpdFlags) : Node × UpdFlags := (U β p.1, p.2)

theorem replUpdLoop_sticky (us : List ReplUpdate) (s : Node) (f : UpdFlags)
    (h : (replUpdLoop s f us).1.panicked = none) : s.panicked = none := by
  refine npk (k := fun x => (replUpdLoop x f us).1) (fun π x => ?_) h
  rw [P_replUpdLoop]; rfl

theorem U_replUpdLoop (us : List ReplUpdate) (hus : NoRm us) : ∀ (s : Node) (f : UpdFlags),
    (replUpdLoop s f us).1.panicked = none →
    replUpdLoop (U β s) f us = Up β (replUpdLoop s f us) ∧ ((replUpdLoop s f us).2.removeLTEU = f.removeLTEU) := by
  induction us with
  | nil => intro s f _; exact ⟨rfl, rfl⟩
  | cons u us ih =>
    intro s f hp
    have hus' : NoRm us := fun x hx => hus x (List.mem_cons_of_mem _ hx)
    have hu := hus u (List.mem_cons_self ..)
    unfold replUpdLoop at hp ⊢
    by_cases hr : u.removed = true
    · rw [if_pos hr] at hp ⊢
      rw [if_pos hr]
      exact ih hus' s f hp
    · rw [if_neg hr] at hp ⊢
      rw [if_neg hr, U_findRepl?]
      cases hf : s.findRepl? u.id with
      | none =>
        rw [hf] at hp
        exact ih hus' s f hp
      | some st =>
        rw [hf] at hp
        dsimp only [Option.map] at hp ⊢
        cases hupd : u.upd with
        | matchIndex v =>
          rw [hupd] at hp
          dsimp only at hp ⊢
          have hs := replUpdLoop_sticky us _ _ hp
          have e1 : (U β s).setRepl { zrr st with matchIndex := v } = U β (s.setRepl { st with matchIndex := v }) :=
            U_setRepl s { st with matchIndex := v }
          have e2 : (if (!(zrr st).node.voter) = true ∧ (zrr st).node.action ≠ actNone then
                checkConfigAction (fuelFor 0) ((U β s).setRepl { zrr st with matchIndex := v }) 0
                  ((U β s).setRepl { zrr st with matchIndex := v }).configs.latest (zrr st).id
              else (U β s).setRepl { zrr st with matchIndex := v }) =
              U β (if (!st.node.voter) = true ∧ st.node.action ≠ actNone then
                checkConfigAction (fuelFor 0) (s.setRepl { st with matchIndex := v }) 0
                  (s.setRepl { st with matchIndex := v }).configs.latest st.id
              else s.setRepl { st with matchIndex := v }) := by
            rw [e1]
            by_cases hc : (!st.node.voter) = true ∧ st.node.action ≠ actNone
            · rw [if_pos hc] at hs ⊢
              rw [if_pos (show (!(zrr st).node.voter) = true ∧ (zrr st).node.action ≠ actNone from hc)]
              exact U_checkConfigAction _ _ _ _ _ hs
            · rw [if_neg hc, if_neg (show ¬ ((!(zrr st).node.voter) = true ∧ (zrr st).node.action ≠ actNone) from hc)]
          rw [e2]
          obtain ⟨i1, i2⟩ := ih hus' _ { f with matchU := true } hp
          exact ⟨i1, i2⟩
        | removeLTE v => exact absurd hupd (hu v)
        | noContact b =>
          rw [hupd] at hp
          dsimp only at hp ⊢
          have e1 : (U β s).setRepl { zrr st with noContact := b } = U β (s.setRepl { st with noContact := b }) :=
            U_setRepl s { st with noContact := b }
          rw [e1]
          obtain ⟨i1, i2⟩ := ih hus' _ { f with noContactU := true } hp
          exact ⟨i1, i2⟩
        | newTerm v =>
          rw [hupd] at hp
          dsimp only at hp ⊢
          refine ⟨?_, rfl⟩
          show ((((U β s).setRole .follower).setLeader 0).setTerm v, _) = _
          rw [U_setRole, U_setLeader, U_setTerm]
          rfl

theorem replUpdLoop_flag (us : List ReplUpdate) (hus : NoRm us) : ∀ (s : Node) (f : UpdFlags),
    (replUpdLoop s f us).2.removeLTEU = f.removeLTEU := by
  induction us with
  | nil => intro s f; rfl
  | cons u us ih =>
    intro s f
    have hus' : NoRm us := fun x hx => hus x (List.mem_cons_of_mem _ hx)
    have hu := hus u (List.mem_cons_self ..)
    unfold replUpdLoop
    split
    · exact ih hus' s f
    · split
      · exact ih hus' s f
      · split
        · exact ih hus' _ _
        · rename_i v hv; exact absurd hv (hu v)
        · exact ih hus' _ _
        · rfl

@[usimp] theorem U_checkReplUpdates (s : Node) (us : List ReplUpdate) (hus : NoRm us)
    (hp : (s.checkReplUpdates us).panicked = none) :
    (U β s).checkReplUpdates us = U β (s.checkReplUpdates us) := by
  unfold Node.checkReplUpdates at hp ⊢
  have hfl : (replUpdLoop s {} us).2.removeLTEU = false := replUpdLoop_flag us hus s {}
  dsimp only at hp ⊢
  have hl : (replUpdLoop s {} us).1.panicked = none := by npk_core hp
  rw [(U_replUpdLoop us hus s {} hl).1]
  unfold Up
  dsimp only
  rw [hfl] at hp ⊢
  generalize replUpdLoop s {} us = r at hp ⊢
  obtain ⟨x, f⟩ := r
  dsimp only at hp ⊢
  by_cases hs : f.stop = true
  · simp only [if_pos hs]
  · simp only [if_neg hs, Bool.false_eq_true, false_and, if_false] at hp ⊢
    have e1 : (if f.matchU = true then onMajorityCommit (fuelFor 0) (U β x) else U β x) =
        U β (if f.matchU = true then onMajorityCommit (fuelFor 0) x else x) := by
      have h1 : (if f.matchU = true then onMajorityCommit (fuelFor 0) x else x).panicked = none := by npk_core hp
      by_cases hm : f.matchU = true
      · simp only [if_pos hm] at h1 ⊢; exact U_onMajorityCommit _ _ h1
      · simp only [if_neg hm]
    simp only [e1]
    generalize (if f.matchU = true then onMajorityCommit (fuelFor 0) x else x) = a1 at hp ⊢
    have e2 : (if f.noContactU = true then (U β a1).checkQuorum else U β a1) =
        U β (if f.noContactU = true then a1.checkQuorum else a1) := by
      split
      · exact U_checkQuorum a1
      · rfl
    simp only [e2]
    generalize (if f.noContactU = true then a1.checkQuorum else a1) = a2 at hp ⊢
    dsimp +instances only [uproj]
    split
    · exact U_tryTransfer a2
    · rfl

/-! ### the step -/

def pub1 (s : Node) (f : SnapFile) : Node := ({ s with snapsDisk := insertSnap f s.snapsDisk }).point "snap.publish"
def pub2 (s : Node) (f : SnapFile) : Node :=
  ({ s with snapIndex := f.index, snapTerm := f.term, snapsDisk := s.snapsDisk.take s.retain }).point "snap.retain"

theorem publishSnapshot_eq (s : Node) (f : SnapFile) : s.publishSnapshot f = pub2 (pub1 s f) f := rfl

@[usimp] theorem U_publishSnapshot (s : Node) (f : SnapFile) : (U β s).publishSnapshot f = U β (s.publishSnapshot f) := by
  rw [publishSnapshot_eq, publishSnapshot_eq]
  have e1 : pub1 (U β s) f = U β (pub1 s f) := by
    show (U β { s with snapsDisk := insertSnap f s.snapsDisk }).point "snap.publish" = _
    rw [U_point]; rfl
  rw [e1]
  generalize pub1 s f = s1
  show (U β { s1 with snapIndex := f.index, snapTerm := f.term, snapsDisk := s1.snapsDisk.take s1.retain }).point "snap.retain" = _
  rw [U_point]; rfl

@[usimp] theorem U_snapRun (s : Node) : (U β s).snapRun = U β s.snapRun := by
  unfold Node.snapRun
  have hp : True := trivial
  ucomm hp

/-- the operations that neither read the log below its first index in a way that depends on compaction (append
requests are treated separately), nor compact it, nor install a snapshot, nor change the configuration -/
def UPlain : Op → Prop
  | .append _ => False
  | .install _ => False
  | .snapTaken => False
  | .shutdown => False
  | .changeConfig _ _ => False
  | .replUpdates us => NoRm us
  | _ => True

@[usimp] theorem U_begin (s : Node) (ra : List Nat) (ord : List (List Nat)) : (U β s).begin ra ord = U β (s.begin ra ord) := rfl

theorem handle_U (s : Node) (op : Op) (h : UPlain op) (hp : (s.handle op).panicked = none) :
    (U β s).handle op = U β (s.handle op) := by
  cases op <;> unfold Node.handle at hp ⊢ <;> first | exact h.elim | skip
  case vote q => ucomm hp
  case timeoutNow => ucomm hp
  case identity a b c => ucomm hp
  case disconnected n => ucomm hp
  case timeout => ucomm hp
  case newEntries b => ucomm hp
  case takeSnapshot t th => ucomm hp
  case snapRun => ucomm hp
  case waitStable t => ucomm hp
  case transfer t g => ucomm hp
  case voteResult e t r => ucomm hp
  case replUpdates us =>
    dsimp +instances only [uproj] at hp ⊢
    split
    · rename_i hr
      rw [if_pos hr] at hp
      exact U_checkReplUpdates s us h hp
    · rfl
  case transferTimeout => ucomm hp
  case timeoutNowResult a b c =>
    dsimp +instances only [uproj] at hp ⊢
    split
    · rename_i hr
      rw [if_pos hr] at hp
      exact U_onTimeoutNowResult s a b c hp
    · rfl
  case newTermTimeout => ucomm hp

/-- **the step commutes with un-compaction** — for the operations `UPlain`, when the step on the compacted log does
not fail an assertion -/
theorem step_U (s : Node) (op : Op) (ra : List Nat) (ord : List (List Nat)) (h : UPlain op)
    (hp : (s.step op ra ord).panicked = none) :
    (U β s).step op ra ord = U β (s.step op ra ord) := by
  unfold Node.step at hp ⊢
  have hh : ((s.begin ra ord).handle op).panicked = none := by
    cases op <;> first | exact h.elim | (dsimp only at hp; npk_core hp)
  have e := handle_U (β := β) _ _ h hh
  cases op <;> first | exact h.elim | skip
  all_goals
    dsimp only at hp ⊢
    rw [U_begin, e, U_role, U_settle _ _ _ hp]

end SnapRelU
end Raft
