/-
The invariant of the cluster system with installation of snapshots (Sys/Snap3.lean), part e: the cluster after a node
installed a snapshot satisfies the invariant of stage 1 again (`installed_inv`), and the node's snapshot files agree with
its new virtual log — the prefix the snapshot stands for.
-/
import RaftVerif.Lemmas.SnapInst3d

namespace Raft
namespace SnapInst3
open Node Election LogRel Replication CommitRel Commit C02Sys C03Sys SnapRel SnapRelU SnapSim Snap Snap2 SnapInv SnapInv2
open SnapInst SnapInstU Snap3 SnapFrame

section
variable {V : List Nat}

/-! ### the view after a replacement -/

theorem replS_vnode (x : Snap3.Sys) (i : Nat) (post : Node) (β : List Entry) :
    (replS x i post β).s2.vnode = setNode x.s2.vnode i (U β post) := by
  funext j
  show U (setBase x.s2.base i β j) (setNode x.s2.cs.rp.el.node i post j) = _
  unfold setNode setBase
  split <;> rfl

theorem view_replS (x : Snap3.Sys) (i : Nat) (post : Node) (β : List Entry) :
    view3 (replS x i post β) =
      { cs := repl (view x.s2).cs i (U β post)
        snaps := newSnaps i (x.vnode i).snapsDisk (U β post).snapsDisk ++ (view x.s2).snaps } := by
  have hcs : (view3 (replS x i post β)).cs = repl (view x.s2).cs i (U β post) := by
    show withNodes (withNodes x.s2.cs _) (replS x i post β).s2.vnode = withNodes (withNodes x.s2.cs _) _
    rw [withNodes_withNodes, withNodes_withNodes, replS_vnode]
    rfl
  exact sys_ext hcs rfl

theorem replS_node_i (x : Snap3.Sys) (i : Nat) (post : Node) (β : List Entry) : (replS x i post β).node i = post :=
  setNode_same _ _ _

theorem replS_node_j (x : Snap3.Sys) (i : Nat) (post : Node) (β : List Entry) {j : Nat} (hj : j ≠ i) :
    (replS x i post β).node j = x.node j := setNode_other _ _ _ _ hj

theorem replS_vnode_i (x : Snap3.Sys) (i : Nat) (post : Node) (β : List Entry) :
    (replS x i post β).vnode i = U β post := by
  show (replS x i post β).s2.vnode i = _
  rw [replS_vnode]; exact setNode_same _ _ _

theorem replS_vnode_j (x : Snap3.Sys) (i : Nat) (post : Node) (β : List Entry) {j : Nat} (hj : j ≠ i) :
    (replS x i post β).vnode j = x.vnode j := by
  show (replS x i post β).s2.vnode j = _
  rw [replS_vnode]; exact setNode_other _ _ _ _ hj

/-- nothing changes for the other nodes -/
theorem vterm_other {x : Snap3.Sys} (i : Nat) (post : Node) (β : List Entry) {j : Nat} (hj : j ≠ i)
    (h : VTerm x j) : VTerm (replS x i post β) j := by
  refine ⟨?_, ?_⟩
  · show ∀ f ∈ ((replS x i post β).node j).snapsDisk, termAt ((replS x i post β).vnode j).log.entries f.index = f.term
    rw [replS_node_j _ _ _ _ hj, replS_vnode_j _ _ _ _ hj]; exact h.files
  · show ((replS x i post β).node j).snapTerm = (headOf ((replS x i post β).node j).snapsDisk).term
    rw [replS_node_j _ _ _ _ hj]; exact h.head

theorem cmt_mono_u {z : Commit.Sys} {a : Nat × Nat} {u u' : Nat} (h : Cmt z a u) (hu : u ≤ u') : Cmt z a u' := by
  obtain ⟨m, hm, h1, h2⟩ := h
  exact ⟨m, hm, Nat.le_trans h1 hu, h2⟩

/-! ### the installed node -/

theorem uncLog_reset_entries (P : List Entry) (p : Nat) (h : P.length = p) :
    (uncLog P (NLog.reset p)).entries = P := by
  show pad P p ++ [] = P
  rw [List.append_nil, ← h, pad_eq]

theorem uncLog_reset_lwf (P : List Entry) (p : Nat) : C06.LogWF (uncLog P (NLog.reset p)) := by
  unfold C06.LogWF
  rw [uncLog_lastSegPrev, uncLog_last]
  show (NLog.reset p).lastSegPrev ≤ p ∧ p ≤ (NLog.reset p).last
  unfold NLog.lastSegPrev NLog.last NLog.reset
  simp

/-- the old log does not hold the last entry of the snapshot when the handler decides to install -/
theorem not_holds_of_installs {x : Snap3.Sys} (hI : Inv3 V x) {i : Nat} {q : InstallReq} (hi : Installs (x.node i) q) :
    ¬ Holds (x.vlog i) q.lastIndex q.lastTerm := by
  intro hh
  obtain ⟨h1, h2, h3⟩ := hh
  have so : SnapOK (x.vnode i) := hI.sinv.snap i
  have hsc : (x.node i).snapIndex ≤ (x.node i).commitIndex := by
    show (x.vnode i).snapIndex ≤ (x.vnode i).commitIndex
    rw [so.head]; exact so.files.head_le
  have hlt : (x.node i).log.prev < q.lastIndex := by
    have := (hI.prev i).le; have := hi.2.1; omega
  have hlast : q.lastIndex ≤ (x.node i).log.last := by rw [← vlog_length]; exact h2
  have hk : C09.keepsLog (x.node i) q = true := by
    unfold C09.keepsLog NLog.contains Node.entryTerm?
    have hv : (x.vnode i).log.get? q.lastIndex = (x.node i).log.get? q.lastIndex := U_get? (x.node i) _ hlt
    rw [← hv]
    have hg : (x.vnode i).log.get? q.lastIndex = (x.vlog i)[q.lastIndex - 1]? := by
      unfold NLog.get?
      rw [if_pos (show (x.vnode i).log.prev < q.lastIndex from by show 0 < q.lastIndex; omega)]
      show (x.vlog i)[q.lastIndex - 0 - 1]? = _
      rw [Nat.sub_zero]
    rw [hg]
    have hlen : q.lastIndex - 1 < (x.vlog i).length := by omega
    rw [List.getElem?_eq_getElem hlen]
    unfold termAt at h3
    rw [if_neg (by omega), List.getElem?_eq_getElem hlen] at h3
    simp only [Option.map_some, Option.getD_some] at h3
    have e1 : decide ((x.node i).log.prev < q.lastIndex) = true := decide_eq_true hlt
    have e2 : decide (q.lastIndex ≤ (x.node i).log.last) = true := decide_eq_true hlast
    rw [e1, e2]
    simp [h3]
  rw [hi.2.2] at hk; cases hk

/-- **the cluster after node `i` installed the snapshot of the message `m`** (by the completed handler or by a restart
from a disk that holds the received file): the invariant of stage 1 holds for the cluster of the virtual nodes, in which
the virtual log of `i` is the prefix `m.pre` the snapshot stands for; the log of `i` starts at its snapshot index; its
snapshot files agree with that prefix. -/
theorem installed_inv (_hV : V.Nodup) {x : Snap3.Sys} (hI : Inv3 V x) {i : Nat} {m : SnapMsg} {post : Node}
    (hm : MsgOK (view3 x).cs m) (hi : Installs (x.node i) m.q) (h : Installed (x.node i) m.q post) :
    SInv V (view3 (replS x i post m.pre)) ∧ PrevOK post ∧ VTerm (replS x i post m.pre) i := by
  have hI1 := hI.sinv
  have hc := hI1.cinv
  have so : SnapOK (x.vnode i) := hI1.snap i
  have hsc : (x.node i).snapIndex ≤ (x.node i).commitIndex := by
    show (x.vnode i).snapIndex ≤ (x.vnode i).commitIndex
    rw [so.head]; exact so.files.head_le
  have hahead : (x.node i).commitIndex < m.q.lastIndex := hi.2.1
  have hPlen := hm.len
  have hne : 1 ≤ m.pre.length := by rw [hPlen]; exact hm.pos
  have hlog : (U m.pre post).log.entries = m.pre := by
    show (uncLog m.pre post.log).entries = _
    rw [h.log]; exact uncLog_reset_entries _ _ hPlen
  have hpath : Path (eview (view3 x).cs).T m.pre := hm.path
  have hcmt : Cmt (eview (view3 x).cs) (m.pre.length, lastTerm m.pre) m.q.term := hm.cmt
  -- the prefix agrees with the old virtual log on what the old commit index covered
  have hagree : m.pre.take (x.node i).commitIndex = (x.vlog i).take (x.node i).commitIndex :=
    path_agree_commit hc hpath hne hcmt i _ (Nat.le_refl _) (by rw [hPlen]; exact Nat.le_of_lt hahead)
  have hnot : ¬ Holds ((eview (view3 x).cs).node i).log.entries m.pre.length (lastTerm m.pre) := by
    rw [hPlen, hm.lastT]
    exact not_holds_of_installs hI hi
  have hstab := stable_of_committed hc hpath hne hcmt hnot
  have hfl : (U m.pre post).log.flushed = m.pre.length := by
    show post.log.flushed = _
    rw [h.log, hPlen]; rfl
  -- the files
  have hfiles0 : FilesOK m.pre m.q.lastIndex (x.node i).snapsDisk :=
    so.files.mono (Nat.le_of_lt hahead) hagree
  have hdata : (C09.fileOf m.q).data = ups (m.pre.take (C09.fileOf m.q).index) := by
    show m.q.data = ups (m.pre.take m.q.lastIndex)
    rw [hm.data, List.take_of_length_le (by rw [hPlen]; exact Nat.le_refl _)]
  have hheadlt : (headOf (x.node i).snapsDisk).index < (C09.fileOf m.q).index := by
    show _ < m.q.lastIndex
    have : (headOf (x.node i).snapsDisk).index = (x.node i).snapIndex := so.head.symm
    omega
  obtain ⟨c1, c2⟩ := hfiles0.cons (C09.fileOf m.q) hm.pos (Nat.le_refl _) hdata hheadlt
  obtain ⟨r, hr'⟩ : ∃ r, (x.node i).retain = r + 1 := ⟨(x.node i).retain - 1, by have hr1 : 1 ≤ (x.node i).retain := so.retain; omega⟩
  have hsd : post.snapsDisk = C09.fileOf m.q :: (x.node i).snapsDisk ∨
      post.snapsDisk = C09.fileOf m.q :: (x.node i).snapsDisk.take r := by
    rcases h.files with e | e
    · left; rw [e, c1]
    · right; rw [e, c1, hr']; rfl
  have hsub : post.snapsDisk.Sublist (C09.fileOf m.q :: (x.node i).snapsDisk) := by
    rcases hsd with e | e <;> rw [e]
    · exact List.Sublist.refl _
    · exact (List.take_sublist r _).cons_cons _
  have hhd : headOf post.snapsDisk = C09.fileOf m.q := by
    rcases hsd with e | e <;> rw [e] <;> rfl
  have hmem : ∀ g ∈ post.snapsDisk, g = C09.fileOf m.q ∨ g ∈ (x.node i).snapsDisk := by
    intro g hg
    rcases List.mem_cons.mp (hsub.subset hg) with e | e
    · exact Or.inl e
    · exact Or.inr e
  have hvr : VRepl (view3 x) i (U m.pre post) := by
    refine ⟨⟨h.nid, h.tv, h.vwf, h.role, ?_, ?_, ?_, ?_, ?_, ?_, ?_, ?_⟩, ?_, ?_, ?_, ?_, ?_⟩
    · -- NWF
      refine ⟨rfl, rfl, rfl, ?_, ?_, ?_⟩
      · show ∀ k (hk : k < (U m.pre post).log.entries.length), (U m.pre post).log.entries[k].index = k + 1
        rw [hlog]; exact hm.path.2
      · show post.lastLogIndex = (U m.pre post).log.entries.length
        rw [hlog, h.lastI, hPlen]
      · show post.lastLogTerm = lastTerm (U m.pre post).log.entries
        rw [hlog, h.lastT, hm.lastT]
    · show C06.LogWF (uncLog m.pre post.log)
      rw [h.log]; exact uncLog_reset_lwf _ _
    · intro k h1 h2
      have h1' : (U m.pre post).log.flushed < k := h1
      have h2' : k ≤ (U m.pre post).log.entries.length := h2
      rw [hfl] at h1'; rw [hlog] at h2'; omega
    · show Path _ (U m.pre post).log.entries
      rw [hlog]; exact hpath
    · intro e he
      have he' : e ∈ (U m.pre post).log.entries := he
      rw [hlog] at he'
      exact Nat.le_trans (hm.termLe e he') h.termGe
    · intro k h1 h2
      have h2' : k ≤ post.commitIndex := h2
      rw [h.commit] at h2'
      show k ≤ (U m.pre post).log.entries.length ∧ Cmt _ (k, termAt (U m.pre post).log.entries k) post.term
      rw [hlog]
      exact ⟨by rw [hPlen]; exact h2', cmt_mono_u (path_cmt (uniq hc) hpath hne hcmt k h1 (by rw [hPlen]; exact h2')) h.termGe⟩
    · -- the state machine
      refine ⟨?_, ?_, ?_, Nat.zero_le _⟩
      · show post.fsm.index ≤ post.commitIndex
        rw [h.fsm, h.commit]; exact Nat.le_refl _
      · show post.fsm.index ≤ (U m.pre post).log.entries.length
        rw [hlog, h.fsm, hPlen]; exact Nat.le_refl _
      · show post.fsm.applied = ups ((U m.pre post).log.entries.take post.fsm.index)
        rw [hlog, h.fsm]
        exact hdata
    · intro b hb _
      rcases hstab b hb.2 with hh | hu
      · left
        refine ⟨?_, ?_⟩
        · show b.1 ≤ (U m.pre post).log.flushed
          rw [hfl]; exact hh.2.1
        · show Holds (U m.pre post).log.entries b.1 b.2
          rw [hlog]; exact hh
      · exact Or.inr (unsafe_mono h.termGe hu)
    · -- SnapOK
      refine ⟨h.retain, ?_, ?_, ?_⟩
      · show FilesOK (U m.pre post).log.entries post.commitIndex post.snapsDisk
        rw [hlog, h.commit]
        exact c2.sub hsub
      · show post.snapIndex = (headOf post.snapsDisk).index
        rw [hhd, h.snapI]; rfl
      · show post.snapIndex ≤ post.fsm.index
        rw [h.snapI, h.fsm]; exact Nat.le_refl _
    · show (x.node i).commitIndex ≤ post.commitIndex
      rw [h.commit]; exact Nat.le_of_lt hahead
    · show (U m.pre post).log.entries.take (x.node i).commitIndex = (x.vlog i).take (x.node i).commitIndex
      rw [hlog]; exact hagree
    · show (x.node i).snapIndex ≤ post.snapIndex
      rw [h.snapI]; omega
    · intro g hg
      rcases hmem g hg with e | e
      · right
        rw [e]
        refine ⟨hm.pos, by show m.q.lastIndex ≤ post.snapIndex; rw [h.snapI]; exact Nat.le_refl _, ?_⟩
        show (C09.fileOf m.q).data = ups ((U m.pre post).log.entries.take (C09.fileOf m.q).index)
        rw [hlog]; exact hdata
      · exact Or.inl e
  refine ⟨by rw [view_replS]; exact sinv_replace hI1 hvr, ⟨?_, fun rs hrs => by rw [h.snapI]; exact h.res rs hrs⟩, ?_⟩
  · rw [h.log, h.snapI]; exact Nat.le_refl _
  · refine ⟨?_, ?_⟩
    · show ∀ f ∈ ((replS x i post m.pre).node i).snapsDisk,
        termAt ((replS x i post m.pre).vnode i).log.entries f.index = f.term
      rw [replS_node_i, replS_vnode_i, hlog]
      intro g hg
      rcases hmem g hg with e | e
      · rw [e]
        show termAt m.pre m.q.lastIndex = m.q.lastTerm
        rw [← hPlen, termAt_length, hm.lastT]
      · have hgi : g.index ≤ (x.node i).commitIndex := by
          have := so.files.le_head g e
          rw [← so.head] at this
          exact Nat.le_trans this hsc
        rw [termAt_take_eq hagree hgi]
        exact (hI.vterm i).files g e
    · show ((replS x i post m.pre).node i).snapTerm = (headOf ((replS x i post m.pre).node i).snapsDisk).term
      rw [replS_node_i, hhd, h.snapT]; rfl

end

end SnapInst3
end Raft
